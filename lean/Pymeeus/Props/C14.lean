import Pymeeus.Refine.SeasonModel
import Pymeeus.Spec.SunEvents
/-
C14 — Seasons, equation of time and sunrise/sunset agree with the solar position.

Property theorems only.  They are statements about `Pymeeus.GenR.SunEvents`, the real-number
instantiation of templates/SunEvents.lean (the binary64 instantiation of the same text is compared
bit for bit with CPython by harness/c14.py).  `sunLon` (Sun.apparent_geocentric_position) and
`mk` (the constructor Epoch(jde)) are parameters of the model; every theorem quantifies over them.
All numerical bounds of the property statement are measured by the harness, not proved.
-/
namespace Pymeeus.C14
open Pymeeus Pymeeus.PR Pymeeus.GenR.SunEvents Pymeeus.Refine.SunEvents

/-! ## Seasons -/

/-- "other years raise ValueError": the approximate instant is refused exactly outside
    −1000 … 3000 (bounds as coded: `year >= -1000`, `year <= 3000`). -/
theorem season_jde0_valueerror_iff (year k : Int) :
    season_jde0 year k = .error .valueError ↔ (year < -1000 ∨ 3000 < year) := by
  unfold season_jde0
  by_cases h1 : year ≥ -1000 ∧ year < 1000
  · simp only [h1, and_self, if_true]
    constructor
    · intro h; split_ifs at h
    · intro h; omega
  · by_cases h2 : year ≥ 1000 ∧ year ≤ 3000
    · simp only [h1, h2, and_self, if_true, if_false]
      constructor
      · intro h; split_ifs at h
      · intro h; omega
    · simp only [h1, h2, if_false, true_iff]
      omega

/-- "other years raise ValueError", on the whole function: for a valid target, whatever the solar
    longitude function, the Epoch constructor and the fuel. -/
theorem season_year_out_of_range (mk : ℝ → PyRes ℝ) (sunLon : ℝ → ℝ) (fuel : Nat) (year : Int)
    (target : String) (ht : target = "spring" ∨ target = "summer" ∨ target = "autumn" ∨ target = "winter")
    (hy : year < -1000 ∨ 3000 < year) :
    get_equinox_solstice mk sunLon fuel year target = .error .valueError := by
  unfold get_equinox_solstice
  rcases ht with rfl | rfl | rfl | rfl <;>
    simp [season_index, (season_jde0_valueerror_iff year _).mpr hy]

/-- A year inside −1000 … 3000 is not refused: with a total Epoch constructor the result is never an
    exception (it is an instant or "out of fuel"). -/
theorem season_year_in_range (mk : ℝ → PyRes ℝ) (hmk : ∀ x, ∃ y, mk x = .ok y) (sunLon : ℝ → ℝ)
    (fuel : Nat) (year : Int) (target : String)
    (ht : target = "spring" ∨ target = "summer" ∨ target = "autumn" ∨ target = "winter")
    (hy : -1000 ≤ year ∧ year ≤ 3000) :
    ∃ r, get_equinox_solstice mk sunLon fuel year target = .ok r := by
  obtain ⟨k, hk⟩ : ∃ k, season_index target = .ok k := by
    rcases ht with rfl | rfl | rfl | rfl <;> simp [season_index]
  obtain ⟨j, hj⟩ := season_jde0_ok (k := k) hy
  obtain ⟨e0, he0⟩ := hmk j
  unfold get_equinox_solstice
  simp only [hk, hj, he0]
  cases hl : loopFuel (season_step mk sunLon k) fuel e0 with
  | none => exact ⟨none, rfl⟩
  | some r =>
    cases r with
    | ok e => exact ⟨some e, rfl⟩
    | error err =>
      obtain ⟨s', hs'⟩ := loopFuel_exit _ _ _ _ hl
      exact absurd hs' (season_step_no_error hmk sunLon k s' err)

/-- "ValueError if 'target' value is invalid": any string other than the four names, for every year. -/
theorem season_bad_target (mk : ℝ → PyRes ℝ) (sunLon : ℝ → ℝ) (fuel : Nat) (year : Int) (target : String)
    (ht : target ≠ "spring" ∧ target ≠ "summer" ∧ target ≠ "autumn" ∧ target ≠ "winter") :
    get_equinox_solstice mk sunLon fuel year target = .error .valueError := by
  unfold get_equinox_solstice season_index
  simp [ht.1, ht.2.1, ht.2.2.1, ht.2.2.2]

/-- The two polynomial families are selected as documented: table 27.A below year 1000, table 27.B
    from year 1000, evaluated at Y = year/1000 resp. (year − 2000)/1000; the season index picks the row. -/
theorem season_polynomial (year : Int) (k : Fin 4) (hy : -1000 ≤ year ∧ year ≤ 3000) :
    season_jde0 year (k : Int) = .ok (Spec.SunEvents.jde0 year k) := by
  exact season_jde0_eq_spec year k hy

/-- "the four instants of a year are in order and 88-95 days apart" — PARTIAL: proved for the four
    APPROXIMATE instants `jde0` the search starts from (Meeus' tables), for every year −1000 … 3000:
    spring < summer < autumn < winter, consecutive ones 88 to 95 days apart.
    Full clause (measured by the harness for all 4001 years): the same for the RETURNED instants.
    Missing: a bound on the sum of the loop's corrections `58·sin(k·90° − λ)`, i.e. on how far the
    VSOP87 longitude at `jde0` is from `k·90°` — an agreement between two independent series. -/
theorem season_order_partial (year : Int) (hy : -1000 ≤ year ∧ year ≤ 3000) :
    ∃ j0 j1 j2 j3 : ℝ, season_jde0 year 0 = .ok j0 ∧ season_jde0 year 1 = .ok j1 ∧
      season_jde0 year 2 = .ok j2 ∧ season_jde0 year 3 = .ok j3 ∧
      88 ≤ j1 - j0 ∧ j1 - j0 ≤ 95 ∧ 88 ≤ j2 - j1 ∧ j2 - j1 ≤ 95 ∧ 88 ≤ j3 - j2 ∧ j3 - j2 ≤ 95 := by
  have e0 := season_jde0_eq_spec year 0 hy
  have e1 := season_jde0_eq_spec year 1 hy
  have e2 := season_jde0_eq_spec year 2 hy
  have e3 := season_jde0_eq_spec year 3 hy
  refine ⟨_, _, _, _, e0, e1, e2, e3, ?_⟩
  have hyr : (-1000 : ℝ) ≤ year ∧ (year : ℝ) ≤ 3000 := ⟨by exact_mod_cast hy.1, by exact_mod_cast hy.2⟩
  unfold Spec.SunEvents.jde0
  split_ifs with h1
  · have h1r : (year : ℝ) < 1000 := by exact_mod_cast h1
    have hY : |(year : ℝ) / 1000| ≤ 1 := by rw [abs_le]; constructor <;> linarith
    have l10 := poly4_ge (rowSub (Spec.SunEvents.table27A 1) (Spec.SunEvents.table27A 0)) _ hY
    have u10 := poly4_le (rowSub (Spec.SunEvents.table27A 1) (Spec.SunEvents.table27A 0)) _ hY
    have l21 := poly4_ge (rowSub (Spec.SunEvents.table27A 2) (Spec.SunEvents.table27A 1)) _ hY
    have u21 := poly4_le (rowSub (Spec.SunEvents.table27A 2) (Spec.SunEvents.table27A 1)) _ hY
    have l32 := poly4_ge (rowSub (Spec.SunEvents.table27A 3) (Spec.SunEvents.table27A 2)) _ hY
    have u32 := poly4_le (rowSub (Spec.SunEvents.table27A 3) (Spec.SunEvents.table27A 2)) _ hY
    rw [← poly4_sub] at l10 u10 l21 u21 l32 u32
    generalize Spec.SunEvents.poly4 (Spec.SunEvents.table27A 0) ((year : ℝ) / 1000) = p0 at *
    generalize Spec.SunEvents.poly4 (Spec.SunEvents.table27A 1) ((year : ℝ) / 1000) = p1 at *
    generalize Spec.SunEvents.poly4 (Spec.SunEvents.table27A 2) ((year : ℝ) / 1000) = p2 at *
    generalize Spec.SunEvents.poly4 (Spec.SunEvents.table27A 3) ((year : ℝ) / 1000) = p3 at *
    simp only [rowSub, Spec.SunEvents.table27A] at l10 u10 l21 u21 l32 u32
    norm_num [abs_of_pos, abs_of_neg] at l10 u10 l21 u21 l32 u32
    refine ⟨?_, ?_, ?_, ?_, ?_, ?_⟩ <;> linarith
  · have h1r : (1000 : ℝ) ≤ year := by exact_mod_cast (not_lt.mp h1)
    have hY : |((year : ℝ) - 2000) / 1000| ≤ 1 := by rw [abs_le]; constructor <;> linarith
    have l10 := poly4_ge (rowSub (Spec.SunEvents.table27B 1) (Spec.SunEvents.table27B 0)) _ hY
    have u10 := poly4_le (rowSub (Spec.SunEvents.table27B 1) (Spec.SunEvents.table27B 0)) _ hY
    have l21 := poly4_ge (rowSub (Spec.SunEvents.table27B 2) (Spec.SunEvents.table27B 1)) _ hY
    have u21 := poly4_le (rowSub (Spec.SunEvents.table27B 2) (Spec.SunEvents.table27B 1)) _ hY
    have l32 := poly4_ge (rowSub (Spec.SunEvents.table27B 3) (Spec.SunEvents.table27B 2)) _ hY
    have u32 := poly4_le (rowSub (Spec.SunEvents.table27B 3) (Spec.SunEvents.table27B 2)) _ hY
    rw [← poly4_sub] at l10 u10 l21 u21 l32 u32
    generalize Spec.SunEvents.poly4 (Spec.SunEvents.table27B 0) (((year : ℝ) - 2000) / 1000) = p0 at *
    generalize Spec.SunEvents.poly4 (Spec.SunEvents.table27B 1) (((year : ℝ) - 2000) / 1000) = p1 at *
    generalize Spec.SunEvents.poly4 (Spec.SunEvents.table27B 2) (((year : ℝ) - 2000) / 1000) = p2 at *
    generalize Spec.SunEvents.poly4 (Spec.SunEvents.table27B 3) (((year : ℝ) - 2000) / 1000) = p3 at *
    simp only [rowSub, Spec.SunEvents.table27B] at l10 u10 l21 u21 l32 u32
    norm_num [abs_of_pos, abs_of_neg] at l10 u10 l21 u21 l32 u32
    refine ⟨?_, ?_, ?_, ?_, ?_, ?_⟩ <;> linarith

/-- "successive same-season instants are 365.2-365.3 days apart" — PARTIAL, as above: proved for the
    APPROXIMATE instants `jde0` of every pair of consecutive years in −1000 … 3000 and each season,
    including the pair 999/1000 where the code switches from table 27.A to table 27.B.
    Full clause (measured): the same for the returned instants; missing: the same bound on the
    loop's corrections as in `season_order_partial`. -/
theorem season_year_partial (year : Int) (k : Fin 4) (hy : -1000 ≤ year ∧ year ≤ 2999) :
    ∃ j j' : ℝ, season_jde0 year k = .ok j ∧ season_jde0 (year + 1) k = .ok j' ∧
      365.2 ≤ j' - j ∧ j' - j ≤ 365.3 := by
  have e := season_jde0_eq_spec year k ⟨hy.1, by omega⟩
  have e' := season_jde0_eq_spec (year + 1) k ⟨by omega, by omega⟩
  refine ⟨_, _, e, e', ?_⟩
  have hyr : (-1000 : ℝ) ≤ year ∧ (year : ℝ) ≤ 2999 := ⟨by exact_mod_cast hy.1, by exact_mod_cast hy.2⟩
  unfold Spec.SunEvents.jde0
  by_cases h1 : year + 1 < 1000
  · have h0 : year < 1000 := by omega
    have h0r : (year : ℝ) < 999 := by exact_mod_cast (by omega : year < 999)
    simp only [h1, h0, if_true]
    have hY : |(year : ℝ) / 1000| ≤ 1 := by rw [abs_le]; constructor <;> linarith
    have eY : (((year + 1 : ℤ) : ℝ)) / 1000 = (year : ℝ) / 1000 + 1 / 1000 := by push_cast; ring
    rw [eY]
    have st := abs_le.mp (poly4_step (Spec.SunEvents.table27A k) _ hY)
    generalize Spec.SunEvents.poly4 (Spec.SunEvents.table27A k) ((year : ℝ) / 1000 + 1 / 1000) = q at *
    generalize Spec.SunEvents.poly4 (Spec.SunEvents.table27A k) ((year : ℝ) / 1000) = p at *
    fin_cases k <;> simp only [Spec.SunEvents.table27A] at st <;>
      norm_num [abs_of_pos, abs_of_neg] at st <;> constructor <;> linarith [st.1, st.2]
  · by_cases h2 : year < 1000
    · have h999 : year = 999 := by omega
      subst h999
      simp only [Spec.SunEvents.poly4]
      fin_cases k <;> norm_num [Spec.SunEvents.table27A, Spec.SunEvents.table27B]
    · have h1000r : (1000 : ℝ) ≤ year := by exact_mod_cast (not_lt.mp h2)
      simp only [h1, h2, if_false]
      have hY : |((year : ℝ) - 2000) / 1000| ≤ 1 := by rw [abs_le]; constructor <;> linarith
      have eY : ((((year + 1 : ℤ) : ℝ)) - 2000) / 1000 = ((year : ℝ) - 2000) / 1000 + 1 / 1000 := by push_cast; ring
      rw [eY]
      have st := abs_le.mp (poly4_step (Spec.SunEvents.table27B k) _ hY)
      generalize Spec.SunEvents.poly4 (Spec.SunEvents.table27B k) (((year : ℝ) - 2000) / 1000 + 1 / 1000) = q at *
      generalize Spec.SunEvents.poly4 (Spec.SunEvents.table27B k) (((year : ℝ) - 2000) / 1000) = p at *
      fin_cases k <;> simp only [Spec.SunEvents.table27B] at st <;>
        norm_num [abs_of_pos, abs_of_neg] at st <;> constructor <;> linarith [st.1, st.2]

/-- Direction of the correction: for a solar longitude in [0°, 360°) and a season index 0…3, the
    angle whose sine is taken is exactly `k·90° − λ`; the correction is POSITIVE (the epoch moves
    later) when the Sun is up to 180° short of the target longitude and NEGATIVE when it is up to 180°
    past it, and it is the same for `λ` and its antipode up to sign (`sin` is odd about 180°) — which
    is why the loop condition alone cannot tell `k·90°` from `k·90° + 180°`. -/
theorem season_corr_sign (k : Int) (lon : ℝ) (hk : 0 ≤ k ∧ k ≤ 3) (hl : 0 ≤ lon ∧ lon < 360) :
    season_arg k lon = (k : ℝ) * 90 - lon ∧
    (0 < (k : ℝ) * 90 - lon → (k : ℝ) * 90 - lon < 180 → 0 < season_corr k lon) ∧
    (-180 < (k : ℝ) * 90 - lon → (k : ℝ) * 90 - lon < 0 → season_corr k lon < 0) := by
  have hkr : (0 : ℝ) ≤ k ∧ (k : ℝ) ≤ 3 := ⟨by exact_mod_cast hk.1, by exact_mod_cast hk.2⟩
  have hpi := Real.pi_pos
  have harg : season_arg k lon = (k : ℝ) * 90 - lon := by
    unfold season_arg aNeg aSubF aAdd
    have h1 : aToPositive lon = lon := by
      unfold aToPositive plt
      have : ¬ (lon < 0.0) := by norm_num; exact hl.1
      simp only [this, decide_false]; rfl
    rw [h1]
    have h2 : aReduce (lon + -(ofInt k * 90.0)) = lon - k * 90 := by
      rw [aReduce_of_abs_lt]
      · unfold ofInt; norm_num; ring
      · unfold ofInt; rw [abs_lt]; constructor <;> norm_num <;> nlinarith [hkr.1, hkr.2, hl.1, hl.2]
    rw [h2, aReduce_of_abs_lt (by rw [abs_lt]; constructor <;> nlinarith [hkr.1, hkr.2, hl.1, hl.2])]
    ring
  refine ⟨harg, ?_, ?_⟩
  · intro h0 h1
    unfold season_corr psin pradians
    rw [harg]
    have : 0 < Real.sin (((k : ℝ) * 90 - lon) * (Real.pi / 180)) :=
      Real.sin_pos_of_pos_of_lt_pi (by positivity) (by nlinarith)
    norm_num; exact this
  · intro h0 h1
    unfold season_corr psin pradians
    rw [harg]
    have : Real.sin (((k : ℝ) * 90 - lon) * (Real.pi / 180)) < 0 :=
      Real.sin_neg_of_neg_of_neg_pi_lt (by nlinarith) (by nlinarith)
    norm_num; linarith

/-- Loop post-condition (partial correctness, ANY solar-longitude function, ANY Epoch constructor):
    if `get_equinox_solstice` returns an instant `e`, there is an instant `eLast` — the last one at
    which the solar longitude was evaluated — such that the correction `corr = 58 sin(k·90° − λ(eLast))`
    computed there is at most 0.0000025 in absolute value and `e = Epoch(Epoch(eLast + corr) − corr)`
    (the final `epoch -= corr` undoes the last `epoch += corr`). Nothing is said about termination. -/
theorem season_post (mk : ℝ → PyRes ℝ) (sunLon : ℝ → ℝ) (fuel : Nat) (year : Int) (target : String) (e : ℝ)
    (h : get_equinox_solstice mk sunLon fuel year target = .ok (some e)) :
    ∃ k : Int, season_index target = .ok k ∧ ∃ eLast e' : ℝ,
      mk (eLast + season_corr k (sunLon eLast)) = .ok e' ∧
      mk (e' - season_corr k (sunLon eLast)) = .ok e ∧
      |season_corr k (sunLon eLast)| ≤ 0.0000025 := by
  unfold get_equinox_solstice at h
  cases hk : season_index target with
  | error err => rw [hk] at h; simp at h
  | ok k =>
    rw [hk] at h; simp only at h
    cases hj : season_jde0 year k with
    | error err => rw [hj] at h; simp at h
    | ok j =>
      rw [hj] at h; simp only at h
      cases he0 : mk j with
      | error err => rw [he0] at h; simp at h
      | ok e0 =>
        rw [he0] at h; simp only at h
        cases hl : loopFuel (season_step mk sunLon k) fuel e0 with
        | none => rw [hl] at h; simp at h
        | some r =>
          rw [hl] at h
          cases r with
          | error err => simp at h
          | ok e1 =>
            simp only [Except.ok.injEq, Option.some.injEq] at h
            subst h
            obtain ⟨s', hs'⟩ := loopFuel_exit _ _ _ _ hl
            obtain ⟨e', h1, h2, h3⟩ := season_step_exit hs'
            exact ⟨k, rfl, s', e', h1, h2, h3⟩

/-- Loop post-condition with the ideal constructor (`Epoch(x)` stores `x`): the returned instant `e`
    IS the last instant at which the solar longitude was evaluated, `|58 sin(k·90° − λ(e))| ≤ 0.0000025`,
    and therefore `λ(e)` is within `arcsin(0.0000025/58)` (in degrees) of `k·90°` OR OF ITS ANTIPODE
    `k·90° + 180°` (`n` even / odd) — that is all the loop condition gives; which of the two the
    iteration reaches is not proved (measured by the harness for every year −1000 … 3000). -/
theorem season_post_ideal (sunLon : ℝ → ℝ) (fuel : Nat) (year : Int) (target : String) (e : ℝ)
    (h : get_equinox_solstice (fun x => .ok x) sunLon fuel year target = .ok (some e)) :
    ∃ k : Int, season_index target = .ok k ∧
      |58 * Real.sin (season_arg k (sunLon e) * (Real.pi / 180))| ≤ 0.0000025 ∧
      ∃ n : ℤ, |((k : ℝ) * 90 - sunLon e) - 180 * n| ≤ Real.arcsin (0.0000025 / 58) * (180 / Real.pi) := by
  obtain ⟨k, hk, eLast, e', h1, h2, h3⟩ := season_post _ sunLon fuel year target e h
  simp only [Except.ok.injEq] at h1 h2
  have he : e = eLast := by rw [← h2, ← h1]; ring
  subst he
  obtain ⟨hc, hn⟩ := season_angle_of_corr k (sunLon e) h3
  exact ⟨k, hk, hc, hn⟩

/-- The same in plain degrees: at the returned instant the solar longitude is within 2.5·10⁻⁶ degree
    of `k·90° + n·180°` for some integer `n` (the property's tolerance is 10⁻⁵ degree; that `n` is
    even — the longitude is `k·90°` and not its antipode — is measured, not proved). -/
theorem season_post_degrees (sunLon : ℝ → ℝ) (fuel : Nat) (year : Int) (target : String) (e : ℝ)
    (h : get_equinox_solstice (fun x => .ok x) sunLon fuel year target = .ok (some e)) :
    ∃ k : Int, season_index target = .ok k ∧ ∃ n : ℤ, |((k : ℝ) * 90 - sunLon e) - 180 * n| ≤ 0.0000025 := by
  obtain ⟨k, hk, _, n, hn⟩ := season_post_ideal sunLon fuel year target e h
  exact ⟨k, hk, n, le_trans hn season_angle_bound⟩

/-- The loop post-condition for the model's OWN constructor `mkEpoch` — `Epoch(jde)` as coded: store,
    `get_full_date()`, `_compute_jde()` — with no hypothesis on it: over ℝ that constructor is the
    identity on `jde ≥ 0` (`mkEpoch_exact`, the real-number form of C02's `set_jde_exact`), Meeus'
    approximate instants are ≥ 1 350 000 and a pass moves the instant by at most 58 days, so for up to
    20 000 passes (the implementation makes 3–4) every instant visited is one the constructor keeps.
    Conclusion as in `season_post_ideal` / `season_post_degrees`: the returned instant `e` is the last
    one the solar longitude was evaluated at and that longitude is within 2.5·10⁻⁶ degree of
    `k·90°` or of its antipode, for ANY solar-longitude function. -/
theorem season_post_model (sunLon : ℝ → ℝ) (fuel : Nat) (hf : fuel ≤ 20000) (year : Int) (target : String)
    (e : ℝ) (h : get_equinox_solstice mkEpoch sunLon fuel year target = .ok (some e)) :
    ∃ k : Int, season_index target = .ok k ∧
      |58 * Real.sin (season_arg k (sunLon e) * (Real.pi / 180))| ≤ 0.0000025 ∧
      ∃ n : ℤ, |((k : ℝ) * 90 - sunLon e) - 180 * n| ≤ 0.0000025 := by
  unfold get_equinox_solstice at h
  cases hk : season_index target with
  | error err => rw [hk] at h; simp at h
  | ok k =>
    rw [hk] at h; simp only at h
    cases hj : season_jde0 year k with
    | error err => rw [hj] at h; simp at h
    | ok j =>
      rw [hj] at h; simp only at h
      have hjge := season_jde0_ge (season_index_range hk) hj
      rw [Pymeeus.Refine.EpochR.mkEpoch_exact j (by linarith)] at h
      simp only at h
      cases hl : loopFuel (season_step mkEpoch sunLon k) fuel j with
      | none => rw [hl] at h; simp at h
      | some r =>
        rw [hl] at h
        cases r with
        | error err => simp at h
        | ok e1 =>
          simp only [Except.ok.injEq, Option.some.injEq] at h
          subst h
          have hfr : (fuel : ℝ) ≤ 20000 := by exact_mod_cast hf
          obtain ⟨s', hs58, hs'⟩ := season_loop_model sunLon k _ fuel j (by linarith) hl
          obtain ⟨e', h1, h2, h3⟩ := season_step_exit hs'
          have hcs := abs_le.mp (season_corr_abs_le k (sunLon s'))
          rw [Pymeeus.Refine.EpochR.mkEpoch_exact _ (by linarith)] at h1
          simp only [Except.ok.injEq] at h1
          subst h1
          rw [Pymeeus.Refine.EpochR.mkEpoch_exact _ (by linarith)] at h2
          simp only [Except.ok.injEq] at h2
          have he : e1 = s' := by rw [← h2]; ring
          subst he
          obtain ⟨hc, n, hn⟩ := season_angle_of_corr k (sunLon e1) h3
          exact ⟨k, rfl, hc, n, le_trans hn season_angle_bound⟩

/-- Non-vacuity of the loop post-condition: with a Sun standing at longitude 0° the spring search of
    year 2000 exits in its first pass (`corr = 0`) and returns the approximate instant itself. -/
example : get_equinox_solstice (fun x => .ok x) (fun _ => 0) 1 2000 "spring" =
    .ok (some 2451623.80984) := by
  have hc : season_corr 0 0 = 0 := by
    unfold season_corr season_arg aNeg aSubF aAdd aToPositive plt ofInt psin pradians
    norm_num [aReduce_zero]
  have hj : season_jde0 2000 0 = .ok 2451623.80984 := by
    unfold season_jde0 ofInt; norm_num
  unfold get_equinox_solstice
  simp only [season_index, if_true, hj, loopFuel, season_step, hc, plt, pabs]
  norm_num

/-- Non-vacuity of `season_post_model`: the same run with the model's own constructor. -/
example : get_equinox_solstice mkEpoch (fun _ => 0) 1 2000 "spring" = .ok (some 2451623.80984) := by
  have hc : season_corr 0 0 = 0 := by
    unfold season_corr season_arg aNeg aSubF aAdd aToPositive plt ofInt psin pradians
    norm_num [aReduce_zero]
  have hj : season_jde0 2000 0 = .ok 2451623.80984 := by
    unfold season_jde0 ofInt; norm_num
  have m1 : mkEpoch 2451623.80984 = .ok 2451623.80984 :=
    Pymeeus.Refine.EpochR.mkEpoch_exact _ (by norm_num)
  unfold get_equinox_solstice
  simp only [season_index, if_true, hj, m1, loopFuel, season_step, hc, add_zero, sub_zero, plt, pabs]
  norm_num

/-- The constructor `Epoch(jde)` of the model (store, `get_full_date()`, `_compute_jde()`), over ℝ, keeps
    every `jde ≥ 0` — the real-number form of C02's `set_jde_exact`; it is what removes the constructor
    hypothesis from `season_post_model`. -/
theorem epoch_constructor_exact (j : ℝ) (hj : 0 ≤ j) : mkEpoch j = .ok j :=
  Pymeeus.Refine.EpochR.mkEpoch_exact j hj

/-! ## Equation of time -/

/-- The mean longitude used by `equation_of_time` is Meeus' L0 (28.2) — every coefficient, written
    from the book in Spec/SunEvents.lean — at τ = (JDE − 2451545)/365250, brought into [0°, 360°) by
    whole turns, for EVERY instant. -/
theorem eot_l0_spec (jde : ℝ) :
    0 ≤ eot_l0 jde ∧ eot_l0 jde < 360 ∧
    ∃ n : ℤ, eot_l0 jde = Spec.SunEvents.meanLongitude ((jde - 2451545) / 365250) - 360 * n := by
  unfold eot_l0
  simp only
  obtain ⟨r0, r1⟩ := aToPositive_range (aReduce_abs_lt (280.4664567 + (jde - 2451545.0) / 365250.0 *
    (360007.6982779 + (jde - 2451545.0) / 365250.0 * (0.03032028 + (jde - 2451545.0) / 365250.0 *
    (1.0 / 49931.0 + (jde - 2451545.0) / 365250.0 * (-1.0 / 15300.0 - (jde - 2451545.0) / 365250.0 * 1.0 / 2000000.0))))))
  refine ⟨r0, r1, ?_⟩
  obtain ⟨n1, h1⟩ := aReduce_congr (280.4664567 + (jde - 2451545.0) / 365250.0 *
    (360007.6982779 + (jde - 2451545.0) / 365250.0 * (0.03032028 + (jde - 2451545.0) / 365250.0 *
    (1.0 / 49931.0 + (jde - 2451545.0) / 365250.0 * (-1.0 / 15300.0 - (jde - 2451545.0) / 365250.0 * 1.0 / 2000000.0)))))
  obtain ⟨n2, h2⟩ := aToPositive_congr (aReduce (280.4664567 + (jde - 2451545.0) / 365250.0 *
    (360007.6982779 + (jde - 2451545.0) / 365250.0 * (0.03032028 + (jde - 2451545.0) / 365250.0 *
    (1.0 / 49931.0 + (jde - 2451545.0) / 365250.0 * (-1.0 / 15300.0 - (jde - 2451545.0) / 365250.0 * 1.0 / 2000000.0))))))
  refine ⟨n1 + n2, ?_⟩
  rw [h2, h1]
  unfold Spec.SunEvents.meanLongitude
  push_cast
  norm_num
  ring

/-- "the reduction brings the value into its documented interval": `e - 360.0 * round(e / 360.0)`
    (floats, `round` to the nearest int with ties to even) lies in [−180°, 180°] — both ends occur:
    180 stays 180, 540 becomes −180 — and differs from `e` by a whole number of turns, for EVERY `e`. -/
theorem eot_reduction (e : ℝ) :
    -180 ≤ eot_reduce e ∧ eot_reduce e ≤ 180 ∧ ∃ n : ℤ, eot_reduce e = e - 360 * n := by
  unfold eot_reduce; exact wrap180_range e

/-- The former failing input (L0 = 359°, α = 1°, the day after the March equinox): 358° is now −2°,
    i.e. −8 minutes, not 352. -/
example : eot_reduce 358 = -2 ∧ (eot_split (eot_reduce 358)).1 = -8 := by
  have h : roundHE ((358 : ℝ) / 360.0) = 1 := by
    have hf : pfloor ((358 : ℝ) / 360.0) = 0 := by
      unfold pfloor; exact Int.floor_eq_iff.mpr ⟨by norm_num, by norm_num⟩
    unfold roundHE plt ofInt
    simp only [hf]
    norm_num
  have h2 : eot_reduce 358 = -2 := by unfold eot_reduce wrap180 ofInt; rw [h]; norm_num
  refine ⟨h2, ?_⟩
  rw [h2]
  unfold eot_split ptrunc
  norm_num

/-- "(m, s) recombine to |E|": with `E = 4·e` minutes (`e *= 4.0`), `0 ≤ s < 60`,
    `|E| = |m| + s/60`, and `m` carries the sign of `E` exactly when `|E| ≥ 1` minute;
    for `|E| < 1` minute `m = 0` and the sign is lost (next theorem). -/
theorem eot_split_recombine (e : ℝ) :
    0 ≤ (eot_split e).2 ∧ (eot_split e).2 < 60 ∧
    |e * 4| = |(((eot_split e).1 : ℤ) : ℝ)| + (eot_split e).2 / 60 ∧
    (1 ≤ e * 4 → 1 ≤ (eot_split e).1) ∧ (e * 4 ≤ -1 → (eot_split e).1 ≤ -1) ∧
    (|e * 4| < 1 → (eot_split e).1 = 0) := by
  unfold eot_split
  simp only
  have h4 : e * 4.0 = e * 4 := by norm_num
  rw [h4]
  set x := e * 4
  have hfl := Int.floor_le (pabs x)
  have hlt := Int.lt_floor_add_one (pabs x)
  obtain ⟨s1, s2, s3⟩ := ptrunc_sign x
  refine ⟨?_, ?_, ?_, s1, s2, s3⟩
  · rw [pmod_one]; linarith
  · rw [pmod_one]; linarith
  · rw [ptrunc_abs, pmod_one]; unfold pabs; norm_num

/-- The sign of the equation of time is lost below one minute: `e` and `−e` (|4e| < 1 minute) give
    the same `(0, s)`. (Known finding C14-eot-sign-below-one-minute.) -/
theorem eot_split_sign_lost (e : ℝ) (h : |e| < 1 / 4) :
    eot_split (-e) = eot_split e ∧ (eot_split e).1 = 0 := by
  have hm : e * 4.0 = e * 4 := by norm_num
  have hm' : -e * 4.0 = -(e * 4) := by norm_num
  have h4 : |e * 4| < 1 := by rw [abs_mul]; norm_num; linarith
  have z1 := (ptrunc_sign (e * 4)).2.2 h4
  have z2 := (ptrunc_sign (-(e * 4))).2.2 (by rw [abs_neg]; exact h4)
  unfold eot_split
  simp only [hm, hm', z1, z2, pabs, abs_neg, and_self]

/-- The whole function: the returned `(m, s)` are the minutes and seconds of
    `E = 4·(L0 − 0.0057183° − α + Δψ·cos ε)` minutes of time, `L0` the mean longitude `eot_l0`, `α` the
    right ascension brought to [0°, 360°), the bracket reduced by whole turns so that `|E| ≤ 720`
    minutes: `|E| = |m| + s/60`, `0 ≤ s < 60` — the sign convention (apparent minus mean: `L0 − α`),
    the aberration constant and the factor 4 min/degree as coded, for ALL inputs. -/
theorem equation_of_time_value (jde alpha dpsi eps : ℝ) :
    ∃ E : ℝ, (∃ n : ℤ, E = 4 * (eot_l0 jde - 0.0057183 - aToPositive alpha +
        dpsi * Real.cos (eps * (Real.pi / 180)) - 360 * n)) ∧ -720 ≤ E ∧ E ≤ 720 ∧
      |E| = |(((equation_of_time jde alpha dpsi eps).1 : ℤ) : ℝ)| + (equation_of_time jde alpha dpsi eps).2 / 60 ∧
      0 ≤ (equation_of_time jde alpha dpsi eps).2 ∧ (equation_of_time jde alpha dpsi eps).2 < 60 := by
  unfold equation_of_time
  obtain ⟨l, u, n, hn⟩ := eot_reduction (eot_raw (eot_l0 jde) (aToPositive alpha) dpsi eps)
  obtain ⟨s0, s1, hrec, _⟩ := eot_split_recombine (eot_reduce (eot_raw (eot_l0 jde) (aToPositive alpha) dpsi eps))
  refine ⟨eot_reduce (eot_raw (eot_l0 jde) (aToPositive alpha) dpsi eps) * 4, ⟨n, ?_⟩, by linarith, by linarith, hrec, s0, s1⟩
  rw [hn]; unfold eot_raw pcos pradians; ring

/-- The two halves of the formula pull in opposite directions: a larger right ascension makes the
    equation of time smaller, a larger mean longitude makes it larger (sign convention
    "apparent minus mean time"), before the reduction by whole turns. -/
example (l0 a d e : ℝ) : eot_raw l0 (a + 1) d e = eot_raw l0 a d e - 1 ∧ eot_raw (l0 + 1) a d e = eot_raw l0 a d e + 1 := by
  unfold eot_raw; constructor <;> ring

/-! ## Sunrise and sunset (Epoch.rise_set) -/

/-- "sunrise before local transit before sunset": whenever `rise_set` gets as far as returning
    (the `acos` argument `c` is then in [−1, 1]), the hour angle `ω = degrees(acos c)` is in
    [0°, 180°] and the two instants handed to the Epoch constructor are `jtran ∓ ω/360`, so
    rise ≤ transit ≤ set, at most half a day either side. -/
theorem rise_order (ejde : ℝ) (leap : Int) (lat lon alt jt om c : ℝ)
    (h : rise_set_core ejde leap lat lon alt = .ok (jt, om, c)) :
    -1 ≤ c ∧ c ≤ 1 ∧ om = Real.arccos c * (180 / Real.pi) ∧ 0 ≤ om ∧ om ≤ 180 ∧
    (rise_set_args (jt, om, c)).1 ≤ jt ∧ jt ≤ (rise_set_args (jt, om, c)).2 ∧
    (rise_set_args (jt, om, c)).2 - (rise_set_args (jt, om, c)).1 ≤ 1 := by
  unfold rise_set_core at h
  simp only at h
  split_ifs at h with h1 h2 h3 h4 h5
  simp only [Except.ok.injEq, Prod.mk.injEq] at h
  obtain ⟨hjt, hom, hc⟩ := h
  rw [hc] at hom h5
  have hc1 : |c| ≤ 1 := by
    unfold plt pabs at h5; norm_num at h5; exact h5
  have hpi := Real.pi_pos
  have hom' : om = Real.arccos c * (180 / Real.pi) := by rw [← hom]; rfl
  have h0 : 0 ≤ om := by rw [hom']; exact mul_nonneg (Real.arccos_nonneg c) (by positivity)
  have h180 : om ≤ 180 := by
    rw [hom']
    calc Real.arccos c * (180 / Real.pi) ≤ Real.pi * (180 / Real.pi) :=
          mul_le_mul_of_nonneg_right (Real.arccos_le_pi c) (by positivity)
      _ = 180 := by field_simp
  refine ⟨neg_le_of_abs_le hc1, le_of_abs_le hc1, hom', h0, h180, ?_, ?_, ?_⟩ <;>
    (unfold rise_set_args; simp only; norm_num; try linarith)

/-- "ValueError if latitude outside the ±66d 33' range": the guard, for EVERY other argument —
    refused strictly beyond ±66.55° (= 66°33'), the boundary value itself being accepted
    (`rise_set_no_solution_iff` covers |φ| ≤ 66.55°). -/
theorem rise_latitude_guard (ejde : ℝ) (leap : Int) (lat lon alt : ℝ) (h : 66.55 < lat ∨ lat < -66.55) :
    rise_set_core ejde leap lat lon alt = .error .valueError := by
  have t1 : (plt rise_limit lat || plt lat (aNeg rise_limit)) = true := by
    rw [aNeg_rise_limit, rise_limit_val]; unfold plt
    simp only [Bool.or_eq_true, decide_eq_true_eq]; exact h
  unfold rise_set_core
  simp only [t1, if_true]

/-- A negative height is a `ValueError` (`sqrt` of a negative number: "math domain error") for every
    accepted latitude, date and longitude. -/
theorem rise_negative_height (ejde : ℝ) (leap : Int) (lat lon alt : ℝ) (hlat : |lat| ≤ 66.55) (halt : alt < 0) :
    rise_set_core ejde leap lat lon alt = .error .valueError := by
  have hl := abs_le.mp hlat
  have t1 : (plt rise_limit lat || plt lat (aNeg rise_limit)) = false := by
    rw [aNeg_rise_limit, rise_limit_val]; unfold plt
    simp only [Bool.or_eq_false_iff, decide_eq_false_iff_not, not_lt]
    constructor <;> linarith [hl.1, hl.2]
  have t3 : plt alt 0.0 = true := by
    unfold plt; simp only [decide_eq_true_eq]; norm_num; exact halt
  unfold rise_set_core
  simp only [t1, t3, Bool.false_eq_true, if_false, if_true]
  split_ifs <;> rfl

/-- For which (latitude, day) the sunrise equation has no solution — the listed midnight-sun finding,
    characterised through the model's OWN solar declination `rise_delta` (the sunrise equation's
    `asin(sin λ · sin 23.44°)` for the day `ejde`, the longitude and the leap-second count): for every
    accepted latitude (|φ| ≤ 66°33'), every height ≥ 0 with 0.83° + dip ≤ 90°, every date,
    `rise_set` raises `ValueError` ("math domain error") EXACTLY when
    `|φ + δ| > 90° − 0.83° − dip` (δ in degrees), and returns its two instants otherwise.
    (The polar-night side, `acos` argument > 1, cannot occur for an accepted latitude.) -/
theorem rise_set_no_solution_iff (ejde : ℝ) (leap : Int) (lat lon alt : ℝ) (hlat : |lat| ≤ 66.55)
    (halt : 0 ≤ alt) (hdip : 0.83 + 2.076 * Real.sqrt alt / 60 ≤ 90) :
    (rise_set_core ejde leap lat lon alt = .error .valueError ↔
      90 - 0.83 - 2.076 * Real.sqrt alt / 60 < |lat + rise_delta ejde leap lon * (180 / Real.pi)|) ∧
    (¬ (90 - 0.83 - 2.076 * Real.sqrt alt / 60 < |lat + rise_delta ejde leap lon * (180 / Real.pi)|) →
      ∃ r, rise_set_core ejde leap lat lon alt = .ok r) := by
  have hpi := Real.pi_pos
  have hl := abs_le.mp hlat
  have t1 : (plt rise_limit lat || plt lat (aNeg rise_limit)) = false := by
    rw [aNeg_rise_limit, rise_limit_val]; unfold plt
    simp only [Bool.or_eq_false_iff, decide_eq_false_iff_not, not_lt]
    constructor <;> linarith [hl.1, hl.2]
  have t3 : plt alt 0.0 = false := by
    unfold plt; simp only [decide_eq_false_iff_not, not_lt]; norm_num; exact halt
  have hε0 : 0 ≤ pradians 23.44 := by unfold pradians; positivity
  have hε1 : pradians 23.44 ≤ Real.pi / 2 := by unfold pradians; nlinarith
  have hδabs : |rise_delta ejde leap lon| ≤ 23.44 * (Real.pi / 180) :=
    abs_arcsin_mul_le (l := rise_lr (rise_m (rise_jstar ejde leap lon))) hε0 hε1
  have hsd : |rise_sin_delta (rise_m (rise_jstar ejde leap lon))| ≤ 1 := by
    unfold rise_sin_delta psin; rw [abs_mul]
    calc |Real.sin _| * |Real.sin _| ≤ 1 * 1 :=
          mul_le_mul (Real.abs_sin_le_one _) (Real.abs_sin_le_one _) (abs_nonneg _) (by norm_num)
      _ = 1 := by norm_num
  have t2 : plt 1.0 (pabs (rise_sin_delta (rise_m (rise_jstar ejde leap lon)))) = false := by
    unfold plt pabs; simp only [decide_eq_false_iff_not, not_lt]; norm_num; exact hsd
  have hs : rise_sin_delta (rise_m (rise_jstar ejde leap lon)) = Real.sin (rise_delta ejde leap lon) := by
    unfold rise_delta pasin; exact (Real.sin_arcsin (neg_le_of_abs_le hsd) (le_of_abs_le hsd)).symm
  obtain ⟨hcos, hiff⟩ := rise_region_iff lat alt (rise_delta ejde leap lon) hlat halt hdip hδabs
  unfold rise_set_core
  simp only [t1, t2, t3, Bool.false_eq_true, if_false]
  rw [hs]
  generalize rise_delta ejde leap lon = δ at hcos hiff ⊢
  have t4 : peq (pcos (pradians lat) * pcos δ) 0.0 = false := by
    unfold peq pcos pradians; simp only [decide_eq_false_iff_not]; norm_num
    exact ⟨left_ne_zero_of_mul hcos.ne', right_ne_zero_of_mul hcos.ne'⟩
  simp only [t4, Bool.false_eq_true, if_false]
  by_cases hR : 90 - 0.83 - 2.076 * Real.sqrt alt / 60 < |lat + δ * (180 / Real.pi)|
  · have t5 : plt 1.0 (pabs (rise_cos_om lat (Real.sin δ) (pcos δ) alt)) = true := by
      unfold plt pabs pcos; simp only [decide_eq_true_eq]; norm_num; exact hiff.mpr hR
    simp only [t5, if_true, hR, not_true_eq_false, false_implies, and_true]
  · have t5 : plt 1.0 (pabs (rise_cos_om lat (Real.sin δ) (pcos δ) alt)) = false := by
      unfold plt pabs pcos; simp only [decide_eq_false_iff_not]; norm_num
      exact not_lt.mp (fun h => hR (hiff.mp h))
    simp only [t5, Bool.false_eq_true, if_false, hR, iff_false, not_false_eq_true, true_implies]
    exact ⟨by simp, ⟨_, rfl⟩⟩

/-- The two instants handed to the Epoch constructor are symmetric about the transit: their mean is
    `jtran` and the day length is `ω/180` days (`ω/360` before, `ω/360` after), for every result. -/
theorem rise_symmetric (jt om c : ℝ) :
    ((rise_set_args (jt, om, c)).1 + (rise_set_args (jt, om, c)).2) / 2 = jt ∧
    (rise_set_args (jt, om, c)).2 - (rise_set_args (jt, om, c)).1 = om / 180 := by
  unfold rise_set_args; constructor <;> norm_num <;> ring

/-- The `acos` argument of `rise_set` is in range — no "math domain error" — under the explicit,
    decidable hypothesis `|φ| + 23.44° + 0.83° + dip ≤ 90°` (dip = 2.076·√height/60 degrees), for every
    date, longitude and leap-second count.  PARTIAL: the property asks for every latitude inside the
    polar circles (the code accepts |φ| ≤ 66°33'); for 65.73° < |φ| ≤ 66.55° around the solstices
    the argument leaves [−1, 1] (`rise_safe_counterexample`, exactly as `rise_set_no_solution_iff`
    says) and Python raises ValueError. -/
theorem rise_safe_partial (ejde : ℝ) (leap : Int) (lat lon alt : ℝ) (halt : 0 ≤ alt)
    (hlat : |lat| + 23.44 + 0.83 + 2.076 * Real.sqrt alt / 60 ≤ 90) :
    ∃ r, rise_set_core ejde leap lat lon alt = .ok r := by
  have hpi := Real.pi_pos
  have hsq := Real.sqrt_nonneg alt
  have h0 := abs_nonneg lat
  apply (rise_set_no_solution_iff ejde leap lat lon alt (by linarith) halt (by linarith)).2
  rw [not_lt]
  -- |δ| ≤ 23.44° in degrees
  have hε0 : 0 ≤ pradians 23.44 := by unfold pradians; positivity
  have hε1 : pradians 23.44 ≤ Real.pi / 2 := by unfold pradians; nlinarith
  have hδ : |rise_delta ejde leap lon| ≤ pradians 23.44 :=
    abs_arcsin_mul_le (l := rise_lr (rise_m (rise_jstar ejde leap lon))) hε0 hε1
  have hδdeg : |rise_delta ejde leap lon * (180 / Real.pi)| ≤ 23.44 := by
    rw [abs_mul, abs_of_pos (by positivity : (0:ℝ) < 180 / Real.pi)]
    calc |rise_delta ejde leap lon| * (180 / Real.pi) ≤ pradians 23.44 * (180 / Real.pi) :=
          mul_le_mul_of_nonneg_right hδ (by positivity)
      _ = 23.44 := by unfold pradians; field_simp
  have := abs_add_le lat (rise_delta ejde leap lon * (180 / Real.pi))
  linarith

/-- The clause "for every latitude inside the polar circles" is false of the code: at latitude 66.5°
    (inside the accepted range |φ| ≤ 66°33'), sea level, with the Sun at ecliptic longitude 90°
    (June solstice, e.g. `Epoch(2020, 6, 21)`), the `acos` argument of `rise_set` is below −1: the
    Sun's centre does not reach −0.83° that night and Python raises `ValueError("math domain error")`. -/
theorem rise_safe_counterexample :
    rise_cos_om 66.5 (psin (pradians 90) * psin (pradians 23.44))
      (pcos (pasin (psin (pradians 90) * psin (pradians 23.44)))) 0 < -1 ∧ (66.5 : ℝ) ≤ rise_limit := by
  have hpi := Real.pi_pos
  have h90 : psin (pradians 90) = 1 := by
    unfold psin pradians
    rw [show (90 : ℝ) * (Real.pi / 180) = Real.pi / 2 by ring]; exact Real.sin_pi_div_two
  have hε0 : 0 ≤ pradians 23.44 := by unfold pradians; positivity
  have hε1 : pradians 23.44 ≤ Real.pi / 2 := by unfold pradians; nlinarith
  have hasin : pasin (1 * psin (pradians 23.44)) = pradians 23.44 := by
    rw [one_mul]; unfold pasin psin; exact Real.arcsin_sin (by linarith) hε1
  refine ⟨?_, by rw [rise_limit_val]; norm_num⟩
  rw [h90, hasin]
  unfold rise_cos_om rise_h0 psqrt
  rw [Real.sqrt_zero]
  have hφ0 : 0 < pradians 66.5 := by unfold pradians; positivity
  have hφ1 : pradians 66.5 < Real.pi / 2 := by unfold pradians; nlinarith
  have hε1' : pradians 23.44 < Real.pi / 2 := by unfold pradians; nlinarith
  have hcos : 0 < pcos (pradians 66.5) * pcos (pradians 23.44) := by
    unfold pcos
    exact mul_pos (Real.cos_pos_of_mem_Ioo ⟨by linarith, hφ1⟩) (Real.cos_pos_of_mem_Ioo ⟨by linarith, hε1'⟩)
  rw [div_lt_iff₀ hcos]
  -- cos(φ + ε) = cos(π/2 − x) = sin x with x = 0.06°, and sin(−0.83°) < sin(−0.06°)
  have hsum : pradians 66.5 + pradians 23.44 = Real.pi / 2 - 0.06 * (Real.pi / 180) := by
    unfold pradians; ring
  have hcs : Real.cos (pradians 66.5 + pradians 23.44) = Real.sin (0.06 * (Real.pi / 180)) := by
    rw [hsum, Real.cos_pi_div_two_sub]
  rw [Real.cos_add] at hcs
  have hlt : Real.sin (pradians (-0.83 - 2.076 * 0 / 60.0)) < Real.sin (-(0.06 * (Real.pi / 180))) := by
    apply Real.sin_lt_sin_of_lt_of_le_pi_div_two
    · unfold pradians; nlinarith
    · nlinarith
    · unfold pradians; nlinarith
  rw [Real.sin_neg] at hlt
  unfold psin pcos
  linarith

/-- Why the counterexample is not an accident ("the Sun really does not set there that day"): for EVERY
    latitude `φ` and solar declination `δ` (degrees, strictly between the poles) and every height, as
    soon as `φ + δ > 90° − 0.83° − dip` the `acos` argument of `rise_set` is below −1, so Python raises
    `ValueError("math domain error")`; together with `rise_safe_partial` this locates the failing
    region exactly (northern summer; the southern one is the mirror image). -/
theorem rise_no_sunset (lat δ alt : ℝ) (hφ : |lat| < 90) (hδ : |δ| < 90)
    (hdip : 0.83 + 2.076 * Real.sqrt alt / 60 ≤ 90)
    (h : 90 - 0.83 - 2.076 * Real.sqrt alt / 60 < lat + δ) :
    rise_cos_om lat (psin (pradians δ)) (pcos (pradians δ)) alt < -1 := by
  have hpi := Real.pi_pos
  rw [abs_lt] at hφ hδ
  have cpos : ∀ x : ℝ, -90 < x → x < 90 → 0 < Real.cos (x * (Real.pi / 180)) := by
    intro x h1 h2
    exact Real.cos_pos_of_mem_Ioo ⟨by nlinarith, by nlinarith⟩
  have hcos := mul_pos (cpos lat hφ.1 hφ.2) (cpos δ hδ.1 hδ.2)
  unfold rise_cos_om rise_h0 psin pcos pradians psqrt
  apply cos_om_lt_neg_one _ _ _ hcos
  · norm_num; nlinarith
  · have : (90 - 0.83 - 2.076 * Real.sqrt alt / 60) * (Real.pi / 180) < (lat + δ) * (Real.pi / 180) :=
      mul_lt_mul_of_pos_right h (by positivity)
    norm_num at this ⊢; linarith
  · nlinarith

/-- The hypotheses of `rise_safe_partial` / `rise_order` are satisfiable up to the boundary
    (sea level, latitude 65.73° = 90° − 23.44° − 0.83°), any date and longitude. -/
example (ejde lon : ℝ) : ∃ r, rise_set_core ejde 27 65.73 lon 0 = .ok r ∧ -1 ≤ r.2.2 ∧ r.2.2 ≤ 1 := by
  obtain ⟨⟨jt, om, c⟩, hr⟩ := rise_safe_partial ejde 27 65.73 lon 0 le_rfl (by rw [Real.sqrt_zero]; norm_num)
  obtain ⟨h1, h2, _⟩ := rise_order ejde 27 65.73 lon 0 jt om c hr
  exact ⟨_, hr, h1, h2⟩

/-- `rise_set` looks at the DAY of the epoch only ("We need current epoch without hours, minutes and
    seconds"): two instants of the same civil day — any times of day — give the same result, whatever
    the other arguments. (False of the code before the fix of finding C14-rise-time-of-day, where the
    fraction of the day shifted every returned instant.) -/
theorem rise_set_day_only (j j' : ℝ) (leap : Int) (lat lon alt : ℝ) (hj : 0 ≤ j) (hj' : 0 ≤ j')
    (hd : ⌊j + 1 / 2⌋ = ⌊j' + 1 / 2⌋) :
    rise_set j leap lat lon alt = rise_set j' leap lat lon alt := by
  have hn : Pymeeus.Refine.EpochR.dayNo j = Pymeeus.Refine.EpochR.dayNo j' := by
    unfold Pymeeus.Refine.EpochR.dayNo; rw [hd]
  unfold rise_set
  rw [Pymeeus.Refine.EpochR.get_date_civil j hj, Pymeeus.Refine.EpochR.get_date_civil j' hj']
  simp only
  rw [Pymeeus.Refine.EpochR.pfloor_add_fract _ _ (Pymeeus.Refine.EpochR.dayFrac_nonneg j) (Pymeeus.Refine.EpochR.dayFrac_lt_one j),
    Pymeeus.Refine.EpochR.pfloor_add_fract _ _ (Pymeeus.Refine.EpochR.dayFrac_nonneg j') (Pymeeus.Refine.EpochR.dayFrac_lt_one j'),
    hn]

/-- e.g. 0h, 6h and 23h59 of JD 2458575.5 (2019‑04‑02). -/
example (leap : Int) (lat lon alt : ℝ) :
    rise_set 2458575.5 leap lat lon alt = rise_set 2458575.75 leap lat lon alt ∧
    rise_set 2458575.5 leap lat lon alt = rise_set 2458576.4993 leap lat lon alt := by
  constructor <;> apply rise_set_day_only <;> norm_num

/-- "Sunrise and sunset instants put the Sun's centre … at the standard altitude": exact for the
    sunrise equation's OWN Sun — whenever `rise_set` returns, the altitude formula of
    `equatorial2horizontal` (Meeus 13.6), evaluated at the latitude, the model's declination `rise_delta`
    and the hour angle `ω` it returns, gives exactly the standard altitude `−0.83° − dip`:
    `sin φ sin δ + cos φ cos δ cos ω = sin h0`. (The 1° of the property is the distance between this Sun
    and the VSOP87 one: measured.) -/
theorem rise_altitude_exact (ejde : ℝ) (leap : Int) (lat lon alt jt om c : ℝ)
    (h : rise_set_core ejde leap lat lon alt = .ok (jt, om, c)) :
    Spec.SunEvents.sinAltitude (lat * (Real.pi / 180)) (rise_delta ejde leap lon) (om * (Real.pi / 180)) =
      Real.sin (rise_h0 alt * (Real.pi / 180)) := by
  obtain ⟨hc0, hc1, hom, _⟩ := rise_order ejde leap lat lon alt jt om c h
  unfold rise_set_core at h
  simp only at h
  split_ifs at h with h1 h2 h3 h4 h5
  simp only [Except.ok.injEq, Prod.mk.injEq] at h
  obtain ⟨_, _, hc⟩ := h
  have hsd : |rise_sin_delta (rise_m (rise_jstar ejde leap lon))| ≤ 1 := by
    unfold plt pabs at h2; norm_num at h2; exact h2
  have hs : Real.sin (rise_delta ejde leap lon) = rise_sin_delta (rise_m (rise_jstar ejde leap lon)) := by
    unfold rise_delta pasin; exact Real.sin_arcsin (neg_le_of_abs_le hsd) (le_of_abs_le hsd)
  have hden : Real.cos (lat * (Real.pi / 180)) * Real.cos (rise_delta ejde leap lon) ≠ 0 := by
    unfold peq pcos pradians at h4; norm_num at h4
    exact mul_ne_zero h4.1 h4.2
  have hpi := Real.pi_pos
  have hω : om * (Real.pi / 180) = Real.arccos c := by rw [hom]; field_simp
  unfold Spec.SunEvents.sinAltitude
  rw [hω, Real.cos_arccos hc0 hc1, ← hc, hs]
  unfold rise_cos_om psin pcos pradians
  have key : ∀ (a b x : ℝ), a * b ≠ 0 → a * b * (x / (a * b)) = x := fun a b x h => mul_div_cancel₀ x h
  rw [key _ _ _ hden]
  ring

/-! ## times_rise_transit_set -/

/-- "reports no times exactly when …": `(None, None, None)` is returned iff `|cos H0| > 1`, where
    `cos H0 = (sin h0 − sin φ sin δ2) / (cos φ cos δ2)` is formed from the body's MIDDLE position
    (`cos φ cos δ2 ≠ 0`: otherwise Python raises ZeroDivisionError). -/
theorem rts_none_iff (lon lat a1 d1 a2 d2 a3 d3 h0 dt th0 : ℝ)
    (hden : Real.cos (lat * (Real.pi / 180)) * Real.cos (d2 * (Real.pi / 180)) ≠ 0) :
    times_rise_transit_set lon lat a1 d1 a2 d2 a3 d3 h0 dt th0 = .ok none ↔
      1 < |(Real.sin (h0 * (Real.pi / 180)) - Real.sin (lat * (Real.pi / 180)) * Real.sin (d2 * (Real.pi / 180))) /
            (Real.cos (lat * (Real.pi / 180)) * Real.cos (d2 * (Real.pi / 180)))| := by
  have hd : peq (pcos (pradians lat) * pcos (pradians d2)) 0.0 = false := by
    unfold peq pcos pradians; simp only [decide_eq_false_iff_not]; norm_num
    exact ⟨left_ne_zero_of_mul hden, right_ne_zero_of_mul hden⟩
  unfold times_rise_transit_set rts_cosH0
  simp only [hd, Bool.false_eq_true, if_false]
  by_cases hc : plt 1.0 (pabs ((psin (pradians h0) - psin (pradians lat) * psin (pradians d2)) /
      (pcos (pradians lat) * pcos (pradians d2)))) = true
  · simp only [hc, if_true, true_iff]
    unfold plt pabs psin pcos pradians at hc
    norm_num at hc; exact hc
  · simp only [hc, Bool.false_eq_true, if_false]
    have : ¬ (1 < |(Real.sin (h0 * (Real.pi / 180)) - Real.sin (lat * (Real.pi / 180)) * Real.sin (d2 * (Real.pi / 180))) /
            (Real.cos (lat * (Real.pi / 180)) * Real.cos (d2 * (Real.pi / 180)))|) := by
      unfold plt pabs psin pcos pradians at hc
      norm_num at hc; rw [not_lt]; exact hc
    simp only [this, iff_false]
    cases rts_times lon lat a1 d1 a2 d2 a3 d3 h0 dt th0
        ((psin (pradians h0) - psin (pradians lat) * psin (pradians d2)) / (pcos (pradians lat) * pcos (pradians d2))) <;> simp

/-- "… exactly when the body never crosses that altitude": for a latitude and a middle declination
    strictly between the poles, no times are reported iff at NO hour angle `H` the sine of the body's
    altitude at its middle position, `sin φ sin δ2 + cos φ cos δ2 cos H` (Meeus 13.6), equals `sin h0`
    — i.e. iff the body, kept at its middle declination, never reaches altitude `h0`. (The daily motion of
    the body is not part of the test, as coded.) -/
theorem rts_none_iff_never_reaches (lon lat a1 d1 a2 d2 a3 d3 h0 dt th0 : ℝ) (hφ : |lat| < 90) (hδ : |d2| < 90) :
    times_rise_transit_set lon lat a1 d1 a2 d2 a3 d3 h0 dt th0 = .ok none ↔
      ∀ H : ℝ, Spec.SunEvents.sinAltitude (lat * (Real.pi / 180)) (d2 * (Real.pi / 180)) H ≠
        Real.sin (h0 * (Real.pi / 180)) := by
  have hpi := Real.pi_pos
  have cpos : ∀ x : ℝ, |x| < 90 → 0 < Real.cos (x * (Real.pi / 180)) := by
    intro x hx
    rw [abs_lt] at hx
    exact Real.cos_pos_of_mem_Ioo ⟨by nlinarith, by nlinarith⟩
  have h1 := cpos lat hφ
  have h2 := cpos d2 hδ
  have hpos : 0 < Real.cos (lat * (Real.pi / 180)) * Real.cos (d2 * (Real.pi / 180)) := mul_pos h1 h2
  rw [rts_none_iff _ _ _ _ _ _ _ _ _ _ _ hpos.ne']
  unfold Spec.SunEvents.sinAltitude
  set A := Real.sin (lat * (Real.pi / 180)) * Real.sin (d2 * (Real.pi / 180))
  set B := Real.cos (lat * (Real.pi / 180)) * Real.cos (d2 * (Real.pi / 180))
  set S := Real.sin (h0 * (Real.pi / 180))
  constructor
  · intro h H heq
    have : (S - A) / B = Real.cos H := by rw [← heq]; field_simp; ring
    rw [this] at h
    exact absurd (Real.abs_cos_le_one H) (not_le.mpr h)
  · intro h
    by_contra hle
    rw [not_lt] at hle
    apply h (Real.arccos ((S - A) / B))
    rw [Real.cos_arccos (neg_le_of_abs_le hle) (le_of_abs_le hle)]
    field_simp; ring

/-- `check_value` terminates within its fuel at every call site (|m| < 1.5 there; shown for −6 ≤ m ≤ 7):
    it returns `m` shifted by an integer into [0, 1]. -/
theorem rts_check_value_spec (m : ℝ) (h : -6 ≤ m ∧ m ≤ 7) :
    ∃ r, rts_check_value m = some r ∧ 0 ≤ r ∧ r ≤ 1 ∧ ∃ n : ℤ, r = m + n := by
  have := rts_check_loop 7 m (by norm_num; linarith [h.1]) (by norm_num; linarith [h.2])
  simpa [rts_check_value] using this

/-- Both sides of `rts_none_iff_never_reaches` occur: a body at declination 80° seen from latitude 60°
    never sets (upper side: no times), one at declination 0° does rise (times are attempted). -/
example : times_rise_transit_set 0 60 0 80 0 80 0 80 0 0 0 = .ok none := by
  rw [rts_none_iff_never_reaches _ _ _ _ _ _ _ _ _ _ _ (by norm_num) (by norm_num)]
  intro H
  unfold Spec.SunEvents.sinAltitude
  have hpi := Real.pi_pos
  -- sin h0 = 0, and sinAlt ≥ sin φ sin δ − cos φ cos δ = −cos(φ+δ) = −cos 140° > 0
  have hs : Real.sin ((0:ℝ) * (Real.pi / 180)) = 0 := by simp
  rw [hs]
  have hc := Real.neg_one_le_cos H
  have hcφ : 0 < Real.cos (60 * (Real.pi / 180)) := Real.cos_pos_of_mem_Ioo ⟨by nlinarith, by nlinarith⟩
  have hcδ : 0 < Real.cos (80 * (Real.pi / 180)) := Real.cos_pos_of_mem_Ioo ⟨by nlinarith, by nlinarith⟩
  have hsum : Real.cos (60 * (Real.pi / 180) + 80 * (Real.pi / 180)) < 0 :=
    Real.cos_neg_of_pi_div_two_lt_of_lt (by nlinarith) (by nlinarith)
  rw [Real.cos_add] at hsum
  have : 0 ≤ Real.cos (60 * (Real.pi / 180)) * Real.cos (80 * (Real.pi / 180)) * (Real.cos H + 1) :=
    mul_nonneg (mul_pos hcφ hcδ).le (by linarith)
  nlinarith

/-- The `sin h0` term of the circumpolar test matters: at latitude 60° a body at declination 29.8° with
    the standard altitude −0.5667° of a star never sets (no times), although the textbook shortcut
    `tan φ · tan δ > 1` (which ignores `h0`) says it does: here `sin φ sin δ < cos φ cos δ`. -/
example : times_rise_transit_set 0 60 0 29.8 0 29.8 0 29.8 (-0.5667) 0 0 = .ok none ∧
    Real.sin (60 * (Real.pi / 180)) * Real.sin (29.8 * (Real.pi / 180)) <
      Real.cos (60 * (Real.pi / 180)) * Real.cos (29.8 * (Real.pi / 180)) := by
  have hpi := Real.pi_pos
  have hcφ : 0 < Real.cos (60 * (Real.pi / 180)) := Real.cos_pos_of_mem_Ioo ⟨by nlinarith, by nlinarith⟩
  have hcδ : 0 < Real.cos (29.8 * (Real.pi / 180)) := Real.cos_pos_of_mem_Ioo ⟨by nlinarith, by nlinarith⟩
  -- cos(φ + δ) = cos(89.8°) = sin(0.2°) > 0
  have hsum : Real.cos (60 * (Real.pi / 180) + 29.8 * (Real.pi / 180)) = Real.sin (0.2 * (Real.pi / 180)) := by
    rw [show (60 : ℝ) * (Real.pi / 180) + 29.8 * (Real.pi / 180) = Real.pi / 2 - 0.2 * (Real.pi / 180) by ring,
      Real.cos_pi_div_two_sub]
  have hpos : 0 < Real.sin (0.2 * (Real.pi / 180)) := Real.sin_pos_of_pos_of_lt_pi (by positivity) (by nlinarith)
  rw [Real.cos_add] at hsum
  refine ⟨?_, by linarith⟩
  rw [rts_none_iff_never_reaches _ _ _ _ _ _ _ _ _ _ _ (by norm_num) (by norm_num)]
  intro H
  unfold Spec.SunEvents.sinAltitude
  have hc := Real.neg_one_le_cos H
  have hlt : Real.sin (-0.5667 * (Real.pi / 180)) < Real.sin (-(0.2 * (Real.pi / 180))) := by
    apply Real.sin_lt_sin_of_lt_of_le_pi_div_two <;> nlinarith
  rw [Real.sin_neg] at hlt
  have : 0 ≤ Real.cos (60 * (Real.pi / 180)) * Real.cos (29.8 * (Real.pi / 180)) * (Real.cos H + 1) :=
    mul_nonneg (mul_pos hcφ hcδ).le (by linarith)
  nlinarith

example : times_rise_transit_set 0 60 0 0 0 0 0 0 0 0 0 ≠ .ok none := by
  rw [Ne, rts_none_iff_never_reaches _ _ _ _ _ _ _ _ _ _ _ (by norm_num) (by norm_num)]
  intro h
  apply h (Real.pi / 2)
  unfold Spec.SunEvents.sinAltitude
  simp

/-- The three-point interpolation `interpol(n, y1, y2, y3)` is Meeus' formula 3.3,
    `y2 + n/2·(a + b + n·c)` with `a = y2 − y1`, `b = y3 − y2`, `c = b − a`, when neither difference
    needs the ±180° reduction (|a|, |b| < 180°) and the result is a proper Angle (|·| < 360). -/
theorem rts_interpol_meeus (n y1 y2 y3 : ℝ) (ha : |y2 - y1| < 180) (hb : |y3 - y2| < 180)
    (hr : |y2 + n * ((y2 - y1) + (y3 - y2) + n * ((y3 - y2) - (y2 - y1))) / 2| < 360) :
    rts_interpol n y1 y2 y3 = y2 + n * ((y2 - y1) + (y3 - y2) + n * ((y3 - y2) - (y2 - y1))) / 2 := by
  have ra : roundHE ((y2 - y1) / 360.0) = 0 :=
    roundHE_zero (by rw [abs_div]; norm_num; rw [div_lt_iff₀ (by norm_num)]; linarith)
  have rb : roundHE ((y3 - y2) / 360.0) = 0 :=
    roundHE_zero (by rw [abs_div]; norm_num; rw [div_lt_iff₀ (by norm_num)]; linarith)
  unfold rts_interpol aAdd
  simp only [ra, rb, ofInt]
  norm_num
  rw [aReduce_of_abs_lt (by norm_num at hr ⊢; exact hr)]

/-- The transit hour angle is brought to ±180° before it becomes a correction: one pass of the
    iteration moves the transit estimate by at most half a day (`|Δm0| = |H|/360 ≤ 1/2`), whatever the
    inputs. (Before the fix a hour angle of 359.99° moved it by a whole day.) -/
theorem rts_transit_step_bound (lon lat a1 d1 a2 d2 a3 d3 h0 dt th0 m0 m1 m2 n0 n1 n2 : ℝ)
    (h : rts_iter lon lat a1 d1 a2 d2 a3 d3 h0 dt th0 (m0, m1, m2) = .ok (n0, n1, n2)) :
    |n0 - m0| ≤ 1 / 2 := by
  exact rts_iter_transit_bound h

/-- "on the meridian at the returned times", structural part: the returned transit lies within ONE day
    of the start estimate `m0 ∈ [0, 1]` (two passes of at most half a day each), i.e. between −24 h and
    +48 h of the day's 0h, for all inputs. -/
theorem rts_transit_within_one_day (lon lat a1 d1 a2 d2 a3 d3 h0 dt th0 r t s : ℝ)
    (h : times_rise_transit_set lon lat a1 d1 a2 d2 a3 d3 h0 dt th0 = .ok (some (r, t, s))) :
    ∃ m0 : ℝ, 0 ≤ m0 ∧ m0 ≤ 1 ∧ |t / 24 - m0| ≤ 1 ∧ -24 ≤ t ∧ t ≤ 48 := by
  unfold times_rise_transit_set at h
  cases hc : rts_cosH0 lat d2 h0 with
  | error e => rw [hc] at h; simp at h
  | ok c =>
    rw [hc] at h; simp only at h
    split_ifs at h
    · simp at h
    cases ht : rts_times lon lat a1 d1 a2 d2 a3 d3 h0 dt th0 c with
    | error e => rw [ht] at h; simp at h
    | ok v =>
      rw [ht] at h
      simp only [Except.ok.injEq, Option.some.injEq] at h
      subst h
      obtain ⟨m0, b0, b1, b2, ⟨p0, p1, p2⟩, n0, n1, n2, _, hb0, _, _, hs1, hs2, _, htv, _⟩ := rts_times_ok ht
      obtain ⟨r0, r1⟩ := rts_check_value_range hb0
      have e1 := abs_le.mp (rts_iter_transit_bound hs1)
      have e2 := abs_le.mp (rts_iter_transit_bound hs2)
      refine ⟨b0, r0, r1, ?_, ?_, ?_⟩
      · rw [htv, abs_le]; constructor <;> linarith [e1.1, e1.2, e2.1, e2.2]
      · rw [htv]; linarith [e1.1, e2.1]
      · rw [htv]; linarith [e1.2, e2.2]

/-- "rise before transit before set" in the model. The three start estimates are `m0` and
    `m0 ∓ H0/360` with `0° ≤ H0 ≤ 180°` (`H0 = acos(cos H0)`); when they need no day wrap
    (`0 ≤ m0 − H0/360`, `m0 + H0/360 ≤ 1`: `check_value` leaves them alone) the returned times are
    `24·(start + Δ)`, with `|Δ0| ≤ 1` for the transit, and rise < transit < set holds as soon as the
    total corrections of the two passes differ by less than `H0/360` day
    (`|Δ1 − Δ0| < H0/360`, `|Δ2 − Δ0| < H0/360`) — the honest hypothesis: the corrections `Δ1`, `Δ2`
    divide by `sin H` and are NOT bounded near a grazing rise, and with a day wrap the docstring's
    "belongs to the following/previous day" applies instead. -/
theorem rts_order (lon lat a1 d1 a2 d2 a3 d3 h0 dt th0 c r t s m0 : ℝ)
    (h : rts_times lon lat a1 d1 a2 d2 a3 d3 h0 dt th0 c = .ok (r, t, s))
    (hm0 : aDivF (aSub (aAdd a2 lon) th0) 360.0 = .ok m0)
    (hw1 : 0 ≤ m0 - aToPositive (aOfRadians (pacos c)) / 360)
    (hw2 : m0 + aToPositive (aOfRadians (pacos c)) / 360 ≤ 1) :
    0 ≤ aToPositive (aOfRadians (pacos c)) ∧ aToPositive (aOfRadians (pacos c)) ≤ 180 ∧
    ∃ Δ0 Δ1 Δ2 : ℝ, |Δ0| ≤ 1 ∧ t = 24 * (m0 + Δ0) ∧
      r = 24 * (m0 - aToPositive (aOfRadians (pacos c)) / 360 + Δ1) ∧
      s = 24 * (m0 + aToPositive (aOfRadians (pacos c)) / 360 + Δ2) ∧
      (|Δ1 - Δ0| < aToPositive (aOfRadians (pacos c)) / 360 →
       |Δ2 - Δ0| < aToPositive (aOfRadians (pacos c)) / 360 → r < t ∧ t < s) := by
  obtain ⟨H0, H1⟩ := rts_hh0_range c
  refine ⟨H0, H1, ?_⟩
  obtain ⟨m0', b0, b1, b2, ⟨p0, p1, p2⟩, n0, n1, n2, hm, hb0, hb1, hb2, hs1, hs2, hrv, htv, hsv⟩ := rts_times_ok h
  rw [hm0] at hm
  simp only [Except.ok.injEq] at hm
  subst hm
  set H := aToPositive (aOfRadians (pacos c)) with hH
  have e360 : H / 360.0 = H / 360 := by norm_num
  rw [e360] at hb1 hb2
  have hm0a : 0 ≤ m0 := by linarith [div_nonneg H0 (by norm_num : (0:ℝ) ≤ 360)]
  have hm0b : m0 ≤ 1 := by linarith [div_nonneg H0 (by norm_num : (0:ℝ) ≤ 360)]
  rw [rts_check_value_mid hm0a hm0b] at hb0
  rw [rts_check_value_mid hw1 (by linarith [div_nonneg H0 (by norm_num : (0:ℝ) ≤ 360)])] at hb1
  rw [rts_check_value_mid (by linarith [div_nonneg H0 (by norm_num : (0:ℝ) ≤ 360)]) hw2] at hb2
  simp only [Option.some.injEq] at hb0 hb1 hb2
  subst hb0 hb1 hb2
  have e1 := abs_le.mp (rts_iter_transit_bound hs1)
  have e2 := abs_le.mp (rts_iter_transit_bound hs2)
  refine ⟨n0 - m0, n1 - (m0 - H / 360), n2 - (m0 + H / 360), ?_, by rw [htv]; ring, by rw [hrv]; ring,
    by rw [hsv]; ring, ?_⟩
  · rw [abs_le]; constructor <;> linarith [e1.1, e1.2, e2.1, e2.2]
  · intro g1 g2
    rw [abs_lt] at g1 g2
    rw [hrv, htv, hsv]
    constructor <;> linarith [g1.1, g1.2, g2.1, g2.2]

/-- The interpolation across the 0°/360° wrap, for ALL tabular values: the two differences it uses are
    the tabular differences brought into [−180°, 180°] by whole turns (so 359° → 1° counts as +2°, not
    −358°), the same for every interpolating factor `n`, and the result is `y2 + n/2·(a + b + n·(b − a))`
    as an Angle. -/
theorem rts_interpol_wrapped (y1 y2 y3 : ℝ) :
    ∃ a b : ℝ, -180 ≤ a ∧ a ≤ 180 ∧ -180 ≤ b ∧ b ≤ 180 ∧
      (∃ k : ℤ, a = y2 - y1 - 360 * k) ∧ (∃ k : ℤ, b = y3 - y2 - 360 * k) ∧
      ∀ n : ℝ, rts_interpol n y1 y2 y3 = aReduce (y2 + n * (a + b + n * (b - a)) / 2) := by
  obtain ⟨a1, a2, a3⟩ := wrap180_range (y2 - y1)
  obtain ⟨b1, b2, b3⟩ := wrap180_range (y3 - y2)
  refine ⟨wrap180 (y2 - y1), wrap180 (y3 - y2), a1, a2, b1, b2, a3, b3, ?_⟩
  intro n
  unfold rts_interpol aAdd wrap180
  norm_num

/-- A right ascension crossing 0°: (359°, 1°, 3°) interpolated half a day after the middle value is 2°. -/
example : rts_interpol (1 / 2) 359 1 3 = 2 := by
  have h1 : roundHE (((1 : ℝ) - 359) / 360.0) = -1 := by
    have hf : pfloor (((1 : ℝ) - 359) / 360.0) = -1 := by
      unfold pfloor; exact Int.floor_eq_iff.mpr ⟨by norm_num, by norm_num⟩
    unfold roundHE plt ofInt
    simp only [hf]
    norm_num
  have h2 : roundHE (((3 : ℝ) - 1) / 360.0) = 0 := roundHE_zero (by rw [abs_of_pos] <;> norm_num)
  unfold rts_interpol aAdd
  simp only [h1, h2, ofInt]
  norm_num
  exact aReduce_of_abs_lt (by norm_num)

/-- The refinement runs exactly TWICE: a successful `times_rise_transit_set` returns 24 × the second
    iterate of `rts_iter` started from `check_value` of `m0`, `m0 − H0/360`, `m0 + H0/360`, in the order
    (rise, transit, set). -/
theorem rts_two_passes (lon lat a1 d1 a2 d2 a3 d3 h0 dt th0 c r t s : ℝ)
    (h : rts_times lon lat a1 d1 a2 d2 a3 d3 h0 dt th0 c = .ok (r, t, s)) :
    ∃ m0 b0 b1 b2 s1 n0 n1 n2,
      aDivF (aSub (aAdd a2 lon) th0) 360.0 = .ok m0 ∧
      rts_check_value m0 = some b0 ∧
      rts_check_value (m0 - aToPositive (aOfRadians (pacos c)) / 360.0) = some b1 ∧
      rts_check_value (m0 + aToPositive (aOfRadians (pacos c)) / 360.0) = some b2 ∧
      rts_iter lon lat a1 d1 a2 d2 a3 d3 h0 dt th0 (b0, b1, b2) = .ok s1 ∧
      rts_iter lon lat a1 d1 a2 d2 a3 d3 h0 dt th0 s1 = .ok (n0, n1, n2) ∧
      r = n1 * 24 ∧ t = n0 * 24 ∧ s = n2 * 24 :=
  rts_times_ok h

/-- At a pole (of the observer or of the body's middle declination: `cos φ · cos δ2 = 0`) the function
    raises `ZeroDivisionError`, before any test — for all other arguments. -/
theorem rts_pole_zero_division (lon lat a1 d1 a2 d2 a3 d3 h0 dt th0 : ℝ)
    (h : Real.cos (lat * (Real.pi / 180)) * Real.cos (d2 * (Real.pi / 180)) = 0) :
    times_rise_transit_set lon lat a1 d1 a2 d2 a3 d3 h0 dt th0 = .error .zeroDivisionError := by
  have hd : peq (pcos (pradians lat) * pcos (pradians d2)) 0.0 = true := by
    unfold peq pcos pradians; simp only [decide_eq_true_eq]; norm_num
    exact mul_eq_zero.mp h
  unfold times_rise_transit_set rts_cosH0
  simp only [hd, if_true]

/-- The start estimates are where the body, at its middle position, IS at altitude `h0`: when times are
    attempted (`|cos H0| ≤ 1`), the altitude formula at the hour angle `H0 = acos(cos H0)` gives exactly
    `sin h0` (so do `−H0`, the rise, and `+H0`, the set: `cos` is even). -/
theorem rts_start_at_h0 (lat d2 h0 c : ℝ) (hc : rts_cosH0 lat d2 h0 = .ok c) (h1 : |c| ≤ 1) :
    Spec.SunEvents.sinAltitude (lat * (Real.pi / 180)) (d2 * (Real.pi / 180)) (Real.arccos c) =
      Real.sin (h0 * (Real.pi / 180)) ∧
    Spec.SunEvents.sinAltitude (lat * (Real.pi / 180)) (d2 * (Real.pi / 180)) (-Real.arccos c) =
      Real.sin (h0 * (Real.pi / 180)) := by
  unfold rts_cosH0 at hc
  simp only at hc
  split_ifs at hc with hd
  simp only [Except.ok.injEq] at hc
  have hden : Real.cos (lat * (Real.pi / 180)) * Real.cos (d2 * (Real.pi / 180)) ≠ 0 := by
    unfold peq pcos pradians at hd; norm_num at hd; exact mul_ne_zero hd.1 hd.2
  unfold Spec.SunEvents.sinAltitude
  rw [Real.cos_neg, Real.cos_arccos (neg_le_of_abs_le h1) (le_of_abs_le h1), ← hc]
  unfold psin pcos pradians
  have key : ∀ (a b x : ℝ), a * b ≠ 0 → a * b * (x / (a * b)) = x := fun a b x h => mul_div_cancel₀ x h
  rw [key _ _ _ hden]
  constructor <;> ring

/-- The transit correction of one pass is `Δm0 = −H/360` with `H` the hour angle
    `θ0 + 360.985647·m0 − L − α(n)` of the interpolated position, brought into [−180°, 180°] by whole
    turns (sidereal rate, sign of the longitude and of the correction as coded), for all inputs. -/
theorem rts_transit_correction (lon lat a1 d1 a2 d2 a3 d3 h0 dt th0 m0 m1 m2 n0 n1 n2 : ℝ)
    (h : rts_iter lon lat a1 d1 a2 d2 a3 d3 h0 dt th0 (m0, m1, m2) = .ok (n0, n1, n2)) :
    ∃ H : ℝ, -180 ≤ H ∧ H ≤ 180 ∧
      (∃ k : ℤ, H = th0 + 360.985647 * m0 - lon - rts_interpol (m0 + dt / 86400) a1 a2 a3 - 360 * k) ∧
      n0 = m0 - H / 360 := by
  unfold rts_iter at h
  simp only at h
  split at h <;> try (simp at h; done)
  split at h <;> try (simp at h; done)
  split at h <;> try (simp at h; done)
  split at h <;> try (simp at h; done)
  simp only [Except.ok.injEq, Prod.mk.injEq] at h
  obtain ⟨h0', _, _⟩ := h
  obtain ⟨hl, hu, k, hk⟩ := wrap180_range
    (aSub (aSub (aAdd th0 (360.985647 * m0)) lon) (rts_interpol (m0 + dt / 86400.0) a1 a2 a3))
  refine ⟨_, hl, hu, ?_, by rw [← h0']; norm_num; ring⟩
  -- the Angle arithmetic is congruent to the plain expression
  unfold aSub aAdd aNeg at hk ⊢
  obtain ⟨k1, e1⟩ := aReduce_congr (th0 + 360.985647 * m0)
  obtain ⟨k2, e2⟩ := aReduce_congr (-lon)
  obtain ⟨k3, e3⟩ := aReduce_congr (aReduce (th0 + 360.985647 * m0) + aReduce (-lon))
  obtain ⟨k4, e4⟩ := aReduce_congr (-rts_interpol (m0 + dt / 86400.0) a1 a2 a3)
  obtain ⟨k5, e5⟩ := aReduce_congr (aReduce (aReduce (th0 + 360.985647 * m0) + aReduce (-lon)) +
    aReduce (-rts_interpol (m0 + dt / 86400.0) a1 a2 a3))
  refine ⟨k + k1 + k2 + k3 + k4 + k5, ?_⟩
  rw [hk, e5, e4, e3, e2, e1]
  push_cast
  norm_num
  ring

end Pymeeus.C14
