import Pymeeus.Gen.R.SunEvents
namespace Pymeeus.C14
open Pymeeus Pymeeus.PR Pymeeus.GenR.SunEvents

/-- "other years raise ValueError" (placeholder, replaced below) -/
theorem season_jde0_out_of_range (year k : Int) (h : year < -1000 ∨ 3000 < year) :
    season_jde0 year k = .error .valueError := by
  unfold season_jde0
  have h1 : ¬ (year ≥ -1000 ∧ year < 1000) := by omega
  have h2 : ¬ (year ≥ 1000 ∧ year ≤ 3000) := by omega
  simp only [h1, h2, if_false]

end Pymeeus.C14
