import Pymeeus.Refine.Geocentric
/-
C09 — geocentric positions match the library's own heliocentric vectors.   (PARTIAL)

Property theorems only.  Statements about `Pymeeus.GenR`, the real-number instantiation of
templates/Geocentric.lean.  `epochOf` (what `Epoch(x)` makes of a float) and `yearOf` (`Epoch.year()`) are
parameters of the model: every theorem below holds for ALL such functions.

What a theorem can carry here is STRUCTURE: ranges, domains, which branch is taken, at which epoch each
ingredient is evaluated.  Every numerical agreement of the property (direction to 0.02° / 1e-4°, elongation
to 0.02°, Mercury ≤ 28.5°, Venus ≤ 48°) is an agreement between long independent series and is covered only by
the bit-exact correspondence run and by the predicates on the implementation (harness/c09.py), which find
four defects on the current tree (findings.d/C09.json); "the caller's Epoch is not shifted" is checked
dynamically there.
-/
noncomputable section
namespace Pymeeus.C09
open Pymeeus Pymeeus.PR Pymeeus.GenR Pymeeus.GenR.Helio Pymeeus.Refine.Vsop Pymeeus.Refine.SunEarth Pymeeus.Refine.Geocentric Pymeeus.Spec

/-! ## Elongation -/

/-- `Angle(acos(x), radians=True)` is an angle in [0°, 180°], for every `x`. -/
theorem angle_of_acos_range (x : ℝ) : 0 ≤ angOfRad (pacos x) ∧ angOfRad (pacos x) ≤ 180 := by
  have h0 := Real.arccos_nonneg x
  have h1 := Real.arccos_le_pi x
  have hpi := Real.pi_pos
  have e : pdegrees (pacos x) = Real.arccos x * (180 / Real.pi) := rfl
  have hd0 : 0 ≤ pdegrees (pacos x) := by rw [e]; positivity
  have hd1 : pdegrees (pacos x) ≤ 180 := by
    rw [e]
    calc Real.arccos x * (180 / Real.pi) ≤ Real.pi * (180 / Real.pi) :=
          mul_le_mul_of_nonneg_right h1 (by positivity)
      _ = 180 := by field_simp
  unfold angOfRad
  rw [angReduce_small _ (by rw [abs_lt]; constructor <;> linarith)]
  exact ⟨hd0, hd1⟩

/-- "The reported elongation equals … acos(…)" with its argument in [−1, 1]: for the planets the argument is
    `cos β · cos(λ − λ☉)`, a product of two cosines, so the `ValueError` branch of `acos` cannot be taken. -/
theorem planet_elongation_argument (beta lam lsun : ℝ) :
    -1 ≤ Real.cos beta * Real.cos (lam - lsun) ∧ Real.cos beta * Real.cos (lam - lsun) ≤ 1 := by
  have h1 := Real.abs_cos_le_one beta
  have h2 := Real.abs_cos_le_one (lam - lsun)
  have : |Real.cos beta * Real.cos (lam - lsun)| ≤ 1 := by
    rw [abs_mul]; exact mul_le_one₀ h1 (abs_nonneg _) h2
  exact abs_le.mp this

/-- "The reported elongation … lies in [0, 180]" — the seven planets: whatever the reduction returns. -/
theorem planet_elongation_range (ep l0 b : ℝ) (v : ℝ × ℝ × ℝ) (ra dec elon : ℝ)
    (h : planet_reduction ep l0 b v = .ok (ra, dec, elon)) : 0 ≤ elon ∧ elon ≤ 180 := by
  unfold planet_reduction at h
  simp only [] at h
  split_ifs at h with h1
  split at h
  · cases h
  · split at h
    · cases h
    · split_ifs at h with h2
      simp only [Except.ok.injEq, Prod.mk.injEq] at h
      rw [← h.2.2]
      exact angle_of_acos_range _

/-- … and the minor bodies: when `Minor.geocentric_position` returns, its elongation is in [0°, 180°]. -/
theorem minor_elongation_range (body : MinorBody) (jde ra dec psi : ℝ)
    (h : minor_geocentric_position body jde = .ok (ra, dec, psi)) : 0 ≤ psi ∧ psi ≤ 180 := by
  unfold minor_geocentric_position at h
  simp only [] at h
  split at h
  · cases h
  · split at h
    · cases h
    · split at h
      · cases h
      · split_ifs at h
        simp only [Except.ok.injEq, Prod.mk.injEq] at h
        rw [← h.2.2]
        exact angle_of_acos_range _

/-- The argument of `acos` in the elongation of a minor body is the cosine of the angle between the
    (light-time corrected) geocentric vector of the body and the Sun's vector, both divided by their OWN
    norms (since the repair that recomputes `delta` after the second pass): by Cauchy–Schwarz it lies in
    [−1, 1], so the `ValueError` branch of `acos` cannot be taken. -/
theorem minor_elongation_argument (xi eta zeta xs ys zs : ℝ) :
    -1 ≤ (xi * xs + eta * ys + zeta * zs) /
        (psqrt (xs * xs + ys * ys + zs * zs) * psqrt (xi * xi + eta * eta + zeta * zeta)) ∧
    (xi * xs + eta * ys + zeta * zs) /
        (psqrt (xs * xs + ys * ys + zs * zs) * psqrt (xi * xi + eta * eta + zeta * zeta)) ≤ 1 := by
  unfold psqrt
  set a := xs * xs + ys * ys + zs * zs with ha
  set b := xi * xi + eta * eta + zeta * zeta with hb
  have ha0 : 0 ≤ a := by rw [ha]; nlinarith [mul_self_nonneg xs, mul_self_nonneg ys, mul_self_nonneg zs]
  have hb0 : 0 ≤ b := by rw [hb]; nlinarith [mul_self_nonneg xi, mul_self_nonneg eta, mul_self_nonneg zeta]
  have cs : (xi * xs + eta * ys + zeta * zs) ^ 2 ≤ a * b := by
    rw [ha, hb]
    nlinarith [sq_nonneg (xi * ys - eta * xs), sq_nonneg (xi * zs - zeta * xs), sq_nonneg (eta * zs - zeta * ys)]
  have hprod : Real.sqrt a * Real.sqrt b = Real.sqrt (a * b) := (Real.sqrt_mul ha0 b).symm
  have habs : |xi * xs + eta * ys + zeta * zs| ≤ Real.sqrt a * Real.sqrt b := by
    rw [hprod]; exact Real.abs_le_sqrt cs
  have hd0 : 0 ≤ Real.sqrt a * Real.sqrt b := mul_nonneg (Real.sqrt_nonneg _) (Real.sqrt_nonneg _)
  have : |(xi * xs + eta * ys + zeta * zs) / (Real.sqrt a * Real.sqrt b)| ≤ 1 := by
    rw [abs_div, abs_of_nonneg hd0]
    exact div_le_one_of_le₀ habs hd0
  exact abs_le.mp this

/-! ## Right ascension and declination -/

/-- `Angle(atan2(z, w), radians=True)` with `w ≥ 0` is an angle in [−90°, 90°]. -/
theorem angle_of_atan2_range (z w : ℝ) (hw : 0 ≤ w) : -90 ≤ angOfRad (patan2 z w) ∧ angOfRad (patan2 z w) ≤ 90 := by
  have habs : |Complex.arg ⟨w, z⟩| ≤ Real.pi / 2 := Complex.abs_arg_le_pi_div_two_iff.mpr hw
  obtain ⟨h0, h1⟩ := abs_le.mp habs
  have hpi := Real.pi_pos
  have e : pdegrees (patan2 z w) = Complex.arg ⟨w, z⟩ * (180 / Real.pi) := rfl
  have hk : (0 : ℝ) < 180 / Real.pi := by positivity
  have hk2 : Real.pi * (180 / Real.pi) = 180 := by field_simp
  have hd0 : -90 ≤ pdegrees (patan2 z w) := by rw [e]; nlinarith
  have hd1 : pdegrees (patan2 z w) ≤ 90 := by rw [e]; nlinarith
  unfold angOfRad
  rw [angReduce_small _ (by rw [abs_lt]; constructor <;> linarith)]
  exact ⟨hd0, hd1⟩

/-- `ecliptical2equatorial` returns a right ascension in [0°, 360°) and a declination in [−90°, 90°], for all
    arguments (it cannot raise: the declination comes from `atan2` with a non-negative second argument). -/
theorem ecliptical2equatorial_range (lon lat eps ra dec : ℝ)
    (h : Helio.ecliptical2equatorial lon lat eps = .ok (ra, dec)) :
    0 ≤ ra ∧ ra < 360 ∧ -90 ≤ dec ∧ dec ≤ 90 := by
  unfold Helio.ecliptical2equatorial at h
  simp only [Except.ok.injEq, Prod.mk.injEq] at h
  obtain ⟨h1, h2⟩ := h
  rw [← h1, ← h2]
  refine ⟨(angToPositive_range _ (angReduce_abs _).1).1, (angToPositive_range _ (angReduce_abs _).1).2, ?_⟩
  exact angle_of_atan2_range _ _ (Real.sqrt_nonneg _)

/-- "the returned right ascension/declination": whatever `<Planet>.geocentric_position` returns, the right
    ascension is in [0°, 360°) and the declination in [−90°, 90°]. -/
theorem planet_ra_dec_range (ep l0 b : ℝ) (v : ℝ × ℝ × ℝ) (ra dec elon : ℝ)
    (h : planet_reduction ep l0 b v = .ok (ra, dec, elon)) : 0 ≤ ra ∧ ra < 360 ∧ -90 ≤ dec ∧ dec ≤ 90 := by
  unfold planet_reduction at h
  simp only [] at h
  split_ifs at h with h1
  split at h
  · cases h
  · rename_i ra' dec' he
    have hr := ecliptical2equatorial_range _ _ _ ra' dec' he
    split at h
    · cases h
    · split_ifs at h with h2
      simp only [Except.ok.injEq, Prod.mk.injEq] at h
      rw [← h.1, ← h.2.1]
      exact hr

/-! ## Pluto: "Pluto (1885-2099)" -/

/-- `Pluto.geometric_heliocentric_position` raises `ValueError` exactly when the year is outside
    [1885, 2099], as coded (both ends included in the valid range). -/
theorem pluto_value_error_iff (y jde : ℝ) :
    pluto_geometric_heliocentric_position (.ok y) jde = .error .valueError ↔ (y < 1885 ∨ 2099 < y) := by
  have e1 : (1885.0 : ℝ) = 1885 := by norm_num
  have e2 : (2099.0 : ℝ) = 2099 := by norm_num
  unfold pluto_geometric_heliocentric_position
  simp only [plt, e1, e2, Bool.or_eq_true, decide_eq_true_eq]
  constructor
  · intro h
    by_contra hc
    rw [if_neg hc] at h
    cases h
  · intro h
    rw [if_pos h]

/-- Inside the range a position is returned; an exception of `epoch.year()` is passed on unchanged. -/
theorem pluto_defined_iff (y jde : ℝ) :
    (∃ p, pluto_geometric_heliocentric_position (.ok y) jde = .ok p) ↔ (1885 ≤ y ∧ y ≤ 2099) := by
  have e1 : (1885.0 : ℝ) = 1885 := by norm_num
  have e2 : (2099.0 : ℝ) = 2099 := by norm_num
  unfold pluto_geometric_heliocentric_position
  simp only [plt, e1, e2, Bool.or_eq_true, decide_eq_true_eq]
  constructor
  · rintro ⟨p, h⟩
    by_contra hc
    have : y < 1885 ∨ 2099 < y := by
      by_contra hn; push Not at hn; exact hc ⟨hn.1, hn.2⟩
    rw [if_pos this] at h
    cases h
  · rintro ⟨h1, h2⟩
    have : ¬ (y < 1885 ∨ 2099 < y) := by push Not; exact ⟨h1, h2⟩
    rw [if_neg this]
    exact ⟨_, rfl⟩

theorem pluto_year_error (e : PyErr) (jde : ℝ) :
    pluto_geometric_heliocentric_position (.error e) jde = .error e := rfl

/-- `Pluto.geocentric_position` returns only if BOTH epochs — the given one and the light-time corrected one
    built by `epoch - tau` — have their year in [1885, 2099] (the second call repeats the test). -/
theorem pluto_geocentric_domain (epochOf yearOf : ℝ → PyRes ℝ) (jde : ℝ) (p : ℝ × ℝ)
    (h : pluto_geocentric_position epochOf yearOf jde = .ok p) :
    (∃ y, yearOf jde = .ok y ∧ 1885 ≤ y ∧ y ≤ 2099) ∧
    (∃ x ep y, epochOf x = .ok ep ∧ yearOf ep = .ok y ∧ 1885 ≤ y ∧ y ≤ 2099) := by
  unfold pluto_geocentric_position at h
  have first : ∀ (yr : PyRes ℝ) (j : ℝ) (q : ℝ × ℝ × ℝ), pluto_geometric_heliocentric_position yr j = .ok q →
      ∃ y, yr = .ok y ∧ 1885 ≤ y ∧ y ≤ 2099 := by
    intro yr j q hq
    cases yr with
    | error e => simp [pluto_geometric_heliocentric_position] at hq
    | ok y => exact ⟨y, rfl, (pluto_defined_iff y j).mp ⟨q, hq⟩⟩
  split at h
  · cases h
  · rename_i ll b r h1
    refine ⟨first _ _ _ h1, ?_⟩
    split at h
    · cases h
    · simp only [] at h
      split at h
      · cases h
      · rename_i ep hep
        split at h
        · cases h
        · rename_i ll2 b2 r2 h2
          obtain ⟨y, hy, hr⟩ := first _ _ _ h2
          exact ⟨_, ep, y, hep, hy, hr⟩

/-- `Angle(asin(x), radians=True)` is an angle in [−90°, 90°], for every `x`. -/
theorem angle_of_asin_range (x : ℝ) : -90 ≤ angOfRad (pasin x) ∧ angOfRad (pasin x) ≤ 90 := by
  have h0 := Real.neg_pi_div_two_le_arcsin x
  have h1 := Real.arcsin_le_pi_div_two x
  have hpi := Real.pi_pos
  have e : pdegrees (pasin x) = Real.arcsin x * (180 / Real.pi) := rfl
  have hk : (0 : ℝ) < 180 / Real.pi := by positivity
  have hk2 : Real.pi * (180 / Real.pi) = 180 := by field_simp
  have hd0 : -90 ≤ pdegrees (pasin x) := by rw [e]; nlinarith
  have hd1 : pdegrees (pasin x) ≤ 90 := by rw [e]; nlinarith
  unfold angOfRad
  rw [angReduce_small _ (by rw [abs_lt]; constructor <;> linarith)]
  exact ⟨hd0, hd1⟩

/-- Shape of Pluto's tables regenerated from the source: 43 rows each, of 3 multipliers / 2 coefficients (the
    loop pairs row n of the argument table with row n of the three coefficient tables). -/
theorem pluto_tables_shape :
    PLUTO_ARGUMENT.map List.length = List.replicate 43 3 ∧ PLUTO_LONGITUDE.map List.length = List.replicate 43 2 ∧
    PLUTO_LATITUDE.map List.length = List.replicate 43 2 ∧ PLUTO_RADIUS_VECTOR.map List.length = List.replicate 43 2 :=
  ⟨rfl, rfl, rfl, rfl⟩

/-- Whatever `Pluto.geocentric_position` returns, the right ascension is in [0°, 360°) and the declination in
    [−90°, 90°]. -/
theorem pluto_ra_dec_range (epochOf yearOf : ℝ → PyRes ℝ) (jde ra dec : ℝ)
    (h : pluto_geocentric_position epochOf yearOf jde = .ok (ra, dec)) :
    0 ≤ ra ∧ ra < 360 ∧ -90 ≤ dec ∧ dec ≤ 90 := by
  unfold pluto_geocentric_position at h
  split at h
  · cases h
  · split at h
    · cases h
    · simp only [] at h
      split at h
      · cases h
      · split at h
        · cases h
        · split_ifs at h
          simp only [Except.ok.injEq, Prod.mk.injEq] at h
          obtain ⟨h1, h2⟩ := h
          rw [← h1, ← h2]
          exact ⟨(angToPositive_range _ (angReduce_abs _).1).1, (angToPositive_range _ (angReduce_abs _).1).2,
            (angle_of_asin_range _).1, (angle_of_asin_range _).2⟩

/-! ## Minor bodies: "on any elliptic, near-parabolic or parabolic orbit" -/

/-- The three regimes partition the eccentricities of the property, `e ∈ [0, 1]`: elliptic on
    `[0, 0.98)`, near-parabolic on `[0.98, 1 − 1e-10]`, parabolic on `(1 − 1e-10, 1]` — the switch points
    0.98 and 1.0 belong to the near-parabolic and to the parabolic regime. -/
theorem regime_partition (e : ℝ) (h0 : 0 ≤ e) (h1 : e ≤ 1) :
    (e < 0.98 ∧ regimeOf e = .elliptic) ∨
    (0.98 ≤ e ∧ e ≤ 1 - 1e-10 ∧ regimeOf e = .nearParabolic) ∨
    (1 - 1e-10 < e ∧ regimeOf e = .parabolic) := by
  unfold regimeOf
  by_cases ha : e < 0.98
  · left; exact ⟨ha, by rw [if_pos ha]⟩
  · right
    have hb : 0.98 ≤ e := not_lt.mp ha
    by_cases hc : |e - 1| < 1e-10
    · right
      have := (abs_lt.mp hc).1
      exact ⟨by linarith, by rw [if_neg ha, if_pos hc]⟩
    · left
      refine ⟨hb, ?_, by rw [if_neg ha, if_neg hc]⟩
      by_contra hd
      apply hc
      rw [abs_lt]; constructor <;> [linarith [not_le.mp hd]; (norm_num; linarith)]

/-- The orbit computation of `Minor.geocentric_position` takes exactly the branch of the regime of the
    body's eccentricity: Kepler's equation, Barker's cubic, or the near-parabolic series. -/
theorem minor_orbit_by_regime (body : MinorBody) (t_peri : ℝ) :
    minor_orbit body t_peri =
      match regimeOf body.e with
      | .elliptic => minor_elliptic body t_peri
      | .parabolic => minor_parabolic body t_peri
      | .nearParabolic => near_parabolic body t_peri := by
  have e1 : (1.0 : ℝ) = 1 := by norm_num
  unfold minor_orbit regimeOf
  simp only [plt, pabs, geo_tol, e1, decide_eq_true_eq]
  by_cases ha : body.e < 0.98
  · simp [ha]
  · by_cases hc : |body.e - 1| < 1e-10
    · simp [ha, hc]
    · simp [ha, hc]

/-- "both light-time passes use the same regime", and the light-time structure of
    `Minor.geocentric_position`: first pass at `epoch − T`, second pass at `epoch − T − 0.0057755183·Δ` with `Δ`
    the first-pass geocentric distance, the Sun's vector at `epoch` in both; the two passes call the SAME
    `minor_orbit body` (the regime depends on `body.e` only), each with the time from perihelion of its pass
    (also in the parabolic branch, since the repair of its second pass). -/
theorem minor_light_time_structure (body : MinorBody) (jde : ℝ) (v1 rr1 : ℝ) (s : ℝ × ℝ × ℝ)
    (h1 : minor_orbit body (jde - body.t) = .ok (v1, rr1))
    (hs : rectangular_coordinates_j2000 jde = .ok s) :
    ∃ delta : ℝ,
      delta = Real.sqrt (((minor_xyz body v1 rr1).1 + s.1) ^ 2 + ((minor_xyz body v1 rr1).2.1 + s.2.1) ^ 2
        + ((minor_xyz body v1 rr1).2.2 + s.2.2) ^ 2) ∧
      ∀ v2 rr2, minor_orbit body (jde - body.t - 0.0057755183 * delta) = .ok (v2, rr2) →
        ∀ out, minor_geocentric_position body jde = .ok out →
          out.1 = angOfRad (patan2 ((minor_xyz body v2 rr2).2.1 + s.2.1) ((minor_xyz body v2 rr2).1 + s.1)) := by
  refine ⟨_, rfl, ?_⟩
  intro v2 rr2 h2 out hout
  unfold minor_geocentric_position at hout
  simp only [h1, hs] at hout
  have hd : ∀ a b c : ℝ, psqrt (a * a + b * b + c * c) = Real.sqrt (a ^ 2 + b ^ 2 + c ^ 2) := by
    intro a b c; unfold psqrt; congr 1; ring
  simp only [hd, h2] at hout
  split_ifs at hout
  simp only [Except.ok.injEq] at hout
  rw [← hout]

/-! ## Identities between two of the library's own formulas; the parabolic branch -/

/-- The "correction to the FK5 system" inside `<Planet>.geocentric_position` is the SAME formula as the one in
    `geometric_vsop_pos` (Coordinates.py), evaluated at the shifted epoch, the geocentric longitude and the
    heliocentric latitude IN RADIANS (`tan(b.rad())`): for every epoch, longitude and latitude the two pairs
    `(Δλ, Δβ)` coincide.  Hence the size bounds of `C07.fk5_size` hold for the geocentric correction as well;
    a latitude passed in degrees (or any other slip in one of the two copies) falsifies this. -/
theorem planet_fk5_is_vsop_fk5 (ep lamb b : ℝ) :
    geo_fk5_deltas ((ep - 2451545.0) / 36525.0) lamb b = fk5_deltas ep lamb b := by
  have e : ∀ t : ℝ, t * (1.397 + t * 0.00031) = t * (1.397 + 0.00031 * t) := fun t => by ring
  simp only [geo_fk5_deltas, fk5_deltas, e]

/-- The parabolic branch of `Minor.geocentric_position` (Barker's equation): whenever it returns, the true
    anomaly is `2·atan(s)` in DEGREES, strictly between −180° and 180° (never "normalised" by a turn), and the
    radius vector is `q (1 + s²) ≥ q`, for one and the same real `s`. -/
theorem minor_parabolic_value (body : MinorBody) (t_peri v rr : ℝ)
    (h : minor_parabolic body t_peri = .ok (v, rr)) :
    ∃ s : ℝ, v = 2 * Real.arctan s * (180 / Real.pi) ∧ rr = body.q * (1 + s ^ 2) ∧ -180 < v ∧ v < 180 ∧
      (0 ≤ body.q → body.q ≤ rr) := by
  unfold minor_parabolic at h
  simp only [] at h
  split_ifs at h
  split at h
  · cases h
  · rename_i s hs
    simp only [Except.ok.injEq, Prod.mk.injEq] at h
    obtain ⟨hv, hr⟩ := h
    have hpi := Real.pi_pos
    have h1 := Real.arctan_lt_pi_div_two s
    have h2 := Real.neg_pi_div_two_lt_arctan s
    have e2 : (2.0 : ℝ) = 2 := by norm_num
    have e1 : (1.0 : ℝ) = 1 := by norm_num
    have hd : pdegrees (2.0 * patan s) = 2 * Real.arctan s * (180 / Real.pi) := by
      simp only [pdegrees, patan, e2]
    have hlt : |pdegrees (2.0 * patan s)| < 180 := by
      rw [hd, abs_lt]
      have hk : (0 : ℝ) < 180 / Real.pi := by positivity
      have hk2 : Real.pi * (180 / Real.pi) = 180 := by field_simp
      constructor <;> nlinarith
    have hval : v = 2 * Real.arctan s * (180 / Real.pi) := by
      rw [← hv, angOfRad, angReduce_small _ (lt_trans hlt (by norm_num)), hd]
    refine ⟨s, hval, by rw [← hr, e1]; ring, ?_, ?_, ?_⟩
    · rw [hval, ← hd]; exact (abs_lt.mp hlt).1
    · rw [hval, ← hd]; exact (abs_lt.mp hlt).2
    · intro hq; rw [← hr, e1]; nlinarith [sq_nonneg s, mul_self_nonneg s]

/-! ## Kepler's equation: totality of the elliptic branch -/

/-- The bisection loop of `kepler_equation` (`while abs(e0 - ef) > TOL`) ends within the fuel of the model for
    EVERY eccentricity and mean anomaly (the step is halved each time: 41 iterations at most), so the model's
    "fuel exhausted" outcome never occurs; and the eccentric anomaly it returns is strictly between 0 and π
    (before the sign `f` is applied). -/
theorem kepler_loop_terminates (ecc m : ℝ) :
    ∃ e0, loopFuel (kepler_step ecc m) 10000 (pi / 2.0, pi / 4.0, 0.0) = some e0 ∧ 0 < e0 ∧ e0 < Real.pi := by
  have hpi := Real.pi_pos
  have hpi4 := Real.pi_lt_four
  have e2 : (2.0 : ℝ) = 2 := by norm_num
  have e4 : (4.0 : ℝ) = 4 := by norm_num
  have e0' : (0.0 : ℝ) = 0 := by norm_num
  have hP : (pi : ℝ) = Real.pi := rfl
  obtain ⟨r, hr, hb⟩ := kepler_loop_aux ecc m 40 (pi / 2.0, pi / 4.0, 0.0) (Real.pi / 4) (by positivity)
    (by simp [hP, e4]) (by simp only [hP, e2, e0', sub_zero]; rw [abs_of_pos (by positivity)]; ring)
    (by rw [tol_val]; norm_num; linarith) 10000 (by norm_num)
  refine ⟨r, hr, ?_⟩
  simp only [hP, e2] at hb
  have := abs_lt.mp hb
  constructor <;> linarith [this.1, this.2]

/-- `kepler_equation` raises `ValueError` for every eccentricity ≥ 1 (as guarded in the source) and returns a pair
    of Angles for every elliptic eccentricity 0 ≤ e < 1 and every mean anomaly: it is total on its documented
    domain. -/
theorem kepler_equation_domain (ecc manom : ℝ) :
    (1 ≤ ecc → kepler_equation ecc manom = .error .valueError) ∧
    (0 ≤ ecc → ecc < 1 → ∃ E v, kepler_equation ecc manom = .ok (E, v)) := by
  have e1 : (1.0 : ℝ) = 1 := by norm_num
  constructor
  · intro h
    simp [kepler_equation, ple, e1, h]
  · intro h0 h1
    have key : ∀ mm : ℝ, loopFuel (kepler_step ecc mm) 10000 (pi / 2.0, pi / 4.0, 0.0) ≠ none := by
      intro mm hn
      obtain ⟨r, hr, _⟩ := kepler_loop_terminates ecc mm
      rw [hr] at hn; cases hn
    have hne : ¬ ((1 : ℝ) - ecc = 0) := by intro h; linarith
    have hratio : ¬ ((1 + ecc) / (1 - ecc) < 0) := by
      rw [not_lt]; exact div_nonneg (by linarith) (by linarith)
    unfold kepler_equation
    simp only [ple, e1, not_le.mpr h1, decide_false, Bool.false_eq_true, if_false]
    split
    · rename_i hnone
      exact absurd hnone (key _)
    · simp only [peq, plt, e1, lit0, hne, hratio, decide_false, Bool.false_eq_true, if_false]
      exact ⟨_, _, rfl⟩

/-- Hence the elliptic regime of `Minor.geocentric_position` (e < 0.98) always produces a true anomaly and a
    radius vector: no exception and no non-termination can come from this branch. -/
theorem minor_elliptic_defined (body : MinorBody) (t_peri : ℝ) (h0 : 0 ≤ body.e) (h1 : body.e < 0.98) :
    ∃ v rr, minor_elliptic body t_peri = .ok (v, rr) := by
  obtain ⟨E, v, h⟩ := (kepler_equation_domain body.e (angOfDeg (t_peri * body.n))).2 h0 (by linarith)
  exact ⟨v, body.a * (1.0 - body.e * pcos (angRad (angToPositive E))), by simp only [minor_elliptic, h]⟩

/-! ## Planets: light-time structure -/

/-- "the vector from the Earth's heliocentric position at the epoch to the body's heliocentric position
    one light-time earlier": the second heliocentric position of the planet is evaluated at
    `Epoch(epoch − 0.0057755183·Δ)`, `Δ` the first-pass geocentric distance, while the Earth stays at the
    given epoch.  Everything after that (`planet_reduction`) receives the SHIFTED epoch `ep`: as coded, the
    Sun's apparent position used for the elongation, the nutation and the obliquity are those of `ep`, not of
    the caller's epoch (this is what makes the elongation of Jupiter … Neptune miss the stated 0.02°). -/
theorem planet_light_time_structure (epochOf : ℝ → PyRes ℝ) (planet : String) (jde : ℝ)
    (l b r l0 b0 r0 ep l' b' r' : ℝ)
    (h1 : planet_geometric_heliocentric_position planet jde false = .ok (l, b, r))
    (h0 : Earth_geometric_heliocentric_position jde false = .ok (l0, b0, r0))
    (he : epochOf (jde - 0.0057755183 * Real.sqrt (
        (geo_xyz (angRad l) (angRad b) r (angRad l0) (angRad b0) r0).1 ^ 2
        + (geo_xyz (angRad l) (angRad b) r (angRad l0) (angRad b0) r0).2.1 ^ 2
        + (geo_xyz (angRad l) (angRad b) r (angRad l0) (angRad b0) r0).2.2 ^ 2)) = .ok ep)
    (h2 : planet_geometric_heliocentric_position planet ep false = .ok (l', b', r')) :
    planet_geocentric_position epochOf planet jde =
      planet_reduction ep l0 b' (geo_xyz (angRad l') (angRad b') r' (angRad l0) (angRad b0) r0) := by
  have hd : ∀ a b c : ℝ, psqrt (a * a + b * b + c * c) = Real.sqrt (a ^ 2 + b ^ 2 + c ^ 2) := by
    intro a b c; unfold psqrt; congr 1; ring
  unfold planet_geocentric_position light_time
  simp only [h1, h0, hd, he, h2]

/-- An exception of any ingredient (a heliocentric position, `Epoch(epoch − tau)`) is passed on. -/
theorem planet_errors_propagate (epochOf : ℝ → PyRes ℝ) (planet : String) (jde : ℝ) (e : PyErr)
    (h : planet_geometric_heliocentric_position planet jde false = .error e) :
    planet_geocentric_position epochOf planet jde = .error e := by
  unfold planet_geocentric_position
  simp only [h]

/-! ### non-vacuity -/

example : regimeOf 0.98 = .nearParabolic := by
  unfold regimeOf
  rw [if_neg (by norm_num), if_neg (by norm_num [abs_of_neg])]
example : regimeOf 1 = .parabolic := by
  unfold regimeOf
  rw [if_neg (by norm_num), if_pos (by norm_num)]
example : regimeOf 0.5 = .elliptic := by
  unfold regimeOf
  rw [if_pos (by norm_num)]
example : pluto_geometric_heliocentric_position (.ok 1884.999) 2409543 = .error .valueError :=
  (pluto_value_error_iff _ _).mpr (Or.inl (by norm_num))
example : ∃ p, pluto_geometric_heliocentric_position (.ok 2000) 2451545 = .ok p :=
  (pluto_defined_iff _ _).mpr ⟨by norm_num, by norm_num⟩

end Pymeeus.C09
