import Pymeeus.Refine.SunEarth
import Pymeeus.Gen.R.VsopPlanets
import Mathlib.Analysis.Real.Pi.Bounds
/-
C07 — VSOP87 heliocentric positions.

Property theorems only (helper lemmas live in Refine/Vsop.lean, Refine/VsopDeriv.lean; the specification
`Spec.directSum` in Spec/Vsop.lean).  They are statements about `Pymeeus.GenR`, the real-number
instantiation of templates/Vsop.lean, and about the tables regenerated from the source by
tools/gen_tables.py (`Tables.<Planet>.L`, `<Planet>_ORBITAL_ELEM`, …): a table edit in the source changes
these constants and the per-planet theorems below are re-checked against the new ones.

Not carried by any theorem (numerical facts about ~32 000 coefficients; see harness/c07.py): latitude
within inclination + 0.05°, radius within the mean orbit ± 1 %, daily rate within 3 % of the Keplerian
extremes, agreement with the Kepler motion of the mean elements.
-/
noncomputable section
namespace Pymeeus.C07
open Pymeeus Pymeeus.PR Pymeeus.GenR Pymeeus.GenR.Helio Pymeeus.Refine.Vsop Pymeeus.Refine.SunEarth Pymeeus.Tables

/-! ## The evaluator -/

/-- "The series evaluator returns what a direct term-by-term summation of the same tables gives":
    for EVERY table and every `t`, the value computed as coded (sum of each series, Horner in `t`,
    division by 1e8) is `(Σ_i t^i Σ_j A_ij cos(B_ij + C_ij t)) / 10^8` — exactly, over ℝ. -/
theorem evaluator_eq_direct_sum (tbl : VsopTable) (t : ℝ) :
    vsop_coord tbl t = Spec.directSum tbl t / 100000000 :=
  vsop_coord_eq tbl t

/-- `vsop_pos` fails (IndexError) exactly when one of the three tables is empty. -/
theorem vsop_pos_error_iff (jde : ℝ) (L B R : VsopTable) :
    (∃ e, vsop_pos jde L B R = .error e) ↔ (L = [] ∨ B = [] ∨ R = []) := by
  unfold vsop_pos
  cases L <;> cases B <;> cases R <;> simp

/-- What `vsop_pos` returns, in terms of the direct sums: the radius vector is the direct sum of the R
    table (in AU); longitude and latitude are the direct sums of the L and B tables (radians) converted to
    degrees, up to a whole number of turns. -/
theorem vsop_pos_value (jde : ℝ) (L B R : VsopTable) (lon lat r : ℝ)
    (h : vsop_pos jde L B R = .ok (lon, lat, r)) :
    r = Spec.directSum R (vsop_t jde) / 100000000 ∧
    (∃ k : ℤ, lon = Spec.directSum L (vsop_t jde) / 100000000 * (180 / Real.pi) + 360 * k) ∧
    (∃ k : ℤ, lat = Spec.directSum B (vsop_t jde) / 100000000 * (180 / Real.pi) + 360 * k) := by
  unfold vsop_pos at h
  split_ifs at h
  simp only [Except.ok.injEq, Prod.mk.injEq] at h
  obtain ⟨h1, h2, h3⟩ := h
  refine ⟨by rw [← h3, vsop_coord_eq], ?_, ?_⟩
  · obtain ⟨k, hk⟩ := angReduce_congr (pdegrees (vsop_coord L (vsop_t jde)))
    rcases angToPositive_congr (angOfRad (vsop_coord L (vsop_t jde))) (angReduce_abs _).1 with hp | hp
    · refine ⟨k, ?_⟩
      rw [← h1, hp, angOfRad, hk, vsop_coord_eq, pdegrees]
    · refine ⟨k + 1, ?_⟩
      rw [← h1, hp, angOfRad, hk, vsop_coord_eq, pdegrees]; push_cast; ring
  · obtain ⟨k, hk⟩ := angReduce_congr (pdegrees (vsop_coord B (vsop_t jde)))
    exact ⟨k, by rw [← h2, angOfRad, hk, vsop_coord_eq, pdegrees]⟩

/-- "the heliocentric longitude is in [0, 360)" — for `vsop_pos`, by construction, for every table and
    every epoch; the latitude is in (−360, 360). -/
theorem vsop_pos_ranges (jde : ℝ) (L B R : VsopTable) (lon lat r : ℝ)
    (h : vsop_pos jde L B R = .ok (lon, lat, r)) :
    0 ≤ lon ∧ lon < 360 ∧ -360 < lat ∧ lat < 360 := by
  unfold vsop_pos at h
  split_ifs at h
  simp only [Except.ok.injEq, Prod.mk.injEq] at h
  obtain ⟨h1, h2, _⟩ := h
  have hl := angToPositive_range (angOfRad (vsop_coord L (vsop_t jde))) (angReduce_abs _).1
  have hb := abs_lt.mp (angReduce_abs (pdegrees (vsop_coord B (vsop_t jde)))).1
  rw [← h1, ← h2]
  exact ⟨hl.1, hl.2, hb.1, hb.2⟩

/-! ## FK5 correction and aberration -/

/-- "the FK5 … corrections have their documented size": `|Δλ| ≤ (0.09033 + 0.03916·√2·|tan B|)″` and
    `|Δβ| ≤ 0.03916·√2″`, for every epoch, longitude and latitude (the reduction of an `Angle` can only
    shrink a value).  Degrees: 1″ = 1/3600°. -/
theorem fk5_size (jde lon lat : ℝ) :
    |(fk5_deltas jde lon lat).1| ≤ (0.09033 + 0.03916 * Real.sqrt 2 * |Real.tan (angRad lat)|) / 3600 ∧
    |(fk5_deltas jde lon lat).2| ≤ 0.03916 * Real.sqrt 2 / 3600 := by
  have hcs : ∀ x : ℝ, |Real.cos x + Real.sin x| ≤ Real.sqrt 2 := by
    intro x
    apply Real.abs_le_sqrt
    nlinarith [Real.sin_sq_add_cos_sq x, sq_nonneg (Real.cos x - Real.sin x)]
  have hcs' : ∀ x : ℝ, |Real.cos x - Real.sin x| ≤ Real.sqrt 2 := by
    intro x
    apply Real.abs_le_sqrt
    nlinarith [Real.sin_sq_add_cos_sq x, sq_nonneg (Real.cos x + Real.sin x)]
  unfold fk5_deltas
  simp only [pcos, psin, ptan]
  set lp := angRad (angSubF lon ((jde - 2451545.0) / 36525.0 * (1.397 + 0.00031 * ((jde - 2451545.0) / 36525.0)))) with hlp
  constructor
  · refine (angReduce_abs _).2.trans ((abs_add_le _ _).trans ?_)
    have h1 : |angDms 0 0 (-0.09033)| ≤ 0.09033 / 3600 := by
      refine (angDms_zero_zero_abs_le _).trans ?_
      norm_num [abs_of_pos]
    have h2 := angDms_zero_zero_abs_le (0.03916 * (Real.cos lp + Real.sin lp) * Real.tan (angRad lat))
    have h3 : |0.03916 * (Real.cos lp + Real.sin lp) * Real.tan (angRad lat)| ≤
        0.03916 * Real.sqrt 2 * |Real.tan (angRad lat)| := by
      rw [abs_mul, abs_mul]
      have : |(0.03916 : ℝ)| = 0.03916 := abs_of_pos (by norm_num)
      rw [this]
      exact mul_le_mul_of_nonneg_right (mul_le_mul_of_nonneg_left (hcs lp) (by norm_num)) (abs_nonneg _)
    have h4 : |0.03916 * (Real.cos lp + Real.sin lp) * Real.tan (angRad lat)| / 3600 ≤
        0.03916 * Real.sqrt 2 * |Real.tan (angRad lat)| / 3600 := by
      apply div_le_div_of_nonneg_right h3 (by norm_num)
    linarith
  · refine (angDms_zero_zero_abs_le _).trans ?_
    apply div_le_div_of_nonneg_right _ (by norm_num)
    rw [abs_mul]
    have : |(0.03916 : ℝ)| = 0.03916 := abs_of_pos (by norm_num)
    rw [this]
    exact mul_le_mul_of_nonneg_left (hcs' lp) (by norm_num)

/-- `geometric_vsop_pos` is `vsop_pos` when `tofk5` is false, and `vsop_pos` with the two corrections
    added (as `Angle` sums, the longitude brought back to [0, 360) by `to_positive`) when it is true; the
    radius vector is never touched. -/
theorem geometric_structure (jde : ℝ) (L B R : VsopTable) (lon lat r : ℝ)
    (h : vsop_pos jde L B R = .ok (lon, lat, r)) :
    geometric_vsop_pos jde L B R false = .ok (lon, lat, r) ∧
    geometric_vsop_pos jde L B R true =
      .ok (angToPositive (angAdd lon (fk5_deltas jde lon lat).1), angAdd lat (fk5_deltas jde lon lat).2, r) := by
  simp [geometric_vsop_pos, h, fk5_correction]

/-- "the … aberration corrections have their documented size": `apparent_vsop_pos` adds (after the
    nutation in longitude, if requested) exactly `−20.4898″ / r` to the longitude, for every radius vector
    `r > 20.4898 / 1296000` AU; latitude and radius vector are those of `geometric_vsop_pos`. -/
theorem aberration_term (jde : ℝ) (L B R : VsopTable) (nut : Bool) (lon lat r : ℝ)
    (h : geometric_vsop_pos jde L B R true = .ok (lon, lat, r)) (hr : 20.4898 / 1296000 < r) :
    apparent_vsop_pos jde L B R nut =
      .ok (angToPositive (angAdd (if nut then angAdd lon (nutation_longitude jde) else lon) (-20.4898 / r / 3600)),
        lat, r) := by
  have hr0 : (0 : ℝ) < r := lt_trans (by norm_num) hr
  have hne : r ≠ 0 := ne_of_gt hr0
  have habs : |(-20.4898 : ℝ) / r| < 1296000 := by
    rw [abs_div, abs_of_pos hr0, div_lt_iff₀ hr0]
    have : |(-20.4898 : ℝ)| = 20.4898 := by norm_num [abs_of_neg]
    rw [this]
    have := (div_lt_iff₀ (by norm_num : (0 : ℝ) < 1296000)).mp hr
    linarith
  unfold apparent_vsop_pos
  simp only [h]
  have hpeq : peq r 0.0 = false := by simp [peq, lit0, hne]
  simp only [hpeq, Bool.false_eq_true, if_false, angDms_zero_zero _ habs]

/-- The radius-vector hypothesis of `aberration_term` is not vacuous and the error branch is real:
    `r = 0` raises `ZeroDivisionError`. -/
theorem aberration_zero_radius (jde : ℝ) (L B R : VsopTable) (nut : Bool) (lon lat : ℝ)
    (h : geometric_vsop_pos jde L B R true = .ok (lon, lat, 0)) :
    apparent_vsop_pos jde L B R nut = .error .zeroDivisionError := by
  unfold apparent_vsop_pos
  simp [h, peq, lit0]

/-! ## The longitude after the corrections stays in [0, 360) -/

/-- "the heliocentric longitude is in [0, 360)" — also after the FK5 correction and after the aberration /
    nutation corrections, for every table, every epoch and both values of the `tofk5` / `nutation` options
    (since the repair "VSOP87 longitudes stay in [0, 360) after the FK5 and aberration corrections": the
    sum is passed through `to_positive`); the latitude stays in (−360, 360). -/
theorem corrected_lon_range (jde : ℝ) (L B R : VsopTable) (f : Bool) (lon lat r : ℝ)
    (h : geometric_vsop_pos jde L B R f = .ok (lon, lat, r) ∨ apparent_vsop_pos jde L B R f = .ok (lon, lat, r)) :
    0 ≤ lon ∧ lon < 360 ∧ -360 < lat ∧ lat < 360 := by
  rcases h with h | h
  · exact geometric_range jde L B R f lon lat r h
  · exact apparent_range jde L B R f lon lat r h

/-- The case that used to go wrong: a longitude series that evaluates to 0 at J2000.0 now gives
    `360° − 0.09033″`, not `−0.09033″`. -/
theorem corrected_lon_at_zero :
    ∃ lon lat r, geometric_vsop_pos 2451545 zeroTable zeroTable zeroTable true = .ok (lon, lat, r) ∧
      lon = 360 - 0.09033 / 3600 := by
  have hs : ∀ t : ℝ, vsop_coord zeroTable t = 0 := by
    intro t; rw [vsop_coord_eq]; simp [Spec.directSum, Spec.seriesDirect, zeroTable]
  have hv : vsop_pos 2451545 zeroTable zeroTable zeroTable = .ok (0, 0, 0) := by
    unfold vsop_pos
    simp only [hs, angOfRad, pdegrees, zero_mul]
    have h0 : angReduce 0 = 0 := angReduce_small 0 (by norm_num)
    have h1 : angToPositive 0 = 0 := by simp [angToPositive, plt, lit0]
    simp [zeroTable, h0, h1]
  have hd : (fk5_deltas 2451545 0 0).1 = -0.09033 / 3600 := by
    unfold fk5_deltas
    have e1 : angDms 0 0 (-0.09033) = -0.09033 / 3600 := angDms_zero_zero _ (by norm_num [abs_of_neg])
    simp only [ptan, angRad, pradians, zero_mul, Real.tan_zero, mul_zero]
    rw [angDms_zero_zero 0 (by norm_num), e1, angAdd, zero_div, add_zero]
    exact angReduce_small _ (by norm_num [abs_of_neg])
  refine ⟨_, _, _, (geometric_structure 2451545 zeroTable zeroTable zeroTable 0 0 0 hv).2, ?_⟩
  rw [hd, angAdd, zero_add, angReduce_small _ (by norm_num [abs_of_neg])]
  unfold angToPositive
  norm_num [plt, ple, pabs, abs_of_neg]

/-! ## Per planet, from the generated tables -/

/-! ### Kepler's third law: "mean motion and semi-major axis satisfy Kepler's third law to 0.1 % (1 % for
Saturn to Neptune)".  `n` = rate of the mean longitude of `ORBITAL_ELEM_J2000` (sidereal, rad/day),
`a` = `ORBITAL_ELEM[1][0]`, against the Gaussian constant: `|n² a³ − k²| ≤ tol · k²`. -/
theorem kepler3_mercury :
    |Spec.meanMotion Mercury_ORBITAL_ELEM_J2000 ^ 2 * Spec.semiMajorAxis Mercury_ORBITAL_ELEM ^ 3 - Spec.gaussK ^ 2|
      ≤ 0.001 * Spec.gaussK ^ 2 := by
  unfold Spec.meanMotion
  apply kepler3_of_bounds <;>
    norm_num [Spec.elemRate, Spec.semiMajorAxis, Spec.gaussK, Mercury_ORBITAL_ELEM_J2000, Mercury_ORBITAL_ELEM]
theorem kepler3_venus :
    |Spec.meanMotion Venus_ORBITAL_ELEM_J2000 ^ 2 * Spec.semiMajorAxis Venus_ORBITAL_ELEM ^ 3 - Spec.gaussK ^ 2|
      ≤ 0.001 * Spec.gaussK ^ 2 := by
  unfold Spec.meanMotion
  apply kepler3_of_bounds <;>
    norm_num [Spec.elemRate, Spec.semiMajorAxis, Spec.gaussK, Venus_ORBITAL_ELEM_J2000, Venus_ORBITAL_ELEM]
theorem kepler3_earth :
    |Spec.meanMotion Earth_ORBITAL_ELEM_J2000 ^ 2 * Spec.semiMajorAxis Earth_ORBITAL_ELEM ^ 3 - Spec.gaussK ^ 2|
      ≤ 0.001 * Spec.gaussK ^ 2 := by
  unfold Spec.meanMotion
  apply kepler3_of_bounds <;>
    norm_num [Spec.elemRate, Spec.semiMajorAxis, Spec.gaussK, Earth_ORBITAL_ELEM_J2000, Earth_ORBITAL_ELEM]
theorem kepler3_mars :
    |Spec.meanMotion Mars_ORBITAL_ELEM_J2000 ^ 2 * Spec.semiMajorAxis Mars_ORBITAL_ELEM ^ 3 - Spec.gaussK ^ 2|
      ≤ 0.001 * Spec.gaussK ^ 2 := by
  unfold Spec.meanMotion
  apply kepler3_of_bounds <;>
    norm_num [Spec.elemRate, Spec.semiMajorAxis, Spec.gaussK, Mars_ORBITAL_ELEM_J2000, Mars_ORBITAL_ELEM]
theorem kepler3_jupiter :
    |Spec.meanMotion Jupiter_ORBITAL_ELEM_J2000 ^ 2 * Spec.semiMajorAxis Jupiter_ORBITAL_ELEM ^ 3 - Spec.gaussK ^ 2|
      ≤ 0.001 * Spec.gaussK ^ 2 := by
  unfold Spec.meanMotion
  apply kepler3_of_bounds <;>
    norm_num [Spec.elemRate, Spec.semiMajorAxis, Spec.gaussK, Jupiter_ORBITAL_ELEM_J2000, Jupiter_ORBITAL_ELEM]
theorem kepler3_saturn :
    |Spec.meanMotion Saturn_ORBITAL_ELEM_J2000 ^ 2 * Spec.semiMajorAxis Saturn_ORBITAL_ELEM ^ 3 - Spec.gaussK ^ 2|
      ≤ 0.01 * Spec.gaussK ^ 2 := by
  unfold Spec.meanMotion
  apply kepler3_of_bounds <;>
    norm_num [Spec.elemRate, Spec.semiMajorAxis, Spec.gaussK, Saturn_ORBITAL_ELEM_J2000, Saturn_ORBITAL_ELEM]
theorem kepler3_uranus :
    |Spec.meanMotion Uranus_ORBITAL_ELEM_J2000 ^ 2 * Spec.semiMajorAxis Uranus_ORBITAL_ELEM ^ 3 - Spec.gaussK ^ 2|
      ≤ 0.01 * Spec.gaussK ^ 2 := by
  unfold Spec.meanMotion
  apply kepler3_of_bounds <;>
    norm_num [Spec.elemRate, Spec.semiMajorAxis, Spec.gaussK, Uranus_ORBITAL_ELEM_J2000, Uranus_ORBITAL_ELEM]
theorem kepler3_neptune :
    |Spec.meanMotion Neptune_ORBITAL_ELEM_J2000 ^ 2 * Spec.semiMajorAxis Neptune_ORBITAL_ELEM ^ 3 - Spec.gaussK ^ 2|
      ≤ 0.01 * Spec.gaussK ^ 2 := by
  unfold Spec.meanMotion
  apply kepler3_of_bounds <;>
    norm_num [Spec.elemRate, Spec.semiMajorAxis, Spec.gaussK, Neptune_ORBITAL_ELEM_J2000, Neptune_ORBITAL_ELEM]

/-! ### "the series' mean-longitude rate equals that of the orbital-element table to 1e-6": the secular term
of series L1 (1e-8 rad per millennium, converted to degrees per century) against `ORBITAL_ELEM[0][1]`.
The VSOP87 series of the planet modules are referred to the mean equinox OF DATE, so the table is
`ORBITAL_ELEM` (the J2000 table differs by the precession rate, 2e-5 … 6e-3 relative); the Earth's
`VSOP87_L_J2000` is compared with `ORBITAL_ELEM_J2000`. -/
theorem rate_matches_mercury :
    |Spec.leadRate Mercury_VSOP87_L - Spec.elemRate Mercury_ORBITAL_ELEM| ≤ 0.000001 * Spec.elemRate Mercury_ORBITAL_ELEM := by
  unfold Spec.leadRate Mercury_VSOP87_L
  rw [leadAmp_scaled _ _ _ _ Tables.Mercury.L_lead1]
  apply rate_of_bounds <;> norm_num [Spec.elemRate, Mercury_ORBITAL_ELEM, expA]
theorem rate_matches_venus :
    |Spec.leadRate Venus_VSOP87_L - Spec.elemRate Venus_ORBITAL_ELEM| ≤ 0.000001 * Spec.elemRate Venus_ORBITAL_ELEM := by
  unfold Spec.leadRate Venus_VSOP87_L
  rw [leadAmp_scaled _ _ _ _ Tables.Venus.L_lead1]
  apply rate_of_bounds <;> norm_num [Spec.elemRate, Venus_ORBITAL_ELEM, expA]
theorem rate_matches_earth :
    |Spec.leadRate Earth_VSOP87_L - Spec.elemRate Earth_ORBITAL_ELEM| ≤ 0.000001 * Spec.elemRate Earth_ORBITAL_ELEM := by
  unfold Spec.leadRate Earth_VSOP87_L
  rw [leadAmp_scaled _ _ _ _ Tables.Earth.L_lead1]
  apply rate_of_bounds <;> norm_num [Spec.elemRate, Earth_ORBITAL_ELEM, expA]
theorem rate_matches_mars :
    |Spec.leadRate Mars_VSOP87_L - Spec.elemRate Mars_ORBITAL_ELEM| ≤ 0.000001 * Spec.elemRate Mars_ORBITAL_ELEM := by
  unfold Spec.leadRate Mars_VSOP87_L
  rw [leadAmp_scaled _ _ _ _ Tables.Mars.L_lead1]
  apply rate_of_bounds <;> norm_num [Spec.elemRate, Mars_ORBITAL_ELEM, expA]
theorem rate_matches_jupiter :
    |Spec.leadRate Jupiter_VSOP87_L - Spec.elemRate Jupiter_ORBITAL_ELEM| ≤ 0.000001 * Spec.elemRate Jupiter_ORBITAL_ELEM := by
  unfold Spec.leadRate Jupiter_VSOP87_L
  rw [leadAmp_scaled _ _ _ _ Tables.Jupiter.L_lead1]
  apply rate_of_bounds <;> norm_num [Spec.elemRate, Jupiter_ORBITAL_ELEM, expA]
theorem rate_matches_saturn :
    |Spec.leadRate Saturn_VSOP87_L - Spec.elemRate Saturn_ORBITAL_ELEM| ≤ 0.000001 * Spec.elemRate Saturn_ORBITAL_ELEM := by
  unfold Spec.leadRate Saturn_VSOP87_L
  rw [leadAmp_scaled _ _ _ _ Tables.Saturn.L_lead1]
  apply rate_of_bounds <;> norm_num [Spec.elemRate, Saturn_ORBITAL_ELEM, expA]
theorem rate_matches_uranus :
    |Spec.leadRate Uranus_VSOP87_L - Spec.elemRate Uranus_ORBITAL_ELEM| ≤ 0.000001 * Spec.elemRate Uranus_ORBITAL_ELEM := by
  unfold Spec.leadRate Uranus_VSOP87_L
  rw [leadAmp_scaled _ _ _ _ Tables.Uranus.L_lead1]
  apply rate_of_bounds <;> norm_num [Spec.elemRate, Uranus_ORBITAL_ELEM, expA]
theorem rate_matches_neptune :
    |Spec.leadRate Neptune_VSOP87_L - Spec.elemRate Neptune_ORBITAL_ELEM| ≤ 0.000001 * Spec.elemRate Neptune_ORBITAL_ELEM := by
  unfold Spec.leadRate Neptune_VSOP87_L
  rw [leadAmp_scaled _ _ _ _ Tables.Neptune.L_lead1]
  apply rate_of_bounds <;> norm_num [Spec.elemRate, Neptune_ORBITAL_ELEM, expA]
theorem rate_matches_earth_j2000 :
    |Spec.leadRate Earth_VSOP87_L_J2000 - Spec.elemRate Earth_ORBITAL_ELEM_J2000|
      ≤ 0.000001 * Spec.elemRate Earth_ORBITAL_ELEM_J2000 := by
  unfold Spec.leadRate Earth_VSOP87_L_J2000
  rw [leadAmp_scaled _ _ _ _ Tables.Earth.LJ_lead1]
  apply rate_of_bounds <;> norm_num [Spec.elemRate, Earth_ORBITAL_ELEM_J2000, expA]

/-! ### "longitude only ever increases": the un-reduced longitude series `t ↦ Σ_i t^i Σ_j A cos(B + C t)`
(1e-8 rad; the model's longitude is this value in degrees modulo 360, `vsop_pos_value`) is strictly
increasing on t ∈ [−4, 2] Julian millennia from J2000.0 (years −2000 … 4000).  Proof: series 1 starts with
the secular term `(a, 0, 0)`; the derivative of everything else is bounded, for |t| ≤ 4, by
`Σ_i (i·4^(i−1)·Σ|A| + 4^i·Σ|A·C|) < a`, the sums being those computed by the translator and re-checked by
the kernel against the generated tables (`Tables.<Planet>.L_sumAbsA`, `L_sumAbsAC`, `L_lead1`).  The bound
closes for all eight planets (Mercury: 0.64 a). -/
theorem lon_increasing_mercury : StrictMonoOn (Spec.directSum Mercury_VSOP87_L) (Set.Icc (-4) 2) := by
  have h := strictMonoOn_of_sums Tables.Mercury.L _ _ _ 4 Tables.Mercury.L_lead1 Tables.Mercury.L_sumAbsA
    Tables.Mercury.L_sumAbsAC (by norm_num [bSums, subAt1, expA, expC])
  exact h.mono (Set.Icc_subset_Icc (le_refl _) (by norm_num))
theorem lon_increasing_venus : StrictMonoOn (Spec.directSum Venus_VSOP87_L) (Set.Icc (-4) 2) := by
  have h := strictMonoOn_of_sums Tables.Venus.L _ _ _ 4 Tables.Venus.L_lead1 Tables.Venus.L_sumAbsA
    Tables.Venus.L_sumAbsAC (by norm_num [bSums, subAt1, expA, expC])
  exact h.mono (Set.Icc_subset_Icc (le_refl _) (by norm_num))
theorem lon_increasing_earth : StrictMonoOn (Spec.directSum Earth_VSOP87_L) (Set.Icc (-4) 2) := by
  have h := strictMonoOn_of_sums Tables.Earth.L _ _ _ 4 Tables.Earth.L_lead1 Tables.Earth.L_sumAbsA
    Tables.Earth.L_sumAbsAC (by norm_num [bSums, subAt1, expA, expC])
  exact h.mono (Set.Icc_subset_Icc (le_refl _) (by norm_num))
theorem lon_increasing_mars : StrictMonoOn (Spec.directSum Mars_VSOP87_L) (Set.Icc (-4) 2) := by
  have h := strictMonoOn_of_sums Tables.Mars.L _ _ _ 4 Tables.Mars.L_lead1 Tables.Mars.L_sumAbsA
    Tables.Mars.L_sumAbsAC (by norm_num [bSums, subAt1, expA, expC])
  exact h.mono (Set.Icc_subset_Icc (le_refl _) (by norm_num))
theorem lon_increasing_jupiter : StrictMonoOn (Spec.directSum Jupiter_VSOP87_L) (Set.Icc (-4) 2) := by
  have h := strictMonoOn_of_sums Tables.Jupiter.L _ _ _ 4 Tables.Jupiter.L_lead1 Tables.Jupiter.L_sumAbsA
    Tables.Jupiter.L_sumAbsAC (by norm_num [bSums, subAt1, expA, expC])
  exact h.mono (Set.Icc_subset_Icc (le_refl _) (by norm_num))
theorem lon_increasing_saturn : StrictMonoOn (Spec.directSum Saturn_VSOP87_L) (Set.Icc (-4) 2) := by
  have h := strictMonoOn_of_sums Tables.Saturn.L _ _ _ 4 Tables.Saturn.L_lead1 Tables.Saturn.L_sumAbsA
    Tables.Saturn.L_sumAbsAC (by norm_num [bSums, subAt1, expA, expC])
  exact h.mono (Set.Icc_subset_Icc (le_refl _) (by norm_num))
theorem lon_increasing_uranus : StrictMonoOn (Spec.directSum Uranus_VSOP87_L) (Set.Icc (-4) 2) := by
  have h := strictMonoOn_of_sums Tables.Uranus.L _ _ _ 4 Tables.Uranus.L_lead1 Tables.Uranus.L_sumAbsA
    Tables.Uranus.L_sumAbsAC (by norm_num [bSums, subAt1, expA, expC])
  exact h.mono (Set.Icc_subset_Icc (le_refl _) (by norm_num))
theorem lon_increasing_neptune : StrictMonoOn (Spec.directSum Neptune_VSOP87_L) (Set.Icc (-4) 2) := by
  have h := strictMonoOn_of_sums Tables.Neptune.L _ _ _ 4 Tables.Neptune.L_lead1 Tables.Neptune.L_sumAbsA
    Tables.Neptune.L_sumAbsAC (by norm_num [bSums, subAt1, expA, expC])
  exact h.mono (Set.Icc_subset_Icc (le_refl _) (by norm_num))

/-! ### Rate of the longitude (partial form of "at a daily rate within 3 % of the Keplerian extremes").
FULL CLAUSE (not proved; covered by the predicates of harness/c07.py only): the daily motion stays within 3 % of
the Keplerian extremes `n√(1−e²)/(1±e)²` of the mean orbit.  PROVED here, for every t ∈ [−4, 4] millennia: the
un-reduced longitude series is differentiable and its derivative differs from the secular rate `a` (the mean
motion, series L1) by at most the fraction ρ of `a` given by the triangle inequality over all the other terms
(sums of |A| and |A·C| of the regenerated tables): Venus 2.2 %, Neptune 2.6 %, Earth 4.6 %, Uranus 12 %,
Jupiter 15 %, Saturn 24 %, Mars 31 %, Mercury 64 %.  MISSING: the bound is not tight (it ignores the phases), so
it brackets the equation-of-centre variation (2e ≈ 1.4 % … 41 %) only coarsely. -/
theorem lon_rate_partial_mercury (t : ℝ) (ht : |t| ≤ 4) :
    ∃ d, HasDerivAt (Spec.directSum Mercury_VSOP87_L) d t ∧
      |d - Spec.leadAmp Mercury_VSOP87_L| ≤ 0.64 * Spec.leadAmp Mercury_VSOP87_L := by
  unfold Mercury_VSOP87_L
  rw [leadAmp_scaled _ _ _ _ Tables.Mercury.L_lead1]
  exact deriv_bounds_of_sums Tables.Mercury.L _ _ _ 4 _ Tables.Mercury.L_lead1 Tables.Mercury.L_sumAbsA
    Tables.Mercury.L_sumAbsAC (by norm_num [bSums, subAt1, expA, expC]) t ht
theorem lon_rate_partial_venus (t : ℝ) (ht : |t| ≤ 4) :
    ∃ d, HasDerivAt (Spec.directSum Venus_VSOP87_L) d t ∧
      |d - Spec.leadAmp Venus_VSOP87_L| ≤ 0.022 * Spec.leadAmp Venus_VSOP87_L := by
  unfold Venus_VSOP87_L
  rw [leadAmp_scaled _ _ _ _ Tables.Venus.L_lead1]
  exact deriv_bounds_of_sums Tables.Venus.L _ _ _ 4 _ Tables.Venus.L_lead1 Tables.Venus.L_sumAbsA
    Tables.Venus.L_sumAbsAC (by norm_num [bSums, subAt1, expA, expC]) t ht
theorem lon_rate_partial_earth (t : ℝ) (ht : |t| ≤ 4) :
    ∃ d, HasDerivAt (Spec.directSum Earth_VSOP87_L) d t ∧
      |d - Spec.leadAmp Earth_VSOP87_L| ≤ 0.046 * Spec.leadAmp Earth_VSOP87_L := by
  unfold Earth_VSOP87_L
  rw [leadAmp_scaled _ _ _ _ Tables.Earth.L_lead1]
  exact deriv_bounds_of_sums Tables.Earth.L _ _ _ 4 _ Tables.Earth.L_lead1 Tables.Earth.L_sumAbsA
    Tables.Earth.L_sumAbsAC (by norm_num [bSums, subAt1, expA, expC]) t ht
theorem lon_rate_partial_mars (t : ℝ) (ht : |t| ≤ 4) :
    ∃ d, HasDerivAt (Spec.directSum Mars_VSOP87_L) d t ∧
      |d - Spec.leadAmp Mars_VSOP87_L| ≤ 0.31 * Spec.leadAmp Mars_VSOP87_L := by
  unfold Mars_VSOP87_L
  rw [leadAmp_scaled _ _ _ _ Tables.Mars.L_lead1]
  exact deriv_bounds_of_sums Tables.Mars.L _ _ _ 4 _ Tables.Mars.L_lead1 Tables.Mars.L_sumAbsA
    Tables.Mars.L_sumAbsAC (by norm_num [bSums, subAt1, expA, expC]) t ht
theorem lon_rate_partial_jupiter (t : ℝ) (ht : |t| ≤ 4) :
    ∃ d, HasDerivAt (Spec.directSum Jupiter_VSOP87_L) d t ∧
      |d - Spec.leadAmp Jupiter_VSOP87_L| ≤ 0.15 * Spec.leadAmp Jupiter_VSOP87_L := by
  unfold Jupiter_VSOP87_L
  rw [leadAmp_scaled _ _ _ _ Tables.Jupiter.L_lead1]
  exact deriv_bounds_of_sums Tables.Jupiter.L _ _ _ 4 _ Tables.Jupiter.L_lead1 Tables.Jupiter.L_sumAbsA
    Tables.Jupiter.L_sumAbsAC (by norm_num [bSums, subAt1, expA, expC]) t ht
theorem lon_rate_partial_saturn (t : ℝ) (ht : |t| ≤ 4) :
    ∃ d, HasDerivAt (Spec.directSum Saturn_VSOP87_L) d t ∧
      |d - Spec.leadAmp Saturn_VSOP87_L| ≤ 0.24 * Spec.leadAmp Saturn_VSOP87_L := by
  unfold Saturn_VSOP87_L
  rw [leadAmp_scaled _ _ _ _ Tables.Saturn.L_lead1]
  exact deriv_bounds_of_sums Tables.Saturn.L _ _ _ 4 _ Tables.Saturn.L_lead1 Tables.Saturn.L_sumAbsA
    Tables.Saturn.L_sumAbsAC (by norm_num [bSums, subAt1, expA, expC]) t ht
theorem lon_rate_partial_uranus (t : ℝ) (ht : |t| ≤ 4) :
    ∃ d, HasDerivAt (Spec.directSum Uranus_VSOP87_L) d t ∧
      |d - Spec.leadAmp Uranus_VSOP87_L| ≤ 0.12 * Spec.leadAmp Uranus_VSOP87_L := by
  unfold Uranus_VSOP87_L
  rw [leadAmp_scaled _ _ _ _ Tables.Uranus.L_lead1]
  exact deriv_bounds_of_sums Tables.Uranus.L _ _ _ 4 _ Tables.Uranus.L_lead1 Tables.Uranus.L_sumAbsA
    Tables.Uranus.L_sumAbsAC (by norm_num [bSums, subAt1, expA, expC]) t ht
theorem lon_rate_partial_neptune (t : ℝ) (ht : |t| ≤ 4) :
    ∃ d, HasDerivAt (Spec.directSum Neptune_VSOP87_L) d t ∧
      |d - Spec.leadAmp Neptune_VSOP87_L| ≤ 0.026 * Spec.leadAmp Neptune_VSOP87_L := by
  unfold Neptune_VSOP87_L
  rw [leadAmp_scaled _ _ _ _ Tables.Neptune.L_lead1]
  exact deriv_bounds_of_sums Tables.Neptune.L _ _ _ 4 _ Tables.Neptune.L_lead1 Tables.Neptune.L_sumAbsA
    Tables.Neptune.L_sumAbsAC (by norm_num [bSums, subAt1, expA, expC]) t ht

/-! ### The secular acceleration: series L2 against the `T²` coefficient of the mean longitude.
For the planets whose series L2 starts with the secular term `(A, 0, 0)` (Mercury, Venus, Earth, Uranus,
Neptune; for Mars, Jupiter and Saturn the source lists a periodic term first), `A·t²` in 1e-8 rad per
millennium², converted to degrees per century², equals `ORBITAL_ELEM[0][2]` to 5e-7°/century² (the values are
≈ 3.0e-4): a dropped or shifted digit in the `t²` constant of a longitude series breaks this. -/
theorem accel_matches_mercury :
    (∃ a : Int, (Tables.Mercury.L.getD 2 []).head? = some (a, 0, 0)) ∧
    |Spec.leadAccel Mercury_VSOP87_L - Spec.elemAccel Mercury_ORBITAL_ELEM| ≤ 0.0000005 := by
  refine ⟨⟨_, Tables.Mercury.L_lead2⟩, ?_⟩
  unfold Spec.leadAccel Mercury_VSOP87_L
  rw [lead2_scaled _ _ _ _ Tables.Mercury.L_lead2]
  apply accel_of_bounds <;> norm_num [Spec.elemAccel, Mercury_ORBITAL_ELEM, expA]
theorem accel_matches_venus :
    (∃ a : Int, (Tables.Venus.L.getD 2 []).head? = some (a, 0, 0)) ∧
    |Spec.leadAccel Venus_VSOP87_L - Spec.elemAccel Venus_ORBITAL_ELEM| ≤ 0.0000005 := by
  refine ⟨⟨_, Tables.Venus.L_lead2⟩, ?_⟩
  unfold Spec.leadAccel Venus_VSOP87_L
  rw [lead2_scaled _ _ _ _ Tables.Venus.L_lead2]
  apply accel_of_bounds <;> norm_num [Spec.elemAccel, Venus_ORBITAL_ELEM, expA]
theorem accel_matches_earth :
    (∃ a : Int, (Tables.Earth.L.getD 2 []).head? = some (a, 0, 0)) ∧
    |Spec.leadAccel Earth_VSOP87_L - Spec.elemAccel Earth_ORBITAL_ELEM| ≤ 0.0000005 := by
  refine ⟨⟨_, Tables.Earth.L_lead2⟩, ?_⟩
  unfold Spec.leadAccel Earth_VSOP87_L
  rw [lead2_scaled _ _ _ _ Tables.Earth.L_lead2]
  apply accel_of_bounds <;> norm_num [Spec.elemAccel, Earth_ORBITAL_ELEM, expA]
theorem accel_matches_uranus :
    (∃ a : Int, (Tables.Uranus.L.getD 2 []).head? = some (a, 0, 0)) ∧
    |Spec.leadAccel Uranus_VSOP87_L - Spec.elemAccel Uranus_ORBITAL_ELEM| ≤ 0.0000005 := by
  refine ⟨⟨_, Tables.Uranus.L_lead2⟩, ?_⟩
  unfold Spec.leadAccel Uranus_VSOP87_L
  rw [lead2_scaled _ _ _ _ Tables.Uranus.L_lead2]
  apply accel_of_bounds <;> norm_num [Spec.elemAccel, Uranus_ORBITAL_ELEM, expA]
theorem accel_matches_neptune :
    (∃ a : Int, (Tables.Neptune.L.getD 2 []).head? = some (a, 0, 0)) ∧
    |Spec.leadAccel Neptune_VSOP87_L - Spec.elemAccel Neptune_ORBITAL_ELEM| ≤ 0.0000005 := by
  refine ⟨⟨_, Tables.Neptune.L_lead2⟩, ?_⟩
  unfold Spec.leadAccel Neptune_VSOP87_L
  rw [lead2_scaled _ _ _ _ Tables.Neptune.L_lead2]
  apply accel_of_bounds <;> norm_num [Spec.elemAccel, Neptune_ORBITAL_ELEM, expA]

/-! ### The mean distance (partial form of "the radius vector lies between the perihelion and aphelion distance of
the mean orbit").  FULL CLAUSE (measured only): a(1−e)·0.99 ≤ r(t) ≤ a(1+e)·1.01 for every epoch.  PROVED: the
constant term of series R0 — the time average of the radius vector over the periodic terms — is the Keplerian
average `a (1 + e²/2)` of the library's own mean elements, to 1e-5 a (Mercury … Mars), 1e-4 a (Jupiter), 2e-3 a
(Saturn … Neptune, whose tabulated `a` are mean values over long-period terms).  A digit lost in the R0 constant,
in `a` or in `e` breaks this.  MISSING: the amplitude of the periodic part (triangle inequality too loose). -/
theorem mean_radius_mercury :
    (∃ a : Int, (Tables.Mercury.R.getD 0 []).head? = some (a, 0, 0)) ∧
    |Spec.meanRadius Mercury_VSOP87_R
        - Spec.semiMajorAxis Mercury_ORBITAL_ELEM * (1 + Spec.elemEcc Mercury_ORBITAL_ELEM ^ 2 / 2)|
      ≤ 0.00001 * Spec.semiMajorAxis Mercury_ORBITAL_ELEM := by
  refine ⟨⟨_, Tables.Mercury.R_lead0⟩, ?_⟩
  unfold Spec.meanRadius Mercury_VSOP87_R
  rw [lead0_scaled _ _ _ _ Tables.Mercury.R_lead0]
  norm_num [Spec.semiMajorAxis, Spec.elemEcc, Mercury_ORBITAL_ELEM, expA, abs_le]
theorem mean_radius_venus :
    (∃ a : Int, (Tables.Venus.R.getD 0 []).head? = some (a, 0, 0)) ∧
    |Spec.meanRadius Venus_VSOP87_R
        - Spec.semiMajorAxis Venus_ORBITAL_ELEM * (1 + Spec.elemEcc Venus_ORBITAL_ELEM ^ 2 / 2)|
      ≤ 0.00001 * Spec.semiMajorAxis Venus_ORBITAL_ELEM := by
  refine ⟨⟨_, Tables.Venus.R_lead0⟩, ?_⟩
  unfold Spec.meanRadius Venus_VSOP87_R
  rw [lead0_scaled _ _ _ _ Tables.Venus.R_lead0]
  norm_num [Spec.semiMajorAxis, Spec.elemEcc, Venus_ORBITAL_ELEM, expA, abs_le]
theorem mean_radius_earth :
    (∃ a : Int, (Tables.Earth.R.getD 0 []).head? = some (a, 0, 0)) ∧
    |Spec.meanRadius Earth_VSOP87_R
        - Spec.semiMajorAxis Earth_ORBITAL_ELEM * (1 + Spec.elemEcc Earth_ORBITAL_ELEM ^ 2 / 2)|
      ≤ 0.00001 * Spec.semiMajorAxis Earth_ORBITAL_ELEM := by
  refine ⟨⟨_, Tables.Earth.R_lead0⟩, ?_⟩
  unfold Spec.meanRadius Earth_VSOP87_R
  rw [lead0_scaled _ _ _ _ Tables.Earth.R_lead0]
  norm_num [Spec.semiMajorAxis, Spec.elemEcc, Earth_ORBITAL_ELEM, expA, abs_le]
theorem mean_radius_mars :
    (∃ a : Int, (Tables.Mars.R.getD 0 []).head? = some (a, 0, 0)) ∧
    |Spec.meanRadius Mars_VSOP87_R
        - Spec.semiMajorAxis Mars_ORBITAL_ELEM * (1 + Spec.elemEcc Mars_ORBITAL_ELEM ^ 2 / 2)|
      ≤ 0.00001 * Spec.semiMajorAxis Mars_ORBITAL_ELEM := by
  refine ⟨⟨_, Tables.Mars.R_lead0⟩, ?_⟩
  unfold Spec.meanRadius Mars_VSOP87_R
  rw [lead0_scaled _ _ _ _ Tables.Mars.R_lead0]
  norm_num [Spec.semiMajorAxis, Spec.elemEcc, Mars_ORBITAL_ELEM, expA, abs_le]
theorem mean_radius_jupiter :
    (∃ a : Int, (Tables.Jupiter.R.getD 0 []).head? = some (a, 0, 0)) ∧
    |Spec.meanRadius Jupiter_VSOP87_R
        - Spec.semiMajorAxis Jupiter_ORBITAL_ELEM * (1 + Spec.elemEcc Jupiter_ORBITAL_ELEM ^ 2 / 2)|
      ≤ 0.0001 * Spec.semiMajorAxis Jupiter_ORBITAL_ELEM := by
  refine ⟨⟨_, Tables.Jupiter.R_lead0⟩, ?_⟩
  unfold Spec.meanRadius Jupiter_VSOP87_R
  rw [lead0_scaled _ _ _ _ Tables.Jupiter.R_lead0]
  norm_num [Spec.semiMajorAxis, Spec.elemEcc, Jupiter_ORBITAL_ELEM, expA, abs_le]
theorem mean_radius_saturn :
    (∃ a : Int, (Tables.Saturn.R.getD 0 []).head? = some (a, 0, 0)) ∧
    |Spec.meanRadius Saturn_VSOP87_R
        - Spec.semiMajorAxis Saturn_ORBITAL_ELEM * (1 + Spec.elemEcc Saturn_ORBITAL_ELEM ^ 2 / 2)|
      ≤ 0.002 * Spec.semiMajorAxis Saturn_ORBITAL_ELEM := by
  refine ⟨⟨_, Tables.Saturn.R_lead0⟩, ?_⟩
  unfold Spec.meanRadius Saturn_VSOP87_R
  rw [lead0_scaled _ _ _ _ Tables.Saturn.R_lead0]
  norm_num [Spec.semiMajorAxis, Spec.elemEcc, Saturn_ORBITAL_ELEM, expA, abs_le]
theorem mean_radius_uranus :
    (∃ a : Int, (Tables.Uranus.R.getD 0 []).head? = some (a, 0, 0)) ∧
    |Spec.meanRadius Uranus_VSOP87_R
        - Spec.semiMajorAxis Uranus_ORBITAL_ELEM * (1 + Spec.elemEcc Uranus_ORBITAL_ELEM ^ 2 / 2)|
      ≤ 0.002 * Spec.semiMajorAxis Uranus_ORBITAL_ELEM := by
  refine ⟨⟨_, Tables.Uranus.R_lead0⟩, ?_⟩
  unfold Spec.meanRadius Uranus_VSOP87_R
  rw [lead0_scaled _ _ _ _ Tables.Uranus.R_lead0]
  norm_num [Spec.semiMajorAxis, Spec.elemEcc, Uranus_ORBITAL_ELEM, expA, abs_le]
theorem mean_radius_neptune :
    (∃ a : Int, (Tables.Neptune.R.getD 0 []).head? = some (a, 0, 0)) ∧
    |Spec.meanRadius Neptune_VSOP87_R
        - Spec.semiMajorAxis Neptune_ORBITAL_ELEM * (1 + Spec.elemEcc Neptune_ORBITAL_ELEM ^ 2 / 2)|
      ≤ 0.002 * Spec.semiMajorAxis Neptune_ORBITAL_ELEM := by
  refine ⟨⟨_, Tables.Neptune.R_lead0⟩, ?_⟩
  unfold Spec.meanRadius Neptune_VSOP87_R
  rw [lead0_scaled _ _ _ _ Tables.Neptune.R_lead0]
  norm_num [Spec.semiMajorAxis, Spec.elemEcc, Neptune_ORBITAL_ELEM, expA, abs_le]

/-! ### `orbital_elements`: which rows of which table -/

/-- `orbital_elements(epoch, ORBITAL_ELEM, ORBITAL_ELEM_J2000)` (the `len(parameters2) == 4` branch): L, i, Ω, ϖ are
    the cubics of rows 0, 1, 2, 3 of the J2000 table, `a` and `e` those of rows 1 and 2 of the mean-equinox
    table, T in Julian centuries from J2000.0; the angles are returned as `Angle`s and the last one is the
    argument of perihelion ϖ − Ω.  For all coefficients and all epochs. -/
theorem orbital_elements_rows_j2000 (jde : ℝ) (r0 r3 r4 r5 : List ℝ)
    (a0 a1 a2 a3 e0 e1 e2 e3 l0 l1 l2 l3 i0 i1 i2 i3 o0 o1 o2 o3 p0 p1 p2 p3 : ℝ) :
    orbital_elements jde [r0, [a0, a1, a2, a3], [e0, e1, e2, e3], r3, r4, r5]
        [[l0, l1, l2, l3], [i0, i1, i2, i3], [o0, o1, o2, o3], [p0, p1, p2, p3]] =
      (let t := (jde - 2451545.0) / 36525.0
       .ok (angOfDeg (Spec.cubic t l0 l1 l2 l3), Spec.cubic t a0 a1 a2 a3, Spec.cubic t e0 e1 e2 e3,
         angOfDeg (Spec.cubic t i0 i1 i2 i3), angOfDeg (Spec.cubic t o0 o1 o2 o3),
         angOfDeg (Spec.cubic t p0 p1 p2 p3 - Spec.cubic t o0 o1 o2 o3))) := by
  simp [orbital_elements, element_at, compute_element, Spec.cubic]

/-- `orbital_elements(epoch, ORBITAL_ELEM, ORBITAL_ELEM)` (six-row second table): L, a, e, i, Ω, ϖ are the cubics of
    rows 0 … 5. -/
theorem orbital_elements_rows_of_date (jde : ℝ)
    (a0 a1 a2 a3 e0 e1 e2 e3 l0 l1 l2 l3 i0 i1 i2 i3 o0 o1 o2 o3 p0 p1 p2 p3 : ℝ) :
    orbital_elements jde [[l0, l1, l2, l3], [a0, a1, a2, a3], [e0, e1, e2, e3], [i0, i1, i2, i3], [o0, o1, o2, o3], [p0, p1, p2, p3]]
        [[l0, l1, l2, l3], [a0, a1, a2, a3], [e0, e1, e2, e3], [i0, i1, i2, i3], [o0, o1, o2, o3], [p0, p1, p2, p3]] =
      (let t := (jde - 2451545.0) / 36525.0
       .ok (angOfDeg (Spec.cubic t l0 l1 l2 l3), Spec.cubic t a0 a1 a2 a3, Spec.cubic t e0 e1 e2 e3,
         angOfDeg (Spec.cubic t i0 i1 i2 i3), angOfDeg (Spec.cubic t o0 o1 o2 o3),
         angOfDeg (Spec.cubic t p0 p1 p2 p3 - Spec.cubic t o0 o1 o2 o3))) := by
  simp [orbital_elements, element_at, compute_element, Spec.cubic]

/-- A missing row raises (IndexError) instead of being read as zero. -/
theorem orbital_elements_missing_row (jde : ℝ) (p1 : List (List ℝ)) :
    orbital_elements jde p1 [] = .error .other := by
  simp [orbital_elements, element_at]


/-! ### The wrappers -/

/-- The per-planet methods (generated from the source) are the evaluators applied to the planet's own
    tables, which are not empty: a position is returned for every epoch. -/
theorem planets_defined (jde : ℝ) (f : Bool) :
    ∀ p ∈ ["Mercury", "Venus", "Earth", "Mars", "Jupiter", "Saturn", "Uranus", "Neptune"],
      ∃ lon lat r, planet_geometric_heliocentric_position p jde f = .ok (lon, lat, r) ∧
        0 ≤ lon ∧ lon < 360 ∧ -360 < lat ∧ lat < 360 := by
  have key : ∀ (L B R : VsopTable), L ≠ [] → B ≠ [] → R ≠ [] →
      ∃ lon lat r, geometric_vsop_pos jde L B R f = .ok (lon, lat, r) ∧ 0 ≤ lon ∧ lon < 360 ∧ -360 < lat ∧ lat < 360 := by
    intro L B R hL hB hR
    cases hg : geometric_vsop_pos jde L B R f with
    | ok q => exact ⟨q.1, q.2.1, q.2.2, rfl, corrected_lon_range jde L B R f q.1 q.2.1 q.2.2 (Or.inl hg)⟩
    | error e =>
      exfalso
      have hv : ∃ e, vsop_pos jde L B R = .error e := by
        unfold geometric_vsop_pos at hg
        cases hv : vsop_pos jde L B R with
        | error e => exact ⟨e, rfl⟩
        | ok q => obtain ⟨a, b, c⟩ := q; simp only [hv] at hg; split_ifs at hg
      rcases (vsop_pos_error_iff jde L B R).mp hv with h | h | h <;> contradiction
  have ne : ∀ (t : List (List Term3)), t ≠ [] → vsopOfScaled t ≠ [] := by
    intro t ht; cases t with
    | nil => contradiction
    | cons a b => simp [vsopOfScaled]
  intro p hp
  simp only [List.mem_cons, List.mem_nil_iff, or_false] at hp
  rcases hp with rfl | rfl | rfl | rfl | rfl | rfl | rfl | rfl
  · simp only [planet_geometric_heliocentric_position, Mercury_geometric_heliocentric_position]
    exact key Mercury_VSOP87_L Mercury_VSOP87_B Mercury_VSOP87_R (ne Tables.Mercury.L (by simp [Tables.Mercury.L]))
      (ne Tables.Mercury.B (by simp [Tables.Mercury.B])) (ne Tables.Mercury.R (by simp [Tables.Mercury.R]))
  · simp only [planet_geometric_heliocentric_position, Venus_geometric_heliocentric_position]
    exact key Venus_VSOP87_L Venus_VSOP87_B Venus_VSOP87_R (ne Tables.Venus.L (by simp [Tables.Venus.L]))
      (ne Tables.Venus.B (by simp [Tables.Venus.B])) (ne Tables.Venus.R (by simp [Tables.Venus.R]))
  · simp only [planet_geometric_heliocentric_position, Earth_geometric_heliocentric_position]
    exact key Earth_VSOP87_L Earth_VSOP87_B Earth_VSOP87_R (ne Tables.Earth.L (by simp [Tables.Earth.L]))
      (ne Tables.Earth.B (by simp [Tables.Earth.B])) (ne Tables.Earth.R (by simp [Tables.Earth.R]))
  · simp only [planet_geometric_heliocentric_position, Mars_geometric_heliocentric_position]
    exact key Mars_VSOP87_L Mars_VSOP87_B Mars_VSOP87_R (ne Tables.Mars.L (by simp [Tables.Mars.L]))
      (ne Tables.Mars.B (by simp [Tables.Mars.B])) (ne Tables.Mars.R (by simp [Tables.Mars.R]))
  · simp only [planet_geometric_heliocentric_position, Jupiter_geometric_heliocentric_position]
    exact key Jupiter_VSOP87_L Jupiter_VSOP87_B Jupiter_VSOP87_R (ne Tables.Jupiter.L (by simp [Tables.Jupiter.L]))
      (ne Tables.Jupiter.B (by simp [Tables.Jupiter.B])) (ne Tables.Jupiter.R (by simp [Tables.Jupiter.R]))
  · simp only [planet_geometric_heliocentric_position, Saturn_geometric_heliocentric_position]
    exact key Saturn_VSOP87_L Saturn_VSOP87_B Saturn_VSOP87_R (ne Tables.Saturn.L (by simp [Tables.Saturn.L]))
      (ne Tables.Saturn.B (by simp [Tables.Saturn.B])) (ne Tables.Saturn.R (by simp [Tables.Saturn.R]))
  · simp only [planet_geometric_heliocentric_position, Uranus_geometric_heliocentric_position]
    exact key Uranus_VSOP87_L Uranus_VSOP87_B Uranus_VSOP87_R (ne Tables.Uranus.L (by simp [Tables.Uranus.L]))
      (ne Tables.Uranus.B (by simp [Tables.Uranus.B])) (ne Tables.Uranus.R (by simp [Tables.Uranus.R]))
  · simp only [planet_geometric_heliocentric_position, Neptune_geometric_heliocentric_position]
    exact key Neptune_VSOP87_L Neptune_VSOP87_B Neptune_VSOP87_R (ne Tables.Neptune.L (by simp [Tables.Neptune.L]))
      (ne Tables.Neptune.B (by simp [Tables.Neptune.B])) (ne Tables.Neptune.R (by simp [Tables.Neptune.R]))

/-! ### non-vacuity: the objects the theorems speak about are the non-trivial ones -/

example : Venus_ORBITAL_ELEM.map List.length = [4, 4, 4, 4, 4, 4] ∧ Venus_ORBITAL_ELEM_J2000.map List.length = [4, 4, 4, 4] :=
  ⟨rfl, rfl⟩
example : Spec.elemAccel Venus_ORBITAL_ELEM = 0.00031014 := by norm_num [Spec.elemAccel, Venus_ORBITAL_ELEM]
example : Spec.elemRate Venus_ORBITAL_ELEM = 58519.2130302 := by norm_num [Spec.elemRate, Venus_ORBITAL_ELEM]
example : Spec.semiMajorAxis Neptune_ORBITAL_ELEM = 30.110386869 := by norm_num [Spec.semiMajorAxis, Neptune_ORBITAL_ELEM]
example : Spec.leadAmp Mercury_VSOP87_L = 2608814706222.746 := by
  unfold Mercury_VSOP87_L; rw [leadAmp_scaled _ _ _ _ Tables.Mercury.L_lead1]; norm_num [expA]
example : (Tables.Mercury.L.map List.length) = [1380, 839, 395, 153, 28, 13] := Tables.Mercury.L_lengths
example : ((-4 : ℝ)) ∈ Set.Icc (-4 : ℝ) 2 ∧ (2 : ℝ) ∈ Set.Icc (-4 : ℝ) 2 := by constructor <;> constructor <;> norm_num
example : vsop_pos 2451545 zeroTable zeroTable zeroTable ≠ .error .other := by simp [vsop_pos, zeroTable]

end Pymeeus.C07
