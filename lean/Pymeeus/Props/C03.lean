import Pymeeus.Refine.Angle
import Pymeeus.Refine.AngleR
/-
C03 — Angle: canonical range, congruence mod 360 and closed arithmetic.

Property theorems only (helper lemmas live in Refine/Angle.lean).  They are statements about
`Pymeeus.GenQ`, the exact-arithmetic instantiation of the model in templates/Angle.lean: Python
`float` is read as `ℚ`, so every theorem quantifies over ALL rationals (no magnitude bound; the
property asks for |x| ≤ 1e15).  "Congruent modulo 360" is written `∃ k : ℤ, v = r + 360 * k`.
The theorems about pi (radians input, `rad()`) are at the end of this file, over `ℝ`
(`Pymeeus.GenR`, the real-number instantiation of templates/Angle.lean + AngleR.lean).
-/
namespace Pymeeus.C03
open Pymeeus Pymeeus.PQ Pymeeus.GenQ Pymeeus.Refine

/-! ### Canonical range and congruence of the reduction -/

/-- "An Angle built from any finite number [decimal degrees] holds a value strictly inside (-360, 360)
    that has the sign of the input and is congruent to the exact input modulo 360 degrees";
    inside (-360, 360) the value is the input itself. -/
theorem reduce (x : ℚ) :
    |reduce_deg x| < 360 ∧ (∃ k : ℤ, x = reduce_deg x + 360 * k) ∧
    (0 ≤ x → 0 ≤ reduce_deg x) ∧ (x ≤ 0 → reduce_deg x ≤ 0) ∧ (|x| < 360 → reduce_deg x = x) :=
  reduce_deg_spec x

example : reduce_deg 725.5 = 5.5 ∧ reduce_deg (-725.5) = -5.5 ∧ reduce_deg 360 = 0 := by decide +kernel

/-- "degree/minute/second pieces ... with the sign carried by any piece": for ANY three rationals
    (negative, fractional, overflowing minutes / seconds) `dms2deg` is strictly inside (-360, 360) and
    congruent modulo 360 to `σ (|d| + |m|/60 + |s|/3600)` with `σ = -1` iff some piece is negative. -/
theorem dms (d m s : ℚ) :
    |dms2deg d m s| < 360 ∧
    ∃ k : ℤ, (if d < 0 ∨ m < 0 ∨ s < 0 then (-1 : ℚ) else 1) * (|d| + |m| / 60 + |s| / 3600)
      = dms2deg d m s + 360 * k :=
  dms2deg_spec d m s

example : dms2deg 0 (-5) 30 = -(5 / 60 + 30 / 3600) ∧ dms2deg 10 120 7200 = 14 ∧ dms2deg 359 59 60 = 0 := by
  decide +kernel

/-! ### Every constructor shape reduces to `reduce_deg` / `dms2deg` of the intended value -/

/-- `Angle()` is zero. -/
theorem ctor_none : angle_new .none = .ok ⟨0, TOL⟩ := by
  unfold angle_new angle_set; norm_num

/-- `Angle(x)` (decimal degrees, int or float) is `reduce_deg x` with the default tolerance. -/
theorem ctor_number (x : ℚ) : angle_new (.num x) = .ok ⟨reduce_deg x, TOL⟩ := rfl

/-- `Angle((x,))` / `Angle([x])` is `Angle(x)`. -/
theorem ctor_single_in_sequence (x : ℚ) : angle_new (.seq [x]) = angle_new (.num x) := rfl

/-- `Angle(())` / `Angle([])` raises TypeError. -/
theorem ctor_empty_sequence : ∀ self : Angle, ∃ e, angle_set self (.seq []) = .error e ∧ e = .typeError :=
  fun _ => ⟨_, rfl, rfl⟩

/-- "pieces passed separately or in a tuple/list": degrees, minutes -> `dms2deg d m 0`;
    degrees, minutes, seconds -> `dms2deg d m s`; and the tuple/list form equals the separate form. -/
theorem ctor_pieces (d m s : ℚ) :
    angle_new (.args [d, m]) = .ok ⟨dms2deg d m 0, TOL⟩ ∧
    angle_new (.args [d, m, s]) = .ok ⟨dms2deg d m s, TOL⟩ ∧
    angle_new (.seq [d, m]) = angle_new (.args [d, m]) ∧
    angle_new (.seq [d, m, s]) = angle_new (.args [d, m, s]) := by
  refine ⟨?_, rfl, rfl, rfl⟩
  unfold angle_new angle_set set_pieces; norm_num

/-- Tuple / list and separate arguments agree for every length ≥ 2 (and the fifth and later pieces
    are ignored). -/
theorem ctor_sequence_eq_separate (d m : ℚ) (rest : List ℚ) :
    angle_new (.seq (d :: m :: rest)) = angle_new (.args (d :: m :: rest)) := rfl

/-- Four or more pieces: "the sign carried by any piece", here by any of the first four.  The value is
    in range and congruent to `σ (|d| + |m|/60 + |s|/3600)`, `σ = -1` iff one of the four is negative. -/
theorem ctor_four_pieces (d m s x : ℚ) (rest : List ℚ) :
    ∃ a : Angle, angle_new (.args (d :: m :: s :: x :: rest)) = .ok a ∧ a.tol = TOL ∧ |a.deg| < 360 ∧
      ∃ k : ℤ, (if d < 0 ∨ m < 0 ∨ s < 0 ∨ x < 0 then (-1 : ℚ) else 1) * (|d| + |m| / 60 + |s| / 3600)
        = a.deg + 360 * k := by
  refine ⟨_, rfl, rfl, ?_⟩
  simp only [plt, Bool.or_eq_true, decide_eq_true_eq, pabs_eq]
  by_cases h : d < 0 ∨ m < 0 ∨ s < 0 ∨ x < 0
  · have h' : ((d < 0 ∨ m < 0) ∨ s < 0) ∨ x < 0 := by tauto
    simp only [h, h', if_true]
    obtain ⟨hr, k, hk⟩ := dms2deg_spec (-1.0 * |d|) (-1.0 * |m|) (-1.0 * |s|)
    refine ⟨hr, ?_⟩
    have e1 : (-1.0 : ℚ) = -1 := by norm_num
    rw [e1] at hk ⊢
    simp only [neg_one_mul, abs_neg, abs_abs] at hk ⊢
    unfold dmsSign at hk
    by_cases hz : -|d| < 0 ∨ -|m| < 0 ∨ -|s| < 0
    · rw [if_pos hz] at hk; exact ⟨k, by linarith⟩
    · rw [if_neg hz] at hk
      push Not at hz
      have := abs_nonneg d; have := abs_nonneg m; have := abs_nonneg s
      have hd : |d| = 0 := by linarith [hz.1]
      have hm : |m| = 0 := by linarith [hz.2.1]
      have hs : |s| = 0 := by linarith [hz.2.2]
      rw [hd, hm, hs] at hk ⊢
      exact ⟨k, by linarith⟩
  · have h' : ¬ (((d < 0 ∨ m < 0) ∨ s < 0) ∨ x < 0) := by tauto
    simp only [h, h', if_false]
    obtain ⟨hr, k, hk⟩ := dms2deg_spec (1.0 * |d|) (1.0 * |m|) (1.0 * |s|)
    refine ⟨hr, ?_⟩
    have e1 : (1.0 : ℚ) = 1 := by norm_num
    rw [e1] at hk ⊢
    simp only [one_mul, abs_abs] at hk ⊢
    unfold dmsSign at hk
    have hz : ¬ (|d| < 0 ∨ |m| < 0 ∨ |s| < 0) := by
      have := abs_nonneg d; have := abs_nonneg m; have := abs_nonneg s
      push Not; exact ⟨by linarith, by linarith, by linarith⟩
    rw [if_neg hz] at hk
    exact ⟨k, by linarith⟩

/-- Copy constructor: same value and same tolerance. -/
theorem ctor_copy (a : Angle) : angle_new (.copy a) = .ok a := rfl

/-- `set(...)` on an existing object computes the same value (or raises the same error) as the
    constructor; it keeps the object's tolerance except for the copy form (`set_keeps_tolerance`). -/
theorem set_same_value (self : Angle) (s : Shape) :
    Except.map Angle.deg (angle_set self s) = Except.map Angle.deg (angle_new s) := by
  unfold angle_new
  cases s with
  | none => rfl
  | num x => rfl
  | copy c => rfl
  | seq xs =>
    rcases xs with _ | ⟨x, _ | ⟨y, ys⟩⟩
    · rfl
    · rfl
    · unfold angle_set; simp only []
      cases set_pieces (x :: y :: ys) <;> rfl
  | args xs =>
    unfold angle_set; simp only []
    cases set_pieces xs <;> rfl

theorem set_keeps_tolerance (self : Angle) (x d m s : ℚ) :
    (∃ a, angle_set self (.num x) = .ok a ∧ a.tol = self.tol) ∧
    (∃ a, angle_set self (.args [d, m, s]) = .ok a ∧ a.tol = self.tol ∧ a.deg = dms2deg d m s) :=
  ⟨⟨_, rfl, rfl⟩, ⟨_, rfl, rfl, rfl⟩⟩

/-- "hours of right ascension": for every argument shape, `Angle(..., ra=True)` / `set_ra(...)` store
    `reduce_deg (15 * v)` where `v` is the value the same arguments give as degrees: strictly inside
    (-360, 360) and congruent modulo 360 to 15 times that value (and errors are the same errors). -/
theorem ctor_ra (s : Shape) :
    (∀ a, angle_new s = .ok a → ∃ b : Angle, angle_new_ra s = .ok b ∧ b.deg = reduce_deg (a.deg * 15) ∧
      b.tol = a.tol ∧ |b.deg| < 360 ∧ ∃ k : ℤ, 15 * a.deg = b.deg + 360 * k) ∧
    (∀ e, angle_new s = .error e → angle_new_ra s = .error e) := by
  unfold angle_new_ra angle_set_ra angle_new
  constructor
  · intro a h
    rw [h]
    refine ⟨_, rfl, by norm_num, rfl, (reduce_deg_spec _).1, ?_⟩
    obtain ⟨k, hk⟩ := (reduce_deg_spec (a.deg * 15.0)).2.1
    exact ⟨k, by rw [← hk]; norm_num; ring⟩
  · intro e h
    rw [h]

/-- Hours given as a number: `Angle(h, ra=True)` is `reduce_deg (15 * reduce_deg h)`, congruent to `15 h`;
    for |h| < 24 it is exactly `15 h`. -/
theorem ctor_ra_number (h : ℚ) :
    ∃ b : Angle, angle_new_ra (.num h) = .ok b ∧ |b.deg| < 360 ∧ (∃ k : ℤ, 15 * h = b.deg + 360 * k) ∧
      (|h| < 24 → b.deg = 15 * h) := by
  obtain ⟨b, hb, hdeg, _, hr, k, hk⟩ := (ctor_ra (.num h)).1 _ (ctor_number h)
  obtain ⟨_, ⟨j, hj⟩, _⟩ := reduce_deg_spec h
  refine ⟨b, hb, hr, ⟨k + 15 * j, ?_⟩, fun hh => ?_⟩
  · simp only at hk; push_cast; linarith
  · rw [hdeg]
    have h360 : |h| < 360 := by linarith
    simp only [reduce_deg_of_lt h360]
    rw [reduce_deg_of_lt]; ring
    rw [abs_mul, abs_of_pos (by norm_num : (0 : ℚ) < 15)]; linarith

example : ∃ b : Angle, angle_new_ra (.num 25.5) = .ok b ∧ b.deg = 22.5 := ⟨_, rfl, by decide +kernel⟩

/-! ### Operators: result = `Angle(exact result)`, hence in range and congruent -/

/-- `+` (plain `__add__`, reflected `__radd__`, in-place `__iadd__`; Angle, int or float operand). -/
theorem add (a : Angle) (b : Operand) :
    |(angle_add a b).deg| < 360 ∧ (∃ k : ℤ, a.deg + b.val = (angle_add a b).deg + 360 * k) ∧
    angle_add a b = mk (a.deg + b.val) ∧ angle_radd a b = angle_add a b ∧ angle_iadd a b = angle_add a b :=
  ⟨(mk_spec _).1, (mk_spec _).2.1, rfl, rfl, rfl⟩

/-- `-` : `a - b` (plain, in-place) and `b - a` (reflected). -/
theorem sub (a : Angle) (b : Operand) :
    |(angle_sub a b).deg| < 360 ∧ (∃ k : ℤ, a.deg - b.val = (angle_sub a b).deg + 360 * k) ∧
    |(angle_rsub a b).deg| < 360 ∧ (∃ k : ℤ, b.val - a.deg = (angle_rsub a b).deg + 360 * k) ∧
    angle_isub a b = angle_sub a b := by
  have hneg : ∃ j : ℤ, -b.val = b.neg.val + 360 * j := by
    cases b with
    | ang c => exact (mk_spec (-c.deg)).2.1
    | int n => exact ⟨0, by simp [Operand.neg, Operand.val, ofInt]⟩
    | flt x => exact ⟨0, by simp [Operand.neg, Operand.val]⟩
  obtain ⟨j, hj⟩ := hneg
  have hs : ∃ k : ℤ, a.deg - b.val = (angle_sub a b).deg + 360 * k := by
    obtain ⟨k, hk⟩ := (mk_spec (a.deg + b.neg.val)).2.1
    exact ⟨k + j, by push_cast; unfold angle_sub angle_add; linarith⟩
  refine ⟨(mk_spec _).1, hs, (mk_spec _).1, ?_, rfl⟩
  obtain ⟨k, hk⟩ := hs
  obtain ⟨l, hl⟩ := (mk_spec (-(angle_sub a b).deg)).2.1
  exact ⟨l - k, by push_cast; unfold angle_rsub angle_neg; linarith⟩

/-- `*` (plain, reflected, in-place). -/
theorem mul (a : Angle) (b : Operand) :
    |(angle_mul a b).deg| < 360 ∧ (∃ k : ℤ, a.deg * b.val = (angle_mul a b).deg + 360 * k) ∧
    angle_rmul a b = angle_mul a b ∧ angle_imul a b = angle_mul a b :=
  ⟨(mk_spec _).1, (mk_spec _).2.1, rfl, rfl⟩

/-- "division by zero raising ZeroDivisionError": `a / 0`, `a / 0.0`, `a / Angle(0)`, `a /= 0` ... -/
theorem div_by_zero (a : Angle) (b : Operand) (h : b.val = 0) :
    angle_div a b = .error .zeroDivisionError ∧ angle_idiv a b = .error .zeroDivisionError := by
  have h1 : angle_div a b = .error .zeroDivisionError := by
    unfold angle_div pdivE
    by_cases hz : b.isZero = true
    · rw [if_pos hz]
    · rw [if_neg hz, h]; norm_num [peq]
  refine ⟨h1, ?_⟩
  unfold angle_idiv
  by_cases hz : b.isZero = true
  · rw [if_pos hz]
  · rw [if_neg hz]; exact h1

/-- `/` (plain and in-place) with a divisor the guard does not treat as zero: `Angle(a / b)`. -/
theorem div (a : Angle) (b : Operand) (h : b.val ≠ 0) (hz : b.isZero = false) :
    ∃ r : Angle, angle_div a b = .ok r ∧ angle_idiv a b = .ok r ∧ |r.deg| < 360 ∧
      ∃ k : ℤ, a.deg / b.val = r.deg + 360 * k := by
  have hp : pdivE a.deg b.val = .ok (a.deg / b.val) := by
    unfold pdivE; rw [if_neg]; rw [peq_iff]; norm_num; exact h
  have h1 : angle_div a b = .ok (mk (a.deg / b.val)) := by
    unfold angle_div; rw [hz]; simp only [Bool.false_eq_true, if_false, hp]
  refine ⟨_, h1, ?_, (mk_spec _).1, (mk_spec _).2.1⟩
  unfold angle_idiv; rw [hz]; simp only [Bool.false_eq_true, if_false, h1]

/-- The zero test of the guards: exact zero for numbers, `|value| < tolerance` for an Angle. -/
theorem zero_guard (b : Operand) :
    b.isZero = true ↔ (match b with | .ang c => |c.deg| < c.tol | .int n => n = 0 | .flt x => x = 0) := by
  cases b with
  | ang c => simp [Operand.isZero, angle_eq, Operand.val, plt, pabs_eq]; norm_num
  | int n => simp [Operand.isZero]
  | flt x => simp [Operand.isZero, peq]; norm_num

/-- Reflected division `b / a`: ZeroDivisionError when `a` is zero; otherwise `Angle(b / a)`. -/
theorem rdiv (a : Angle) (b : Operand) :
    (a.deg = 0 → angle_rdiv a b = .error .zeroDivisionError) ∧
    (a.deg ≠ 0 → ¬ |a.deg| < a.tol → ∃ r : Angle, angle_rdiv a b = .ok r ∧ |r.deg| < 360 ∧
      ∃ k : ℤ, b.val / a.deg = r.deg + 360 * k) := by
  constructor
  · intro h
    unfold angle_rdiv pdivE
    by_cases hz : angle_eq a (.flt 0.0) = true
    · rw [if_pos hz]
    · rw [if_neg hz, h]; norm_num [peq]
  · intro h ht
    have hz : ¬ (angle_eq a (.flt 0.0) = true) := by
      simp [angle_eq, Operand.val, plt, pabs_eq]; norm_num; exact not_lt.mp ht
    have hp : pdivE b.val a.deg = .ok (b.val / a.deg) := by
      unfold pdivE; rw [if_neg]; rw [peq_iff]; norm_num; exact h
    refine ⟨mk (b.val / a.deg), ?_, (mk_spec _).1, (mk_spec _).2.1⟩
    unfold angle_rdiv; rw [if_neg hz]; simp only [hp]

/-- `%` (plain `__mod__` and in-place): ZeroDivisionError for a zero modulus, otherwise the
    sign-symmetric modulo the docstring announces, `Angle(sgn(a) * (|a| mod b))`, `mod` being Python's. -/
theorem mod (a : Angle) (b : Operand) :
    (b.val = 0 → angle_mod a b = .error .zeroDivisionError) ∧
    (b.val ≠ 0 → ∃ r : Angle, angle_mod a b = .ok r ∧ |r.deg| < 360 ∧
      ∃ k : ℤ, (if 0 ≤ a.deg then (1 : ℚ) else -1) * (|a.deg| - b.val * ⌊|a.deg| / b.val⌋) = r.deg + 360 * k) ∧
    angle_imod a b = angle_mod a b := by
  refine ⟨fun h => ?_, fun h => ?_, rfl⟩
  · rw [angle_mod_eq, h, modBody_zero]
  · rw [angle_mod_eq]; exact modBody_ok _ h

/-- Reflected modulo `b % a` (Angle, int or float `b`): the same sign-symmetric modulo with the operands
    exchanged, on the number itself: `Angle(sgn(b) * (|b| mod a))`; ZeroDivisionError for `a = 0`. -/
theorem rmod (a : Angle) (b : Operand) :
    (a.deg = 0 → angle_rmod a b = .error .zeroDivisionError) ∧
    (a.deg ≠ 0 → ∃ r : Angle, angle_rmod a b = .ok r ∧ |r.deg| < 360 ∧
      ∃ k : ℤ, (if 0 ≤ b.val then (1 : ℚ) else -1) * (|b.val| - a.deg * ⌊|b.val| / a.deg⌋) = r.deg + 360 * k) := by
  refine ⟨fun h => ?_, fun h => ?_⟩
  · rw [angle_rmod_eq, h, modBody_zero]
  · rw [angle_rmod_eq]; exact modBody_ok _ h

example : (match angle_rmod (mk 50) (.int 725) with | .ok r => decide (r.deg = 25) | .error _ => false) = true := by
  decide +kernel

/-- `**` with an `int` exponent (plain and in-place): `Angle(a ** n)`; `0 ** negative` raises
    ZeroDivisionError. -/
theorem pow_int (a : Angle) (n : ℤ) :
    (a.deg = 0 → n < 0 → angle_pow_int a n = .error .zeroDivisionError) ∧
    (0 ≤ n ∨ a.deg ≠ 0 → ∃ r : Angle, angle_pow_int a n = .ok r ∧ |r.deg| < 360 ∧
      ∃ k : ℤ, a.deg ^ n = r.deg + 360 * k) ∧
    angle_ipow_int a n = angle_pow_int a n := by
  refine ⟨fun h hn => ?_, fun h => ?_, rfl⟩
  · unfold angle_pow_int ppowi
    rw [if_neg (by omega), if_pos h]
  · refine ⟨mk (a.deg ^ n), ?_, (mk_spec _).1, (mk_spec _).2.1⟩
    unfold angle_pow_int; rw [ppowi_ok h]

/-- Unary `-`, `abs`, `round(a, n)`: `Angle` of the exact result. -/
theorem unary (a : Angle) (n : ℤ) :
    (|(angle_neg a).deg| < 360 ∧ ∃ k : ℤ, -a.deg = (angle_neg a).deg + 360 * k) ∧
    (|(angle_abs a).deg| < 360 ∧ ∃ k : ℤ, |a.deg| = (angle_abs a).deg + 360 * k) ∧
    (|(angle_round a n).deg| < 360 ∧ ∃ k : ℤ, proundn a.deg n = (angle_round a n).deg + 360 * k ∧
       |a.deg - proundn a.deg n| ≤ 1 / (2 * pow10 n)) := by
  refine ⟨⟨(mk_spec _).1, (mk_spec _).2.1⟩, ⟨(mk_spec _).1, ?_⟩, (mk_spec _).1, ?_⟩
  · show ∃ k : ℤ, |a.deg| = (mk (pabs a.deg)).deg + 360 * k
    rw [pabs_eq]; exact (mk_spec _).2.1
  · obtain ⟨k, hk⟩ := (mk_spec (proundn a.deg n)).2.1
    exact ⟨k, hk, proundn_spec _ _⟩

/-- On a valid Angle (value inside (-360, 360)) negation and `abs` are exact. -/
theorem unary_exact (a : Angle) (h : |a.deg| < 360) :
    (angle_neg a).deg = -a.deg ∧ (angle_abs a).deg = |a.deg| := by
  constructor
  · exact reduce_deg_of_lt (by rw [abs_neg]; exact h)
  · show reduce_deg (pabs a.deg) = _
    rw [pabs_eq]; exact reduce_deg_of_lt (by rw [abs_abs]; exact h)

/-- Every operator result carries the default tolerance and both operands are values (the model is
    functional): results are fresh `Angle(...)` objects. -/
theorem results_are_fresh (a : Angle) (b : Operand) (n : ℤ) :
    (angle_add a b).tol = TOL ∧ (angle_sub a b).tol = TOL ∧ (angle_mul a b).tol = TOL ∧
    (angle_neg a).tol = TOL ∧ (angle_abs a).tol = TOL ∧ (angle_round a n).tol = TOL ∧
    (angle_rsub a b).tol = TOL :=
  ⟨rfl, rfl, rfl, rfl, rfl, rfl, rfl⟩

/-! ### Positive form, views, comparisons -/

/-- "The positive form is the congruent value in [0, 360)". -/
theorem to_positive_range (a : Angle) (h : |a.deg| < 360) :
    0 ≤ (to_positive a).deg ∧ (to_positive a).deg < 360 ∧
    (∃ k : ℤ, (to_positive a).deg = a.deg + 360 * k) ∧ (to_positive a).tol = a.tol ∧
    (0 ≤ a.deg → to_positive a = a) := by
  rw [abs_lt] at h
  unfold to_positive
  by_cases h0 : a.deg < 0
  · have hp : plt a.deg 0 = true := by rw [plt_iff]; exact h0
    have hd : ¬ (ple 360.0 (360.0 - pabs a.deg) = true) := by
      rw [ple_iff, pabs_eq, abs_of_neg h0]; norm_num; linarith
    rw [if_pos hp]; simp only [hd]
    rw [pabs_eq, abs_of_neg h0]
    refine ⟨by norm_num; linarith [h.1], by norm_num; linarith, ⟨1, by norm_num; ring⟩, rfl, fun hh => absurd hh (not_le.mpr h0)⟩
  · have hp : ¬ (plt a.deg 0 = true) := by rw [plt_iff]; exact h0
    rw [if_neg hp]
    exact ⟨not_lt.mp h0, h.2, ⟨0, by simp⟩, rfl, fun _ => rfl⟩

example : (to_positive ⟨-350, TOL⟩).deg = 10 := by decide +kernel

/-- "the hour view is the value times 1/15". -/
theorem ra_view (a : Angle) : get_ra a = a.deg * (1 / 15) := by
  unfold get_ra; norm_num; ring

/-- Comparisons order the stored values; equality is within the left operand's tolerance. -/
theorem comparisons (a : Angle) (b : Operand) :
    (angle_lt a b = true ↔ a.deg < b.val) ∧ (angle_le a b = true ↔ a.deg ≤ b.val) ∧
    (angle_gt a b = true ↔ b.val < a.deg) ∧ (angle_ge a b = true ↔ b.val ≤ a.deg) ∧
    (angle_eq a b = true ↔ |a.deg - b.val| < a.tol) ∧ (angle_ne a b = true ↔ ¬ |a.deg - b.val| < a.tol) := by
  simp [angle_lt, angle_le, angle_gt, angle_ge, angle_eq, angle_ne, plt, pabs_eq]


/-! ### Growth round: boundary, every shape in range, identities -/

/-- Behaviour at the documented boundary: every whole number of turns (360, -360, 720, ...) is stored
    as 0 — the bound of the canonical range is exclusive. -/
theorem reduce_whole_turns (k : ℤ) : reduce_deg (360 * (k : ℚ)) = 0 := by
  by_cases hk : k = 0
  · subst hk; rw [reduce_deg_of_lt (by norm_num)]; norm_num
  · have habs : |360 * (k : ℚ)| = ((360 * |k| : ℤ) : ℚ) := by
      rw [abs_mul, abs_of_pos (by norm_num : (0 : ℚ) < 360)]; push_cast; rfl
    have hge : 360 ≤ |360 * (k : ℚ)| := by
      rw [habs]
      have : 1 ≤ |k| := Int.one_le_abs hk
      exact_mod_cast (by omega : (360 : ℤ) ≤ 360 * |k|)
    rw [reduce_deg_of_ge hge]
    unfold turnRem
    rw [habs, Int.floor_intCast, Int.fract_intCast]
    have : (360 * |k|) % 360 = 0 := Int.mul_emod_right 360 |k|
    rw [this]; simp

example : reduce_deg 360 = 0 ∧ reduce_deg (-360) = 0 ∧ reduce_deg 1080 = 0 := by decide +kernel

/-- Every constructor call that succeeds stores a value strictly inside (-360, 360), whatever the
    argument shape (the copy form returns its source unchanged, so it is in range when the source is). -/
theorem ctor_always_in_range (s : Shape) (a : Angle) (h : angle_new s = .ok a) :
    (∀ c, s = .copy c → a = c) ∧ ((∀ c, s ≠ .copy c) → |a.deg| < 360) := by
  unfold angle_new at h
  cases s with
  | none => cases h; exact ⟨fun c hc => (by cases hc), fun _ => by norm_num⟩
  | num x => cases h; exact ⟨fun c hc => (by cases hc), fun _ => (reduce_deg_spec x).1⟩
  | copy c => cases h; exact ⟨fun c' hc => (by cases hc; rfl), fun hne => absurd rfl (hne _)⟩
  | seq xs =>
    refine ⟨fun c hc => (by cases hc), fun _ => ?_⟩
    rcases xs with _ | ⟨x, _ | ⟨y, _ | ⟨z, _ | ⟨w, rest⟩⟩⟩⟩
    · cases h
    · cases h; exact (reduce_deg_spec x).1
    · cases h; exact (dms2deg_spec _ _ _).1
    · cases h; exact (dms2deg_spec _ _ _).1
    · cases h; exact (dms2deg_spec _ _ _).1
  | args xs =>
    refine ⟨fun c hc => (by cases hc), fun _ => ?_⟩
    rcases xs with _ | ⟨x, _ | ⟨y, _ | ⟨z, _ | ⟨w, rest⟩⟩⟩⟩
    · cases h
    · cases h
    · cases h; exact (dms2deg_spec _ _ _).1
    · cases h; exact (dms2deg_spec _ _ _).1
    · cases h; exact (dms2deg_spec _ _ _).1

example : ∃ a, angle_new (.num 360) = .ok a ∧ a.deg = 0 := ⟨_, rfl, by decide +kernel⟩
/-- the sign piece of the 4-piece form reaches minutes and seconds when the degrees are 0 -/
example : ∃ a, angle_new (.args [0, 5, 30, -1]) = .ok a ∧ a.deg = -(5 / 60 + 30 / 3600) := ⟨_, rfl, by decide +kernel⟩
/-- rounding up to a whole turn wraps to 0 and the result carries the default tolerance -/
example : (angle_round ⟨359.7, 0.5⟩ 0).deg = 0 ∧ (angle_round ⟨359.7, 0.5⟩ 0).tol = TOL := by decide +kernel

/-- Identities between the library's own operations on valid Angles: `+` and `*` commute, `-(-a) = a`,
    `a - a = 0`, and the positive form is idempotent. -/
theorem identities (a b : Angle) (ha : |a.deg| < 360) :
    angle_add a (.ang b) = angle_add b (.ang a) ∧ angle_mul a (.ang b) = angle_mul b (.ang a) ∧
    (angle_neg (angle_neg a)).deg = a.deg ∧ (angle_sub a (.ang a)).deg = 0 ∧
    to_positive (to_positive a) = to_positive a := by
  have hneg : (angle_neg a).deg = -a.deg := reduce_deg_of_lt (by rw [abs_neg]; exact ha)
  refine ⟨?_, ?_, ?_, ?_, ?_⟩
  · unfold angle_add Operand.val; rw [add_comm]
  · unfold angle_mul Operand.val; rw [mul_comm]
  · show reduce_deg (-(angle_neg a).deg) = a.deg
    rw [hneg, neg_neg]; exact reduce_deg_of_lt ha
  · show reduce_deg (a.deg + (angle_neg a).deg) = 0
    rw [hneg, add_neg_cancel]; exact reduce_deg_of_lt (by norm_num)
  · obtain ⟨h0, h1, _, _, _⟩ := to_positive_range a ha
    have hr : |(to_positive a).deg| < 360 := by rw [abs_lt]; constructor <;> linarith
    exact (to_positive_range (to_positive a) hr).2.2.2.2 h0

/-- `Angle.reduce_dms` on ANY three rationals returns canonical pieces: integer degrees in [0, 360),
    integer minutes in [0, 60), seconds in [0, 60), sign -1 exactly when a piece is negative, and the
    pieces keep the magnitude `|d| + |m|/60 + |s|/3600` up to whole turns (the absolute values are taken
    before the fractional parts are pushed down). -/
theorem reduce_dms_canonical (d m s : ℚ) :
    ∃ (D M : ℤ) (S : ℚ), reduce_dms d m s = (D, M, S, if d < 0 ∨ m < 0 ∨ s < 0 then (-1 : ℚ) else 1) ∧
      0 ≤ D ∧ D < 360 ∧ 0 ≤ M ∧ M < 60 ∧ 0 ≤ S ∧ S < 60 ∧
      ∃ k : ℤ, |d| + |m| / 60 + |s| / 3600 = (D : ℚ) + (M : ℚ) / 60 + S / 3600 + 360 * k :=
  reduce_dms_fields d m s

example : reduce_dms 0 0.5 (-10) = (0, 0, 40, -1) ∧ reduce_dms 10.5 30.5 (-30.5) = (11, 1, 0.5, -1) ∧
    reduce_dms 725 59 3600 = (6, 59, 0, 1) := by decide +kernel

/-- The order comparisons are a trichotomy on the stored values, and `==` holds whenever the values
    coincide and the tolerance is positive. -/
theorem comparison_trichotomy (a : Angle) (b : Operand) :
    (angle_lt a b = true ∨ angle_gt a b = true ∨ a.deg = b.val) ∧
    ¬ (angle_lt a b = true ∧ angle_gt a b = true) ∧
    (a.deg = b.val → 0 < a.tol → angle_eq a b = true) := by
  obtain ⟨h1, _, h3, _, h5, _⟩ := comparisons a b
  refine ⟨?_, ?_, fun he ht => ?_⟩
  · rcases lt_trichotomy a.deg b.val with h | h | h
    · exact Or.inl (h1.mpr h)
    · exact Or.inr (Or.inr h)
    · exact Or.inr (Or.inl (h3.mpr h))
  · rintro ⟨ha, hb⟩; exact lt_asymm (h1.mp ha) (h3.mp hb)
  · rw [h5, he, sub_self, abs_zero]; exact ht

/-- On valid Angles subtraction is exactly `Angle(a - b)` (the detour `a + (-b)` through `Angle(-b)`
    loses nothing), plain, in-place and reflected. -/
theorem sub_exact (a b : Angle) (hb : |b.deg| < 360) :
    angle_sub a (.ang b) = mk (a.deg - b.deg) ∧ angle_isub a (.ang b) = mk (a.deg - b.deg) := by
  have hneg : (angle_neg b).deg = -b.deg := reduce_deg_of_lt (by rw [abs_neg]; exact hb)
  have : angle_sub a (.ang b) = mk (a.deg - b.deg) := by
    show mk (a.deg + (angle_neg b).deg) = _
    rw [hneg, sub_eq_add_neg]
  exact ⟨this, this⟩

/-- The remainder `%` keeps: for a positive modulus `b` the magnitude `|a| mod b` lies in [0, b), so the
    exact result `sgn(a) * (|a| mod b)` has the sign of `a` and magnitude below `b`. -/
theorem mod_remainder_range (x y : ℚ) (hy : 0 < y) :
    0 ≤ |x| - y * ⌊|x| / y⌋ ∧ |x| - y * ⌊|x| / y⌋ < y ∧
    |(if 0 ≤ x then (1 : ℚ) else -1) * (|x| - y * ⌊|x| / y⌋)| < y := by
  have h := pmod_pos (x := |x|) hy
  unfold pmod at h
  rw [rfloor] at h
  refine ⟨h.1, h.2.1, ?_⟩
  split_ifs
  · rw [one_mul, abs_of_nonneg h.1]; exact h.2.1
  · rw [neg_one_mul, abs_neg, abs_of_nonneg h.1]; exact h.2.1

example : ∃ r : Angle, angle_mod ⟨-350, TOL⟩ (.int 60) = .ok r ∧ r.deg = -50 := ⟨_, rfl, by decide +kernel⟩

/-! ### Radians: input and view (over ℝ, `Pymeeus.GenR`) -/

/-- The reduction theorem holds verbatim over the reals (the radians input needs it). -/
theorem reduce_real (x : ℝ) :
    |GenR.reduce_deg x| < 360 ∧ (∃ k : ℤ, x = GenR.reduce_deg x + 360 * k) ∧
    (0 ≤ x → 0 ≤ GenR.reduce_deg x) ∧ (x ≤ 0 → GenR.reduce_deg x ≤ 0) ∧ (|x| < 360 → GenR.reduce_deg x = x) :=
  RefineR.reduce_deg_spec x

/-- "An Angle built from ... radians": `Angle(x, radians=True)`, `Angle([x], radians=True)`,
    `Angle((x,), radians=True)` and `set_radians(x)` store `reduce_deg (x * 180/π)`: strictly inside
    (-360, 360), sign of the input, congruent to `x * 180/π` modulo 360. -/
theorem ctor_radians (x : ℝ) :
    GenR.angle_new_kw (.num x) true false = .ok ⟨GenR.reduce_deg (x * (180 / Real.pi)), GenR.TOL⟩ ∧
    GenR.angle_new_kw (.seq [x]) true false = GenR.angle_new_kw (.num x) true false ∧
    (∀ self : GenR.Angle, GenR.angle_set_radians self x =
      .ok ⟨GenR.reduce_deg (x * (180 / Real.pi)), self.tol⟩) ∧
    |GenR.reduce_deg (x * (180 / Real.pi))| < 360 ∧
    (∃ k : ℤ, x * (180 / Real.pi) = GenR.reduce_deg (x * (180 / Real.pi)) + 360 * k) ∧
    (0 ≤ x → 0 ≤ GenR.reduce_deg (x * (180 / Real.pi))) ∧ (x ≤ 0 → GenR.reduce_deg (x * (180 / Real.pi)) ≤ 0) := by
  have hpi : 0 < 180 / Real.pi := by positivity
  obtain ⟨h1, h2, h3, h4, _⟩ := RefineR.reduce_deg_spec (x * (180 / Real.pi))
  exact ⟨rfl, rfl, fun _ => rfl, h1, h2, fun h => h3 (by positivity),
    fun h => h4 (mul_nonpos_of_nonpos_of_nonneg h hpi.le)⟩

/-- The `radians` keyword is ignored for two or more pieces and when `ra=True` is also given. -/
theorem ctor_radians_ignored (d m : ℝ) (rest : List ℝ) (s : GenR.Shape) (r : Bool) :
    GenR.angle_new_kw (.args (d :: m :: rest)) true false = GenR.angle_new (.args (d :: m :: rest)) ∧
    GenR.angle_new_kw (.seq (d :: m :: rest)) true false = GenR.angle_new (.seq (d :: m :: rest)) ∧
    GenR.angle_new_kw s r true = GenR.angle_new_ra s := by
  refine ⟨rfl, ?_, rfl⟩
  cases rest <;> rfl

/-- `**` with a float or Angle exponent and a positive base (plain and in-place), and the reflected
    `b ** a` with a positive number base: `Angle` of the real power, in range and congruent;
    `0.0 ** negative` raises ZeroDivisionError. -/
theorem pow_real (a : GenR.Angle) (y : ℝ) :
    (0 < a.deg → ∃ r : GenR.Angle, GenR.angle_pow a (.flt y) = .ok r ∧ |r.deg| < 360 ∧
      ∃ k : ℤ, a.deg ^ y = r.deg + 360 * k) ∧
    (a.deg = 0 → y < 0 → GenR.angle_pow a (.flt y) = .error .zeroDivisionError) ∧
    (∀ b : GenR.Angle, GenR.angle_pow a (.ang b) = GenR.angle_pow a (.flt b.deg)) ∧
    (0 < y → ∃ r : GenR.Angle, GenR.angle_rpow a (.flt y) = .ok r ∧ |r.deg| < 360 ∧
      ∃ k : ℤ, y ^ a.deg = r.deg + 360 * k) := by
  have key : ∀ x w : ℝ, 0 < x → PR.ppow x w = .ok (x ^ w) := by
    intro x w hx
    unfold PR.ppow
    by_cases hw : w = 0
    · rw [if_pos hw, hw, Real.rpow_zero]
    · rw [if_neg hw, if_neg hx.ne', if_neg (not_lt.mpr hx.le)]; rfl
  refine ⟨fun ha => ?_, fun ha hy => ?_, fun b => rfl, fun hy => ?_⟩
  · refine ⟨GenR.mk (a.deg ^ y), ?_, (RefineR.reduce_deg_spec _).1, (RefineR.reduce_deg_spec _).2.1⟩
    unfold GenR.angle_pow; simp only [key _ _ ha]
  · unfold GenR.angle_pow PR.ppow
    simp only [ha, if_neg hy.ne, hy, if_true]
  · refine ⟨GenR.mk (y ^ a.deg), ?_, (RefineR.reduce_deg_spec _).1, (RefineR.reduce_deg_spec _).2.1⟩
    unfold GenR.angle_rpow GenR.Operand.val; simp only [key _ _ hy]

/-- "the radian view is the value times pi/180". -/
theorem rad_view (a : GenR.Angle) : GenR.angle_rad a = a.deg * (Real.pi / 180) := rfl

/-- `rad()` after `to_positive()` is the radian value of the NEW value: for a negative Angle it is
    `(a + 360) * pi / 180` (no stale cached view in the functional model). -/
theorem rad_after_to_positive (a : GenR.Angle) (h1 : -360 < a.deg) (h2 : a.deg < 0) :
    GenR.angle_rad (GenR.to_positive a) = (a.deg + 360) * (Real.pi / 180) := by
  have hp : (GenR.to_positive a).deg = a.deg + 360 := by
    unfold GenR.to_positive
    have hp : PR.plt a.deg 0 = true := by simp [PR.plt, h2]
    have hd : ¬ (PR.ple 360.0 (360.0 - PR.pabs a.deg) = true) := by
      simp only [PR.ple, PR.pabs, decide_eq_true_eq, abs_of_neg h2]; norm_num; linarith
    rw [if_pos hp]; simp only [hd]
    simp only [PR.pabs, abs_of_neg h2]; norm_num; ring
  show (GenR.to_positive a).deg * (Real.pi / 180) = _
  rw [hp]

/-- `**` with a negative base and a non-integer exponent has no real value: CPython returns a complex,
    `Angle(complex)` raises TypeError. -/
theorem pow_complex_rejected (a : GenR.Angle) (y : ℝ) (ha : a.deg < 0) (hy : y ≠ (⌊y⌋ : ℤ)) :
    GenR.angle_pow a (.flt y) = .error .typeError := by
  have hy0 : y ≠ 0 := by
    intro h0; apply hy; rw [h0]; simp
  unfold GenR.angle_pow PR.ppow
  simp only [hy0, ha.ne, ha, hy, if_false, if_true]

end Pymeeus.C03
