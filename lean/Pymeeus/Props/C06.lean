import Pymeeus.Refine.Precession
/-
C06 — Precession is a rigid, invertible rotation, consistent across routes.

Property theorems only (helpers in Refine/Precession.lean).  They are statements about
`Pymeeus.GenR.Coords`, the real-number instantiation of the model in templates/Precession.lean (an `Angle`
is its degree value, an `Epoch` its JDE).  `dir lon lat` is the unit vector of a direction (degrees);
`precessionRot ζ z θ = Rz(z) · Ry(θ) · Rz(ζ)`; `fk5Zeta e0 e1`, `fk5Z e0 e1`, `fk5Theta e0 e1` are the three
angles the source computes for the epochs `e0 → e1` (its polynomials, through `Angle(0, 0, seconds)`, in radians).

The source (after the fixes proposed in findings.d/proposed-5.patch and proposed-6.patch) returns
`final_dec = atan2(c, sqrt(a*a + b*b))` for every start: no branch on the declination, no `asin`/`acos`, no
division.  The rotation theorems therefore hold for EVERY direction, both poles included, with no safety
hypothesis; the conclusion `… = .ok …` says that nothing is raised.

NOT carried by any theorem here (numerical agreements between different truncated series; they are measured on
the implementation by harness/c06.py only): ecliptical there-and-back (1e-6°), equatorial route vs ecliptical
route (1e-4°), Newcomb vs FK5 (0.005°), orbital elements there and back.
-/
noncomputable section
namespace Pymeeus.C06
open Real Pymeeus Pymeeus.PR Pymeeus.GenR.Coords Pymeeus.Spec.Sphere Pymeeus.Refine.Coords

/-- "Precessing mean coordinates between two epochs is a rigid rotation of the sky": without proper motion, the
    direction returned is `Rz(z) Ry(θ) Rz(ζ)` applied to the starting direction (the standard ζ, z, θ product), for
    every pair of epochs (JDE) and "every declination including within 5 degrees of either pole" (and the poles). -/
theorem equatorial_is_rotation (e0 e1 α δ : ℝ) (hα : |α| < 360) (hδ : |δ| < 360) :
    ∃ ra dec, precession_equatorial e0 e1 α δ 0 0 = .ok (ra, dec) ∧
      dir ra dec = precessionRot (fk5Zeta e0 e1) (fk5Z e0 e1) (fk5Theta e0 e1) (dir α δ) ∧
      |ra| < 360 ∧ -90 ≤ dec ∧ dec ≤ 90 :=
  precession_equatorial_rot e0 e1 α δ hα hδ

example : |(41 : ℝ)| < 360 ∧ |(-89.5 : ℝ)| < 360 := by
  constructor <;> rw [abs_lt] <;> constructor <;> norm_num

/-- The same rotation statement for the common tail of `precession_equatorial` and `precession_newcomb`, with
    arbitrary Angles ζ, z, θ (degrees). -/
theorem apply_is_rotation (α δ ζ z θ : ℝ) :
    ∃ ra dec, precession_apply α δ ζ z θ = .ok (ra, dec) ∧
      dir ra dec = precessionRot (rad ζ) (rad z) (rad θ) (dir α δ) ∧ |ra| < 360 ∧ -90 ≤ dec ∧ dec ≤ 90 :=
  precession_apply_rot α δ ζ z θ

/-- The rotation written with the polynomials of the source themselves: `Angle(0, 0, seconds)` acts as
    `seconds / 3600` degrees (its sexagesimal reduction only removes whole turns), so the Euler angles are
    ζ, z, θ = (polynomial in T, t) / 3600 degrees, `T = (e0 - 2451545) / 36525`, `t = (e1 - e0) / 36525`. -/
theorem equatorial_is_rotation_poly (e0 e1 α δ : ℝ) (hα : |α| < 360) (hδ : |δ| < 360) :
    ∃ ra dec, precession_equatorial e0 e1 α δ 0 0 = .ok (ra, dec) ∧
      dir ra dec = precessionRot (rad (fk5_zeta ((e0 - 2451545.0) / 36525.0) ((e1 - e0) / 36525.0) / 3600))
        (rad (fk5_z ((e0 - 2451545.0) / 36525.0) ((e1 - e0) / 36525.0) / 3600))
        (rad (fk5_theta ((e0 - 2451545.0) / 36525.0) ((e1 - e0) / 36525.0) / 3600)) (dir α δ) := by
  obtain ⟨ra, dec, hok, hdir, _⟩ := precession_equatorial_rot e0 e1 α δ hα hδ
  exact ⟨ra, dec, hok, by rw [hdir, precessionRot_fk5_poly]⟩

/-- "a zero interval is the identity". -/
theorem zero_interval (e α δ : ℝ) (hα : |α| < 360) (hδ : |δ| < 360) :
    ∃ ra dec, precession_equatorial e e α δ 0 0 = .ok (ra, dec) ∧ dir ra dec = dir α δ := by
  obtain ⟨h1, h2, h3⟩ := fk5_same e
  obtain ⟨ra, dec, hok, hd, _⟩ := precession_equatorial_rot e e α δ hα hδ
  exact ⟨ra, dec, hok, by rw [hd, h1, h2, h3, precessionRot_zero]⟩

/-- The polynomials of the source invert EXACTLY: for the way back (`T' = T + t`, `t' = -t`) the three angles are
    `ζ' = -z`, `z' = -ζ`, `θ' = -θ` (an identity of the coefficients 2306.2181, 1.39656, 0.000139, 0.30188, 0.000344,
    0.017998, 1.09468, 0.000066, 0.018203, 2004.3109, 0.85330, 0.000217, 0.42665, 0.041833, proved by `ring`). -/
theorem fk5_angles_invert (e0 e1 : ℝ) :
    fk5Zeta e1 e0 = -fk5Z e0 e1 ∧ fk5Z e1 e0 = -fk5Zeta e0 e1 ∧ fk5Theta e1 e0 = -fk5Theta e0 e1 :=
  fk5_back e0 e1

/-- "going there and back returns the starting direction": exactly, in real arithmetic, for every pair of epochs
    and every direction. -/
theorem there_and_back (e0 e1 α δ α1 δ1 : ℝ) (hα : |α| < 360) (hδ : |δ| < 360)
    (h : precession_equatorial e0 e1 α δ 0 0 = .ok (α1, δ1)) :
    ∃ α2 δ2, precession_equatorial e1 e0 α1 δ1 0 0 = .ok (α2, δ2) ∧ dir α2 δ2 = dir α δ := by
  obtain ⟨ra, dec, hok, hd, hra, hd0, hd1⟩ := precession_equatorial_rot e0 e1 α δ hα hδ
  rw [h] at hok; injection hok with hok; injection hok with x1 x2; subst x1 x2
  obtain ⟨b1, b2, b3⟩ := fk5_back e0 e1
  have hδ1 : |δ1| < 360 := by rw [abs_lt]; constructor <;> linarith
  obtain ⟨α2, δ2, hok2, hdir2, _⟩ := precession_equatorial_rot e1 e0 α1 δ1 hra hδ1
  exact ⟨α2, δ2, hok2, by rw [hdir2, hd, b1, b2, b3, precessionRot_inverse]⟩

/-- The hypothesis of `there_and_back` is satisfiable: a star at δ = 89.26° (Polaris) precessed over 50 years. -/
example : ∃ α1 δ1, precession_equatorial 2451545 2469807.5 37.95 89.26 0 0 = .ok (α1, δ1) := by
  obtain ⟨ra, dec, h, _⟩ := equatorial_is_rotation 2451545 2469807.5 37.95 89.26
    (by rw [abs_lt]; constructor <;> norm_num) (by rw [abs_lt]; constructor <;> norm_num)
  exact ⟨ra, dec, h⟩

/-- "the angle between any two stars is unchanged": the dot product of the two unit vectors is preserved. -/
theorem preserves_angle (e0 e1 α δ α' δ' ra dec ra' dec' : ℝ)
    (hα : |α| < 360) (hδ : |δ| < 360) (hα' : |α'| < 360) (hδ' : |δ'| < 360)
    (e : precession_equatorial e0 e1 α δ 0 0 = .ok (ra, dec))
    (e' : precession_equatorial e0 e1 α' δ' 0 0 = .ok (ra', dec')) :
    dot (dir ra dec) (dir ra' dec') = dot (dir α δ) (dir α' δ') := by
  obtain ⟨_, _, hok, hd, _⟩ := precession_equatorial_rot e0 e1 α δ hα hδ
  rw [e] at hok; injection hok with hok; injection hok with x1 x2; subst x1 x2
  obtain ⟨_, _, hok, hd', _⟩ := precession_equatorial_rot e0 e1 α' δ' hα' hδ'
  rw [e'] at hok; injection hok with hok; injection hok with x1 x2; subst x1 x2
  rw [hd, hd', precessionRot_dot]

/-- "proper motion displaces the result linearly in elapsed time": the result with proper motion (μα, μδ) (degrees
    per year) is the result without proper motion started from (α*, δ*), and (α*, δ*) is (α + 100 t μα, δ + 100 t μδ)
    up to whole turns, `t = (e1 - e0) / 36525` Julian centuries, i.e. `100 t` years. -/
theorem proper_motion_linear (e0 e1 α δ μα μδ : ℝ) :
    ∃ αs δs : ℝ, ∃ K L : ℤ,
      αs = α + μα * ((e1 - e0) / 36525.0) * 100 + 360 * K ∧ δs = δ + μδ * ((e1 - e0) / 36525.0) * 100 + 360 * L ∧
      precession_equatorial e0 e1 α δ μα μδ = precession_equatorial e0 e1 αs δs 0 0 := by
  obtain ⟨K, hK⟩ := pm_shift α μα ((e1 - e0) / 36525.0)
  obtain ⟨L, hL⟩ := pm_shift δ μδ ((e1 - e0) / 36525.0)
  refine ⟨_, _, K, L, hK, hL, ?_⟩
  rw [precession_equatorial_eq, precession_equatorial_eq, pm_zero (abs_a_add_lt _ _), pm_zero (abs_a_add_lt _ _)]

/-- `precession_newcomb` (FK4) has the same rotation structure with Newcomb's angles, for every direction. -/
theorem newcomb_is_rotation (e0 e1 α δ : ℝ) (hα : |α| < 360) (hδ : |δ| < 360) :
    ∃ ra dec, precession_newcomb e0 e1 α δ 0 0 = .ok (ra, dec) ∧
      dir ra dec = precessionRot
        (rad (a_of_sec (newcomb_zeta ((e0 - 2415020.3135) / 36524.2199) ((e1 - e0) / 36524.2199))))
        (rad (a_of_sec (newcomb_z ((e0 - 2415020.3135) / 36524.2199) ((e1 - e0) / 36524.2199))))
        (rad (a_of_sec (newcomb_theta ((e0 - 2415020.3135) / 36524.2199) ((e1 - e0) / 36524.2199))))
        (dir α δ) ∧ -90 ≤ dec ∧ dec ≤ 90 := by
  rw [precession_newcomb_eq, pm_zero hα, pm_zero hδ]
  obtain ⟨ra, dec, hok, hd, _, hr⟩ := precession_apply_rot α δ _ _ _
  exact ⟨ra, dec, hok, hd, hr⟩

/-- `precession_ecliptical` is a rotation for every direction, with no branch and no exception: longitude
    `λ ↦ Π - λ`, tilt by `η` about the node, longitude `ψ ↦ p + Π - ψ` (two reflections and a rotation). -/
theorem ecliptical_is_rotation (e0 e1 l b : ℝ) (hl : |l| < 360) (hb : |b| < 360) :
    ∃ lon lat, precession_ecliptical e0 e1 l b 0 0 = .ok (lon, lat) ∧
      dir lon lat =
        flipZ (rad (a_of_sec (ecl_p ((e0 - 2451545.0) / 36525.0) ((e1 - e0) / 36525.0)))
               + rad (a_add (a_of_sec (ecl_pie ((e0 - 2451545.0) / 36525.0) ((e1 - e0) / 36525.0))) 174.876384))
          (rotX (-(rad (a_of_sec (ecl_eta ((e0 - 2451545.0) / 36525.0) ((e1 - e0) / 36525.0)))))
            (flipZ (rad (a_add (a_of_sec (ecl_pie ((e0 - 2451545.0) / 36525.0) ((e1 - e0) / 36525.0))) 174.876384))
              (dir l b))) ∧
      -90 ≤ lat ∧ lat ≤ 90 := by
  rw [precession_ecliptical_eq, pm_zero hl, pm_zero hb]
  exact ecl_core_spec _ _ _ _ _

/-- The ecliptical rotation preserves the angle between two directions (each factor is orthogonal). -/
theorem ecliptical_rotation_orthogonal (p pie eta : ℝ) (u v : V3) :
    dot (flipZ (p + pie) (rotX (-eta) (flipZ pie u))) (flipZ (p + pie) (rotX (-eta) (flipZ pie v))) = dot u v := by
  rw [flipZ_dot, rotX_dot, flipZ_dot]

/-- "a zero interval is the identity", FK4 variant. -/
theorem newcomb_zero_interval (e α δ : ℝ) (hα : |α| < 360) (hδ : |δ| < 360) :
    ∃ ra dec, precession_newcomb e e α δ 0 0 = .ok (ra, dec) ∧ dir ra dec = dir α δ := by
  have ht : (e - e) / 36524.2199 = (0 : ℝ) := by simp
  obtain ⟨z1, z2, z3⟩ := newcomb_zero ((e - 2415020.3135) / 36524.2199)
  have r0 : rad 0 = 0 := by unfold rad; ring
  rw [precession_newcomb_eq, pm_zero hα, pm_zero hδ, ht, z1, z2, z3, a_of_sec_zero]
  obtain ⟨ra, dec, hok, hd, _⟩ := precession_apply_rot α δ 0 0 0
  exact ⟨ra, dec, hok, by rw [hd, r0, precessionRot_zero]⟩

/-- "a zero interval is the identity", ecliptical variant (every direction, both poles included). -/
theorem ecliptical_zero_interval (e l b : ℝ) (hl : |l| < 360) (hb : |b| < 360) :
    ∃ lon lat, precession_ecliptical e e l b 0 0 = .ok (lon, lat) ∧ dir lon lat = dir l b := by
  have ht : (e - e) / 36525.0 = (0 : ℝ) := by simp
  obtain ⟨z1, z2⟩ := ecl_zero ((e - 2451545.0) / 36525.0)
  have r0 : rad 0 = 0 := by unfold rad; ring
  rw [precession_ecliptical_eq, pm_zero hl, pm_zero hb, ht, z1, z2, a_of_sec_zero]
  obtain ⟨lon, lat, hok, hd, _⟩ := ecl_core_spec l b 0
    (a_add (a_of_sec (ecl_pie ((e - 2451545.0) / 36525.0) 0)) 174.876384) 0
  exact ⟨lon, lat, hok, by rw [hd, r0, zero_add, neg_zero, rotX_zero, flipZ_flipZ]⟩

/-- `p_motion_equa2eclip` is the same rigid rotation applied to the proper-motion vector: the total proper motion
    `sqrt((μ_lon cos β)² + μ_lat²)` equals `sqrt((μ_α cos δ)² + μ_δ²)` (radians per year), whenever the latitude `β`
    passed in is the ecliptical latitude of (α, δ) and is not ±90° (the source divides by `cos β`). -/
theorem proper_motion_total_invariant (μα μδ α δ β ε : ℝ)
    (hβ : sin (rad β) = sin (rad δ) * cos (rad ε) - cos (rad δ) * sin (rad ε) * sin (rad α))
    (hc : cos (rad β) ≠ 0) :
    ∃ μl μb, p_motion_equa2eclip μα μδ α δ β ε = .ok (μl, μb) ∧
      (μl * cos (rad β)) ^ 2 + μb ^ 2 = (rad μα * cos (rad δ)) ^ 2 + (rad μδ) ^ 2 := by
  have k1 := m_div_ok (x := a_rad μδ * (psin (a_rad ε) * pcos (a_rad α)) + a_rad μα * pcos (a_rad δ)
      * (pcos (a_rad ε) * pcos (a_rad δ) + psin (a_rad ε) * psin (a_rad δ) * psin (a_rad α)))
      (y := pcos (a_rad β) * pcos (a_rad β)) (mul_ne_zero hc hc)
  have k2 := m_div_ok (x := a_rad μδ * (pcos (a_rad ε) * pcos (a_rad δ) + psin (a_rad ε) * psin (a_rad δ) * psin (a_rad α))
      - a_rad μα * pcos (a_rad δ) * (psin (a_rad ε) * pcos (a_rad α)))
      (y := pcos (a_rad β)) hc
  unfold p_motion_equa2eclip
  simp only [k1, k2, bind, Except.bind, pure, Except.pure]
  refine ⟨_, _, rfl, ?_⟩
  simp only [psin, pcos, a_rad_eq]
  have hAB : (sin (rad ε) * cos (rad α)) ^ 2
      + (cos (rad ε) * cos (rad δ) + sin (rad ε) * sin (rad δ) * sin (rad α)) ^ 2 = cos (rad β) ^ 2 := by
    linear_combination (-1) * sin_sq_add_cos_sq (rad β)
      + (sin (rad β) + (sin (rad δ) * cos (rad ε) - cos (rad δ) * sin (rad ε) * sin (rad α))) * hβ
      + (cos (rad ε) ^ 2 + sin (rad ε) ^ 2 * sin (rad α) ^ 2) * sin_sq_add_cos_sq (rad δ)
      + sin (rad ε) ^ 2 * sin_sq_add_cos_sq (rad α) + sin_sq_add_cos_sq (rad ε)
  field_simp
  linear_combination ((rad μδ) ^ 2 + (rad μα * cos (rad δ)) ^ 2) * hAB

/-- The hypothesis `hβ` of `proper_motion_total_invariant` is what `equatorial2ecliptical` returns as latitude. -/
example (α δ ε : ℝ) : ∃ lon β, equatorial2ecliptical α δ ε = .ok (lon, β) ∧
    sin (rad β) = sin (rad δ) * cos (rad ε) - cos (rad δ) * sin (rad ε) * sin (rad α) := by
  obtain ⟨lon, lat, h, hd, _, _⟩ := equatorial2ecliptical_spec α δ ε
  refine ⟨lon, lat, h, ?_⟩
  have := congrArg (fun v : V3 => v.2.2) hd
  simp only [dir, rotX] at this
  rw [this]; ring

/-- `mean_obliquity` at J2000.0 is 23°26'21.448". -/
theorem mean_obliquity_j2000 : mean_obliquity 2451545 = 23 + 26 / 60 + 21.448 / 3600 := by
  unfold mean_obliquity
  have h0 : ((2451545 : ℝ) - 2451545.0) / 3652500.0 = 0 := by norm_num
  simp only [h0, zero_mul, a_of_sec_zero]
  unfold a_add
  rw [add_zero, a_reduce_of_lt, a_reduce_of_lt]
  · norm_num
  · rw [abs_lt]; constructor <;> norm_num
  · rw [a_reduce_of_lt] <;> rw [abs_lt] <;> constructor <;> norm_num

/-- `motion_in_space`: the star moves uniformly on a straight line: the direction returned is that of
    `r u + t V`, `V = (v / 977792) u + r μδ north + r μα cos δ east` — the displacement is LINEAR in the elapsed
    time — for every distance `r ≠ 0` as long as the new position is not on the polar axis (the source divides by
    `sqrt(x'² + y'²)`). -/
theorem motion_in_space_is_linear (α δ r v μα μδ t : ℝ) (hr : r ≠ 0)
    (hρ : 0 < (spacePosition α δ r v (rad μα) (rad μδ) t).1 ^ 2 + (spacePosition α δ r v (rad μα) (rad μδ) t).2.1 ^ 2) :
    ∃ ra dec, motion_in_space α δ r v μα μδ t = .ok (ra, dec) ∧
      dir ra dec =
        ((spacePosition α δ r v (rad μα) (rad μδ) t).1 / √(dot (spacePosition α δ r v (rad μα) (rad μδ) t) (spacePosition α δ r v (rad μα) (rad μδ) t)),
         (spacePosition α δ r v (rad μα) (rad μδ) t).2.1 / √(dot (spacePosition α δ r v (rad μα) (rad μδ) t) (spacePosition α δ r v (rad μα) (rad μδ) t)),
         (spacePosition α δ r v (rad μα) (rad μδ) t).2.2 / √(dot (spacePosition α δ r v (rad μα) (rad μδ) t) (spacePosition α δ r v (rad μα) (rad μδ) t))) ∧
      -90 ≤ dec ∧ dec ≤ 90 :=
  motion_in_space_spec α δ r v μα μδ t hr hρ

/-- `orbital_equinox2equinox` (after the fix): nothing is raised, the new inclination lies in [0°, 180°] and obeys the
    spherical cosine rule `cos i' = cos i0 cos η + sin i0 sin η cos(Ω0 − Π)` — retrograde orbits, i0 = 0 and i0 = 90°
    included (η, Π the Angles the source forms from its polynomials). -/
theorem orbital_inclination (e0 e1 i0 arg0 lon0 : ℝ) :
    ∃ i1 arg1 lon1, orbital_equinox2equinox e0 e1 i0 arg0 lon0 = .ok (i1, arg1, lon1) ∧ 0 ≤ i1 ∧ i1 ≤ 180 ∧
      cos (rad i1) =
        cos (rad i0) * cos (rad (a_of_sec (ecl_eta ((e0 - 2451545.0) / 36525.0) ((e1 - e0) / 36525.0))))
        + sin (rad i0) * sin (rad (a_of_sec (ecl_eta ((e0 - 2451545.0) / 36525.0) ((e1 - e0) / 36525.0))))
          * cos (rad lon0 - rad (a_add (a_of_sec (ecl_pie ((e0 - 2451545.0) / 36525.0) ((e1 - e0) / 36525.0))) 174.876384)) := by
  unfold orbital_equinox2equinox
  simp only [pure, Except.pure, psin, pcos, psqrt, a_rad_eq]
  set η := rad (a_of_sec (ecl_eta ((e0 - 2451545.0) / 36525.0) ((e1 - e0) / 36525.0))) with hη
  set Δ := rad lon0 - rad (a_add (a_of_sec (ecl_pie ((e0 - 2451545.0) / 36525.0) ((e1 - e0) / 36525.0))) 174.876384) with hΔ
  set a := sin (rad i0) * sin Δ with ha
  set b := -sin η * cos (rad i0) + cos η * sin (rad i0) * cos Δ with hb
  set c := cos (rad i0) * cos η + sin (rad i0) * sin η * cos Δ with hc
  have hu : a ^ 2 + b ^ 2 + c ^ 2 = 1 := by
    rw [ha, hb, hc]
    linear_combination (cos (rad i0) ^ 2 + sin (rad i0) ^ 2 * cos Δ ^ 2) * sin_sq_add_cos_sq η
      + sin (rad i0) ^ 2 * sin_sq_add_cos_sq Δ + sin_sq_add_cos_sq (rad i0)
  set r := √(a * a + b * b) with hr
  have hr0 : 0 ≤ r := sqrt_nonneg _
  have hr2 : r * r = a * a + b * b := mul_self_sqrt (add_nonneg (mul_self_nonneg a) (mul_self_nonneg b))
  have hn : ‖(⟨c, r⟩ : ℂ)‖ = 1 := by
    rw [Complex.norm_def, Complex.normSq_mk, show c * c + r * r = 1 by nlinarith]; exact sqrt_one
  have hne : (⟨c, r⟩ : ℂ) ≠ 0 := by
    intro h0; rw [h0, norm_zero] at hn; exact zero_ne_one hn
  have h0 : 0 ≤ Complex.arg ⟨c, r⟩ := Complex.arg_nonneg_iff.mpr hr0
  have h1 : Complex.arg ⟨c, r⟩ ≤ π := Complex.arg_le_pi _
  have hab : |patan2 r c| < 2 * π := by
    unfold patan2; rw [abs_lt]; constructor <;> linarith [pi_pos]
  have hb' := a_of_rad_bounds (lo := 0) (hi := 180) hab (by unfold patan2; linarith) (by unfold patan2; linarith [pi_pos])
  refine ⟨_, _, _, rfl, hb'.1, hb'.2, ?_⟩
  rw [cos_rad_of_rad]; unfold patan2
  rw [Complex.cos_arg hne, hn]; simp

/-! ### growth round: clauses that were measured only, and aspects realistic slips hit -/

/-- Proper motion in `precession_ecliptical`: the result with proper motion (μλ, μβ) (degrees per year) is the result
    without proper motion started from (λ*, β*) = (λ + 100 t μλ, β + 100 t μβ) up to whole turns — each coordinate
    displaced by ITS OWN proper motion, linearly in the elapsed time `100 t` years. -/
theorem ecliptical_proper_motion_linear (e0 e1 l b μl μb : ℝ) :
    ∃ ls bs : ℝ, ∃ K L : ℤ,
      ls = l + μl * ((e1 - e0) / 36525.0) * 100 + 360 * K ∧ bs = b + μb * ((e1 - e0) / 36525.0) * 100 + 360 * L ∧
      precession_ecliptical e0 e1 l b μl μb = precession_ecliptical e0 e1 ls bs 0 0 := by
  obtain ⟨K, hK⟩ := pm_shift l μl ((e1 - e0) / 36525.0)
  obtain ⟨L, hL⟩ := pm_shift b μb ((e1 - e0) / 36525.0)
  refine ⟨_, _, K, L, hK, hL, ?_⟩
  rw [precession_ecliptical_eq, precession_ecliptical_eq, pm_zero (abs_a_add_lt _ _), pm_zero (abs_a_add_lt _ _)]

/-- The same for `precession_newcomb` (FK4; `t` in tropical centuries of 36524.2199 days). -/
theorem newcomb_proper_motion_linear (e0 e1 α δ μα μδ : ℝ) :
    ∃ αs δs : ℝ, ∃ K L : ℤ,
      αs = α + μα * ((e1 - e0) / 36524.2199) * 100 + 360 * K ∧ δs = δ + μδ * ((e1 - e0) / 36524.2199) * 100 + 360 * L ∧
      precession_newcomb e0 e1 α δ μα μδ = precession_newcomb e0 e1 αs δs 0 0 := by
  obtain ⟨K, hK⟩ := pm_shift α μα ((e1 - e0) / 36524.2199)
  obtain ⟨L, hL⟩ := pm_shift δ μδ ((e1 - e0) / 36524.2199)
  refine ⟨_, _, K, L, hK, hL, ?_⟩
  rw [precession_newcomb_eq, precession_newcomb_eq, pm_zero (abs_a_add_lt _ _), pm_zero (abs_a_add_lt _ _)]

/-- A proper motion in latitude only moves the latitude: with μλ = 0 the starting longitude is unchanged
    (an Angle, |λ| < 360) — a model that fed the longitude's proper motion into the latitude, or vice versa, fails this. -/
theorem ecliptical_proper_motion_separate (e0 e1 l b μb : ℝ) (hl : |l| < 360) :
    ∃ bs : ℝ, ∃ L : ℤ, bs = b + μb * ((e1 - e0) / 36525.0) * 100 + 360 * L ∧
      precession_ecliptical e0 e1 l b 0 μb = precession_ecliptical e0 e1 l bs 0 0 := by
  obtain ⟨L, hL⟩ := pm_shift b μb ((e1 - e0) / 36525.0)
  refine ⟨_, L, hL, ?_⟩
  rw [precession_ecliptical_eq, precession_ecliptical_eq, pm_zero hl, pm_zero (abs_a_add_lt _ _)]

example : ∃ bs : ℝ, ∃ L : ℤ, bs = 1.76549 + 0.002 * ((2469807.5 - 2451545) / 36525.0) * 100 + 360 * L ∧
    precession_ecliptical 2451545 2469807.5 149.48194 1.76549 0 0.002
      = precession_ecliptical 2451545 2469807.5 149.48194 bs 0 0 :=
  ecliptical_proper_motion_separate 2451545 2469807.5 149.48194 1.76549 0.002 (by rw [abs_lt]; constructor <;> norm_num)

/-- `mean_obliquity` within 10000 years of J2000 IS Laskar's polynomial, term by term with its signs (Meeus 22.3):
    ε0 = 23°26'21.448" − 4680.93"U − 1.55"U² + 1999.25"U³ − 51.38"U⁴ − 249.67"U⁵ − 39.05"U⁶ + 7.12"U⁷ + 27.87"U⁸
    + 5.79"U⁹ + 2.45"U¹⁰, U = (JDE − 2451545) / 3652500; the Angle arithmetic of the source (sexagesimal reduction,
    `+=`) removes nothing in that range. -/
theorem mean_obliquity_laskar (jde : ℝ) (h : |jde - 2451545| ≤ 3652500) :
    mean_obliquity jde = 23 + 26 / 60 + 21.448 / 3600 + laskar ((jde - 2451545) / 3652500) / 3600 :=
  mean_obliquity_spec jde h

example : |(2488070 : ℝ) - 2451545| ≤ 3652500 := by rw [abs_le]; constructor <;> norm_num

/-- "reducing orbital elements to another equinox": the orbit PLANE is carried exactly like a direction by
    `precession_ecliptical`: the unit normal of the new orbit (node `lon1`, inclination `i1`) is the ecliptical
    precession rotation (the one of `ecliptical_is_rotation`) applied to the unit normal of the old orbit — for every
    inclination 0..180° and every pair of epochs; nothing is raised.
    (The perihelion direction: `orbital_perihelion_precesses` below.  Not proved: the numerical there-and-back, which
    compares two truncated series.) -/
theorem orbital_pole_precesses (e0 e1 i0 arg0 lon0 : ℝ) :
    ∃ i1 arg1 lon1, orbital_equinox2equinox e0 e1 i0 arg0 lon0 = .ok (i1, arg1, lon1) ∧
      orbitPole lon1 i1 =
        flipZ (rad (a_of_sec (ecl_p ((e0 - 2451545.0) / 36525.0) ((e1 - e0) / 36525.0)))
               + rad (a_add (a_of_sec (ecl_pie ((e0 - 2451545.0) / 36525.0) ((e1 - e0) / 36525.0))) 174.876384))
          (rotX (-(rad (a_of_sec (ecl_eta ((e0 - 2451545.0) / 36525.0) ((e1 - e0) / 36525.0)))))
            (flipZ (rad (a_add (a_of_sec (ecl_pie ((e0 - 2451545.0) / 36525.0) ((e1 - e0) / 36525.0))) 174.876384))
              (orbitPole lon0 i0))) :=
  orbital_pole_spec e0 e1 i0 arg0 lon0

/-- … and so is the PERIHELION direction (node `lon1`, inclination `i1`, argument `arg1`), whenever the new
    inclination is not 0° or 180° (`sin i1 ≠ 0`; there the node is undetermined and the source's `atan2(0, 0)` picks
    one — the corner listed in findings.d/C06.json).  With `orbital_pole_precesses` this says: the whole orientation
    of the orbit (plane and apsidal line) is carried by the same rotation as any ecliptical direction, so the three
    new elements describe the same orbit in the new frame — exactly, for every inclination in (0°, 180°). -/
theorem orbital_perihelion_precesses (e0 e1 i0 arg0 lon0 i1 arg1 lon1 : ℝ)
    (h : orbital_equinox2equinox e0 e1 i0 arg0 lon0 = .ok (i1, arg1, lon1)) (hi : sin (rad i1) ≠ 0) :
    orbitPeri lon1 i1 arg1 =
      flipZ (rad (a_of_sec (ecl_p ((e0 - 2451545.0) / 36525.0) ((e1 - e0) / 36525.0)))
             + rad (a_add (a_of_sec (ecl_pie ((e0 - 2451545.0) / 36525.0) ((e1 - e0) / 36525.0))) 174.876384))
        (rotX (-(rad (a_of_sec (ecl_eta ((e0 - 2451545.0) / 36525.0) ((e1 - e0) / 36525.0)))))
          (flipZ (rad (a_add (a_of_sec (ecl_pie ((e0 - 2451545.0) / 36525.0) ((e1 - e0) / 36525.0))) 174.876384))
            (orbitPeri lon0 i0 arg0))) :=
  orbital_peri_spec e0 e1 i0 arg0 lon0 i1 arg1 lon1 h hi

/-- The hypothesis `sin i1 ≠ 0` is satisfiable: an inclination of 47.122° can only change by |η| (see `orbital_inclination`),
    here shown in the weaker form that SOME result exists with the cosine rule; e.g. for a zero interval i1 = i0. -/
example : ∃ i1 arg1 lon1, orbital_equinox2equinox 2451545 2451545 47.122 151.4486 45.7481 = .ok (i1, arg1, lon1) ∧
    cos (rad i1) = cos (rad 47.122) := by
  obtain ⟨i1, arg1, lon1, h, _, _, hc⟩ := orbital_inclination 2451545 2451545 47.122 151.4486 45.7481
  refine ⟨i1, arg1, lon1, h, ?_⟩
  have ht : ((2451545 : ℝ) - 2451545) / 36525.0 = 0 := by norm_num
  obtain ⟨z1, _⟩ := ecl_zero (((2451545 : ℝ) - 2451545.0) / 36525.0)
  rw [hc, ht, z1, a_of_sec_zero]
  have r0 : rad 0 = 0 := by unfold rad; ring
  rw [r0]; simp

end Pymeeus.C06
