import Pymeeus.Gen.Q.EpochCal
import Pymeeus.Refine.Calendar
namespace Pymeeus.C16
open Pymeeus Pymeeus.PQ Pymeeus.GenQ

/-- placeholder anchor: "dow of 2000-01-01 = 6" -/
theorem dow_anchor_2000 : dow (compute_jde 2000 1 1) = 6 := by decide +kernel

end Pymeeus.C16
