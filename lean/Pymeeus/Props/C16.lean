import Pymeeus.Refine.Weekday
import Pymeeus.Refine.Sidereal
import Pymeeus.Props.C01
import Pymeeus.Refine.SiderealIAU
import Pymeeus.Refine.SiderealRate
import Pymeeus.Refine.SiderealApparent
import Pymeeus.Refine.SiderealApparentPast
/-
C16 — Weekday, day of year, fractional year and sidereal time follow the JDE.

Property theorems only (helpers in Refine/{EpochCal,DayOfYear,Ordinal,DoyInverse,Instant,YearOrder,Weekday,
Sidereal}.lean, specs in Spec/Civil.lean and Spec/Weekday.lean).  They are statements about `Pymeeus.GenQ`, the
exact-arithmetic instantiation of templates/EpochCal.lean: for EVERY rational JDE, every integer year ≥ -4712
(up to 9999 where the code goes through CPython's datetime, which stops there), every day fraction 0 ≤ f < 1.
An instant of the civil date (y, m, d) is `compute_jde y m (d + f)`.

The sidereal-time clauses that need real analysis (apparent sidereal time: cosine, nutation series) are stated about
`Pymeeus.GenR`, the real-number instantiation of THE SAME template text (templates/EpochCal.lean, kinds Q R F), with the
nutation / obliquity model and amplitude lemmas of C08 (templates/Vsop.lean, SunEarth.lean; Refine/SunEarth.lean).
The 1.2 s bound on the equation of the equinoxes is proved where a sum-of-amplitudes bound can reach it (years 0 … 2500);
on the rest of |T| ≤ 40 centuries the provable constant is 1.345 s, and beyond T ≈ +40.9 the clause fails on the real code
(finding C16-eqeq-far-future); in between it is covered by the predicates of harness/c16.py only.
-/
namespace Pymeeus.C16
open Pymeeus Pymeeus.PQ Pymeeus.GenQ Pymeeus.Refine Pymeeus.Spec

/-- Quantifier of the theorems below: "an instant of a civil date" `compute_jde y m (d + f)` ranges over EVERY JDE
    from -0.5 on (the whole domain of the Epoch class): each such JDE is date + day fraction (by C01's bijection). -/
theorem every_jde_is_an_instant (j : ℚ) (hj : -1 / 2 ≤ j) :
    ∃ y m d : Int, ∃ f : ℚ, Valid y m d ∧ 0 ≤ f ∧ f < 1 ∧ j = compute_jde y m ((d : ℚ) + f) := by
  have hn : 0 ≤ ⌊j + 1 / 2⌋ := by
    rw [Int.floor_nonneg]; linarith
  obtain ⟨y, m, d, hv, hc⟩ := C01.surjective ⌊j + 1 / 2⌋.toNat
  refine ⟨y, m, d, Int.fract (j + 1 / 2), hv, Int.fract_nonneg _, Int.fract_lt_one _, ?_⟩
  rw [compute_jde_frac y m d _ (Int.fract_nonneg _) (Int.fract_lt_one _) hv]
  rw [compute_jde_int y m d hv] at hc
  have e : ((⌊j + 1 / 2⌋.toNat : Nat) : ℚ) = ((⌊j + 1 / 2⌋ : Int) : ℚ) := by
    have : ((⌊j + 1 / 2⌋.toNat : Nat) : Int) = ⌊j + 1 / 2⌋ := Int.toNat_of_nonneg hn
    exact_mod_cast this
  rw [e] at hc
  have hfr : (⌊j + 1 / 2⌋ : ℚ) + Int.fract (j + 1 / 2) = j + 1 / 2 := Int.floor_add_fract _
  linarith


/-- "building an Epoch … and reading the date back returns exactly that date" at ANY time of day: date + day fraction
    `0 ≤ f < 1` reads back as the same date and the same fraction (the century step of `get_date` is taken on the
    integer day number, not on the instant). -/
theorem roundtrip_instant (y m d : Int) (f : ℚ) (h : Valid y m d) (hf0 : 0 ≤ f) (hf1 : f < 1) :
    get_date (compute_jde y m ((d : ℚ) + f)) = .ok (y, m, (d : ℚ) + f) := by
  rw [compute_jde_frac y m d f hf0 hf1 h]
  exact get_date_valid y m d f h hf0 hf1

/-- `get_date` is total on the documented domain and always returns a date of the civil calendar: for EVERY rational
    JDE ≥ −0.5 it returns a valid civil date plus a day fraction in [0, 1), and that date-time builds the same JDE. -/
theorem get_date_total (j : ℚ) (hj : -1 / 2 ≤ j) :
    ∃ y m d : Int, ∃ f : ℚ, Valid y m d ∧ 0 ≤ f ∧ f < 1 ∧ get_date j = .ok (y, m, (d : ℚ) + f) ∧
      compute_jde y m ((d : ℚ) + f) = j := by
  have hn : 0 ≤ ⌊j + 1 / 2⌋ := by rw [Int.floor_nonneg]; linarith
  obtain ⟨y, m, d, hv, hc⟩ := C01.surjective ⌊j + 1 / 2⌋.toNat
  have hf0 := Int.fract_nonneg (j + 1 / 2)
  have hf1 := Int.fract_lt_one (j + 1 / 2)
  have hj' : compute_jde y m ((d : ℚ) + Int.fract (j + 1 / 2)) = j := by
    rw [compute_jde_frac y m d _ hf0 hf1 hv]
    rw [compute_jde_int y m d hv] at hc
    have e : ((⌊j + 1 / 2⌋.toNat : Nat) : ℚ) = ((⌊j + 1 / 2⌋ : Int) : ℚ) := by
      have : ((⌊j + 1 / 2⌋.toNat : Nat) : Int) = ⌊j + 1 / 2⌋ := Int.toNat_of_nonneg hn
      exact_mod_cast this
    rw [e] at hc
    have hfr : (⌊j + 1 / 2⌋ : ℚ) + Int.fract (j + 1 / 2) = j + 1 / 2 := Int.floor_add_fract _
    linarith
  refine ⟨y, m, d, Int.fract (j + 1 / 2), hv, hf0, hf1, ?_, hj'⟩
  have := roundtrip_instant y m d _ hv hf0 hf1
  rwa [hj'] at this

/-! ### Weekday -/

/-- "Day of week equals floor(JDE + 1.5) mod 7 with 0 = Sunday" — for every rational JDE. -/
theorem dow_formula (j : ℚ) : dow j = ⌊j + 3 / 2⌋ % 7 := dow_eq j

/-- the result is one of 0..6 -/
theorem dow_range (j : ℚ) : 0 ≤ dow j ∧ dow j < 7 := by
  rw [dow_formula]; omega

/-- "constant over a civil day": every instant of the civil day number `n` (0h ≤ … < 24h). -/
theorem dow_constant_on_civil_day (n : Int) (j : ℚ) (h0 : (n : ℚ) - 1 / 2 ≤ j) (h1 : j < (n : ℚ) + 1 / 2) :
    dow j = (n + 1) % 7 := by
  rw [dow_formula]
  have : ⌊j + 3 / 2⌋ = n + 1 := by
    rw [Int.floor_eq_iff]; push_cast; constructor <;> linarith
  rw [this]

/-- the weekday of an instant of a civil date does not depend on the time of day -/
theorem dow_of_date (y m d : Int) (f : ℚ) (hv : Valid y m d) (hf0 : 0 ≤ f) (hf1 : f < 1) :
    dow (compute_jde y m ((d : ℚ) + f)) = (jdnI y m d + 1) % 7 := by
  rw [compute_jde_frac y m d f hf0 hf1 hv]
  apply dow_constant_on_civil_day <;> linarith

/-- General form for ANY triple (civil date or not): the weekday is that of the day number `jdnP` the
    code assigns (= `jdnI` for every civil date, `jdnP_valid`; 5..14 October 1582 are read as Julian dates). -/
theorem dow_of_any_triple (y m d : Int) (f : ℚ) (hf0 : 0 ≤ f) (hf1 : f < 1) :
    dow (compute_jde y m ((d : ℚ) + f)) = (jdnP y m d + 1) % 7 := by
  rw [compute_jde_frac_gen y m d f hf0 hf1]
  apply dow_constant_on_civil_day <;> linarith

/-- "advancing by one each day" -/
theorem dow_next_day (j : ℚ) : dow (j + 1) = (dow j + 1) % 7 := by
  rw [dow_formula, dow_formula]
  have : ⌊j + 1 + 3 / 2⌋ = ⌊j + 3 / 2⌋ + 1 := by
    rw [show j + 1 + 3 / 2 = j + 3 / 2 + ((1 : Int) : ℚ) by push_cast; ring, Int.floor_add_intCast]
  rw [this]; omega

/-- the day after a civil date (incl. 4 -> 15 October 1582) is the next weekday -/
theorem dow_next_civil_date (y m d : Int) (h : Valid y m d) :
    dow (compute_jde (next y m d).1 (next y m d).2.1 (ofInt (next y m d).2.2)) = (dow (compute_jde y m (ofInt d)) + 1) % 7 := by
  rw [compute_jde_int _ _ _ (next_valid y m d h), compute_jde_int y m d h, consecutive_int y m d h, ← dow_next_day]
  congr 1; push_cast; ring

/-- 2000-01-01 was a Saturday -/
theorem dow_anchor_2000 : dow (compute_jde 2000 1 1) = 6 ∧ dow_str (compute_jde 2000 1 1) = "Saturday" := by
  decide +kernel

/-- "equal to the proleptic Gregorian weekday after 1582": for every civil date from 15 October 1582 on and every
    time of day, `dow` is Zeller's Gregorian weekday (Spec/Weekday.lean). -/
theorem dow_gregorian (y m d : Int) (f : ℚ) (h : Valid y m d) (hf0 : 0 ≤ f) (hf1 : f < 1)
    (hg : 1582 < y ∨ (y = 1582 ∧ (10 < m ∨ (m = 10 ∧ 15 ≤ d)))) :
    dow (compute_jde y m ((d : ℚ) + f)) = weekdayGregorian y m d := by
  obtain ⟨hy0, hm1, hm12, hd1, hdl, hgap⟩ := id h
  rw [dow_of_date y m d f h hf0 hf1]
  apply jdnI_weekday y m d hm1 hm12
  rw [Bool.eq_false_iff, Ne, isJulianI_iff]
  split_ifs <;> omega

/-! ### Day of year -/

/-- "Day of year equals the JDE difference to 1 January of the same year plus one in both calendars":
    every valid civil date of either calendar, every time of day. -/
theorem doy_is_jde_difference (y m d : Int) (f : ℚ) (h : Valid y m d) (hy : y ≤ 9999) (hf0 : 0 ≤ f) (hf1 : f < 1) :
    get_doy y m ((d : ℚ) + f) = .ok (compute_jde y m ((d : ℚ) + f) - compute_jde y 1 1 + 1) := by
  rw [get_doy_int y m d f h hy hf0 hf1, compute_jde_frac y m d f hf0 hf1 h, doyI_eq y m d h]
  have := compute_jde_int y 1 1 (valid_jan1 y h.1)
  simp only [ofInt] at this
  rw [show (1 : ℚ) = ((1 : Int) : ℚ) by norm_num, this]
  congr 1; push_cast; ring

/-- the same through the method `Epoch.doy()` (date read back from the JDE first) -/
theorem doy_method (y m d : Int) (f : ℚ) (h : Valid y m d) (hy : y ≤ 9999) (hf0 : 0 ≤ f) (hf1 : f < 1) :
    doy (compute_jde y m ((d : ℚ) + f)) = .ok (compute_jde y m ((d : ℚ) + f) - compute_jde y 1 1 + 1) := by
  unfold doy
  rw [compute_jde_frac y m d f hf0 hf1 h, get_date_valid y m d f h hf0 hf1]
  simp only
  rw [← compute_jde_frac y m d f hf0 hf1 h]
  exact doy_is_jde_difference y m d f h hy hf0 hf1

/-- "(365 or 366 on 31 December according to the calendar's leap rule)" — and 355 in 1582, the year that lost
    ten days (the JDE-difference clause decides there). -/
theorem doy_dec31 (y : Int) (hy0 : -4712 ≤ y) (hy : y ≤ 9999) :
    get_doy y 12 31 = .ok (if y = 1582 then 355 else if Spec.leap y then 366 else 365) := by
  have := get_doy_int y 12 31 0 (valid_dec31 y hy0) hy (le_refl 0) (by norm_num)
  simp only [add_zero] at this
  rw [show (31 : ℚ) = ((31 : Int) : ℚ) by norm_num, this, doyI_dec31]
  unfold yearLen
  split_ifs <;> norm_num

/-- "day-of-year -> date inverts date -> day-of-year" -/
theorem doy_inverse (y m d : Int) (f v : ℚ) (h : Valid y m d) (hy : y ≤ 9999) (hf0 : 0 ≤ f) (hf1 : f < 1)
    (hv : get_doy y m ((d : ℚ) + f) = .ok v) : doy2date y v = .ok (y, m, (d : ℚ) + f) := by
  rw [get_doy_int y m d f h hy hf0 hf1] at hv
  simp only [Except.ok.injEq] at hv
  rw [← hv]
  exact doy2date_doyI y m d f h hy hf0 hf1

/-- `Epoch.leap()` is the leap rule of the calendar in force -/
theorem leap_method (y m d : Int) (f : ℚ) (h : Valid y m d) (hf0 : 0 ≤ f) (hf1 : f < 1) :
    GenQ.leap (compute_jde y m ((d : ℚ) + f)) = .ok (Spec.leap y) := by
  unfold GenQ.leap
  rw [compute_jde_frac y m d f hf0 hf1 h, get_date_valid y m d f h hf0 hf1]
  simp only [is_leap_spec]

/-! ### Fractional year -/

/-- closed form: calendar year + elapsed days since 1 January 0h / (365 or 366) -/
theorem year_value (y m d : Int) (f : ℚ) (h : Valid y m d) (hy : y ≤ 9999) (hf0 : 0 ≤ f) (hf1 : f < 1) :
    year (compute_jde y m ((d : ℚ) + f)) =
      .ok ((y : ℚ) + (compute_jde y m ((d : ℚ) + f) - compute_jde y 1 1) / (if Spec.leap y then 366 else 365)) := by
  rw [compute_jde_frac y m d f hf0 hf1 h, year_valid y m d f h hy hf0 hf1]
  have := compute_jde_int y 1 1 (valid_jan1 y h.1)
  simp only [ofInt] at this
  rw [show (1 : ℚ) = ((1 : Int) : ℚ) by norm_num, this]
  congr 3; push_cast; ring

/-- "with integer part equal to the calendar year" -/
theorem year_floor (y m d : Int) (f : ℚ) (h : Valid y m d) (hy : y ≤ 9999) (hf0 : 0 ≤ f) (hf1 : f < 1) :
    ∃ v, year (compute_jde y m ((d : ℚ) + f)) = .ok v ∧ ⌊v⌋ = y := by
  refine ⟨_, by rw [compute_jde_frac y m d f hf0 hf1 h]; exact year_valid y m d f h hy hf0 hf1, ?_⟩
  obtain ⟨a, b⟩ := jdnI_in_year y m d h
  have c := leap_le_yearLen y
  have hN : (0 : ℚ) < (if Spec.leap y then 366 else 365) := by split_ifs <;> norm_num
  have hlt : (((jdnI y m d - jdnI y 1 1 : Int) : ℚ) + f) < (if Spec.leap y then 366 else 365) := by
    have : jdnI y m d - jdnI y 1 1 + 1 ≤ (if Spec.leap y then 366 else 365 : Int) := by omega
    have q : (((jdnI y m d - jdnI y 1 1 + 1 : Int)) : ℚ) ≤ (((if Spec.leap y then 366 else 365 : Int)) : ℚ) := by exact_mod_cast this
    push_cast at q
    split_ifs at q ⊢ <;> push_cast at q ⊢ <;> linarith
  have hge : (0 : ℚ) ≤ (((jdnI y m d - jdnI y 1 1 : Int) : ℚ) + f) := by
    have : (0 : ℚ) ≤ ((jdnI y m d - jdnI y 1 1 : Int) : ℚ) := by exact_mod_cast (by omega : 0 ≤ jdnI y m d - jdnI y 1 1)
    linarith
  rw [Int.floor_eq_iff]
  constructor
  · have := div_nonneg hge hN.le; linarith
  · have := (div_lt_one hN).mpr hlt; linarith

/-- "the fractional year is strictly increasing in JDE": any two instants (civil date + time of day), in either
    calendar and across years. -/
theorem year_strictly_increasing (y1 m1 d1 y2 m2 d2 : Int) (f1 f2 : ℚ) (h1 : Valid y1 m1 d1) (h2 : Valid y2 m2 d2)
    (hy1 : y1 ≤ 9999) (hy2 : y2 ≤ 9999) (hf10 : 0 ≤ f1) (hf11 : f1 < 1) (hf20 : 0 ≤ f2) (hf21 : f2 < 1)
    (hlt : compute_jde y1 m1 ((d1 : ℚ) + f1) < compute_jde y2 m2 ((d2 : ℚ) + f2)) :
    ∃ v1 v2, year (compute_jde y1 m1 ((d1 : ℚ) + f1)) = .ok v1 ∧ year (compute_jde y2 m2 ((d2 : ℚ) + f2)) = .ok v2 ∧
      v1 < v2 := by
  obtain ⟨v1, e1, fl1⟩ := year_floor y1 m1 d1 f1 h1 hy1 hf10 hf11
  obtain ⟨v2, e2, fl2⟩ := year_floor y2 m2 d2 f2 h2 hy2 hf20 hf21
  refine ⟨v1, v2, e1, e2, ?_⟩
  rcases lt_trichotomy y1 y2 with hy | hy | hy
  · -- a later calendar year: compare the integer parts
    have a : v1 < (y1 : ℚ) + 1 := by rw [← fl1]; exact Int.lt_floor_add_one v1
    have b : (y2 : ℚ) ≤ v2 := by rw [← fl2]; exact Int.floor_le v2
    have c : (y1 : ℚ) + 1 ≤ (y2 : ℚ) := by exact_mod_cast hy
    linarith
  · -- the same year: same origin and same divisor
    subst hy
    rw [year_value y1 m1 d1 f1 h1 hy1 hf10 hf11] at e1
    rw [year_value y1 m2 d2 f2 h2 hy2 hf20 hf21] at e2
    simp only [Except.ok.injEq] at e1 e2
    rw [← e1, ← e2]
    have hN : (0 : ℚ) < (if Spec.leap y1 then 366 else 365) := by split_ifs <;> norm_num
    have := div_lt_div_of_pos_right (sub_lt_sub_right hlt (compute_jde y1 1 1)) hN
    linarith
  · -- an earlier calendar year would have a smaller day number
    exfalso
    have := jdnI_lt_of_year_lt y2 m2 d2 y1 m1 d1 h2 h1 hy
    rw [compute_jde_frac y1 m1 d1 f1 hf10 hf11 h1, compute_jde_frac y2 m2 d2 f2 hf20 hf21 h2] at hlt
    have q : ((jdnI y2 m2 d2 : Int) : ℚ) + 1 ≤ ((jdnI y1 m1 d1 : Int) : ℚ) := by exact_mod_cast this
    linarith

/-- an instant before 10000-01-01 0h (JDE 5373484.5) has a calendar year ≤ 9999 -/
theorem year_le_9999_of_jde (y m d : Int) (f : ℚ) (h : Valid y m d) (hf0 : 0 ≤ f) (hf1 : f < 1)
    (hj : compute_jde y m ((d : ℚ) + f) < 5373484.5) : y ≤ 9999 := by
  by_contra hy
  have hy' : 10000 ≤ y := by omega
  have h0 : jdnI 10000 1 1 = 5373485 := by decide +kernel
  have h1 : jdnI 10000 1 1 ≤ jdnI y m d := by
    rcases eq_or_lt_of_le hy' with he | hl
    · subst he; exact (jdnI_in_year 10000 m d h).1
    · exact le_of_lt (jdnI_lt_of_year_lt 10000 1 1 y m d (valid_jan1 10000 (by omega)) h hl)
  rw [compute_jde_frac y m d f hf0 hf1 h] at hj
  have : (5373485 : ℚ) ≤ (jdnI y m d : ℚ) := by exact_mod_cast (by omega : (5373485 : Int) ≤ jdnI y m d)
  norm_num at hj
  linarith

/-- "the fractional year is strictly increasing in JDE with integer part equal to the calendar year", in the property's own
    quantifier: ANY two rational JDEs −0.5 ≤ j₁ < j₂ < 5373484.5 (10000-01-01, where CPython's datetime stops) -/
theorem year_strictly_increasing_in_jde (j1 j2 : ℚ) (h0 : -1 / 2 ≤ j1) (hlt : j1 < j2) (hmax : j2 < 5373484.5) :
    ∃ v1 v2, year j1 = .ok v1 ∧ year j2 = .ok v2 ∧ v1 < v2 := by
  obtain ⟨y1, m1, d1, f1, hv1, a1, b1, e1⟩ := every_jde_is_an_instant j1 h0
  obtain ⟨y2, m2, d2, f2, hv2, a2, b2, e2⟩ := every_jde_is_an_instant j2 (by linarith)
  have hy2 := year_le_9999_of_jde y2 m2 d2 f2 hv2 a2 b2 (by rw [← e2]; exact hmax)
  have hy1 := year_le_9999_of_jde y1 m1 d1 f1 hv1 a1 b1 (by rw [← e1]; linarith)
  rw [e1, e2]
  exact year_strictly_increasing y1 m1 d1 y2 m2 d2 f1 f2 hv1 hv2 hy1 hy2 a1 b1 a2 b2 (by rw [← e1, ← e2]; exact hlt)

/-- … and the integer part is the year `get_date` returns, for every such JDE -/
theorem year_floor_is_calendar_year (j : ℚ) (h0 : -1 / 2 ≤ j) (hmax : j < 5373484.5) :
    ∃ (y m : Int) (d v : ℚ), get_date j = .ok (y, m, d) ∧ year j = .ok v ∧ ⌊v⌋ = y := by
  obtain ⟨y, m, d, f, hv, a, b, e⟩ := every_jde_is_an_instant j h0
  have hy := year_le_9999_of_jde y m d f hv a b (by rw [← e]; exact hmax)
  obtain ⟨v, hv1, hv2⟩ := year_floor y m d f hv hy a b
  refine ⟨y, m, (d : ℚ) + f, v, ?_, by rw [e]; exact hv1, hv2⟩
  rw [e]; exact roundtrip_instant y m d f hv a b

/-- "Day of year equals the JDE difference to 1 January of the same year plus one", in the property's own quantifier:
    for EVERY rational JDE in [−0.5, 5373484.5), `doy()` is the JDE minus the JDE of 1 January 0h of the year `get_date`
    returns, plus one -/
theorem doy_of_any_jde (j : ℚ) (h0 : -1 / 2 ≤ j) (hmax : j < 5373484.5) :
    ∃ (y m : Int) (d : ℚ), get_date j = .ok (y, m, d) ∧ doy j = .ok (j - compute_jde y 1 1 + 1) := by
  obtain ⟨y, m, d, f, hv, a, b, hg, e⟩ := get_date_total j h0
  have hy := year_le_9999_of_jde y m d f hv a b (by rw [e]; exact hmax)
  refine ⟨y, m, (d : ℚ) + f, hg, ?_⟩
  have := doy_method y m d f hv hy a b
  rwa [e] at this

/-! ### Sidereal time -/

/-- "Mean sidereal time lies in [0, 1)" — for every rational JDE. -/
theorem gmst_range (j : ℚ) : 0 ≤ mean_sidereal_time j ∧ mean_sidereal_time j < 1 := by
  rw [mean_sidereal_time_eq]
  split_ifs <;> exact ⟨Int.fract_nonneg _, Int.fract_lt_one _⟩

/-- Why `mean_sidereal_time < 1` survives binary64: the value is `x % 1` for an operand `x ≥ 0.27`, so the case in which
    Python's float `%` returns exactly 1.0 (a tiny negative operand) cannot arise — for every JDE ≥ 0 (any rational JDE). -/
theorem gmst_operand_at_least_027 (j : ℚ) :
    ∃ x : ℚ, (0.27 : ℚ) ≤ x ∧ mean_sidereal_time j = Int.fract x := by
  rw [mean_sidereal_time_eq]
  have h := theta0_ge (ut0 j)
  have hd := (ut0_le j).1
  split_ifs
  · exact ⟨_, h, rfl⟩
  · refine ⟨_, ?_, rfl⟩
    have : 0 ≤ (j - ut0 j) * 1.00273790935 := mul_nonneg (by linarith) (by norm_num)
    linarith

/-- "advances by 1.00273790935 turns per day": two instants of the same UT day (both at least 1e-10 day after
    its 0h, the code's threshold for "at 0h") differ by 1.00273790935 x elapsed days, up to whole turns. -/
theorem gmst_rate (j1 j2 : ℚ) (hday : ⌊j1 - 1 / 2⌋ = ⌊j2 - 1 / 2⌋)
    (h1 : (1e-10 : ℚ) ≤ j1 - ut0 j1) (h2 : (1e-10 : ℚ) ≤ j2 - ut0 j2) :
    ∃ k : Int, mean_sidereal_time j2 - mean_sidereal_time j1 = 1.00273790935 * (j2 - j1) + k := by
  have hu : ut0 j1 = ut0 j2 := by unfold ut0; rw [hday]
  rw [mean_sidereal_time_eq, mean_sidereal_time_eq]
  have n1 : ¬ |j1 - ut0 j1| < 1e-10 := by rw [abs_of_nonneg (by linarith [(by norm_num : (0:ℚ) ≤ 1e-10)])]; linarith
  have n2 : ¬ |j2 - ut0 j2| < 1e-10 := by rw [abs_of_nonneg (by linarith [(by norm_num : (0:ℚ) ≤ 1e-10)])]; linarith
  rw [hu] at n1 ⊢
  simp only [n1, n2, if_false]
  refine ⟨⌊theta0 (ut0 j2) + (j1 - ut0 j2) * 1.00273790935⌋ - ⌊theta0 (ut0 j2) + (j2 - ut0 j2) * 1.00273790935⌋, ?_⟩
  unfold Int.fract
  push_cast
  ring

/-- "advances by 1.00273790935 turns per day" for ANY two instants of the stated range that lie in the same or in
    consecutive UT days (so for every pair at most one day apart): modulo whole turns the difference is 1.00273790935 x the
    elapsed days to 1e-8 day — exact up to the 0h shortcut inside a UT day, and the 0h polynomial itself advances by
    0.00273790935 turn per day to 4.9e-9 over |T| ≤ 81 centuries. -/
theorem gmst_rate_up_to_one_day (j1 j2 : ℚ) (h0 : 0 ≤ j1) (h1 : j2 ≤ 5400000)
    (hday : ⌊j2 - 1 / 2⌋ = ⌊j1 - 1 / 2⌋ ∨ ⌊j2 - 1 / 2⌋ = ⌊j1 - 1 / 2⌋ + 1) :
    ∃ k : Int, |mean_sidereal_time j2 - mean_sidereal_time j1 - 1.00273790935 * (j2 - j1) - (k : ℚ)| ≤ 1e-8 := by
  rcases hday with h | h
  · obtain ⟨k, hk⟩ := gmst_rate_same_day j1 j2 h
    exact ⟨k, hk.trans (by norm_num)⟩
  · exact gmst_rate_next_day j1 j2 h0 h1 h

/-- at 0h UT the value is the 0h polynomial of the code (6h 41m 50.54841s + 8640184.812866 T + 0.093104 T² − 6.2e-6 T³
    seconds, reduced to a day) -/
theorem gmst_at_0h (n : Int) :
    mean_sidereal_time ((n : ℚ) + 1 / 2) = Int.fract (theta0 ((n : ℚ) + 1 / 2)) := by
  have hu : ut0 ((n : ℚ) + 1 / 2) = (n : ℚ) + 1 / 2 := by
    unfold ut0; rw [show (n : ℚ) + 1 / 2 - 1 / 2 = (n : ℚ) by ring, Int.floor_intCast]
  rw [mean_sidereal_time_eq, hu]
  simp


/-- "agrees with the IAU 1982 expression to 1e-7 day": for EVERY rational JDE of the stated range [0, 5.4e6], modulo whole
    turns, against Meeus (12.4) / IAU 1982 written for the instant itself (Spec/GMST.lean).  The difference is a
    polynomial in (centuries to 0h UT, fraction of the UT day) with ten tiny coefficients; the bound proved is 4.3e-8. -/
theorem gmst_iau1982 (j : ℚ) (h0 : 0 ≤ j) (h1 : j ≤ 5400000) :
    ∃ k : Int, |mean_sidereal_time j - Spec.gmstIAU1982 j - (k : ℚ)| ≤ 1e-7 := by
  obtain ⟨k, hk⟩ := gmst_vs_iau1982_core j h0 h1
  exact ⟨k, hk.trans (by norm_num)⟩

/-! ### Apparent sidereal time (real-number instantiation `GenR` of the same model text) -/

/-- "apparent sidereal time differs from it by the equation of the equinoxes": for every JDE, every obliquity ε (degrees)
    and nutation in longitude Δψ (degrees) handed to the method, apparent − mean = Δψ·3600·cos ε / 15 / 86400 day, exactly
    (the code does not reduce the sum to [0, 1)). -/
theorem apparent_is_mean_plus_equation_of_equinoxes (j ε ψ : ℝ) :
    GenR.apparent_sidereal_time j ε ψ - GenR.mean_sidereal_time j = ψ * 3600 * Real.cos (ε * (Real.pi / 180)) / 15 / 86400 := by
  rw [SiderealApparent.apparent_eq]; ring

/-- the size of the equation of the equinoxes with the library's nutation series, whatever obliquity is passed, for
    |T| ≤ 40 centuries (years −2000 … 6000): at most 1.345 s — the constant a sum-of-amplitudes bound gives
    ((17.1996 + 0.01742·40 + 2.232 + 0.00081·40)″ / 15); it does NOT reach the property's 1.2 s. -/
theorem apparent_minus_mean_bound_partial (j ε : ℝ) (h : |(j - 2451545) / 36525| ≤ 40) :
    |GenR.apparent_sidereal_time j ε (GenR.Helio.nutation_longitude j) - GenR.mean_sidereal_time j| ≤ 1.345 / 86400 :=
  SiderealApparent.apparent_minus_mean_le j ε h

/-- "(under 1.2 s)": with the library's own true obliquity and nutation in longitude, for every instant from 20 centuries
    before to 5 centuries after J2000.0 (JDE 1721045 … 2634170).  PARTIAL in the range: the property states [0, 5.4e6]; the
    clause is false of the code beyond JDE ≈ 3.9e6 (known finding), and between year 2500 and 5970 it holds on every
    sampled instant but the amplitude-sum argument cannot show it. -/
theorem apparent_minus_mean_under_1_2s_partial (j : ℝ) (h1 : -20 ≤ (j - 2451545) / 36525) (h2 : (j - 2451545) / 36525 ≤ 5) :
    |GenR.apparent_sidereal_time j (GenR.Helio.true_obliquity j) (GenR.Helio.nutation_longitude j) - GenR.mean_sidereal_time j|
      < 1.2 / 86400 :=
  SiderealApparent.apparent_minus_mean_lt_1_2s j h1 h2

/-- "(under 1.2 s)" on the whole past side of the nutation amplitude lemmas: every instant from 40 centuries before to
    5 centuries after J2000.0 (years −2000 … 2500, JDE 990545 … 2634170), with the library's own true obliquity and nutation.
    PARTIAL in the range, as above: FULL STATEMENT (not provable, false beyond JDE ≈ 3.9e6):
    `∀ j ∈ [0, 5.4e6], |apparent j − mean j| < 1.2 / 86400`.  Missing: years −4712 … −2000 (outside the |T| ≤ 40 amplitude
    lemmas) and 2500 … 5970 (the sum of amplitudes times cos ε exceeds 1.2 s from T ≈ +8 although the series itself does not). -/
theorem apparent_minus_mean_under_1_2s_past_partial (j : ℝ) (h1 : -40 ≤ (j - 2451545) / 36525) (h2 : (j - 2451545) / 36525 ≤ 5) :
    |GenR.apparent_sidereal_time j (GenR.Helio.true_obliquity j) (GenR.Helio.nutation_longitude j) - GenR.mean_sidereal_time j|
      < 1.2 / 86400 :=
  SiderealApparent.apparent_minus_mean_lt_1_2s_past j h1 h2

/-- `get_doy` raises ValueError exactly as documented for a day below 1 or from 32 on, or a month outside 1..12 —
    for every year and every rational day -/
theorem doy_refuses_out_of_range (y m : Int) (d : ℚ) (h : d < 1 ∨ 32 ≤ d ∨ m < 1 ∨ 12 < m) :
    get_doy y m d = .error .valueError := by
  unfold get_doy
  have : (plt d 1.0 || ple 32.0 d || decide (m < 1) || decide (m > 12)) = true := by
    simp only [plt, ple, Bool.or_eq_true, decide_eq_true_eq]
    rcases h with h | h | h | h
    · left; left; left; norm_num; exact h
    · left; left; right; norm_num; exact h
    · left; right; exact h
    · right; exact h
  simp only [this, if_true]

/-- a day past the end of the month is refused in both branches (formula branch ≤ 1582, datetime branch after):
    30 February 1500, 29 February 1900, 31 April 2001 -/
theorem doy_refuses_day_past_month_end :
    get_doy 1500 2 30 = .error .valueError ∧ get_doy 1900 2 29 = .error .valueError ∧
    get_doy 2001 4 31 = .error .valueError ∧ get_doy 1500 2 29 = .ok 60 ∧ get_doy 10000 1 1 = .error .valueError := by
  decide +kernel

/-- the divisor of the fractional year follows the leap rule of the calendar IN FORCE: 1500 (Julian leap year, not a
    Gregorian one) has 366 days, 1900 has 365 -/
theorem year_divisor_follows_calendar :
    year (compute_jde 1500 12 31) = .ok (1500 + 365 / 366) ∧ year (compute_jde 1900 12 31) = .ok (1900 + 364 / 365) ∧
    year (compute_jde 1582 12 31) = .ok (1582 + 354 / 365) := by
  decide +kernel

/-- the 0h branch reduces too: at 2000-01-01 0h UT the unreduced 0h value is 1.2777 and the result is below 1 -/
theorem gmst_0h_is_reduced : 1 ≤ theta0 2451544.5 ∧ mean_sidereal_time 2451544.5 = theta0 2451544.5 - 1 := by
  decide +kernel

/-- the "at 0h" shortcut of the code is an absolute 1e-10 day: one second after 0h the rate term is applied -/
theorem gmst_one_second_after_0h :
    mean_sidereal_time (2451544.5 + 1 / 86400) = Int.fract (theta0 2451544.5 + 1 / 86400 * 1.00273790935) := by
  rw [mean_sidereal_time_eq]
  have hu : ut0 (2451544.5 + 1 / 86400) = 2451544.5 := by
    unfold ut0
    have : ⌊(2451544.5 + 1 / 86400 : ℚ) - 1 / 2⌋ = 2451544 := by rw [Int.floor_eq_iff]; norm_num
    rw [this]; norm_num
  rw [hu]
  have : ¬ |(2451544.5 + 1 / 86400 : ℚ) - 2451544.5| < 1e-10 := by norm_num [abs_of_pos]
  simp only [this, if_false]
  norm_num

/-- weekday names: `dow(as_string=True)` is the name of `dow()` -/
theorem dow_str_is_name (j : ℚ) : dow_str j = day_names.getD (dow j).toNat "" ∧ dow_str j ∈ day_names := by
  refine ⟨rfl, ?_⟩
  unfold dow_str
  obtain ⟨h0, h7⟩ := dow_range j
  have : (dow j).toNat < 7 := by omega
  interval_cases h : (dow j).toNat <;> simp [day_names]

-- Non-vacuity: the hypotheses are met by concrete, non-trivial inputs.
example : Valid 1582 10 15 ∧ weekdayGregorian 1582 10 15 = 5 ∧ weekdayGregorian 2000 1 1 = 6 := by decide
example : Valid 1500 2 29 ∧ Valid (-4712) 12 31 ∧ Valid 1582 12 31 ∧ Valid 2000 2 29 := by decide
example : get_doy 1500 3 1 = .ok 61 ∧ get_doy 1582 10 15 = .ok 278 ∧ get_doy 2000 12 31 = .ok 366 := by decide +kernel
example : (1e-10 : ℚ) ≤ (2451545.25 : ℚ) - ut0 2451545.25 ∧ ⌊(2451545.25 : ℚ) - 1 / 2⌋ = ⌊(2451545.4 : ℚ) - 1 / 2⌋ := by
  have h1 : ⌊(2451545.25 : ℚ) - 1 / 2⌋ = 2451544 := by rw [Int.floor_eq_iff]; norm_num
  have h2 : ⌊(2451545.4 : ℚ) - 1 / 2⌋ = 2451544 := by rw [Int.floor_eq_iff]; norm_num
  unfold ut0; rw [h1, h2]; norm_num

example : (-20 : ℝ) ≤ ((2451545 : ℝ) - 2451545) / 36525 ∧ ((2451545 : ℝ) - 2451545) / 36525 ≤ 5 := by norm_num

example : (-40 : ℝ) ≤ ((990545 : ℝ) - 2451545) / 36525 ∧ ((990545 : ℝ) - 2451545) / 36525 ≤ 5 := by norm_num

end Pymeeus.C16
