import Pymeeus.Refine.Easter
import Pymeeus.Refine.Pesach
import Pymeeus.Refine.Moslem3
import Pymeeus.Refine.ReligGrow
/-
C19 — Easter, Pesach and Moslem-calendar conversions follow their calendar rules.

Property theorems only (helper lemmas live in Refine/).  They are statements about
`Pymeeus.GenQ`, the exact-arithmetic instantiation of the model in templates/EpochRelig.lean
(and templates/EpochCore.lean for `compute_jde`), against the calendar definitions of
Spec/Computus.lean, Spec/Hebrew.lean, Spec/Islamic.lean and Spec/Civil.lean.
-/
namespace Pymeeus.C19
open Pymeeus Pymeeus.PQ Pymeeus.GenQ Pymeeus.Refine Pymeeus.Spec

/-- "Easter for every year ... equals the date given by the tabular epact definition of the
    Computus": for EVERY integer year (no bound in either direction) `Epoch.easter` returns the
    date of Spec/Computus.lean (golden number, Dionysius' table up to 1582; from 1583 epact with
    solar and lunar equation and the two exceptions, paschal full moon, the Sunday after it). -/
theorem easter_computus (y : Int) : easter y = Computus.easter y := by
  rw [easter_int]; exact (easterI_computus y).1

/-- "Easter for every year falls on a Sunday from 22 March to 25 April of the calendar in force
    (Julian to 1582, Gregorian from 1583)": for every year ≥ -4712, without upper bound, the result
    is a date of the civil calendar, lies in 22 March .. 25 April, and `Epoch(y, m, d).dow()` is 0. -/
theorem easter_sunday_range (y : Int) (hy : -4712 ≤ y) :
    Valid y (easter y).1 (easter y).2 ∧
    (((easter y).1 = 3 ∧ 22 ≤ (easter y).2) ∨ ((easter y).1 = 4 ∧ (easter y).2 ≤ 25)) ∧
    relig_dow (compute_jde y (easter y).1 (ofInt (easter y).2)) = 0 := by
  obtain ⟨he, h22, h56⟩ := easterI_computus y
  have hs := computus_sunday y
  have hval : Valid y (Computus.easter y).1 (Computus.easter y).2 := by
    unfold Computus.easter
    by_cases h : Computus.easterMarchDay y ≤ 31
    · simp only [h, if_true]
      refine ⟨hy, by decide, by decide, by omega, ?_, by rintro ⟨_, h10, _⟩; exact absurd h10 (by decide)⟩
      unfold monthLen; simpa using h
    · simp only [h, if_false]
      refine ⟨hy, by decide, by decide, by omega, ?_, by rintro ⟨_, h10, _⟩; exact absurd h10 (by decide)⟩
      unfold monthLen; simp; omega
  rw [easter_int, he, compute_jde_int _ _ _ hval, relig_dow_int]
  unfold Computus.easter
  unfold Computus.weekday at hs
  by_cases h : Computus.easterMarchDay y ≤ 31
  · simp only [h, if_true]
    rw [march_jdn]
    refine ⟨⟨hy, by decide, by decide, by omega, ?_, by rintro ⟨_, h10, _⟩; exact absurd h10 (by decide)⟩, by simp; omega, hs⟩
    unfold monthLen; simpa using h
  · simp only [h, if_false]
    rw [april_jdn]
    refine ⟨⟨hy, by decide, by decide, by omega, ?_, by rintro ⟨_, h10, _⟩; exact absurd h10 (by decide)⟩, by simp; omega, hs⟩
    unfold monthLen; simp; omega

-- Non-vacuity / anchors (Meeus' examples, both calendars, the earliest and the latest date).
example : easter 1991 = (3, 31) ∧ easter 1818 = (3, 22) ∧ easter 1943 = (4, 25) ∧ easter 2000 = (4, 23) ∧
    easter 179 = (4, 12) ∧ easter 1243 = (4, 12) ∧ easter (-4712) = (4, 7) := by decide +kernel


/-- "Jewish Pesach for years 1..3000 falls on a Sunday, Tuesday, Thursday or Saturday and equals
    15 Nisan of the arithmetic Hebrew calendar, 163 days before the following Rosh Hashanah":
    for every year 1..3000 the result `(m, d)` is a date of the civil calendar; the Epoch built from
    it is 0h of the day whose Julian Day Number is 15 Nisan of the Hebrew year `y + 3760` (molad
    arithmetic and the four postponements of Spec/Hebrew.lean), i.e. 163 days before 1 Tishri of the
    year `y + 3761`; and `dow()` of that Epoch is 0, 2, 4 or 6.
    (Integer shadow proved equal to the model for all years; the shadow is evaluated by the kernel
    on the 3000 years.) -/
theorem pesach (y : Int) (h1 : 1 ≤ y) (h2 : y ≤ 3000) :
    Valid y (jewish_pesach y).1 (jewish_pesach y).2 ∧
    compute_jde y (jewish_pesach y).1 (ofInt (jewish_pesach y).2)
      = (Hebrew.nisan15 (y + 3760) : ℚ) - 1 / 2 ∧
    Hebrew.nisan15 (y + 3760) + 163 = Hebrew.roshHashanah (y + 3761) ∧
    (relig_dow (compute_jde y (jewish_pesach y).1 (ofInt (jewish_pesach y).2)) = 0 ∨
     relig_dow (compute_jde y (jewish_pesach y).1 (ofInt (jewish_pesach y).2)) = 2 ∨
     relig_dow (compute_jde y (jewish_pesach y).1 (ofInt (jewish_pesach y).2)) = 4 ∨
     relig_dow (compute_jde y (jewish_pesach y).1 (ofInt (jewish_pesach y).2)) = 6) := by
  have hc := pesachCheck_all y h1 h2
  unfold pesachCheck Hebrew.yearOfPesach at hc
  simp only [Bool.and_eq_true, Bool.or_eq_true, decide_eq_true_eq] at hc
  obtain ⟨⟨hj, hw⟩, hv⟩ := hc
  have hval : Valid y (jewish_pesach y).1 (jewish_pesach y).2 := by
    rw [jewish_pesach_int]
    rcases hv with ⟨⟨hm, hd1⟩, hd2⟩ | ⟨⟨hm, hd1⟩, hd2⟩
    · refine ⟨by omega, by omega, by omega, hd1, ?_, by omega⟩
      rw [hm]; exact hd2
    · refine ⟨by omega, by omega, by omega, hd1, ?_, by omega⟩
      rw [hm]; exact hd2
  rw [compute_jde_int _ _ _ hval, relig_dow_int, jewish_pesach_int, hj]
  refine ⟨?_, rfl, ?_, ?_⟩
  · rcases hv with ⟨⟨hm, hd1⟩, hd2⟩ | ⟨⟨hm, hd1⟩, hd2⟩
    · refine ⟨by omega, by omega, by omega, hd1, ?_, by omega⟩
      rw [hm]; exact hd2
    · refine ⟨by omega, by omega, by omega, hd1, ?_, by omega⟩
      rw [hm]; exact hd2
  · unfold Hebrew.nisan15; rw [show y + 3760 + 1 = y + 3761 by ring]; ring
  · rw [← hj]; tauto

-- the years on which the property text and the unit test rest, plus the first Gregorian year
example : jewish_pesach 1990 = (4, 10) ∧ jewish_pesach 2024 = (4, 23) ∧ jewish_pesach 2025 = (4, 13) ∧
    jewish_pesach 1583 = (4, 7) := by decide +kernel


/-! ### Moslem calendar.  `Islamic.Valid h m d`: a date of the tabular calendar, any year `h ≥ 1`
(the property asks for 1..2500; there is no upper bound here). -/

/-- "both directions agree with the arithmetic Islamic calendar whose epoch is 16 July 622 (Julian)",
    Moslem -> civil: for every date of the Islamic calendar `moslem2gregorian` returns a date of the
    civil calendar (Julian through 4 Oct 1582, Gregorian after) whose Epoch is 0h of the day with the
    tabular day number `d + ceil(29.5 (m-1)) + 354 (h-1) + floor((3 + 11 h)/30) + 1948439`. -/
theorem moslem2gregorian_tabular (h m d : Int) (hv : Islamic.Valid h m d) :
    ∃ (y' m' d' : Int) (D : Int ⊕ ℚ), moslem2gregorian h m d = .ok (y', m', D) ∧ dayQ D = (d' : ℚ) ∧
      Valid y' m' d' ∧ compute_jde y' m' (ofInt d') = (Islamic.jdn h m d : ℚ) - 1 / 2 := by
  obtain ⟨y', m', d', D, e1, e2, e3, e4⟩ := m2gI_correct h m d hv
  exact ⟨y', m', d', D, by rw [moslem2gregorian_int, e1], e2, e3, by rw [compute_jde_int _ _ _ e3, e4]⟩

/-- "both directions agree with the arithmetic Islamic calendar", civil -> Moslem: for every civil
    date from 16 July 622 on (no upper bound) `gregorian2moslem` returns -- in particular its two
    `while` loops finish within the model's fuel `g2m_fuel` -- the date of the tabular Islamic
    calendar that has the day number of the civil date. -/
theorem gregorian2moslem_tabular (y m d : Int) (hv : Valid y m d)
    (h622 : 622 < y ∨ (y = 622 ∧ (7 < m ∨ (m = 7 ∧ 16 ≤ d)))) :
    ∃ h' m' d', gregorian2moslem y m d = .ok (h', m', d') ∧ Islamic.Valid h' m' d' ∧
      ((Islamic.jdn h' m' d' : Int) : ℚ) - 1 / 2 = compute_jde y m (ofInt d) := by
  obtain ⟨h', m', d', e1, e2, e3⟩ := g2m_correct y m d hv (jdnI_ge_epoch y m d hv h622)
  exact ⟨h', m', d', e1, e2, by rw [compute_jde_int _ _ _ hv, e3]⟩

/-- The two `while` loops of `gregorian2moslem` (the model runs them with fuel `g2m_fuel` = 8 and
    reports `.error .other` if it runs out) terminate for EVERY argument triple, valid date or not:
    the first loop runs at most twice, the second at most once. -/
theorem gregorian2moslem_loops_terminate (y m d : Int) : gregorian2moslem y m d ≠ .error .other :=
  g2m_fuel_suffices y m d

/-- "converting a Moslem date to a civil date and back returns it" (every Islamic date, year ≥ 1). -/
theorem moslem_civil_moslem (h m d : Int) (hv : Islamic.Valid h m d) :
    ∃ (y' m' d' : Int) (D : Int ⊕ ℚ), moslem2gregorian h m d = .ok (y', m', D) ∧ dayQ D = (d' : ℚ) ∧
      gregorian2moslem y' m' d' = .ok (h, m, d) := by
  obtain ⟨y', m', d', D, e1, e2, e3, e4⟩ := m2gI_correct h m d hv
  obtain ⟨h', m'', d'', f1, f2, f3⟩ := g2m_correct y' m' d' e3 (by rw [e4]; exact islamic_jdn_pos h m d hv)
  obtain ⟨rfl, rfl, rfl⟩ := isl_jdn_inj h' m'' d'' h m d f2 hv (by rw [f3, e4])
  exact ⟨y', m', d', D, by rw [moslem2gregorian_int, e1], e2, f1⟩

/-- the other round trip ("a bijection on days"): a civil date from 16 July 622 on, converted to the
    Moslem calendar and back, is returned unchanged. -/
theorem civil_moslem_civil (y m d : Int) (hv : Valid y m d)
    (h622 : 622 < y ∨ (y = 622 ∧ (7 < m ∨ (m = 7 ∧ 16 ≤ d)))) :
    ∃ (h' m' d' : Int) (D : Int ⊕ ℚ), gregorian2moslem y m d = .ok (h', m', d') ∧
      moslem2gregorian h' m' d' = .ok (y, m, D) ∧ dayQ D = (d : ℚ) := by
  obtain ⟨h', m', d', e1, e2, e3⟩ := g2m_correct y m d hv (jdnI_ge_epoch y m d hv h622)
  obtain ⟨y', m'', d'', D, f1, f2, f3, f4⟩ := m2gI_correct h' m' d' e2
  obtain ⟨rfl, rfl, rfl⟩ := jdnI_inj y' m'' d'' y m d f3 hv (by rw [f4, e3])
  exact ⟨h', m', d', D, e1, by rw [moslem2gregorian_int, f1], f2⟩

/-- "consecutive Moslem dates fall on consecutive civil days": the civil dates returned for an
    Islamic date and for the next one (`Islamic.next`: month ends after 30/29 days, year after 12
    months) are exactly one day apart. -/
theorem consecutive_moslem_dates (h m d : Int) (hv : Islamic.Valid h m d) :
    ∃ a : ℚ, m2gJde h m d = some a ∧
      m2gJde (Islamic.next h m d).1 (Islamic.next h m d).2.1 (Islamic.next h m d).2.2 = some (a + 1) := by
  obtain ⟨nv, nj⟩ := isl_next_jdn h m d hv
  refine ⟨_, m2gJde_eq h m d hv, ?_⟩
  rw [m2gJde_eq _ _ _ nv, nj]; push_cast; ring_nf

/-- "months have 30 or 29 days": between the civil dates of the first day of a Moslem month and of the
    first day of the next month there are 30 or 29 days (30 in odd months, and in the 12th month of the
    leap years 2, 5, 7, 10, 13, 16, 18, 21, 24, 26, 29 of the 30-year cycle). -/
theorem month_lengths (h m : Int) (hh : 1 ≤ h) (hm1 : 1 ≤ m) (hm12 : m ≤ 12) :
    ∃ a : ℚ, m2gJde h m 1 = some a ∧
      m2gJde (if m < 12 then h else h + 1) (if m < 12 then m + 1 else 1) 1 = some (a + Islamic.monthLen h m) ∧
      (Islamic.monthLen h m = 30 ∨ Islamic.monthLen h m = 29) := by
  have hl : Islamic.monthLen h m = 30 ∨ Islamic.monthLen h m = 29 := by
    unfold Islamic.monthLen; split_ifs <;> simp
  have v1 : Islamic.Valid h m 1 := ⟨hh, hm1, hm12, by decide, by omega⟩
  have v2 : Islamic.Valid h m (Islamic.monthLen h m) := ⟨hh, hm1, hm12, by omega, le_refl _⟩
  obtain ⟨nv, nj⟩ := isl_next_jdn h m _ v2
  have hn : Islamic.next h m (Islamic.monthLen h m) = (if m < 12 then h else h + 1, if m < 12 then m + 1 else 1, 1) := by
    unfold Islamic.next; simp only [lt_irrefl, if_false]; split_ifs <;> rfl
  rw [hn] at nv nj
  refine ⟨_, m2gJde_eq h m 1 v1, ?_, hl⟩
  rw [m2gJde_eq _ _ _ nv, nj]
  have : Islamic.jdn h m (Islamic.monthLen h m) = Islamic.jdn h m 1 + Islamic.monthLen h m - 1 := by
    unfold Islamic.jdn; ring
  rw [this]; push_cast; ring_nf

/-- "years [have] 354 or 355 days": between the civil dates of 1 Muharram of consecutive years. -/
theorem year_lengths (h : Int) (hh : 1 ≤ h) :
    ∃ a : ℚ, m2gJde h 1 1 = some a ∧ m2gJde (h + 1) 1 1 = some (a + Islamic.yearLen h) ∧
      (Islamic.yearLen h = 354 ∨ Islamic.yearLen h = 355) := by
  have v1 : Islamic.Valid h 1 1 := ⟨hh, by decide, by decide, by decide, by unfold Islamic.monthLen; simp⟩
  have v2 : Islamic.Valid (h + 1) 1 1 := ⟨by omega, by decide, by decide, by decide, by unfold Islamic.monthLen; simp⟩
  refine ⟨_, m2gJde_eq h 1 1 v1, ?_, by rw [isl_yearLen]; exact ylen_range h⟩
  rw [m2gJde_eq _ _ _ v2, isl_yearLen, ylen_start, isl_jdn_eq, isl_jdn_eq]
  push_cast; ring_nf

/-- "the arithmetic Islamic calendar whose epoch is 16 July 622 (Julian)": 1 Muharram of year 1. -/
theorem moslem_epoch : moslem2gregorian 1 1 1 = .ok (622, 7, .inr 16) ∧ Islamic.jdn 1 1 1 = 1948440 ∧
    compute_jde 622 7 16 = 1948439.5 ∧ gregorian2moslem 622 7 16 = .ok (1, 1, 1) := by decide +kernel

-- Non-vacuity: dates of both calendars on both sides of the 1582 reform, a leap-year end, Meeus' examples.
example : Islamic.Valid 1421 1 1 ∧ Islamic.Valid 990 9 16 ∧ Islamic.Valid 1442 12 30 ∧ ¬ Islamic.Valid 1443 12 30 ∧
    Islamic.next 1442 12 30 = (1443, 1, 1) ∧ Islamic.next 1443 12 29 = (1444, 1, 1) := by decide
example : moslem2gregorian 1421 1 1 = .ok (2000, 4, .inl 6) ∧ gregorian2moslem 1991 8 13 = .ok (1412, 2, 2) ∧
    gregorian2moslem 1582 10 15 = .ok (990, 9, 17) ∧ moslem2gregorian 990 9 16 = .ok (1582, 10, .inr 4) := by
  decide +kernel

/-! ### Second layer: cycles, range tests, argument forms, and the boundary cases that seeded changes hit -/

/-- Structural fact behind "Easter for every year": in the Julian calendar the dates repeat after
    532 = 4 · 7 · 19 years (leap cycle × week × Metonic cycle). -/
theorem easter_julian_cycle (y : Int) (h : y + 532 ≤ 1582) : easter (y + 532) = easter y := by
  rw [easter_int, easter_int]; exact easterI_julian_period y h

/-- ... and in the Gregorian calendar after 5 700 000 years (the period of the epact cycle), for every
    year from 1583 on. -/
theorem easter_gregorian_cycle (y : Int) (h : 1583 ≤ y) : easter (y + 5700000) = easter y := by
  rw [easter_int, easter_int]; exact easterI_gregorian_period y h

/-- The exception step of the Gregorian branch (`m = iint((a + 11 h + 22 l) / 451.0)`) at its boundary
    value itself: whenever `a + 11 h + 22 l` is exactly 451 (h = 29, l = 6, a = 0 or h = 28, l = 6,
    a = 11) Easter is pulled back a week, to 18 April (a = 0; otherwise 25 April, the wrong Sunday) resp.
    19 April (a = 11; otherwise 26 April, outside the range).  Stated through the two theorems
    above for all years; here for the only five such years up to 10000. -/
theorem easter_exception_boundary :
    easter 3165 = (4, 18) ∧ easter 3192 = (4, 19) ∧ easter 3260 = (4, 18) ∧ easter 3317 = (4, 18) ∧
    easter 3344 = (4, 19) ∧ easter 1981 = (4, 19) ∧ easter 1954 = (4, 18) ∧ easter 2038 = (4, 25) := by
  decide +kernel

/-- "which exception is raised when", Moslem -> civil: `moslem2gregorian` raises ValueError exactly
    when `day < 1 or day > 30 or month < 1 or month > 12 or year < 1`; on EVERY other integer triple
    -- a date of the calendar or day 30 of a month that has 29 days -- it returns the civil date whose
    day number is the tabular formula `d + ceil(29.5 (m-1)) + 354 (h-1) + floor((3 + 11 h)/30) + 1948439`
    (so day 30 of a short month is read as the first day of the next month). -/
theorem moslem2gregorian_range_test (h m d : Int) :
    ((d < 1 ∨ d > 30 ∨ m < 1 ∨ m > 12 ∨ h < 1) → moslem2gregorian h m d = .error .valueError) ∧
    (¬ (d < 1 ∨ d > 30 ∨ m < 1 ∨ m > 12 ∨ h < 1) →
      ∃ (y' m' d' : Int) (D : Int ⊕ ℚ), moslem2gregorian h m d = .ok (y', m', D) ∧ dayQ D = (d' : ℚ) ∧
        Valid y' m' d' ∧ compute_jde y' m' (ofInt d') = (Islamic.jdn h m d : ℚ) - 1 / 2) := by
  constructor
  · intro hbad; rw [moslem2gregorian_int]; exact m2gI_error h m d hbad
  · intro hok
    obtain ⟨y', m', d', D, e1, e2, e3, e4⟩ :=
      m2gI_correct_range h m d (by omega) (by omega) (by omega) (by omega) (by omega)
    exact ⟨y', m', d', D, by rw [moslem2gregorian_int, e1], e2, e3, by rw [compute_jde_int _ _ _ e3, e4]⟩

/-- Day 30 of a month of 29 days is the same civil day as the first day of the following month. -/
theorem moslem2gregorian_day30_of_short_month (h m : Int) (hh : 1 ≤ h) (hm1 : 1 ≤ m) (hm12 : m ≤ 12)
    (hs : Islamic.monthLen h m = 29) :
    m2gJde h m 30 = m2gJde (Islamic.next h m 29).1 (Islamic.next h m 29).2.1 (Islamic.next h m 29).2.2 := by
  have v : Islamic.Valid h m 29 := ⟨hh, hm1, hm12, by decide, by omega⟩
  obtain ⟨nv, nj⟩ := isl_next_jdn h m 29 v
  rw [m2gJde_eq _ _ _ nv, nj, m2gJde_eq_range h m 30 hh hm1 hm12 (by decide) (by decide)]
  unfold Islamic.jdn; push_cast; ring_nf

/-- "which exception is raised when", civil -> Moslem: `gregorian2moslem` raises ValueError exactly
    when `day < 1 or day > 31 or month < 1 or month > 12 or year < -4712` and returns a triple for
    every other integer argument (valid date or not, before or after the Moslem epoch). -/
theorem gregorian2moslem_range_test (y m d : Int) :
    ((d < 1 ∨ d > 31 ∨ m < 1 ∨ m > 12 ∨ y < -4712) → gregorian2moslem y m d = .error .valueError) ∧
    (¬ (d < 1 ∨ d > 31 ∨ m < 1 ∨ m > 12 ∨ y < -4712) → ∃ r, gregorian2moslem y m d = .ok r) :=
  ⟨g2m_error y m d, g2m_ok y m d⟩

/-- The leap-year test that `gregorian2moslem` writes three times
    (`355 if (11 * (h % 30) + 3) % 30 > 18 else 354`, one definition `g2m_ylen` in the model) is, for
    EVERY integer year, the year length of the tabular calendar: 355 exactly in the years 2, 5, 7, 10,
    13, 16, 18, 21, 24, 26, 29 of the 30-year cycle -- and that list agrees with the closed day-number
    formula of the spec. -/
theorem moslem_year_length_test (h : Int) :
    g2m_ylen h = Islamic.yearLen h ∧ Islamic.jdn (h + 1) 1 1 - Islamic.jdn h 1 1 = Islamic.yearLen h :=
  ⟨(isl_yearLen h).symm, isl_yearLen_jdn h⟩

/-- Boundary cases of `moslem2gregorian`: civil day-of-year 0 (31 December of the previous year, the
    `j < 1` exit), day-of-year 366 of a Julian leap year (kept, not wrapped), the wrap into the next
    year, and both sides of the 1582 reform. -/
theorem moslem2gregorian_boundaries :
    moslem2gregorian 556 1 1 = .ok (1160, 12, .inl 31) ∧ moslem2gregorian 791 1 1 = .ok (1388, 12, .inl 31) ∧
    moslem2gregorian 3 7 14 = .ok (624, 12, .inr 31) ∧ moslem2gregorian 3 7 15 = .ok (625, 1, .inr 1) ∧
    moslem2gregorian 1446 7 13 = .ok (2025, 1, .inl 13) ∧
    moslem2gregorian 990 9 16 = .ok (1582, 10, .inr 4) ∧ moslem2gregorian 990 9 17 = .ok (1582, 10, .inl 15) ∧
    gregorian2moslem 1714 1 12 = .ok (1125, 12, 25) ∧ gregorian2moslem 1714 1 16 = .ok (1125, 12, 29) ∧
    gregorian2moslem 1714 1 17 = .ok (1126, 1, 1) := by
  refine ⟨?_, ?_, ?_, ?_, ?_, ?_, ?_, ?_, ?_, ?_⟩ <;> decide +kernel

/-- Boundary of the fourth Pesach rule (`j == 0 and a > 11 and r > 0.897723765`): the years with
    `a = 11` in which the other two conditions hold keep the unpostponed date. -/
theorem pesach_guard_boundary :
    jewish_pesach 2272 = (4, 13) ∧ jewish_pesach 2519 = (4, 15) ∧ jewish_pesach 2766 = (4, 16) := by
  decide +kernel

/-! ### `float` arguments: the result depends on the integer part only; the range tests see the fraction -/

/-- `Epoch.easter(y + f)`, `0 ≤ f < 1`: `int()` truncates toward zero, so a non-negative year keeps its
    integer part and a negative non-integer year is rounded UP. -/
theorem easter_float_year (y : Int) (f : ℚ) (h0 : 0 ≤ f) (h1 : f < 1) :
    (0 ≤ y → easter_num ((y : ℚ) + f) = easter y) ∧
    (y < 0 → 0 < f → easter_num ((y : ℚ) + f) = easter (y + 1)) ∧
    easter_num (ofInt y) = easter y := by
  refine ⟨fun hy => ?_, fun hy hf => ?_, ?_⟩
  · unfold easter_num; rw [ptrunc_nonneg_frac y f hy h0 h1]
  · unfold easter_num; rw [ptrunc_neg_frac y f hy hf h1]
  · unfold easter_num; rw [ptrunc_ofInt]

/-- `Epoch.jewish_pesach(y + f)`: `iint()` floors, for every year and every fraction. -/
theorem pesach_float_year (y : Int) (f : ℚ) (h0 : 0 ≤ f) (h1 : f < 1) :
    jewish_pesach_num ((y : ℚ) + f) = jewish_pesach y := by
  unfold jewish_pesach_num; rw [pfloor_add_frac y f h0 h1]

/-- `Epoch.moslem2gregorian` with float arguments `h + fh, m + fm, d + fd` (fractions in `[0, 1)`):
    ValueError exactly when the FLOATS fail the range test -- in particular day `30 + fd` and month
    `12 + fm` with a positive fraction are refused although their integer parts are accepted --
    otherwise the result of the integer parts. -/
theorem moslem2gregorian_float_args (h m d : Int) (fh fm fd : ℚ)
    (h0 : 0 ≤ fh) (h1 : fh < 1) (m0 : 0 ≤ fm) (m1 : fm < 1) (d0 : 0 ≤ fd) (d1 : fd < 1) :
    moslem2gregorian_num ((h : ℚ) + fh) ((m : ℚ) + fm) ((d : ℚ) + fd) =
      if d < 1 ∨ 30 < (d : ℚ) + fd ∨ m < 1 ∨ 12 < (m : ℚ) + fm ∨ h < 1 then .error .valueError
      else moslem2gregorian h m d := by
  unfold moslem2gregorian_num plt
  rw [pfloor_add_frac h fh h0 h1, pfloor_add_frac m fm m0 m1, pfloor_add_frac d fd d0 d1]
  have e1 : ((d : ℚ) + fd < 1) ↔ d < 1 := by
    constructor
    · intro hh; by_contra hc; have : (1 : ℚ) ≤ (d : ℚ) := by exact_mod_cast (by omega : 1 ≤ d)
      linarith
    · intro hh; have : (d : ℚ) ≤ 0 := by exact_mod_cast (by omega : d ≤ 0)
      linarith
  have e2 : ((m : ℚ) + fm < 1) ↔ m < 1 := by
    constructor
    · intro hh; by_contra hc; have : (1 : ℚ) ≤ (m : ℚ) := by exact_mod_cast (by omega : 1 ≤ m)
      linarith
    · intro hh; have : (m : ℚ) ≤ 0 := by exact_mod_cast (by omega : m ≤ 0)
      linarith
  have e3 : ((h : ℚ) + fh < 1) ↔ h < 1 := by
    constructor
    · intro hh; by_contra hc; have : (1 : ℚ) ≤ (h : ℚ) := by exact_mod_cast (by omega : 1 ≤ h)
      linarith
    · intro hh; have : (h : ℚ) ≤ 0 := by exact_mod_cast (by omega : h ≤ 0)
      linarith
  simp only [Bool.or_eq_true, decide_eq_true_eq, e1, e2, e3]
  simp only [or_assoc]

/-- the same for `Epoch.gregorian2moslem` (day `31 + fd`, month `12 + fm` refused; year floored). -/
theorem gregorian2moslem_float_args (y m d : Int) (fy fm fd : ℚ)
    (y0 : 0 ≤ fy) (y1 : fy < 1) (m0 : 0 ≤ fm) (m1 : fm < 1) (d0 : 0 ≤ fd) (d1 : fd < 1) :
    gregorian2moslem_num ((y : ℚ) + fy) ((m : ℚ) + fm) ((d : ℚ) + fd) =
      if d < 1 ∨ 31 < (d : ℚ) + fd ∨ m < 1 ∨ 12 < (m : ℚ) + fm ∨ y < -4712 then .error .valueError
      else gregorian2moslem y m d := by
  unfold gregorian2moslem_num plt
  rw [pfloor_add_frac y fy y0 y1, pfloor_add_frac m fm m0 m1, pfloor_add_frac d fd d0 d1]
  have e1 : ((d : ℚ) + fd < 1) ↔ d < 1 := by
    constructor
    · intro hh; by_contra hc; have : (1 : ℚ) ≤ (d : ℚ) := by exact_mod_cast (by omega : 1 ≤ d)
      linarith
    · intro hh; have : (d : ℚ) ≤ 0 := by exact_mod_cast (by omega : d ≤ 0)
      linarith
  have e2 : ((m : ℚ) + fm < 1) ↔ m < 1 := by
    constructor
    · intro hh; by_contra hc; have : (1 : ℚ) ≤ (m : ℚ) := by exact_mod_cast (by omega : 1 ≤ m)
      linarith
    · intro hh; have : (m : ℚ) ≤ 0 := by exact_mod_cast (by omega : m ≤ 0)
      linarith
  have e3 : ((y : ℚ) + fy < -4712) ↔ y < -4712 := by
    constructor
    · intro hh; by_contra hc; have : (-4712 : ℚ) ≤ (y : ℚ) := by exact_mod_cast (by omega : -4712 ≤ y)
      linarith
    · intro hh; have : (y : ℚ) ≤ -4713 := by exact_mod_cast (by omega : y ≤ -4713)
      linarith
  simp only [Bool.or_eq_true, decide_eq_true_eq, e1, e2, e3]
  simp only [or_assoc]

-- the float forms on concrete non-trivial inputs (fractions on every argument; the refused boundary)
example : easter_num 2000.7 = (4, 23) ∧ easter_num (-0.5) = easter 0 ∧ jewish_pesach_num (-0.5) = jewish_pesach (-1) ∧
    moslem2gregorian_num 1421.5 1.25 1.75 = .ok (2000, 4, .inl 6) ∧
    moslem2gregorian_num 1421 1 30.5 = .error .valueError ∧ moslem2gregorian_num 1421 1 30 = .ok (2000, 5, .inl 5) ∧
    gregorian2moslem_num 1991.5 8.5 13.5 = .ok (1412, 2, 2) ∧ gregorian2moslem_num 1991 12.5 1 = .error .valueError := by
  refine ⟨?_, ?_, ?_, ?_, ?_, ?_, ?_, ?_⟩ <;> decide +kernel

/-- Coherence of the two Pesach clauses for EVERY Hebrew year (not only those of 1..3000): in the
    arithmetic calendar of Spec/Hebrew.lean Rosh Hashanah never falls on a Sunday, Wednesday or Friday
    (lo ADU rosh), hence 15 Nisan, 163 days earlier, always falls on a Sunday, Tuesday, Thursday or
    Saturday -- the weekday clause follows from the "= 15 Nisan" clause. -/
theorem nisan15_weekday_rule (h : Int) :
    (Hebrew.roshHashanah h + 1) % 7 ≠ 0 ∧ (Hebrew.roshHashanah h + 1) % 7 ≠ 3 ∧ (Hebrew.roshHashanah h + 1) % 7 ≠ 5 ∧
    ((Hebrew.nisan15 h + 1) % 7 = 0 ∨ (Hebrew.nisan15 h + 1) % 7 = 2 ∨ (Hebrew.nisan15 h + 1) % 7 = 4 ∨
     (Hebrew.nisan15 h + 1) % 7 = 6) := by
  have key : ∀ k : Int, Hebrew.roshHashanahDay k % 7 ≠ 0 ∧ Hebrew.roshHashanahDay k % 7 ≠ 3 ∧
      Hebrew.roshHashanahDay k % 7 ≠ 5 := by
    intro k
    unfold Hebrew.roshHashanahDay
    dsimp only
    generalize (if Hebrew.moladParts k % 25920 ≥ 18 * 1080 then Hebrew.moladParts k / 25920 + 1
      else if Hebrew.moladParts k / 25920 % 7 = 2 ∧ Hebrew.moladParts k % 25920 ≥ 9 * 1080 + 204 ∧ Hebrew.leap k = false
        then Hebrew.moladParts k / 25920 + 2
      else if Hebrew.moladParts k / 25920 % 7 = 1 ∧ Hebrew.moladParts k % 25920 ≥ 15 * 1080 + 589 ∧
          Hebrew.leap (k - 1) = true then Hebrew.moladParts k / 25920 + 1
      else Hebrew.moladParts k / 25920) = d1
    split_ifs <;> omega
  have k1 := key h
  have k2 := key (h + 1)
  unfold Hebrew.nisan15 Hebrew.roshHashanah
  omega

end Pymeeus.C19
