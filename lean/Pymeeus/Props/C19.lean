import Pymeeus.Refine.Easter
import Pymeeus.Refine.Pesach
/-
C19 — Easter, Pesach and Moslem-calendar conversions follow their calendar rules.

Property theorems only (helper lemmas live in Refine/).  They are statements about
`Pymeeus.GenQ`, the exact-arithmetic instantiation of the model in templates/EpochRelig.lean
(and templates/EpochCore.lean for `compute_jde`), against the calendar definitions of
Spec/Computus.lean, Spec/Hebrew.lean, Spec/Islamic.lean and Spec/Civil.lean.
-/
namespace Pymeeus.C19
open Pymeeus Pymeeus.PQ Pymeeus.GenQ Pymeeus.Refine Pymeeus.Spec

/-- "Easter for every year ... equals the date given by the tabular epact definition of the
    Computus": for EVERY integer year (no bound in either direction) `Epoch.easter` returns the
    date of Spec/Computus.lean (golden number, Dionysius' table up to 1582; from 1583 epact with
    solar and lunar equation and the two exceptions, paschal full moon, the Sunday after it). -/
theorem easter_computus (y : Int) : easter y = Computus.easter y := by
  rw [easter_int]; exact (easterI_computus y).1

/-- "Easter for every year falls on a Sunday from 22 March to 25 April of the calendar in force
    (Julian to 1582, Gregorian from 1583)": for every year ≥ -4712, without upper bound, the result
    is a date of the civil calendar, lies in 22 March .. 25 April, and `Epoch(y, m, d).dow()` is 0. -/
theorem easter_sunday_range (y : Int) (hy : -4712 ≤ y) :
    Valid y (easter y).1 (easter y).2 ∧
    (((easter y).1 = 3 ∧ 22 ≤ (easter y).2) ∨ ((easter y).1 = 4 ∧ (easter y).2 ≤ 25)) ∧
    relig_dow (compute_jde y (easter y).1 (ofInt (easter y).2)) = 0 := by
  obtain ⟨he, h22, h56⟩ := easterI_computus y
  have hs := computus_sunday y
  rw [easter_int, he, compute_jde_int, relig_dow_int]
  unfold Computus.easter
  unfold Computus.weekday at hs
  by_cases h : Computus.easterMarchDay y ≤ 31
  · simp only [h, if_true]
    rw [march_jdn]
    refine ⟨⟨hy, by decide, by decide, by omega, ?_, by rintro ⟨_, h10, _⟩; exact absurd h10 (by decide)⟩, by simp; omega, hs⟩
    unfold monthLen; simpa using h
  · simp only [h, if_false]
    rw [april_jdn]
    refine ⟨⟨hy, by decide, by decide, by omega, ?_, by rintro ⟨_, h10, _⟩; exact absurd h10 (by decide)⟩, by simp; omega, hs⟩
    unfold monthLen; simp; omega

-- Non-vacuity / anchors (Meeus' examples, both calendars, the earliest and the latest date).
example : easter 1991 = (3, 31) ∧ easter 1818 = (3, 22) ∧ easter 1943 = (4, 25) ∧ easter 2000 = (4, 23) ∧
    easter 179 = (4, 12) ∧ easter 1243 = (4, 12) ∧ easter (-4712) = (4, 7) := by decide +kernel


/-- "Jewish Pesach for years 1..3000 falls on a Sunday, Tuesday, Thursday or Saturday and equals
    15 Nisan of the arithmetic Hebrew calendar, 163 days before the following Rosh Hashanah":
    for every year 1..3000 the result `(m, d)` is a date of the civil calendar; the Epoch built from
    it is 0h of the day whose Julian Day Number is 15 Nisan of the Hebrew year `y + 3760` (molad
    arithmetic and the four postponements of Spec/Hebrew.lean), i.e. 163 days before 1 Tishri of the
    year `y + 3761`; and `dow()` of that Epoch is 0, 2, 4 or 6.
    (Integer shadow proved equal to the model for all years; the shadow is evaluated by the kernel
    on the 3000 years.) -/
theorem pesach (y : Int) (h1 : 1 ≤ y) (h2 : y ≤ 3000) :
    Valid y (jewish_pesach y).1 (jewish_pesach y).2 ∧
    compute_jde y (jewish_pesach y).1 (ofInt (jewish_pesach y).2)
      = (Hebrew.nisan15 (y + 3760) : ℚ) - 1 / 2 ∧
    Hebrew.nisan15 (y + 3760) + 163 = Hebrew.roshHashanah (y + 3761) ∧
    (relig_dow (compute_jde y (jewish_pesach y).1 (ofInt (jewish_pesach y).2)) = 0 ∨
     relig_dow (compute_jde y (jewish_pesach y).1 (ofInt (jewish_pesach y).2)) = 2 ∨
     relig_dow (compute_jde y (jewish_pesach y).1 (ofInt (jewish_pesach y).2)) = 4 ∨
     relig_dow (compute_jde y (jewish_pesach y).1 (ofInt (jewish_pesach y).2)) = 6) := by
  have hc := pesachCheck_all y h1 h2
  unfold pesachCheck Hebrew.yearOfPesach at hc
  simp only [Bool.and_eq_true, Bool.or_eq_true, decide_eq_true_eq] at hc
  obtain ⟨⟨hj, hw⟩, hv⟩ := hc
  rw [compute_jde_int, relig_dow_int, jewish_pesach_int, hj]
  refine ⟨?_, rfl, ?_, ?_⟩
  · rcases hv with ⟨⟨hm, hd1⟩, hd2⟩ | ⟨⟨hm, hd1⟩, hd2⟩
    · refine ⟨by omega, by omega, by omega, hd1, ?_, by omega⟩
      rw [hm]; exact hd2
    · refine ⟨by omega, by omega, by omega, hd1, ?_, by omega⟩
      rw [hm]; exact hd2
  · unfold Hebrew.nisan15; rw [show y + 3760 + 1 = y + 3761 by ring]; ring
  · rw [← hj]; tauto

-- the years on which the property text and the unit test rest, plus the first Gregorian year
example : jewish_pesach 1990 = (4, 10) ∧ jewish_pesach 2024 = (4, 23) ∧ jewish_pesach 2025 = (4, 13) ∧
    jewish_pesach 1583 = (4, 7) := by decide +kernel

end Pymeeus.C19
