import Pymeeus.Gen.Q.EpochRelig
namespace Pymeeus.C19
open Pymeeus Pymeeus.PQ Pymeeus.GenQ

/-- anchor: Easter 2000 is 23 April -/
theorem anchor_easter_2000 : easter 2000 = (4, 23) := by decide +kernel

end Pymeeus.C19
