import Pymeeus.Refine.Easter
/-
C19 — Easter, Pesach and Moslem-calendar conversions follow their calendar rules.

Property theorems only (helper lemmas live in Refine/).  They are statements about
`Pymeeus.GenQ`, the exact-arithmetic instantiation of the model in templates/EpochRelig.lean
(and templates/EpochCore.lean for `compute_jde`), against the calendar definitions of
Spec/Computus.lean, Spec/Hebrew.lean, Spec/Islamic.lean and Spec/Civil.lean.
-/
namespace Pymeeus.C19
open Pymeeus Pymeeus.PQ Pymeeus.GenQ Pymeeus.Refine Pymeeus.Spec

/-- "Easter for every year ... equals the date given by the tabular epact definition of the
    Computus": for EVERY integer year (no bound in either direction) `Epoch.easter` returns the
    date of Spec/Computus.lean (golden number, Dionysius' table up to 1582; from 1583 epact with
    solar and lunar equation and the two exceptions, paschal full moon, the Sunday after it). -/
theorem easter_computus (y : Int) : easter y = Computus.easter y := by
  rw [easter_int]; exact (easterI_computus y).1

/-- "Easter for every year falls on a Sunday from 22 March to 25 April of the calendar in force
    (Julian to 1582, Gregorian from 1583)": for every year ≥ -4712, without upper bound, the result
    is a date of the civil calendar, lies in 22 March .. 25 April, and `Epoch(y, m, d).dow()` is 0. -/
theorem easter_sunday_range (y : Int) (hy : -4712 ≤ y) :
    Valid y (easter y).1 (easter y).2 ∧
    (((easter y).1 = 3 ∧ 22 ≤ (easter y).2) ∨ ((easter y).1 = 4 ∧ (easter y).2 ≤ 25)) ∧
    relig_dow (compute_jde y (easter y).1 (ofInt (easter y).2)) = 0 := by
  obtain ⟨he, h22, h56⟩ := easterI_computus y
  have hs := computus_sunday y
  rw [easter_int, he, compute_jde_int, relig_dow_int]
  unfold Computus.easter
  unfold Computus.weekday at hs
  by_cases h : Computus.easterMarchDay y ≤ 31
  · simp only [h, if_true]
    rw [march_jdn]
    refine ⟨⟨hy, by decide, by decide, by omega, ?_, by rintro ⟨_, h10, _⟩; exact absurd h10 (by decide)⟩, by simp; omega, hs⟩
    unfold monthLen; simpa using h
  · simp only [h, if_false]
    rw [april_jdn]
    refine ⟨⟨hy, by decide, by decide, by omega, ?_, by rintro ⟨_, h10, _⟩; exact absurd h10 (by decide)⟩, by simp; omega, hs⟩
    unfold monthLen; simp; omega

-- Non-vacuity / anchors (Meeus' examples, both calendars, the earliest and the latest date).
example : easter 1991 = (3, 31) ∧ easter 1818 = (3, 22) ∧ easter 1943 = (4, 25) ∧ easter 2000 = (4, 23) ∧
    easter 179 = (4, 12) ∧ easter 1243 = (4, 12) ∧ easter (-4712) = (4, 7) := by decide +kernel

end Pymeeus.C19
