import Pymeeus.Refine.Angle
import Pymeeus.Spec.Sexagesimal
/-
Helper lemmas for C04: the printed forms of `dms_str` / `ra_str` against Spec/Sexagesimal.lean and
the whole split / carry chain packaged in one statement.
-/
namespace Pymeeus.Refine
open Pymeeus Pymeeus.PQ Pymeeus.GenQ Pymeeus.Spec

theorem ptrunc_sign_mul {sg : ℚ} (hsg : sg = 1 ∨ sg = -1) (k : ℤ) :
    ptrunc (sg * (k : ℚ)) = (if sg = 1 then k else -k) := by
  rcases hsg with h | h
  · rw [h, one_mul, ptrunc_intCast]; simp
  · rw [h, show ((-1 : ℚ) * (k : ℚ)) = ((-k : ℤ) : ℚ) by push_cast; ring, ptrunc_intCast]; norm_num

/-- What `dms_str` hands to the formatter, from the fields after the carry chain. -/
theorem dms_print_spec {x : ℚ} {n : ℤ} {D M : ℤ} {S sg : ℚ} (h : dms_fields x n = (D, M, S, sg))
    (hD : 0 ≤ D) (hM : 0 ≤ M) (hS : 0 ≤ S) (hsg : sg = 1 ∨ sg = -1) :
    signOnce (dms_print x n) ∧ readback (dms_print x n) = sg * ((D : ℚ) + (M : ℚ) / 60 + S / 3600) ∧
    ∀ turn : ℤ, D < turn → M < 60 → S < 60 → fieldsBelow turn (dms_print x n) := by
  unfold dms_print
  rw [h]
  simp only [ofInt, ptrunc_sign_mul hsg, peq, show (0.0 : ℚ) = 0 by norm_num]
  by_cases hd : D ≠ 0
  · rw [if_pos hd]
    have hDpos : 0 < D := by omega
    rcases hsg with e | e
    · subst e
      simp only [if_true, signOnce, readback, fieldsBelow, sgnZ]
      refine ⟨⟨hd, hM, hS⟩, ?_, fun t h1 h2 h3 => ⟨by rw [abs_of_pos hDpos]; exact h1, h2, h3⟩⟩
      rw [if_neg (by omega), abs_of_pos hDpos]
    · subst e
      have hne : ¬ ((-1 : ℚ) = 1) := by norm_num
      simp only [hne, if_false, signOnce, readback, fieldsBelow, sgnZ]
      refine ⟨⟨by omega, hM, hS⟩, ?_, fun t h1 h2 h3 => ⟨by rw [abs_neg, abs_of_pos hDpos]; exact h1, h2, h3⟩⟩
      rw [if_pos (by omega), abs_neg, abs_of_pos hDpos]
  · rw [if_neg hd]
    have hD0 : D = 0 := by omega
    by_cases hm : M ≠ 0
    · rw [if_pos hm]
      have hMpos : 0 < M := by omega
      rcases hsg with e | e
      · subst e
        simp only [if_true, signOnce, readback, fieldsBelow, sgnZ]
        refine ⟨⟨hm, hS⟩, ?_, fun t h1 h2 h3 => ⟨by rw [abs_of_pos hMpos]; exact h2, h3⟩⟩
        rw [if_neg (by omega), abs_of_pos hMpos, hD0]; push_cast; ring
      · subst e
        have hne : ¬ ((-1 : ℚ) = 1) := by norm_num
        simp only [hne, if_false, signOnce, readback, fieldsBelow, sgnZ]
        refine ⟨⟨by omega, hS⟩, ?_, fun t h1 h2 h3 => ⟨by rw [abs_neg, abs_of_pos hMpos]; exact h2, h3⟩⟩
        rw [if_pos (by omega), abs_neg, abs_of_pos hMpos, hD0]; push_cast; ring
    · rw [if_neg hm]
      have hM0 : M = 0 := by omega
      by_cases hs : S = 0
      · have : (!decide (S = 0)) = false := by simp [hs]
        simp only [this, Bool.false_eq_true, if_false, signOnce, readback, fieldsBelow]
        refine ⟨trivial, ?_, fun _ _ _ _ => trivial⟩
        rw [hD0, hM0, hs]; norm_num
      · have : (!decide (S = 0)) = true := by simp [hs]
        simp only [this, if_true, signOnce, readback, fieldsBelow]
        have hSpos : 0 < S := lt_of_le_of_ne hS (Ne.symm hs)
        refine ⟨?_, ?_, fun t h1 h2 h3 => ?_⟩
        · rcases hsg with e | e <;> subst e <;> simp [hs]
        · rw [hD0, hM0]; push_cast; ring
        · rcases hsg with e | e <;> subst e <;> simp [abs_of_pos hSpos, h3]

/-- Everything about the split and the carry chain of a value `|x| < L ≤ 360` (L = 360 for an angle,
    24 for hours of right ascension), in one statement. -/
theorem dms_fields_full {x : ℚ} {L : ℤ} (hL : L ≤ 360) (h : |x| < L) (n : ℤ) :
    ∃ (d m : ℤ) (s sg : ℚ) (D M : ℤ) (S e : ℚ),
      deg2dms x = (d, m, s, sg) ∧ dms_fields x n = (D, M, S, sg) ∧ (sg = 1 ∨ sg = -1) ∧
      0 ≤ d ∧ d < L ∧ 0 ≤ m ∧ m < 60 ∧ 0 ≤ s ∧ s < 60 ∧
      sg * ((d : ℚ) + (m : ℚ) / 60 + s / 3600) = x ∧
      0 ≤ D ∧ D < 360 ∧ D ≤ d + 1 ∧ 0 ≤ M ∧ M < 60 ∧ 0 ≤ S ∧ S < 60 ∧
      (n < 0 → D = d ∧ M = m ∧ S = s) ∧
      (0 ≤ n → |e| < TOL ∧ (n ≤ 10 → e = 0) ∧
        ((D : ℚ) + (M : ℚ) / 60 + S / 3600 = (d : ℚ) + (m : ℚ) / 60 + (proundn s n + e) / 3600 ∨
         (D : ℚ) + (M : ℚ) / 60 + S / 3600 = (d : ℚ) + (m : ℚ) / 60 + (proundn s n + e) / 3600 - 360)) := by
  have hLq : (L : ℚ) ≤ 360 := by exact_mod_cast hL
  have h360 : |x| < 360 := lt_of_lt_of_le h hLq
  have hsplit := deg2dms_of_lt h360
  obtain ⟨d0, d1, m0, m1, s0, s1, hrec⟩ := split_spec (abs_nonneg x) h
  have hd360 : ⌊|x|⌋ < 360 := by omega
  have hsg : (if 0 ≤ x then (1 : ℚ) else -1) = 1 ∨ (if 0 ≤ x then (1 : ℚ) else -1) = -1 := by
    split_ifs <;> simp
  have hval : (if 0 ≤ x then (1 : ℚ) else -1) *
      (((⌊|x|⌋ : ℤ) : ℚ) + ((⌊Int.fract |x| * 60⌋ : ℤ) : ℚ) / 60 + Int.fract (Int.fract |x| * 60) * 60 / 3600) = x := by
    rw [hrec]
    split_ifs with hx
    · rw [abs_of_nonneg hx]; ring
    · rw [abs_of_neg (not_le.mp hx)]; ring
  by_cases hn : 0 ≤ n
  · obtain ⟨D, M, S, e, hf, hD0, hD1, hD2, hM0, hM1, hS0, hS1, he, he10, hv⟩ :=
      dms_fields_spec (n := n) hsplit d0 hd360 m0 m1 s0 s1 hn
    exact ⟨_, _, _, _, D, M, S, e, hsplit, hf, hsg, d0, d1, m0, m1, s0, s1, hval, hD0, hD1, hD2, hM0, hM1, hS0, hS1,
      fun hneg => absurd hn (by omega), fun _ => ⟨he, he10, hv⟩⟩
  · have hf : dms_fields x n = deg2dms x := by
      unfold dms_fields
      rw [hsplit]
      simp only [ge_iff_le, hn, if_false]
    rw [hsplit] at hf
    exact ⟨_, _, _, _, _, _, _, 0, hsplit, hf, hsg, d0, d1, m0, m1, s0, s1, hval, d0, hd360, by omega, m0, m1, s0, s1,
      fun _ => ⟨rfl, rfl, rfl⟩, fun h0 => absurd h0 hn⟩

/-- `ra_str` prints the fields of `deg / 15` (for a valid Angle). -/
theorem ra_print_eq {x : ℚ} (h : |x| < 360) (n : ℤ) : ra_print x n = .ok (dms_print (x / 15) n) := by
  have h1 : (mk x).deg = x := reduce_deg_of_lt h
  have h15 : |x / 15| < 360 := by
    rw [abs_div, abs_of_pos (by norm_num : (0 : ℚ) < 15)]
    rw [div_lt_iff₀ (by norm_num)]; linarith [abs_nonneg x]
  have h2 : (mk (x / 15)).deg = x / 15 := reduce_deg_of_lt h15
  have hz : Operand.isZero (.flt (15.0 : ℚ)) = false := by
    simp [Operand.isZero, peq]; norm_num
  have hp : pdivE (mk x).deg (Operand.flt (15.0 : ℚ)).val = .ok (x / 15) := by
    unfold pdivE Operand.val
    rw [if_neg (by rw [peq_iff]; norm_num), h1]; norm_num
  unfold ra_print angle_div
  rw [hz]
  simp only [Bool.false_eq_true, if_false, hp, h2]

/-- Boolean test "the formatter receives the fields (d, m, s)" (for `decide` on concrete witnesses). -/
def printsDms (d m : ℤ) (s : ℚ) : PyRes Printed → Bool
  | .ok (.dms d' m' s') => decide (d' = d) && decide (m' = m) && decide (s' = s)
  | _ => false

theorem printsDms_iff {d m : ℤ} {s : ℚ} {r : PyRes Printed} (h : printsDms d m s r = true) : r = .ok (.dms d m s) := by
  unfold printsDms at h
  split at h
  · simp only [Bool.and_eq_true, decide_eq_true_eq] at h
    obtain ⟨⟨rfl, rfl⟩, rfl⟩ := h; rfl
  · exact absurd h (by simp)

/-- After the carry chain with `n_dec ≥ 0` the seconds field is either 0 (carried) or the rounded seconds. -/
theorem dms_fields_seconds_form {x : ℚ} {n : ℤ} {d m : ℤ} {s sg : ℚ} (h : deg2dms x = (d, m, s, sg)) (hn : 0 ≤ n) :
    (dms_fields x n).2.2.1 = 0 ∨ (dms_fields x n).2.2.1 = proundn s n := by
  unfold dms_fields
  rw [h]
  simp only [ge_iff_le, hn, if_true]
  split_ifs <;> norm_num

theorem proundn_multiple (s : ℚ) (n : ℤ) : ∃ k : ℤ, proundn s n = (k : ℚ) / pow10 n := ⟨_, rfl⟩

end Pymeeus.Refine
