import Pymeeus.Refine.OrderPoints
import Pymeeus.Lemmas.Newton
import Mathlib.Algebra.Order.Ring.Abs
/-
Bridges from the exact model of Interpolation (Gen/Q/Interpolation.lean) to Mathlib's Lagrange
interpolation: what the divided-difference table is, what a constructed object looks like (`WF`),
what `__call__` evaluates.
-/
namespace Pymeeus.Refine.Interpolation
open Pymeeus Pymeeus.PQ Pymeeus.GenQ.Interpolation Pymeeus.Newton Polynomial

theorem TOL_pos : (0 : ℚ) < TOL := by unfold TOL; norm_num
theorem TOL_le_one : TOL ≤ (1 : ℚ) := by unfold TOL; norm_num

theorem pabs_eq (x : ℚ) : pabs x = |x| := by
  unfold pabs
  split
  · rename_i h; rw [abs_of_neg h]
  · rename_i h; rw [abs_of_nonneg (not_lt.mp h)]

/-- nodes and values of an object as functions of the index -/
def nodes (x : List ℚ) : ℕ → ℚ := fun i => x.getD i 0

/-- `_newton_diff(start, start + k)` is the divided difference (for a tolerance in `(0, 1]`). -/
theorem newton_diff_eq (tol : ℚ) (htol : tol ≤ 1) (x y : List ℚ) :
    ∀ (k s : ℕ), newton_diff tol x y s k = dd (nodes x) (nodes y) s k := by
  intro k
  induction k with
  | zero => intro s; rfl
  | succ k ih =>
    intro s
    have hnot : plt (pabs (ofInt ((k : Int) + 1))) tol = false := by
      rw [pabs_eq]
      have : (1 : ℚ) ≤ |(((k : Int) + 1 : Int) : ℚ)| := by
        rw [abs_of_nonneg (by positivity)]; push_cast; linarith [(Nat.cast_nonneg k : (0 : ℚ) ≤ k)]
      unfold plt ofInt
      rw [decide_eq_false_iff_not, not_lt]
      linarith
    show (if plt (pabs (ofInt ((k : Int) + 1))) tol then _ else _) = _
    rw [hnot]
    simp only [Bool.false_eq_true, if_false, ih]
    rfl

/-- the divided-difference table of the points `(x, y)` -/
def table_of (x y : List ℚ) : List ℚ := (List.range x.length).map (fun i => dd (nodes x) (nodes y) 0 i)

theorem compute_table_eq (tol : ℚ) (h0 : 0 < tol) (h1 : tol ≤ 1) (x y : List ℚ) :
    compute_table tol x y = .ok (table_of x y) := by
  unfold compute_table
  have : plt 0 tol = true := by simp [plt, h0]
  simp only [this, Bool.not_true, Bool.false_eq_true, if_false]
  congr 1
  apply List.map_congr_left
  intro i _
  exact newton_diff_eq tol h1 x y i 0

/-- A constructed object: at least two points, strictly increasing abscissae, the divided-difference table. -/
structure WF (o : Interp) : Prop where
  len : o.x.length = o.y.length
  two : 2 ≤ o.x.length
  sorted : o.x.Pairwise (· < ·)
  table : o.table = table_of o.x o.y

theorem has_dup_false {tol : ℚ} (h0 : 0 < tol) {x : List ℚ} (h : has_dup tol x = false) : x.Nodup := by
  induction x with
  | nil => exact List.nodup_nil
  | cons a l ih =>
    unfold has_dup at h
    rw [Bool.or_eq_false_iff] at h
    rw [List.nodup_cons]
    refine ⟨?_, ih h.2⟩
    intro hmem
    have := List.any_eq_false.mp h.1 a hmem
    simp [plt, pabs_eq, h0] at this

theorem has_dup_true_of_close {tol : ℚ} {x : List ℚ} {i j : ℕ} (hij : i < j) (hj : j < x.length)
    (hc : |x.getD i 0 - x.getD j 0| < tol) : has_dup tol x = true := by
  induction x generalizing i j with
  | nil => simp at hj
  | cons a l ih =>
    unfold has_dup
    rw [Bool.or_eq_true]
    cases i with
    | zero =>
      left
      obtain ⟨j', rfl⟩ : ∃ j', j = j' + 1 := ⟨j - 1, by omega⟩
      rw [List.any_eq_true]
      have hj' : j' < l.length := by simpa using hj
      refine ⟨l.getD j' 0, getD_mem hj', ?_⟩
      simp only [List.getD_cons_zero, List.getD_cons_succ] at hc
      rw [pabs_eq]; simpa [plt] using hc
    | succ i' =>
      right
      obtain ⟨j', rfl⟩ : ∃ j', j = j' + 1 := ⟨j - 1, by omega⟩
      simp only [List.getD_cons_succ] at hc
      exact ih (by omega) (by simpa using hj) hc

/-- The tail of `set`: what `finish` returns. -/
theorem finish_ok {tol : ℚ} (h0 : 0 < tol) (h1 : tol ≤ 1) {x y : List ℚ} (hlen : x.length = y.length)
    (h2 : 2 ≤ x.length) {o : Interp} (h : finish tol x y = .ok o) :
    WF o ∧ o.tol = tol ∧ (o.x.zip o.y).Perm (x.zip y) ∧ (o.x, o.y) = order_points x y ∧ x.Nodup ∧
    has_dup tol x = false := by
  unfold finish at h
  by_cases hd : has_dup tol x = true
  · rw [if_pos hd] at h; cases h
  · rw [if_neg hd] at h
    have hnd := has_dup_false h0 (by simpa using hd)
    obtain ⟨l1, l2, hp, hs⟩ := order_points_spec x y hlen
    have hpos : (order_points x y).1.length > 0 := by rw [l1]; omega
    simp only [hpos, if_true, compute_table_eq tol h0 h1] at h
    injection h with h
    subst h
    have hxs : ((order_points x y).1).Nodup := by
      have : ((order_points x y).1).Perm x := by
        have := hp.map Prod.fst
        rwa [map_fst_zip_eq (by rw [l1, l2]), map_fst_zip_eq hlen] at this
      exact this.nodup_iff.mpr hnd
    refine ⟨⟨by show (order_points x y).1.length = (order_points x y).2.length; rw [l1, l2],
      by show 2 ≤ (order_points x y).1.length; rw [l1]; exact h2, ?_, rfl⟩, rfl, hp, rfl, hnd, by simpa using hd⟩
    show (order_points x y).1.Pairwise (· < ·)
    have hne : (order_points x y).1.Pairwise (· ≠ ·) := hxs
    exact (hs.and hne).imp (fun h => lt_of_le_of_ne h.1 h.2)

/-- Horner's loop evaluates the Newton form `Σ_j t_j Π_{i<j} (x - x_i)`. -/
theorem horner_eq_nf (x : ℚ) : ∀ (ts xs : List ℚ), ts ≠ [] → ts.length ≤ xs.length + 1 →
    horner x xs ts = nf x (nodes xs) (nodes ts) (ts.length - 1) := by
  intro ts
  induction ts with
  | nil => intro xs h; exact absurd rfl h
  | cons t0 tr ih =>
    intro xs _ hlen
    cases tr with
    | nil =>
      have : horner x xs [t0] = t0 := by cases xs <;> rfl
      rw [this]; simp [nf, nodes]
    | cons t1 ts' =>
      cases xs with
      | nil => simp at hlen
      | cons x0 xs' =>
        have hlen' : (t1 :: ts').length ≤ xs'.length + 1 := by simpa using hlen
        have hrec : horner x (x0 :: xs') (t0 :: t1 :: ts') = t0 + (x - x0) * horner x xs' (t1 :: ts') := rfl
        rw [hrec, ih xs' (by simp) hlen']
        unfold nf
        simp only [List.length_cons, Nat.add_sub_cancel]
        rw [Finset.sum_range_succ' _ (ts'.length + 1)]
        simp only [Finset.range_zero, Finset.prod_empty, mul_one]
        have e : ∀ j, nodes (t0 :: t1 :: ts') (j + 1) * ∏ i ∈ Finset.range (j + 1), (x - nodes (x0 :: xs') i)
            = (x - x0) * (nodes (t1 :: ts') j * ∏ i ∈ Finset.range j, (x - nodes xs' i)) := by
          intro j
          rw [Finset.prod_range_succ']
          simp only [nodes, List.getD_cons_succ, List.getD_cons_zero]
          ring
        simp only [e, ← Finset.mul_sum]
        simp only [nodes, List.getD_cons_zero]
        ring

theorem nodes_table_of (x y : List ℚ) {j : ℕ} (hj : j < x.length) :
    nodes (table_of x y) j = dd (nodes x) (nodes y) 0 j := by
  show (table_of x y).getD j 0 = _
  unfold table_of
  rw [List.getD_eq_getElem _ 0 (by simpa using hj)]
  simp

theorem nf_congr (x : ℚ) (v c c' : ℕ → ℚ) (k : ℕ) (h : ∀ j ≤ k, c j = c' j) : nf x v c k = nf x v c' k := by
  unfold nf
  apply Finset.sum_congr rfl
  intro j hj
  rw [h j (by simp at hj; omega)]

theorem injOn_nodes {x : List ℚ} (hs : x.Pairwise (· < ·)) :
    Set.InjOn (nodes x) (Finset.range x.length : Finset ℕ) := by
  intro i hi j hj hij
  simp only [Finset.coe_range, Set.mem_Iio] at hi hj
  unfold nodes at hij
  rw [List.getD_eq_getElem _ 0 hi, List.getD_eq_getElem _ 0 hj] at hij
  by_contra hne
  rcases Nat.lt_or_gt_of_ne hne with h | h
  · exact absurd hij (ne_of_lt (List.pairwise_iff_getElem.mp hs i j hi hj h))
  · exact absurd hij.symm (ne_of_lt (List.pairwise_iff_getElem.mp hs j i hj hi h))

/-- The interpolating polynomial of a constructed object (Mathlib's Lagrange interpolant). -/
noncomputable def poly (o : Interp) : ℚ[X] :=
  Lagrange.interpolate (Finset.range o.x.length) (nodes o.x) (nodes o.y)

/-- **The Newton form evaluated by Horner's rule is the Lagrange interpolating polynomial.** -/
theorem horner_eq_eval {o : Interp} (h : WF o) (x : ℚ) : horner x o.x o.table = (poly o).eval x := by
  have hn : o.x.length = (o.x.length - 1) + 1 := by have := h.two; omega
  have htl : o.table.length = o.x.length := by rw [h.table]; simp [table_of]
  rw [horner_eq_nf x o.table o.x (by intro e; rw [e] at htl; have := h.two; simp at htl; omega) (by rw [htl]; omega)]
  rw [htl, nf_congr x (nodes o.x) (nodes o.table) (dd (nodes o.x) (nodes o.y) 0) (o.x.length - 1)
    (fun j hj => by rw [h.table]; exact nodes_table_of o.x o.y (by omega))]
  rw [← eval_newtonPoly, newtonPoly_eq_interpolate (nodes o.x) (nodes o.y) (o.x.length - 1)
    (by rw [← hn]; exact injOn_nodes h.sorted)]
  unfold poly
  rw [← hn]

theorem getLastD_eq_nodes (x0 : ℚ) (xr : List ℚ) : (x0 :: xr).getLastD 0 = nodes (x0 :: xr) xr.length := by
  unfold nodes
  rw [List.getD_eq_getElem _ 0 (by simp), List.getLastD_eq_getLast?,
    List.getLast?_eq_some_getLast (by simp), Option.getD_some, List.getLast_eq_getElem]
  simp

/-- first and last abscissa -/
def xfirst (o : Interp) : ℚ := nodes o.x 0
def xlast (o : Interp) : ℚ := nodes o.x (o.x.length - 1)

theorem node_hit_none_iff (tol x : ℚ) : ∀ (xs ys : List ℚ), xs.length = ys.length →
    (node_hit tol x xs ys = none ↔ ∀ i < xs.length, ¬ |x - nodes xs i| < tol) := by
  intro xs
  induction xs with
  | nil => intro ys _; cases ys <;> simp [node_hit]
  | cons a t ih =>
    intro ys hl
    cases ys with
    | nil => simp at hl
    | cons b u =>
      have hl' : t.length = u.length := by simpa using hl
      unfold node_hit
      by_cases hc : |x - a| < tol
      · simp only [plt, pabs_eq, hc, decide_true, if_true]
        constructor
        · intro h; cases h
        · intro h; exact absurd hc (h 0 (by simp))
      · simp only [plt, pabs_eq, hc, decide_false, Bool.false_eq_true, if_false]
        rw [ih u hl']
        constructor
        · intro h i hi
          cases i with
          | zero => exact hc
          | succ i' => exact h i' (by simpa using hi)
        · intro h i hi
          exact h (i + 1) (by simpa using hi)

theorem node_hit_some (tol x : ℚ) : ∀ (xs ys : List ℚ) (v : ℚ), xs.length = ys.length →
    node_hit tol x xs ys = some v → ∃ i < xs.length, |x - nodes xs i| < tol ∧ v = nodes ys i := by
  intro xs
  induction xs with
  | nil => intro ys v _ h; cases ys <;> simp [node_hit] at h
  | cons a t ih =>
    intro ys v hl h
    cases ys with
    | nil => simp at hl
    | cons b u =>
      have hl' : t.length = u.length := by simpa using hl
      unfold node_hit at h
      by_cases hc : |x - a| < tol
      · simp only [plt, pabs_eq, hc, decide_true, if_true] at h
        injection h with h
        exact ⟨0, by simp, hc, h.symm⟩
      · simp only [plt, pabs_eq, hc, decide_false, Bool.false_eq_true, if_false] at h
        obtain ⟨i, hi, h1, h2⟩ := ih u v hl' h
        exact ⟨i + 1, by simpa using hi, h1, h2⟩

/-- What `__call__` returns on a constructed object. -/
theorem call_eq {o : Interp} (h : WF o) (x : ℚ) :
    call o x =
      match node_hit o.tol x o.x o.y with
      | some v => .ok v
      | none => if x < xfirst o ∨ xlast o < x then .error .valueError else .ok ((poly o).eval x) := by
  unfold call
  cases hn : node_hit o.tol x o.x o.y with
  | some v => rfl
  | none =>
    have htl : o.table.length = o.x.length := by rw [h.table]; simp [table_of]
    have hte : o.table.isEmpty = false := by
      cases ht : o.table with
      | nil => rw [ht] at htl; have := h.two; simp at htl; omega
      | cons _ _ => rfl
    simp only [hte, Bool.false_eq_true, if_false]
    cases hx : o.x with
    | nil => have := h.two; rw [hx] at this; simp at this
    | cons x0 xr =>
      simp only
      rw [getLastD_eq_nodes, ← hx, ← horner_eq_eval h x]
      have e1 : xfirst o = x0 := by unfold xfirst nodes; rw [hx]; rfl
      have e2 : xlast o = nodes o.x xr.length := by unfold xlast; rw [hx]; rfl
      simp only [plt, Bool.or_eq_true, decide_eq_true_eq, e1, e2]

theorem has_dup_false_iff (tol : ℚ) (x : List ℚ) :
    has_dup tol x = false ↔ x.Pairwise (fun a b => ¬ |a - b| < tol) := by
  induction x with
  | nil => simp [has_dup]
  | cons a l ih =>
    unfold has_dup
    rw [Bool.or_eq_false_iff, ih, List.pairwise_cons, List.any_eq_false]
    simp [plt, pabs_eq]

theorem has_dup_perm (tol : ℚ) {x x' : List ℚ} (h : x.Perm x') : has_dup tol x = has_dup tol x' := by
  have : has_dup tol x = false ↔ has_dup tol x' = false := by
    rw [has_dup_false_iff, has_dup_false_iff]
    exact h.pairwise_iff (fun {a b} hab => by rwa [abs_sub_comm])
  cases h1 : has_dup tol x <;> cases h2 : has_dup tol x' <;> simp_all

/-- `Interpolation(xs, ys)` (two-list form): truncation to the common length, then `finish`. -/
theorem set_two_lists (tol : ℚ) (xs ys : List ℚ) :
    GenQ.Interpolation.set tol [.list xs, .list ys] =
      if min xs.length ys.length < 2 then .error .valueError
      else finish tol (xs.take (min xs.length ys.length)) (ys.take (min xs.length ys.length)) := by
  simp only [GenQ.Interpolation.set, PyArg.isNum, Bool.or_self, Bool.false_eq_true, if_false, set2]
  have h1 : (xs.take (min xs.length ys.length)).length = min xs.length ys.length := by simp
  have h2 : (ys.take (min xs.length ys.length)).length = min xs.length ys.length := by simp
  simp only [h1, h2, or_self]

theorem take_zip (xs ys : List ℚ) :
    (xs.take (min xs.length ys.length)).zip (ys.take (min xs.length ys.length)) = xs.zip ys := by
  unfold List.zip
  rw [← List.take_zipWith, List.take_of_length_le]
  simp

/-- What a successful `Interpolation(xs, ys)` is. -/
theorem set_two_lists_ok {tol : ℚ} (h0 : 0 < tol) (h1 : tol ≤ 1) {xs ys : List ℚ} {o : Interp}
    (h : GenQ.Interpolation.set tol [.list xs, .list ys] = .ok o) :
    WF o ∧ o.tol = tol ∧ (o.x.zip o.y).Perm (xs.zip ys) ∧ 2 ≤ min xs.length ys.length ∧
    o.x.Pairwise (fun a b => ¬ |a - b| < tol) := by
  rw [set_two_lists] at h
  by_cases hl : min xs.length ys.length < 2
  · rw [if_pos hl] at h; cases h
  · rw [if_neg hl] at h
    obtain ⟨w, t, p, _, _, hd⟩ := finish_ok h0 h1 (x := xs.take (min xs.length ys.length))
      (y := ys.take (min xs.length ys.length)) (by simp) (by simp; omega) h
    have hx : o.x.Perm (xs.take (min xs.length ys.length)) := by
      have := p.map Prod.fst
      rwa [map_fst_zip_eq w.len, map_fst_zip_eq (by simp)] at this
    have hpw := (hx.pairwise_iff (fun {a b} hab => by rwa [abs_sub_comm])).mpr ((has_dup_false_iff tol _).mp hd)
    rw [take_zip] at p
    exact ⟨w, t, p, by omega, hpw⟩

theorem nodes_between {o : Interp} (h : WF o) {i : ℕ} (hi : i < o.x.length) :
    xfirst o ≤ nodes o.x i ∧ nodes o.x i ≤ xlast o := by
  have h2 := h.two
  have g : ∀ j (hj : j < o.x.length), nodes o.x j = o.x[j] := fun j hj => List.getD_eq_getElem _ 0 hj
  unfold xfirst xlast
  rw [g 0 (by omega), g i hi, g (o.x.length - 1) (by omega)]
  constructor
  · rcases Nat.eq_zero_or_pos i with rfl | hpos
    · exact le_refl _
    · exact le_of_lt (List.pairwise_iff_getElem.mp h.sorted 0 i (by omega) hi hpos)
  · rcases Nat.lt_or_ge i (o.x.length - 1) with hlt | hge
    · exact le_of_lt (List.pairwise_iff_getElem.mp h.sorted i (o.x.length - 1) hi (by omega) hlt)
    · have : i = o.x.length - 1 := by omega
      subst this; exact le_refl _

/-- The range test shared by `__call__` and `derivative`. -/
theorem derivative_outside {o : Interp} (h : WF o) {t : ℚ} (ht : t < xfirst o ∨ xlast o < t) :
    GenQ.Interpolation.derivative o t = .error .valueError := by
  unfold GenQ.Interpolation.derivative
  cases hx : o.x with
  | nil => have := h.two; rw [hx] at this; simp at this
  | cons x0 xr =>
    simp only
    have e1 : xfirst o = x0 := by unfold xfirst nodes; rw [hx]; rfl
    have e2 : xlast o = (x0 :: xr).getLastD 0 := by
      rw [getLastD_eq_nodes]; unfold xlast; rw [hx]; rfl
    have : (plt t x0 || plt ((x0 :: xr).getLastD 0) t) = true := by
      rw [e1, e2] at ht
      simpa only [plt, Bool.or_eq_true, decide_eq_true_eq] using ht
    rw [if_pos this]

/-- Abscissae supplied in increasing order are kept as they are. -/
theorem set_sorted_keeps_x {tol : ℚ} (h0 : 0 < tol) (h1 : tol ≤ 1) {x y : List ℚ} {o : Interp}
    (hs : x.Pairwise (· < ·)) (hl : x.length = y.length)
    (h : GenQ.Interpolation.set tol [.list x, .list y] = .ok o) : o.x = x := by
  rw [set_two_lists] at h
  split_ifs at h with h2
  rw [← hl, Nat.min_self, List.take_of_length_le (le_refl _), List.take_of_length_le (le_of_eq hl.symm)] at h
  rw [← hl, Nat.min_self] at h2
  obtain ⟨_, _, _, he, _⟩ := finish_ok h0 h1 hl (by omega) h
  rw [order_points_sorted x y hl hs] at he
  exact (Prod.mk.inj he).1

/-- The times `-h, …, n-1-h` of the conjunction helpers. -/
def times (n : ℕ) (half : ℤ) : List ℚ := (List.range n).map (fun (i : ℕ) => (((i : ℤ) - half : ℤ) : ℚ))

theorem times_sorted (n : ℕ) (half : ℤ) : (times n half).Pairwise (· < ·) := by
  unfold times
  rw [List.pairwise_map]
  apply (List.pairwise_lt_range (n := n)).imp
  intro a b hab
  exact_mod_cast (by omega : (a : ℤ) - half < (b : ℤ) - half)

theorem nodes_times {n : ℕ} (half : ℤ) {i : ℕ} (hi : i < n) : nodes (times n half) i = (((i : ℤ) - half : ℤ) : ℚ) := by
  unfold nodes times
  rw [List.getD_eq_getElem _ 0 (by simpa using hi)]
  simp

/-- The positional arguments `x0, y0, x1, y1, …` of the n-argument form. -/
def flat (pts : List (ℚ × ℚ)) : List PyArg := pts.flatMap (fun p => [.num p.1, .num p.2])

theorem flat_cons (p : ℚ × ℚ) (t : List (ℚ × ℚ)) : flat (p :: t) = .num p.1 :: .num p.2 :: flat t := rfl

theorem length_flat (pts : List (ℚ × ℚ)) : (flat pts).length = 2 * pts.length := by
  induction pts with
  | nil => rfl
  | cons p t ih => rw [flat_cons]; simp only [List.length_cons, ih]; omega

theorem all_isNum_flat (pts : List (ℚ × ℚ)) : (flat pts).all PyArg.isNum = true := by
  induction pts with
  | nil => rfl
  | cons p t ih => rw [flat_cons]; simp only [List.all_cons, PyArg.isNum, ih, Bool.and_self]

theorem evens_flat (pts : List (ℚ × ℚ)) : evens ((flat pts).map PyArg.val) = pts.map Prod.fst := by
  induction pts with
  | nil => rfl
  | cons p t ih => rw [flat_cons]; simp only [List.map_cons, evens, PyArg.val, ih]

theorem odds_flat (pts : List (ℚ × ℚ)) : odds ((flat pts).map PyArg.val) = pts.map Prod.snd := by
  induction pts with
  | nil => rfl
  | cons p t ih => rw [flat_cons]; simp only [List.map_cons, odds, PyArg.val, ih]

/-- the default branch of `set` (four or more positional arguments) -/
theorem set_many (tol : ℚ) (a b c d : PyArg) (t : List PyArg) :
    GenQ.Interpolation.set tol (a :: b :: c :: d :: t) =
      (let args := if (a :: b :: c :: d :: t).length % 2 != 0 then (a :: b :: c :: d :: t).dropLast else (a :: b :: c :: d :: t)
       if !(args.all PyArg.isNum) then .error .typeError
       else finish tol (evens (args.map PyArg.val)) (odds (args.map PyArg.val))) := rfl

theorem set_lists_of_points (tol : ℚ) (pts : List (ℚ × ℚ)) (h : 2 ≤ pts.length) :
    GenQ.Interpolation.set tol [.list (pts.map Prod.fst), .list (pts.map Prod.snd)]
      = finish tol (pts.map Prod.fst) (pts.map Prod.snd) := by
  rw [set_two_lists]
  simp only [List.length_map, Nat.min_self]
  rw [if_neg (by omega), List.take_of_length_le (by simp), List.take_of_length_le (by simp)]

/-- `Interpolation(x0, y0, x1, y1, …)` is `Interpolation([x0, x1, …], [y0, y1, …])`. -/
theorem set_varargs (tol : ℚ) (pts : List (ℚ × ℚ)) (h : 2 ≤ pts.length) :
    GenQ.Interpolation.set tol (flat pts)
      = GenQ.Interpolation.set tol [.list (pts.map Prod.fst), .list (pts.map Prod.snd)] := by
  rw [set_lists_of_points tol pts h]
  match pts, h with
  | p1 :: p2 :: t, _ =>
    have hl : (flat (p1 :: p2 :: t)).length % 2 = 0 := by rw [length_flat]; omega
    have e : flat (p1 :: p2 :: t) = .num p1.1 :: .num p1.2 :: .num p2.1 :: .num p2.2 :: flat t := rfl
    rw [e, set_many, ← e]
    simp only [hl, bne_self_eq_false, Bool.false_eq_true, if_false, all_isNum_flat, Bool.not_true,
      evens_flat, odds_flat]

/-- A trailing unpaired argument is dropped. -/
theorem set_varargs_odd (tol : ℚ) (pts : List (ℚ × ℚ)) (h : 2 ≤ pts.length) (z : ℚ) :
    GenQ.Interpolation.set tol (flat pts ++ [.num z])
      = GenQ.Interpolation.set tol [.list (pts.map Prod.fst), .list (pts.map Prod.snd)] := by
  rw [set_lists_of_points tol pts h]
  match pts, h with
  | p1 :: p2 :: t, _ =>
    have hl : (flat (p1 :: p2 :: t) ++ [PyArg.num z]).length % 2 = 1 := by
      rw [List.length_append, length_flat]; simp only [List.length_cons, List.length_nil]; omega
    have e : flat (p1 :: p2 :: t) ++ [PyArg.num z]
        = .num p1.1 :: .num p1.2 :: .num p2.1 :: .num p2.2 :: (flat t ++ [PyArg.num z]) := rfl
    rw [e, set_many, ← e]
    simp only [hl, List.dropLast_concat, show ((1 : Nat) != 0) = true from rfl, if_true]
    simp only [all_isNum_flat, Bool.not_true, evens_flat, odds_flat, Bool.false_eq_true, if_false]

end Pymeeus.Refine.Interpolation
