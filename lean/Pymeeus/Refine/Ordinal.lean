import Pymeeus.Refine.EpochCal
/-
The stubs for CPython's `datetime.date` ordinals: `fromordinal (toordinal (y, m, d)) = (y, m, d)` for every
proleptic Gregorian date of the years 1..9999 (staged omega for the year, kernel-evaluated table for month/day).
-/
namespace Pymeeus.Refine
open Pymeeus Pymeeus.PQ Pymeeus.GenQ Pymeeus.Spec

theorem fdiv_pos (a b : Int) (hb : 0 ≤ b) : idiv a b = a / b := Int.fdiv_eq_ediv_of_nonneg _ hb

/-- Gregorian (proleptic) leap rule on ints -/
def gleap (y : Int) : Prop := y % 4 = 0 ∧ (y % 100 ≠ 0 ∨ y % 400 = 0)
instance (y : Int) : Decidable (gleap y) := by unfold gleap; infer_instance

/-- year part of CPython's `ord_to_ymd` -/
theorem ord_year (Y t : Int) (hY : 0 ≤ Y) (ht0 : 0 ≤ t) (ht : t ≤ 364 + (if gleap (Y + 1) then 1 else 0)) :
    let n := 365 * Y + Y / 4 - Y / 100 + Y / 400 + t
    let n400 := n / 146097
    let r400 := n % 146097
    let n100 := r400 / 36524
    let r100 := r400 % 36524
    let n4 := r100 / 1461
    let r4 := r100 % 1461
    let n1 := r4 / 365
    let r1 := r4 % 365
    (t = 365 → (n1 = 4 ∨ n100 = 4) ∧ n400 * 400 + 1 + n100 * 100 + n4 * 4 + n1 - 1 = Y + 1) ∧
    (t < 365 → ¬ (n1 = 4 ∨ n100 = 4) ∧ n400 * 400 + 1 + n100 * 100 + n4 * 4 + n1 = Y + 1 ∧ r1 = t ∧
        ((n1 = 3 ∧ (n4 ≠ 24 ∨ n100 = 3)) ↔ gleap (Y + 1))) := by
  intro n n400 r400 n100 r100 n4 r4 n1 r1
  unfold gleap at *
  -- decompose Y = 400 q + 100 c + 4 f + e
  obtain ⟨q, c, f, e, hYe, hc0, hc3, hf0, hf24, he0, he3⟩ :
      ∃ q c f e : Int, Y = 400 * q + 100 * c + 4 * f + e ∧ 0 ≤ c ∧ c ≤ 3 ∧ 0 ≤ f ∧ f ≤ 24 ∧ 0 ≤ e ∧ e ≤ 3 :=
    ⟨Y / 400, Y % 400 / 100, Y % 400 % 100 / 4, Y % 400 % 100 % 4, by omega, by omega, by omega, by omega, by omega,
      by omega, by omega⟩
  have hq : 0 ≤ q := by omega
  have h4 : Y / 4 = 100 * q + 25 * c + f := by omega
  have h100 : Y / 100 = 4 * q + c := by omega
  have h400 : Y / 400 = q := by omega
  have hn : n = 146097 * q + 36524 * c + 1461 * f + 365 * e + t := by simp only [n]; omega
  have l4 : (Y + 1) % 4 = 0 ↔ e = 3 := by omega
  have l100 : (Y + 1) % 100 = 0 ↔ (f = 24 ∧ e = 3) := by omega
  have l400 : (Y + 1) % 400 = 0 ↔ (c = 3 ∧ f = 24 ∧ e = 3) := by omega
  have ht' : t ≤ 364 ∨ (t = 365 ∧ e = 3 ∧ (¬ (f = 24) ∨ c = 3)) := by
    split_ifs at ht with hl
    · rcases (by omega : t ≤ 364 ∨ t = 365) with h | h
      · left; exact h
      · right; refine ⟨h, by omega, ?_⟩
        rcases hl.2 with h2 | h2
        · left; intro hf; exact h2 (l100.mpr ⟨hf, by omega⟩)
        · right; exact (l400.mp h2).1
    · left; omega
  have e400 : n400 = q := by simp only [n400, hn]; omega
  have er400 : r400 = 36524 * c + 1461 * f + 365 * e + t := by simp only [r400, hn]; omega
  constructor
  · intro h365
    have he : e = 3 := by omega
    by_cases hc : c = 3 ∧ f = 24
    · have a1 : n100 = 4 := by simp only [n100, er400]; omega
      have a2 : r100 = 0 := by simp only [r100, er400]; omega
      have a3 : n4 = 0 := by simp only [n4, a2]; omega
      have a4 : n1 = 0 := by simp only [n1, r4, a2]; omega
      omega
    · have hf : f ≤ 23 ∨ c = 3 := by omega
      have a1 : n100 = c := by simp only [n100, er400]; omega
      have a2 : r100 = 1461 * f + 365 * e + t := by simp only [r100, er400]; omega
      have a3 : n4 = f := by simp only [n4, a2]; omega
      have a5 : r4 = 1460 := by simp only [r4, a2]; omega
      have a4 : n1 = 4 := by simp only [n1, a5]; omega
      omega
  · intro hlt
    have a1 : n100 = c := by simp only [n100, er400]; omega
    have a2 : r100 = 1461 * f + 365 * e + t := by simp only [r100, er400]; omega
    have a3 : n4 = f := by simp only [n4, a2]; omega
    have a5 : r4 = 365 * e + t := by simp only [r4, a2]; omega
    have a4 : n1 = e := by simp only [n1, a5]; omega
    have a6 : r1 = t := by simp only [r1, a5]; omega
    refine ⟨by omega, by omega, a6, ?_⟩
    rw [a4, a3, a1, l4]
    constructor
    · rintro ⟨h3, h⟩; refine ⟨h3, ?_⟩; rcases h with h | h
      · left; intro h0; exact h (l100.mp h0).1
      · by_cases hf : f = 24
        · right; exact l400.mpr ⟨h, hf, h3⟩
        · left; intro h0; exact hf (l100.mp h0).1
    · rintro ⟨h3, h⟩; refine ⟨h3, ?_⟩; rcases h with h | h
      · by_cases hf : f = 24
        · exact absurd (l100.mpr ⟨hf, h3⟩) h
        · left; exact hf
      · right; exact (l400.mp h).1


/-- month/day part of `ord_to_ymd` from the 0-based day of the year -/
def mdOf (leapyear : Bool) (n : Int) : Int × Int :=
  let month := idiv (n + 50) 32
  let preceding := days_before_month_tbl.getD (month - 1).toNat 0 + (if month > 2 ∧ leapyear then 1 else 0)
  if preceding > n then
    let month := month - 1
    let preceding := preceding - (maxdays.getD (month - 1).toNat 0 + (if month = 2 ∧ leapyear then 1 else 0))
    (month, n - preceding + 1)
  else (month, n - preceding + 1)

def dbmI (lp : Bool) (m : Int) : Int := days_before_month_tbl.getD (m - 1).toNat 0 + (if m > 2 ∧ lp then 1 else 0)
def dimI (lp : Bool) (m : Int) : Int := if m = 2 ∧ lp then 29 else maxdays.getD (m - 1).toNat 0

/-- all 2 x 12 x 31 (leap, month, day) combinations, evaluated by the kernel -/
theorem mdOf_table : ∀ lp ∈ [true, false], ∀ m ∈ List.range 12, ∀ d ∈ List.range 31,
    ((d : Int) + 1 ≤ dimI lp ((m : Int) + 1) →
      mdOf lp (dbmI lp ((m : Int) + 1) + ((d : Int) + 1) - 1) = ((m : Int) + 1, (d : Int) + 1) ∧
      0 ≤ dbmI lp ((m : Int) + 1) + ((d : Int) + 1) - 1 ∧
      dbmI lp ((m : Int) + 1) + ((d : Int) + 1) - 1 ≤ 364 + (if lp then 1 else 0) ∧
      (dbmI lp ((m : Int) + 1) + ((d : Int) + 1) - 1 = 365 → (m : Int) + 1 = 12 ∧ (d : Int) + 1 = 31)) := by
  decide +kernel

theorem mdOf_eq (lp : Bool) (m d : Int) (hm1 : 1 ≤ m) (hm12 : m ≤ 12) (hd1 : 1 ≤ d) (hd : d ≤ dimI lp m) :
    mdOf lp (dbmI lp m + d - 1) = (m, d) ∧ 0 ≤ dbmI lp m + d - 1 ∧ dbmI lp m + d - 1 ≤ 364 + (if lp then 1 else 0) ∧
      (dbmI lp m + d - 1 = 365 → m = 12 ∧ d = 31) := by
  have hd31 : d ≤ 31 := by
    unfold dimI at hd
    interval_cases m <;> simp [maxdays] at hd <;> (try split_ifs at hd) <;> omega
  have hlp : lp ∈ [true, false] := by cases lp <;> simp
  have := mdOf_table lp hlp (m - 1).toNat (List.mem_range.mpr (by omega)) (d - 1).toNat (List.mem_range.mpr (by omega))
  have e1 : (((m - 1).toNat : Int) + 1) = m := by omega
  have e2 : (((d - 1).toNat : Int) + 1) = d := by omega
  rw [e1, e2] at this
  exact this hd

theorem calendar_isleap_iff (y : Int) : calendar_isleap y = true ↔ gleap y := by
  unfold calendar_isleap gleap
  simp [fmod_pos]


/-- `ord_to_ymd` on the 0-based ordinal, with `/` and `%` -/
def ordCore (n : Int) : Int × Int × Int :=
  if (n % 146097 % 36524 % 1461 / 365 = 4 ∨ n % 146097 / 36524 = 4) then
    (n / 146097 * 400 + 1 + n % 146097 / 36524 * 100 + n % 146097 % 36524 / 1461 * 4 + n % 146097 % 36524 % 1461 / 365 - 1, 12, 31)
  else
    (n / 146097 * 400 + 1 + n % 146097 / 36524 * 100 + n % 146097 % 36524 / 1461 * 4 + n % 146097 % 36524 % 1461 / 365,
     mdOf (decide (n % 146097 % 36524 % 1461 / 365 = 3) && (decide (n % 146097 % 36524 / 1461 ≠ 24) || decide (n % 146097 / 36524 = 3)))
       (n % 146097 % 36524 % 1461 % 365))

theorem dt_fromordinal_core (n : Int) (h1 : 1 ≤ n) (h2 : n ≤ 3652059) : dt_fromordinal n = .ok (ordCore (n - 1)) := by
  have c1 : ¬ (n < -2147483648 ∨ n > 2147483647) := by omega
  have c2 : ¬ (n < 1 ∨ n > 3652059) := by omega
  unfold dt_fromordinal ordCore mdOf
  simp only [c1, c2, if_false, fdiv_pos _ _ (by decide : (0:Int) ≤ 146097), fmod_pos _ _ (by decide : (0:Int) ≤ 146097),
    fdiv_pos _ _ (by decide : (0:Int) ≤ 36524), fmod_pos _ _ (by decide : (0:Int) ≤ 36524),
    fdiv_pos _ _ (by decide : (0:Int) ≤ 1461), fmod_pos _ _ (by decide : (0:Int) ≤ 1461),
    fdiv_pos _ _ (by decide : (0:Int) ≤ 365), fmod_pos _ _ (by decide : (0:Int) ≤ 365)]
  split_ifs <;> rfl

/-- CPython's `date.fromordinal(date(y, m, d).toordinal()) == date(y, m, d)` for the model's stubs. -/
theorem dt_fromordinal_toordinal (y m d : Int) (hv : dt_valid y m d = true) :
    dt_fromordinal (dt_toordinal y m d) = .ok (y, m, d) := by
  unfold dt_valid at hv
  simp only [Bool.and_eq_true, decide_eq_true_eq] at hv
  obtain ⟨⟨⟨⟨⟨hy1, hy2⟩, hm1⟩, hm12⟩, hd1⟩, hd⟩ := hv
  have hdim : dt_days_in_month y m = dimI (calendar_isleap y) m := rfl
  have hdbm : dt_days_before_month y m = dbmI (calendar_isleap y) m := rfl
  rw [hdim] at hd
  obtain ⟨hmd, ht0, ht1, ht365⟩ := mdOf_eq (calendar_isleap y) m d hm1 hm12 hd1 hd
  have hlp : (if calendar_isleap y = true then (1:Int) else 0) = if gleap (y - 1 + 1) then 1 else 0 := by
    rw [show y - 1 + 1 = y by ring]
    by_cases h : gleap y
    · simp [h, (calendar_isleap_iff y).mpr h]
    · have : calendar_isleap y = false := by
        cases hc : calendar_isleap y
        · rfl
        · exact absurd ((calendar_isleap_iff y).mp hc) h
      simp [h, this]
  rw [hlp] at ht1
  have hord : dt_toordinal y m d = (365 * (y - 1) + (y - 1) / 4 - (y - 1) / 100 + (y - 1) / 400
      + (dbmI (calendar_isleap y) m + d - 1)) + 1 := by
    unfold dt_toordinal dt_days_before_year
    simp only [hdbm, fdiv_pos _ _ (by decide : (0:Int) ≤ 4), fdiv_pos _ _ (by decide : (0:Int) ≤ 100),
      fdiv_pos _ _ (by decide : (0:Int) ≤ 400)]
    ring
  obtain ⟨k1, k2⟩ := ord_year (y - 1) (dbmI (calendar_isleap y) m + d - 1) (by omega) ht0 ht1
  have hr1 : 1 ≤ dt_toordinal y m d := by rw [hord]; omega
  have hr2 : dt_toordinal y m d ≤ 3652059 := by
    rw [hord]
    by_cases h365 : dbmI (calendar_isleap y) m + d - 1 = 365
    · have hg : gleap (y - 1 + 1) := by
        by_contra hng; simp only [hng, if_false] at ht1; omega
      unfold gleap at hg
      omega
    · have : dbmI (calendar_isleap y) m + d - 1 ≤ 364 := by split_ifs at ht1 <;> omega
      omega
  rw [dt_fromordinal_core _ hr1 hr2, hord, add_sub_cancel_right]
  unfold ordCore
  by_cases h365 : dbmI (calendar_isleap y) m + d - 1 = 365
  · obtain ⟨ka, kb⟩ := k1 h365
    obtain ⟨rfl, rfl⟩ := ht365 h365
    rw [if_pos ka, kb]
    simp
  · have hlt : dbmI (calendar_isleap y) m + d - 1 < 365 := by split_ifs at ht1 <;> omega
    obtain ⟨ka, kb, kc, kd⟩ := k2 hlt
    rw [if_neg ka, kb, kc]
    have hb : (decide ((365 * (y - 1) + (y - 1) / 4 - (y - 1) / 100 + (y - 1) / 400 + (dbmI (calendar_isleap y) m + d - 1)) % 146097 % 36524 % 1461 / 365 = 3) &&
        (decide ((365 * (y - 1) + (y - 1) / 4 - (y - 1) / 100 + (y - 1) / 400 + (dbmI (calendar_isleap y) m + d - 1)) % 146097 % 36524 / 1461 ≠ 24) ||
         decide ((365 * (y - 1) + (y - 1) / 4 - (y - 1) / 100 + (y - 1) / 400 + (dbmI (calendar_isleap y) m + d - 1)) % 146097 / 36524 = 3)))
        = calendar_isleap y := by
      rw [Bool.eq_iff_iff, calendar_isleap_iff]
      rw [show y - 1 + 1 = y by ring] at kd
      rw [← kd]
      simp
    rw [hb, hmd]
    simp

end Pymeeus.Refine
