import Pymeeus.Refine.YearOrder
import Pymeeus.Spec.Weekday
namespace Pymeeus.Refine
open Pymeeus Pymeeus.PQ Pymeeus.GenQ Pymeeus.Spec

/-- Meeus' day number + 1 is congruent mod 7 to Zeller's Gregorian weekday (0 = Sunday). -/
theorem jdnI_weekday (y m d : Int) (hm1 : 1 ≤ m) (hm12 : m ≤ 12)
    (hg : isJulianI (if m ≤ 2 then y - 1 else y) (if m ≤ 2 then m + 12 else m) d = false) :
    (jdnI y m d + 1) % 7 = weekdayGregorian y m d := by
  unfold jdnI weekdayGregorian zeller
  simp only [hg, Bool.false_eq_true, if_false]
  generalize hy' : (if m ≤ 2 then y - 1 else y) = y'
  generalize hm' : (if m ≤ 2 then m + 12 else m) = m'
  have hm3 : 3 ≤ m' ∧ m' ≤ 14 := by rw [← hm']; split_ifs <;> omega
  obtain ⟨h3, h14⟩ := hm3
  have e1 : 1461 * (y' + 4716) / 4 = 365 * (y' + 4716) + (y' + 4716) / 4 := by omega
  have e2 : (y' + 4716) / 4 = 25 * (y' / 100) + 1179 + (y' % 100) / 4 := by omega
  have e3 : y' = 100 * (y' / 100) + y' % 100 := by omega
  rw [e1, e2]
  generalize y' / 100 = J at *
  generalize y' % 100 = K at *
  subst e3
  interval_cases m' <;> omega

end Pymeeus.Refine
