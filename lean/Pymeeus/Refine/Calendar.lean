import Pymeeus.Refine.EpochCore
import Pymeeus.Spec.Civil
import Mathlib.Tactic.IntervalCases
import Mathlib.Tactic.Tauto
/-
Integer-level correctness of the Meeus date <-> day-number recipes as the model computes them
(`jdnI`, `invI` of Refine/EpochCore.lean), against the civil calendar of Spec/Civil.lean.
All statements are for every integer year ≥ -4712 (no upper bound).
-/
namespace Pymeeus.Refine
open Pymeeus Pymeeus.Spec

/-- year part of the inverse -/
theorem c_eq (Y s : Int) (hs : 123 ≤ s) (hs2 : s ≤ 487 ∨ (s = 488 ∧ Y % 4 = 3)) :
    (20 * (1461 * Y / 4 + s) - 2442) / 7305 = Y := by omega

/-- month/day part of the inverse, shifted month `m'` in 3..14 -/
theorem md_eq (m' d : Int) (h3 : 3 ≤ m') (h14 : m' ≤ 14) (hd1 : 1 ≤ d) (hd31 : d ≤ 31)
    (h30 : (m' = 4 ∨ m' = 6 ∨ m' = 9 ∨ m' = 11) → d ≤ 30) (hfeb : m' = 14 → d ≤ 29) :
    (10000 * (306001 * (m' + 1) / 10000 + d)) / 306001 = m' + 1 := by
  interval_cases m' <;> omega

theorem s_bounds (m' d : Int) (h3 : 3 ≤ m') (h14 : m' ≤ 14) (hd1 : 1 ≤ d) (hd31 : d ≤ 31)
    (hfeb : m' = 14 → d ≤ 29) :
    123 ≤ 306001 * (m' + 1) / 10000 + d ∧ 306001 * (m' + 1) / 10000 + d ≤ 488 ∧
    (306001 * (m' + 1) / 10000 + d = 488 → m' = 14 ∧ d = 29) := by
  interval_cases m' <;> omega

/-- the century count recovered by the inverse is the forward one minus 4 -/
theorem alpha_eq (y' s : Int) (hs : 123 ≤ s)
    (hs2 : s ≤ 487 ∨ (s = 488 ∧ (y' % 100 < 99 ∨ (y' / 100) % 4 = 3))) :
    (4 * (1461 * (y' + 4716) / 4 + s + (2 - y' / 100 + y' / 100 / 4) - 1524) - 7468865) / 146097
      = y' / 100 - 4 := by
  have h1 : 1461 * (y' + 4716) / 4 = 365 * (y' + 4716) + (y' + 4716) / 4 := by omega
  have h2 : (y' + 4716) / 4 = 25 * (y' / 100) + 1179 + (y' % 100) / 4 := by omega
  rw [h1, h2]
  omega

/-- inverse from the calendar-corrected day number `a` -/
theorem inv_of_a (a Y m' d : Int) (h3 : 3 ≤ m') (h14 : m' ≤ 14) (hd1 : 1 ≤ d) (hd31 : d ≤ 31)
    (h30 : (m' = 4 ∨ m' = 6 ∨ m' = 9 ∨ m' = 11) → d ≤ 30)
    (hfeb : m' = 14 → d ≤ 28 ∨ (d = 29 ∧ Y % 4 = 3))
    (hA : a = 1461 * Y / 4 + 306001 * (m' + 1) / 10000 + d - 1524) :
    invA a = (m' + 1, Y, d) := by
  have hfeb' : m' = 14 → d ≤ 29 := by omega
  obtain ⟨hs1, hs2, hs3⟩ := s_bounds m' d h3 h14 hd1 hd31 hfeb'
  have hb : a + 1524 = 1461 * Y / 4 + (306001 * (m' + 1) / 10000 + d) := by omega
  have hc : (20 * (a + 1524) - 2442) / 7305 = Y := by
    rw [hb]; exact c_eq Y _ hs1 (by omega)
  have he : (10000 * (a + 1524 - 1461 * Y / 4)) / 306001 = m' + 1 := by
    rw [hb, show 1461 * Y / 4 + (306001 * (m' + 1) / 10000 + d) - 1461 * Y / 4 = 306001 * (m' + 1) / 10000 + d by omega]
    exact md_eq m' d h3 h14 hd1 hd31 h30 hfeb'
  simp only [invA, hc, he]
  simp only [Prod.mk.injEq, true_and]
  omega

theorem invI_eq (y' m' d : Int) (h3 : 3 ≤ m') (h14 : m' ≤ 14) (hd1 : 1 ≤ d) (hd31 : d ≤ 31)
    (h30 : (m' = 4 ∨ m' = 6 ∨ m' = 9 ∨ m' = 11) → d ≤ 30)
    (hfeb : m' = 14 → d ≤ 28 ∨ (d = 29 ∧ (y' + 1) % 4 = 0 ∧
        (isJulianI y' m' d = true ∨ (y' + 1) % 100 ≠ 0 ∨ (y' + 1) % 400 = 0)))
    (hgap : ¬ (y' = 1582 ∧ m' = 10 ∧ 5 ≤ d ∧ d ≤ 14)) :
    invI (1461 * (y' + 4716) / 4 + 306001 * (m' + 1) / 10000 + d
        + (if isJulianI y' m' d then 0 else 2 - y' / 100 + y' / 100 / 4) - 1524) = (m' + 1, y' + 4716, d) := by
  have hfeb' : m' = 14 → d ≤ 29 := by omega
  have hfebY : m' = 14 → d ≤ 28 ∨ (d = 29 ∧ (y' + 4716) % 4 = 3) := by
    intro hm; rcases hfeb hm with h | ⟨h1, h2, _⟩
    · left; exact h
    · right; omega
  obtain ⟨hs1, hs2, hs3⟩ := s_bounds m' d h3 h14 hd1 hd31 hfeb'
  have hT : 306001 * (m' + 1) / 10000 ≤ 459 ∧ 122 ≤ 306001 * (m' + 1) / 10000 := by omega
  have hY : 1461 * (y' + 4716) / 4 = 365 * (y' + 4716) + (y' + 4716) / 4 := by omega
  cases hj : isJulianI y' m' d
  · -- Gregorian
    simp only [Bool.false_eq_true, if_false]
    have hj' : ¬ (y' < 1582 ∨ (y' = 1582 ∧ m' < 10) ∨ (y' = 1582 ∧ m' = 10 ∧ d < 5)) := by
      intro hh; simp [isJulianI] at hj; omega
    generalize hz : 1461 * (y' + 4716) / 4 + 306001 * (m' + 1) / 10000 + d + (2 - y' / 100 + y' / 100 / 4) - 1524 = z
    have halpha : (4 * z - 7468865) / 146097 = y' / 100 - 4 := by
      have := alpha_eq y' (306001 * (m' + 1) / 10000 + d) hs1 (by
        rcases lt_or_ge (306001 * (m' + 1) / 10000 + d) 488 with h | h
        · left; omega
        · right
          have h488 : 306001 * (m' + 1) / 10000 + d = 488 := by omega
          obtain ⟨hm, hd⟩ := hs3 h488
          rcases hfeb hm with h28 | ⟨_, h4, hrest⟩
          · omega
          · simp [hj] at hrest
            refine ⟨h488, ?_⟩
            omega)
      rw [← hz, ← this]; congr 2; omega
    have hzlarge : ¬ z < 2299161 := by
      have : 1582 ≤ y' := by omega
      have h4 : (y' + 4716) / 4 = 25 * (y' / 100) + 1179 + (y' % 100) / 4 := by omega
      by_cases hy : y' = 1582
      · subst hy
        have hm10 : 10 ≤ m' := by omega
        interval_cases m' <;> omega
      · omega
    simp only [invI, hzlarge, if_false, halpha]
    apply inv_of_a _ _ _ _ h3 h14 hd1 hd31 h30 hfebY
    omega
  · -- Julian
    simp only [if_true]
    have hj' : (y' < 1582 ∨ (y' = 1582 ∧ m' < 10) ∨ (y' = 1582 ∧ m' = 10 ∧ d < 5)) := by
      simp [isJulianI] at hj; omega
    have hzsmall : 1461 * (y' + 4716) / 4 + 306001 * (m' + 1) / 10000 + d + 0 - 1524 < 2299161 := by
      by_cases hy : y' = 1582
      · subst hy
        have hm10 : m' ≤ 10 := by omega
        interval_cases m' <;> omega
      · omega
    simp only [invI, hzsmall, if_true]
    apply inv_of_a _ _ _ _ h3 h14 hd1 hd31 h30 hfebY
    omega

theorem isJulianI_iff (y m d : Int) : isJulianI y m d = true ↔ (y < 1582 ∨ (y = 1582 ∧ m < 10) ∨ (y = 1582 ∧ m = 10 ∧ d < 5)) := by
  simp [isJulianI]; tauto

theorem leap_iff (y : Int) : leap y = true ↔ (if y < 1582 then y % 4 = 0 else (y % 4 = 0 ∧ (y % 100 ≠ 0 ∨ y % 400 = 0))) := by
  unfold leap; split <;> simp

theorem roundtrip_int (y m d : Int) (h : Valid y m d) : dateOf (invI (jdnI y m d)) = .ok (y, m, (d : ℚ)) := by
  obtain ⟨hy, hm1, hm12, hd1, hdl, hgap⟩ := h
  have hd31 : d ≤ 31 := by unfold monthLen at hdl; split_ifs at hdl <;> omega
  unfold jdnI
  by_cases hm : m ≤ 2
  · simp only [hm, if_true]
    rw [invI_eq (y - 1) (m + 12) d (by omega) (by omega) hd1 hd31 (by omega)]
    · simp only [dateOf]
      have : ¬ (m + 12 + 1 < 14) := by omega
      have h2 : (m + 12 + 1 = 14 ∨ m + 12 + 1 = 15) := by omega
      simp only [this, h2, or_true, if_true, if_false]
      have h3 : ¬ (m + 12 + 1 - 13 > 2) := by omega
      have h4 : (m + 12 + 1 - 13 = 1 ∨ m + 12 + 1 - 13 = 2) := by omega
      simp only [h3, h4, if_true, if_false]
      congr 3 <;> omega
    · intro hm14
      have hm2 : m = 2 := by omega
      subst hm2
      unfold monthLen at hdl
      simp only [if_true] at hdl
      by_cases hl : leap y = true
      · simp only [hl, if_true] at hdl
        rw [leap_iff] at hl
        by_cases h28 : d ≤ 28
        · left; exact h28
        · right
          refine ⟨by omega, ?_, ?_⟩
          · split_ifs at hl <;> omega
          · rw [isJulianI_iff]
            split_ifs at hl with hlt
            · left; left; omega
            · by_cases hy2 : y = 1582
              · omega
              · right; omega
      · simp only [hl] at hdl; left; simpa using hdl
    · omega
  · simp only [hm, if_false]
    rw [invI_eq y m d (by omega) (by omega) hd1 hd31]
    · simp only [dateOf]
      have : (m + 1 < 14) := by omega
      simp only [this, true_or, if_true]
      have h3 : (m + 1 - 1 > 2) := by omega
      simp only [h3, if_true]
      congr 3 <;> omega
    · intro h; unfold monthLen at hdl; split_ifs at hdl <;> omega
    · intro h; omega
    · intro ⟨h1, h2, h3, h4⟩; exact hgap ⟨h1, h2, h3, h4⟩

theorem feb_to_mar (y d : Int) (hd : d = if leap y = true then 29 else 28) :
    jdnI y 3 1 = jdnI y 2 d + 1 := by
  have e1 : ∀ Y : Int, 1461 * Y / 4 = 365 * Y + Y / 4 := by intro Y; omega
  have hA : ∀ Y : Int, Y / 100 / 4 = Y / 400 := by intro Y; omega
  have k4 : (y + 4716) / 4 = (y - 1 + 4716) / 4 + (if y % 4 = 0 then 1 else 0) := by split_ifs <;> omega
  have k100 : y / 100 = (y - 1) / 100 + (if y % 100 = 0 then 1 else 0) := by split_ifs <;> omega
  have k400 : y / 400 = (y - 1) / 400 + (if y % 400 = 0 then 1 else 0) := by split_ifs <;> omega
  have L : jdnI y 3 1 = 1461 * (y + 4716) / 4 + 122 + 1 + (if isJulianI y 3 1 = true then 0 else 2 - y / 100 + y / 400) - 1524 := by
    simp [jdnI, hA]
  have R : jdnI y 2 d = 1461 * (y - 1 + 4716) / 4 + 459 + d + (if isJulianI (y - 1) 14 d = true then 0 else 2 - (y - 1) / 100 + (y - 1) / 400) - 1524 := by
    simp [jdnI, hA]
  rw [L, R, e1, e1, k4, k100, k400]
  simp only [isJulianI_iff]
  simp only [leap_iff] at hd
  by_cases hy : y < 1582
  · simp only [hy, if_true] at hd
    have c1 : (y < 1582 ∨ y = 1582 ∧ (3:Int) < 10 ∨ y = 1582 ∧ (3:Int) = 10 ∧ (1:Int) < 5) := by omega
    have c2 : (y - 1 < 1582 ∨ y - 1 = 1582 ∧ (14:Int) < 10 ∨ y - 1 = 1582 ∧ (14:Int) = 10 ∧ d < 5) := by omega
    simp only [c1, c2, if_true]
    split_ifs at hd ⊢ <;> omega
  · simp only [hy, if_false] at hd
    by_cases hy2 : y = 1582
    · subst hy2; simp at hd ⊢; omega
    · have c1 : ¬ (y < 1582 ∨ y = 1582 ∧ (3:Int) < 10 ∨ y = 1582 ∧ (3:Int) = 10 ∧ (1:Int) < 5) := by omega
      have c2 : ¬ (y - 1 < 1582 ∨ y - 1 = 1582 ∧ (14:Int) < 10 ∨ y - 1 = 1582 ∧ (14:Int) = 10 ∧ d < 5) := by omega
      simp only [c1, c2, if_false]
      split_ifs at hd ⊢ <;> omega

theorem consecutive_int (y m d : Int) (h : Valid y m d) :
    jdnI (next y m d).1 (next y m d).2.1 (next y m d).2.2 = jdnI y m d + 1 := by
  obtain ⟨hy, hm1, hm12, hd1, hdl, hgap⟩ := h
  have hd31 : d ≤ 31 := by unfold monthLen at hdl; split_ifs at hdl <;> omega
  have e1 : ∀ Y : Int, 1461 * Y / 4 = 365 * Y + Y / 4 := by intro Y; omega
  unfold next
  by_cases hr : y = 1582 ∧ m = 10 ∧ d = 4
  · obtain ⟨rfl, rfl, rfl⟩ := hr
    decide
  · simp only [hr, if_false]
    by_cases h1 : d < monthLen y m
    · simp only [h1, if_true]
      unfold jdnI
      have hjj : isJulianI (if m ≤ 2 then y - 1 else y) (if m ≤ 2 then m + 12 else m) (d + 1)
           = isJulianI (if m ≤ 2 then y - 1 else y) (if m ≤ 2 then m + 12 else m) d := by
        rw [Bool.eq_iff_iff, isJulianI_iff, isJulianI_iff]
        split_ifs <;> omega
      simp only [hjj]
      omega
    · simp only [h1, if_false]
      have hd : d = monthLen y m := by omega
      have hl := leap_iff y
      have hA : ∀ Y : Int, Y / 100 / 4 = Y / 400 := by intro Y; omega
      have k4 : (y + 4716) / 4 = (y - 1 + 4716) / 4 + (if y % 4 = 0 then 1 else 0) := by split_ifs <;> omega
      have k100 : y / 100 = (y - 1) / 100 + (if y % 100 = 0 then 1 else 0) := by split_ifs <;> omega
      have k400 : y / 400 = (y - 1) / 400 + (if y % 400 = 0 then 1 else 0) := by split_ifs <;> omega
      have eA := e1 (y - 1 + 4716)
      have eB := e1 (y + 4716)
      by_cases hm2 : m = 2
      · subst hm2
        simp only [show (2:Int) < 12 by decide, if_true]
        have := feb_to_mar y d (by rw [hd]; simp [monthLen])
        simpa using this
      by_cases h12 : m < 12
      · simp only [h12, if_true]
        unfold jdnI
        simp only [isJulianI, hA]
        unfold monthLen at hd
        interval_cases m <;> simp at hd ⊢ <;> (try split_ifs at hd hl ⊢) <;> (try simp at *) <;> omega
      · simp only [h12, if_false]
        have : m = 12 := by omega
        subst this
        unfold jdnI
        simp only [isJulianI, hA]
        unfold monthLen at hd
        simp at hd ⊢
        split_ifs <;> (try simp at *) <;> omega

theorem monthLen_ge (y m : Int) : 28 ≤ monthLen y m ∧ monthLen y m ≤ 31 := by
  unfold monthLen; split_ifs <;> omega

theorem next_valid (y m d : Int) (h : Valid y m d) :
    Valid (next y m d).1 (next y m d).2.1 (next y m d).2.2 := by
  obtain ⟨hy, hm1, hm12, hd1, hdl, hgap⟩ := h
  unfold next
  by_cases hr : y = 1582 ∧ m = 10 ∧ d = 4
  · simp only [hr, and_self, if_true]; decide
  · simp only [hr, if_false]
    by_cases h1 : d < monthLen y m
    · simp only [h1, if_true]
      refine ⟨hy, hm1, hm12, by omega, by omega, ?_⟩
      omega
    · simp only [h1, if_false]
      by_cases h12 : m < 12
      · simp only [h12, if_true]
        have := monthLen_ge y (m + 1)
        refine ⟨hy, by omega, by omega, by omega, by omega, ?_⟩
        omega
      · simp only [h12, if_false]
        have := monthLen_ge (y + 1) 1
        refine ⟨by omega, by omega, by omega, by omega, by omega, ?_⟩
        omega

/-- For a date of the civil calendar the last test of `_compute_jde` (`if jde < 2299160.5: jde -= b`)
    changes nothing. -/
theorem jdnP_valid (y m d : Int) (h : Valid y m d) : jdnP y m d = jdnI y m d := by
  obtain ⟨_, hm1, hm12, hd1, _, hgap⟩ := h
  exact jdnP_eq y m d hm1 hm12 hd1 hgap

/-- `compute_jde y m d = jdnI y m d - 1/2` for a civil date (integer day). -/
theorem compute_jde_int (y m d : Int) (h : Valid y m d) :
    GenQ.compute_jde y m (PQ.ofInt d) = (jdnI y m d : ℚ) - 1 / 2 := by
  rw [compute_jde_int_gen, jdnP_valid y m d h]

/-- `compute_jde y m (d + f) = jdnI y m d - 1/2 + f` for a civil date and a day fraction. -/
theorem compute_jde_frac_valid (y m d : Int) (f : ℚ) (h : Valid y m d) (h0 : 0 ≤ f) (h1 : f < 1) :
    GenQ.compute_jde y m ((d : ℚ) + f) = (jdnI y m d : ℚ) - 1 / 2 + f := by
  rw [compute_jde_frac_gen y m d f h0 h1, jdnP_valid y m d h]

end Pymeeus.Refine
