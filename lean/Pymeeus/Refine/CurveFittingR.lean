import Pymeeus.Gen.R.CurveFitting
import Pymeeus.Lemmas.LeastSquares
import Mathlib.Analysis.SpecialFunctions.Sqrt
import Mathlib.Tactic.NormNum
/-
Bridges from the real-number model of CurveFitting (Gen/R/CurveFitting.lean) to list sums, for
`correlation_coeff` (the only function of the class that needs a square root).
-/
noncomputable section
namespace Pymeeus.Refine.CurveFittingR
open Pymeeus Pymeeus.PR Pymeeus.GenR.CurveFitting Pymeeus.LS

theorem zero_lit : (0.0 : ℝ) = 0 := by norm_num

theorem foldl_add_S {ι : Type} (l : List ι) (f : ι → ℝ) (c : ℝ) :
    l.foldl (fun a p => a + f p) c = c + S l f := by
  induction l generalizing c with
  | nil => simp
  | cons i t ih => simp only [List.foldl_cons, ih, S_cons]; ring

theorem zip_map_fst_snd {α β : Type} (pts : List (α × β)) :
    (pts.map Prod.fst).zip (pts.map Prod.snd) = pts := by
  induction pts with
  | nil => rfl
  | cons p t ih => simp [ih]

theorem acc_eq (f : ℝ → ℝ → ℝ) (pts : List (ℝ × ℝ)) :
    acc f (pts.map Prod.fst) (pts.map Prod.snd) = S pts (fun p => f p.1 p.2) := by
  unfold acc
  rw [zip_map_fst_snd, foldl_add_S, zero_lit, zero_add]

theorem pfsum_eq {ι : Type} (l : List ι) (f : ι → ℝ) : pfsum (l.map f) = S l f := by
  unfold pfsum
  have : ∀ c : ℝ, (l.map f).foldl (· + ·) c = c + S l f := by
    induction l with
    | nil => intro c; simp
    | cons i t ih => intro c; simp only [List.map_cons, List.foldl_cons, ih, S_cons]; ring
  rw [this, zero_add]

/-- The `CurveFitting` object holding the points `pts` (in this order). -/
def fit_of (pts : List (ℝ × ℝ)) : Fit :=
  compute_parameters (pts.map Prod.fst) (pts.map Prod.snd)

def sN (pts : List (ℝ × ℝ)) : ℝ := (pts.length : ℝ)
def sX (pts : List (ℝ × ℝ)) : ℝ := S pts (fun p => p.1)
def sY (pts : List (ℝ × ℝ)) : ℝ := S pts (fun p => p.2)
def sXX (pts : List (ℝ × ℝ)) : ℝ := S pts (fun p => p.1 * p.1)
def sXY (pts : List (ℝ × ℝ)) : ℝ := S pts (fun p => p.1 * p.2)
def sYY (pts : List (ℝ × ℝ)) : ℝ := S pts (fun p => p.2 * p.2)

theorem fit_of_fields (pts : List (ℝ × ℝ)) :
    (fit_of pts).x = pts.map Prod.fst ∧
    ofInt (fit_of pts).N = sN pts ∧ (fit_of pts).P = sX pts ∧ (fit_of pts).T = sY pts ∧
    (fit_of pts).Q = sXX pts ∧ (fit_of pts).U = sXY pts ∧ (fit_of pts).W = sYY pts := by
  unfold fit_of compute_parameters
  refine ⟨rfl, ?_, ?_, ?_, ?_, ?_, ?_⟩ <;> dsimp only
  · simp [ofInt, sN]
  · exact pfsum_eq pts _
  · exact pfsum_eq pts _
  · exact acc_eq _ pts
  · exact acc_eq _ pts
  · exact acc_eq _ pts

/-- `n Σx² - (Σx)²` and `n Σy² - (Σy)²` -/
def dX (pts : List (ℝ × ℝ)) : ℝ := sN pts * sXX pts - sX pts * sX pts
def dY (pts : List (ℝ × ℝ)) : ℝ := sN pts * sYY pts - sY pts * sY pts
/-- `n Σxy - Σx Σy` -/
def cXY (pts : List (ℝ × ℝ)) : ℝ := sN pts * sXY pts - sX pts * sY pts

theorem dX_nonneg (pts : List (ℝ × ℝ)) : 0 ≤ dX pts := variance_nonneg pts (fun p => p.1)
theorem dY_nonneg (pts : List (ℝ × ℝ)) : 0 ≤ dY pts := variance_nonneg pts (fun p => p.2)
theorem cXY_sq_le (pts : List (ℝ × ℝ)) : cXY pts ^ 2 ≤ dX pts * dY pts :=
  covariance_sq_le pts (fun p => p.1) (fun p => p.2)

/-- What `correlation_coeff` returns: never a ValueError; ZeroDivisionError exactly when a variance vanishes. -/
theorem correlation_eq (pts : List (ℝ × ℝ)) (hne : pts ≠ []) :
    correlation_coeff (fit_of pts) =
      if Real.sqrt (dX pts) * Real.sqrt (dY pts) = 0 then .error .zeroDivisionError
      else .ok (cXY pts / (Real.sqrt (dX pts) * Real.sqrt (dY pts))) := by
  obtain ⟨hx, hN, hP, hT, hQ, hU, hW⟩ := fit_of_fields pts
  have he : (fit_of pts).x.isEmpty = false := by
    rw [hx]; cases pts with
    | nil => exact absurd rfl hne
    | cons _ _ => rfl
  unfold correlation_coeff
  have h1 : ¬ (sN pts * sXX pts - sX pts * sX pts < 0) := not_lt.mpr (dX_nonneg pts)
  have h2 : ¬ (sN pts * sYY pts - sY pts * sY pts < 0) := not_lt.mpr (dY_nonneg pts)
  simp only [he, Bool.false_eq_true, if_false, hN, hP, hT, hQ, hU, hW, plt, h1, h2, decide_false,
    Bool.or_self, pdiv, peq, psqrt, decide_eq_true_eq]
  rfl

theorem sqrt_mul_eq_zero_iff (pts : List (ℝ × ℝ)) :
    Real.sqrt (dX pts) * Real.sqrt (dY pts) = 0 ↔ dX pts = 0 ∨ dY pts = 0 := by
  rw [mul_eq_zero, Real.sqrt_eq_zero (dX_nonneg pts), Real.sqrt_eq_zero (dY_nonneg pts)]

/-- Positive or negative affine rescaling of both coordinates. -/
def rescale (α β γ δ : ℝ) (pts : List (ℝ × ℝ)) : List (ℝ × ℝ) :=
  pts.map (fun p => (α * p.1 + β, γ * p.2 + δ))

theorem rescale_sums (α β γ δ : ℝ) (pts : List (ℝ × ℝ)) :
    dX (rescale α β γ δ pts) = α * α * dX pts ∧ dY (rescale α β γ δ pts) = γ * γ * dY pts ∧
    cXY (rescale α β γ δ pts) = α * γ * cXY pts := by
  have hn : sN (rescale α β γ δ pts) = sN pts := by simp [sN, rescale]
  have hx : sX (rescale α β γ δ pts) = α * sX pts + sN pts * β := by
    unfold sX rescale sN; rw [S_map]; exact S_affine pts (fun p => p.1) α β
  have hy : sY (rescale α β γ δ pts) = γ * sY pts + sN pts * δ := by
    unfold sY rescale sN; rw [S_map]; exact S_affine pts (fun p => p.2) γ δ
  have hxx : sXX (rescale α β γ δ pts) = α * α * sXX pts + α * β * sX pts + β * α * sX pts + sN pts * (β * β) := by
    unfold sXX rescale sN sX; rw [S_map]; exact S_affine_mul pts (fun p => p.1) (fun p => p.1) α β α β
  have hyy : sYY (rescale α β γ δ pts) = γ * γ * sYY pts + γ * δ * sY pts + δ * γ * sY pts + sN pts * (δ * δ) := by
    unfold sYY rescale sN sY; rw [S_map]; exact S_affine_mul pts (fun p => p.2) (fun p => p.2) γ δ γ δ
  have hxy : sXY (rescale α β γ δ pts) = α * γ * sXY pts + α * δ * sX pts + β * γ * sY pts + sN pts * (β * δ) := by
    unfold sXY rescale sN sX sY; rw [S_map]; exact S_affine_mul pts (fun p => p.1) (fun p => p.2) α β γ δ
  refine ⟨?_, ?_, ?_⟩
  · unfold dX; rw [hn, hx, hxx]; ring
  · unfold dY; rw [hn, hy, hyy]; ring
  · unfold cXY; rw [hn, hx, hy, hxy]; ring

theorem rescale_ne_nil {α β γ δ : ℝ} {pts : List (ℝ × ℝ)} (h : pts ≠ []) : rescale α β γ δ pts ≠ [] := by
  unfold rescale; simpa using h

/-- Points on a line `y = α x + β`. -/
theorem collinear_sums {pts : List (ℝ × ℝ)} {α β : ℝ} (h : ∀ p ∈ pts, p.2 = α * p.1 + β) :
    dY pts = α * α * dX pts ∧ cXY pts = α * dX pts := by
  have hy : sY pts = α * sX pts + sN pts * β := by
    unfold sY sX sN; rw [S_congr (g := fun p => α * p.1 + β) h]; exact S_affine pts (fun p => p.1) α β
  have hyy : sYY pts = α * α * sXX pts + α * β * sX pts + β * α * sX pts + sN pts * (β * β) := by
    unfold sYY sXX sX sN
    rw [S_congr (g := fun p => (α * p.1 + β) * (α * p.1 + β)) (fun p hp => by rw [h p hp])]
    exact S_affine_mul pts (fun p => p.1) (fun p => p.1) α β α β
  have hxy : sXY pts = 1 * α * sXX pts + 1 * β * sX pts + 0 * α * sX pts + sN pts * (0 * β) := by
    unfold sXY sXX sX sN
    rw [S_congr (g := fun p => (1 * p.1 + 0) * (α * p.1 + β)) (fun p hp => by rw [h p hp]; ring)]
    exact S_affine_mul pts (fun p => p.1) (fun p => p.1) 1 0 α β
  constructor
  · unfold dY dX; rw [hy, hyy]; ring
  · unfold cXY dX; rw [hy, hxy]; ring

theorem const_x_dX {pts : List (ℝ × ℝ)} {c : ℝ} (h : ∀ p ∈ pts, p.1 = c) : dX pts = 0 := by
  have hx : sX pts = sN pts * c := by
    unfold sX sN; rw [S_congr (g := fun _ => c) h, S_const]
  have hxx : sXX pts = sN pts * (c * c) := by
    unfold sXX sN; rw [S_congr (g := fun _ => c * c) (fun p hp => by rw [h p hp]), S_const]
  unfold dX; rw [hx, hxx]; ring

theorem const_y_dY {pts : List (ℝ × ℝ)} {c : ℝ} (h : ∀ p ∈ pts, p.2 = c) : dY pts = 0 := by
  have hy : sY pts = sN pts * c := by
    unfold sY sN; rw [S_congr (g := fun _ => c) h, S_const]
  have hyy : sYY pts = sN pts * (c * c) := by
    unfold sYY sN; rw [S_congr (g := fun _ => c * c) (fun p hp => by rw [h p hp]), S_const]
  unfold dY; rw [hy, hyy]; ring

end Pymeeus.Refine.CurveFittingR
