import Pymeeus.Refine.MoonYear
import Pymeeus.Refine.MoonFinders
/-
The four finders of the real-number Moon model from the query JDE (`moon_*_jde`): closed forms at an
instant of a valid civil date, the range of the fractional year, and how far the mean instant
selected by the fractional year is from the query (calendar arithmetic, `*_drift`).
-/
noncomputable section
namespace Pymeeus.Refine
open Pymeeus Pymeeus.Spec

/-- JDE of 1 January 0h, Julian calendar (years ≤ 1582): `365.25 y + 1721057.5 … + 1721058.25` -/
theorem jan1_julian (y : Int) (h : y ≤ 1582) :
    365.25 * (y : ℝ) + 1721057.5 ≤ (jdnI y 1 1 : ℝ) - 1 / 2 ∧ (jdnI y 1 1 : ℝ) - 1 / 2 ≤ 365.25 * (y : ℝ) + 1721058.25 := by
  obtain ⟨a, b⟩ := jdnI_jan1_julian y h
  have a' : 1461 * (y : ℝ) + 6884232 ≤ 4 * (jdnI y 1 1 : ℝ) := by exact_mod_cast a
  have b' : 4 * (jdnI y 1 1 : ℝ) ≤ 1461 * (y : ℝ) + 6884235 := by exact_mod_cast b
  constructor <;> norm_num <;> linarith

/-- JDE of 1 January 0h, Gregorian calendar (years ≥ 1583): `365.2425 y + 1721058.75 … + 1721061` -/
theorem jan1_gregorian (y : Int) (h : 1583 ≤ y) :
    365.2425 * (y : ℝ) + 1721058.75 ≤ (jdnI y 1 1 : ℝ) - 1 / 2 ∧ (jdnI y 1 1 : ℝ) - 1 / 2 ≤ 365.2425 * (y : ℝ) + 1721061 := by
  obtain ⟨a, b⟩ := jdnI_jan1_gregorian y h
  have a' : 146097 * (y : ℝ) + 688423700 ≤ 400 * (jdnI y 1 1 : ℝ) := by exact_mod_cast a
  have b' : 400 * (jdnI y 1 1 : ℝ) ≤ 146097 * (y : ℝ) + 688424600 := by exact_mod_cast b
  constructor <;> norm_num <;> linarith

/-! ### mean instant selected by the fractional year, minus the query instant

`J0 + P ((fy - y0) c)` is the mean event the unrounded count points at; `fy = y + (u + 1)/L`,
query `= A + u` with `A` the JDE of 1 January 0h, `0 ≤ u ≤ L`, `L ∈ {365, 366}`. The difference is
`(J0 - P c y0) + (P c) y + (P c)(u + 1)/L - A - u`: an offset at the origin (the mean event `k = 0` is
not at fractional year `y0`), a drift `P c - 365.25` resp. `P c - 365.2425` days per year against the
calendar in force, and the 10 days of the 1582 reform. -/

set_option hygiene false in
/-- proof of a `*_drift` lemma; expects the hypotheses `hy1 hy2 hu0 huL hL hA` of `phase_drift` -/
macro "drift_tac" : tactic =>
  `(tactic| (
    have hy1' : (-2000 : ℝ) ≤ (y : ℝ) := by exact_mod_cast hy1
    have hy2' : (y : ℝ) ≤ 4000 := by exact_mod_cast hy2
    subst hA
    rcases le_or_gt y 1582 with hc | hc
    · obtain ⟨a, b⟩ := jan1_julian y hc
      have hc' : (y : ℝ) ≤ 1582 := by exact_mod_cast hc
      rcases hL with e | e <;> subst e <;> constructor <;> norm_num <;> linarith
    · obtain ⟨a, b⟩ := jan1_gregorian y (by omega)
      have hc' : (1583 : ℝ) ≤ (y : ℝ) := by exact_mod_cast (by omega : 1583 ≤ y)
      rcases hL with e | e <;> subst e <;> constructor <;> norm_num <;> linarith))

theorem phase_drift {y : Int} {u L A : ℝ} (hy1 : -2000 ≤ y) (hy2 : y ≤ 4000) (hu0 : 0 ≤ u) (huL : u ≤ L)
    (hL : L = 365 ∨ L = 366) (hA : A = (jdnI y 1 1 : ℝ) - 1 / 2) :
    -7.6 ≤ 2451550.09766 + 29.530588861 * (((y : ℝ) + (u + 1) / L - 2000.0) * 12.3685) - (A + u) ∧
    2451550.09766 + 29.530588861 * (((y : ℝ) + (u + 1) / L - 2000.0) * 12.3685) - (A + u) ≤ 20.8 := by
  drift_tac

theorem apsis_drift {y : Int} {u L A : ℝ} (hy1 : -2000 ≤ y) (hy2 : y ≤ 4000) (hu0 : 0 ≤ u) (huL : u ≤ L)
    (hL : L = 365 ∨ L = 366) (hA : A = (jdnI y 1 1 : ℝ) - 1 / 2) :
    -12.1 ≤ 2451534.6698 + 27.55454989 * (((y : ℝ) + (u + 1) / L - 1999.97) * 13.2555) - (A + u) ∧
    2451534.6698 + 27.55454989 * (((y : ℝ) + (u + 1) / L - 1999.97) * 13.2555) - (A + u) ≤ 16.8 := by
  drift_tac

theorem nodes_drift {y : Int} {u L A : ℝ} (hy1 : -2000 ≤ y) (hy2 : y ≤ 4000) (hu0 : 0 ≤ u) (huL : u ≤ L)
    (hL : L = 365 ∨ L = 366) (hA : A = (jdnI y 1 1 : ℝ) - 1 / 2) :
    -13.5 ≤ 2451565.1619 + 27.212220817 * (((y : ℝ) + (u + 1) / L - 2000.05) * 13.4223) - (A + u) ∧
    2451565.1619 + 27.212220817 * (((y : ℝ) + (u + 1) / L - 2000.05) * 13.4223) - (A + u) ≤ 20.6 := by
  drift_tac

theorem declN_drift {y : Int} {u L A : ℝ} (hy1 : -2000 ≤ y) (hy2 : y ≤ 4000) (hu0 : 0 ≤ u) (huL : u ≤ L)
    (hL : L = 365 ∨ L = 366) (hA : A = (jdnI y 1 1 : ℝ) - 1 / 2) :
    -11.6 ≤ 2451562.5897 + 27.321582247 * (((y : ℝ) + (u + 1) / L - 2000.03) * 13.3686) - (A + u) ∧
    2451562.5897 + 27.321582247 * (((y : ℝ) + (u + 1) / L - 2000.03) * 13.3686) - (A + u) ≤ 26.8 := by
  drift_tac

theorem declS_drift {y : Int} {u L A : ℝ} (hy1 : -2000 ≤ y) (hy2 : y ≤ 4000) (hu0 : 0 ≤ u) (huL : u ≤ L)
    (hL : L = 365 ∨ L = 366) (hA : A = (jdnI y 1 1 : ℝ) - 1 / 2) :
    -25.3 ≤ 2451548.9289 + 27.321582247 * (((y : ℝ) + (u + 1) / L - 2000.03) * 13.3686) - (A + u) ∧
    2451548.9289 + 27.321582247 * (((y : ℝ) + (u + 1) / L - 2000.03) * 13.3686) - (A + u) ≤ 13.1 := by
  drift_tac

end Pymeeus.Refine

namespace Pymeeus.GenR.MoonM
open Pymeeus Pymeeus.PR Pymeeus.Spec Pymeeus.Refine

/-- the finders' fractional year at an instant of a civil date (exact rational) -/
def fyq (y m d : Int) (f : ℚ) : ℚ := (y : ℚ) + (sinceJan1 y m d f + 1) / divisor y

theorem fyear_valid (y m d : Int) (f : ℚ) (h : Valid y m d) (hy : y ≤ 9999) (hf0 : 0 ≤ f) (hf1 : f < 1) :
    fyear (instant y m d f) = .ok ((fyq y m d f : ℚ) : ℝ) := by
  unfold fyear fyq
  rw [finder_year_valid y m d f h hy hf0 hf1]

theorem fyq_range (y m d : Int) (f : ℚ) (h : Valid y m d) (hf0 : 0 ≤ f) (hf1 : f < 1) :
    (y : ℝ) ≤ ((fyq y m d f : ℚ) : ℝ) ∧ ((fyq y m d f : ℚ) : ℝ) ≤ (y : ℝ) + 2 := by
  obtain ⟨a0, a1⟩ := sinceJan1_range y m d f h hf0 hf1
  have l1 := yearLen_le_divisor y
  have p1 : (0 : ℚ) < divisor y := by rcases divisor_cases y with e | e <;> rw [e] <;> norm_num
  have e0 : 0 ≤ (sinceJan1 y m d f + 1) / divisor y := div_nonneg (by linarith) p1.le
  have e1 : (sinceJan1 y m d f + 1) / divisor y ≤ 2 := by
    rw [div_le_iff₀ p1]
    rcases divisor_cases y with e | e <;> rw [e] at l1 ⊢ <;> linarith
  have q0 : (y : ℚ) ≤ fyq y m d f := by unfold fyq; linarith
  have q1 : fyq y m d f ≤ (y : ℚ) + 2 := by unfold fyq; linarith
  constructor
  · exact_mod_cast q0
  · have : ((fyq y m d f : ℚ) : ℝ) ≤ (((y : ℚ) + 2 : ℚ) : ℝ) := by exact_mod_cast q1
    simpa using this

/-- the query instant and the fractional year in real terms: `q = A + u`, `fy = y + (u + 1)/L` -/
theorem instant_fyq_real (y m d : Int) (f : ℚ) :
    ((instant y m d f : ℚ) : ℝ) = ((jdnI y 1 1 : ℝ) - 1 / 2) + ((sinceJan1 y m d f : ℚ) : ℝ) ∧
    ((fyq y m d f : ℚ) : ℝ) = (y : ℝ) + (((sinceJan1 y m d f : ℚ) : ℝ) + 1) / ((divisor y : ℚ) : ℝ) := by
  constructor
  · rw [instant_eq]; unfold instant; push_cast; ring
  · unfold fyq; push_cast; ring

theorem divisor_real (y : Int) : ((divisor y : ℚ) : ℝ) = 365 ∨ ((divisor y : ℚ) : ℝ) = 366 := by
  rcases divisor_cases y with e | e <;> rw [e] <;> simp

theorem sinceJan1_real (y m d : Int) (f : ℚ) (h : Valid y m d) (hf0 : 0 ≤ f) (hf1 : f < 1) :
    (0 : ℝ) ≤ ((sinceJan1 y m d f : ℚ) : ℝ) ∧ ((sinceJan1 y m d f : ℚ) : ℝ) ≤ ((divisor y : ℚ) : ℝ) := by
  obtain ⟨a0, a1⟩ := sinceJan1_range y m d f h hf0 hf1
  have l1 := yearLen_le_divisor y
  constructor
  · exact_mod_cast a0
  · exact_mod_cast (by linarith : sinceJan1 y m d f ≤ divisor y)

/-- monotonicity of the fractional year, in real terms -/
theorem fyq_mono_real (y1 m1 d1 y2 m2 d2 : Int) (f1 f2 : ℚ) (h1 : Valid y1 m1 d1) (h2 : Valid y2 m2 d2)
    (hf10 : 0 ≤ f1) (hf11 : f1 < 1) (hf20 : 0 ≤ f2) (hf21 : f2 < 1)
    (hle : instant y1 m1 d1 f1 ≤ instant y2 m2 d2 f2)
    (hgap : y1 = y2 ∨ 1 / 365 ≤ instant y2 m2 d2 f2 - instant y1 m1 d1 f1) :
    ((fyq y1 m1 d1 f1 : ℚ) : ℝ) ≤ ((fyq y2 m2 d2 f2 : ℚ) : ℝ) := by
  have := finder_year_mono y1 m1 d1 y2 m2 d2 f1 f2 h1 h2 hf10 hf11 hf20 hf21 hle hgap
  unfold fyq
  exact_mod_cast this

/-! ### closed forms of the finders from the query instant -/

theorem moon_phase_jde_eq {s : String} (hs : s = "new" ∨ s = "first" ∨ s = "full" ∨ s = "last")
    (y m d : Int) (f : ℚ) (h : Valid y m d) (hy : y ≤ 9999) (hf0 : 0 ≤ f) (hf1 : f < 1) :
    moon_phase_jde (instant y m d f) s = .ok (phase_res s (phase_k ((fyq y m d f : ℚ) : ℝ) s)) := by
  unfold moon_phase_jde
  rw [fyear_valid y m d f h hy hf0 hf1]
  have : phase_target_ok s = true := by
    unfold phase_target_ok; rcases hs with e | e | e | e <;> subst e <;> simp
  simp only [this, Bool.not_true, Bool.false_eq_true, if_false]
  exact moon_phase_eq hs _

theorem moon_perigee_apogee_jde_eq {s : String} (hs : s = "perigee" ∨ s = "apogee")
    (y m d : Int) (f : ℚ) (h : Valid y m d) (hy : y ≤ 9999) (hf0 : 0 ≤ f) (hf1 : f < 1) :
    moon_perigee_apogee_jde (instant y m d f) s =
      .ok (apsis_res s (apsis_k ((fyq y m d f : ℚ) : ℝ) s),
           angle_dms00 (apsis_parallax (apsis_k ((fyq y m d f : ℚ) : ℝ) s) s)) := by
  unfold moon_perigee_apogee_jde
  rw [fyear_valid y m d f h hy hf0 hf1]
  have : apsis_target_ok s = true := by
    unfold apsis_target_ok; rcases hs with e | e <;> subst e <;> simp
  simp only [this, Bool.not_true, Bool.false_eq_true, if_false]
  exact moon_perigee_apogee_eq hs _

theorem moon_passage_nodes_jde_eq {s : String} (hs : s = "ascending" ∨ s = "descending")
    (y m d : Int) (f : ℚ) (h : Valid y m d) (hy : y ≤ 9999) (hf0 : 0 ≤ f) (hf1 : f < 1) :
    moon_passage_nodes_jde (instant y m d f) s = .ok (nodes_res (nodes_k ((fyq y m d f : ℚ) : ℝ) s)) := by
  unfold moon_passage_nodes_jde
  rw [fyear_valid y m d f h hy hf0 hf1]
  have : nodes_target_ok s = true := by
    unfold nodes_target_ok; rcases hs with e | e <;> subst e <;> simp
  simp only [this, Bool.not_true, Bool.false_eq_true, if_false]
  exact moon_passage_nodes_eq hs _

theorem moon_maximum_declination_jde_eq {s : String} (hs : s = "northern" ∨ s = "southern")
    (y m d : Int) (f : ℚ) (h : Valid y m d) (hy : y ≤ 9999) (hf0 : 0 ≤ f) (hf1 : f < 1) :
    moon_maximum_declination_jde (instant y m d f) s =
      .ok (decl_res s (decl_k ((fyq y m d f : ℚ) : ℝ)), decl_value (decl_k ((fyq y m d f : ℚ) : ℝ)) s) := by
  unfold moon_maximum_declination_jde
  rw [fyear_valid y m d f h hy hf0 hf1]
  have : decl_target_ok s = true := by
    unfold decl_target_ok; rcases hs with e | e <;> subst e <;> simp
  simp only [this, Bool.not_true, Bool.false_eq_true, if_false]
  exact moon_maximum_declination_eq hs _

end Pymeeus.GenR.MoonM
