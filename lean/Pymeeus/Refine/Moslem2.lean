import Pymeeus.Refine.Moslem
/-
Civil -> Moslem, arithmetic part: from ANY day number `N` the straight-line part of
`gregorian2moslem` reaches a Moslem year `h` and an unnormalised day of the year `jj` with
`islStart h + jj = N - 1948439` and `-11 ≤ jj ≤ 718` (`g2mFromInv_spec`); the two `while` loops
then finish within the fuel -- the first after at most two rounds, the second after at most one --
with `1 ≤ jj ≤ ylen h` and the same day (`loops_spec`); the tail turns `jj` into month and day of
the tabular calendar (`tail_spec`).
-/
namespace Pymeeus.Refine
open Pymeeus Pymeeus.PQ Pymeeus.GenQ Pymeeus.Spec

/-- days of the Islamic calendar before 1 Muharram of year `h` -/
def islStart (h : Int) : Int := 354 * (h - 1) + (3 + 11 * h) / 30

theorem g2m_s (B c dd : Int) (hc : c = (20 * B - 2442) / 7305) (hdd : dd = (1461 * c) / 4) :
    123 ≤ B - dd ∧ B - dd ≤ 488 := by omega

theorem g2m_e (s e D : Int) (h1 : 123 ≤ s) (h2 : s ≤ 488) (he : e = (10000 * s) / 306001)
    (hD : D = s - (306001 * e) / 10000) :
    4 ≤ e ∧ e ≤ 15 ∧ 1 ≤ D ∧ D ≤ 31 := by
  have e4 : 4 ≤ e := by omega
  have e15 : e ≤ 15 := by omega
  refine ⟨e4, e15, ?_⟩
  interval_cases e <;> omega

/-- Meeus' day of the year agrees with the day number (Julian calendar, March-based year `c - 4716`) -/
theorem g2m_doy (N c s e D M X w n : Int) (hN : N = (1461 * c) / 4 + s - 1524)
    (he : e = (10000 * s) / 306001) (hD : D = s - (306001 * e) / 10000) (h1 : 123 ≤ s) (h2 : s ≤ 488)
    (hM : M = if e < 14 then e - 1 else e - 13) (hX : X = if M > 2 then c - 4716 else c - 4715)
    (hw : w = if X % 4 = 0 then 1 else 2) (hn : n = (275 * M) / 9 - w * ((M + 9) / 12) + D - 30) :
    N = (1461 * (X - 1)) / 4 + 1721423 + n ∧ 1 ≤ n ∧ n ≤ 366 := by
  have e4 : 4 ≤ e := by omega
  have e15 : e ≤ 15 := by omega
  obtain ⟨t, r, hr0, hr4, hcr⟩ : ∃ t r : Int, 0 ≤ r ∧ r < 4 ∧ c = 4 * t + r := ⟨c / 4, c % 4, by omega, by omega, by omega⟩
  subst hcr
  interval_cases r <;> interval_cases e <;> simp at hM <;> subst hM <;> simp at hX <;> subst hX <;> simp at hn <;>
    split_ifs at hw <;> subst hw <;> omega


theorem g2m_dp (X a b c c2 dp : Int) (ha : a = X - 623) (hb : b = a / 4) (hc : c = a % 4)
    (hc2 : c2 = if 5000 < (3652501 * c) % 10000 then (3652501 * c) / 10000 + 1 else (3652501 * c) / 10000)
    (hdp : dp = 1461 * b + 170 + c2) :
    dp - 1 = (1461 * (X - 1)) / 4 + 1721423 - 1948439 := by
  have c0 : 0 ≤ c := by omega
  have c3 : c ≤ 3 := by omega
  have hX : X = 623 + 4 * b + c := by omega
  subst hX
  clear ha hb hc
  interval_cases c <;> simp at hc2 <;> subst hc2 <;> omega

theorem g2m_hjj (dp n q r j k o h jj : Int) (hq : q = dp / 10631) (hr : r = dp % 10631) (hj : j = r / 354)
    (hk : k = r % 354) (ho : o = (11 * j + 14) / 30) (hh : h = 30 * q + j + 1) (hjj : jj = k - o + n - 1)
    (hn1 : 1 ≤ n) (hn2 : n ≤ 366) :
    islStart h + jj = dp + n - 1 ∧ -11 ≤ jj ∧ jj ≤ 718 := by
  unfold islStart
  have hj0 : 0 ≤ j ∧ j ≤ 30 := by omega
  have ho' : (3 + 11 * h) / 30 = 11 * q + o := by omega
  rw [ho']
  omega

/-! the intermediate quantities of `g2mFromInv (invA N)` by name -/
def g2mC (N : Int) : Int := (20 * (N + 1524) - 2442) / 7305
def g2mS (N : Int) : Int := N + 1524 - 1461 * g2mC N / 4
def g2mE (N : Int) : Int := 10000 * g2mS N / 306001
def g2mD (N : Int) : Int := g2mS N - 306001 * g2mE N / 10000
def g2mM (N : Int) : Int := if g2mE N < 14 then g2mE N - 1 else g2mE N - 13
def g2mX (N : Int) : Int := if g2mM N > 2 then g2mC N - 4716 else g2mC N - 4715
def g2mW (N : Int) : Int := if g2mX N % 4 = 0 then 1 else 2
def g2mNn (N : Int) : Int := 275 * g2mM N / 9 - g2mW N * ((g2mM N + 9) / 12) + g2mD N - 30
def g2mC2 (N : Int) : Int :=
  if 5000 < (3652501 * ((g2mX N - 623) % 4)) % 10000 then (3652501 * ((g2mX N - 623) % 4)) / 10000 + 1
  else (3652501 * ((g2mX N - 623) % 4)) / 10000
def g2mDp (N : Int) : Int := 1461 * ((g2mX N - 623) / 4) + 170 + g2mC2 N
def g2mH (N : Int) : Int := 30 * (g2mDp N / 10631) + g2mDp N % 10631 / 354 + 1
def g2mJJ (N : Int) : Int := g2mDp N % 10631 % 354 - (11 * (g2mDp N % 10631 / 354) + 14) / 30 + g2mNn N - 1

theorem g2mFromInv_eq (N : Int) : g2mFromInv (invA N) = (g2mH N, g2mJJ N) := by
  unfold g2mFromInv invA g2mH g2mJJ g2mDp g2mC2 g2mNn g2mW g2mX g2mM g2mD g2mE g2mS g2mC
  rfl

/-- from a day number `N` (through its Julian-calendar date `invA N`) to the Moslem year `h` and
    the unnormalised day of that year `jj` -/
theorem g2mFromInv_spec (N : Int) :
    islStart (g2mH N) + g2mJJ N = N - 1948439 ∧ -11 ≤ g2mJJ N ∧ g2mJJ N ≤ 718 := by
  obtain ⟨hs1, hs2⟩ := g2m_s (N + 1524) (g2mC N) (1461 * g2mC N / 4) rfl rfl
  obtain ⟨hd1, hd2, hd3⟩ := g2m_doy N (g2mC N) (g2mS N) (g2mE N) (g2mD N) (g2mM N) (g2mX N) (g2mW N) (g2mNn N)
    (by unfold g2mS; omega) rfl rfl hs1 hs2 rfl rfl rfl rfl
  have hdp := g2m_dp (g2mX N) _ _ _ (g2mC2 N) (g2mDp N) rfl rfl rfl rfl rfl
  obtain ⟨hh1, hh2, hh3⟩ := g2m_hjj (g2mDp N) (g2mNn N) _ _ _ _ _ (g2mH N) (g2mJJ N) rfl rfl rfl rfl rfl rfl rfl hd2 hd3
  refine ⟨?_, hh2, hh3⟩
  rw [hh1]
  omega


/-! #### the day number `gregorian2moslem` starts from is the civil day number -/
theorem g2mDayNumber_eq (y m d : Int) (hm1 : 1 ≤ m) (hm12 : m ≤ 12) : g2mDayNumber y m d = jdnI y m d := by
  unfold g2mDayNumber jdnI
  have hjul : isJulianI y m d = isJulianI (if m ≤ 2 then y - 1 else y) (if m ≤ 2 then m + 12 else m) d := by
    rw [Bool.eq_iff_iff, isJulianI_iff, isJulianI_iff]
    split_ifs <;> omega
  rw [hjul]
  by_cases h : m ≤ 2
  · have h3 : m < 3 := by omega
    simp only [h, h3, if_true]
    split_ifs <;> omega
  · have h3 : ¬ m < 3 := by omega
    simp only [h, h3, if_false]
    split_ifs <;> omega

/-! #### the two `while` loops -/
theorem ylen_start (h : Int) : g2m_ylen h = islStart (h + 1) - islStart h := by
  rw [g2m_ylen_int]; unfold islStart
  have e1 : (3 + 11 * h) / 30 = 11 * (h / 30) + (3 + 11 * (h % 30)) / 30 := by omega
  have e2 : (3 + 11 * (h + 1)) / 30 = 11 * (h / 30) + (14 + 11 * (h % 30)) / 30 := by omega
  rw [e1, e2]
  have r0 : 0 ≤ h % 30 := by omega
  have r30 : h % 30 < 30 := by omega
  generalize h % 30 = r at *
  interval_cases r <;> simp <;> omega

theorem ylen_range (h : Int) : g2m_ylen h = 354 ∨ g2m_ylen h = 355 := by
  rw [g2m_ylen_int]; split_ifs <;> simp

theorem loop1_stop (n : Nat) (jj h : Int) (hc : ¬ jj > g2m_ylen h) :
    loopFuel g2m_step1 (n + 1) (jj, h, g2m_ylen h) = some (jj, h, g2m_ylen h) := by
  simp [loopFuel, g2m_step1, hc]

theorem loop1_step (n : Nat) (jj h : Int) (hc : jj > g2m_ylen h) :
    loopFuel g2m_step1 (n + 1) (jj, h, g2m_ylen h)
      = loopFuel g2m_step1 n (jj - g2m_ylen h, h + 1, g2m_ylen (h + 1)) := by
  simp [loopFuel, g2m_step1, hc]

theorem loop2_stop (n : Nat) (jj h : Int) (hc : ¬ jj ≤ 0) :
    loopFuel g2m_step2 (n + 1) (jj, h, g2m_ylen h) = some (jj, h, g2m_ylen h) := by
  simp [loopFuel, g2m_step2, hc]

theorem loop2_step (n : Nat) (jj h : Int) (hc : jj ≤ 0) :
    loopFuel g2m_step2 (n + 1) (jj, h, g2m_ylen h)
      = loopFuel g2m_step2 n (jj + g2m_ylen (h - 1), h - 1, g2m_ylen (h - 1)) := by
  simp [loopFuel, g2m_step2, hc]

/-- Both loops terminate within the fuel (the first after at most two rounds, the second after at
    most one) and leave `1 ≤ jj ≤ ylen(h)` without changing the day `islStart h + jj`. -/
theorem loops_spec (h jj : Int) (h1 : -11 ≤ jj) (h2 : jj ≤ 718) :
    ∃ h' jj', (∃ s1, loopFuel g2m_step1 g2m_fuel (jj, h, g2m_ylen h) = some s1 ∧
        loopFuel g2m_step2 g2m_fuel s1 = some (jj', h', g2m_ylen h')) ∧
      1 ≤ jj' ∧ jj' ≤ g2m_ylen h' ∧ islStart h' + jj' = islStart h + jj := by
  have hf : g2m_fuel = 6 + 1 + 1 := rfl
  rw [hf]
  have y0 := ylen_range h
  have y1 := ylen_range (h + 1)
  have ym := ylen_range (h - 1)
  have s0 := ylen_start h
  have s1 := ylen_start (h + 1)
  have sm := ylen_start (h - 1)
  rw [show h - 1 + 1 = h by ring] at sm
  rw [show h + 1 + 1 = h + 2 by ring] at s1
  by_cases c0 : jj > g2m_ylen h
  · by_cases c1 : jj - g2m_ylen h > g2m_ylen (h + 1)
    · -- two rounds
      refine ⟨h + 2, jj - g2m_ylen h - g2m_ylen (h + 1), ⟨(jj - g2m_ylen h - g2m_ylen (h + 1), h + 2, g2m_ylen (h + 2)), ?_, ?_⟩, by omega, ?_, by omega⟩
      · rw [loop1_step _ _ _ c0, loop1_step _ _ _ c1, show h + 1 + 1 = h + 2 by ring]
        exact loop1_stop _ _ _ (by have := ylen_range (h + 2); omega)
      · exact loop2_stop _ _ _ (by omega)
      · have := ylen_range (h + 2); omega
    · refine ⟨h + 1, jj - g2m_ylen h, ⟨(jj - g2m_ylen h, h + 1, g2m_ylen (h + 1)), ?_, ?_⟩, by omega, by omega, by omega⟩
      · rw [loop1_step _ _ _ c0]; exact loop1_stop _ _ _ c1
      · exact loop2_stop _ _ _ (by omega)
  · by_cases c2 : jj ≤ 0
    · refine ⟨h - 1, jj + g2m_ylen (h - 1), ⟨(jj, h, g2m_ylen h), loop1_stop _ _ _ c0, ?_⟩, by omega, by omega, by omega⟩
      rw [loop2_step _ _ _ c2]; exact loop2_stop _ _ _ (by omega)
    · exact ⟨h, jj, ⟨(jj, h, g2m_ylen h), loop1_stop _ _ _ c0, loop2_stop _ _ _ c2⟩, by omega, by omega, rfl⟩


/-! #### the tail: day of the Moslem year -> month and day -/
theorem isl_leap_iff (h : Int) : Islamic.leap h = true ↔ g2m_ylen h = 355 := by
  rw [g2m_ylen_int]; unfold Islamic.leap
  have r0 : 0 ≤ h % 30 := by omega
  have r30 : h % 30 < 30 := by omega
  generalize h % 30 = r at *
  interval_cases r <;> decide

theorem isl_yearLen (h : Int) : Islamic.yearLen h = g2m_ylen h := by
  unfold Islamic.yearLen
  rcases ylen_range h with e | e
  · have : ¬ Islamic.leap h = true := by rw [isl_leap_iff]; omega
    simp [this, e]
  · have : Islamic.leap h = true := by rw [isl_leap_iff]; exact e
    simp [this, e]

theorem tail_spec (h jj : Int) (hh : 1 ≤ h) (h1 : 1 ≤ jj) (h2 : jj ≤ g2m_ylen h) :
    (g2mTailI h jj).1 = h ∧ Islamic.Valid h (g2mTailI h jj).2.1 (g2mTailI h jj).2.2 ∧
    Islamic.jdn h (g2mTailI h jj).2.1 (g2mTailI h jj).2.2 = islStart h + jj + 1948439 := by
  unfold g2mTailI
  by_cases c : jj = 355
  · simp only [c, if_true]
    have hl : Islamic.leap h = true := by rw [isl_leap_iff]; have := ylen_range h; omega
    refine ⟨trivial, ⟨hh, by decide, by decide, by decide, ?_⟩, ?_⟩
    · unfold Islamic.monthLen; simp [hl]
    · unfold Islamic.jdn islStart; omega
  · simp only [c, if_false]
    have hj354 : jj ≤ 354 := by have := ylen_range h; omega
    have s0 : 0 ≤ (2 * (jj - 1)) / 59 := by omega
    have s11 : (2 * (jj - 1)) / 59 ≤ 11 := by omega
    have hs : 59 * ((2 * (jj - 1)) / 59) ≤ 2 * (jj - 1) ∧ 2 * (jj - 1) < 59 * ((2 * (jj - 1)) / 59) + 59 := by omega
    generalize (2 * (jj - 1)) / 59 = s at *
    refine ⟨trivial, ⟨hh, by omega, by omega, by omega, ?_⟩, ?_⟩
    · unfold Islamic.monthLen
      interval_cases s <;> simp <;> omega
    · unfold Islamic.jdn islStart
      interval_cases s <;> omega

end Pymeeus.Refine
