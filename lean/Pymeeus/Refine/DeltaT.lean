import Pymeeus.Refine.LeapSeconds
import Pymeeus.Spec.DeltaT
import Mathlib.Tactic.Ring
/-
`Epoch.tt2ut` against the published Espenak-Meeus polynomial expressions (Spec/DeltaT.lean), segment by segment.
-/
set_option linter.unusedSimpArgs false
set_option linter.unusedTactic false
namespace Pymeeus.Refine
open Pymeeus Pymeeus.PQ Pymeeus.GenQ Pymeeus.Spec

/-- the decimal year at which `tt2ut` evaluates its polynomials: the publication's `y = year + (month - 0.5)/12` in the
    segments -500...500 and 1600...2150, but the INTEGER calendar year before -500, in 500...1600 and from 2150 on (as coded) -/
def dtArg (year month : Int) : ℚ :=
  if year < -500 ∨ (500 ≤ year ∧ year < 1600) ∨ 2150 ≤ year then (year : ℚ)
  else (year : ℚ) + ((month : ℚ) - 1 / 2) / 12

theorem tt2ut_seg0 (year month : Int) (h2 : year < -500) : tt2ut year month = deltaT year (dtArg year month) := by
  have c0 : (year < -500) := by omega
  have c1 : ¬ (year ≥ -500 ∧ year < 500) := by omega
  have c2 : ¬ (year ≥ 500 ∧ year < 1600) := by omega
  have c3 : ¬ (year ≥ 1600 ∧ year < 1700) := by omega
  have c4 : ¬ (year ≥ 1700 ∧ year < 1800) := by omega
  have c5 : ¬ (year ≥ 1800 ∧ year < 1860) := by omega
  have c6 : ¬ (year ≥ 1860 ∧ year < 1900) := by omega
  have c7 : ¬ (year ≥ 1900 ∧ year < 1920) := by omega
  have c8 : ¬ (year ≥ 1920 ∧ year < 1941) := by omega
  have c9 : ¬ (year ≥ 1941 ∧ year < 1961) := by omega
  have c10 : ¬ (year ≥ 1961 ∧ year < 1986) := by omega
  have c11 : ¬ (year ≥ 1986 ∧ year < 2005) := by omega
  have c12 : ¬ (year ≥ 2005 ∧ year < 2050) := by omega
  have c13 : ¬ (year ≥ 2050 ∧ year < 2150) := by omega
  have c15 : (year < 500) := by omega
  have c16 : (year < 1600) := by omega
  have c17 : (year < 1700) := by omega
  have c18 : (year < 1800) := by omega
  have c19 : (year < 1860) := by omega
  have c20 : (year < 1900) := by omega
  have c21 : (year < 1920) := by omega
  have c22 : (year < 1941) := by omega
  have c23 : (year < 1961) := by omega
  have c24 : (year < 1986) := by omega
  have c25 : (year < 2005) := by omega
  have c26 : (year < 2050) := by omega
  have c27 : (year < 2150) := by omega
  have c28 : (year < -500 ∨ (500 ≤ year ∧ year < 1600) ∨ 2150 ≤ year) := by omega
  have d1 : ¬ (500 ≤ year ∧ year < 1600) := by omega
  have d2 : ¬ (2150 ≤ year) := by omega
  have d3 : ¬ (500 ≤ year) := by omega
  unfold tt2ut deltaT dtArg pow2 ofInt
  simp only [c0, c1, c2, c3, c4, c5, c6, c7, c8, c9, c10, c11, c12, c13, c15, c16, c17, c18, c19, c20, c21, c22, c23, c24, c25, c26, c27, c28, d1, d2, d3, and_true, true_and, and_false, false_and, false_or, or_false, true_or, or_true, if_true, if_false]
  norm_num
  try ring

theorem tt2ut_seg1 (year month : Int) (h1 : -500 ≤ year) (h2 : year < 500) : tt2ut year month = deltaT year (dtArg year month) := by
  have c0 : ¬ (year < -500) := by omega
  have c1 : (year ≥ -500 ∧ year < 500) := by omega
  have c2 : ¬ (year ≥ 500 ∧ year < 1600) := by omega
  have c3 : ¬ (year ≥ 1600 ∧ year < 1700) := by omega
  have c4 : ¬ (year ≥ 1700 ∧ year < 1800) := by omega
  have c5 : ¬ (year ≥ 1800 ∧ year < 1860) := by omega
  have c6 : ¬ (year ≥ 1860 ∧ year < 1900) := by omega
  have c7 : ¬ (year ≥ 1900 ∧ year < 1920) := by omega
  have c8 : ¬ (year ≥ 1920 ∧ year < 1941) := by omega
  have c9 : ¬ (year ≥ 1941 ∧ year < 1961) := by omega
  have c10 : ¬ (year ≥ 1961 ∧ year < 1986) := by omega
  have c11 : ¬ (year ≥ 1986 ∧ year < 2005) := by omega
  have c12 : ¬ (year ≥ 2005 ∧ year < 2050) := by omega
  have c13 : ¬ (year ≥ 2050 ∧ year < 2150) := by omega
  have c15 : (year < 500) := by omega
  have c16 : (year < 1600) := by omega
  have c17 : (year < 1700) := by omega
  have c18 : (year < 1800) := by omega
  have c19 : (year < 1860) := by omega
  have c20 : (year < 1900) := by omega
  have c21 : (year < 1920) := by omega
  have c22 : (year < 1941) := by omega
  have c23 : (year < 1961) := by omega
  have c24 : (year < 1986) := by omega
  have c25 : (year < 2005) := by omega
  have c26 : (year < 2050) := by omega
  have c27 : (year < 2150) := by omega
  have c28 : ¬ (year < -500 ∨ (500 ≤ year ∧ year < 1600) ∨ 2150 ≤ year) := by omega
  have d1 : ¬ (500 ≤ year ∧ year < 1600) := by omega
  have d2 : ¬ (2150 ≤ year) := by omega
  have d3 : ¬ (500 ≤ year) := by omega
  unfold tt2ut deltaT dtArg pow2 ofInt
  simp only [c0, c1, c2, c3, c4, c5, c6, c7, c8, c9, c10, c11, c12, c13, c15, c16, c17, c18, c19, c20, c21, c22, c23, c24, c25, c26, c27, c28, d1, d2, d3, and_true, true_and, and_false, false_and, false_or, or_false, true_or, or_true, if_true, if_false]
  have ey : ((year : ℚ) + ((month : ℚ) - 0.5) / 12.0) = (year : ℚ) + ((month : ℚ) - 1 / 2) / 12 := by norm_num
  simp only [ey]
  generalize (year : ℚ) + ((month : ℚ) - 1 / 2) / 12 = y
  norm_num
  ring

theorem tt2ut_seg2 (year month : Int) (h1 : 500 ≤ year) (h2 : year < 1600) : tt2ut year month = deltaT year (dtArg year month) := by
  have c0 : ¬ (year < -500) := by omega
  have c1 : ¬ (year ≥ -500 ∧ year < 500) := by omega
  have c2 : (year ≥ 500 ∧ year < 1600) := by omega
  have c3 : ¬ (year ≥ 1600 ∧ year < 1700) := by omega
  have c4 : ¬ (year ≥ 1700 ∧ year < 1800) := by omega
  have c5 : ¬ (year ≥ 1800 ∧ year < 1860) := by omega
  have c6 : ¬ (year ≥ 1860 ∧ year < 1900) := by omega
  have c7 : ¬ (year ≥ 1900 ∧ year < 1920) := by omega
  have c8 : ¬ (year ≥ 1920 ∧ year < 1941) := by omega
  have c9 : ¬ (year ≥ 1941 ∧ year < 1961) := by omega
  have c10 : ¬ (year ≥ 1961 ∧ year < 1986) := by omega
  have c11 : ¬ (year ≥ 1986 ∧ year < 2005) := by omega
  have c12 : ¬ (year ≥ 2005 ∧ year < 2050) := by omega
  have c13 : ¬ (year ≥ 2050 ∧ year < 2150) := by omega
  have c15 : ¬ (year < 500) := by omega
  have c16 : (year < 1600) := by omega
  have c17 : (year < 1700) := by omega
  have c18 : (year < 1800) := by omega
  have c19 : (year < 1860) := by omega
  have c20 : (year < 1900) := by omega
  have c21 : (year < 1920) := by omega
  have c22 : (year < 1941) := by omega
  have c23 : (year < 1961) := by omega
  have c24 : (year < 1986) := by omega
  have c25 : (year < 2005) := by omega
  have c26 : (year < 2050) := by omega
  have c27 : (year < 2150) := by omega
  have c28 : (year < -500 ∨ (500 ≤ year ∧ year < 1600) ∨ 2150 ≤ year) := by omega
  have d1 : (500 ≤ year ∧ year < 1600) := by omega
  have d2 : ¬ (2150 ≤ year) := by omega
  have d3 : (500 ≤ year) := by omega
  unfold tt2ut deltaT dtArg pow2 ofInt
  simp only [c0, c1, c2, c3, c4, c5, c6, c7, c8, c9, c10, c11, c12, c13, c15, c16, c17, c18, c19, c20, c21, c22, c23, c24, c25, c26, c27, c28, d1, d2, d3, and_true, true_and, and_false, false_and, false_or, or_false, true_or, or_true, if_true, if_false]
  norm_num
  try ring

theorem tt2ut_seg3 (year month : Int) (h1 : 1600 ≤ year) (h2 : year < 1700) : tt2ut year month = deltaT year (dtArg year month) := by
  have c0 : ¬ (year < -500) := by omega
  have c1 : ¬ (year ≥ -500 ∧ year < 500) := by omega
  have c2 : ¬ (year ≥ 500 ∧ year < 1600) := by omega
  have c3 : (year ≥ 1600 ∧ year < 1700) := by omega
  have c4 : ¬ (year ≥ 1700 ∧ year < 1800) := by omega
  have c5 : ¬ (year ≥ 1800 ∧ year < 1860) := by omega
  have c6 : ¬ (year ≥ 1860 ∧ year < 1900) := by omega
  have c7 : ¬ (year ≥ 1900 ∧ year < 1920) := by omega
  have c8 : ¬ (year ≥ 1920 ∧ year < 1941) := by omega
  have c9 : ¬ (year ≥ 1941 ∧ year < 1961) := by omega
  have c10 : ¬ (year ≥ 1961 ∧ year < 1986) := by omega
  have c11 : ¬ (year ≥ 1986 ∧ year < 2005) := by omega
  have c12 : ¬ (year ≥ 2005 ∧ year < 2050) := by omega
  have c13 : ¬ (year ≥ 2050 ∧ year < 2150) := by omega
  have c15 : ¬ (year < 500) := by omega
  have c16 : ¬ (year < 1600) := by omega
  have c17 : (year < 1700) := by omega
  have c18 : (year < 1800) := by omega
  have c19 : (year < 1860) := by omega
  have c20 : (year < 1900) := by omega
  have c21 : (year < 1920) := by omega
  have c22 : (year < 1941) := by omega
  have c23 : (year < 1961) := by omega
  have c24 : (year < 1986) := by omega
  have c25 : (year < 2005) := by omega
  have c26 : (year < 2050) := by omega
  have c27 : (year < 2150) := by omega
  have c28 : ¬ (year < -500 ∨ (500 ≤ year ∧ year < 1600) ∨ 2150 ≤ year) := by omega
  have d1 : ¬ (500 ≤ year ∧ year < 1600) := by omega
  have d2 : ¬ (2150 ≤ year) := by omega
  have d3 : (500 ≤ year) := by omega
  unfold tt2ut deltaT dtArg pow2 ofInt
  simp only [c0, c1, c2, c3, c4, c5, c6, c7, c8, c9, c10, c11, c12, c13, c15, c16, c17, c18, c19, c20, c21, c22, c23, c24, c25, c26, c27, c28, d1, d2, d3, and_true, true_and, and_false, false_and, false_or, or_false, true_or, or_true, if_true, if_false]
  norm_num
  try ring

theorem tt2ut_seg4 (year month : Int) (h1 : 1700 ≤ year) (h2 : year < 1800) : tt2ut year month = deltaT year (dtArg year month) := by
  have c0 : ¬ (year < -500) := by omega
  have c1 : ¬ (year ≥ -500 ∧ year < 500) := by omega
  have c2 : ¬ (year ≥ 500 ∧ year < 1600) := by omega
  have c3 : ¬ (year ≥ 1600 ∧ year < 1700) := by omega
  have c4 : (year ≥ 1700 ∧ year < 1800) := by omega
  have c5 : ¬ (year ≥ 1800 ∧ year < 1860) := by omega
  have c6 : ¬ (year ≥ 1860 ∧ year < 1900) := by omega
  have c7 : ¬ (year ≥ 1900 ∧ year < 1920) := by omega
  have c8 : ¬ (year ≥ 1920 ∧ year < 1941) := by omega
  have c9 : ¬ (year ≥ 1941 ∧ year < 1961) := by omega
  have c10 : ¬ (year ≥ 1961 ∧ year < 1986) := by omega
  have c11 : ¬ (year ≥ 1986 ∧ year < 2005) := by omega
  have c12 : ¬ (year ≥ 2005 ∧ year < 2050) := by omega
  have c13 : ¬ (year ≥ 2050 ∧ year < 2150) := by omega
  have c15 : ¬ (year < 500) := by omega
  have c16 : ¬ (year < 1600) := by omega
  have c17 : ¬ (year < 1700) := by omega
  have c18 : (year < 1800) := by omega
  have c19 : (year < 1860) := by omega
  have c20 : (year < 1900) := by omega
  have c21 : (year < 1920) := by omega
  have c22 : (year < 1941) := by omega
  have c23 : (year < 1961) := by omega
  have c24 : (year < 1986) := by omega
  have c25 : (year < 2005) := by omega
  have c26 : (year < 2050) := by omega
  have c27 : (year < 2150) := by omega
  have c28 : ¬ (year < -500 ∨ (500 ≤ year ∧ year < 1600) ∨ 2150 ≤ year) := by omega
  have d1 : ¬ (500 ≤ year ∧ year < 1600) := by omega
  have d2 : ¬ (2150 ≤ year) := by omega
  have d3 : (500 ≤ year) := by omega
  unfold tt2ut deltaT dtArg pow2 ofInt
  simp only [c0, c1, c2, c3, c4, c5, c6, c7, c8, c9, c10, c11, c12, c13, c15, c16, c17, c18, c19, c20, c21, c22, c23, c24, c25, c26, c27, c28, d1, d2, d3, and_true, true_and, and_false, false_and, false_or, or_false, true_or, or_true, if_true, if_false]
  norm_num
  try ring

theorem tt2ut_seg5 (year month : Int) (h1 : 1800 ≤ year) (h2 : year < 1860) : tt2ut year month = deltaT year (dtArg year month) := by
  have c0 : ¬ (year < -500) := by omega
  have c1 : ¬ (year ≥ -500 ∧ year < 500) := by omega
  have c2 : ¬ (year ≥ 500 ∧ year < 1600) := by omega
  have c3 : ¬ (year ≥ 1600 ∧ year < 1700) := by omega
  have c4 : ¬ (year ≥ 1700 ∧ year < 1800) := by omega
  have c5 : (year ≥ 1800 ∧ year < 1860) := by omega
  have c6 : ¬ (year ≥ 1860 ∧ year < 1900) := by omega
  have c7 : ¬ (year ≥ 1900 ∧ year < 1920) := by omega
  have c8 : ¬ (year ≥ 1920 ∧ year < 1941) := by omega
  have c9 : ¬ (year ≥ 1941 ∧ year < 1961) := by omega
  have c10 : ¬ (year ≥ 1961 ∧ year < 1986) := by omega
  have c11 : ¬ (year ≥ 1986 ∧ year < 2005) := by omega
  have c12 : ¬ (year ≥ 2005 ∧ year < 2050) := by omega
  have c13 : ¬ (year ≥ 2050 ∧ year < 2150) := by omega
  have c15 : ¬ (year < 500) := by omega
  have c16 : ¬ (year < 1600) := by omega
  have c17 : ¬ (year < 1700) := by omega
  have c18 : ¬ (year < 1800) := by omega
  have c19 : (year < 1860) := by omega
  have c20 : (year < 1900) := by omega
  have c21 : (year < 1920) := by omega
  have c22 : (year < 1941) := by omega
  have c23 : (year < 1961) := by omega
  have c24 : (year < 1986) := by omega
  have c25 : (year < 2005) := by omega
  have c26 : (year < 2050) := by omega
  have c27 : (year < 2150) := by omega
  have c28 : ¬ (year < -500 ∨ (500 ≤ year ∧ year < 1600) ∨ 2150 ≤ year) := by omega
  have d1 : ¬ (500 ≤ year ∧ year < 1600) := by omega
  have d2 : ¬ (2150 ≤ year) := by omega
  have d3 : (500 ≤ year) := by omega
  unfold tt2ut deltaT dtArg pow2 ofInt
  simp only [c0, c1, c2, c3, c4, c5, c6, c7, c8, c9, c10, c11, c12, c13, c15, c16, c17, c18, c19, c20, c21, c22, c23, c24, c25, c26, c27, c28, d1, d2, d3, and_true, true_and, and_false, false_and, false_or, or_false, true_or, or_true, if_true, if_false]
  norm_num
  try ring

theorem tt2ut_seg6 (year month : Int) (h1 : 1860 ≤ year) (h2 : year < 1900) : tt2ut year month = deltaT year (dtArg year month) := by
  have c0 : ¬ (year < -500) := by omega
  have c1 : ¬ (year ≥ -500 ∧ year < 500) := by omega
  have c2 : ¬ (year ≥ 500 ∧ year < 1600) := by omega
  have c3 : ¬ (year ≥ 1600 ∧ year < 1700) := by omega
  have c4 : ¬ (year ≥ 1700 ∧ year < 1800) := by omega
  have c5 : ¬ (year ≥ 1800 ∧ year < 1860) := by omega
  have c6 : (year ≥ 1860 ∧ year < 1900) := by omega
  have c7 : ¬ (year ≥ 1900 ∧ year < 1920) := by omega
  have c8 : ¬ (year ≥ 1920 ∧ year < 1941) := by omega
  have c9 : ¬ (year ≥ 1941 ∧ year < 1961) := by omega
  have c10 : ¬ (year ≥ 1961 ∧ year < 1986) := by omega
  have c11 : ¬ (year ≥ 1986 ∧ year < 2005) := by omega
  have c12 : ¬ (year ≥ 2005 ∧ year < 2050) := by omega
  have c13 : ¬ (year ≥ 2050 ∧ year < 2150) := by omega
  have c15 : ¬ (year < 500) := by omega
  have c16 : ¬ (year < 1600) := by omega
  have c17 : ¬ (year < 1700) := by omega
  have c18 : ¬ (year < 1800) := by omega
  have c19 : ¬ (year < 1860) := by omega
  have c20 : (year < 1900) := by omega
  have c21 : (year < 1920) := by omega
  have c22 : (year < 1941) := by omega
  have c23 : (year < 1961) := by omega
  have c24 : (year < 1986) := by omega
  have c25 : (year < 2005) := by omega
  have c26 : (year < 2050) := by omega
  have c27 : (year < 2150) := by omega
  have c28 : ¬ (year < -500 ∨ (500 ≤ year ∧ year < 1600) ∨ 2150 ≤ year) := by omega
  have d1 : ¬ (500 ≤ year ∧ year < 1600) := by omega
  have d2 : ¬ (2150 ≤ year) := by omega
  have d3 : (500 ≤ year) := by omega
  unfold tt2ut deltaT dtArg pow2 ofInt
  simp only [c0, c1, c2, c3, c4, c5, c6, c7, c8, c9, c10, c11, c12, c13, c15, c16, c17, c18, c19, c20, c21, c22, c23, c24, c25, c26, c27, c28, d1, d2, d3, and_true, true_and, and_false, false_and, false_or, or_false, true_or, or_true, if_true, if_false]
  norm_num
  try ring

theorem tt2ut_seg7 (year month : Int) (h1 : 1900 ≤ year) (h2 : year < 1920) : tt2ut year month = deltaT year (dtArg year month) := by
  have c0 : ¬ (year < -500) := by omega
  have c1 : ¬ (year ≥ -500 ∧ year < 500) := by omega
  have c2 : ¬ (year ≥ 500 ∧ year < 1600) := by omega
  have c3 : ¬ (year ≥ 1600 ∧ year < 1700) := by omega
  have c4 : ¬ (year ≥ 1700 ∧ year < 1800) := by omega
  have c5 : ¬ (year ≥ 1800 ∧ year < 1860) := by omega
  have c6 : ¬ (year ≥ 1860 ∧ year < 1900) := by omega
  have c7 : (year ≥ 1900 ∧ year < 1920) := by omega
  have c8 : ¬ (year ≥ 1920 ∧ year < 1941) := by omega
  have c9 : ¬ (year ≥ 1941 ∧ year < 1961) := by omega
  have c10 : ¬ (year ≥ 1961 ∧ year < 1986) := by omega
  have c11 : ¬ (year ≥ 1986 ∧ year < 2005) := by omega
  have c12 : ¬ (year ≥ 2005 ∧ year < 2050) := by omega
  have c13 : ¬ (year ≥ 2050 ∧ year < 2150) := by omega
  have c15 : ¬ (year < 500) := by omega
  have c16 : ¬ (year < 1600) := by omega
  have c17 : ¬ (year < 1700) := by omega
  have c18 : ¬ (year < 1800) := by omega
  have c19 : ¬ (year < 1860) := by omega
  have c20 : ¬ (year < 1900) := by omega
  have c21 : (year < 1920) := by omega
  have c22 : (year < 1941) := by omega
  have c23 : (year < 1961) := by omega
  have c24 : (year < 1986) := by omega
  have c25 : (year < 2005) := by omega
  have c26 : (year < 2050) := by omega
  have c27 : (year < 2150) := by omega
  have c28 : ¬ (year < -500 ∨ (500 ≤ year ∧ year < 1600) ∨ 2150 ≤ year) := by omega
  have d1 : ¬ (500 ≤ year ∧ year < 1600) := by omega
  have d2 : ¬ (2150 ≤ year) := by omega
  have d3 : (500 ≤ year) := by omega
  unfold tt2ut deltaT dtArg pow2 ofInt
  simp only [c0, c1, c2, c3, c4, c5, c6, c7, c8, c9, c10, c11, c12, c13, c15, c16, c17, c18, c19, c20, c21, c22, c23, c24, c25, c26, c27, c28, d1, d2, d3, and_true, true_and, and_false, false_and, false_or, or_false, true_or, or_true, if_true, if_false]
  norm_num
  try ring

theorem tt2ut_seg8 (year month : Int) (h1 : 1920 ≤ year) (h2 : year < 1941) : tt2ut year month = deltaT year (dtArg year month) := by
  have c0 : ¬ (year < -500) := by omega
  have c1 : ¬ (year ≥ -500 ∧ year < 500) := by omega
  have c2 : ¬ (year ≥ 500 ∧ year < 1600) := by omega
  have c3 : ¬ (year ≥ 1600 ∧ year < 1700) := by omega
  have c4 : ¬ (year ≥ 1700 ∧ year < 1800) := by omega
  have c5 : ¬ (year ≥ 1800 ∧ year < 1860) := by omega
  have c6 : ¬ (year ≥ 1860 ∧ year < 1900) := by omega
  have c7 : ¬ (year ≥ 1900 ∧ year < 1920) := by omega
  have c8 : (year ≥ 1920 ∧ year < 1941) := by omega
  have c9 : ¬ (year ≥ 1941 ∧ year < 1961) := by omega
  have c10 : ¬ (year ≥ 1961 ∧ year < 1986) := by omega
  have c11 : ¬ (year ≥ 1986 ∧ year < 2005) := by omega
  have c12 : ¬ (year ≥ 2005 ∧ year < 2050) := by omega
  have c13 : ¬ (year ≥ 2050 ∧ year < 2150) := by omega
  have c15 : ¬ (year < 500) := by omega
  have c16 : ¬ (year < 1600) := by omega
  have c17 : ¬ (year < 1700) := by omega
  have c18 : ¬ (year < 1800) := by omega
  have c19 : ¬ (year < 1860) := by omega
  have c20 : ¬ (year < 1900) := by omega
  have c21 : ¬ (year < 1920) := by omega
  have c22 : (year < 1941) := by omega
  have c23 : (year < 1961) := by omega
  have c24 : (year < 1986) := by omega
  have c25 : (year < 2005) := by omega
  have c26 : (year < 2050) := by omega
  have c27 : (year < 2150) := by omega
  have c28 : ¬ (year < -500 ∨ (500 ≤ year ∧ year < 1600) ∨ 2150 ≤ year) := by omega
  have d1 : ¬ (500 ≤ year ∧ year < 1600) := by omega
  have d2 : ¬ (2150 ≤ year) := by omega
  have d3 : (500 ≤ year) := by omega
  unfold tt2ut deltaT dtArg pow2 ofInt
  simp only [c0, c1, c2, c3, c4, c5, c6, c7, c8, c9, c10, c11, c12, c13, c15, c16, c17, c18, c19, c20, c21, c22, c23, c24, c25, c26, c27, c28, d1, d2, d3, and_true, true_and, and_false, false_and, false_or, or_false, true_or, or_true, if_true, if_false]
  norm_num
  try ring

theorem tt2ut_seg9 (year month : Int) (h1 : 1941 ≤ year) (h2 : year < 1961) : tt2ut year month = deltaT year (dtArg year month) := by
  have c0 : ¬ (year < -500) := by omega
  have c1 : ¬ (year ≥ -500 ∧ year < 500) := by omega
  have c2 : ¬ (year ≥ 500 ∧ year < 1600) := by omega
  have c3 : ¬ (year ≥ 1600 ∧ year < 1700) := by omega
  have c4 : ¬ (year ≥ 1700 ∧ year < 1800) := by omega
  have c5 : ¬ (year ≥ 1800 ∧ year < 1860) := by omega
  have c6 : ¬ (year ≥ 1860 ∧ year < 1900) := by omega
  have c7 : ¬ (year ≥ 1900 ∧ year < 1920) := by omega
  have c8 : ¬ (year ≥ 1920 ∧ year < 1941) := by omega
  have c9 : (year ≥ 1941 ∧ year < 1961) := by omega
  have c10 : ¬ (year ≥ 1961 ∧ year < 1986) := by omega
  have c11 : ¬ (year ≥ 1986 ∧ year < 2005) := by omega
  have c12 : ¬ (year ≥ 2005 ∧ year < 2050) := by omega
  have c13 : ¬ (year ≥ 2050 ∧ year < 2150) := by omega
  have c15 : ¬ (year < 500) := by omega
  have c16 : ¬ (year < 1600) := by omega
  have c17 : ¬ (year < 1700) := by omega
  have c18 : ¬ (year < 1800) := by omega
  have c19 : ¬ (year < 1860) := by omega
  have c20 : ¬ (year < 1900) := by omega
  have c21 : ¬ (year < 1920) := by omega
  have c22 : ¬ (year < 1941) := by omega
  have c23 : (year < 1961) := by omega
  have c24 : (year < 1986) := by omega
  have c25 : (year < 2005) := by omega
  have c26 : (year < 2050) := by omega
  have c27 : (year < 2150) := by omega
  have c28 : ¬ (year < -500 ∨ (500 ≤ year ∧ year < 1600) ∨ 2150 ≤ year) := by omega
  have d1 : ¬ (500 ≤ year ∧ year < 1600) := by omega
  have d2 : ¬ (2150 ≤ year) := by omega
  have d3 : (500 ≤ year) := by omega
  unfold tt2ut deltaT dtArg pow2 ofInt
  simp only [c0, c1, c2, c3, c4, c5, c6, c7, c8, c9, c10, c11, c12, c13, c15, c16, c17, c18, c19, c20, c21, c22, c23, c24, c25, c26, c27, c28, d1, d2, d3, and_true, true_and, and_false, false_and, false_or, or_false, true_or, or_true, if_true, if_false]
  norm_num
  try ring

theorem tt2ut_seg10 (year month : Int) (h1 : 1961 ≤ year) (h2 : year < 1986) : tt2ut year month = deltaT year (dtArg year month) := by
  have c0 : ¬ (year < -500) := by omega
  have c1 : ¬ (year ≥ -500 ∧ year < 500) := by omega
  have c2 : ¬ (year ≥ 500 ∧ year < 1600) := by omega
  have c3 : ¬ (year ≥ 1600 ∧ year < 1700) := by omega
  have c4 : ¬ (year ≥ 1700 ∧ year < 1800) := by omega
  have c5 : ¬ (year ≥ 1800 ∧ year < 1860) := by omega
  have c6 : ¬ (year ≥ 1860 ∧ year < 1900) := by omega
  have c7 : ¬ (year ≥ 1900 ∧ year < 1920) := by omega
  have c8 : ¬ (year ≥ 1920 ∧ year < 1941) := by omega
  have c9 : ¬ (year ≥ 1941 ∧ year < 1961) := by omega
  have c10 : (year ≥ 1961 ∧ year < 1986) := by omega
  have c11 : ¬ (year ≥ 1986 ∧ year < 2005) := by omega
  have c12 : ¬ (year ≥ 2005 ∧ year < 2050) := by omega
  have c13 : ¬ (year ≥ 2050 ∧ year < 2150) := by omega
  have c15 : ¬ (year < 500) := by omega
  have c16 : ¬ (year < 1600) := by omega
  have c17 : ¬ (year < 1700) := by omega
  have c18 : ¬ (year < 1800) := by omega
  have c19 : ¬ (year < 1860) := by omega
  have c20 : ¬ (year < 1900) := by omega
  have c21 : ¬ (year < 1920) := by omega
  have c22 : ¬ (year < 1941) := by omega
  have c23 : ¬ (year < 1961) := by omega
  have c24 : (year < 1986) := by omega
  have c25 : (year < 2005) := by omega
  have c26 : (year < 2050) := by omega
  have c27 : (year < 2150) := by omega
  have c28 : ¬ (year < -500 ∨ (500 ≤ year ∧ year < 1600) ∨ 2150 ≤ year) := by omega
  have d1 : ¬ (500 ≤ year ∧ year < 1600) := by omega
  have d2 : ¬ (2150 ≤ year) := by omega
  have d3 : (500 ≤ year) := by omega
  unfold tt2ut deltaT dtArg pow2 ofInt
  simp only [c0, c1, c2, c3, c4, c5, c6, c7, c8, c9, c10, c11, c12, c13, c15, c16, c17, c18, c19, c20, c21, c22, c23, c24, c25, c26, c27, c28, d1, d2, d3, and_true, true_and, and_false, false_and, false_or, or_false, true_or, or_true, if_true, if_false]
  norm_num
  try ring

theorem tt2ut_seg11 (year month : Int) (h1 : 1986 ≤ year) (h2 : year < 2005) : tt2ut year month = deltaT year (dtArg year month) := by
  have c0 : ¬ (year < -500) := by omega
  have c1 : ¬ (year ≥ -500 ∧ year < 500) := by omega
  have c2 : ¬ (year ≥ 500 ∧ year < 1600) := by omega
  have c3 : ¬ (year ≥ 1600 ∧ year < 1700) := by omega
  have c4 : ¬ (year ≥ 1700 ∧ year < 1800) := by omega
  have c5 : ¬ (year ≥ 1800 ∧ year < 1860) := by omega
  have c6 : ¬ (year ≥ 1860 ∧ year < 1900) := by omega
  have c7 : ¬ (year ≥ 1900 ∧ year < 1920) := by omega
  have c8 : ¬ (year ≥ 1920 ∧ year < 1941) := by omega
  have c9 : ¬ (year ≥ 1941 ∧ year < 1961) := by omega
  have c10 : ¬ (year ≥ 1961 ∧ year < 1986) := by omega
  have c11 : (year ≥ 1986 ∧ year < 2005) := by omega
  have c12 : ¬ (year ≥ 2005 ∧ year < 2050) := by omega
  have c13 : ¬ (year ≥ 2050 ∧ year < 2150) := by omega
  have c15 : ¬ (year < 500) := by omega
  have c16 : ¬ (year < 1600) := by omega
  have c17 : ¬ (year < 1700) := by omega
  have c18 : ¬ (year < 1800) := by omega
  have c19 : ¬ (year < 1860) := by omega
  have c20 : ¬ (year < 1900) := by omega
  have c21 : ¬ (year < 1920) := by omega
  have c22 : ¬ (year < 1941) := by omega
  have c23 : ¬ (year < 1961) := by omega
  have c24 : ¬ (year < 1986) := by omega
  have c25 : (year < 2005) := by omega
  have c26 : (year < 2050) := by omega
  have c27 : (year < 2150) := by omega
  have c28 : ¬ (year < -500 ∨ (500 ≤ year ∧ year < 1600) ∨ 2150 ≤ year) := by omega
  have d1 : ¬ (500 ≤ year ∧ year < 1600) := by omega
  have d2 : ¬ (2150 ≤ year) := by omega
  have d3 : (500 ≤ year) := by omega
  unfold tt2ut deltaT dtArg pow2 ofInt
  simp only [c0, c1, c2, c3, c4, c5, c6, c7, c8, c9, c10, c11, c12, c13, c15, c16, c17, c18, c19, c20, c21, c22, c23, c24, c25, c26, c27, c28, d1, d2, d3, and_true, true_and, and_false, false_and, false_or, or_false, true_or, or_true, if_true, if_false]
  norm_num
  try ring

theorem tt2ut_seg12 (year month : Int) (h1 : 2005 ≤ year) (h2 : year < 2050) : tt2ut year month = deltaT year (dtArg year month) := by
  have c0 : ¬ (year < -500) := by omega
  have c1 : ¬ (year ≥ -500 ∧ year < 500) := by omega
  have c2 : ¬ (year ≥ 500 ∧ year < 1600) := by omega
  have c3 : ¬ (year ≥ 1600 ∧ year < 1700) := by omega
  have c4 : ¬ (year ≥ 1700 ∧ year < 1800) := by omega
  have c5 : ¬ (year ≥ 1800 ∧ year < 1860) := by omega
  have c6 : ¬ (year ≥ 1860 ∧ year < 1900) := by omega
  have c7 : ¬ (year ≥ 1900 ∧ year < 1920) := by omega
  have c8 : ¬ (year ≥ 1920 ∧ year < 1941) := by omega
  have c9 : ¬ (year ≥ 1941 ∧ year < 1961) := by omega
  have c10 : ¬ (year ≥ 1961 ∧ year < 1986) := by omega
  have c11 : ¬ (year ≥ 1986 ∧ year < 2005) := by omega
  have c12 : (year ≥ 2005 ∧ year < 2050) := by omega
  have c13 : ¬ (year ≥ 2050 ∧ year < 2150) := by omega
  have c15 : ¬ (year < 500) := by omega
  have c16 : ¬ (year < 1600) := by omega
  have c17 : ¬ (year < 1700) := by omega
  have c18 : ¬ (year < 1800) := by omega
  have c19 : ¬ (year < 1860) := by omega
  have c20 : ¬ (year < 1900) := by omega
  have c21 : ¬ (year < 1920) := by omega
  have c22 : ¬ (year < 1941) := by omega
  have c23 : ¬ (year < 1961) := by omega
  have c24 : ¬ (year < 1986) := by omega
  have c25 : ¬ (year < 2005) := by omega
  have c26 : (year < 2050) := by omega
  have c27 : (year < 2150) := by omega
  have c28 : ¬ (year < -500 ∨ (500 ≤ year ∧ year < 1600) ∨ 2150 ≤ year) := by omega
  have d1 : ¬ (500 ≤ year ∧ year < 1600) := by omega
  have d2 : ¬ (2150 ≤ year) := by omega
  have d3 : (500 ≤ year) := by omega
  unfold tt2ut deltaT dtArg pow2 ofInt
  simp only [c0, c1, c2, c3, c4, c5, c6, c7, c8, c9, c10, c11, c12, c13, c15, c16, c17, c18, c19, c20, c21, c22, c23, c24, c25, c26, c27, c28, d1, d2, d3, and_true, true_and, and_false, false_and, false_or, or_false, true_or, or_true, if_true, if_false]
  norm_num
  try ring

theorem tt2ut_seg13 (year month : Int) (h1 : 2050 ≤ year) (h2 : year < 2150) : tt2ut year month = deltaT year (dtArg year month) := by
  have c0 : ¬ (year < -500) := by omega
  have c1 : ¬ (year ≥ -500 ∧ year < 500) := by omega
  have c2 : ¬ (year ≥ 500 ∧ year < 1600) := by omega
  have c3 : ¬ (year ≥ 1600 ∧ year < 1700) := by omega
  have c4 : ¬ (year ≥ 1700 ∧ year < 1800) := by omega
  have c5 : ¬ (year ≥ 1800 ∧ year < 1860) := by omega
  have c6 : ¬ (year ≥ 1860 ∧ year < 1900) := by omega
  have c7 : ¬ (year ≥ 1900 ∧ year < 1920) := by omega
  have c8 : ¬ (year ≥ 1920 ∧ year < 1941) := by omega
  have c9 : ¬ (year ≥ 1941 ∧ year < 1961) := by omega
  have c10 : ¬ (year ≥ 1961 ∧ year < 1986) := by omega
  have c11 : ¬ (year ≥ 1986 ∧ year < 2005) := by omega
  have c12 : ¬ (year ≥ 2005 ∧ year < 2050) := by omega
  have c13 : (year ≥ 2050 ∧ year < 2150) := by omega
  have c15 : ¬ (year < 500) := by omega
  have c16 : ¬ (year < 1600) := by omega
  have c17 : ¬ (year < 1700) := by omega
  have c18 : ¬ (year < 1800) := by omega
  have c19 : ¬ (year < 1860) := by omega
  have c20 : ¬ (year < 1900) := by omega
  have c21 : ¬ (year < 1920) := by omega
  have c22 : ¬ (year < 1941) := by omega
  have c23 : ¬ (year < 1961) := by omega
  have c24 : ¬ (year < 1986) := by omega
  have c25 : ¬ (year < 2005) := by omega
  have c26 : ¬ (year < 2050) := by omega
  have c27 : (year < 2150) := by omega
  have c28 : ¬ (year < -500 ∨ (500 ≤ year ∧ year < 1600) ∨ 2150 ≤ year) := by omega
  have d1 : ¬ (500 ≤ year ∧ year < 1600) := by omega
  have d2 : ¬ (2150 ≤ year) := by omega
  have d3 : (500 ≤ year) := by omega
  unfold tt2ut deltaT dtArg pow2 ofInt
  simp only [c0, c1, c2, c3, c4, c5, c6, c7, c8, c9, c10, c11, c12, c13, c15, c16, c17, c18, c19, c20, c21, c22, c23, c24, c25, c26, c27, c28, d1, d2, d3, and_true, true_and, and_false, false_and, false_or, or_false, true_or, or_true, if_true, if_false]
  norm_num
  try ring

theorem tt2ut_seg14 (year month : Int) (h1 : 2150 ≤ year) : tt2ut year month = deltaT year (dtArg year month) := by
  have c0 : ¬ (year < -500) := by omega
  have c1 : ¬ (year ≥ -500 ∧ year < 500) := by omega
  have c2 : ¬ (year ≥ 500 ∧ year < 1600) := by omega
  have c3 : ¬ (year ≥ 1600 ∧ year < 1700) := by omega
  have c4 : ¬ (year ≥ 1700 ∧ year < 1800) := by omega
  have c5 : ¬ (year ≥ 1800 ∧ year < 1860) := by omega
  have c6 : ¬ (year ≥ 1860 ∧ year < 1900) := by omega
  have c7 : ¬ (year ≥ 1900 ∧ year < 1920) := by omega
  have c8 : ¬ (year ≥ 1920 ∧ year < 1941) := by omega
  have c9 : ¬ (year ≥ 1941 ∧ year < 1961) := by omega
  have c10 : ¬ (year ≥ 1961 ∧ year < 1986) := by omega
  have c11 : ¬ (year ≥ 1986 ∧ year < 2005) := by omega
  have c12 : ¬ (year ≥ 2005 ∧ year < 2050) := by omega
  have c13 : ¬ (year ≥ 2050 ∧ year < 2150) := by omega
  have c15 : ¬ (year < 500) := by omega
  have c16 : ¬ (year < 1600) := by omega
  have c17 : ¬ (year < 1700) := by omega
  have c18 : ¬ (year < 1800) := by omega
  have c19 : ¬ (year < 1860) := by omega
  have c20 : ¬ (year < 1900) := by omega
  have c21 : ¬ (year < 1920) := by omega
  have c22 : ¬ (year < 1941) := by omega
  have c23 : ¬ (year < 1961) := by omega
  have c24 : ¬ (year < 1986) := by omega
  have c25 : ¬ (year < 2005) := by omega
  have c26 : ¬ (year < 2050) := by omega
  have c27 : ¬ (year < 2150) := by omega
  have c28 : (year < -500 ∨ (500 ≤ year ∧ year < 1600) ∨ 2150 ≤ year) := by omega
  have d1 : ¬ (500 ≤ year ∧ year < 1600) := by omega
  have d2 : (2150 ≤ year) := by omega
  have d3 : (500 ≤ year) := by omega
  unfold tt2ut deltaT dtArg pow2 ofInt
  simp only [c0, c1, c2, c3, c4, c5, c6, c7, c8, c9, c10, c11, c12, c13, c15, c16, c17, c18, c19, c20, c21, c22, c23, c24, c25, c26, c27, c28, d1, d2, d3, and_true, true_and, and_false, false_and, false_or, or_false, true_or, or_true, if_true, if_false]
  norm_num
  try ring

/-- `Epoch.tt2ut` is the Espenak-Meeus expression of the segment the calendar year falls in, for every year and month -/
theorem tt2ut_eq_spec (year month : Int) : tt2ut year month = deltaT year (dtArg year month) := by
  by_cases b0 : year < -500
  · exact tt2ut_seg0 year month b0
  by_cases b1 : year < 500
  · exact tt2ut_seg1 year month (by omega) b1
  by_cases b2 : year < 1600
  · exact tt2ut_seg2 year month (by omega) b2
  by_cases b3 : year < 1700
  · exact tt2ut_seg3 year month (by omega) b3
  by_cases b4 : year < 1800
  · exact tt2ut_seg4 year month (by omega) b4
  by_cases b5 : year < 1860
  · exact tt2ut_seg5 year month (by omega) b5
  by_cases b6 : year < 1900
  · exact tt2ut_seg6 year month (by omega) b6
  by_cases b7 : year < 1920
  · exact tt2ut_seg7 year month (by omega) b7
  by_cases b8 : year < 1941
  · exact tt2ut_seg8 year month (by omega) b8
  by_cases b9 : year < 1961
  · exact tt2ut_seg9 year month (by omega) b9
  by_cases b10 : year < 1986
  · exact tt2ut_seg10 year month (by omega) b10
  by_cases b11 : year < 2005
  · exact tt2ut_seg11 year month (by omega) b11
  by_cases b12 : year < 2050
  · exact tt2ut_seg12 year month (by omega) b12
  by_cases b13 : year < 2150
  · exact tt2ut_seg13 year month (by omega) b13
  exact tt2ut_seg14 year month (by omega)

end Pymeeus.Refine
