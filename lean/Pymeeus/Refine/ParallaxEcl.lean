import Pymeeus.Refine.Parallax
/-!
Helper lemmas for C18 about `Earth.parallax_ecliptical` over ℝ (after the repair ea54de3): closed form, range of the
topocentric latitude, bound of the displacement by the horizontal parallax.
-/
noncomputable section
namespace Pymeeus.Refine.Parallax
open Pymeeus Pymeeus.PR Pymeeus.GenR.Kepler Pymeeus.GenR.Ellipsoid Pymeeus.Refine.Kepler Pymeeus.Refine.Ellipsoid Real

theorem pradians_zero : pradians 0 = 0 := by simp [pradians]

theorem rcos_equator_sea_level : rcos 0 0 = 1 := by
  unfold rcos; rw [pradians_zero]; simp

theorem rsin_equator_sea_level : rsin 0 0 = 0 := by
  unfold rsin; rw [pradians_zero]; simp

/-! topocentric vector in ecliptic coordinates, in units of the distance -/
def en (lon lat obs sid dist height : ℝ) : ℝ :=
  Real.cos (pradians lon) * Real.cos (pradians lat) - rcos obs height * (sin_pi0 / dist) * Real.cos (pradians sid)
def eyl (lon lat obs obl sid dist height : ℝ) : ℝ :=
  Real.sin (pradians lon) * Real.cos (pradians lat)
    - sin_pi0 / dist * (rsin obs height * Real.sin (pradians obl) + rcos obs height * Real.cos (pradians obl) * Real.sin (pradians sid))
def ezz (lat obs obl sid dist height : ℝ) : ℝ :=
  Real.sin (pradians lat)
    - sin_pi0 / dist * (rsin obs height * Real.cos (pradians obl) - rcos obs height * Real.sin (pradians obl) * Real.sin (pradians sid))
def eh (lon lat obs obl sid dist height : ℝ) : ℝ :=
  Real.sqrt (eyl lon lat obs obl sid dist height * eyl lon lat obs obl sid dist height
    + en lon lat obs sid dist height * en lon lat obs sid dist height)

/-- topocentric longitude before `to_positive`, and latitude (degrees) -/
def elon0 (lon lat obs obl sid dist height : ℝ) : ℝ :=
  Complex.arg ⟨en lon lat obs sid dist height, eyl lon lat obs obl sid dist height⟩ * (180 / π)
def elat (lon lat obs obl sid dist height : ℝ) : ℝ :=
  Complex.arg ⟨eh lon lat obs obl sid dist height, ezz lat obs obl sid dist height⟩ * (180 / π)

theorem parallax_ecliptical_eq (lon lat semi obs obl sid : ℝ) {dist : ℝ} (hd : dist ≠ 0) (height : ℝ) :
    parallax_ecliptical lon lat semi obs obl sid dist height =
      match fdiv (Real.cos (pradians (elat lon lat obs obl sid dist height)) * Real.sin (pradians semi))
          (eh lon lat obs obl sid dist height) with
      | .error x => .error x
      | .ok q =>
        match fasin q with
        | .error x => .error x
        | .ok ts => .ok (to_positive (elon0 lon lat obs obl sid dist height), elat lon lat obs obl sid dist height,
                         angle_of_rad ts) := by
  have hnn : 0 ≤ eyl lon lat obs obl sid dist height * eyl lon lat obs obl sid dist height
      + en lon lat obs sid dist height * en lon lat obs sid dist height := by
    nlinarith [mul_self_nonneg (eyl lon lat obs obl sid dist height), mul_self_nonneg (en lon lat obs sid dist height)]
  unfold eyl en rcos rsin at hnn
  unfold parallax_ecliptical
  simp only [fdiv_ok hd, rho_sinphi_eq wgs84_valid, rho_cosphi_eq wgs84_valid, patan2, psin, pcos, angle_of_rad_arg]
  rw [fsqrt_ok hnn]
  rfl

/-- every successful call returns the latitude `elat` and the longitude `to_positive elon0` -/
theorem parallax_ecliptical_ok (lon lat semi obs obl sid : ℝ) {dist : ℝ} (hd : dist ≠ 0) (height : ℝ)
    {r : ℝ × ℝ × ℝ} (h : parallax_ecliptical lon lat semi obs obl sid dist height = .ok r) :
    r.1 = to_positive (elon0 lon lat obs obl sid dist height) ∧ r.2.1 = elat lon lat obs obl sid dist height := by
  rw [parallax_ecliptical_eq lon lat semi obs obl sid hd height] at h
  split at h
  · exact absurd h (by simp)
  · split at h
    · exact absurd h (by simp)
    · simp only [Except.ok.injEq] at h
      rw [← h]; exact ⟨rfl, rfl⟩

/-- with semidiameter 0 and a body not at the topocentric ecliptic pole the call succeeds -/
theorem parallax_ecliptical_semi0 (lon lat obs obl sid : ℝ) {dist : ℝ} (hd : dist ≠ 0) (height : ℝ)
    (hh : eh lon lat obs obl sid dist height ≠ 0) :
    parallax_ecliptical lon lat 0 obs obl sid dist height =
      .ok (to_positive (elon0 lon lat obs obl sid dist height), elat lon lat obs obl sid dist height, 0) := by
  rw [parallax_ecliptical_eq lon lat 0 obs obl sid hd height, pradians_zero, Real.sin_zero, mul_zero, fdiv_ok hh, zero_div]
  have : fasin 0 = .ok 0 := by simp [fasin, plt, pasin]
  simp only [this]
  have ha0 : angle_of_rad 0 = 0 := by rw [angle_of_rad_small (by simp; positivity)]; simp
  rw [ha0]

theorem elat_range (lon lat obs obl sid dist height : ℝ) :
    -90 ≤ elat lon lat obs obl sid dist height ∧ elat lon lat obs obl sid dist height ≤ 90 := by
  have hpi := Real.pi_pos
  have h : |Complex.arg ⟨eh lon lat obs obl sid dist height, ezz lat obs obl sid dist height⟩| ≤ π / 2 := by
    rw [Complex.abs_arg_le_pi_div_two_iff]; exact Real.sqrt_nonneg _
  obtain ⟨h1, h2⟩ := abs_le.mp h
  have hpos : (0 : ℝ) < 180 / π := by positivity
  unfold elat
  constructor
  · calc (-90 : ℝ) = -(π / 2) * (180 / π) := by field_simp; ring
      _ ≤ _ := mul_le_mul_of_nonneg_right h1 hpos.le
  · calc _ ≤ π / 2 * (180 / π) := mul_le_mul_of_nonneg_right h2 hpos.le
      _ = 90 := by field_simp; ring

/-- `to_positive` of a value in `(-180, 180]` lies in `[0, 360)` and differs from it by 0 or 360 -/
theorem to_positive_spec {x : ℝ} (h1 : -180 < x) (h2 : x ≤ 180) :
    0 ≤ to_positive x ∧ to_positive x < 360 ∧ (to_positive x = x ∨ to_positive x = x + 360) := by
  by_cases hx : x < 0
  · have e : (360.0 : ℝ) = 360 := by norm_num
    have hn : ¬ ((360 : ℝ) ≤ 360 - |x|) := by rw [abs_of_neg hx]; linarith
    have : to_positive x = 360 + x := by
      simp only [to_positive, plt, hx, decide_true, if_true, ple, pabs, e, hn, decide_false]
      rw [abs_of_neg hx]; simp
    rw [this]; exact ⟨by linarith, by linarith, Or.inr (by ring)⟩
  · have : to_positive x = x := by simp [to_positive, plt, hx]
    rw [this]; exact ⟨not_lt.mp hx, by linarith, Or.inl rfl⟩

theorem elon0_range (lon lat obs obl sid dist height : ℝ) :
    -180 < elon0 lon lat obs obl sid dist height ∧ elon0 lon lat obs obl sid dist height ≤ 180 := by
  have hpi := Real.pi_pos
  have hpos : (0 : ℝ) < 180 / π := by positivity
  have h1 := Complex.neg_pi_lt_arg ⟨en lon lat obs sid dist height, eyl lon lat obs obl sid dist height⟩
  have h2 := Complex.arg_le_pi ⟨en lon lat obs sid dist height, eyl lon lat obs obl sid dist height⟩
  unfold elon0
  constructor
  · calc (-180 : ℝ) = -π * (180 / π) := by field_simp
      _ < _ := mul_lt_mul_of_pos_right h1 hpos
  · calc _ ≤ π * (180 / π) := mul_le_mul_of_nonneg_right h2 hpos.le
      _ = 180 := by field_simp


/-! ### the displacement is at most the horizontal parallax -/

/-- `u·(u − o) > 0` for a unit vector `u` and `|o| < 1` (Cauchy-Schwarz through Lagrange's identity). -/
theorem dot_pos {u1 u2 u3 o1 o2 o3 : ℝ} (hu : u1 ^ 2 + u2 ^ 2 + u3 ^ 2 = 1) (ho : o1 ^ 2 + o2 ^ 2 + o3 ^ 2 < 1) :
    0 < u1 * (u1 - o1) + u2 * (u2 - o2) + u3 * (u3 - o3) := by
  obtain ⟨c, hc⟩ : ∃ c, c = u1 * o1 + u2 * o2 + u3 * o3 := ⟨_, rfl⟩
  have hlag : (u1 ^ 2 + u2 ^ 2 + u3 ^ 2) * (o1 ^ 2 + o2 ^ 2 + o3 ^ 2) - c ^ 2
      = (u1 * o2 - u2 * o1) ^ 2 + (u1 * o3 - u3 * o1) ^ 2 + (u2 * o3 - u3 * o2) ^ 2 := by rw [hc]; ring
  rw [hu, one_mul] at hlag
  have hcs : c ^ 2 < 1 := by
    have := sq_nonneg (u1 * o2 - u2 * o1); have := sq_nonneg (u1 * o3 - u3 * o1); have := sq_nonneg (u2 * o3 - u3 * o2)
    linarith
  have hc1 : c < 1 := by nlinarith [sq_nonneg (c - 1), sq_nonneg (c + 1)]
  have : u1 * (u1 - o1) + u2 * (u2 - o2) + u3 * (u3 - o3) = (u1 ^ 2 + u2 ^ 2 + u3 ^ 2) - c := by rw [hc]; ring
  rw [this, hu]; linarith

theorem cos_sep_core_gen {cb sb cl sl X Y Z H s2 : ℝ} (hH : H = Real.sqrt (Y * Y + X * X))
    (hb : Real.sqrt (1 - s2) * Real.sqrt (X ^ 2 + Y ^ 2 + Z ^ 2) ≤ cb * cl * X + cb * sl * Y + sb * Z)
    (hdot : 0 < cb * cl * X + cb * sl * Y + sb * Z) :
    Real.sqrt (1 - s2) ≤ sb * Real.sin (Complex.arg ⟨H, Z⟩)
        + cb * Real.cos (Complex.arg ⟨H, Z⟩) * (cl * Real.cos (Complex.arg ⟨X, Y⟩) + sl * Real.sin (Complex.arg ⟨X, Y⟩)) := by
  have hHsq : H ^ 2 = X ^ 2 + Y ^ 2 := by
    rw [hH, Real.sq_sqrt (by nlinarith [mul_self_nonneg X, mul_self_nonneg Y])]; ring
  have hn1 : ‖(⟨X, Y⟩ : ℂ)‖ = H := by
    rw [Complex.norm_eq_sqrt_sq_add_sq, hH]; congr 1; ring
  have hn2 : ‖(⟨H, Z⟩ : ℂ)‖ = Real.sqrt (X ^ 2 + Y ^ 2 + Z ^ 2) := by
    rw [Complex.norm_eq_sqrt_sq_add_sq]; congr 1; show H ^ 2 + Z ^ 2 = _; rw [hHsq]
  have hc1 : H * Real.cos (Complex.arg ⟨X, Y⟩) = X := by
    have := Complex.norm_mul_cos_arg (⟨X, Y⟩ : ℂ); rwa [hn1] at this
  have hs1 : H * Real.sin (Complex.arg ⟨X, Y⟩) = Y := by
    have := Complex.norm_mul_sin_arg (⟨X, Y⟩ : ℂ); rwa [hn1] at this
  have hc2 : Real.sqrt (X ^ 2 + Y ^ 2 + Z ^ 2) * Real.cos (Complex.arg ⟨H, Z⟩) = H := by
    have := Complex.norm_mul_cos_arg (⟨H, Z⟩ : ℂ); rwa [hn2] at this
  have hs2 : Real.sqrt (X ^ 2 + Y ^ 2 + Z ^ 2) * Real.sin (Complex.arg ⟨H, Z⟩) = Z := by
    have := Complex.norm_mul_sin_arg (⟨H, Z⟩ : ℂ); rwa [hn2] at this
  obtain ⟨W, hW⟩ : ∃ W, W = Real.sqrt (X ^ 2 + Y ^ 2 + Z ^ 2) := ⟨_, rfl⟩
  rw [← hW] at hb hc2 hs2
  have hW0 : 0 ≤ W := by rw [hW]; exact Real.sqrt_nonneg _
  have hkey : W * (sb * Real.sin (Complex.arg ⟨H, Z⟩)
        + cb * Real.cos (Complex.arg ⟨H, Z⟩) * (cl * Real.cos (Complex.arg ⟨X, Y⟩) + sl * Real.sin (Complex.arg ⟨X, Y⟩)))
      = cb * cl * X + cb * sl * Y + sb * Z := by
    have : W * (sb * Real.sin (Complex.arg ⟨H, Z⟩)
        + cb * Real.cos (Complex.arg ⟨H, Z⟩) * (cl * Real.cos (Complex.arg ⟨X, Y⟩) + sl * Real.sin (Complex.arg ⟨X, Y⟩)))
        = sb * (W * Real.sin (Complex.arg ⟨H, Z⟩))
          + cb * cl * ((W * Real.cos (Complex.arg ⟨H, Z⟩)) * Real.cos (Complex.arg ⟨X, Y⟩))
          + cb * sl * ((W * Real.cos (Complex.arg ⟨H, Z⟩)) * Real.sin (Complex.arg ⟨X, Y⟩)) := by ring
    rw [this, hs2, hc2, hc1, hs1]; ring
  have hWpos : 0 < W := by
    rcases hW0.lt_or_eq with h | h
    · exact h
    · rw [← h, zero_mul] at hkey; linarith
  rw [← hkey, mul_comm] at hb
  exact le_of_mul_le_mul_left hb hWpos

/-- Cosine of the angular separation between `(λ, β)` and `(λ', β')` (degrees). -/
def cos_sep_ecl (lon lat lon' lat' : ℝ) : ℝ :=
  Real.sin (pradians lat) * Real.sin (pradians lat')
    + Real.cos (pradians lat) * Real.cos (pradians lat') * Real.cos (pradians lon' - pradians lon)

theorem parallax_ecliptical_bound (lon lat obs obl sid dist height : ℝ)
    (hs : (sin_pi0 / dist) ^ 2 * (rcos obs height ^ 2 + rsin obs height ^ 2) < 1) :
    Real.sqrt (1 - (sin_pi0 / dist) ^ 2 * (rcos obs height ^ 2 + rsin obs height ^ 2))
      ≤ cos_sep_ecl lon lat (to_positive (elon0 lon lat obs obl sid dist height)) (elat lon lat obs obl sid dist height) := by
  obtain ⟨sp, hsp⟩ : ∃ sp, sp = sin_pi0 / dist := ⟨_, rfl⟩
  obtain ⟨A, hA⟩ : ∃ A, A = rcos obs height := ⟨_, rfl⟩
  obtain ⟨B, hB⟩ : ∃ B, B = rsin obs height := ⟨_, rfl⟩
  obtain ⟨cb, hcb⟩ : ∃ cb, cb = Real.cos (pradians lat) := ⟨_, rfl⟩
  obtain ⟨sb, hsb⟩ : ∃ sb, sb = Real.sin (pradians lat) := ⟨_, rfl⟩
  obtain ⟨cl, hcl⟩ : ∃ cl, cl = Real.cos (pradians lon) := ⟨_, rfl⟩
  obtain ⟨sl, hsl⟩ : ∃ sl, sl = Real.sin (pradians lon) := ⟨_, rfl⟩
  obtain ⟨ct, hct⟩ : ∃ ct, ct = Real.cos (pradians sid) := ⟨_, rfl⟩
  obtain ⟨st, hst⟩ : ∃ st, st = Real.sin (pradians sid) := ⟨_, rfl⟩
  obtain ⟨ce, hce⟩ : ∃ ce, ce = Real.cos (pradians obl) := ⟨_, rfl⟩
  obtain ⟨se, hse⟩ : ∃ se, se = Real.sin (pradians obl) := ⟨_, rfl⟩
  have hb1 : cb ^ 2 + sb ^ 2 = 1 := by rw [hcb, hsb]; nlinarith [Real.sin_sq_add_cos_sq (pradians lat)]
  have hl1 : cl ^ 2 + sl ^ 2 = 1 := by rw [hcl, hsl]; nlinarith [Real.sin_sq_add_cos_sq (pradians lon)]
  have ht1 : ct ^ 2 + st ^ 2 = 1 := by rw [hct, hst]; nlinarith [Real.sin_sq_add_cos_sq (pradians sid)]
  have he1 : ce ^ 2 + se ^ 2 = 1 := by rw [hce, hse]; nlinarith [Real.sin_sq_add_cos_sq (pradians obl)]
  have hX : en lon lat obs sid dist height = cb * cl - A * sp * ct := by unfold en; rw [hcb, hcl, hA, hsp, hct]; ring
  have hY : eyl lon lat obs obl sid dist height = cb * sl - sp * (B * se + A * ce * st) := by
    unfold eyl; rw [hcb, hsl, hA, hB, hsp, hce, hse, hst]; ring
  have hZ : ezz lat obs obl sid dist height = sb - sp * (B * ce - A * se * st) := by
    unfold ezz; rw [hsb, hA, hB, hsp, hce, hse, hst]
  rw [← hsp, ← hA, ← hB] at hs ⊢
  have ho : (A * sp * ct) ^ 2 + (sp * (B * se + A * ce * st)) ^ 2 + (sp * (B * ce - A * se * st)) ^ 2
      = sp ^ 2 * (A ^ 2 + B ^ 2) := by
    have e1 : (B * se + A * ce * st) ^ 2 + (B * ce - A * se * st) ^ 2 = B ^ 2 * (ce ^ 2 + se ^ 2) + A ^ 2 * st ^ 2 * (ce ^ 2 + se ^ 2) := by ring
    rw [he1, mul_one, mul_one] at e1
    have : (A * sp * ct) ^ 2 + (sp * (B * se + A * ce * st)) ^ 2 + (sp * (B * ce - A * se * st)) ^ 2
        = sp ^ 2 * (A ^ 2 * ct ^ 2 + ((B * se + A * ce * st) ^ 2 + (B * ce - A * se * st) ^ 2)) := by ring
    rw [this, e1]
    have : A ^ 2 * ct ^ 2 + (B ^ 2 + A ^ 2 * st ^ 2) = A ^ 2 * (ct ^ 2 + st ^ 2) + B ^ 2 := by ring
    rw [this, ht1]; ring
  have hu3 : (cb * cl) ^ 2 + (cb * sl) ^ 2 + sb ^ 2 = 1 := by
    have : (cb * cl) ^ 2 + (cb * sl) ^ 2 + sb ^ 2 = cb ^ 2 * (cl ^ 2 + sl ^ 2) + sb ^ 2 := by ring
    rw [this, hl1, mul_one, hb1]
  have hb := sep_bound (u1 := cb * cl) (u2 := cb * sl) (u3 := sb) (o1 := A * sp * ct) (o2 := sp * (B * se + A * ce * st))
    (o3 := sp * (B * ce - A * se * st)) hu3 (by rw [ho]; exact hs)
  rw [ho, ← hX, ← hY, ← hZ] at hb
  -- u·w = 1 - u·o > 0 (Cauchy-Schwarz, |o| < 1)
  have hdot : 0 < cb * cl * en lon lat obs sid dist height + cb * sl * eyl lon lat obs obl sid dist height
      + sb * ezz lat obs obl sid dist height := by
    have := dot_pos (u1 := cb * cl) (u2 := cb * sl) (u3 := sb) (o1 := A * sp * ct) (o2 := sp * (B * se + A * ce * st))
      (o3 := sp * (B * ce - A * se * st)) hu3 (by rw [ho]; exact hs)
    rw [← hX, ← hY, ← hZ] at this
    exact this
  have core := cos_sep_core_gen (cb := cb) (sb := sb) (cl := cl) (sl := sl) (H := eh lon lat obs obl sid dist height) rfl hb hdot
  -- the returned longitude differs from elon0 by 0 or 360 degrees
  obtain ⟨r1, r2⟩ := elon0_range lon lat obs obl sid dist height
  obtain ⟨_, _, hcase⟩ := to_positive_spec r1 r2
  have hcos : Real.cos (pradians (to_positive (elon0 lon lat obs obl sid dist height)) - pradians lon)
      = cl * Real.cos (Complex.arg ⟨en lon lat obs sid dist height, eyl lon lat obs obl sid dist height⟩)
        + sl * Real.sin (Complex.arg ⟨en lon lat obs sid dist height, eyl lon lat obs obl sid dist height⟩) := by
    have hrad : pradians (elon0 lon lat obs obl sid dist height)
        = Complex.arg ⟨en lon lat obs sid dist height, eyl lon lat obs obl sid dist height⟩ := by
      unfold elon0; exact radians_degrees _
    rcases hcase with h | h
    · rw [h, hrad, Real.cos_sub, hcl, hsl]; ring
    · have : pradians (elon0 lon lat obs obl sid dist height + 360) = pradians (elon0 lon lat obs obl sid dist height) + 2 * π := by
        unfold pradians; ring
      rw [h, this, hrad, add_sub_right_comm, Real.cos_add_two_pi, Real.cos_sub, hcl, hsl]; ring
  unfold cos_sep_ecl
  rw [hcos, ← hcb, ← hsb]
  have hrad2 : pradians (elat lon lat obs obl sid dist height)
      = Complex.arg ⟨eh lon lat obs obl sid dist height, ezz lat obs obl sid dist height⟩ := by
    unfold elat; exact radians_degrees _
  rw [hrad2]
  exact core

end Pymeeus.Refine.Parallax
