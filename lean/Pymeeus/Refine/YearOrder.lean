import Pymeeus.Refine.Instant
/-
Order facts on the integer day number `jdnI`: a year's days are contiguous, years follow each other.
-/
namespace Pymeeus.Refine
open Pymeeus Pymeeus.PQ Pymeeus.GenQ Pymeeus.Spec

/-- number of days of the civil year: 355 in 1582 -/
def yearLen (y : Int) : Int := if y = 1582 then 355 else if Spec.leap y then 366 else 365

theorem valid_dec31 (y : Int) (hy : -4712 ≤ y) : Valid y 12 31 := by
  refine ⟨hy, by decide, by decide, by decide, ?_, by omega⟩
  simp [monthLen]

theorem valid_jan1 (y : Int) (hy : -4712 ≤ y) : Valid y 1 1 := by
  refine ⟨hy, by decide, by decide, by decide, ?_, by omega⟩
  simp [monthLen]

theorem doyI_dec31 (y : Int) : doyI y 12 31 = yearLen y := by
  unfold doyI yearLen
  by_cases c : y > 1582
  · have c2 : ¬ y = 1582 := by omega
    simp only [c, c2, if_true, if_false, dbm_eq y 12 (by omega) (by decide) (by decide)]
    split_ifs <;> omega
  · simp only [c, if_false]
    by_cases c2 : y = 1582
    · subst c2; simp [Spec.leap]
    · simp only [c2, false_and, if_false]
      split_ifs <;> norm_num

theorem doyI_le (y m d : Int) (h : Valid y m d) : doyI y m d ≤ yearLen y := by
  obtain ⟨hy0, hm1, hm12, hd1, hdl, hgap⟩ := h
  have hd31 : d ≤ 31 := by unfold monthLen at hdl; split_ifs at hdl <;> omega
  rw [← doyI_dec31]
  unfold doyI
  by_cases c : y > 1582
  · simp only [c, if_true]
    have hd : d ≤ dimI (calendar_isleap y) m := by
      have := dt_days_in_month_eq y m (by omega) hm1 hm12
      rw [← this] at hdl; exact hdl
    obtain ⟨_, _, h3, _⟩ := mdOf_eq (calendar_isleap y) m d hm1 hm12 hd1 hd
    have e1 : dt_days_before_month y m = dbmI (calendar_isleap y) m := rfl
    have e2 : dt_days_before_month y 12 = 334 + (if calendar_isleap y = true then 1 else 0) := by
      simp [dt_days_before_month, days_before_month_tbl]
    rw [e1, e2]; omega
  · simp only [c, if_false]
    unfold monthLen at hdl
    by_cases c2 : y = 1582
    · subst c2
      simp [Spec.leap] at hdl ⊢
      interval_cases m <;> simp at hdl ⊢ <;> (try split_ifs) <;> omega
    · have n1 : ¬ (y = 1582 ∧ (m > 10 ∨ (m = 10 ∧ d ≥ 15))) := by omega
      have n2 : ¬ (y = 1582 ∧ ((12:Int) > 10 ∨ ((12:Int) = 10 ∧ (31:Int) ≥ 15))) := by omega
      simp only [n1, n2, if_false]
      interval_cases m <;> simp at hdl ⊢ <;> (try split_ifs at hdl ⊢) <;> omega

theorem jdnI_next_year (y : Int) (hy : -4712 ≤ y) : jdnI (y + 1) 1 1 = jdnI y 1 1 + yearLen y := by
  have h1 := consecutive_int y 12 31 (valid_dec31 y hy)
  have hn : next y 12 31 = (y + 1, 1, 1) := by
    unfold next monthLen; simp
  rw [hn] at h1
  have h2 := doyI_eq y 12 31 (valid_dec31 y hy)
  rw [doyI_dec31] at h2
  simp only at h1
  omega

theorem yearLen_pos (y : Int) : 355 ≤ yearLen y := by unfold yearLen; split_ifs <;> omega

theorem jdnI_year_mono (y : Int) (hy : -4712 ≤ y) (k : Nat) : jdnI y 1 1 + yearLen y ≤ jdnI (y + 1 + k) 1 1 := by
  induction k with
  | zero => simp only [Nat.cast_zero, add_zero]; rw [jdnI_next_year y hy]
  | succ n ih =>
    have := jdnI_next_year (y + 1 + n) (by omega)
    have hp := yearLen_pos (y + 1 + n)
    rw [show y + 1 + ((n + 1 : Nat) : Int) = y + 1 + n + 1 by push_cast; ring]
    omega

theorem jdnI_in_year (y m d : Int) (h : Valid y m d) :
    jdnI y 1 1 ≤ jdnI y m d ∧ jdnI y m d < jdnI y 1 1 + yearLen y := by
  have h1 := doyI_eq y m d h
  have h2 := doyI_pos y m d h
  have h3 := doyI_le y m d h
  constructor <;> omega

/-- a later year has larger day numbers -/
theorem jdnI_lt_of_year_lt (y1 m1 d1 y2 m2 d2 : Int) (h1 : Valid y1 m1 d1) (h2 : Valid y2 m2 d2) (hlt : y1 < y2) :
    jdnI y1 m1 d1 < jdnI y2 m2 d2 := by
  have a := jdnI_in_year y1 m1 d1 h1
  have b := jdnI_in_year y2 m2 d2 h2
  have c := jdnI_year_mono y1 h1.1 (y2 - y1 - 1).toNat
  rw [show y1 + 1 + ((y2 - y1 - 1).toNat : Int) = y2 by omega] at c
  omega

theorem leap_le_yearLen (y : Int) : yearLen y ≤ (if Spec.leap y then 366 else 365) := by
  unfold yearLen; split_ifs <;> omega

end Pymeeus.Refine
