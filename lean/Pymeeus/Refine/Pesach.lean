import Pymeeus.Refine.EpochRelig
import Pymeeus.Spec.Hebrew
/-
Pesach: the integer shadow `pesachI` of the model (equal to the model for every year,
`jewish_pesach_int`) is evaluated by the kernel against the arithmetic Hebrew calendar of
Spec/Hebrew.lean for every year 1..3000 (the domain of the property), in three chunks.
-/
namespace Pymeeus.Refine
open Pymeeus Pymeeus.Spec

/-- everything the property says about one year, as a Boolean on integers -/
def pesachCheck (y : Int) : Bool :=
  let p := pesachI y
  let j := jdnI y p.1 p.2
  decide (j = Hebrew.nisan15 (Hebrew.yearOfPesach y)) &&
  (decide ((j + 1) % 7 = 0) || decide ((j + 1) % 7 = 2) || decide ((j + 1) % 7 = 4) || decide ((j + 1) % 7 = 6)) &&
  ((decide (p.1 = 3) && decide (1 ≤ p.2) && decide (p.2 ≤ 31)) || (decide (p.1 = 4) && decide (1 ≤ p.2) && decide (p.2 ≤ 30)))

theorem forall_of_range_all (p : Int → Bool) (lo : Int) (n : Nat)
    (h : (List.range n).all (fun i => p (lo + (i : Int))) = true) :
    ∀ y, lo ≤ y → y < lo + n → p y = true := by
  intro y h1 h2
  rw [List.all_eq_true] at h
  have := h (y - lo).toNat (by rw [List.mem_range]; omega)
  rwa [show lo + ((y - lo).toNat : Int) = y by omega] at this

theorem pesach_chunk1 : (List.range 1000).all (fun i => pesachCheck (1 + (i : Int))) = true := by decide +kernel
theorem pesach_chunk2 : (List.range 1000).all (fun i => pesachCheck (1001 + (i : Int))) = true := by decide +kernel
theorem pesach_chunk3 : (List.range 1000).all (fun i => pesachCheck (2001 + (i : Int))) = true := by decide +kernel

theorem pesachCheck_all (y : Int) (h1 : 1 ≤ y) (h2 : y ≤ 3000) : pesachCheck y = true := by
  by_cases a : y < 1001
  · exact forall_of_range_all _ 1 1000 pesach_chunk1 y h1 (by omega)
  by_cases b : y < 2001
  · exact forall_of_range_all _ 1001 1000 pesach_chunk2 y (by omega) (by omega)
  · exact forall_of_range_all _ 2001 1000 pesach_chunk3 y (by omega) (by omega)

end Pymeeus.Refine
