import Pymeeus.Refine.Interpolation
import Pymeeus.Refine.Derivative
import Mathlib.Tactic.Positivity
/-
Partial correctness of `Interpolation.root`: the loop invariant
"the bracket [xl, xh] stays inside the initial one, x lies in it, y = I(x), the ordinates at the
two ends have opposite signs" and what it gives for a returned abscissa.
-/
namespace Pymeeus.Refine.Interpolation
open Pymeeus Pymeeus.PQ Pymeeus.GenQ.Interpolation

/-- Generic invariant rule for `loopFuel`. -/
theorem loopFuel_post {σ ρ : Type} (step : σ → Sum σ ρ) (Inv : σ → Prop) (Post : ρ → Prop)
    (hstep : ∀ s, Inv s → (∀ s', step s = .inl s' → Inv s') ∧ (∀ r, step s = .inr r → Post r)) :
    ∀ (n : ℕ) (s : σ), Inv s → ∀ r, loopFuel step n s = some r → Post r := by
  intro n
  induction n with
  | zero => intro s _ r h; simp [loopFuel] at h
  | succ n ih =>
    intro s hs r h
    unfold loopFuel at h
    cases hst : step s with
    | inl s' => rw [hst] at h; exact ih s' ((hstep s hs).1 s' hst) r h
    | inr r' =>
      rw [hst] at h
      injection h with h
      subst h
      exact (hstep s hs).2 r' hst

theorem pdiv_ok {a b q : ℚ} (h : pdiv a b = .ok q) : b ≠ 0 ∧ q = a / b := by
  unfold pdiv at h
  by_cases hb : b = 0
  · simp [peq, hb] at h
  · simp only [peq, hb, decide_false, Bool.false_eq_true, if_false] at h
    injection h with h
    exact ⟨hb, h.symm⟩

/-- The false-position point of a bracket with opposite signs at its ends lies in the bracket. -/
theorem secant_between {xl xh yl yh : ℚ} (hx : xl ≤ xh) (hs : yl * yh < 0) :
    xl ≤ (xl * yh - xh * yl) / (yh - yl) ∧ (xl * yh - xh * yl) / (yh - yl) ≤ xh := by
  rcases lt_trichotomy yl 0 with hl | hl | hl
  · have hh : 0 < yh := by
      by_contra hn
      have : 0 ≤ yl * yh := mul_nonneg_of_nonpos_of_nonpos hl.le (not_lt.mp hn)
      linarith
    have hd : 0 < yh - yl := by linarith
    constructor
    · rw [le_div_iff₀ hd]; nlinarith
    · rw [div_le_iff₀ hd]; nlinarith
  · rw [hl, zero_mul] at hs; exact absurd hs (lt_irrefl _)
  · have hh : yh < 0 := by
      by_contra hn
      have : 0 ≤ yl * yh := mul_nonneg hl.le (not_lt.mp hn)
      linarith
    have hd : yh - yl < 0 := by linarith
    constructor
    · rw [le_div_iff_of_neg hd]; nlinarith
    · rw [div_le_iff_of_neg hd]; nlinarith

/-- Sign bookkeeping of the bracket update. -/
theorem sign_update {y yl yh : ℚ} (hs : yl * yh < 0) (hy : 0 ≤ y * yl) : y * yh < 0 ∨ y = 0 := by
  by_cases h0 : y = 0
  · right; exact h0
  · left
    rcases lt_trichotomy yl 0 with hl | hl | hl
    · have hh : 0 < yh := by
        by_contra hn
        have : 0 ≤ yl * yh := mul_nonneg_of_nonpos_of_nonpos hl.le (not_lt.mp hn)
        linarith
      have hyneg : y < 0 := by
        by_contra hn
        have hpos : 0 < y := lt_of_le_of_ne (not_lt.mp hn) (Ne.symm h0)
        have : y * yl < 0 := mul_neg_of_pos_of_neg hpos hl
        linarith
      exact mul_neg_of_neg_of_pos hyneg hh
    · rw [hl, zero_mul] at hs; exact absurd hs (lt_irrefl _)
    · have hh : yh < 0 := by
        by_contra hn
        have : 0 ≤ yl * yh := mul_nonneg hl.le (not_lt.mp hn)
        linarith
      have hypos : 0 < y := by
        by_contra hn
        have hneg : y < 0 := lt_of_le_of_ne (not_lt.mp hn) h0
        have : y * yl < 0 := mul_neg_of_neg_of_pos hneg hl
        linarith
      exact mul_neg_of_pos_of_neg hypos hh

/-- Invariant of the `while` loop of `root` for the initial bracket `[A, B]`. -/
def RootInv (o : Interp) (A B : ℚ) (s : RootState) : Prop :=
  A ≤ s.xl ∧ s.xl ≤ s.xh ∧ s.xh ≤ B ∧ s.xl ≤ s.x ∧ s.x ≤ s.xh ∧ call o s.x = .ok s.y ∧
  (s.yl * s.yh < 0 ∨ s.y = 0)

/-- What `root` promises about a returned abscissa. -/
def RootPost (o : Interp) (A B : ℚ) (r : PyRes ℚ) : Prop :=
  ∀ v, r = .ok v → A ≤ v ∧ v ≤ B ∧ ∃ y, call o v = .ok y ∧ |y| ≤ o.tol

theorem two_lit' : (2.0 : ℚ) = 2 := by norm_num

/-- The fallback abscissa (false position, or the midpoint every other time) lies in the bracket. -/
theorem root_fallback_between {s : RootState} (hx : s.xl ≤ s.xh) (hs : s.yl * s.yh < 0) {x : ℚ}
    (h : root_fallback s = .ok x) : s.xl ≤ x ∧ x ≤ s.xh := by
  unfold root_fallback at h
  split_ifs at h
  · injection h with h
    subst h
    rw [two_lit']
    constructor <;> linarith
  · obtain ⟨_, hq⟩ := pdiv_ok h
    rw [hq]
    exact secant_between hx hs

/-- On an even pass the fallback halves the bracket: it returns the midpoint. -/
theorem root_fallback_even {s : RootState} (he : imod (s.num_iter + 1) 2 = 0) :
    root_fallback s = .ok ((s.xl + s.xh) / 2) := by
  unfold root_fallback
  rw [if_pos he, two_lit']

/-- The new iterate computed in the loop body lies in the current bracket and `y` is the interpolant there. -/
theorem root_iterate {o : Interp} {s : RootState} (hx : s.xl ≤ s.xh) (hs : s.yl * s.yh < 0) {x' y' : ℚ}
    (h : root_next o s = .ok (x', y')) :
    s.xl ≤ x' ∧ x' ≤ s.xh ∧ call o x' = .ok y' := by
  unfold root_next at h
  have fallback : ∀ {x'' y'' : ℚ}, (do
        let x ← root_fallback s
        let y ← call o x
        pure (x, y) : PyRes (ℚ × ℚ)) = .ok (x'', y'') → s.xl ≤ x'' ∧ x'' ≤ s.xh ∧ call o x'' = .ok y'' := by
    intro x'' y'' h
    cases hp : root_fallback s with
    | error e => rw [hp] at h; cases h
    | ok xs =>
      rw [hp] at h
      cases hc : call o xs with
      | error e => simp only [bind, Except.bind, hc] at h; cases h
      | ok ys =>
        simp only [bind, Except.bind, hc, pure, Except.pure] at h
        injection h with h
        injection h with h1 h2
        obtain ⟨b1, b2⟩ := root_fallback_between hx hs hp
        subst h1; subst h2
        exact ⟨b1, b2, hc⟩
  cases hd : GenQ.Interpolation.derivative o s.x with
  | error e => rw [hd] at h; cases h
  | ok yp =>
    rw [hd] at h
    simp only [bind, Except.bind] at h
    by_cases hsmall : plt (pabs yp) 1e-3 = true
    · rw [if_pos hsmall] at h; exact fallback h
    · rw [if_neg hsmall] at h
      cases hq : pdiv s.y yp with
      | error e => rw [hq] at h; cases h
      | ok q =>
        rw [hq] at h
        simp only at h
        by_cases hout : (plt (s.x - q) s.xl || plt s.xh (s.x - q)) = true
        · rw [if_pos hout] at h; exact fallback h
        · rw [if_neg hout] at h
          cases hc : call o (s.x - q) with
          | error e => rw [hc] at h; cases h
          | ok yn =>
            rw [hc] at h
            simp only [pure, Except.pure] at h
            injection h with h
            injection h with h1 h2
            subst h1; subst h2
            simp only [plt, Bool.or_eq_true, decide_eq_true_eq, not_or, not_lt] at hout
            exact ⟨hout.1, hout.2, hc⟩

theorem zero_lit' : (0.0 : ℚ) = 0 := by norm_num

/-- One pass through the loop keeps the invariant, or exits with the post-condition. -/
theorem root_step_inv {o : Interp} {A B : ℚ} (m : Int) (h0 : 0 ≤ o.tol) {s : RootState} (hinv : RootInv o A B s) :
    (∀ s', root_step o m s = .inl s' → RootInv o A B s') ∧
    (∀ r, root_step o m s = .inr r → RootPost o A B r) := by
  obtain ⟨i1, i2, i3, i4, i5, i6, i7⟩ := hinv
  unfold root_step
  by_cases hexit : (!(plt o.tol (pabs s.y))) = true
  · -- loop exit: return x
    rw [if_pos hexit]
    refine ⟨(fun s' h => by cases h), ?_⟩
    intro r h
    injection h with h
    subst h
    intro v hv
    injection hv with hv
    subst hv
    refine ⟨le_trans i1 i4, le_trans i5 i3, s.y, i6, ?_⟩
    simpa [plt, pabs_eq] using hexit
  · rw [if_neg hexit]
    have hbig : o.tol < |s.y| := by simpa [plt, pabs_eq] using hexit
    have hy0 : s.y ≠ 0 := by
      intro e; rw [e, abs_zero] at hbig; linarith
    have hsign : s.yl * s.yh < 0 := i7.resolve_right hy0
    by_cases hit : s.num_iter ≥ m
    · rw [if_pos hit]
      refine ⟨(fun s' h => by cases h), ?_⟩
      intro r h; injection h with h; subst h
      intro v hv; cases hv
    · rw [if_neg hit]
      split
      · rename_i e _
        refine ⟨(fun s' h => by cases h), ?_⟩
        intro r h; injection h with h; subst h
        intro v hv; cases hv
      · rename_i x' y' heq
        obtain ⟨b1, b2, hc⟩ := root_iterate i2 hsign heq
        by_cases hle : ple 0.0 (y' * s.yl) = true
        · rw [if_pos hle]
          refine ⟨?_, (fun r h => by cases h)⟩
          intro s' h
          injection h with h
          subst h
          have hnn : 0 ≤ y' * s.yl := by simpa [ple, zero_lit'] using hle
          exact ⟨le_trans i1 b1, b2, i3, le_refl _, b2, hc, sign_update hsign hnn⟩
        · rw [if_neg hle]
          refine ⟨?_, (fun r h => by cases h)⟩
          intro s' h
          injection h with h
          subst h
          have hneg : y' * s.yl < 0 := by simpa [ple, zero_lit'] using hle
          exact ⟨i1, b1, le_trans b2 i3, b1, le_refl _, hc, Or.inl (by rw [mul_comm]; exact hneg)⟩

/-- **Partial correctness of `root`**: with limits `[A, B]` (after defaults, swap and clamping, `A ≤ B`) a returned
    abscissa lies in `[A, B]` and the interpolant there is within the tolerance. -/
theorem root_post_core {o : Interp} (h0 : 0 < o.tol) {xl xh A B v : ℚ} {m : Int}
    (hlim : root_limits o xl xh = .ok (A, B)) (hAB : A ≤ B) (hr : root o xl xh m = .ok v) :
    A ≤ v ∧ v ≤ B ∧ ∃ y, call o v = .ok y ∧ |y| ≤ o.tol := by
  unfold root at hr
  rw [hlim] at hr
  simp only [bind, Except.bind] at hr
  cases hyl : call o A with
  | error e => rw [hyl] at hr; cases hr
  | ok yl =>
    rw [hyl] at hr
    simp only at hr
    cases hyh : call o B with
    | error e => rw [hyh] at hr; cases hr
    | ok yh =>
      rw [hyh] at hr
      simp only at hr
      by_cases c1 : plt (pabs yl) o.tol = true
      · rw [if_pos c1] at hr
        injection hr with hr
        subst hr
        have : |yl| < o.tol := by simpa [plt, pabs_eq] using c1
        exact ⟨le_refl _, hAB, yl, hyl, this.le⟩
      · rw [if_neg c1] at hr
        by_cases c2 : plt (pabs yh) o.tol = true
        · rw [if_pos c2] at hr
          injection hr with hr
          subst hr
          have : |yh| < o.tol := by simpa [plt, pabs_eq] using c2
          exact ⟨hAB, le_refl _, yh, hyh, this.le⟩
        · rw [if_neg c2] at hr
          by_cases c3 : plt 0.0 (yl * yh) = true
          · rw [if_pos c3] at hr; cases hr
          · rw [if_neg c3] at hr
            cases hym : call o ((A + B) / 2.0) with
            | error e => rw [hym] at hr; cases hr
            | ok ym =>
              rw [hym] at hr
              simp only at hr
              have b1 : o.tol ≤ |yl| := by simpa [plt, pabs_eq] using c1
              have b2 : o.tol ≤ |yh| := by simpa [plt, pabs_eq] using c2
              have b3 : yl * yh ≤ 0 := by simpa [plt, zero_lit'] using c3
              have hyl0 : yl ≠ 0 := by intro e; rw [e, abs_zero] at b1; linarith
              have hyh0 : yh ≠ 0 := by intro e; rw [e, abs_zero] at b2; linarith
              have hsign : yl * yh < 0 := lt_of_le_of_ne b3 (mul_ne_zero hyl0 hyh0)
              have hinit : RootInv o A B ⟨A, B, yl, yh, (A + B) / 2.0, ym, 0⟩ := by
                refine ⟨le_refl _, hAB, le_refl _, ?_, ?_, hym, Or.inl hsign⟩
                · show A ≤ (A + B) / 2.0
                  rw [two_lit']; linarith
                · show (A + B) / 2.0 ≤ B
                  rw [two_lit']; linarith
              cases hloop : loopFuel (root_step o m) (m.toNat + 1) ⟨A, B, yl, yh, (A + B) / 2.0, ym, 0⟩ with
              | none => rw [hloop] at hr; cases hr
              | some r =>
                rw [hloop] at hr
                simp only at hr
                exact loopFuel_post (root_step o m) (RootInv o A B) (RootPost o A B)
                  (fun s hs => root_step_inv m h0.le hs) _ _ hinit r hloop v hr

/-- The limits `root` works with. -/
theorem root_limits_spec {o : Interp} (h : WF o) {xl xh A B : ℚ} (hlim : root_limits o xl xh = .ok (A, B)) :
    (xl = 0 ∧ xh = 0 → A = xfirst o ∧ B = xlast o) ∧
    (¬ (xl = 0 ∧ xh = 0) → A = max (min xl xh) (xfirst o) ∧ B = min (max xl xh) (xlast o)) := by
  have hfl : xfirst o ≤ xlast o := (nodes_between h (i := 0) (by have := h.two; omega)).2
  unfold root_limits at hlim
  cases hx : o.x with
  | nil => have := h.two; rw [hx] at this; simp at this
  | cons x0 xr =>
    rw [hx] at hlim
    simp only at hlim
    have e1 : x0 = xfirst o := by unfold xfirst nodes; rw [hx]; rfl
    have e2 : (x0 :: xr).getLastD 0 = xlast o := by
      rw [getLastD_eq_nodes]; unfold xlast; rw [hx]; rfl
    rw [e2, e1] at hlim
    by_cases hz : xl = 0 ∧ xh = 0
    · have c : (peq xl 0 && peq xh 0) = true := by simp [peq, hz.1, hz.2]
      rw [c] at hlim
      simp only [if_true] at hlim
      split_ifs at hlim with q1 q2 q3 q4
      all_goals (injection hlim with hlim; injection hlim with ha hb)
      all_goals simp only [plt, decide_eq_true_eq] at *
      all_goals exact ⟨fun _ => ⟨ha.symm, hb.symm⟩, fun hn => absurd hz hn⟩
    · have c : (peq xl 0 && peq xh 0) = false := by
        simp only [peq, Bool.and_eq_false_iff, decide_eq_false_iff_not]
        by_cases hxl : xl = 0
        · right; exact fun e => hz ⟨hxl, e⟩
        · left; exact hxl
      rw [c] at hlim
      simp only [Bool.false_eq_true, if_false] at hlim
      refine ⟨fun hh => absurd hh hz, fun _ => ?_⟩
      split_ifs at hlim with q1 q2 q3 q4 q5 q6
      all_goals (injection hlim with hlim; injection hlim with ha hb)
      all_goals simp only [plt, decide_eq_true_eq, not_lt] at *
      all_goals subst ha; subst hb
      all_goals constructor
      all_goals (rw [max_def, min_def]; split_ifs <;> linarith)

/-- A pass that continues the loop happens below the iteration budget and counts one iteration. -/
theorem root_step_inl {o : Interp} {m : Int} {s s' : RootState} (h : root_step o m s = .inl s') :
    s.num_iter < m ∧ s'.num_iter = s.num_iter + 1 := by
  unfold root_step at h
  split_ifs at h with h1 h2
  split at h
  · cases h
  · split_ifs at h <;> (injection h with h; subst h; exact ⟨not_le.mp h2, rfl⟩)

/-- **Termination of the loop of `root`**: `max_iter + 1 - num_iter` passes always suffice — the loop ends by
    its exit test or by the 'Too many iterations' error, never by running out of fuel. -/
theorem root_loop_terminates (o : Interp) (m : Int) : ∀ (fuel : ℕ) (s : RootState),
    (m - s.num_iter).toNat < fuel → loopFuel (root_step o m) fuel s ≠ none := by
  intro fuel
  induction fuel with
  | zero => intro s h; omega
  | succ n ih =>
    intro s h
    unfold loopFuel
    cases hst : root_step o m s with
    | inr r => simp
    | inl s' =>
      obtain ⟨h1, h2⟩ := root_step_inl hst
      simp only
      apply ih
      rw [h2]; omega

/-- A fallback pass with an even iteration count bisects: the bracket is halved. -/
theorem root_step_halves {o : Interp} {m : Int} {s s' : RootState} {yp : ℚ}
    (hd : GenQ.Interpolation.derivative o s.x = .ok yp) (hsmall : |yp| < 1e-3)
    (he : imod (s.num_iter + 1) 2 = 0) (h : root_step o m s = .inl s') :
    s'.xh - s'.xl = (s.xh - s.xl) / 2 := by
  unfold root_step at h
  split_ifs at h with h1 h2
  have hn : root_next o s = (do let y ← call o ((s.xl + s.xh) / 2); pure ((s.xl + s.xh) / 2, y) : PyRes (ℚ × ℚ)) := by
    unfold root_next
    rw [hd]
    have : plt (pabs yp) 1e-3 = true := by simpa [plt, pabs_eq] using hsmall
    simp only [bind, Except.bind, this, if_true, root_fallback_even he]
  rw [hn] at h
  cases hc : call o ((s.xl + s.xh) / 2) with
  | error e => rw [hc] at h; simp only [bind, Except.bind] at h; cases h
  | ok y =>
    rw [hc] at h
    simp only [bind, Except.bind, pure, Except.pure] at h
    split_ifs at h <;> (injection h with h; subst h; simp only; ring)

/-- What `root` does before the loop, given its limits and the interpolant at them. -/
theorem root_entry {o : Interp} {xl xh A B yl yh : ℚ} (m : Int)
    (hlim : root_limits o xl xh = .ok (A, B)) (hyl : call o A = .ok yl) (hyh : call o B = .ok yh) :
    (|yl| < o.tol → root o xl xh m = .ok A) ∧
    (¬ |yl| < o.tol → |yh| < o.tol → root o xl xh m = .ok B) ∧
    (¬ |yl| < o.tol → ¬ |yh| < o.tol → 0 < yl * yh → root o xl xh m = .error .valueError) := by
  unfold root
  rw [hlim]
  simp only [bind, Except.bind, hyl, hyh, plt, pabs_eq, zero_lit']
  refine ⟨fun h => ?_, fun h1 h2 => ?_, fun h1 h2 h3 => ?_⟩
  · simp [h, pure, Except.pure]
  · simp [h1, h2, pure, Except.pure]
  · simp [h1, h2, h3]

/-- Limits closer than the tolerance are refused. -/
theorem root_limits_equal {o : Interp} (hx : o.x ≠ []) {xl xh : ℚ} (hnd : ¬ (xl = 0 ∧ xh = 0))
    (hc : |xl - xh| < o.tol) : root_limits o xl xh = .error .valueError := by
  unfold root_limits
  cases hxs : o.x with
  | nil => exact absurd hxs hx
  | cons x0 xr =>
    simp only
    have c : (peq xl 0 && peq xh 0) = false := by
      simp only [peq, Bool.and_eq_false_iff, decide_eq_false_iff_not]
      by_cases hxl : xl = 0
      · right; exact fun e => hnd ⟨hxl, e⟩
      · left; exact hxl
    rw [c]
    simp only [Bool.false_eq_true, if_false, plt, pabs_eq, hc, decide_true, if_true]

/-- `__call__` on a constructed object: a value inside the table, a value or ValueError anywhere. -/
theorem call_in_range {o : Interp} (h : WF o) {x : ℚ} (hx : xfirst o ≤ x ∧ x ≤ xlast o) : ∃ y, call o x = .ok y := by
  rw [call_eq h]
  cases node_hit o.tol x o.x o.y with
  | some v => exact ⟨v, rfl⟩
  | none =>
    have : ¬ (x < xfirst o ∨ xlast o < x) := by
      intro hh; rcases hh with hh | hh <;> linarith [hx.1, hx.2]
    simp only [this, if_false]
    exact ⟨_, rfl⟩

theorem call_value_or_valueError {o : Interp} (h : WF o) (x : ℚ) :
    (∃ y, call o x = .ok y) ∨ call o x = .error .valueError := by
  rw [call_eq h]
  cases node_hit o.tol x o.x o.y with
  | some v => exact Or.inl ⟨v, rfl⟩
  | none =>
    simp only
    split_ifs
    · exact Or.inr rfl
    · exact Or.inl ⟨_, rfl⟩

/-- Inside a bracket that lies in the table and has opposite signs at its ends, the loop body never raises. -/
theorem root_next_ok {o : Interp} (h : WF o) {s : RootState} (hx : s.xl ≤ s.xh) (hs : s.yl * s.yh < 0)
    (hin : xfirst o ≤ s.xl ∧ s.xh ≤ xlast o) (hxin : s.xl ≤ s.x ∧ s.x ≤ s.xh) :
    ∃ p, root_next o s = .ok p := by
  have hfb : ∃ xf, root_fallback s = .ok xf := by
    unfold root_fallback
    split_ifs
    · exact ⟨_, rfl⟩
    · unfold pdiv
      have : s.yh - s.yl ≠ 0 := by
        intro e
        have : s.yh = s.yl := by linarith
        rw [this] at hs
        nlinarith [mul_self_nonneg s.yl]
      simp only [peq, this, decide_false, Bool.false_eq_true, if_false]
      exact ⟨_, rfl⟩
  obtain ⟨xf, hxf⟩ := hfb
  obtain ⟨f1, f2⟩ := root_fallback_between hx hs hxf
  obtain ⟨yf, hyf⟩ := call_in_range h (x := xf) ⟨by linarith [hin.1], by linarith [hin.2]⟩
  unfold root_next
  rw [derivative_eq h ⟨by linarith [hin.1, hxin.1], by linarith [hin.2, hxin.2]⟩]
  simp only [bind, Except.bind]
  split_ifs with hsmall
  · rw [hxf]; simp only [hyf, pure, Except.pure]; exact ⟨_, rfl⟩
  · have hyp : (Polynomial.derivative (poly o)).eval s.x ≠ 0 := by
      intro e
      apply hsmall
      rw [e]; simp only [plt, pabs_eq, abs_zero, decide_eq_true_eq]; norm_num
    unfold pdiv
    simp only [peq, hyp, decide_false, Bool.false_eq_true, if_false]
    split_ifs with hout
    · rw [hxf]; simp only [hyf, pure, Except.pure]; exact ⟨_, rfl⟩
    · simp only [plt, Bool.or_eq_true, decide_eq_true_eq, not_or, not_lt] at hout
      obtain ⟨yn, hyn⟩ := call_in_range h
        (x := s.x - s.y / (Polynomial.derivative (poly o)).eval s.x)
        ⟨by linarith [hin.1, hout.1], by linarith [hin.2, hout.2]⟩
      simp only [hyn, pure, Except.pure]; exact ⟨_, rfl⟩

/-- `root` returns a value or raises ValueError — nothing else (limits `A ≤ B` inside the table). -/
theorem root_total_core {o : Interp} (h : WF o) (h0 : 0 < o.tol) {xl xh A B : ℚ} (m : Int)
    (hlim : root_limits o xl xh = .ok (A, B)) (hAB : A ≤ B) (hA : xfirst o ≤ A) (hB : B ≤ xlast o) :
    (∃ v, root o xl xh m = .ok v) ∨ root o xl xh m = .error .valueError := by
  obtain ⟨yl, hyl⟩ := call_in_range h (x := A) ⟨hA, by linarith⟩
  obtain ⟨yh, hyh⟩ := call_in_range h (x := B) ⟨by linarith, hB⟩
  obtain ⟨e1, e2, e3⟩ := root_entry m hlim hyl hyh
  by_cases c1 : |yl| < o.tol
  · exact Or.inl ⟨A, e1 c1⟩
  by_cases c2 : |yh| < o.tol
  · exact Or.inl ⟨B, e2 c1 c2⟩
  by_cases c3 : 0 < yl * yh
  · exact Or.inr (e3 c1 c2 c3)
  have hyl0 : yl ≠ 0 := by intro e; rw [e, abs_zero] at c1; exact c1 h0
  have hyh0 : yh ≠ 0 := by intro e; rw [e, abs_zero] at c2; exact c2 h0
  have hsign : yl * yh < 0 := lt_of_le_of_ne (not_lt.mp c3) (mul_ne_zero hyl0 hyh0)
  obtain ⟨ym, hym⟩ := call_in_range h (x := (A + B) / 2.0) (by rw [two_lit']; constructor <;> linarith)
  have hroot : root o xl xh m = (match loopFuel (root_step o m) (m.toNat + 1) ⟨A, B, yl, yh, (A + B) / 2.0, ym, 0⟩ with
      | some r => r | none => .error .other) := by
    unfold root
    rw [hlim]
    simp only [bind, Except.bind, hyl, hyh, plt, pabs_eq, zero_lit', c1, c2, c3, decide_false, Bool.false_eq_true,
      if_false, hym]
    rfl
  have hinit : RootInv o A B ⟨A, B, yl, yh, (A + B) / 2.0, ym, 0⟩ := by
    refine ⟨le_refl _, hAB, le_refl _, ?_, ?_, hym, Or.inl hsign⟩
    · show A ≤ (A + B) / 2.0
      rw [two_lit']; linarith
    · show (A + B) / 2.0 ≤ B
      rw [two_lit']; linarith
  have hstep : ∀ s, RootInv o A B s → (∀ s', root_step o m s = .inl s' → RootInv o A B s') ∧
      (∀ r, root_step o m s = .inr r → ((∃ v, r = .ok v) ∨ r = .error .valueError)) := by
    intro s hs
    refine ⟨(root_step_inv m h0.le hs).1, ?_⟩
    obtain ⟨i1, i2, i3, i4, i5, i6, i7⟩ := hs
    intro r hr
    unfold root_step at hr
    split_ifs at hr with q1 q2
    · injection hr with hr; exact Or.inl ⟨_, hr.symm⟩
    · injection hr with hr; exact Or.inr hr.symm
    · have hbig : o.tol < |s.y| := by simpa [plt, pabs_eq] using q1
      have hy0 : s.y ≠ 0 := by intro e; rw [e, abs_zero] at hbig; linarith
      obtain ⟨p, hp⟩ := root_next_ok h i2 (i7.resolve_right hy0) ⟨by linarith, by linarith⟩ ⟨i4, i5⟩
      rw [hp] at hr
      simp only at hr
      split_ifs at hr
  rw [hroot]
  cases hloop : loopFuel (root_step o m) (m.toNat + 1) ⟨A, B, yl, yh, (A + B) / 2.0, ym, 0⟩ with
  | none => exact absurd hloop (root_loop_terminates o m _ _ (by simp))
  | some r =>
    simp only
    exact loopFuel_post (root_step o m) (RootInv o A B) _ hstep _ _ hinit r hloop

theorem root_ok_limits {o : Interp} {xl xh v : ℚ} {m : Int} (hr : root o xl xh m = .ok v) :
    ∃ A B, root_limits o xl xh = .ok (A, B) := by
  unfold root at hr
  cases hl : root_limits o xl xh with
  | error e => rw [hl] at hr; cases hr
  | ok p => exact ⟨p.1, p.2, rfl⟩

end Pymeeus.Refine.Interpolation
