import Pymeeus.Refine.SunEarth
import Pymeeus.Gen.R.Geocentric
/-
Helper lemmas for C09: the bisection loop of `kepler_equation` (termination within the fuel of the model,
bracket of the result).
-/
noncomputable section
namespace Pymeeus.Refine.Geocentric
open Pymeeus Pymeeus.PR Pymeeus.GenR Pymeeus.GenR.Helio Pymeeus.Refine.Vsop Pymeeus.Refine.SunEarth

lemma copysign1_abs (x : ℝ) : |geo_copysign1 x| = 1 := by
  unfold geo_copysign1; split_ifs <;> simp

lemma tol_val : (geo_tol : ℝ) = 1e-10 := rfl

/-- bisection loop: with step `D` and `|e0 − ef| = 2D`, it stops within `n + 1` iterations once `2D ≤ tol·2^n`,
    and the result is within `2D` of the current `e0` -/
lemma kepler_loop_aux (ecc m : ℝ) : ∀ (n : ℕ) (s : ℝ × ℝ × ℝ) (D : ℝ), 0 < D → s.2.1 = D → |s.1 - s.2.2| = 2 * D →
    2 * D ≤ geo_tol * 2 ^ n → ∀ fuel : ℕ, n + 1 ≤ fuel →
    ∃ r, loopFuel (kepler_step ecc m) fuel s = some r ∧ |r - s.1| < 2 * D := by
  intro n
  induction n with
  | zero =>
    intro s D hD hs hd hle fuel hf
    obtain ⟨f, rfl⟩ : ∃ f, fuel = f + 1 := ⟨fuel - 1, by omega⟩
    have hc : ¬ (geo_tol < |s.1 - s.2.2|) := by rw [hd]; simpa using hle
    refine ⟨s.1, ?_, by simpa using hD⟩
    simp [loopFuel, kepler_step, plt, pabs, hc]
  | succ n ih =>
    intro s D hD hs hd hle fuel hf
    obtain ⟨f, rfl⟩ : ∃ f, fuel = f + 1 := ⟨fuel - 1, by omega⟩
    by_cases hc : geo_tol < |s.1 - s.2.2|
    · set s' : ℝ × ℝ × ℝ := (s.1 + s.2.1 * geo_copysign1 (m - (s.1 - ecc * psin s.1)), s.2.1 / 2.0, s.1) with hs'
      have e2 : (2.0 : ℝ) = 2 := by norm_num
      have hstep : loopFuel (kepler_step ecc m) (f + 1) s = loopFuel (kepler_step ecc m) f s' := by
        simp [loopFuel, kepler_step, plt, pabs, hc, hs']
      have h1 : s'.2.1 = D / 2 := by simp [hs', hs, e2]
      have h2 : |s'.1 - s'.2.2| = 2 * (D / 2) := by
        simp only [hs']
        rw [add_sub_cancel_left, abs_mul, copysign1_abs, mul_one, hs, abs_of_pos hD]; ring
      have h3 : 2 * (D / 2) ≤ geo_tol * 2 ^ n := by
        have : geo_tol * 2 ^ (n + 1) = 2 * (geo_tol * 2 ^ n) := by ring
        rw [this] at hle; linarith
      obtain ⟨r, hr, hb⟩ := ih s' (D / 2) (by linarith) h1 h2 h3 f (by omega)
      refine ⟨r, by rw [hstep, hr], ?_⟩
      have h4 : |s'.1 - s.1| = D := by
        simp only [hs']
        rw [add_sub_cancel_left, abs_mul, copysign1_abs, mul_one, hs, abs_of_pos hD]
      calc |r - s.1| = |(r - s'.1) + (s'.1 - s.1)| := by ring_nf
        _ ≤ |r - s'.1| + |s'.1 - s.1| := abs_add_le _ _
        _ < 2 * (D / 2) + D := by rw [h4]; linarith
        _ = 2 * D := by ring
    · refine ⟨s.1, ?_, by simpa using hD⟩
      simp [loopFuel, kepler_step, plt, pabs, hc]

end Pymeeus.Refine.Geocentric
