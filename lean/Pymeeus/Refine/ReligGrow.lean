import Pymeeus.Refine.Easter
import Pymeeus.Refine.Moslem3
/-
C19, second layer: cycle lengths of Easter, `moslem2gregorian` on every argument triple that
passes its own range test (incl. day 30 of a 29-day month), totality of `gregorian2moslem`.
-/
namespace Pymeeus.Refine
open Pymeeus Pymeeus.PQ Pymeeus.GenQ Pymeeus.Spec

/-! ### Easter repeats: 532 years (Julian), 5 700 000 years (Gregorian) -/

theorem easterI_julian_period (y : Int) (h : y + 532 ≤ 1582) : easterI (y + 532) = easterI y := by
  have h1 : ¬ y + 532 ≥ 1583 := by omega
  have h2 : ¬ y ≥ 1583 := by omega
  have a4 : (y + 532) % 4 = y % 4 := by omega
  have a7 : (y + 532) % 7 = y % 7 := by omega
  have a19 : (y + 532) % 19 = y % 19 := by omega
  unfold easterI
  simp only [h1, h2, if_false, a4, a7, a19]

theorem gH_period (y : Int) : gH (y + 5700000) = gH y := by
  have hb : (y + 5700000) / 100 = y / 100 + 57000 := by omega
  have ha : (y + 5700000) % 19 = y % 19 := by omega
  unfold gH
  rw [hb, ha]
  generalize y / 100 = b
  generalize y % 19 = a
  have hd : (b + 57000) / 4 = b / 4 + 14250 := by omega
  have hf : (b + 57000 + 8) / 25 = (b + 8) / 25 + 2280 := by omega
  rw [hd, hf]
  have hg : (b + 57000 - ((b + 8) / 25 + 2280) + 1) / 3 = (b - (b + 8) / 25 + 1) / 3 + 18240 := by omega
  rw [hg]
  omega

theorem gL_period (y : Int) : gL (y + 5700000) = gL y := by
  have hb : (y + 5700000) / 100 = y / 100 + 57000 := by omega
  have hc : (y + 5700000) % 100 = y % 100 := by omega
  unfold gL
  rw [gH_period, hb, hc]
  have he : (y / 100 + 57000) % 4 = y / 100 % 4 := by omega
  rw [he]

theorem gM_period (y : Int) : gM (y + 5700000) = gM y := by
  have ha : (y + 5700000) % 19 = y % 19 := by omega
  unfold gM
  rw [gH_period, gL_period, ha]

theorem easterI_gregorian_period (y : Int) (h : 1583 ≤ y) : easterI (y + 5700000) = easterI y := by
  rw [easterI_greg_eq y h, easterI_greg_eq (y + 5700000) (by omega), gH_period, gL_period, gM_period]

/-! ### `moslem2gregorian` on every in-range argument triple -/

theorem m2gJX_spec_range (h m d : Int) (hh : 1 ≤ h) (hm1 : 1 ≤ m) (hm12 : m ≤ 12) (hd1 : 1 ≤ d) (hd30 : d ≤ 30) :
    622 ≤ (m2gJX h m d).2 ∧ 0 ≤ (m2gJX h m d).1 ∧
    (m2gJX h m d).1 ≤ (if (m2gJX h m d).2 % 4 = 0 then 366 else 365) ∧
    (1461 * ((m2gJX h m d).2 - 1)) / 4 + 1721423 + (m2gJX h m d).1 = Islamic.jdn h m d := by
  have hd355 : d + (59 * (m - 1) + 1) / 2 ≤ 355 := by omega
  have hn1 : 1 ≤ d + (59 * (m - 1) + 1) / 2 := by omega
  have := m2g_core h (d + (59 * (m - 1) + 1) / 2) _ _ _ _ _ _ _ _ _ _ rfl rfl rfl rfl rfl rfl rfl rfl rfl rfl hh hn1 hd355
    (m2gJX h m d) (by unfold m2gJX; rw [m2g_n m hm1 hm12])
  unfold Islamic.jdn
  exact this

/-- Any argument triple that passes the range test of `moslem2gregorian` -- also day 30 of a month of
    29 days -- is converted to the civil date whose day number is given by the tabular formula. -/
theorem m2gI_correct_range (h m d : Int) (hh : 1 ≤ h) (hm1 : 1 ≤ m) (hm12 : m ≤ 12) (hd1 : 1 ≤ d) (hd30 : d ≤ 30) :
    ∃ (y' m' d' : Int) (D : Int ⊕ ℚ), m2gI h m d = .ok (y', m', D) ∧ dayQ D = (d' : ℚ) ∧ Valid y' m' d' ∧
      jdnI y' m' d' = Islamic.jdn h m d := by
  obtain ⟨hx622, hj0, hjle, hJ⟩ := m2gJX_spec_range h m d hh hm1 hm12 hd1 hd30
  have hpos : 1948440 ≤ Islamic.jdn h m d := by unfold Islamic.jdn; omega
  have hval : ¬ (d < 1 ∨ d > 30 ∨ m < 1 ∨ m > 12 ∨ h < 1) := by omega
  unfold m2gI
  simp only [hval, if_false]
  generalize (m2gJX h m d).1 = j at *
  generalize (m2gJX h m d).2 = x at *
  by_cases hc : x > 1582 ∨ (x = 1582 ∧ j > 277) ∨ j < 1
  · simp only [hc, if_true]
    obtain ⟨y', m', d', hv', hj', e1, e2, e3⟩ := invI_valid (1461 * (x - 1) / 4 + 1721423 + j) (by omega)
    refine ⟨y', m', d', .inl d', ?_, rfl, hv', by omega⟩
    rw [e1, e3] at *
    rw [e2]
  · simp only [hc, if_false]
    obtain ⟨f1, f2, f3⟩ := doy2dateI_correct x j (by omega) (by omega) (by omega) hjle (by omega)
    exact ⟨x, _, _, _, by rw [f1], rfl, f2, by omega⟩

theorem m2gI_error (h m d : Int) (hbad : d < 1 ∨ d > 30 ∨ m < 1 ∨ m > 12 ∨ h < 1) :
    m2gI h m d = .error .valueError := by
  unfold m2gI; simp only [hbad, if_true]

/-! ### `gregorian2moslem` is total on its range -/

theorem g2m_ok (y m d : Int) (hval : ¬ (d < 1 ∨ d > 31 ∨ m < 1 ∨ m > 12 ∨ y < -4712)) :
    ∃ r, gregorian2moslem y m d = .ok r := by
  rw [gregorian2moslem_int]
  simp only [hval, if_false]
  have hhead : g2mHeadI y m d = (g2mH (jdnI y m d), g2mJJ (jdnI y m d)) := by
    unfold g2mHeadI; rw [g2mDayNumber_eq y m d (by omega) (by omega), g2mFromInv_eq]
  rw [hhead]
  obtain ⟨_, hj1, hj2⟩ := g2mFromInv_spec (jdnI y m d)
  obtain ⟨h', jj', ⟨s1, e1, e2⟩, _⟩ := loops_spec _ _ hj1 hj2
  dsimp only
  rw [e1]; dsimp only; rw [e2]; dsimp only
  exact ⟨_, rfl⟩

theorem g2m_error (y m d : Int) (hbad : d < 1 ∨ d > 31 ∨ m < 1 ∨ m > 12 ∨ y < -4712) :
    gregorian2moslem y m d = .error .valueError := by
  rw [gregorian2moslem_int]; simp only [hbad, if_true]

/-- the closed formula of the spec and its leap-year list agree on the length of every year -/
theorem isl_yearLen_jdn (h : Int) : Islamic.jdn (h + 1) 1 1 - Islamic.jdn h 1 1 = Islamic.yearLen h := by
  rw [isl_yearLen, ylen_start, isl_jdn_eq, isl_jdn_eq]; ring


theorem m2gJde_eq_range (h m d : Int) (hh : 1 ≤ h) (hm1 : 1 ≤ m) (hm12 : m ≤ 12) (hd1 : 1 ≤ d) (hd30 : d ≤ 30) :
    m2gJde h m d = some ((Islamic.jdn h m d : ℚ) - 1 / 2) := by
  obtain ⟨y', m', d', D, e1, e2, e3, e4⟩ := m2gI_correct_range h m d hh hm1 hm12 hd1 hd30
  unfold m2gJde
  rw [moslem2gregorian_int, e1]
  dsimp only
  rw [e2, show ((d' : Int) : ℚ) = ofInt d' from rfl, compute_jde_int _ _ _ e3, e4]

/-! ### `float` arguments -/

theorem pfloor_add_frac (n : Int) (f : ℚ) (h0 : 0 ≤ f) (h1 : f < 1) : pfloor ((n : ℚ) + f) = n := by
  unfold pfloor
  rw [rat_floor_eq_floor, Int.floor_eq_iff]
  constructor <;> linarith

theorem ptrunc_ofInt (n : Int) : ptrunc (ofInt n) = n := by
  unfold ptrunc ofInt
  split_ifs with h
  · simp [Rat.floor_intCast]
  · have : (-(n : ℚ)) = ((-n : Int) : ℚ) := by push_cast; ring
    rw [this, Rat.floor_intCast]; ring

/-- `int(x)` of a negative non-integer: toward zero, one above the floor -/
theorem ptrunc_neg_frac (n : Int) (f : ℚ) (hn : n < 0) (h0 : 0 < f) (h1 : f < 1) :
    ptrunc ((n : ℚ) + f) = n + 1 := by
  unfold ptrunc
  have hneg : ¬ (0 : ℚ) ≤ (n : ℚ) + f := by
    have : (n : ℚ) ≤ -1 := by exact_mod_cast (by omega : n ≤ -1)
    linarith
  rw [if_neg hneg]
  have : (-((n : ℚ) + f)).floor = -n - 1 := by
    rw [rat_floor_eq_floor, Int.floor_eq_iff]; push_cast; constructor <;> linarith
  rw [this]; ring

theorem ptrunc_nonneg_frac (n : Int) (f : ℚ) (hn : 0 ≤ n) (h0 : 0 ≤ f) (h1 : f < 1) :
    ptrunc ((n : ℚ) + f) = n := by
  unfold ptrunc
  have hpos : (0 : ℚ) ≤ (n : ℚ) + f := by
    have : (0 : ℚ) ≤ (n : ℚ) := by exact_mod_cast hn
    linarith
  rw [if_pos hpos]
  exact pfloor_add_frac n f h0 h1

end Pymeeus.Refine
