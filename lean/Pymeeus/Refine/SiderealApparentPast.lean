import Pymeeus.Refine.SiderealApparent
/-
The 1.2 s bound on the equation of the equinoxes on the whole past side of the nutation lemmas: −40 ≤ T ≤ 5.
-/
noncomputable section
namespace Pymeeus.Refine.SiderealApparent
open Pymeeus Pymeeus.PR Pymeeus.GenR Pymeeus.GenR.Helio Pymeeus.Refine.SunEarth Pymeeus.Refine.Vsop

lemma pow_bounds4 (u : ℝ) (h : |u| ≤ 0.4) (k : ℕ) : -(0.4 : ℝ) ^ k ≤ u ^ k ∧ u ^ k ≤ (0.4 : ℝ) ^ k := by
  have : |u ^ k| ≤ (0.4 : ℝ) ^ k := by rw [abs_pow]; exact pow_le_pow_left₀ (abs_nonneg u) h k
  exact abs_le.mp this

theorem obliquityDelta_range4 (u : ℝ) (h1 : -0.4 ≤ u) (h2 : u ≤ 0.05) : -367 ≤ obliquityDelta u ∧ obliquityDelta u ≤ 2010 := by
  have h : |u| ≤ 0.4 := by rw [abs_le]; constructor <;> linarith
  obtain ⟨a2, b2⟩ := pow_bounds4 u h 2
  obtain ⟨a3, b3⟩ := pow_bounds4 u h 3
  obtain ⟨a4, b4⟩ := pow_bounds4 u h 4
  obtain ⟨a5, b5⟩ := pow_bounds4 u h 5
  obtain ⟨a6, b6⟩ := pow_bounds4 u h 6
  obtain ⟨a7, b7⟩ := pow_bounds4 u h 7
  obtain ⟨a8, b8⟩ := pow_bounds4 u h 8
  obtain ⟨a9, b9⟩ := pow_bounds4 u h 9
  obtain ⟨a10, b10⟩ := pow_bounds4 u h 10
  norm_num at a2 b2 a3 b3 a4 b4 a5 b5 a6 b6 a7 b7 a8 b8 a9 b9 a10 b10
  have e : obliquityDelta u = -4680.93 * u + -1.55 * u ^ 2 + 1999.25 * u ^ 3 + -51.38 * u ^ 4 + -249.67 * u ^ 5
      + -39.05 * u ^ 6 + 7.12 * u ^ 7 + 27.87 * u ^ 8 + 5.79 * u ^ 9 + 2.45 * u ^ 10 := by
    unfold obliquityDelta; ring
  rw [e]
  constructor <;> linarith

/-- `mean_obliquity` in closed form for −40 ≤ T ≤ 5 centuries -/
lemma mean_obliquity_eq4 (jde : ℝ) (h1 : -0.4 ≤ (jde - 2451545) / 3652500) (h2 : (jde - 2451545) / 3652500 ≤ 0.05) :
    mean_obliquity jde = 23 + 26 / 60 + 21.448 / 3600 + obliquityDelta ((jde - 2451545) / 3652500) / 3600 := by
  have e0 : ((jde - 2451545.0) / 3652500.0 : ℝ) = (jde - 2451545) / 3652500 := by norm_num
  set u := (jde - 2451545) / 3652500 with hu
  obtain ⟨d1, d2⟩ := obliquityDelta_range4 u h1 h2
  have hb : |obliquityDelta u| ≤ 2010 := by rw [abs_le]; constructor <;> linarith
  unfold mean_obliquity
  rw [e0, angDms_23_26]
  dsimp only
  have hd : (u * (-4680.93 + u * (-1.55 + u * (1999.25 + u * (-51.38 + u * (-249.67
      + u * (-39.05 + u * (7.12 + u * (27.87 + u * (5.79 + u * 2.45))))))))) : ℝ) = obliquityDelta u := rfl
  rw [hd, angDms_zero_zero _ (lt_of_le_of_lt hb (by norm_num)), angAdd]
  apply angReduce_small
  rw [abs_lt]; constructor <;> linarith

theorem true_obliquity_range4 (j : ℝ) (h1 : -40 ≤ (j - 2451545) / 36525) (h2 : (j - 2451545) / 36525 ≤ 5) :
    23.33 ≤ true_obliquity j ∧ true_obliquity j ≤ 24.01 := by
  have hu : (j - 2451545) / 3652500 = (j - 2451545) / 36525 / 100 := by ring
  have hu1 : -0.4 ≤ (j - 2451545) / 3652500 := by rw [hu]; norm_num; linarith
  have hu2 : (j - 2451545) / 3652500 ≤ 0.05 := by rw [hu]; norm_num; linarith
  have ht40 : |(j - 2451545) / 36525| ≤ 40 := by rw [abs_le]; constructor <;> linarith
  obtain ⟨d1, d2⟩ := obliquityDelta_range4 _ hu1 hu2
  have hm := mean_obliquity_eq4 j hu1 hu2
  have hn := nutation_obliquity_bound j ht40
  have hcos := Real.abs_cos_le_one (Spec.nutationNode ((j - 2451545) / 36525))
  obtain ⟨c1, c2⟩ := abs_le.mp hcos
  obtain ⟨n1, n2⟩ := abs_le.mp hn
  have hsum : |mean_obliquity j + nutation_obliquity j| < 360 := by
    rw [hm, abs_lt]; constructor <;> linarith
  have ht : true_obliquity j = mean_obliquity j + nutation_obliquity j := by
    unfold true_obliquity angAdd
    exact angReduce_small _ hsum
  rw [ht, hm]
  constructor <;> linarith

theorem cos_obliquity_le4 (ε : ℝ) (h1 : 23.33 ≤ ε) (h2 : ε ≤ 24.01) :
    0 ≤ Real.cos (ε * (Real.pi / 180)) ∧ Real.cos (ε * (Real.pi / 180)) ≤ 0.91854 := by
  have p1 := Real.pi_gt_d4
  have p2 := Real.pi_lt_d4
  have hx0 : (23.33 * 3.1415 / 180 : ℝ) ≤ ε * (Real.pi / 180) := by nlinarith
  have hx1 : ε * (Real.pi / 180) ≤ 0.42 := by nlinarith
  constructor
  · apply Real.cos_nonneg_of_mem_Icc
    constructor <;> nlinarith
  · have hmono := Real.cos_le_cos_of_nonneg_of_le_pi (by norm_num : (0:ℝ) ≤ 23.33 * 3.1415 / 180)
      (by linarith : ε * (Real.pi / 180) ≤ Real.pi) hx0
    have hb := Real.cos_bound (x := (23.33 * 3.1415 / 180 : ℝ)) (by rw [abs_of_pos (by norm_num)]; norm_num)
    have hb2 := (abs_le.mp hb).2
    rw [abs_of_pos (by norm_num : (0:ℝ) < 23.33 * 3.1415 / 180)] at hb2
    have : Real.cos (23.33 * 3.1415 / 180) ≤ 0.91854 := by
      have e : (1 - (23.33 * 3.1415 / 180 : ℝ) ^ 2 / 2) + (23.33 * 3.1415 / 180 : ℝ) ^ 4 * (5 / 96) ≤ 0.91854 := by norm_num
      linarith
    linarith

/-- under 1.2 s for −40 ≤ T ≤ 5 centuries (years −2000 … 2500) -/
theorem apparent_minus_mean_lt_1_2s_past (j : ℝ) (h1 : -40 ≤ (j - 2451545) / 36525) (h2 : (j - 2451545) / 36525 ≤ 5) :
    |apparent_sidereal_time j (true_obliquity j) (nutation_longitude j) - mean_sidereal_time j| < 1.2 / 86400 := by
  rw [apparent_eq]
  have ht40 : |(j - 2451545) / 36525| ≤ 40 := by rw [abs_le]; constructor <;> linarith
  have hN := nutation_longitude_abs j ht40
  obtain ⟨e1, e2⟩ := true_obliquity_range4 j h1 h2
  obtain ⟨c0, c1⟩ := cos_obliquity_le4 _ e1 e2
  set t := (j - 2451545) / 36525
  have hbig : |171996 + 174.2 * t| ≤ 172867 := by rw [abs_le]; constructor <;> linarith
  have habs_t : |t| ≤ 40 := ht40
  have hA : |nutation_longitude j * 3600| ≤ 19.5511 := by
    refine hN.trans ?_
    rw [div_le_iff₀ (by norm_num)]; linarith
  rw [add_sub_cancel_left, abs_div, abs_div, abs_mul, abs_of_pos (by norm_num : (0:ℝ) < 15),
    abs_of_pos (by norm_num : (0:ℝ) < 86400), abs_of_nonneg c0, div_div]
  have hp : |nutation_longitude j * 3600| * Real.cos (true_obliquity j * (Real.pi / 180)) ≤ 19.5511 * 0.91854 :=
    mul_le_mul hA c1 c0 (by norm_num)
  calc _ ≤ 19.5511 * 0.91854 / (15 * 86400) := div_le_div_of_nonneg_right hp (by norm_num)
    _ < 1.2 / 86400 := by norm_num

end Pymeeus.Refine.SiderealApparent
