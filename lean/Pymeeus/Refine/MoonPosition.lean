import Pymeeus.Refine.Moon
/-
Position lemmas for property C15: amplitude sums of the generated tables 47.A / 47.B
(`Pymeeus.MoonData.tableLR`, `tableB`, regenerated from the source on every run) and what
follows from them for `Moon.geocentric_ecliptical_pos`.  Domain: |t| ≤ 60 centuries from J2000,
where |E(t)| ≤ 6/5.
-/
noncomputable section
namespace Pymeeus.GenR.MoonM
open Pymeeus Pymeeus.PR Pymeeus.Moon Pymeeus.MoonData

theorem abs_ecc_le_60 {t : ℝ} (ht : |t| ≤ 60) : |ecc t| ≤ 6 / 5 := by
  have := abs_ecc_le ht
  norm_num at this ⊢
  linarith

theorem abs_ecc_sq_le_60 {t : ℝ} (ht : |t| ≤ 60) : |ecc t * ecc t| ≤ (6 / 5 : ℝ) ^ 2 := by
  have h := abs_ecc_le_60 ht
  rw [abs_mul, pow_two]
  exact mul_le_mul h h (abs_nonneg _) (by norm_num)

set_option maxRecDepth 8000 in
/-- Σ|coeff_r|·E^|M| over table 47.A, in 0.001 km, for |E| ≤ 6/5 -/
theorem rsum_tableLR : rsum (6 / 5) tableLR ≤ 29843121 := by
  norm_num [rsum, efb, dabs, tableLR]
set_option maxRecDepth 8000 in
theorem lsum_tableLR : lsum (6 / 5) tableLR ≤ 9280868 := by
  norm_num [lsum, efb, dabs, tableLR]
set_option maxRecDepth 8000 in
theorem bsum_tableB : bsum (6 / 5) tableB ≤ 6090707 := by
  norm_num [bsum, efb, dabs, tableB]
theorem tsum_pos_addb : tsum (6 / 5) 60 pos_addb ≤ 3209 := by
  norm_num [tsum, tbound, dabs, pos_addb]
theorem tsum_pos_addl : tsum (6 / 5) 60 pos_addl ≤ 6238 := by
  norm_num [tsum, tbound, dabs, pos_addl]

theorem abs_pos_sigmar_le {t : ℝ} (ht : |t| ≤ 60) : |pos_sigmar t| ≤ 29843121 := by
  unfold pos_sigmar
  simp only
  exact (abs_sigma_r_le (abs_ecc_le_60 ht) (abs_ecc_sq_le_60 ht) _ _ _ _ _).trans rsum_tableLR

theorem abs_pos_sigmab_le {t : ℝ} (ht : |t| ≤ 60) : |pos_sigmab t| ≤ 6093916 := by
  unfold pos_sigmab
  simp only
  have h1 := (abs_sigma_b_le (abs_ecc_le_60 ht) (abs_ecc_sq_le_60 ht)
    (pradians (red_pos (arg_D t))) (pradians (red_pos (arg_M t))) (pradians (red_pos (arg_Mprime t)))
    (pradians (red_pos (arg_F t))) tableB).trans bsum_tableB
  have h2 := (abs_evalTerms_le (abs_ecc_le_60 ht) ht
    [pradians (red_pos (arg_Lprime t)), pradians (red_pos (arg_Mprime t)), pradians (red_pos (arg_F t)),
     pradians (red_pos (119.75 + 131.849 * t)), pradians (red_pos (53.09 + 479264.290 * t)),
     pradians (red_pos (313.45 + 481266.484 * t))] pos_addb).trans tsum_pos_addb
  refine (abs_add_le _ _).trans ?_
  linarith

/-- the distance stays inside the triangle-inequality window of table 47.A -/
theorem pos_delta_window {t : ℝ} (ht : |t| ≤ 60) : 355100 ≤ pos_delta t ∧ pos_delta t ≤ 414900 := by
  have h := abs_le.mp (abs_pos_sigmar_le ht)
  unfold pos_delta
  constructor <;> norm_num <;> linarith [h.1, h.2]

theorem pdegrees_arcsin_abs_lt (x : ℝ) : |pdegrees (Real.arcsin x)| < 360 := by
  unfold pdegrees
  have h1 := Real.neg_pi_div_two_le_arcsin x
  have h2 := Real.arcsin_le_pi_div_two x
  have hpi := Real.pi_pos
  rw [abs_lt]
  have e : ∀ y : ℝ, y * (180 / Real.pi) = y / Real.pi * 180 := by intro y; ring
  rw [e]
  have a1 : -(1 / 2 : ℝ) ≤ Real.arcsin x / Real.pi := by
    rw [le_div_iff₀ hpi]; linarith
  have a2 : Real.arcsin x / Real.pi ≤ 1 / 2 := by
    rw [div_le_iff₀ hpi]; linarith
  constructor <;> linarith

/-- explicit value of `geocentric_ecliptical_pos` on `|t| ≤ 60`: no exception, parallax not reduced. -/
theorem geocentric_ecliptical_pos_ok (jde : ℝ) (h : |cent jde| ≤ 60) :
    geocentric_ecliptical_pos jde =
      .ok (reduce_deg (red_pos (arg_Lprime (cent jde)) + (pos_sigmal (cent jde) / 1000000.0)),
           reduce_deg (pos_sigmab (cent jde) / 1000000.0), pos_delta (cent jde),
           pdegrees (Real.arcsin (6378.14 / pos_delta (cent jde)))) ∧
    0 < 6378.14 / pos_delta (cent jde) ∧ 6378.14 / pos_delta (cent jde) < 1 := by
  have hw := pos_delta_window h
  have hpos : (0 : ℝ) < pos_delta (cent jde) := by linarith [hw.1]
  have hx0 : 0 < 6378.14 / pos_delta (cent jde) := div_pos (by norm_num) hpos
  have hx1 : 6378.14 / pos_delta (cent jde) < 1 := by
    rw [div_lt_one hpos]; linarith [hw.1]
  refine ⟨?_, hx0, hx1⟩
  unfold geocentric_ecliptical_pos
  have hne : ¬ (pos_delta (cent jde) = 0.0) := by rw [zero_lit]; exact ne_of_gt hpos
  have h1 : ¬ (6378.14 / pos_delta (cent jde) < -1.0) := by
    have : (-1.0 : ℝ) < 0 := by norm_num
    intro hh; linarith
  have h2 : ¬ ((1.0 : ℝ) < 6378.14 / pos_delta (cent jde)) := by
    have : (1.0 : ℝ) = 1 := by norm_num
    rw [this]; exact not_lt.mpr hx1.le
  simp only [peq, plt, hne, h1, h2, decide_false, Bool.false_eq_true, if_false, Bool.or_false, angle_of_rad, pasin,
    reduce_deg_of_lt (pdegrees_arcsin_abs_lt _)]

theorem abs_pos_beta_le (jde : ℝ) (h : |cent jde| ≤ 60) : |pos_sigmab (cent jde) / 1000000.0| ≤ 6.1 := by
  have hb := abs_pos_sigmab_le h
  rw [abs_div]
  have : |(1000000.0 : ℝ)| = 1000000 := by norm_num
  rw [this, div_le_iff₀ (by norm_num)]
  norm_num
  linarith

/-! ### secular motion of the mean node and the mean perigee (the polynomials before `Angle`) -/

theorem node_poly_eq (t : ℝ) : node_poly t =
    125.0445479 + (-1934.1362891 + (0.0020754 + (1 / 476441 + (-1 / 60616000) * t) * t) * t) * t := by
  show ((125.0445479 : ℝ) + (-1934.1362891 + (0.0020754 + (1.0 / 476441.0 - t / 60616000.0) * t) * t) * t) = _
  rw [show (1.0 : ℝ) = 1 by norm_num, show (476441.0 : ℝ) = 476441 by norm_num, show (60616000.0 : ℝ) = 60616000 by norm_num]
  ring

theorem perigee_poly_eq (t : ℝ) : perigee_poly t =
    83.3532465 + (4069.0137287 + (-0.01032 + (-1 / 80053 + (1 / 18999000) * t) * t) * t) * t := by
  show ((83.3532465 : ℝ) + (4069.0137287 + (-0.01032 + (-1.0 / 80053.0 + t / 18999000.0) * t) * t) * t) = _
  rw [show (1.0 : ℝ) = 1 by norm_num, show (80053.0 : ℝ) = 80053 by norm_num, show (18999000.0 : ℝ) = 18999000 by norm_num]
  ring

theorem node_poly_rate {t t' : ℝ} (ht : |t| ≤ 60) (ht' : |t'| ≤ 60) :
    |node_poly t' - node_poly t - (-1934.1362891) * (t' - t)| ≤ |t' - t| * (29 / 100) := by
  rw [node_poly_eq, node_poly_eq]
  refine (quartic_rate _ _ _ _ _ ht ht').trans ?_
  apply mul_le_mul_of_nonneg_left _ (abs_nonneg _)
  norm_num [abs_of_pos, abs_of_neg]

theorem perigee_poly_rate {t t' : ℝ} (ht : |t| ≤ 60) (ht' : |t'| ≤ 60) :
    |perigee_poly t' - perigee_poly t - 4069.0137287 * (t' - t)| ≤ |t' - t| * (142 / 100) := by
  rw [perigee_poly_eq, perigee_poly_eq]
  refine (quartic_rate _ _ _ _ _ ht ht').trans ?_
  apply mul_le_mul_of_nonneg_left _ (abs_nonneg _)
  norm_num [abs_of_pos, abs_of_neg]

/-! ### the fundamental arguments as plain polynomials (decimal literals, exact rationals) -/

theorem arg_Lprime_eq (t : ℝ) : arg_Lprime t =
    218.3164477 + (481267.88123421 + (-0.0015786 + (1 / 538841 + (-1 / 65194000) * t) * t) * t) * t := by
  show ((218.3164477 : ℝ) + (481267.88123421 + (-0.0015786 + (1.0 / 538841.0 - t / 65194000.0) * t) * t) * t) = _
  rw [show (1.0 : ℝ) = 1 by norm_num, show (538841.0 : ℝ) = 538841 by norm_num, show (65194000.0 : ℝ) = 65194000 by norm_num]
  ring

theorem arg_F_eq (t : ℝ) : arg_F t =
    93.2720950 + (483202.0175233 + (-0.0036539 + (-1 / 3526000 + (1 / 863310000) * t) * t) * t) * t := by
  show ((93.2720950 : ℝ) + (483202.0175233 + (-0.0036539 + (-1.0 / 3526000.0 + t / 863310000.0) * t) * t) * t) = _
  rw [show (1.0 : ℝ) = 1 by norm_num, show (3526000.0 : ℝ) = 3526000 by norm_num, show (863310000.0 : ℝ) = 863310000 by norm_num]
  ring

theorem arg_Mprime_eq (t : ℝ) : arg_Mprime t =
    134.9633964 + (477198.8675055 + (0.0087414 + (1 / 69699.9 + (1 / 14712000) * t) * t) * t) * t := by
  show ((134.9633964 : ℝ) + (477198.8675055 + (0.0087414 + (1.0 / 69699.9 + t / 14712000.0) * t) * t) * t) = _
  rw [show (1.0 : ℝ) = 1 by norm_num, show (14712000.0 : ℝ) = 14712000 by norm_num]
  ring

theorem pow_bounds_60 {t : ℝ} (ht : |t| ≤ 60) :
    t ^ 2 ≤ 3600 ∧ |t ^ 3| ≤ 216000 ∧ t ^ 4 ≤ 12960000 ∧ 0 ≤ t ^ 2 ∧ 0 ≤ t ^ 4 := by
  have h2 : |t| ^ 2 ≤ 60 ^ 2 := pow_le_pow_left₀ (abs_nonneg _) ht 2
  have h3 : |t| ^ 3 ≤ 60 ^ 3 := pow_le_pow_left₀ (abs_nonneg _) ht 3
  have h4 : |t| ^ 4 ≤ 60 ^ 4 := pow_le_pow_left₀ (abs_nonneg _) ht 4
  rw [← abs_pow] at h3
  have e2 : |t| ^ 2 = t ^ 2 := by rw [sq_abs]
  have e4 : |t| ^ 4 = t ^ 4 := by
    have : |t| ^ 4 = (|t| ^ 2) ^ 2 := by ring
    rw [this, sq_abs]; ring
  rw [e2] at h2; rw [e4] at h4
  refine ⟨by linarith, by linarith, by linarith, by positivity, by positivity⟩

/-! ### true node -/

theorem tsum_truenode : tsum 1 60 truenode_corr ≤ 19682 / 10000 := by
  norm_num [tsum, tbound, dabs, truenode_corr]

end Pymeeus.GenR.MoonM
