import Pymeeus.Refine.EpochOps
import Pymeeus.Gen.R.SunEvents
/-
The real-number instantiation of the calendar core (templates/EpochCore.lean at Num = ℝ): the same
integer forms as the rational instantiation (Refine/EpochCore.lean, Refine/EpochOps.lean), so that
the constructor `Epoch(jde)` of the C14 model — store, read the date back, recompute — is the
identity on every real `jde ≥ 0` (`mkEpoch_exact`; C02's `set_jde_exact` is the rational statement).
All calendar facts are reused from the integer level (`jdnI`, `invI`, `roundtrip_int`, `civilDay`).
-/
noncomputable section
namespace Pymeeus.Refine.EpochR
open Pymeeus Pymeeus.PR Pymeeus.GenR Pymeeus.Spec

theorem real_floor_eq_div {x : ℝ} (n d : ℤ) (hd : 0 < d) (h : x * d = n) : ⌊x⌋ = n / d := by
  have hd' : (0 : ℝ) < d := by exact_mod_cast hd
  have hx : x = (n : ℝ) / d := by rw [eq_div_iff hd'.ne']; exact h
  have h1 : ((n / d : ℤ) : ℝ) * d ≤ n := by exact_mod_cast Int.ediv_mul_le n hd.ne'
  have h2 : (n : ℝ) < (((n / d : ℤ) : ℝ) + 1) * d := by exact_mod_cast Int.lt_ediv_add_one_mul_self n hd
  rw [Int.floor_eq_iff]
  constructor
  · rw [hx, le_div_iff₀ hd']; exact h1
  · rw [hx, div_lt_iff₀ hd']; exact h2

theorem is_julian_int (y m d : Int) : is_julian y m (ofInt d) = isJulianI y m d := by
  unfold is_julian isJulianI plt ofInt
  have : ((d : ℝ) < 5.0) ↔ d < 5 := by
    rw [show (5.0 : ℝ) = ((5 : ℤ) : ℝ) by norm_num]; exact_mod_cast Iff.rfl
  simp only [this]

theorem floor_y100 (y : Int) : pfloor (ofInt y / 100.0) = y / 100 := by
  unfold pfloor ofInt; apply real_floor_eq_div _ _ (by norm_num); norm_num
theorem floor_a4 (a : Int) : pfloor (ofInt a / 4.0) = a / 4 := by
  unfold pfloor ofInt; apply real_floor_eq_div _ _ (by norm_num); norm_num
theorem floor_36525 (y : Int) : pfloor (365.25 * (ofInt y + 4716.0)) = (1461 * (y + 4716)) / 4 := by
  unfold pfloor ofInt; apply real_floor_eq_div _ _ (by norm_num); norm_num; ring
theorem floor_306001 (m : Int) : pfloor (30.6001 * (ofInt m + 1.0)) = (306001 * (m + 1)) / 10000 := by
  unfold pfloor ofInt; apply real_floor_eq_div _ _ (by norm_num); norm_num; ring
theorem floor_alpha (z : Int) : pfloor ((ofInt z - 1867216.25) / 36524.25) = (4 * z - 7468865) / 146097 := by
  unfold pfloor ofInt; apply real_floor_eq_div _ _ (by norm_num); norm_num; ring
theorem floor_c (b : Int) : pfloor ((ofInt b - 122.1) / 365.25) = (20 * b - 2442) / 7305 := by
  unfold pfloor ofInt; apply real_floor_eq_div _ _ (by norm_num); norm_num; ring
theorem floor_d (c : Int) : pfloor (365.25 * ofInt c) = (1461 * c) / 4 := by
  unfold pfloor ofInt; apply real_floor_eq_div _ _ (by norm_num); norm_num; ring
theorem floor_e (x : Int) : pfloor (ofInt x / 30.6001) = (10000 * x) / 306001 := by
  unfold pfloor ofInt; apply real_floor_eq_div _ _ (by norm_num); norm_num; ring
theorem floor_e2 (e : Int) : pfloor (30.6001 * ofInt e) = (306001 * e) / 10000 := by
  unfold pfloor ofInt; apply real_floor_eq_div _ _ (by norm_num); norm_num; ring

theorem pfloor_add_fract (z : Int) (f : ℝ) (h0 : 0 ≤ f) (h1 : f < 1) : pfloor ((z : ℝ) + f) = z := by
  unfold pfloor; rw [Int.floor_eq_iff]; constructor <;> linarith

theorem pmod_one (x : ℝ) : pmod x 1.0 = Int.fract x := by
  unfold pmod Int.fract; norm_num

theorem fract_add_fract (z : Int) (f : ℝ) (h0 : 0 ≤ f) (h1 : f < 1) : Int.fract ((z : ℝ) + f) = f := by
  rw [Int.fract_eq_iff]; exact ⟨h0, h1, z, by ring⟩

/-! ### `_compute_jde` -/

def preGuard (y m : Int) (d : ℝ) : ℝ × ℝ :=
  let (y, m) := if m ≤ 2 then (y - 1, m + 12) else (y, m)
  let a : Int := pfloor (ofInt y / 100.0)
  let b : ℝ := if !(is_julian y m (ofInt (pfloor d))) then 2.0 - ofInt a + ofInt (pfloor (ofInt a / 4.0)) else 0.0
  (ofInt (pfloor (365.25 * (ofInt y + 4716.0)) + pfloor (30.6001 * (ofInt m + 1.0))) + d + b - 1524.5, b)

theorem compute_jde_guard (y m : Int) (d : ℝ) :
    compute_jde y m d = if (preGuard y m d).1 < 2299160.5 then (preGuard y m d).1 - (preGuard y m d).2
      else (preGuard y m d).1 := by
  unfold compute_jde preGuard plt
  by_cases hm : m ≤ 2 <;> simp only [hm, if_true, if_false, decide_eq_true_eq]

theorem preGuard_frac (y m d : Int) (f : ℝ) (hfl : pfloor ((d : ℝ) + f) = d) :
    preGuard y m ((d : ℝ) + f) = ((jdnI y m d : ℝ) - 1 / 2 + f, (corrI y m d : ℝ)) := by
  unfold preGuard jdnI corrI
  by_cases hm : m ≤ 2
  · simp only [hm, if_true, hfl, is_julian_int, floor_y100, floor_a4, floor_36525, floor_306001]
    cases isJulianI (y - 1) (m + 12) d <;> norm_num [ofInt] <;> ring
  · simp only [hm, if_false, hfl, is_julian_int, floor_y100, floor_a4, floor_36525, floor_306001]
    cases isJulianI y m d <;> norm_num [ofInt] <;> ring

theorem guard_iff (N : Int) (f : ℝ) (h0 : 0 ≤ f) (h1 : f < 1) :
    ((N : ℝ) - 1 / 2 + f < 2299160.5) ↔ N < 2299161 := by
  constructor
  · intro h
    have : (N : ℝ) < 2299161 := by norm_num at h ⊢; linarith
    exact_mod_cast this
  · intro h
    have : (N : ℝ) ≤ 2299160 := by exact_mod_cast (by omega : N ≤ 2299160)
    norm_num; linarith

/-- `_compute_jde` at a civil date plus a day fraction, over ℝ. -/
theorem compute_jde_frac (y m d : Int) (f : ℝ) (hv : Valid y m d) (h0 : 0 ≤ f) (h1 : f < 1) :
    compute_jde y m ((d : ℝ) + f) = (jdnI y m d : ℝ) - 1 / 2 + f := by
  rw [compute_jde_guard, preGuard_frac y m d f (pfloor_add_fract d f h0 h1)]
  simp only [guard_iff _ f h0 h1]
  have := jdnP_valid y m d hv
  unfold jdnP at this
  split_ifs at this ⊢ with hlt
  · have hc : corrI y m d = 0 := by omega
    rw [hc]; push_cast; ring
  · rfl

/-! ### `get_date` -/

/-- what `get_date` returns from `(e, c, day)` and the day fraction `f` -/
def dateOfF (t : Int × Int × Int) (f : ℝ) : PyRes (Int × Int × ℝ) :=
  let (e, c, day) := t
  if e < 14 ∨ e = 14 ∨ e = 15 then
    let month := if e < 14 then e - 1 else e - 13
    if month > 2 then .ok (c - 4716, month, (day : ℝ) + f)
    else if month = 1 ∨ month = 2 then .ok (c - 4715, month, (day : ℝ) + f)
    else .error .valueError
  else .error .valueError

theorem dateOfF_of_dateOf (t : Int × Int × Int) (f : ℝ) (y m d : Int)
    (h : dateOf t = .ok (y, m, (d : ℚ))) : dateOfF t f = .ok (y, m, (d : ℝ) + f) := by
  obtain ⟨e, c, day⟩ := t
  unfold dateOf at h
  unfold dateOfF
  dsimp only at h ⊢
  split_ifs at h ⊢ <;> simp_all

theorem get_date_frac (z : Int) (f : ℝ) (h0 : 0 ≤ f) (h1 : f < 1) :
    get_date ((z : ℝ) - 1 / 2 + f) = dateOfF (invI z) f := by
  have e1 : ((z : ℝ) - 1 / 2 + f + 0.5) = (z : ℝ) + f := by norm_num; ring
  unfold get_date
  simp only [e1, pfloor_add_fract z f h0 h1, pmod_one, fract_add_fract z f h0 h1]
  simp only [floor_alpha, floor_a4, floor_c, floor_d, floor_e, floor_e2]
  simp only [invI, invA, dateOfF, ofInt]

/-- day number and day fraction of a real instant -/
def dayNo (j : ℝ) : ℕ := ⌊j + 1 / 2⌋.toNat
def dayFrac (j : ℝ) : ℝ := Int.fract (j + 1 / 2)

theorem dayFrac_nonneg (j : ℝ) : 0 ≤ dayFrac j := Int.fract_nonneg _
theorem dayFrac_lt_one (j : ℝ) : dayFrac j < 1 := Int.fract_lt_one _

theorem instant_split (j : ℝ) (hj : 0 ≤ j) : j = ((dayNo j : ℤ) : ℝ) - 1 / 2 + dayFrac j := by
  unfold dayNo dayFrac
  have h0 : 0 ≤ ⌊j + 1 / 2⌋ := Int.floor_nonneg.mpr (by linarith)
  rw [Int.toNat_of_nonneg h0]
  have := Int.floor_add_fract (j + 1 / 2)
  linarith

/-- `get_date` of ANY real instant `j ≥ 0` is the civil date of its day, the day fraction added. -/
theorem get_date_civil (j : ℝ) (hj : 0 ≤ j) :
    get_date j = .ok ((civilDay (dayNo j)).1, (civilDay (dayNo j)).2.1,
      ((civilDay (dayNo j)).2.2 : ℝ) + dayFrac j) := by
  conv_lhs => rw [instant_split j hj]
  rw [get_date_frac _ _ (dayFrac_nonneg j) (dayFrac_lt_one j)]
  apply dateOfF_of_dateOf
  have := roundtrip_int _ _ _ (civilDay_valid (dayNo j))
  rw [jdnI_civilDay] at this
  exact this

/-! ### the constructor `Epoch(jde)` -/

/-- `Epoch(jde)` stores `jde`, reads the date and time of day back and recomputes the JDE: over ℝ
    that detour is the identity for every `jde ≥ 0` (JD 0 = −4712‑01‑01 12h). -/
theorem mkEpoch_exact (j : ℝ) (hj : 0 ≤ j) : SunEvents.mkEpoch j = .ok j := by
  obtain ⟨_, _, _, hd1, _, _⟩ := civilDay_valid (dayNo j)
  have f0 := dayFrac_nonneg j
  have f1 := dayFrac_lt_one j
  have hd0 : (0 : ℝ) ≤ ((civilDay (dayNo j)).2.2 : ℝ) + dayFrac j := by
    have : (1 : ℝ) ≤ ((civilDay (dayNo j)).2.2 : ℝ) := by exact_mod_cast hd1
    linarith
  have htr : ptrunc (((civilDay (dayNo j)).2.2 : ℝ) + dayFrac j) = (civilDay (dayNo j)).2.2 := by
    unfold ptrunc; simp only [hd0, if_true]
    exact pfloor_add_fract _ _ f0 f1
  unfold SunEvents.mkEpoch
  rw [get_date_civil j hj]
  simp only [pmod_one, fract_add_fract _ _ f0 f1, htr]
  have hsum : ∀ (h mi : ℤ), ofInt (civilDay (dayNo j)).2.2 +
      (ofInt h / 24.0 + ofInt mi / 1440.0 + 60.0 * ((dayFrac j * 24.0 - ofInt h) * 60.0 - ofInt mi) / 86400.0)
      = ((civilDay (dayNo j)).2.2 : ℝ) + dayFrac j := by
    intro h mi; unfold ofInt; norm_num; ring
  rw [hsum, compute_jde_frac _ _ _ _ (civilDay_valid _) f0 f1, jdnI_civilDay]
  congr 1
  exact (instant_split j hj).symm

end Pymeeus.Refine.EpochR
