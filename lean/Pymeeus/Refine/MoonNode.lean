import Pymeeus.Refine.SunEarth
import Mathlib.Analysis.SpecialFunctions.Trigonometric.Bounds
/-
Helper lemmas for C08: the Moon's mean node (`Moon.longitude_mean_ascending_node`) against the node
polynomial of the nutation series; the main-term bounds of the nutation restated on the Moon's node.
-/
noncomputable section
namespace Pymeeus.Refine.SunEarth
open Pymeeus Pymeeus.PR Pymeeus.GenR Pymeeus.GenR.Helio Pymeeus.Refine.Vsop

/-! ### the Moon's mean node (`Moon.longitude_mean_ascending_node`) against the node of the nutation series -/

/-- the polynomial of `Moon.longitude_mean_ascending_node` (degrees), `t` in Julian centuries -/
def moonNodePoly (t : ℝ) : ℝ :=
  125.0445479 + (-1934.1362891 + (0.0020754 + (1 / 476441 - t / 60616000) * t) * t) * t

lemma trig_toPositive (x : ℝ) (h : |x| < 360) :
    Real.sin (angRad (angToPositive x)) = Real.sin (angRad x) ∧
    Real.cos (angRad (angToPositive x)) = Real.cos (angRad x) := by
  rcases angToPositive_congr x h with e | e
  · rw [e]; exact ⟨rfl, rfl⟩
  · rw [e]
    have : angRad (x + 360) = angRad x + 2 * Real.pi := by
      unfold angRad pradians; ring
    rw [this, Real.sin_add_two_pi, Real.cos_add_two_pi]
    exact ⟨rfl, rfl⟩

lemma moon_node_trig (jde : ℝ) :
    Real.sin (angRad (longitude_mean_ascending_node jde)) =
      Real.sin (moonNodePoly ((jde - 2451545) / 36525) * (Real.pi / 180)) ∧
    Real.cos (angRad (longitude_mean_ascending_node jde)) =
      Real.cos (moonNodePoly ((jde - 2451545) / 36525) * (Real.pi / 180)) := by
  have e0 : ((jde - 2451545.0) / 36525.0 : ℝ) = (jde - 2451545) / 36525 := by norm_num
  unfold longitude_mean_ascending_node angOfDeg
  simp only [e0]
  set t := (jde - 2451545) / 36525
  have ep : (125.0445479 + (-1934.1362891 + (0.0020754 + (1.0 / 476441.0 - t / 60616000.0) * t) * t) * t : ℝ)
      = moonNodePoly t := by unfold moonNodePoly; norm_num
  rw [ep]
  obtain ⟨h1, h2⟩ := trig_toPositive (angReduce (moonNodePoly t)) (angReduce_abs _).1
  rw [h1, h2, sin_angRad_reduce, cos_angRad_reduce]
  exact ⟨rfl, rfl⟩

/-- the two node polynomials differ by less than 0.06° for |t| ≤ 40 centuries -/
lemma node_difference (t : ℝ) (h : |t| ≤ 40) :
    |Spec.nutationNode t - moonNodePoly t * (Real.pi / 180)| ≤ 0.06 * (Real.pi / 180) := by
  unfold Spec.nutationNode
  rw [← sub_mul, abs_mul, abs_of_pos (by positivity : (0 : ℝ) < Real.pi / 180)]
  apply mul_le_mul_of_nonneg_right _ (by positivity)
  have hp : ∀ k : ℕ, -(40 : ℝ) ^ k ≤ t ^ k ∧ t ^ k ≤ (40 : ℝ) ^ k := by
    intro k
    have : |t ^ k| ≤ (40 : ℝ) ^ k := by rw [abs_pow]; exact pow_le_pow_left₀ (abs_nonneg t) h k
    exact abs_le.mp this
  obtain ⟨a1, b1⟩ := hp 1
  obtain ⟨a2, b2⟩ := hp 2
  obtain ⟨a3, b3⟩ := hp 3
  obtain ⟨a4, b4⟩ := hp 4
  norm_num at a1 b1 a2 b2 a3 b3 a4 b4
  unfold moonNodePoly
  rw [abs_le]; constructor <;> nlinarith

/-- Δψ against the main term built on the MOON's mean node, |T| ≤ 40 centuries -/
lemma nutation_longitude_moon_node (jde : ℝ) (h : |(jde - 2451545) / 36525| ≤ 40) :
    |nutation_longitude jde * 3600 + 17.1996 * Real.sin (angRad (longitude_mean_ascending_node jde))| ≤ 3.0 := by
  have h1 := nutation_longitude_bound jde h
  have h2 := node_difference _ h
  rw [(moon_node_trig jde).1]
  set t := (jde - 2451545) / 36525
  have h3 := Real.abs_sin_sub_sin_le (Spec.nutationNode t) (moonNodePoly t * (Real.pi / 180))
  have hpi : Real.pi / 180 ≤ 0.0175 := by
    have := Real.pi_lt_d2; linarith
  have h4 : |Real.sin (Spec.nutationNode t) - Real.sin (moonNodePoly t * (Real.pi / 180))| ≤ 0.06 * 0.0175 :=
    h3.trans (h2.trans (by nlinarith))
  obtain ⟨l1, u1⟩ := abs_le.mp h1
  obtain ⟨l4, u4⟩ := abs_le.mp h4
  rw [abs_le]; constructor <;> nlinarith

/-- Δε against the main term built on the MOON's mean node, |T| ≤ 40 centuries -/
lemma nutation_obliquity_moon_node (jde : ℝ) (h : |(jde - 2451545) / 36525| ≤ 40) :
    |nutation_obliquity jde * 3600 - 9.2025 * Real.cos (angRad (longitude_mean_ascending_node jde))| ≤ 0.95 := by
  have h1 := nutation_obliquity_bound jde h
  have h2 := node_difference _ h
  rw [(moon_node_trig jde).2]
  set t := (jde - 2451545) / 36525
  have h3 := Real.abs_cos_sub_cos_le (Spec.nutationNode t) (moonNodePoly t * (Real.pi / 180))
  have hpi : Real.pi / 180 ≤ 0.0175 := by
    have := Real.pi_lt_d2; linarith
  have h4 : |Real.cos (Spec.nutationNode t) - Real.cos (moonNodePoly t * (Real.pi / 180))| ≤ 0.06 * 0.0175 :=
    h3.trans (h2.trans (by nlinarith))
  obtain ⟨l1, u1⟩ := abs_le.mp h1
  obtain ⟨l4, u4⟩ := abs_le.mp h4
  rw [abs_le]; constructor <;> nlinarith

end Pymeeus.Refine.SunEarth
