import Pymeeus.Gen.Q.Interpolation
import Mathlib.Data.List.Perm.Basic
import Mathlib.Data.List.Nodup
import Mathlib.Data.List.Range
import Mathlib.Data.List.GetD
import Mathlib.Data.List.Count
import Mathlib.Data.Finset.Basic
import Mathlib.Algebra.Order.Ring.Rat
import Mathlib.Tactic.NormNum
import Mathlib.Tactic.Linarith
/-
`Interpolation._order_points` (selection sort with a sentinel) returns the points sorted by abscissa,
and the result is a permutation of the input pairs.
-/
namespace Pymeeus.Refine.Interpolation
open Pymeeus Pymeeus.PQ Pymeeus.GenQ.Interpolation

theorem one_lit : (1.0 : ℚ) = 1 := by norm_num

theorem getD_set_eq {l : List ℚ} {i : ℕ} (a : ℚ) (h : i < l.length) : (l.set i a).getD i 0 = a := by
  simp [List.getD_eq_getElem?_getD, h]

theorem getD_set_ne {l : List ℚ} {i j : ℕ} (a : ℚ) (h : i ≠ j) : (l.set i a).getD j 0 = l.getD j 0 := by
  simp [List.getD_eq_getElem?_getD, h]

theorem getD_mem {l : List ℚ} {i : ℕ} (h : i < l.length) : l.getD i 0 ∈ l := by
  rw [List.getD_eq_getElem l 0 h]; exact List.getElem_mem h

theorem foldl_min_spec (l : List ℚ) (a : ℚ) :
    l.foldl (fun m v => if plt v m then v else m) a ≤ a ∧
    (∀ v ∈ l, l.foldl (fun m v => if plt v m then v else m) a ≤ v) ∧
    (l.foldl (fun m v => if plt v m then v else m) a = a ∨ l.foldl (fun m v => if plt v m then v else m) a ∈ l) := by
  induction l generalizing a with
  | nil => simp
  | cons b t ih =>
    simp only [List.foldl_cons]
    obtain ⟨h1, h2, h3⟩ := ih (if plt b a then b else a)
    by_cases hb : b < a
    · have e : (if plt b a then b else a) = b := by simp [plt, hb]
      rw [e] at h1 h2 h3 ⊢
      refine ⟨le_trans h1 hb.le, ?_, ?_⟩
      · intro v hv
        rcases List.mem_cons.mp hv with rfl | hv
        · exact h1
        · exact h2 v hv
      · rcases h3 with h3 | h3
        · right; rw [h3]; exact List.mem_cons_self
        · right; exact List.mem_cons_of_mem _ h3
    · have e : (if plt b a then b else a) = a := by simp [plt, hb]
      rw [e] at h1 h2 h3 ⊢
      refine ⟨h1, ?_, ?_⟩
      · intro v hv
        rcases List.mem_cons.mp hv with rfl | hv
        · exact le_trans h1 (not_lt.mp hb)
        · exact h2 v hv
      · rcases h3 with h3 | h3
        · left; exact h3
        · right; exact List.mem_cons_of_mem _ h3

theorem lmin_le {x : List ℚ} {v : ℚ} (hv : v ∈ x) : lmin x ≤ v := by
  cases x with
  | nil => cases hv
  | cons a l =>
    obtain ⟨h1, h2, _⟩ := foldl_min_spec l a
    rcases List.mem_cons.mp hv with rfl | hv
    · exact h1
    · exact h2 v hv

theorem lmin_mem {x : List ℚ} (hx : x ≠ []) : lmin x ∈ x := by
  cases x with
  | nil => exact absurd rfl hx
  | cons a l =>
    obtain ⟨_, _, h3⟩ := foldl_min_spec l a
    rcases h3 with h3 | h3
    · show l.foldl (fun m v => if plt v m then v else m) a ∈ a :: l
      rw [h3]; exact List.mem_cons_self
    · exact List.mem_cons_of_mem _ h3

theorem foldl_max_spec (l : List ℚ) (a : ℚ) :
    a ≤ l.foldl (fun m v => if plt m v then v else m) a ∧
    (∀ v ∈ l, v ≤ l.foldl (fun m v => if plt m v then v else m) a) := by
  induction l generalizing a with
  | nil => simp
  | cons b t ih =>
    simp only [List.foldl_cons]
    obtain ⟨h1, h2⟩ := ih (if plt a b then b else a)
    by_cases hb : a < b
    · have e : (if plt a b then b else a) = b := by simp [plt, hb]
      rw [e] at h1 h2 ⊢
      refine ⟨le_trans hb.le h1, ?_⟩
      intro v hv
      rcases List.mem_cons.mp hv with rfl | hv
      · exact h1
      · exact h2 v hv
    · have e : (if plt a b then b else a) = a := by simp [plt, hb]
      rw [e] at h1 h2 ⊢
      refine ⟨h1, ?_⟩
      intro v hv
      rcases List.mem_cons.mp hv with rfl | hv
      · exact le_trans (not_lt.mp hb) h1
      · exact h2 v hv

theorem le_lmax {x : List ℚ} {v : ℚ} (hv : v ∈ x) : v ≤ lmax x := by
  cases x with
  | nil => cases hv
  | cons a l =>
    obtain ⟨h1, h2⟩ := foldl_max_spec l a
    rcases List.mem_cons.mp hv with rfl | hv
    · exact h1
    · exact h2 v hv

theorem index_of_spec {v : ℚ} {x : List ℚ} (hv : v ∈ x) :
    index_of v x < x.length ∧ x.getD (index_of v x) 0 = v := by
  induction x with
  | nil => cases hv
  | cons a l ih =>
    unfold index_of
    by_cases ha : a = v
    · simp [peq, ha]
    · have hv' : v ∈ l := by
        rcases List.mem_cons.mp hv with h | h
        · exact absurd h.symm ha
        · exact h
      obtain ⟨h1, h2⟩ := ih hv'
      simp only [peq, ha, decide_false, Bool.false_eq_true, if_false, List.length_cons]
      exact ⟨by omega, by simpa using h2⟩

/-- Invariant of the selection loop: with `n` abscissae still below the sentinel `s`, the loop returns them
    (value, original position) in non-decreasing order of value, each exactly once. -/
theorem order_loop_spec (s : ℚ) : ∀ (n : ℕ) (x : List ℚ), x.countP (fun v => decide (v < s)) = n →
    (∀ p ∈ order_loop s n x, p.2 < x.length ∧ x.getD p.2 0 < s ∧ p.1 = x.getD p.2 0) ∧
    ((order_loop s n x).map Prod.snd).Nodup ∧
    (∀ i, i < x.length → x.getD i 0 < s → i ∈ (order_loop s n x).map Prod.snd) ∧
    (order_loop s n x).Pairwise (fun p q => p.1 ≤ q.1) := by
  intro n
  induction n with
  | zero =>
    intro x hc
    refine ⟨by simp [order_loop], by simp [order_loop], ?_, by simp [order_loop]⟩
    intro i hi hlt
    have := List.countP_eq_zero.mp hc (x.getD i 0) (getD_mem hi)
    simp only [decide_eq_true_eq] at this
    exact absurd hlt this
  | succ n ih =>
    intro x hc
    have hpos : 0 < x.countP (fun v => decide (v < s)) := by omega
    obtain ⟨a, ha, has⟩ := List.countP_pos_iff.mp hpos
    have has' : a < s := by simpa using has
    have hx : x ≠ [] := List.ne_nil_of_mem ha
    have hm_lt : lmin x < s := lt_of_le_of_lt (lmin_le ha) has'
    obtain ⟨hi_lt, hi_val⟩ := index_of_spec (lmin_mem hx)
    have hcount : (x.set (index_of (lmin x) x) s).countP (fun v => decide (v < s)) = n := by
      rw [List.countP_set hi_lt]
      have e1 : decide (x[index_of (lmin x) x] < s) = true := by
        rw [← List.getD_eq_getElem x 0 hi_lt, hi_val]; simpa using hm_lt
      simp only [e1, if_true, lt_self_iff_false, decide_false, Bool.false_eq_true, if_false]
      omega
    obtain ⟨h1, h2, h3, h4⟩ := ih (x.set (index_of (lmin x) x) s) hcount
    have hlen : (x.set (index_of (lmin x) x) s).length = x.length := List.length_set
    have halive : ∀ p ∈ order_loop s n (x.set (index_of (lmin x) x) s),
        p.2 ≠ index_of (lmin x) x ∧ p.2 < x.length ∧ x.getD p.2 0 < s ∧ p.1 = x.getD p.2 0 := by
      intro p hp
      obtain ⟨q1, q2, q3⟩ := h1 p hp
      have hne : p.2 ≠ index_of (lmin x) x := by
        intro e; rw [e, getD_set_eq s hi_lt] at q2; exact lt_irrefl _ q2
      rw [getD_set_ne s (Ne.symm hne)] at q2 q3
      exact ⟨hne, by rw [← hlen]; exact q1, q2, q3⟩
    have hunf : order_loop s (n + 1) x
        = (x.getD (index_of (lmin x) x) 0, index_of (lmin x) x) :: order_loop s n (x.set (index_of (lmin x) x) s) := rfl
    rw [hunf]
    refine ⟨?_, ?_, ?_, ?_⟩
    · intro p hp
      rcases List.mem_cons.mp hp with rfl | hp
      · exact ⟨hi_lt, by rw [hi_val]; exact hm_lt, rfl⟩
      · exact (halive p hp).2
    · rw [List.map_cons, List.nodup_cons]
      refine ⟨?_, h2⟩
      intro hmem
      obtain ⟨p, hp, hpe⟩ := List.mem_map.mp hmem
      exact (halive p hp).1 hpe
    · intro i hi hlt
      rw [List.map_cons]
      by_cases hie : i = index_of (lmin x) x
      · rw [hie]; exact List.mem_cons_self
      · apply List.mem_cons_of_mem
        apply h3 i (by rw [hlen]; exact hi)
        rw [getD_set_ne s (Ne.symm hie)]; exact hlt
    · rw [List.pairwise_cons]
      refine ⟨?_, h4⟩
      intro p hp
      obtain ⟨_, q1, _, q3⟩ := halive p hp
      show x.getD (index_of (lmin x) x) 0 ≤ p.1
      rw [hi_val, q3]
      exact lmin_le (getD_mem q1)

theorem zip_eq_map_range (x y : List ℚ) (h : x.length = y.length) :
    x.zip y = (List.range x.length).map (fun i => (x.getD i 0, y.getD i 0)) := by
  apply List.ext_getElem
  · simp [h]
  · intro i h1 h2
    have hx : i < x.length := by simp at h2; exact h2
    have hy : i < y.length := h ▸ hx
    simp [hx, hy]

/-- `_order_points`: the output lists have the input's length, the output pairs are a permutation of the
    input pairs, and the output abscissae are in non-decreasing order. -/
theorem order_points_spec (x y : List ℚ) (hlen : x.length = y.length) :
    (order_points x y).1.length = x.length ∧ (order_points x y).2.length = x.length ∧
    ((order_points x y).1.zip (order_points x y).2).Perm (x.zip y) ∧
    (order_points x y).1.Pairwise (· ≤ ·) := by
  have hall : x.countP (fun v => decide (v < lmax x + 1.0)) = x.length := by
    rw [List.countP_eq_length]
    intro v hv
    have := le_lmax hv
    rw [one_lit]; simp; linarith
  obtain ⟨h1, h2, h3, h4⟩ := order_loop_spec (lmax x + 1.0) x.length x hall
  have hsel : (order_points x y).1 = (order_loop (lmax x + 1.0) x.length x).map Prod.fst ∧
      (order_points x y).2 = (order_loop (lmax x + 1.0) x.length x).map (fun p => y.getD p.2 0) := ⟨rfl, rfl⟩
  have hperm : ((order_loop (lmax x + 1.0) x.length x).map Prod.snd).Perm (List.range x.length) := by
    apply List.perm_of_nodup_nodup_toFinset_eq h2 List.nodup_range
    ext i
    simp only [List.mem_toFinset, List.mem_range]
    constructor
    · intro hi
      obtain ⟨p, hp, rfl⟩ := List.mem_map.mp hi
      exact (h1 p hp).1
    · intro hi
      apply h3 i hi
      have := le_lmax (getD_mem hi)
      rw [one_lit]; linarith
  have hlen_sel : (order_loop (lmax x + 1.0) x.length x).length = x.length := by
    have := hperm.length_eq
    simpa using this
  refine ⟨by rw [hsel.1, List.length_map, hlen_sel], by rw [hsel.2, List.length_map, hlen_sel], ?_, ?_⟩
  · rw [hsel.1, hsel.2, List.zip_map', zip_eq_map_range x y hlen]
    have e : (order_loop (lmax x + 1.0) x.length x).map (fun p => (p.1, y.getD p.2 0))
        = ((order_loop (lmax x + 1.0) x.length x).map Prod.snd).map (fun i => (x.getD i 0, y.getD i 0)) := by
      rw [List.map_map]
      apply List.map_congr_left
      intro p hp
      simp only [Function.comp, (h1 p hp).2.2]
    rw [e]
    exact hperm.map _
  · rw [hsel.1, List.pairwise_map]
    exact h4

theorem map_fst_zip_eq {l1 l2 : List ℚ} (h : l1.length = l2.length) : (l1.zip l2).map Prod.fst = l1 :=
  List.map_fst_zip (le_of_eq h)

theorem map_snd_zip_eq {l1 l2 : List ℚ} (h : l1.length = l2.length) : (l1.zip l2).map Prod.snd = l2 :=
  List.map_snd_zip (le_of_eq h.symm)

/-- The ordered points as one list of pairs. -/
def ordered (x y : List ℚ) : List (ℚ × ℚ) := (order_points x y).1.zip (order_points x y).2

theorem ordered_spec (x y : List ℚ) (hlen : x.length = y.length) :
    (ordered x y).Perm (x.zip y) ∧ (ordered x y).Pairwise (fun p q => p.1 ≤ q.1) ∧
    (ordered x y).map Prod.fst = (order_points x y).1 ∧ (ordered x y).map Prod.snd = (order_points x y).2 := by
  obtain ⟨h1, h2, h3, h4⟩ := order_points_spec x y hlen
  have hl : (order_points x y).1.length = (order_points x y).2.length := by rw [h1, h2]
  refine ⟨h3, ?_, map_fst_zip_eq hl, map_snd_zip_eq hl⟩
  have : ((ordered x y).map Prod.fst).Pairwise (· ≤ ·) := by
    unfold ordered; rw [map_fst_zip_eq hl]; exact h4
  exact List.pairwise_map.mp this

/-- "whatever the order in which the points were supplied": two inputs that are permutations of each other
    (as lists of points, with distinct abscissae) are ordered to the same lists. -/
theorem order_points_perm_invariant (x y x' y' : List ℚ) (hlen : x.length = y.length) (hlen' : x'.length = y'.length)
    (hperm : (x.zip y).Perm (x'.zip y')) (hnodup : x.Nodup) :
    order_points x y = order_points x' y' := by
  obtain ⟨p1, s1, f1, g1⟩ := ordered_spec x y hlen
  obtain ⟨p2, s2, f2, g2⟩ := ordered_spec x' y' hlen'
  have hpp : (ordered x y).Perm (ordered x' y') := p1.trans (hperm.trans p2.symm)
  have hnd : ((ordered x y).map Prod.fst).Nodup := by
    have : ((ordered x y).map Prod.fst).Perm ((x.zip y).map Prod.fst) := p1.map _
    rw [map_fst_zip_eq hlen] at this
    exact this.nodup_iff.mpr hnodup
  have heq : ordered x y = ordered x' y' := by
    apply List.Perm.eq_of_pairwise (le := fun p q => p.1 ≤ q.1) _ s1 s2 hpp
    intro a b ha hb hab hba
    have hb' : b ∈ ordered x y := hpp.symm.subset hb
    exact List.inj_on_of_nodup_map hnd ha hb' (le_antisymm hab hba)
  have e1 : (order_points x y).1 = (order_points x' y').1 := by rw [← f1, ← f2, heq]
  have e2 : (order_points x y).2 = (order_points x' y').2 := by rw [← g1, ← g2, heq]
  exact Prod.ext e1 e2

/-- Already ordered input (distinct abscissae) is left as it is. -/
theorem order_points_sorted (x y : List ℚ) (hlen : x.length = y.length) (hs : x.Pairwise (· < ·)) :
    order_points x y = (x, y) := by
  obtain ⟨p1, s1, f1, g1⟩ := ordered_spec x y hlen
  have hnd : ((x.zip y).map Prod.fst).Nodup := by
    rw [map_fst_zip_eq hlen]; exact hs.imp (fun h => ne_of_lt h)
  have s2 : (x.zip y).Pairwise (fun p q => p.1 ≤ q.1) := by
    have : ((x.zip y).map Prod.fst).Pairwise (· ≤ ·) := by
      rw [map_fst_zip_eq hlen]; exact hs.imp le_of_lt
    exact List.pairwise_map.mp this
  have heq : ordered x y = x.zip y := by
    apply List.Perm.eq_of_pairwise (le := fun p q => p.1 ≤ q.1) _ s1 s2 p1
    intro a b ha hb hab hba
    have ha' : a ∈ x.zip y := p1.subset ha
    exact List.inj_on_of_nodup_map hnd ha' hb (le_antisymm hab hba)
  have e1 : (order_points x y).1 = x := by rw [← f1, heq, map_fst_zip_eq hlen]
  have e2 : (order_points x y).2 = y := by rw [← g1, heq, map_snd_zip_eq hlen]
  exact Prod.ext e1 e2

end Pymeeus.Refine.Interpolation
