import Pymeeus.Gen.R.Moon
import Mathlib.Tactic.NormNum
import Mathlib.Tactic.Linarith
import Mathlib.Tactic.Ring
import Mathlib.Tactic.GCongr
import Mathlib.Tactic.Positivity
import Mathlib.Algebra.Order.Floor.Ring
/-
Helper lemmas for property C15 about the real-number Moon model (`Pymeeus.GenR.MoonM`):

* `mround` (Python's round-half-even): within 1/2 of its argument, monotone, fixes integers;
* the evaluators of the generated data are bounded by amplitude sums
  (`abs_evalTerms_le`, `abs_sigma_r_le`, `abs_sigma_l_le`, `abs_sigma_b_le`): generic, for every
  list of terms / table rows; the *numerical* sums for the lists generated from the current
  source are evaluated in Props/C15.lean, so they are re-checked whenever the source changes;
* small polynomial bounds; `reduce_deg` is the identity below 360.
-/
noncomputable section
namespace Pymeeus.GenR.MoonM
open Pymeeus Pymeeus.PR Pymeeus.Moon Pymeeus.MoonData

theorem zero_lit : (0.0 : ℝ) = 0 := by norm_num

/-! ### round-half-even -/

theorem mround_sub_le (x : ℝ) : |((mround x : ℤ) : ℝ) - x| ≤ 1 / 2 := by
  have h1 := Int.floor_le x
  have h2 := Int.lt_floor_add_one x
  unfold mround
  split_ifs with a b c
  · rw [abs_le]; constructor <;> linarith
  · rw [abs_le]; push_cast; constructor <;> linarith
  · rw [abs_le]; simp only [not_lt] at a b; constructor <;> linarith
  · rw [abs_le]; simp only [not_lt] at a b; push_cast; constructor <;> linarith

theorem mround_intCast (n : ℤ) : mround (n : ℝ) = n := by
  unfold mround
  simp

theorem mround_mono {x y : ℝ} (h : x ≤ y) : mround x ≤ mround y := by
  by_contra hc
  simp only [not_le] at hc
  have hx := abs_le.mp (mround_sub_le x)
  have hy := abs_le.mp (mround_sub_le y)
  have h1 : ((mround y : ℤ) : ℝ) + 1 ≤ ((mround x : ℤ) : ℝ) := by exact_mod_cast hc
  have hxy : x = y := by linarith [hx.2, hy.1]
  subst hxy
  exact lt_irrefl _ hc

/-- two arguments less than 1 apart are rounded to integers at most 1 apart (no count is skipped). -/
theorem mround_step {x y : ℝ} (h : y - x < 1) : mround y - mround x ≤ 1 := by
  by_contra hc
  simp only [not_le] at hc
  have hx := abs_le.mp (mround_sub_le x)
  have hy := abs_le.mp (mround_sub_le y)
  have h1 : ((mround x : ℤ) : ℝ) + 2 ≤ ((mround y : ℤ) : ℝ) := by
    have : mround x + 2 ≤ mround y := by omega
    exact_mod_cast this
  linarith [hx.2, hy.1]

/-- an integer strictly closer than 1/2 is the rounded value -/
theorem mround_eq_of_abs_lt {x : ℝ} {n : ℤ} (h : |(n : ℝ) - x| < 1 / 2) : mround x = n := by
  have hx := abs_le.mp (mround_sub_le x)
  have hn := abs_lt.mp h
  have h1 : ((mround x : ℤ) : ℝ) - (n : ℝ) < 1 := by linarith [hx.2, hn.1]
  have h2 : (n : ℝ) - ((mround x : ℤ) : ℝ) < 1 := by linarith [hx.1, hn.2]
  have h1' : mround x - n < 1 := by exact_mod_cast h1
  have h2' : n - mround x < 1 := by exact_mod_cast h2
  omega

theorem kround_eq (x : ℝ) : kround x = ((mround x : ℤ) : ℝ) := rfl

theorem kround_sub_le (x : ℝ) : |kround x - x| ≤ 1 / 2 := mround_sub_le x

theorem kround_mono {x y : ℝ} (h : x ≤ y) : kround x ≤ kround y := by
  rw [kround_eq, kround_eq]; exact_mod_cast mround_mono h

/-! ### amplitude bounds of the generated term lists -/

/-- `|literal|` as a quotient of naturals -/
def dabs (x : Dec) : ℝ := (x.m.natAbs : ℝ) / 10 ^ x.e

theorem abs_dec (x : Dec) : |dec x| = dabs x := by
  unfold dec dabs
  rw [abs_div, abs_of_pos (by positivity : (0 : ℝ) < 10 ^ x.e)]
  congr 1
  rw [← Int.cast_abs, Int.abs_eq_natAbs]
  simp

theorem dabs_nonneg (x : Dec) : 0 ≤ dabs x := by unfold dabs; positivity

/-- bound of one summand for `|E| ≤ Eb`, `|t| ≤ Tb` -/
def tbound (Eb Tb : ℝ) (tm : Term) : ℝ :=
  (dabs tm.c0 + (match tm.c1 with | none => 0 | some c => dabs c * Tb)) * Eb ^ tm.epow

/-- the amplitude sum of a list of terms -/
def tsum (Eb Tb : ℝ) (ts : List Term) : ℝ := (ts.map (tbound Eb Tb)).sum

theorem abs_epowmul_le {E Eb : ℝ} (hE : |E| ≤ Eb) (n : ℕ) (a : ℝ) :
    |epowmul E n a| ≤ |a| * Eb ^ n := by
  have hEb : 0 ≤ Eb := (abs_nonneg E).trans hE
  induction n generalizing a with
  | zero => simp [epowmul]
  | succ n ih =>
    simp only [epowmul]
    calc |epowmul E n (a * E)| ≤ |a * E| * Eb ^ n := ih _
      _ = |a| * |E| * Eb ^ n := by rw [abs_mul]
      _ ≤ |a| * Eb * Eb ^ n := by gcongr
      _ = |a| * Eb ^ (n + 1) := by ring

theorem abs_tamp_le {t Tb : ℝ} (ht : |t| ≤ Tb) (tm : Term) :
    |tamp t tm| ≤ dabs tm.c0 + (match tm.c1 with | none => 0 | some c => dabs c * Tb) := by
  unfold tamp
  cases h : tm.c1 with
  | none => simp [abs_dec]
  | some c =>
    simp only
    calc |dec tm.c0 + dec c * t| ≤ |dec tm.c0| + |dec c * t| := abs_add_le _ _
      _ = dabs tm.c0 + dabs c * |t| := by rw [abs_mul, abs_dec, abs_dec]
      _ ≤ dabs tm.c0 + dabs c * Tb := by have := dabs_nonneg c; gcongr

theorem abs_teval_le {E Eb t Tb : ℝ} (hE : |E| ≤ Eb) (ht : |t| ≤ Tb) (env : List ℝ) (tm : Term) :
    |teval E t env tm| ≤ tbound Eb Tb tm := by
  have hEb : 0 ≤ Eb := (abs_nonneg E).trans hE
  have key : |epowmul E tm.epow (tamp t tm)| ≤ tbound Eb Tb tm := by
    unfold tbound
    calc |epowmul E tm.epow (tamp t tm)| ≤ |tamp t tm| * Eb ^ tm.epow := abs_epowmul_le hE _ _
      _ ≤ _ := by have := abs_tamp_le ht tm; gcongr
  unfold teval
  cases tm.fn with
  | sin =>
    simp only [psin]
    calc |epowmul E tm.epow (tamp t tm) * Real.sin _| = |epowmul E tm.epow (tamp t tm)| * |Real.sin _| := abs_mul _ _
      _ ≤ |epowmul E tm.epow (tamp t tm)| * 1 := by
          gcongr; exact Real.abs_sin_le_one _
      _ ≤ _ := by rw [mul_one]; exact key
  | cos =>
    simp only [pcos]
    calc |epowmul E tm.epow (tamp t tm) * Real.cos _| = |epowmul E tm.epow (tamp t tm)| * |Real.cos _| := abs_mul _ _
      _ ≤ |epowmul E tm.epow (tamp t tm)| * 1 := by
          gcongr; exact Real.abs_cos_le_one _
      _ ≤ _ := by rw [mul_one]; exact key
  | one => exact key

theorem abs_foldl_add_le {α : Type} (f : α → ℝ) (b : α → ℝ) (hf : ∀ x, |f x| ≤ b x) (l : List α) (a : ℝ) :
    |l.foldl (fun acc x => acc + f x) a| ≤ |a| + (l.map b).sum := by
  induction l generalizing a with
  | nil => simp
  | cons x xs ih =>
    simp only [List.foldl_cons, List.map_cons, List.sum_cons]
    calc _ ≤ |a + f x| + (xs.map b).sum := ih _
      _ ≤ |a| + |f x| + (xs.map b).sum := by have := abs_add_le a (f x); linarith
      _ ≤ |a| + (b x + (xs.map b).sum) := by have := hf x; linarith

/-- **Amplitude bound**: a sum of periodic terms is bounded by the sum of its amplitudes. -/
theorem abs_evalTerms_le {E Eb t Tb : ℝ} (hE : |E| ≤ Eb) (ht : |t| ≤ Tb) (env : List ℝ) (ts : List Term) :
    |evalTerms E t env ts| ≤ tsum Eb Tb ts := by
  unfold evalTerms tsum
  cases ts with
  | nil => simp [zero_lit]
  | cons tm rest =>
    simp only [List.map_cons, List.sum_cons]
    calc _ ≤ |teval E t env tm| + (rest.map (tbound Eb Tb)).sum :=
          abs_foldl_add_le _ _ (fun x => abs_teval_le hE ht env x) rest _
      _ ≤ _ := by have := abs_teval_le hE ht env tm; linarith

/-! ### amplitude bounds of the tables 47.A / 47.B -/

/-- bound of the factor `E^|M|` applied by `efac` -/
def efb (Eb : ℝ) (m : Int) : ℝ := if m.natAbs = 1 then Eb else if m.natAbs = 2 then Eb ^ 2 else 1

theorem abs_efac_le {E E2 Eb : ℝ} (hE : |E| ≤ Eb) (hE2 : |E2| ≤ Eb ^ 2) (m : Int) (c : ℝ) :
    |efac m E E2 c| ≤ |c| * efb Eb m := by
  unfold efac efb
  split_ifs
  · rw [abs_mul]; gcongr
  · rw [abs_mul]; gcongr
  · simp

def rsum (Eb : ℝ) (rows : List RowLR) : ℝ := (rows.map (fun r => dabs r.cr * efb Eb r.m)).sum
def lsum (Eb : ℝ) (rows : List RowLR) : ℝ := (rows.map (fun r => dabs r.cl * efb Eb r.m)).sum
def bsum (Eb : ℝ) (rows : List RowB) : ℝ := (rows.map (fun r => dabs r.cb * efb Eb r.m)).sum

theorem abs_sigma_r_le {E E2 Eb : ℝ} (hE : |E| ≤ Eb) (hE2 : |E2| ≤ Eb ^ 2) (Dr Mr Mpr Fr : ℝ) (rows : List RowLR) :
    |sigma_r E E2 Dr Mr Mpr Fr rows| ≤ rsum Eb rows := by
  unfold sigma_r rsum
  have := abs_foldl_add_le
    (fun r : RowLR => efac r.m E E2 (dec r.cr) * pcos (row_arg r.d r.m r.mp r.f Dr Mr Mpr Fr))
    (fun r => dabs r.cr * efb Eb r.m) (fun r => by
      rw [abs_mul]
      calc _ ≤ |efac r.m E E2 (dec r.cr)| * 1 := by gcongr; exact Real.abs_cos_le_one _
        _ ≤ _ := by rw [mul_one, ← abs_dec]; exact abs_efac_le hE hE2 _ _) rows 0.0
  simpa [zero_lit] using this

theorem abs_sigma_l_le {E E2 Eb : ℝ} (hE : |E| ≤ Eb) (hE2 : |E2| ≤ Eb ^ 2) (Dr Mr Mpr Fr : ℝ) (rows : List RowLR) :
    |sigma_l E E2 Dr Mr Mpr Fr rows| ≤ lsum Eb rows := by
  unfold sigma_l lsum
  have := abs_foldl_add_le
    (fun r : RowLR => efac r.m E E2 (dec r.cl) * psin (row_arg r.d r.m r.mp r.f Dr Mr Mpr Fr))
    (fun r => dabs r.cl * efb Eb r.m) (fun r => by
      rw [abs_mul]
      calc _ ≤ |efac r.m E E2 (dec r.cl)| * 1 := by gcongr; exact Real.abs_sin_le_one _
        _ ≤ _ := by rw [mul_one, ← abs_dec]; exact abs_efac_le hE hE2 _ _) rows 0.0
  simpa [zero_lit] using this

theorem abs_sigma_b_le {E E2 Eb : ℝ} (hE : |E| ≤ Eb) (hE2 : |E2| ≤ Eb ^ 2) (Dr Mr Mpr Fr : ℝ) (rows : List RowB) :
    |sigma_b E E2 Dr Mr Mpr Fr rows| ≤ bsum Eb rows := by
  unfold sigma_b bsum
  have := abs_foldl_add_le
    (fun r : RowB => efac r.m E E2 (dec r.cb) * psin (row_arg r.d r.m r.mp r.f Dr Mr Mpr Fr))
    (fun r => dabs r.cb * efb Eb r.m) (fun r => by
      rw [abs_mul]
      calc _ ≤ |efac r.m E E2 (dec r.cb)| * 1 := by gcongr; exact Real.abs_sin_le_one _
        _ ≤ _ := by rw [mul_one, ← abs_dec]; exact abs_efac_le hE hE2 _ _) rows 0.0
  simpa [zero_lit] using this

/-! ### polynomials -/

/-- `|E(t)| ≤ 1 + (0.002516 + 0.0000074 T) T` for `|t| ≤ T` -/
theorem abs_ecc_le {t T : ℝ} (ht : |t| ≤ T) : |ecc t| ≤ 1 + (0.002516 + 0.0000074 * T) * T := by
  have hT : 0 ≤ T := (abs_nonneg t).trans ht
  unfold ecc
  have h1 : |(-0.002516 - 0.0000074 * t) * t| ≤ (0.002516 + 0.0000074 * T) * T := by
    rw [abs_mul]
    have : |(-0.002516 : ℝ) - 0.0000074 * t| ≤ 0.002516 + 0.0000074 * T := by
      calc |(-0.002516 : ℝ) - 0.0000074 * t| ≤ |(-0.002516 : ℝ)| + |0.0000074 * t| := abs_sub _ _
        _ = 0.002516 + 0.0000074 * |t| := by rw [abs_mul]; norm_num [abs_of_pos]
        _ ≤ _ := by gcongr
    have h0 : 0 ≤ (0.002516 : ℝ) + 0.0000074 * T := by positivity
    calc _ ≤ (0.002516 + 0.0000074 * T) * |t| := by gcongr
      _ ≤ _ := by gcongr
  calc |(1.0 : ℝ) + (-0.002516 - 0.0000074 * t) * t| ≤ |(1.0 : ℝ)| + |(-0.002516 - 0.0000074 * t) * t| := abs_add_le _ _
    _ ≤ 1 + (0.002516 + 0.0000074 * T) * T := by
        have : |(1.0 : ℝ)| = 1 := by norm_num
        rw [this]; linarith

/-- `|(a + (b + c t) t) t t| ≤ (|a| + (|b| + |c| T) T) T T` for `|t| ≤ T` -/
theorem abs_poly4_le (a b c : ℝ) {t T : ℝ} (ht : |t| ≤ T) :
    |(a + (b + c * t) * t) * t * t| ≤ (|a| + (|b| + |c| * T) * T) * T * T := by
  have hT : 0 ≤ T := (abs_nonneg t).trans ht
  have h1 : |b + c * t| ≤ |b| + |c| * T := by
    calc |b + c * t| ≤ |b| + |c * t| := abs_add_le _ _
      _ = |b| + |c| * |t| := by rw [abs_mul]
      _ ≤ _ := by gcongr
  have h2 : |a + (b + c * t) * t| ≤ |a| + (|b| + |c| * T) * T := by
    calc |a + (b + c * t) * t| ≤ |a| + |(b + c * t) * t| := abs_add_le _ _
      _ = |a| + |b + c * t| * |t| := by rw [abs_mul]
      _ ≤ _ := by gcongr
  rw [abs_mul, abs_mul]
  gcongr

/-- `|(a + b t) t t| ≤ (|a| + |b| T) T T` for `|t| ≤ T` -/
theorem abs_poly3_le (a b : ℝ) {t T : ℝ} (ht : |t| ≤ T) :
    |(a + b * t) * t * t| ≤ (|a| + |b| * T) * T * T := by
  have hT : 0 ≤ T := (abs_nonneg t).trans ht
  have h1 : |a + b * t| ≤ |a| + |b| * T := by
    calc |a + b * t| ≤ |a| + |b * t| := abs_add_le _ _
      _ = |a| + |b| * |t| := by rw [abs_mul]
      _ ≤ _ := by gcongr
  rw [abs_mul, abs_mul]
  gcongr

/-- increment of a quartic in Horner form: `p(t') - p(t) = a₁ (t' - t) + (t' - t)·R` with
    `|R| ≤ |a₂|·2T + |a₃|·3T² + |a₄|·4T³` for `|t|, |t'| ≤ T`. -/
theorem quartic_rate (a0 a1 a2 a3 a4 : ℝ) {t t' T : ℝ} (ht : |t| ≤ T) (ht' : |t'| ≤ T) :
    |(a0 + (a1 + (a2 + (a3 + a4 * t') * t') * t') * t') - (a0 + (a1 + (a2 + (a3 + a4 * t) * t) * t) * t)
        - a1 * (t' - t)| ≤ |t' - t| * (|a2| * (2 * T) + |a3| * (3 * T ^ 2) + |a4| * (4 * T ^ 3)) := by
  have hT : 0 ≤ T := (abs_nonneg t).trans ht
  have e : (a0 + (a1 + (a2 + (a3 + a4 * t') * t') * t') * t') - (a0 + (a1 + (a2 + (a3 + a4 * t) * t) * t) * t)
        - a1 * (t' - t) =
      (t' - t) * (a2 * (t' + t) + a3 * (t' ^ 2 + t' * t + t ^ 2) + a4 * (t' ^ 3 + t' ^ 2 * t + t' * t ^ 2 + t ^ 3)) := by
    ring
  rw [e, abs_mul]
  have p11 : |t' * t| ≤ T ^ 2 := by rw [abs_mul, pow_two]; exact mul_le_mul ht' ht (abs_nonneg _) hT
  have p20 : |t' ^ 2| ≤ T ^ 2 := by rw [abs_pow]; exact pow_le_pow_left₀ (abs_nonneg _) ht' 2
  have p02 : |t ^ 2| ≤ T ^ 2 := by rw [abs_pow]; exact pow_le_pow_left₀ (abs_nonneg _) ht 2
  have p30 : |t' ^ 3| ≤ T ^ 3 := by rw [abs_pow]; exact pow_le_pow_left₀ (abs_nonneg _) ht' 3
  have p03 : |t ^ 3| ≤ T ^ 3 := by rw [abs_pow]; exact pow_le_pow_left₀ (abs_nonneg _) ht 3
  have p21 : |t' ^ 2 * t| ≤ T ^ 3 := by
    rw [abs_mul]; calc |t' ^ 2| * |t| ≤ T ^ 2 * T := mul_le_mul p20 ht (abs_nonneg _) (by positivity)
      _ = T ^ 3 := by ring
  have p12 : |t' * t ^ 2| ≤ T ^ 3 := by
    rw [abs_mul]; calc |t'| * |t ^ 2| ≤ T * T ^ 2 := mul_le_mul ht' p02 (abs_nonneg _) hT
      _ = T ^ 3 := by ring
  have s1 : |t' + t| ≤ 2 * T := by
    calc |t' + t| ≤ |t'| + |t| := abs_add_le _ _
      _ ≤ 2 * T := by linarith
  have s2 : |t' ^ 2 + t' * t + t ^ 2| ≤ 3 * T ^ 2 := by
    calc |t' ^ 2 + t' * t + t ^ 2| ≤ |t' ^ 2 + t' * t| + |t ^ 2| := abs_add_le _ _
      _ ≤ |t' ^ 2| + |t' * t| + |t ^ 2| := by linarith [abs_add_le (t' ^ 2) (t' * t)]
      _ ≤ 3 * T ^ 2 := by linarith
  have s3 : |t' ^ 3 + t' ^ 2 * t + t' * t ^ 2 + t ^ 3| ≤ 4 * T ^ 3 := by
    calc |t' ^ 3 + t' ^ 2 * t + t' * t ^ 2 + t ^ 3| ≤ |t' ^ 3 + t' ^ 2 * t + t' * t ^ 2| + |t ^ 3| := abs_add_le _ _
      _ ≤ |t' ^ 3 + t' ^ 2 * t| + |t' * t ^ 2| + |t ^ 3| := by linarith [abs_add_le (t' ^ 3 + t' ^ 2 * t) (t' * t ^ 2)]
      _ ≤ |t' ^ 3| + |t' ^ 2 * t| + |t' * t ^ 2| + |t ^ 3| := by linarith [abs_add_le (t' ^ 3) (t' ^ 2 * t)]
      _ ≤ 4 * T ^ 3 := by linarith
  apply mul_le_mul_of_nonneg_left _ (abs_nonneg _)
  calc |a2 * (t' + t) + a3 * (t' ^ 2 + t' * t + t ^ 2) + a4 * (t' ^ 3 + t' ^ 2 * t + t' * t ^ 2 + t ^ 3)|
      ≤ |a2 * (t' + t) + a3 * (t' ^ 2 + t' * t + t ^ 2)| + |a4 * (t' ^ 3 + t' ^ 2 * t + t' * t ^ 2 + t ^ 3)| := abs_add_le _ _
    _ ≤ |a2 * (t' + t)| + |a3 * (t' ^ 2 + t' * t + t ^ 2)| + |a4 * (t' ^ 3 + t' ^ 2 * t + t' * t ^ 2 + t ^ 3)| := by
        linarith [abs_add_le (a2 * (t' + t)) (a3 * (t' ^ 2 + t' * t + t ^ 2))]
    _ = |a2| * |t' + t| + |a3| * |t' ^ 2 + t' * t + t ^ 2| + |a4| * |t' ^ 3 + t' ^ 2 * t + t' * t ^ 2 + t ^ 3| := by
        rw [abs_mul, abs_mul, abs_mul]
    _ ≤ _ := by gcongr

/-! ### Angle helpers -/

theorem reduce_deg_of_lt {v : ℝ} (h : |v| < 360) : reduce_deg v = v := by
  unfold reduce_deg ple pabs
  have : ¬ ((360.0 : ℝ) ≤ |v|) := by
    have : (360.0 : ℝ) = 360 := by norm_num
    rw [this]; exact not_le.mpr h
  simp [this]

/-! ### generic facts about a finder `r(k) = J + P k + e(k)` with `|e| ≤ B` -/

theorem spacing_of_bounds {P B e1 e2 k1 k2 J : ℝ} (h1 : |e1| ≤ B) (h2 : |e2| ≤ B) :
    P * (k2 - k1) - 2 * B ≤ (J + P * k2 + e2) - (J + P * k1 + e1) ∧
    (J + P * k2 + e2) - (J + P * k1 + e1) ≤ P * (k2 - k1) + 2 * B := by
  have a := abs_le.mp h1
  have b := abs_le.mp h2
  constructor <;> linarith [a.1, a.2, b.1, b.2]

/-- order: counts `m₁ ≤ m₂` give results `res(m₁ + off) ≤ res(m₂ + off)` when `2 B < P`. -/
theorem nf_never_backwards {res e : ℝ → ℝ} {J P B off : ℝ} (hres : ∀ k, res k = J + P * k + e k)
    (hP : 2 * B < P) {m1 m2 : ℤ} (hm : m1 ≤ m2) (h1 : |e ((m1 : ℝ) + off)| ≤ B) (h2 : |e ((m2 : ℝ) + off)| ≤ B) :
    res ((m1 : ℝ) + off) ≤ res ((m2 : ℝ) + off) := by
  rcases eq_or_lt_of_le hm with h | h
  · rw [h]
  · rw [hres, hres]
    have a := abs_le.mp h1
    have b := abs_le.mp h2
    have : ((m1 : ℝ)) + 1 ≤ (m2 : ℝ) := by exact_mod_cast h
    have hB : 0 ≤ B := (abs_nonneg _).trans h1
    nlinarith [a.1, a.2, b.1, b.2]

/-- spacing of consecutive counts -/
theorem nf_spacing {res e : ℝ → ℝ} {J P B off : ℝ} (hres : ∀ k, res k = J + P * k + e k)
    (m : ℤ) (h1 : |e ((m : ℝ) + off)| ≤ B) (h2 : |e ((m : ℝ) + 1 + off)| ≤ B) :
    P - 2 * B ≤ res ((m : ℝ) + 1 + off) - res ((m : ℝ) + off) ∧
    res ((m : ℝ) + 1 + off) - res ((m : ℝ) + off) ≤ P + 2 * B := by
  rw [hres, hres]
  have a := abs_le.mp h1
  have b := abs_le.mp h2
  constructor <;> linarith [a.1, a.2, b.1, b.2]

/-- distance of the result from the mean instant of the (unrounded) count `x` -/
theorem nf_near {res e : ℝ → ℝ} {J P B off x : ℝ} (hres : ∀ k, res k = J + P * k + e k) (hP : 0 ≤ P)
    {m : ℤ} (hx : |(m : ℝ) - x| ≤ 1 / 2) (h : |e ((m : ℝ) + off)| ≤ B) :
    |res ((m : ℝ) + off) - (J + P * (x + off))| ≤ P / 2 + B := by
  rw [hres]
  have a := abs_le.mp hx
  have b := abs_le.mp h
  rw [abs_le]
  constructor <;> nlinarith [a.1, a.2, b.1, b.2]

/-! ### shapes of generated term lists (decidable facts about the regenerated data) -/

/-- everything of a term but its leading amplitude: E-multiplicity, sin/cos, argument, `t`-slope -/
def termShape (tm : Term) : Nat × Fn × AExp × Option Dec := (tm.epow, tm.fn, tm.arg, tm.c1)

/-- `|a - b| ≤ 10^(-k)` for two decimal literals, in integer arithmetic -/
def decClose (k : Nat) (a b : Dec) : Bool :=
  decide ((a.m * 10 ^ b.e - b.m * 10 ^ a.e).natAbs * 10 ^ k ≤ 10 ^ (a.e + b.e))

/-- `|a| = |b|` for two decimal literals -/
def decAbsEq (a b : Dec) : Bool := decide (a.m.natAbs * 10 ^ b.e = b.m.natAbs * 10 ^ a.e)

/-! ### ranges of the angular outputs -/

theorem to_positive_range {v : ℝ} (h : |v| < 360) : 0 ≤ to_positive v ∧ to_positive v < 360 := by
  have hv := abs_lt.mp h
  unfold to_positive plt ple pabs
  have e0 : (0.0 : ℝ) = 0 := by norm_num
  have e360 : (360.0 : ℝ) = 360 := by norm_num
  rw [e0, e360]
  by_cases hneg : v < 0
  · have ha : |v| = -v := abs_of_neg hneg
    have hd : ¬ ((360 : ℝ) ≤ 360 - |v|) := by rw [ha]; linarith
    simp only [hneg, decide_true, if_true, hd, decide_false, Bool.false_eq_true, if_false]
    rw [ha]; constructor <;> linarith [hv.1]
  · simp only [hneg, decide_false, Bool.false_eq_true, if_false]
    exact ⟨not_lt.mp hneg, hv.2⟩

theorem pdegrees_atan2_range (y x : ℝ) : -180 < pdegrees (patan2 y x) ∧ pdegrees (patan2 y x) ≤ 180 := by
  unfold pdegrees patan2
  have h1 := Complex.neg_pi_lt_arg ⟨x, y⟩
  have h2 := Complex.arg_le_pi ⟨x, y⟩
  have hpi := Real.pi_pos
  have e : ∀ a : ℝ, a * (180 / Real.pi) = a / Real.pi * 180 := by intro a; ring
  rw [e]
  have a1 : -1 < Complex.arg ⟨x, y⟩ / Real.pi := by rw [lt_div_iff₀ hpi]; linarith
  have a2 : Complex.arg ⟨x, y⟩ / Real.pi ≤ 1 := by rw [div_le_iff₀ hpi]; linarith
  constructor <;> linarith

theorem pdegrees_atan2_nonneg_re (y x : ℝ) (hx : 0 ≤ x) :
    -90 ≤ pdegrees (patan2 y x) ∧ pdegrees (patan2 y x) ≤ 90 := by
  unfold pdegrees patan2
  have h := (Complex.abs_arg_le_pi_div_two_iff (z := ⟨x, y⟩)).mpr hx
  have h' := abs_le.mp h
  have hpi := Real.pi_pos
  have e : ∀ a : ℝ, a * (180 / Real.pi) = a / Real.pi * 180 := by intro a; ring
  rw [e]
  have a1 : -(1/2 : ℝ) ≤ Complex.arg ⟨x, y⟩ / Real.pi := by rw [le_div_iff₀ hpi]; linarith [h'.1]
  have a2 : Complex.arg ⟨x, y⟩ / Real.pi ≤ 1/2 := by rw [div_le_iff₀ hpi]; linarith [h'.2]
  constructor <;> linarith

theorem position_bright_limb_range (a0 d0 a d : ℝ) :
    0 ≤ position_bright_limb a0 d0 a d ∧ position_bright_limb a0 d0 a d < 360 := by
  unfold position_bright_limb angle_of_rad
  simp only
  have r := pdegrees_atan2_range (pcos (pradians d0) * psin (pradians a0 - pradians a))
    (psin (pradians d0) * pcos (pradians d) - pcos (pradians d0) * psin (pradians d) * pcos (pradians a0 - pradians a))
  have hlt : |pdegrees (patan2 (pcos (pradians d0) * psin (pradians a0 - pradians a))
    (psin (pradians d0) * pcos (pradians d) - pcos (pradians d0) * psin (pradians d) * pcos (pradians a0 - pradians a)))| < 360 := by
    rw [abs_lt]; constructor <;> linarith [r.1, r.2]
  rw [reduce_deg_of_lt hlt]
  exact to_positive_range hlt

theorem ecliptical2equatorial_range (lon lat eps : ℝ) :
    ∃ ra dec : ℝ, ecliptical2equatorial lon lat eps = .ok (ra, dec) ∧ 0 ≤ ra ∧ ra < 360 ∧ -90 ≤ dec ∧ dec ≤ 90 := by
  unfold ecliptical2equatorial angle_of_rad
  simp only
  refine ⟨_, _, rfl, ?_⟩
  generalize hy : pcos (pradians lat) * psin (pradians lon) * pcos (pradians eps) - psin (pradians lat) * psin (pradians eps) = y
  generalize hx : pcos (pradians lat) * pcos (pradians lon) = x
  generalize hz : psin (pradians lat) * pcos (pradians eps) + pcos (pradians lat) * psin (pradians eps) * psin (pradians lon) = z
  have r := pdegrees_atan2_range y x
  have hlt : |pdegrees (patan2 y x)| < 360 := by rw [abs_lt]; constructor <;> linarith [r.1, r.2]
  have q := pdegrees_atan2_nonneg_re z (psqrt (x * x + y * y)) (by unfold psqrt; exact Real.sqrt_nonneg _)
  have hlt2 : |pdegrees (patan2 z (psqrt (x * x + y * y)))| < 360 := by rw [abs_lt]; constructor <;> linarith [q.1, q.2]
  rw [reduce_deg_of_lt hlt, reduce_deg_of_lt hlt2]
  have tp := to_positive_range hlt
  exact ⟨tp.1, tp.2, q.1, q.2⟩

/-- exact ties go to the even neighbour (Python's `round`) -/
theorem mround_half_even (n : ℤ) : mround ((n : ℝ) + 1 / 2) = if n % 2 = 0 then n else n + 1 := by
  have hf : ⌊(n : ℝ) + 1 / 2⌋ = n := by
    rw [Int.floor_eq_iff]; constructor <;> norm_num
  unfold mround
  rw [hf]
  have e : (n : ℝ) + 1 / 2 - (n : ℝ) = 1 / 2 := by ring
  rw [e]
  simp

end Pymeeus.GenR.MoonM
