import Pymeeus.Refine.Calendar
import Pymeeus.Spec.Instant
import Pymeeus.Gen.Q.EpochOps
import Mathlib.Algebra.Order.Floor.Ring
/-
Helper lemmas for C02: the exact (Rat) model of `get_date` / `get_full_date` / `_compute_jde` at an
arbitrary rational instant, in terms of the civil day count `Spec.civilDay` and the day fraction.
-/
namespace Pymeeus.Refine
open Pymeeus Pymeeus.PQ Pymeeus.GenQ Pymeeus.Spec

theorem pmod_one (x : ℚ) : pmod x 1.0 = Int.fract x := by
  unfold pmod
  rw [show (1.0 : ℚ) = 1 by norm_num, div_one, one_mul, rat_floor_eq_floor]
  rfl

theorem pfloor_add_fract (z : Int) (f : ℚ) (h0 : 0 ≤ f) (h1 : f < 1) : pfloor ((z : ℚ) + f) = z := by
  unfold pfloor
  rw [rat_floor_eq_floor, Int.floor_eq_iff]
  constructor <;> linarith

theorem fract_add_fract (z : Int) (f : ℚ) (h0 : 0 ≤ f) (h1 : f < 1) : Int.fract ((z : ℚ) + f) = f := by
  rw [Int.fract_eq_iff]
  refine ⟨h0, h1, z, by ring⟩

theorem ptrunc_nonneg (x : ℚ) (h : 0 ≤ x) : ptrunc x = ⌊x⌋ := by
  unfold ptrunc; simp only [h, if_true]; rfl

/-- what `get_date` returns from `(e, c, day)` and the day fraction `f` -/
def dateOfF (t : Int × Int × Int) (f : ℚ) : PyRes (Int × Int × ℚ) :=
  let (e, c, day) := t
  if e < 14 ∨ e = 14 ∨ e = 15 then
    let month := if e < 14 then e - 1 else e - 13
    if month > 2 then .ok (c - 4716, month, (day : ℚ) + f)
    else if month = 1 ∨ month = 2 then .ok (c - 4715, month, (day : ℚ) + f)
    else .error .valueError
  else .error .valueError

theorem dateOfF_of_dateOf (t : Int × Int × Int) (f : ℚ) (y m d : Int)
    (h : dateOf t = .ok (y, m, (d : ℚ))) : dateOfF t f = .ok (y, m, (d : ℚ) + f) := by
  obtain ⟨e, c, day⟩ := t
  unfold dateOf at h
  unfold dateOfF
  dsimp only at h ⊢
  split_ifs at h ⊢ <;> simp_all

/-- `get_date` at the instant `z - 1/2 + f` (day number `z`, day fraction `f`). -/
theorem get_date_frac (z : Int) (f : ℚ) (h0 : 0 ≤ f) (h1 : f < 1) :
    get_date ((z : ℚ) - 1 / 2 + f) = dateOfF (invI z) f := by
  have e1 : ((z : ℚ) - 1 / 2 + f + 0.5) = (z : ℚ) + f := by norm_num; ring
  unfold get_date
  simp only [e1, pfloor_add_fract z f h0 h1, pmod_one, fract_add_fract z f h0 h1]
  simp only [floor_alpha, floor_a4, floor_c, floor_d, floor_e, floor_e2]
  simp only [invI, invA, dateOfF, ofInt]

theorem civilDay_valid (n : ℕ) : Valid (civilDay n).1 (civilDay n).2.1 (civilDay n).2.2 := by
  induction n with
  | zero => decide
  | succ k ih => exact next_valid _ _ _ ih

theorem jdnI_civilDay (n : ℕ) : jdnI (civilDay n).1 (civilDay n).2.1 (civilDay n).2.2 = n := by
  induction n with
  | zero => decide
  | succ k ih =>
    show jdnI (next _ _ _).1 (next _ _ _).2.1 (next _ _ _).2.2 = _
    rw [consecutive_int _ _ _ (civilDay_valid k), ih]; push_cast; ring

/-- day number and day fraction of a rational instant -/
def dayNo (j : ℚ) : ℕ := ⌊j + 1 / 2⌋.toNat
def dayFrac (j : ℚ) : ℚ := Int.fract (j + 1 / 2)

theorem dayFrac_nonneg (j : ℚ) : 0 ≤ dayFrac j := Int.fract_nonneg _
theorem dayFrac_lt_one (j : ℚ) : dayFrac j < 1 := Int.fract_lt_one _

theorem instant_split (j : ℚ) (hj : -1 / 2 ≤ j) : j = ((dayNo j : ℤ) : ℚ) - 1 / 2 + dayFrac j := by
  unfold dayNo dayFrac
  have h0 : 0 ≤ ⌊j + 1 / 2⌋ := Int.floor_nonneg.mpr (by linarith)
  rw [Int.toNat_of_nonneg h0]
  have := Int.floor_add_fract (j + 1 / 2)
  linarith

/-- `get_date` of ANY rational instant `j ≥ 0` is the civil date of its day (the `dayNo j`-th civil
    day counted with `Spec.next`), with the day fraction added to the day. -/
theorem get_date_civil (j : ℚ) (hj : -1 / 2 ≤ j) :
    get_date j = .ok ((civilDay (dayNo j)).1, (civilDay (dayNo j)).2.1,
      ((civilDay (dayNo j)).2.2 : ℚ) + dayFrac j) := by
  conv_lhs => rw [instant_split j hj]
  rw [get_date_frac _ _ (dayFrac_nonneg j) (dayFrac_lt_one j)]
  apply dateOfF_of_dateOf
  have := roundtrip_int _ _ _ (civilDay_valid (dayNo j))
  rw [jdnI_civilDay] at this
  exact this

/-- `_compute_jde` at an integer day of the civil calendar plus a day fraction. -/
theorem compute_jde_frac (y m d : Int) (f : ℚ) (h0 : 0 ≤ f) (h1 : f < 1) (hv : Valid y m d) :
    compute_jde y m ((d : ℚ) + f) = (jdnI y m d : ℚ) - 1 / 2 + f :=
  compute_jde_frac_valid y m d f hv h0 h1

/-! Splitting of a day fraction `f ∈ [0, 1)` into hours, minutes, seconds as `get_full_date` does. -/
def hourOf (f : ℚ) : Int := ⌊f * 24⌋
def minOf (f : ℚ) : Int := ⌊(f * 24 - hourOf f) * 60⌋
def secOf (f : ℚ) : ℚ := 60 * ((f * 24 - hourOf f) * 60 - minOf f)

theorem hourOf_bounds (f : ℚ) (h0 : 0 ≤ f) (h1 : f < 1) : 0 ≤ hourOf f ∧ hourOf f ≤ 23 := by
  unfold hourOf
  refine ⟨Int.floor_nonneg.mpr (by linarith), ?_⟩
  have : ⌊f * 24⌋ < 24 := Int.floor_lt.mpr (by push_cast; linarith)
  omega

theorem hourRem_bounds (f : ℚ) : 0 ≤ f * 24 - hourOf f ∧ f * 24 - hourOf f < 1 := by
  unfold hourOf
  exact ⟨by linarith [Int.floor_le (f * 24)], by linarith [Int.lt_floor_add_one (f * 24)]⟩

theorem minOf_bounds (f : ℚ) : 0 ≤ minOf f ∧ minOf f ≤ 59 := by
  obtain ⟨a, b⟩ := hourRem_bounds f
  unfold minOf
  refine ⟨Int.floor_nonneg.mpr (by linarith), ?_⟩
  have : ⌊(f * 24 - hourOf f) * 60⌋ < 60 := Int.floor_lt.mpr (by push_cast; linarith)
  omega

theorem secOf_bounds (f : ℚ) : 0 ≤ secOf f ∧ secOf f < 60 := by
  unfold secOf minOf
  exact ⟨by linarith [Int.floor_le ((f * 24 - hourOf f) * 60)],
         by linarith [Int.lt_floor_add_one ((f * 24 - hourOf f) * 60)]⟩

theorem hms_sum (f : ℚ) : (hourOf f : ℚ) / 24 + (minOf f : ℚ) / 1440 + secOf f / 86400 = f := by
  unfold secOf; ring

/-- `get_full_date` of any rational instant `j ≥ 0`. -/
theorem get_full_date_civil (j : ℚ) (hj : -1 / 2 ≤ j) :
    get_full_date j = .ok ((civilDay (dayNo j)).1, (civilDay (dayNo j)).2.1, (civilDay (dayNo j)).2.2,
      hourOf (dayFrac j), minOf (dayFrac j), secOf (dayFrac j)) := by
  have hv := civilDay_valid (dayNo j)
  obtain ⟨_, _, _, hd1, _, _⟩ := hv
  have f0 := dayFrac_nonneg j
  have f1 := dayFrac_lt_one j
  obtain ⟨r0, r1⟩ := hourRem_bounds (dayFrac j)
  have hd0 : (0 : ℚ) ≤ ((civilDay (dayNo j)).2.2 : ℚ) + dayFrac j := by
    have : (1 : ℚ) ≤ ((civilDay (dayNo j)).2.2 : ℚ) := by exact_mod_cast hd1
    linarith
  unfold get_full_date
  rw [get_date_civil j hj]
  simp only [pmod_one, fract_add_fract _ _ f0 f1]
  rw [ptrunc_nonneg _ hd0, ptrunc_nonneg (dayFrac j * 24.0) (by norm_num; linarith)]
  have e24 : dayFrac j * 24.0 = dayFrac j * 24 := by norm_num
  have e60 : ∀ x : ℚ, x * 60.0 = x * 60 := by intro x; norm_num
  rw [e24]
  rw [ptrunc_nonneg ((dayFrac j * 24 - ofInt ⌊dayFrac j * 24⌋) * 60.0) (by
    rw [e60]; have := r0; unfold hourOf at this; unfold ofInt; linarith)]
  have hfl : ⌊((civilDay (dayNo j)).2.2 : ℚ) + dayFrac j⌋ = (civilDay (dayNo j)).2.2 := by
    have := pfloor_add_fract (civilDay (dayNo j)).2.2 (dayFrac j) f0 f1
    unfold pfloor at this; rwa [rat_floor_eq_floor] at this
  simp only [hfl, e60, ofInt, hourOf, minOf, secOf]
  norm_num

/-! Order: the civil day count is strictly increasing for the lexicographic order on dates, and the
    h/m/s splitting is monotone in the day fraction. -/

theorem next_dateLt (y m d : Int) (h : Valid y m d) : dateLt (y, m, d) (next y m d) := by
  obtain ⟨hy, hm1, hm12, hd1, hdl, hgap⟩ := h
  unfold next dateLt
  split_ifs <;> simp <;> omega

theorem dateLt_trans (a b c : Int × Int × Int) (h1 : dateLt a b) (h2 : dateLt b c) : dateLt a c := by
  unfold dateLt at *; omega

theorem civilDay_lt (a b : ℕ) (h : a < b) : dateLt (civilDay a) (civilDay b) := by
  induction b with
  | zero => omega
  | succ k ih =>
    have hstep : dateLt (civilDay k) (civilDay (k + 1)) := next_dateLt _ _ _ (civilDay_valid k)
    rcases Nat.lt_succ_iff_lt_or_eq.mp h with hlt | heq
    · exact dateLt_trans _ _ _ (ih hlt) hstep
    · rw [heq]; exact hstep

theorem time_mono (f1 f2 : ℚ) (h : f1 ≤ f2) :
    timeLe (hourOf f1, minOf f1, secOf f1) (hourOf f2, minOf f2, secOf f2) := by
  have hh : hourOf f1 ≤ hourOf f2 := Int.floor_le_floor (by linarith)
  rcases lt_or_eq_of_le hh with hlt | heq
  · left; exact hlt
  · right; refine ⟨heq, ?_⟩
    have hm : minOf f1 ≤ minOf f2 := by
      unfold minOf; apply Int.floor_le_floor; rw [heq]; linarith
    rcases lt_or_eq_of_le hm with mlt | meq
    · left; exact mlt
    · right; refine ⟨meq, ?_⟩
      show secOf f1 ≤ secOf f2
      unfold secOf; rw [heq, meq]; linarith

theorem dayNo_mono (j1 j2 : ℚ) (h : j1 ≤ j2) : dayNo j1 ≤ dayNo j2 :=
  Int.toNat_le_toNat (Int.floor_le_floor (by linarith))

theorem dayFrac_mono_of_dayNo_eq (j1 j2 : ℚ) (h0 : -1 / 2 ≤ j1) (h : j1 ≤ j2) (he : dayNo j1 = dayNo j2) :
    dayFrac j1 ≤ dayFrac j2 := by
  have s1 := instant_split j1 h0
  have s2 := instant_split j2 (le_trans h0 h)
  rw [he] at s1
  linarith

/-! The constructor. -/

theorem set_fold_eq (y m d : Int) (h mi s : ℚ) (hv : Valid y m d)
    (f0 : 0 ≤ h / 24 + mi / 1440 + s / 86400) (f1 : h / 24 + mi / 1440 + s / 86400 < 1) :
    set_fold (y, m, (d : ℚ), h, mi, s) = { jde := (jdnI y m d : ℚ) - 1 / 2 + (h / 24 + mi / 1440 + s / 86400) } := by
  unfold set_fold compute_jde_tt
  have e : h / 24.0 + mi / 1440.0 + s / 86400.0 = h / 24 + mi / 1440 + s / 86400 := by norm_num
  simp only [e, compute_jde_frac y m d _ f0 f1 hv]
  congr 1
  norm_num

theorem check_values_ok (y m : Int) (day h mi s : ℚ) (hy : -4712 ≤ y) (hm1 : 1 ≤ m) (hm12 : m ≤ 12)
    (hd1 : 1 ≤ day) (hd2 : day < (monthLen y m : ℚ) + 1)
    (hh0 : 0 ≤ h) (hh1 : h < 24) (hmi0 : 0 ≤ mi) (hmi1 : mi < 60) (hs0 : 0 ≤ s) (hs1 : s < 60) :
    check_values y (get_month_int m) day h mi s = .ok (y, m, day, h, mi, s) := by
  have hl := monthLen_ge y m
  have hl31 : (monthLen y m : ℚ) ≤ 31 := by exact_mod_cast hl.2
  have c1 : ¬ y < -4712 := by omega
  have c2 : ¬ day < 1 := not_lt.mpr hd1
  have c3 : ¬ (32 : ℚ) ≤ day := by rw [not_le]; linarith
  have c4 : ¬ h < 0 := not_lt.mpr hh0
  have c5 : ¬ (24 : ℚ) ≤ h := not_le.mpr hh1
  have c6 : ¬ mi < 0 := not_lt.mpr hmi0
  have c7 : ¬ (60 : ℚ) ≤ mi := not_le.mpr hmi1
  have c8 : ¬ s < 0 := not_lt.mpr hs0
  have c9 : ¬ (60 : ℚ) ≤ s := not_le.mpr hs1
  have hlim : ¬ (((month_limit y m + 1 : Int) : ℚ) ≤ day) := by
    have : month_limit y m = monthLen y m := by
      unfold month_limit monthLen
      have : is_leap y = Spec.leap y := by
        unfold is_leap Spec.leap calendar_isleap imod
        by_cases h : y ≥ 1582
        · have h' : ¬ y < 1582 := by omega
          simp only [h, h', if_true, if_false, Int.fmod_eq_emod_of_nonneg _ (by decide : (0:Int) ≤ 4),
            Int.fmod_eq_emod_of_nonneg _ (by decide : (0:Int) ≤ 100), Int.fmod_eq_emod_of_nonneg _ (by decide : (0:Int) ≤ 400)]
        · have h' : y < 1582 := by omega
          simp only [h, h', if_true, if_false, Int.fmod_eq_emod_of_nonneg _ (by decide : (0:Int) ≤ 4)]
          congr 1
          apply propext
          omega
      rw [this]
      interval_cases m <;> simp [maxdays]
    rw [not_le, this]; push_cast; exact hd2
  push_cast at hlim
  unfold check_values get_month_int
  norm_num [c1, c2, c3, c4, c5, c6, c7, c8, c9, hm1, hm12, plt, ple, ofInt, hlim]

/-- `_check_values` decides exactly the documented ranges (numeric month): it returns its arguments when
    every field is in range and raises ValueError otherwise. -/
theorem check_values_cases (y m : Int) (day h mi s : ℚ) :
    check_values y (get_month_int m) day h mi s =
      if (-4712 ≤ y ∧ 1 ≤ m ∧ m ≤ 12 ∧ 1 ≤ day ∧ day < (monthLen y m : ℚ) + 1 ∧
          0 ≤ h ∧ h < 24 ∧ 0 ≤ mi ∧ mi < 60 ∧ 0 ≤ s ∧ s < 60)
      then .ok (y, m, day, h, mi, s) else .error .valueError := by
  split_ifs with hR
  · obtain ⟨a1, a2, a3, a4, a5, a6, a7, a8, a9, a10, a11⟩ := hR
    exact check_values_ok y m day h mi s a1 a2 a3 a4 a5 a6 a7 a8 a9 a10 a11
  · unfold check_values
    by_cases c1 : y < -4712
    · simp only [c1, if_true]
    simp only [c1, if_false]
    by_cases c2 : (plt day 1 || ple 32 day) = true
    · simp only [c2, if_true]
    simp only [c2]
    by_cases c3 : (plt h 0 || ple 24 h) = true
    · simp [c3]
    simp only [c3]
    by_cases c4 : (plt mi 0 || ple 60 mi) = true
    · simp [c4]
    simp only [c4]
    by_cases c5 : (plt s 0 || ple 60 s) = true
    · simp [c5]
    simp only [c5]
    unfold get_month_int
    by_cases c6 : m ≥ 1 ∧ m ≤ 12
    · simp only [c6, and_self, if_true]
      by_cases c7 : ple (ofInt (month_limit y m + 1)) day = true
      · simp [c7]
      · exfalso
        apply hR
        simp only [plt, ple, Bool.or_eq_true, decide_eq_true_eq, not_or, not_lt, not_le, ofInt] at c2 c3 c4 c5 c7
        have hml : month_limit y m = monthLen y m := by
          unfold month_limit monthLen
          have hleap : is_leap y = Spec.leap y := by
            unfold is_leap Spec.leap calendar_isleap imod
            by_cases h : y ≥ 1582
            · have h' : ¬ y < 1582 := by omega
              simp only [h, h', if_true, if_false, Int.fmod_eq_emod_of_nonneg _ (by decide : (0:Int) ≤ 4),
                Int.fmod_eq_emod_of_nonneg _ (by decide : (0:Int) ≤ 100), Int.fmod_eq_emod_of_nonneg _ (by decide : (0:Int) ≤ 400)]
            · have h' : y < 1582 := by omega
              simp only [h, h', if_true, if_false, Int.fmod_eq_emod_of_nonneg _ (by decide : (0:Int) ≤ 4)]
              congr 1
              apply propext
              omega
          rw [hleap]
          obtain ⟨m1, m12⟩ := c6
          interval_cases m <;> simp [maxdays]
        rw [hml] at c7
        push_cast at c7
        have c7' : day < (monthLen y m : ℚ) + 1 := by simpa using c7
        exact ⟨by omega, c6.1, c6.2, c2.1, c7', c3.1, c3.2, c4.1, c4.2, c5.1, c5.2⟩
    · simp [c6]

end Pymeeus.Refine
