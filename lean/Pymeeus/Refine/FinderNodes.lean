import Pymeeus.Refine.TwoBody
/-
C13, passage_nodes: the two-body node passage (`passage_nodes_elliptic`, model of templates/Kepler.lean, closed
form `passage_nodes_elliptic_eq` of Refine/TwoBody.lean) lies strictly within half an orbital period of the
perihelion time it is computed from.
-/
noncomputable section
namespace Pymeeus.Refine.FinderNodes
open Pymeeus Pymeeus.PR Pymeeus.GenR.Kepler Pymeeus.Refine.Kepler Pymeeus.Refine.TwoBody

theorem kepler_mean_lt_pi {e E : ℝ} (he0 : 0 ≤ e) (he1 : e < 1) (h1 : -Real.pi < E) (h2 : E < Real.pi) :
    |E - e * Real.sin E| < Real.pi := by
  rw [abs_lt]
  by_cases hE : 0 ≤ E
  · have s0 := Real.sin_nonneg_of_nonneg_of_le_pi hE h2.le
    have s1 := Real.sin_le hE
    have : e * Real.sin E ≤ Real.sin E := by nlinarith
    have : 0 ≤ e * Real.sin E := mul_nonneg he0 s0
    constructor <;> linarith [Real.pi_pos]
  · have hE' : 0 ≤ -E := by linarith
    have s0 := Real.sin_nonneg_of_nonneg_of_le_pi hE' (by linarith)
    have s1 := Real.sin_le hE'
    rw [Real.sin_neg] at s0 s1
    have : e * (-Real.sin E) ≤ -Real.sin E := by nlinarith
    have : 0 ≤ e * (-Real.sin E) := mul_nonneg he0 s0
    constructor <;> nlinarith [Real.pi_pos]

/-- The node passage is less than half an orbital period (`180 / n` days, `n = 0.9856076686 / a^(3/2)` degrees per
    day) away from the perihelion time `T`. -/
theorem node_within_half_period {e a : ℝ} (he0 : 0 ≤ e) (he1 : e < 1) (ha : 0 < a) (ω T : ℝ) (asc : Bool) :
    ∃ t r, passage_nodes_elliptic ω e a T asc = .ok (t, r) ∧
      |t - T| < 180 / (0.9856076686 / (a * Real.sqrt a)) := by
  refine ⟨_, _, passage_nodes_elliptic_eq he0 he1 ha ω T asc, ?_⟩
  set E := 2 * Real.arctan (Real.sqrt ((1 - e) / (1 + e)) * Real.tan (pradians (node_anomaly ω asc) / 2)) with hE
  have h1 : -Real.pi < E := by have := Real.neg_pi_div_two_lt_arctan (Real.sqrt ((1 - e) / (1 + e)) * Real.tan (pradians (node_anomaly ω asc) / 2)); rw [hE]; linarith
  have h2 : E < Real.pi := by have := Real.arctan_lt_pi_div_two (Real.sqrt ((1 - e) / (1 + e)) * Real.tan (pradians (node_anomaly ω asc) / 2)); rw [hE]; linarith
  have hM := kepler_mean_lt_pi he0 he1 h1 h2
  have hn : (0 : ℝ) < 0.9856076686 / (a * Real.sqrt a) := by
    have := Real.sqrt_pos.mpr ha; positivity
  have hp := Real.pi_pos
  have e1 : T + (E - e * Real.sin E) * (180 / Real.pi) / (0.9856076686 / (a * Real.sqrt a)) - T
      = (E - e * Real.sin E) * (180 / Real.pi) / (0.9856076686 / (a * Real.sqrt a)) := by ring
  rw [e1, abs_div, abs_of_pos hn, abs_mul, abs_of_pos (by positivity : (0 : ℝ) < 180 / Real.pi)]
  apply div_lt_div_of_pos_right _ hn
  have : |E - e * Real.sin E| * (180 / Real.pi) < Real.pi * (180 / Real.pi) := mul_lt_mul_of_pos_right hM (by positivity)
  have e2 : Real.pi * (180 / Real.pi) = 180 := by field_simp
  linarith

end Pymeeus.Refine.FinderNodes
