import Pymeeus.Refine.LeapSeconds
/-
`Epoch.leap_seconds` for ANY numeric arguments (floats, months outside 1..12): what the code returns.
-/
namespace Pymeeus.Refine
open Pymeeus Pymeeus.PQ Pymeeus.GenQ Pymeeus.Spec

theorem leap_idx_eq (l : ℚ) (ks : List ℚ) (i : Nat) :
    leap_idx l ks i =
      if (ks.takeWhile (fun k => plt k l)).length = ks.length then none
      else some (i + (ks.takeWhile (fun k => plt k l)).length) := by
  induction ks generalizing i with
  | nil => simp [leap_idx]
  | cons k ks ih =>
    unfold leap_idx
    by_cases h : plt k l = true
    · simp only [h, if_true, List.takeWhile_cons_of_pos, List.length_cons, ih (i + 1), add_left_inj]
      split_ifs <;> simp <;> omega
    · simp [h]

theorem takeWhile_eq_filter_of_sorted (l : ℚ) (ks : List ℚ) (h : ks.Pairwise (· ≤ ·)) :
    ks.takeWhile (fun k => plt k l) = ks.filter (fun k => plt k l) := by
  induction ks with
  | nil => rfl
  | cons k ks ih =>
    rw [List.pairwise_cons] at h
    by_cases hk : plt k l = true
    · simp only [hk, List.takeWhile_cons_of_pos, List.filter_cons_of_pos, ih h.2]
    · have hk' : ¬ k < l := by simpa [plt] using hk
      have : ks.filter (fun k => plt k l) = [] := by
        rw [List.filter_eq_nil_iff]
        intro a ha
        have := h.1 a ha
        simp only [plt, decide_eq_true_eq, not_lt]
        linarith [not_lt.mp hk']
      simp [hk, this]

theorem leap_years_sorted : leap_years.Pairwise (· ≤ ·) := by decide +kernel
theorem leap_years_eq_keys : leap_years = iersDates.map iersKey := by decide +kernel
theorem leap_years_length : leap_years.length = 27 := by decide
theorem leap_values_at : ∀ n ∈ List.range 27, leap_values.getD n 0 = (n : Int) + 1 := by decide
theorem leap_years_bounds : ∀ k ∈ leap_years, (1972.5 : ℚ) ≤ k ∧ k ≤ 2017 := by decide +kernel
theorem leap_years_mem : (1972.5 : ℚ) ∈ leap_years ∧ (2017 : ℚ) ∈ leap_years := by decide +kernel

/-- number of table keys strictly below `l`, as a count on the IERS list -/
theorem count_below (l : ℚ) : ((leap_years.filter (fun k => plt k l)).length : Int) = iersBelow l := by
  unfold iersBelow
  rw [leap_years_eq_keys, List.filter_map, List.length_map]
  rfl

theorem count_zero_iff (l : ℚ) : (leap_years.filter (fun k => plt k l)).length = 0 ↔ l ≤ 1972.5 := by
  rw [List.length_eq_zero_iff, List.filter_eq_nil_iff]
  constructor
  · intro h
    have := h _ leap_years_mem.1
    simpa [plt] using this
  · intro h a ha
    have := (leap_years_bounds a ha).1
    simp only [plt, decide_eq_true_eq, not_lt]; linarith

theorem count_full_iff (l : ℚ) : (leap_years.filter (fun k => plt k l)).length = leap_years.length ↔ 2017 < l := by
  rw [List.length_filter_eq_length_iff]
  constructor
  · intro h
    have := h _ leap_years_mem.2
    simpa [plt] using this
  · intro h a ha
    have := (leap_years_bounds a ha).2
    simp only [plt, decide_eq_true_eq]; linarith

/-- `Epoch.leap_seconds(year, month)` for arbitrary rational arguments. -/
theorem leap_seconds_num_eq (year month : ℚ) :
    leap_seconds_num year month =
      if year + month / 12 ≤ 1972.5 then .ok 0
      else if 2017 < year + month / 12 then .ok 27
      else if (if month ≤ 6 then year + 1 / 4 else year + 3 / 4) ≤ 1972.5 then .ok 27
      else if 2017 < (if month ≤ 6 then year + 1 / 4 else year + 3 / 4) then .error .other
      else .ok (iersBelow (if month ≤ 6 then year + 1 / 4 else year + 3 / 4)) := by
  unfold leap_seconds_num
  rw [leap_first, leap_last, leap_last_value]
  have e12 : year + month / 12.0 = year + month / 12 := by norm_num
  have ely : (if ple month 6.0 = true then year + 0.25 else year + 0.75) = (if month ≤ 6 then year + 1 / 4 else year + 3 / 4) := by
    have : (ple month 6.0 = true) ↔ month ≤ 6 := by unfold ple; rw [decide_eq_true_iff]; norm_num
    simp only [this]; split_ifs <;> norm_num
  simp only [e12, ely]
  generalize (if month ≤ 6 then year + 1 / 4 else year + 3 / 4) = ly
  unfold ple plt
  simp only [decide_eq_true_eq]
  by_cases c1 : year + month / 12 ≤ 1972.5
  · simp only [c1, if_true]
  by_cases c2 : (2017.0 : ℚ) < year + month / 12
  · have c2' : (2017 : ℚ) < year + month / 12 := by norm_num at c2; exact c2
    simp only [c1, c2, c2', if_true, if_false]
  have c2' : ¬ (2017 : ℚ) < year + month / 12 := by norm_num at c2; linarith
  simp only [c1, c2, c2', if_false]
  rw [leap_idx_eq, takeWhile_eq_filter_of_sorted ly _ leap_years_sorted]
  have hz := count_zero_iff ly
  have hf := count_full_iff ly
  have hc := count_below ly
  have hlen := leap_years_length
  have hle : (leap_years.filter (fun k => plt k ly)).length ≤ leap_years.length := List.length_filter_le _ _
  generalize (leap_years.filter (fun k => plt k ly)).length = n at *
  by_cases c3 : ly ≤ 1972.5
  · have hn : n = 0 := hz.mpr c3
    subst hn
    simp [c3, hlen]
  by_cases c4 : (2017 : ℚ) < ly
  · have hn : n = leap_years.length := hf.mpr c4
    simp [c3, c4, hn]
  · have hn0 : n ≠ 0 := fun h => c3 (hz.mp h)
    have hnf : n ≠ leap_years.length := fun h => c4 (hf.mp h)
    simp only [c3, c4, hnf, if_false, zero_add]
    obtain ⟨k, rfl⟩ := Nat.exists_eq_succ_of_ne_zero hn0
    have hk : k ∈ List.range 27 := List.mem_range.mpr (by omega)
    simp only [leap_values_at k hk, ← hc]
    norm_num

/-- the integer-argument model is the numeric one at integer values (any month, not only 1..12) -/
theorem leap_seconds_eq_num (y m : Int) : leap_seconds y m = leap_seconds_num (y : ℚ) (m : ℚ) := by
  unfold leap_seconds leap_seconds_num ofInt
  have : (ple (m : ℚ) 6.0 = true) ↔ m ≤ 6 := by
    unfold ple; rw [decide_eq_true_iff]; norm_num
    exact_mod_cast Iff.rfl
  simp only [this]

end Pymeeus.Refine
