import Pymeeus.Refine.Finders
/-
C13: the `Angle(...)` normalisations of the finders (`Angle(x)` reduces to (-360, 360), `.to_positive()` adds
360 to a negative value) change an angle by a whole number of turns only, so - the multipliers `j` of `sin(j*m)`
being integers - they are invisible to the series in exact arithmetic: `corr` equals Meeus' formula evaluated at
the raw angles `M0 + k*M1` and `c0 + c1*t`.
-/
namespace Pymeeus.Refine.Finders
open Pymeeus Pymeeus.PR Pymeeus.GenR Pymeeus.Finders

/-- `fnd_reduce_deg` written without the model's Boolean comparisons. -/
theorem reduce_deg_eq (x : ℝ) : fnd_reduce_deg x =
    if 360 ≤ |x| then (if 0 ≤ x then (1 : ℝ) else -1) * (((⌊|x|⌋.fmod 360 : ℤ) : ℝ) + (|x| - (⌊|x|⌋ : ℝ))) else x := by
  unfold fnd_reduce_deg ple pabs pmod ptrunc imod ofInt
  have ha : (0 : ℝ) ≤ |x| := abs_nonneg x
  have e0 : ((360.0 : ℝ) ≤ |x|) ↔ (360 ≤ |x|) := by norm_num
  have e1 : (1.0 : ℝ) = 1 := by norm_num
  have e2 : (-1.0 : ℝ) = -1 := by norm_num
  simp only [decide_eq_true_eq, e0, ha, if_true, e1, e2, div_one, one_mul]

theorem to_positive_eq (x : ℝ) : fnd_to_positive x = if x < 0 then 360 + x else x := by
  unfold fnd_to_positive plt ple pabs
  have e1 : (360.0 : ℝ) = 360 := by norm_num
  have e2 : (0.0 : ℝ) = 0 := by norm_num
  by_cases h : x < 0
  · have : ¬ ((360 : ℝ) ≤ 360 - -x) := by linarith
    simp only [decide_eq_true_eq, h, if_true, e1, e2, abs_of_neg h, this, if_false]
    ring
  · simp only [decide_eq_true_eq, h, if_false]

theorem reduce_deg_congr (x : ℝ) : ∃ n : ℤ, fnd_reduce_deg x = x + 360 * (n : ℝ) := by
  rw [reduce_deg_eq]
  by_cases h : (360 : ℝ) ≤ |x|
  · simp only [h, if_true]
    rw [Int.fmod_def]
    by_cases hx : 0 ≤ x
    · refine ⟨-(⌊|x|⌋.fdiv 360), ?_⟩
      simp only [hx, if_true, abs_of_nonneg hx]
      push_cast; ring
    · refine ⟨⌊|x|⌋.fdiv 360, ?_⟩
      simp only [hx, if_false, abs_of_neg (not_le.1 hx)]
      push_cast; ring
  · exact ⟨0, by simp [h]⟩

theorem to_positive_congr (x : ℝ) : ∃ n : ℤ, fnd_to_positive x = x + 360 * (n : ℝ) := by
  rw [to_positive_eq]
  by_cases h : x < 0
  · exact ⟨1, by simp only [h, if_true]; push_cast; ring⟩
  · exact ⟨0, by simp [h]⟩

theorem reduce_deg_range (x : ℝ) : |fnd_reduce_deg x| < 360 := by
  rw [reduce_deg_eq]
  by_cases h : (360 : ℝ) ≤ |x|
  · simp only [h, if_true]
    have m0 : 0 ≤ ⌊|x|⌋.fmod 360 := Int.fmod_nonneg_of_pos _ (by decide)
    have m1 : ⌊|x|⌋.fmod 360 < 360 := Int.fmod_lt_of_pos _ (by decide)
    have m0' : (0 : ℝ) ≤ ((⌊|x|⌋.fmod 360 : ℤ) : ℝ) := by exact_mod_cast m0
    have m1' : ((⌊|x|⌋.fmod 360 : ℤ) : ℝ) ≤ 359 := by exact_mod_cast (by omega : ⌊|x|⌋.fmod 360 ≤ 359)
    have f0 := Int.floor_le |x|
    have f1 := Int.lt_floor_add_one |x|
    have hv : |((⌊|x|⌋.fmod 360 : ℤ) : ℝ) + (|x| - (⌊|x|⌋ : ℝ))| < 360 := by
      rw [abs_lt]; constructor <;> linarith
    by_cases hx : 0 ≤ x
    · simp only [hx, if_true, one_mul]; exact hv
    · simp only [hx, if_false, neg_mul, one_mul, abs_neg]; exact hv
  · simp only [h, if_false]; exact not_le.1 h

/-- `Angle(x).to_positive()` lies in [0, 360). -/
theorem to_positive_range (x : ℝ) (hx : |x| < 360) : 0 ≤ fnd_to_positive x ∧ fnd_to_positive x < 360 := by
  rw [to_positive_eq]
  have b := abs_lt.1 hx
  by_cases h : x < 0
  · simp only [h, if_true]; constructor <;> linarith [b.1]
  · simp only [h, if_false]; exact ⟨not_lt.1 h, b.2⟩

/-! ### Whole turns are invisible to the series -/

theorem pradians_add_turns (x : ℝ) (n : ℤ) : pradians (x + 360 * (n : ℝ)) = pradians x + (n : ℝ) * (2 * Real.pi) := by
  unfold pradians; ring

/-- angles that differ by whole turns, position by position -/
def AuxCongr (aux aux' : List ℝ) : Prop := ∀ i : ℕ, ∃ n : ℤ, aux'.getD i 0 = aux.getD i 0 + (n : ℝ) * (2 * Real.pi)

theorem evalArg_congr {m m' : ℝ} {aux aux' : List ℝ} (hm : ∃ n : ℤ, m' = m + (n : ℝ) * (2 * Real.pi))
    (ha : AuxCongr aux aux') (a : TrigArg) (hi : a.integral = true) :
    ∃ n : ℤ, evalArg m' aux' a = evalArg m aux a + (n : ℝ) * (2 * Real.pi) := by
  cases a with
  | m => exact hm
  | aux i => exact ha i
  | jm j =>
    obtain ⟨n, hn⟩ := hm
    have hd : j.toRat.den = 1 := by simpa [TrigArg.integral] using hi
    have hj : ofDec j = ((j.toRat.num : ℤ) : ℝ) := by
      unfold ofDec
      rw [Rat.cast_def, hd]; simp
    refine ⟨j.toRat.num * n, ?_⟩
    simp only [evalArg, hj, hn]
    push_cast; ring

theorem evalE_congr (x : ℝ) {m m' : ℝ} {aux aux' : List ℝ} (hm : ∃ n : ℤ, m' = m + (n : ℝ) * (2 * Real.pi))
    (ha : AuxCongr aux aux') (e : FExpr) (hi : e.integral = true) : evalE x m' aux' e = evalE x m aux e := by
  induction e with
  | lit c => rfl
  | x => rfl
  | sin a =>
    obtain ⟨n, hn⟩ := evalArg_congr hm ha a (by simpa [FExpr.integral] using hi)
    simp only [evalE, psin, hn, Real.sin_add_int_mul_two_pi]
  | cos a =>
    obtain ⟨n, hn⟩ := evalArg_congr hm ha a (by simpa [FExpr.integral] using hi)
    simp only [evalE, pcos, hn, Real.cos_add_int_mul_two_pi]
  | neg a ih => simp only [evalE, ih (by simpa [FExpr.integral] using hi)]
  | add a b iha ihb =>
    have h2 : a.integral = true ∧ b.integral = true := by simpa [FExpr.integral] using hi
    simp only [evalE, iha h2.1, ihb h2.2]
  | sub a b iha ihb =>
    have h2 : a.integral = true ∧ b.integral = true := by simpa [FExpr.integral] using hi
    simp only [evalE, iha h2.1, ihb h2.2]
  | mul a b iha ihb =>
    have h2 : a.integral = true ∧ b.integral = true := by simpa [FExpr.integral] using hi
    simp only [evalE, iha h2.1, ihb h2.2]

/-- the mean anomaly with and without `Angle(...).to_positive()` -/
theorem finder_m_congr (r : Finder) (k : ℤ) :
    ∃ n : ℤ, finder_m r k = pradians (ofDec r.M0 + ofInt k * ofDec r.M1) + (n : ℝ) * (2 * Real.pi) := by
  obtain ⟨n1, h1⟩ := reduce_deg_congr (ofDec r.M0 + ofInt k * ofDec r.M1)
  obtain ⟨n2, h2⟩ := to_positive_congr (fnd_reduce_deg (ofDec r.M0 + ofInt k * ofDec r.M1))
  refine ⟨n1 + n2, ?_⟩
  unfold finder_m
  rw [h2, h1, pradians_add_turns, pradians_add_turns]
  push_cast; ring

theorem finder_aux_congr (r : Finder) (t : ℝ) :
    AuxCongr (r.aux.map fun c => pradians (ofDec c.1 + ofDec c.2 * t)) (finder_aux r t) := by
  intro i
  unfold finder_aux
  rw [List.getD_eq_getElem?_getD, List.getD_eq_getElem?_getD, List.getElem?_map, List.getElem?_map]
  cases r.aux[i]? with
  | none => exact ⟨0, by simp⟩
  | some c =>
    obtain ⟨n, hn⟩ := reduce_deg_congr (ofDec c.1 + ofDec c.2 * t)
    exact ⟨n, by simp only [Option.map_some, Option.getD_some, hn, pradians_add_turns]⟩

end Pymeeus.Refine.Finders
