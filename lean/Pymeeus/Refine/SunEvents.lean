import Mathlib.Tactic.NormNum
import Mathlib.Tactic.Linarith
import Mathlib.Tactic.Ring
import Mathlib.Tactic.FieldSimp
import Mathlib.Algebra.Order.Round
import Mathlib.Analysis.Real.Pi.Bounds
import Mathlib.Analysis.SpecialFunctions.Trigonometric.Bounds
import Pymeeus.Gen.R.SunEvents
/-
Helper lemmas for the C14 theorems (Props/C14.lean) about the real-number instantiation of
templates/SunEvents.lean: the `Angle` mirrors are congruences modulo 360, `loopFuel` exits
through an exit step, a bound on `|sin x|` confines `x` near a multiple of π.
-/
namespace Pymeeus.Refine.SunEvents
open Pymeeus Pymeeus.PR Pymeeus.GenR.SunEvents

/-! ### loopFuel -/

/-- If the fuelled loop returns `r`, some state reached the exit branch with `r`. -/
theorem loopFuel_exit {σ ρ : Type} (step : σ → Sum σ ρ) :
    ∀ (n : Nat) (s : σ) (r : ρ), loopFuel step n s = some r → ∃ s', step s' = .inr r := by
  intro n
  induction n with
  | zero => intro s r h; simp [loopFuel] at h
  | succ n ih =>
    intro s r h
    unfold loopFuel at h
    cases hs : step s with
    | inl s' => rw [hs] at h; exact ih s' r h
    | inr r' =>
      rw [hs] at h
      simp only [Option.some.injEq] at h
      exact ⟨s, by rw [hs, h]⟩

/-! ### the Angle mirrors over ℝ -/

theorem aReduce_of_abs_lt {x : ℝ} (h : |x| < 360) : aReduce x = x := by
  unfold aReduce ple pabs
  have : ¬ ((360.0 : ℝ) ≤ |x|) := by norm_num; exact h
  simp only [this, decide_false]
  rfl

/-- `reduce_deg` changes its argument by a multiple of 360. -/
theorem aReduce_congr (x : ℝ) : ∃ n : ℤ, aReduce x = x - 360 * n := by
  unfold aReduce ple pabs
  by_cases h : (360.0 : ℝ) ≤ |x|
  · simp only [h, decide_true, if_true]
    have ha : (0 : ℝ) ≤ |x| := abs_nonneg x
    have htr : ptrunc |x| = ⌊|x|⌋ := by unfold ptrunc; simp [ha]
    have hmod : pmod |x| 1.0 = |x| - (⌊|x|⌋ : ℝ) := by
      unfold pmod; norm_num
    have hfm : imod ⌊|x|⌋ 360 = ⌊|x|⌋ - 360 * (⌊|x|⌋ / 360) := by
      unfold imod
      rw [Int.fmod_eq_emod_of_nonneg _ (by decide : (0:Int) ≤ 360), Int.emod_def]
    rw [htr, hmod, hfm]
    by_cases hx : (0.0 : ℝ) ≤ x
    · simp only [hx, decide_true, if_true]
      refine ⟨⌊|x|⌋ / 360, ?_⟩
      have : |x| = x := abs_of_nonneg (by norm_num at hx; exact hx)
      unfold ofInt
      push_cast
      rw [this]; norm_num; unfold Int.fract; ring
    · simp only [hx, decide_false]
      refine ⟨-(⌊|x|⌋ / 360), ?_⟩
      have : |x| = -x := abs_of_neg (by norm_num at hx; exact hx)
      unfold ofInt
      push_cast
      rw [this]; norm_num; unfold Int.fract; ring
  · simp only [h, decide_false]
    exact ⟨0, by simp⟩

/-- `reduce_deg` returns a value strictly inside one turn. -/
theorem aReduce_abs_lt (x : ℝ) : |aReduce x| < 360 := by
  unfold aReduce ple pabs
  by_cases h : (360.0 : ℝ) ≤ |x|
  · simp only [h, decide_true, if_true]
    have ha : (0 : ℝ) ≤ |x| := abs_nonneg x
    have htr : ptrunc |x| = ⌊|x|⌋ := by unfold ptrunc; simp [ha]
    have hmod : pmod |x| 1.0 = |x| - (⌊|x|⌋ : ℝ) := by unfold pmod; norm_num
    have hm0 : 0 ≤ imod ⌊|x|⌋ 360 := by
      unfold imod; rw [Int.fmod_eq_emod_of_nonneg _ (by decide : (0:Int) ≤ 360)]; exact Int.emod_nonneg _ (by decide)
    have hm1 : imod ⌊|x|⌋ 360 ≤ 359 := by
      unfold imod; rw [Int.fmod_eq_emod_of_nonneg _ (by decide : (0:Int) ≤ 360)]
      have := Int.emod_lt_of_pos ⌊|x|⌋ (by decide : (0:Int) < 360); omega
    have f0 := Int.floor_le |x|
    have f1 := Int.lt_floor_add_one |x|
    rw [htr, hmod]
    have hv0 : (0:ℝ) ≤ ofInt (imod ⌊|x|⌋ 360) + (|x| - (⌊|x|⌋ : ℝ)) := by
      have : (0:ℝ) ≤ ofInt (imod ⌊|x|⌋ 360) := by unfold ofInt; exact_mod_cast hm0
      linarith
    have hv1 : ofInt (imod ⌊|x|⌋ 360) + (|x| - (⌊|x|⌋ : ℝ)) < 360 := by
      have : ofInt (imod ⌊|x|⌋ 360) ≤ (359:ℝ) := by unfold ofInt; exact_mod_cast hm1
      linarith
    split_ifs
    · rw [abs_mul, abs_of_nonneg hv0]; norm_num; exact hv1
    · rw [abs_mul, abs_of_nonneg hv0]; norm_num; exact hv1
  · simp only [h, decide_false]
    norm_num at h; simpa using h

theorem aToPositive_congr (x : ℝ) : ∃ n : ℤ, aToPositive x = x - 360 * n := by
  unfold aToPositive plt ple pabs
  by_cases h : x < 0.0
  · have h0 : x < 0 := by norm_num at h; exact h
    have habs : |x| = -x := abs_of_neg h0
    have h2 : ¬ ((360.0 : ℝ) ≤ 360.0 - |x|) := by rw [habs]; norm_num; exact h0
    simp only [h, decide_true, if_true, h2, decide_false]
    exact ⟨-1, by rw [habs]; push_cast; norm_num; ring⟩
  · simp only [h, decide_false]
    exact ⟨0, by simp⟩

theorem aToPositive_range {x : ℝ} (h : |x| < 360) : 0 ≤ aToPositive x ∧ aToPositive x < 360 := by
  unfold aToPositive plt ple pabs
  rw [abs_lt] at h
  by_cases h0 : x < 0.0
  · have h0' : x < 0 := by norm_num at h0; exact h0
    have habs : |x| = -x := abs_of_neg h0'
    have h2 : ¬ ((360.0 : ℝ) ≤ 360.0 - |x|) := by rw [habs]; norm_num; exact h0'
    simp only [h0, decide_true, if_true, h2, decide_false]
    rw [habs]; norm_num; constructor <;> linarith
  · simp only [h0, decide_false]
    norm_num at h0
    exact ⟨h0, h.2⟩

/-! ### trigonometry -/

/-- `|sin x| ≤ s` confines `x` to within `arcsin s` of a multiple of π (and says nothing about
    which multiple). -/
theorem near_int_mul_pi_of_abs_sin_le {x s : ℝ} (h : |Real.sin x| ≤ s) :
    ∃ m : ℤ, |x - m * Real.pi| ≤ Real.arcsin s := by
  have hpi : 0 < Real.pi := Real.pi_pos
  refine ⟨round (x / Real.pi), ?_⟩
  set m : ℤ := round (x / Real.pi) with hm
  have hy : |x - m * Real.pi| ≤ Real.pi / 2 := by
    have h1 := abs_sub_round (x / Real.pi)
    rw [← hm] at h1
    have h2 : x - m * Real.pi = (x / Real.pi - m) * Real.pi := by field_simp
    rw [h2, abs_mul, abs_of_pos hpi]
    calc |x / Real.pi - ↑m| * Real.pi ≤ (1 / 2) * Real.pi := by
          exact mul_le_mul_of_nonneg_right h1 hpi.le
      _ = Real.pi / 2 := by ring
  have hsin : |Real.sin (x - m * Real.pi)| = |Real.sin x| := by
    rw [Real.sin_sub_int_mul_pi, abs_mul, abs_zpow, abs_neg, abs_one, one_zpow, one_mul]
  have hyl := neg_le_of_abs_le hy
  have hyu := le_of_abs_le hy
  have hasin : Real.arcsin (Real.sin (x - m * Real.pi)) = x - m * Real.pi :=
    Real.arcsin_sin (by linarith) (by linarith)
  have hle : |Real.sin (x - m * Real.pi)| ≤ s := by rw [hsin]; exact h
  have h1 : Real.arcsin (Real.sin (x - m * Real.pi)) ≤ Real.arcsin s :=
    Real.monotone_arcsin (le_of_abs_le hle)
  have h2 : Real.arcsin (-s) ≤ Real.arcsin (Real.sin (x - m * Real.pi)) :=
    Real.monotone_arcsin (neg_le_of_abs_le hle)
  rw [Real.arcsin_neg] at h2
  rw [hasin] at h1 h2
  exact abs_le.mpr ⟨h2, h1⟩

/-! ### the season iteration -/

/-- The angle the correction is the sine of is `k·90° − λ` up to whole turns, whatever `λ`. -/
theorem season_arg_congr (k : Int) (lon : ℝ) :
    ∃ n : ℤ, season_arg k lon = (k : ℝ) * 90 - lon - 360 * n := by
  unfold season_arg aNeg aSubF aAdd
  obtain ⟨n1, h1⟩ := aToPositive_congr lon
  obtain ⟨n2, h2⟩ := aReduce_congr (aToPositive lon + -(ofInt k * 90.0))
  obtain ⟨n3, h3⟩ := aReduce_congr (-aReduce (aToPositive lon + -(ofInt k * 90.0)))
  refine ⟨n3 - n1 - n2, ?_⟩
  rw [h3, h2, h1]
  unfold ofInt
  push_cast
  norm_num
  ring

/-- Shape of an exit of one pass of the season loop. -/
theorem season_step_exit {mk : ℝ → PyRes ℝ} {sunLon : ℝ → ℝ} {k : Int} {s e : ℝ}
    (h : season_step mk sunLon k s = .inr (.ok e)) :
    ∃ e', mk (s + season_corr k (sunLon s)) = .ok e' ∧ mk (e' - season_corr k (sunLon s)) = .ok e ∧
      |season_corr k (sunLon s)| ≤ 0.0000025 := by
  unfold season_step at h
  simp only at h
  cases hmk : mk (s + season_corr k (sunLon s)) with
  | error err => rw [hmk] at h; simp at h
  | ok e' =>
    rw [hmk] at h
    simp only at h
    by_cases hc : plt 0.0000025 (pabs (season_corr k (sunLon s))) = true
    · rw [if_pos hc] at h; simp at h
    · rw [if_neg hc] at h
      simp only [Sum.inr.injEq] at h
      refine ⟨e', rfl, h, ?_⟩
      unfold plt pabs at hc
      simpa using hc

/-- With a total constructor a pass of the season loop never exits with an exception. -/
theorem season_step_no_error {mk : ℝ → PyRes ℝ} (hmk : ∀ x, ∃ y, mk x = .ok y) (sunLon : ℝ → ℝ) (k : Int)
    (s : ℝ) (err : PyErr) : season_step mk sunLon k s ≠ .inr (.error err) := by
  unfold season_step
  simp only
  obtain ⟨e', he'⟩ := hmk (s + season_corr k (sunLon s))
  rw [he']
  simp only
  split_ifs
  · simp
  · obtain ⟨e'', he''⟩ := hmk (e' - season_corr k (sunLon s))
    rw [he'']; simp

theorem season_jde0_ok {year k : Int} (hy : -1000 ≤ year ∧ year ≤ 3000) : ∃ j, season_jde0 year k = .ok j := by
  unfold season_jde0
  by_cases h1 : year ≥ -1000 ∧ year < 1000
  · simp only [h1, and_self, if_true]
    split_ifs <;> exact ⟨_, rfl⟩
  · have h2 : year ≥ 1000 ∧ year ≤ 3000 := by omega
    simp only [h1, h2, and_self, if_true, if_false]
    split_ifs <;> exact ⟨_, rfl⟩

/-! ### equation of time -/

theorem aReduce_zero : aReduce 0 = 0 := aReduce_of_abs_lt (by norm_num)

/-- `round` (ties to even) is within one half of its argument. -/
theorem roundHE_near (q : ℝ) : |q - ((roundHE q : ℤ) : ℝ)| ≤ 1 / 2 := by
  have h0 := Int.floor_le q
  have h1 := Int.lt_floor_add_one q
  unfold roundHE pfloor plt ofInt
  simp only
  by_cases a : q - ((⌊q⌋ : ℤ) : ℝ) < 1 / 2
  · rw [if_pos (by simpa using a), abs_le]; constructor <;> linarith
  · rw [if_neg (by simpa using a)]
    by_cases b : (1 : ℝ) / 2 < q - ((⌊q⌋ : ℤ) : ℝ)
    · rw [if_pos (by simpa using b), abs_le]; push_cast; constructor <;> linarith
    · rw [if_neg (by simpa using b)]
      have e : q - ((⌊q⌋ : ℤ) : ℝ) = 1 / 2 := le_antisymm (not_lt.mp b) (not_lt.mp a)
      split_ifs
      · rw [e, abs_of_pos (by norm_num)]
      · push_cast; rw [abs_le]; constructor <;> linarith

/-- `x - 360.0 * round(x / 360.0)` lands in [−180, 180] and differs from `x` by whole turns. -/
theorem wrap180_range (x : ℝ) :
    -180 ≤ wrap180 x ∧ wrap180 x ≤ 180 ∧ ∃ n : ℤ, wrap180 x = x - 360 * n := by
  have h := abs_le.mp (roundHE_near (x / 360.0))
  have e : x / 360.0 = x / 360 := by norm_num
  rw [e] at h
  unfold wrap180 ofInt
  rw [e]
  refine ⟨?_, ?_, roundHE (x / 360), by norm_num⟩ <;> norm_num <;> linarith [h.1, h.2]

/-- `int(x)` and `abs(x) % 1` split `|x|` into integer part and fraction. -/
theorem ptrunc_abs (x : ℝ) : |((ptrunc x : ℤ) : ℝ)| = ((⌊|x|⌋ : ℤ) : ℝ) := by
  unfold ptrunc
  by_cases h : 0 ≤ x
  · simp only [h, if_true]
    rw [abs_of_nonneg h, abs_of_nonneg (by exact_mod_cast Int.floor_nonneg.mpr h)]
  · simp only [h, if_false]
    rw [not_le] at h
    have h' : 0 ≤ -x := by linarith
    rw [abs_of_neg h]
    push_cast
    rw [abs_neg, abs_of_nonneg (by exact_mod_cast Int.floor_nonneg.mpr h')]

theorem pmod_one (a : ℝ) : pmod a 1.0 = a - ((⌊a⌋ : ℤ) : ℝ) := by
  unfold pmod; norm_num

theorem ptrunc_sign (x : ℝ) :
    (1 ≤ x → 1 ≤ ptrunc x) ∧ (x ≤ -1 → ptrunc x ≤ -1) ∧ (|x| < 1 → ptrunc x = 0) := by
  unfold ptrunc
  refine ⟨fun h => ?_, fun h => ?_, fun h => ?_⟩
  · have h0 : 0 ≤ x := by linarith
    simp only [h0, if_true]
    exact Int.le_floor.mpr (by exact_mod_cast h)
  · have h0 : ¬ 0 ≤ x := by linarith
    simp only [h0, if_false]
    have : 1 ≤ ⌊-x⌋ := Int.le_floor.mpr (by push_cast; linarith)
    omega
  · rw [abs_lt] at h
    by_cases h0 : 0 ≤ x
    · simp only [h0, if_true]
      exact Int.floor_eq_iff.mpr ⟨by simpa using h0, by simpa using h.2⟩
    · simp only [h0, if_false]
      rw [not_le] at h0
      have : ⌊-x⌋ = 0 := Int.floor_eq_iff.mpr ⟨by push_cast; linarith, by push_cast; linarith⟩
      omega

/-! ### sunrise equation -/

/-- The hour-angle cosine of the sunrise equation is in [−1, 1] when latitude plus declination
    stay `−c0` short of the pole (`c0 ≤ 0` the standard altitude, radians). -/
theorem cos_om_bounds {φ δ c0 : ℝ} (hc0 : c0 ≤ 0) (hc0' : -(Real.pi / 2) ≤ c0)
    (hφδ : |φ| + |δ| ≤ Real.pi / 2 + c0) (hcos : 0 < Real.cos φ * Real.cos δ) :
    |(Real.sin c0 - Real.sin φ * Real.sin δ) / (Real.cos φ * Real.cos δ)| ≤ 1 := by
  have hpi := Real.pi_pos
  rw [abs_le]
  constructor
  · rw [le_div_iff₀ hcos]
    -- cos(φ+δ) ≥ cos(π/2 + c0) = −sin c0
    have h1 : |φ + δ| ≤ Real.pi / 2 + c0 := le_trans (abs_add_le φ δ) hφδ
    have h2 : Real.cos (Real.pi / 2 + c0) ≤ Real.cos |φ + δ| :=
      Real.cos_le_cos_of_nonneg_of_le_pi (abs_nonneg _) (by linarith) h1
    rw [Real.cos_abs, Real.cos_add, Real.cos_add] at h2
    simp only [Real.cos_pi_div_two, Real.sin_pi_div_two] at h2
    linarith
  · rw [div_le_one hcos]
    have h1 : |φ - δ| ≤ Real.pi / 2 := by
      have : |φ - δ| ≤ |φ| + |δ| := abs_sub φ δ
      linarith
    have h2 : 0 ≤ Real.cos (φ - δ) :=
      Real.cos_nonneg_of_mem_Icc ⟨neg_le_of_abs_le h1, le_of_abs_le h1⟩
    rw [Real.cos_sub] at h2
    have h3 : Real.sin c0 ≤ 0 := Real.sin_nonpos_of_nonpos_of_neg_pi_le hc0 (by linarith)
    linarith

/-- `δ = asin(sin λ · sin ε)` stays within `ε` of the equator (`0 ≤ ε ≤ π/2`). -/
theorem abs_arcsin_mul_le {l ε : ℝ} (h0 : 0 ≤ ε) (h1 : ε ≤ Real.pi / 2) :
    |Real.arcsin (Real.sin l * Real.sin ε)| ≤ ε := by
  have hs : 0 ≤ Real.sin ε := Real.sin_nonneg_of_nonneg_of_le_pi h0 (by linarith [Real.pi_pos])
  have hb : |Real.sin l * Real.sin ε| ≤ Real.sin ε := by
    rw [abs_mul, abs_of_nonneg hs]
    calc |Real.sin l| * Real.sin ε ≤ 1 * Real.sin ε := mul_le_mul_of_nonneg_right (Real.abs_sin_le_one l) hs
      _ = Real.sin ε := one_mul _
  have hε : Real.arcsin (Real.sin ε) = ε := Real.arcsin_sin (by linarith) h1
  rw [abs_le]
  constructor
  · have := Real.monotone_arcsin (neg_le_of_abs_le hb)
    rw [Real.arcsin_neg, hε] at this; exact this
  · have := Real.monotone_arcsin (le_of_abs_le hb)
    rw [hε] at this; exact this

/-- The hour-angle cosine of the sunrise equation is below −1 as soon as latitude plus declination
    exceed 90° + c0 (midnight sun of the point at altitude `c0`). -/
theorem cos_om_lt_neg_one {φ δ c0 : ℝ} (hc0' : -(Real.pi / 2) ≤ c0)
    (h1 : Real.pi / 2 + c0 < φ + δ) (h2 : φ + δ ≤ Real.pi) (hcos : 0 < Real.cos φ * Real.cos δ) :
    (Real.sin c0 - Real.sin φ * Real.sin δ) / (Real.cos φ * Real.cos δ) < -1 := by
  rw [div_lt_iff₀ hcos]
  have h : Real.cos (φ + δ) < Real.cos (Real.pi / 2 + c0) :=
    Real.cos_lt_cos_of_nonneg_of_le_pi (by linarith) h2 h1
  rw [Real.cos_add, Real.cos_add] at h
  simp only [Real.cos_pi_div_two, Real.sin_pi_div_two] at h
  linarith

/-- Lower half of `cos_om_bounds` under the sharp hypothesis on `|φ + δ|`. -/
theorem cos_om_ge_neg_one {φ δ c0 : ℝ} (hc0 : c0 ≤ 0) (h : |φ + δ| ≤ Real.pi / 2 + c0)
    (hcos : 0 < Real.cos φ * Real.cos δ) :
    -1 ≤ (Real.sin c0 - Real.sin φ * Real.sin δ) / (Real.cos φ * Real.cos δ) := by
  have hpi := Real.pi_pos
  rw [le_div_iff₀ hcos]
  have h2 : Real.cos (Real.pi / 2 + c0) ≤ Real.cos |φ + δ| :=
    Real.cos_le_cos_of_nonneg_of_le_pi (abs_nonneg _) (by linarith) h
  rw [Real.cos_abs, Real.cos_add, Real.cos_add] at h2
  simp only [Real.cos_pi_div_two, Real.sin_pi_div_two] at h2
  linarith

/-- Upper half: the polar-night side never occurs while `|φ − δ| ≤ 90°`. -/
theorem cos_om_le_one {φ δ c0 : ℝ} (hc0 : c0 ≤ 0) (hc0' : -Real.pi ≤ c0) (h : |φ - δ| ≤ Real.pi / 2)
    (hcos : 0 < Real.cos φ * Real.cos δ) :
    (Real.sin c0 - Real.sin φ * Real.sin δ) / (Real.cos φ * Real.cos δ) ≤ 1 := by
  rw [div_le_one hcos]
  have h2 : 0 ≤ Real.cos (φ - δ) := Real.cos_nonneg_of_mem_Icc ⟨neg_le_of_abs_le h, le_of_abs_le h⟩
  rw [Real.cos_sub] at h2
  have h3 : Real.sin c0 ≤ 0 := Real.sin_nonpos_of_nonpos_of_neg_pi_le hc0 hc0'
  linarith

/-- `cos_om_lt_neg_one` for either hemisphere: only `|φ + δ|` matters. -/
theorem cos_om_lt_neg_one_abs {φ δ c0 : ℝ} (hc0' : -(Real.pi / 2) ≤ c0)
    (h1 : Real.pi / 2 + c0 < |φ + δ|) (h2 : |φ + δ| ≤ Real.pi) (hcos : 0 < Real.cos φ * Real.cos δ) :
    (Real.sin c0 - Real.sin φ * Real.sin δ) / (Real.cos φ * Real.cos δ) < -1 := by
  rw [div_lt_iff₀ hcos]
  have h : Real.cos |φ + δ| < Real.cos (Real.pi / 2 + c0) :=
    Real.cos_lt_cos_of_nonneg_of_le_pi (by linarith) h2 h1
  rw [Real.cos_abs, Real.cos_add, Real.cos_add] at h
  simp only [Real.cos_pi_div_two, Real.sin_pi_div_two] at h
  linarith

/-- The `acos` argument of the sunrise equation for a latitude the code accepts and a declination
    within ±23.44°: its denominator is positive, and it is out of range exactly in the midnight-sun
    region `|φ + δ| > 90° − 0.83° − dip` (never on the polar-night side). -/
theorem rise_region_iff (lat alt δ : ℝ) (hlat : |lat| ≤ 66.55) (_halt : 0 ≤ alt)
    (hdip : 0.83 + 2.076 * Real.sqrt alt / 60 ≤ 90) (hδ : |δ| ≤ 23.44 * (Real.pi / 180)) :
    0 < Real.cos (lat * (Real.pi / 180)) * Real.cos δ ∧
    (1 < |rise_cos_om lat (Real.sin δ) (Real.cos δ) alt| ↔
      90 - 0.83 - 2.076 * Real.sqrt alt / 60 < |lat + δ * (180 / Real.pi)|) := by
  have hpi := Real.pi_pos
  have hsq := Real.sqrt_nonneg alt
  have hl := abs_le.mp hlat
  have hδl := abs_le.mp hδ
  have hφb : -(66.55 * (Real.pi / 180)) ≤ lat * (Real.pi / 180) ∧ lat * (Real.pi / 180) ≤ 66.55 * (Real.pi / 180) := by
    constructor <;> nlinarith [hl.1, hl.2]
  have hcφ : 0 < Real.cos (lat * (Real.pi / 180)) :=
    Real.cos_pos_of_mem_Ioo ⟨by nlinarith [hφb.1], by nlinarith [hφb.2]⟩
  have hcδ : 0 < Real.cos δ := Real.cos_pos_of_mem_Ioo ⟨by nlinarith [hδl.1], by nlinarith [hδl.2]⟩
  have hcos := mul_pos hcφ hcδ
  refine ⟨hcos, ?_⟩
  obtain ⟨c0, hc0v⟩ : ∃ c0 : ℝ, c0 = (-0.83 - 2.076 * Real.sqrt alt / 60) * (Real.pi / 180) := ⟨_, rfl⟩
  have hc0le : c0 ≤ 0 := by
    rw [hc0v]; apply mul_nonpos_of_nonpos_of_nonneg _ (by positivity)
    linarith [show (0:ℝ) ≤ 2.076 * Real.sqrt alt / 60 by positivity]
  have hc0ge : -(Real.pi / 2) ≤ c0 := by
    rw [hc0v]
    have : (0.83 + 2.076 * Real.sqrt alt / 60) * (Real.pi / 180) ≤ 90 * (Real.pi / 180) :=
      mul_le_mul_of_nonneg_right hdip (by positivity)
    linarith
  have hco : rise_cos_om lat (Real.sin δ) (Real.cos δ) alt =
      (Real.sin c0 - Real.sin (lat * (Real.pi / 180)) * Real.sin δ) / (Real.cos (lat * (Real.pi / 180)) * Real.cos δ) := by
    unfold rise_cos_om rise_h0 psin pcos pradians psqrt
    rw [hc0v]; norm_num
  obtain ⟨φ, hφv⟩ : ∃ φ : ℝ, φ = lat * (Real.pi / 180) := ⟨_, rfl⟩
  rw [← hφv] at hco hcos hφb
  rw [hco]
  have hsub : |φ - δ| ≤ Real.pi / 2 := by
    rw [abs_le]; constructor <;> nlinarith [hφb.1, hφb.2, hδl.1, hδl.2]
  have hle1 := cos_om_le_one hc0le (by linarith) hsub hcos
  have hsumv : φ + δ = (lat + δ * (180 / Real.pi)) * (Real.pi / 180) := by rw [hφv]; field_simp
  have hreg : (90 - 0.83 - 2.076 * Real.sqrt alt / 60 < |lat + δ * (180 / Real.pi)|) ↔
      Real.pi / 2 + c0 < |φ + δ| := by
    rw [hsumv, abs_mul, abs_of_pos (by positivity : (0:ℝ) < Real.pi / 180), hc0v]
    constructor
    · intro h
      have := mul_lt_mul_of_pos_right h (by positivity : (0:ℝ) < Real.pi / 180)
      linarith
    · intro h
      by_contra hn
      rw [not_lt] at hn
      have := mul_le_mul_of_nonneg_right hn (by positivity : (0:ℝ) ≤ Real.pi / 180)
      linarith
  have hsumpi : |φ + δ| ≤ Real.pi := by
    rw [abs_le]; constructor <;> nlinarith [hφb.1, hφb.2, hδl.1, hδl.2]
  rw [hreg]
  constructor
  · intro h
    by_contra hR
    have hge := cos_om_ge_neg_one hc0le (not_lt.mp hR) hcos
    exact absurd (abs_le.mpr ⟨hge, hle1⟩) (not_le.mpr h)
  · intro hR
    have hlt := cos_om_lt_neg_one_abs hc0ge hR hsumpi hcos
    rw [abs_of_neg (by linarith)]; linarith

theorem rise_limit_val : rise_limit = 66.55 := by
  unfold rise_limit; rw [aReduce_of_abs_lt (by norm_num)]; norm_num
theorem aNeg_rise_limit : aNeg rise_limit = -66.55 := by
  rw [rise_limit_val]; unfold aNeg; exact aReduce_of_abs_lt (by norm_num)

/-! ### check_value of times_rise_transit_set -/

theorem rts_check_step_neg {m : ℝ} (h : m < 0) : rts_check_step m = .inl (m + 1) := by
  unfold rts_check_step plt
  have : m < 0.0 := by norm_num; exact h
  simp only [this, decide_true, Bool.true_or, if_true]
  norm_num

theorem rts_check_step_gt {m : ℝ} (h : 1 < m) : rts_check_step m = .inl (m - 1) := by
  unfold rts_check_step plt
  have h1 : (1.0 : ℝ) < m := by norm_num; exact h
  have h0 : ¬ m < 0.0 := by norm_num; linarith
  simp only [h1, h0, decide_true, decide_false, Bool.false_or, if_true, Bool.false_eq_true, if_false]
  norm_num

theorem rts_check_step_mid {m : ℝ} (h0 : 0 ≤ m) (h1 : m ≤ 1) : rts_check_step m = .inr m := by
  unfold rts_check_step plt
  have a : ¬ (1.0 : ℝ) < m := by norm_num; exact h1
  have b : ¬ m < 0.0 := by norm_num; exact h0
  simp only [a, b, decide_false, Bool.or_self, Bool.false_eq_true, if_false]

theorem rts_check_loop (n : ℕ) : ∀ m : ℝ, -(n : ℝ) ≤ m → m ≤ n + 1 →
    ∃ r, loopFuel rts_check_step (n + 1) m = some r ∧ 0 ≤ r ∧ r ≤ 1 ∧ ∃ k : ℤ, r = m + k := by
  induction n with
  | zero =>
    intro m h0 h1
    norm_num at h0 h1
    exact ⟨m, by unfold loopFuel; rw [rts_check_step_mid h0 h1], h0, h1, 0, by simp⟩
  | succ n ih =>
    intro m hlo hhi
    push_cast at hlo hhi
    by_cases hneg : m < 0
    · obtain ⟨r, hr, r0, r1, k, hk⟩ := ih (m + 1) (by linarith) (by linarith)
      refine ⟨r, ?_, r0, r1, k + 1, by rw [hk]; push_cast; ring⟩
      rw [loopFuel, rts_check_step_neg hneg]; exact hr
    · rw [not_lt] at hneg
      by_cases hgt : 1 < m
      · obtain ⟨r, hr, r0, r1, k, hk⟩ := ih (m - 1) (by linarith [Nat.cast_nonneg (α := ℝ) n]) (by linarith)
        refine ⟨r, ?_, r0, r1, k - 1, by rw [hk]; push_cast; ring⟩
        rw [loopFuel, rts_check_step_gt hgt]; exact hr
      · rw [not_lt] at hgt
        exact ⟨m, by rw [loopFuel, rts_check_step_mid hneg hgt], hneg, hgt, 0, by simp⟩

/-! ### interpolation -/

theorem roundHE_zero {q : ℝ} (h : |q| < 1 / 2) : roundHE q = 0 := by
  rw [abs_lt] at h
  unfold roundHE pfloor plt ofInt
  by_cases h0 : 0 ≤ q
  · have hf : ⌊q⌋ = 0 := Int.floor_eq_iff.mpr ⟨by simpa using h0, by push_cast; linarith⟩
    simp only [hf]
    have : q - ((0 : ℤ) : ℝ) < 1 / 2 := by push_cast; linarith
    rw [if_pos (by simpa using this)]
  · rw [not_le] at h0
    have hf : ⌊q⌋ = -1 := Int.floor_eq_iff.mpr ⟨by push_cast; linarith, by push_cast; linarith⟩
    simp only [hf]
    have a : ¬ (q - ((-1 : ℤ) : ℝ) < 1 / 2) := by push_cast; linarith
    have b : (1 : ℝ) / 2 < q - ((-1 : ℤ) : ℝ) := by push_cast; linarith
    rw [if_neg (by simpa using a), if_pos (by simpa using b)]
    norm_num

/-- The angle bound of the season loop in degrees: `arcsin(0.0000025/58)` is below 2.5·10⁻⁶ degree. -/
theorem season_angle_bound : Real.arcsin (0.0000025 / 58) * (180 / Real.pi) ≤ 0.0000025 := by
  have hpi := Real.pi_pos
  have hlo := Real.pi_gt_d2
  have hhi := Real.pi_lt_d2
  set c : ℝ := 0.0000025 * (Real.pi / 180) with hc
  have hc0 : 0 < c := by rw [hc]; positivity
  have hclo : 0.0000000436 ≤ c := by rw [hc]; nlinarith
  have hchi : c ≤ 0.000000044 := by rw [hc]; nlinarith
  have hsin : c - c ^ 3 / 6 < Real.sin c := Real.sin_gt_sub_cube hc0
  have hc3 : c ^ 3 ≤ 0.000000044 ^ 3 := pow_le_pow_left₀ hc0.le hchi 3
  have hx : (0.0000025 / 58 : ℝ) ≤ Real.sin c := by
    have : (0.0000025 / 58 : ℝ) ≤ c - c ^ 3 / 6 := by norm_num at hc3 ⊢; linarith
    linarith
  have h1 : Real.arcsin (0.0000025 / 58) ≤ Real.arcsin (Real.sin c) := Real.monotone_arcsin hx
  rw [Real.arcsin_sin (by linarith) (by linarith)] at h1
  calc Real.arcsin (0.0000025 / 58) * (180 / Real.pi) ≤ c * (180 / Real.pi) :=
        mul_le_mul_of_nonneg_right h1 (by positivity)
    _ = 0.0000025 := by rw [hc]; field_simp

/-! ### the passes of times_rise_transit_set -/

theorem rts_check_value_range {m r : ℝ} (h : rts_check_value m = some r) : 0 ≤ r ∧ r ≤ 1 := by
  unfold rts_check_value at h
  obtain ⟨s', hs'⟩ := loopFuel_exit _ _ _ _ h
  by_cases hn : s' < 0
  · rw [rts_check_step_neg hn] at hs'; simp at hs'
  · by_cases hg : 1 < s'
    · rw [rts_check_step_gt hg] at hs'; simp at hs'
    · rw [rts_check_step_mid (not_lt.mp hn) (not_lt.mp hg)] at hs'
      simp only [Sum.inr.injEq] at hs'
      rw [← hs']; exact ⟨not_lt.mp hn, not_lt.mp hg⟩

theorem rts_check_value_mid {m : ℝ} (h0 : 0 ≤ m) (h1 : m ≤ 1) : rts_check_value m = some m := by
  unfold rts_check_value loopFuel
  rw [rts_check_step_mid h0 h1]

/-- One pass moves the transit estimate by at most half a day. -/
theorem rts_iter_transit_bound {lon lat a1 d1 a2 d2 a3 d3 h0 dt th0 m0 m1 m2 n0 n1 n2 : ℝ}
    (h : rts_iter lon lat a1 d1 a2 d2 a3 d3 h0 dt th0 (m0, m1, m2) = .ok (n0, n1, n2)) :
    |n0 - m0| ≤ 1 / 2 := by
  unfold rts_iter at h
  simp only at h
  split at h <;> try (simp at h; done)
  split at h <;> try (simp at h; done)
  split at h <;> try (simp at h; done)
  split at h <;> try (simp at h; done)
  simp only [Except.ok.injEq, Prod.mk.injEq] at h
  obtain ⟨h0', _, _⟩ := h
  rw [← h0']
  obtain ⟨hl, hu, _⟩ := wrap180_range
    (aSub (aSub (aAdd th0 (360.985647 * m0)) lon) (rts_interpol (m0 + dt / 86400.0) a1 a2 a3))
  rw [abs_le]
  constructor <;> norm_num <;> linarith

/-- The hour angle `H0` of the start estimates is in [0°, 180°]. -/
theorem rts_hh0_range (c : ℝ) :
    0 ≤ aToPositive (aOfRadians (pacos c)) ∧ aToPositive (aOfRadians (pacos c)) ≤ 180 := by
  have hpi := Real.pi_pos
  have h0 : 0 ≤ pdegrees (pacos c) := by
    unfold pdegrees pacos; exact mul_nonneg (Real.arccos_nonneg c) (by positivity)
  have h1 : pdegrees (pacos c) ≤ 180 := by
    unfold pdegrees pacos
    calc Real.arccos c * (180 / Real.pi) ≤ Real.pi * (180 / Real.pi) :=
          mul_le_mul_of_nonneg_right (Real.arccos_le_pi c) (by positivity)
      _ = 180 := by field_simp
  have hr : aOfRadians (pacos c) = pdegrees (pacos c) := by
    unfold aOfRadians; exact aReduce_of_abs_lt (by rw [abs_lt]; constructor <;> linarith)
  have hp : aToPositive (pdegrees (pacos c)) = pdegrees (pacos c) := by
    unfold aToPositive plt
    have : ¬ (pdegrees (pacos c) < 0.0) := by norm_num; exact h0
    simp only [this, decide_false]; rfl
  rw [hr, hp]; exact ⟨h0, h1⟩

/-- Anatomy of a successful `rts_times`: the three start estimates (`check_value` of
    `m0`, `m0 ∓ H0/360`), two passes, the results in hours. -/
theorem rts_times_ok {lon lat a1 d1 a2 d2 a3 d3 h0 dt th0 c r t s : ℝ}
    (h : rts_times lon lat a1 d1 a2 d2 a3 d3 h0 dt th0 c = .ok (r, t, s)) :
    ∃ m0 b0 b1 b2 s1 n0 n1 n2,
      aDivF (aSub (aAdd a2 lon) th0) 360.0 = .ok m0 ∧
      rts_check_value m0 = some b0 ∧
      rts_check_value (m0 - aToPositive (aOfRadians (pacos c)) / 360.0) = some b1 ∧
      rts_check_value (m0 + aToPositive (aOfRadians (pacos c)) / 360.0) = some b2 ∧
      rts_iter lon lat a1 d1 a2 d2 a3 d3 h0 dt th0 (b0, b1, b2) = .ok s1 ∧
      rts_iter lon lat a1 d1 a2 d2 a3 d3 h0 dt th0 s1 = .ok (n0, n1, n2) ∧
      r = n1 * 24 ∧ t = n0 * 24 ∧ s = n2 * 24 := by
  unfold rts_times at h
  simp only at h
  cases hm : aDivF (aSub (aAdd a2 lon) th0) 360.0 with
  | error e => rw [hm] at h; simp at h
  | ok m0 =>
    rw [hm] at h; simp only at h
    cases hb0 : rts_check_value m0 with
    | none => rw [hb0] at h; simp at h
    | some b0 =>
      cases hb1 : rts_check_value (m0 - aToPositive (aOfRadians (pacos c)) / 360.0) with
      | none => rw [hb0, hb1] at h; simp at h
      | some b1 =>
        cases hb2 : rts_check_value (m0 + aToPositive (aOfRadians (pacos c)) / 360.0) with
        | none => rw [hb0, hb1, hb2] at h; simp at h
        | some b2 =>
          rw [hb0, hb1, hb2] at h; simp only at h
          cases hs1 : rts_iter lon lat a1 d1 a2 d2 a3 d3 h0 dt th0 (b0, b1, b2) with
          | error e => rw [hs1] at h; simp at h
          | ok s1 =>
            rw [hs1] at h; simp only at h
            cases hs2 : rts_iter lon lat a1 d1 a2 d2 a3 d3 h0 dt th0 s1 with
            | error e => rw [hs2] at h; simp at h
            | ok s2 =>
              obtain ⟨n0, n1, n2⟩ := s2
              rw [hs2] at h
              simp only [Except.ok.injEq, Prod.mk.injEq] at h
              obtain ⟨hr, ht, hs⟩ := h
              refine ⟨m0, b0, b1, b2, s1, n0, n1, n2, rfl, hb0, hb1, hb2, hs1, hs2, ?_, ?_, ?_⟩ <;>
                [rw [← hr]; rw [← ht]; rw [← hs]] <;> norm_num

end Pymeeus.Refine.SunEvents
