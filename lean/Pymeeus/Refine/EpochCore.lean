import Pymeeus.Lemmas.Floor
import Pymeeus.Gen.Q.EpochCore
/-
Integer forms of the exact (Rat) model of the calendar core: every floor of a decimal
expression is rewritten into an integer floor division.  These lemmas are the only place where
the shape of the model's arithmetic is visible; the property theorems use the integer forms.
-/
namespace Pymeeus.Refine
open Pymeeus Pymeeus.PQ Pymeeus.GenQ

/-- Julian-calendar test on integers (shifted or unshifted year/month). -/
def isJulianI (y m d : Int) : Bool :=
  decide (y < 1582) || (decide (y = 1582) && decide (m < 10)) ||
    (decide (y = 1582) && decide (m = 10) && decide (d < 5))

theorem is_julian_int (y m d : Int) : is_julian y m (ofInt d) = isJulianI y m d := by
  unfold is_julian isJulianI plt ofInt
  have : ((d : ℚ) < 5.0) ↔ d < 5 := by
    rw [show (5.0 : ℚ) = ((5 : ℤ) : ℚ) by norm_num]; exact_mod_cast Iff.rfl
  simp only [this]

/-- Integer day number: `compute_jde y m d = jdnI y m d - 1/2` for an integer day. -/
def jdnI (y m d : Int) : Int :=
  let y' := if m ≤ 2 then y - 1 else y
  let m' := if m ≤ 2 then m + 12 else m
  let a := y' / 100
  let b := if isJulianI y' m' d then 0 else 2 - a + a / 4
  (1461 * (y' + 4716)) / 4 + (306001 * (m' + 1)) / 10000 + d + b - 1524

theorem floor_y100 (y : Int) : pfloor (ofInt y / 100.0) = y / 100 := by
  unfold pfloor ofInt
  apply rat_floor_eq_div _ _ (by norm_num)
  norm_num

theorem floor_a4 (a : Int) : pfloor (ofInt a / 4.0) = a / 4 := by
  unfold pfloor ofInt
  apply rat_floor_eq_div _ _ (by norm_num)
  norm_num

theorem floor_36525 (y : Int) : pfloor (365.25 * (ofInt y + 4716.0)) = (1461 * (y + 4716)) / 4 := by
  unfold pfloor ofInt
  apply rat_floor_eq_div _ _ (by norm_num)
  norm_num; ring

theorem floor_306001 (m : Int) : pfloor (30.6001 * (ofInt m + 1.0)) = (306001 * (m + 1)) / 10000 := by
  unfold pfloor ofInt
  apply rat_floor_eq_div _ _ (by norm_num)
  norm_num; ring

/-- The Gregorian correction `b` of `_compute_jde` on integers (0 for a Julian-calendar date). -/
def corrI (y m d : Int) : Int :=
  let y' := if m ≤ 2 then y - 1 else y
  let m' := if m ≤ 2 then m + 12 else m
  if isJulianI y' m' d then 0 else 2 - y' / 100 + y' / 100 / 4

/-- Day number that `_compute_jde` produces for ANY triple: `jdnI`, with the Gregorian correction taken
    back when the result lies before the reform (`if jde < 2299160.5: jde -= b`).  For every date of
    the civil calendar this is `jdnI` (`jdnP_eq`); it differs only on 5..14 October 1582. -/
def jdnP (y m d : Int) : Int :=
  if jdnI y m d < 2299161 then jdnI y m d - corrI y m d else jdnI y m d

/-- the two values `_compute_jde` computes before its last test: `jde` and `b` -/
def preGuard (y m : Int) (d : ℚ) : ℚ × ℚ :=
  let (y, m) := if m ≤ 2 then (y - 1, m + 12) else (y, m)
  let a : Int := pfloor (ofInt y / 100.0)
  let b : ℚ := if !(is_julian y m (ofInt (pfloor d))) then 2.0 - ofInt a + ofInt (pfloor (ofInt a / 4.0)) else 0.0
  (ofInt (pfloor (365.25 * (ofInt y + 4716.0)) + pfloor (30.6001 * (ofInt m + 1.0))) + d + b - 1524.5, b)

theorem compute_jde_guard (y m : Int) (d : ℚ) :
    compute_jde y m d = if (preGuard y m d).1 < 2299160.5 then (preGuard y m d).1 - (preGuard y m d).2
      else (preGuard y m d).1 := by
  unfold compute_jde preGuard plt
  by_cases hm : m ≤ 2 <;> simp only [hm, if_true, if_false, decide_eq_true_eq]

theorem preGuard_frac (y m d : Int) (f : ℚ) (hfl : pfloor ((d : ℚ) + f) = d) :
    preGuard y m ((d : ℚ) + f) = ((jdnI y m d : ℚ) - 1 / 2 + f, (corrI y m d : ℚ)) := by
  unfold preGuard jdnI corrI
  by_cases hm : m ≤ 2
  · simp only [hm, if_true, hfl, is_julian_int, floor_y100, floor_a4, floor_36525, floor_306001]
    cases isJulianI (y - 1) (m + 12) d <;> norm_num [ofInt] <;> ring
  · simp only [hm, if_false, hfl, is_julian_int, floor_y100, floor_a4, floor_36525, floor_306001]
    cases isJulianI y m d <;> norm_num [ofInt] <;> ring

theorem guard_iff (N : Int) (f : ℚ) (h0 : 0 ≤ f) (h1 : f < 1) :
    ((N : ℚ) - 1 / 2 + f < 2299160.5) ↔ N < 2299161 := by
  constructor
  · intro h
    have : (N : ℚ) < 2299161 := by norm_num at h ⊢; linarith
    exact_mod_cast this
  · intro h
    have : (N : ℚ) ≤ 2299160 := by exact_mod_cast (by omega : N ≤ 2299160)
    norm_num; linarith

/-- General form, for ANY triple and day fraction: `_compute_jde` is `jdnP - 1/2 + f`. -/
theorem compute_jde_frac_gen (y m d : Int) (f : ℚ) (h0 : 0 ≤ f) (h1 : f < 1) :
    compute_jde y m ((d : ℚ) + f) = (jdnP y m d : ℚ) - 1 / 2 + f := by
  have hfl : pfloor ((d : ℚ) + f) = d := by
    unfold pfloor
    rw [rat_floor_eq_floor, Int.floor_eq_iff]
    constructor <;> linarith
  rw [compute_jde_guard, preGuard_frac y m d f hfl]
  simp only [guard_iff _ f h0 h1]
  unfold jdnP
  split_ifs <;> push_cast <;> ring

theorem compute_jde_int_gen (y m d : Int) : compute_jde y m (ofInt d) = (jdnP y m d : ℚ) - 1 / 2 := by
  have := compute_jde_frac_gen y m d 0 le_rfl (by norm_num)
  simpa [ofInt] using this

/-- The last test of `_compute_jde` never fires for a date outside 5..14 October 1582: a date the
    code takes as Gregorian lies on or after 15 October 1582, whose day number is 2299161. -/
theorem jdnP_eq (y m d : Int) (hm1 : 1 ≤ m) (hm12 : m ≤ 12) (hd1 : 1 ≤ d)
    (hgap : ¬ (y = 1582 ∧ m = 10 ∧ 5 ≤ d ∧ d ≤ 14)) : jdnP y m d = jdnI y m d := by
  unfold jdnP
  split_ifs with hlt
  · have hc : corrI y m d = 0 := by
      by_contra hne
      apply absurd hlt
      unfold corrI at hne
      unfold jdnI
      by_cases hm : m ≤ 2
      · simp only [hm, if_true] at hne ⊢
        cases hj : isJulianI (y - 1) (m + 12) d
        · simp only [Bool.false_eq_true, if_false]
          have hj' : ¬ (y - 1 < 1582 ∨ (y - 1 = 1582 ∧ m + 12 < 10) ∨ (y - 1 = 1582 ∧ m + 12 = 10 ∧ d < 5)) := by
            intro hh; simp [isJulianI] at hj; omega
          have hY : 1461 * (y - 1 + 4716) / 4 = 365 * (y - 1 + 4716) + (y - 1 + 4716) / 4 := by omega
          have h4 : (y - 1 + 4716) / 4 = 25 * ((y - 1) / 100) + 1179 + ((y - 1) % 100) / 4 := by omega
          have hT : 397 ≤ 306001 * (m + 12 + 1) / 10000 := by omega
          omega
        · simp [hj] at hne
      · simp only [hm, if_false] at hne ⊢
        cases hj : isJulianI y m d
        · simp only [Bool.false_eq_true, if_false]
          have hj' : ¬ (y < 1582 ∨ (y = 1582 ∧ m < 10) ∨ (y = 1582 ∧ m = 10 ∧ d < 5)) := by
            intro hh; simp [isJulianI] at hj; omega
          have hY : 1461 * (y + 4716) / 4 = 365 * (y + 4716) + (y + 4716) / 4 := by omega
          have h4 : (y + 4716) / 4 = 25 * (y / 100) + 1179 + (y % 100) / 4 := by omega
          have hT : 122 ≤ 306001 * (m + 1) / 10000 := by omega
          by_cases hy : y = 1582
          · subst hy
            have hm10 : 10 ≤ m := by omega
            have hT2 : m = 10 → 306001 * (m + 1) / 10000 = 336 := by intro h; subst h; decide
            have hT3 : 11 ≤ m → 367 ≤ 306001 * (m + 1) / 10000 := by intro h; omega
            omega
          · omega
        · simp [hj] at hne
    omega
  · rfl

/-- Integer form of the second half of `get_date` (from the calendar-corrected day number `a`). -/
def invA (a : Int) : Int × Int × Int :=
  let b := a + 1524
  let c := (20 * b - 2442) / 7305
  let d := (1461 * c) / 4
  let e := (10000 * (b - d)) / 306001
  (e, c, b - d - (306001 * e) / 10000)

/-- Integer form of the body of `get_date` at an instant `z - 1/2` (0h of a day): `(e, c, day)`. -/
def invI (z : Int) : Int × Int × Int :=
  invA (if z < 2299161 then z else
    let alpha := (4 * z - 7468865) / 146097
    z + 1 + alpha - alpha / 4)

/-- what `get_date` returns from `(e, c, day)` -/
def dateOf (t : Int × Int × Int) : PyRes (Int × Int × ℚ) :=
  let (e, c, day) := t
  if e < 14 ∨ e = 14 ∨ e = 15 then
    let month := if e < 14 then e - 1 else e - 13
    if month > 2 then .ok (c - 4716, month, (day : ℚ))
    else if month = 1 ∨ month = 2 then .ok (c - 4715, month, (day : ℚ))
    else .error .valueError
  else .error .valueError

theorem floor_alpha (z : Int) : pfloor ((ofInt z - 1867216.25) / 36524.25) = (4 * z - 7468865) / 146097 := by
  unfold pfloor ofInt
  apply rat_floor_eq_div _ _ (by norm_num)
  norm_num; ring

theorem floor_c (b : Int) : pfloor ((ofInt b - 122.1) / 365.25) = (20 * b - 2442) / 7305 := by
  unfold pfloor ofInt
  apply rat_floor_eq_div _ _ (by norm_num)
  norm_num; ring

theorem floor_d (c : Int) : pfloor (365.25 * ofInt c) = (1461 * c) / 4 := by
  unfold pfloor ofInt
  apply rat_floor_eq_div _ _ (by norm_num)
  norm_num; ring

theorem floor_e (x : Int) : pfloor (ofInt x / 30.6001) = (10000 * x) / 306001 := by
  unfold pfloor ofInt
  apply rat_floor_eq_div _ _ (by norm_num)
  norm_num; ring

theorem floor_e2 (e : Int) : pfloor (30.6001 * ofInt e) = (306001 * e) / 10000 := by
  unfold pfloor ofInt
  apply rat_floor_eq_div _ _ (by norm_num)
  norm_num; ring

theorem pmod_int_one (z : Int) : pmod (z : ℚ) 1.0 = 0 := by
  unfold pmod
  norm_num [Rat.floor_intCast]

theorem get_date_int (z : Int) : get_date ((z : ℚ) - 1 / 2) = dateOf (invI z) := by
  have h1 : ((z : ℚ) - 1 / 2 + 0.5) = ofInt z := by norm_num [ofInt]
  unfold get_date
  simp only [h1, pfloor_ofInt]
  rw [show pmod (ofInt z) 1.0 = 0 from pmod_int_one z]
  simp only [floor_alpha, floor_a4, floor_c, floor_d, floor_e, floor_e2]
  simp only [invI, invA, dateOf, ofInt, add_zero]

end Pymeeus.Refine
