import Pymeeus.Lemmas.Floor
import Pymeeus.Gen.Q.EpochCore
/-
Integer forms of the exact (Rat) model of the calendar core: every floor of a decimal
expression is rewritten into an integer floor division.  These lemmas are the only place where
the shape of the model's arithmetic is visible; the property theorems use the integer forms.
-/
namespace Pymeeus.Refine
open Pymeeus Pymeeus.PQ Pymeeus.GenQ

/-- Julian-calendar test on integers (shifted or unshifted year/month). -/
def isJulianI (y m d : Int) : Bool :=
  decide (y < 1582) || (decide (y = 1582) && decide (m < 10)) ||
    (decide (y = 1582) && decide (m = 10) && decide (d < 5))

theorem is_julian_int (y m d : Int) : is_julian y m (ofInt d) = isJulianI y m d := by
  unfold is_julian isJulianI plt ofInt
  have : ((d : ℚ) < 5.0) ↔ d < 5 := by
    rw [show (5.0 : ℚ) = ((5 : ℤ) : ℚ) by norm_num]; exact_mod_cast Iff.rfl
  simp only [this]

/-- Integer day number: `compute_jde y m d = jdnI y m d - 1/2` for an integer day. -/
def jdnI (y m d : Int) : Int :=
  let y' := if m ≤ 2 then y - 1 else y
  let m' := if m ≤ 2 then m + 12 else m
  let a := y' / 100
  let b := if isJulianI y' m' d then 0 else 2 - a + a / 4
  (1461 * (y' + 4716)) / 4 + (306001 * (m' + 1)) / 10000 + d + b - 1524

theorem floor_y100 (y : Int) : pfloor (ofInt y / 100.0) = y / 100 := by
  unfold pfloor ofInt
  apply rat_floor_eq_div _ _ (by norm_num)
  norm_num

theorem floor_a4 (a : Int) : pfloor (ofInt a / 4.0) = a / 4 := by
  unfold pfloor ofInt
  apply rat_floor_eq_div _ _ (by norm_num)
  norm_num

theorem floor_36525 (y : Int) : pfloor (365.25 * (ofInt y + 4716.0)) = (1461 * (y + 4716)) / 4 := by
  unfold pfloor ofInt
  apply rat_floor_eq_div _ _ (by norm_num)
  norm_num; ring

theorem floor_306001 (m : Int) : pfloor (30.6001 * (ofInt m + 1.0)) = (306001 * (m + 1)) / 10000 := by
  unfold pfloor ofInt
  apply rat_floor_eq_div _ _ (by norm_num)
  norm_num; ring

theorem compute_jde_int (y m d : Int) : compute_jde y m (ofInt d) = (jdnI y m d : ℚ) - 1 / 2 := by
  unfold compute_jde jdnI
  by_cases hm : m ≤ 2
  · simp only [hm, if_true, pfloor_ofInt, is_julian_int, floor_y100, floor_a4, floor_36525, floor_306001]
    cases isJulianI (y - 1) (m + 12) d <;> norm_num [ofInt] <;> ring
  · simp only [hm, if_false, pfloor_ofInt, is_julian_int, floor_y100, floor_a4, floor_36525, floor_306001]
    cases isJulianI y m d <;> norm_num [ofInt] <;> ring


/-- Integer form of the second half of `get_date` (from the calendar-corrected day number `a`). -/
def invA (a : Int) : Int × Int × Int :=
  let b := a + 1524
  let c := (20 * b - 2442) / 7305
  let d := (1461 * c) / 4
  let e := (10000 * (b - d)) / 306001
  (e, c, b - d - (306001 * e) / 10000)

/-- Integer form of the body of `get_date` at an instant `z - 1/2` (0h of a day): `(e, c, day)`. -/
def invI (z : Int) : Int × Int × Int :=
  invA (if z < 2299161 then z else
    let alpha := (4 * z - 7468865) / 146097
    z + 1 + alpha - alpha / 4)

/-- what `get_date` returns from `(e, c, day)` -/
def dateOf (t : Int × Int × Int) : PyRes (Int × Int × ℚ) :=
  let (e, c, day) := t
  if e < 14 ∨ e = 14 ∨ e = 15 then
    let month := if e < 14 then e - 1 else e - 13
    if month > 2 then .ok (c - 4716, month, (day : ℚ))
    else if month = 1 ∨ month = 2 then .ok (c - 4715, month, (day : ℚ))
    else .error .other
  else .error .other

theorem floor_alpha (z : Int) : pfloor ((ofInt z - 1867216.25) / 36524.25) = (4 * z - 7468865) / 146097 := by
  unfold pfloor ofInt
  apply rat_floor_eq_div _ _ (by norm_num)
  norm_num; ring

theorem floor_c (b : Int) : pfloor ((ofInt b - 122.1) / 365.25) = (20 * b - 2442) / 7305 := by
  unfold pfloor ofInt
  apply rat_floor_eq_div _ _ (by norm_num)
  norm_num; ring

theorem floor_d (c : Int) : pfloor (365.25 * ofInt c) = (1461 * c) / 4 := by
  unfold pfloor ofInt
  apply rat_floor_eq_div _ _ (by norm_num)
  norm_num; ring

theorem floor_e (x : Int) : pfloor (ofInt x / 30.6001) = (10000 * x) / 306001 := by
  unfold pfloor ofInt
  apply rat_floor_eq_div _ _ (by norm_num)
  norm_num; ring

theorem floor_e2 (e : Int) : pfloor (30.6001 * ofInt e) = (306001 * e) / 10000 := by
  unfold pfloor ofInt
  apply rat_floor_eq_div _ _ (by norm_num)
  norm_num; ring

theorem pmod_int_one (z : Int) : pmod (z : ℚ) 1.0 = 0 := by
  unfold pmod
  norm_num [Rat.floor_intCast]

theorem get_date_int (z : Int) : get_date ((z : ℚ) - 1 / 2) = dateOf (invI z) := by
  have h1 : ((z : ℚ) - 1 / 2 + 0.5) = ofInt z := by norm_num [ofInt]
  unfold get_date
  simp only [h1, pfloor_ofInt]
  rw [show pmod (ofInt z) 1.0 = 0 from pmod_int_one z]
  simp only [floor_alpha, floor_a4, floor_c, floor_d, floor_e, floor_e2]
  simp only [invI, invA, dateOf, ofInt, add_zero]

end Pymeeus.Refine
