import Pymeeus.Refine.Kepler
/-!
Helper lemmas for C11: closed forms of the algebraic two-body functions of `templates/Kepler.lean` on their
domains, and the elementary inequalities (AM-GM-HM, bounds on √2) used by the property theorems.
-/
noncomputable section
namespace Pymeeus.Refine.TwoBody
open Pymeeus Pymeeus.PR Pymeeus.GenR.Kepler Pymeeus.Refine.Kepler Real

theorem sqrt_two_gt : (1.41421 : ℝ) < Real.sqrt 2 := by
  rw [Real.lt_sqrt (by norm_num)]; norm_num
theorem sqrt_two_lt : Real.sqrt 2 < (1.41422 : ℝ) := by
  rw [Real.sqrt_lt' (by norm_num)]; norm_num

/-! ### speeds -/

theorem velocity_eq {r a : ℝ} (hr : 0 < r) (ha : 0 < a) (h : 0 ≤ 1 / r - 1 / (2 * a)) :
    velocity r a = .ok (42.1218 * Real.sqrt (1 / r - 1 / (2 * a))) := by
  have h2 : (2.0 : ℝ) * a ≠ 0 := by norm_num; exact ha.ne'
  have e : (1.0 : ℝ) / r - 1.0 / (2.0 * a) = 1 / r - 1 / (2 * a) := by norm_num
  have hg1 : ple r (0.0 : ℝ) = false := by
    unfold ple; rw [decide_eq_false_iff_not]; norm_num; exact hr
  have hg2 : ple a (0.0 : ℝ) = false := by
    unfold ple; rw [decide_eq_false_iff_not]; norm_num; exact ha
  unfold velocity
  simp only [hg1, hg2, Bool.or_self, Bool.false_eq_true, if_false]
  simp only [fdiv_ok hr.ne', fdiv_ok h2, e, fsqrt_ok h]

theorem velocity_peri_eq {e a : ℝ} (he0 : 0 ≤ e) (he1 : e < 1) (ha : 0 < a) :
    velocity (a * (1 - e)) a = .ok (42.1218 * (Real.sqrt ((1 + e) / (1 - e)) / (Real.sqrt 2 * Real.sqrt a))) := by
  have h1 : 0 < a * (1 - e) := by apply mul_pos <;> linarith
  have hA : 0 ≤ (1 + e) / (1 - e) := by apply div_nonneg <;> linarith
  have hval : (1 : ℝ) / (a * (1 - e)) - 1 / (2 * a) = (1 + e) / (1 - e) / (2 * a) := by
    have : (1 - e) ≠ 0 := by linarith
    have : a ≠ 0 := by linarith
    field_simp; ring
  have h3 : (0 : ℝ) ≤ 1 / (a * (1 - e)) - 1 / (2 * a) := by
    rw [hval]; apply div_nonneg hA; linarith
  rw [velocity_eq h1 ha h3, hval, Real.sqrt_div hA, Real.sqrt_mul (by norm_num)]

theorem velocity_aph_eq {e a : ℝ} (he0 : 0 ≤ e) (he1 : e < 1) (ha : 0 < a) :
    velocity (a * (1 + e)) a = .ok (42.1218 * (Real.sqrt ((1 - e) / (1 + e)) / (Real.sqrt 2 * Real.sqrt a))) := by
  have h1 : 0 < a * (1 + e) := by apply mul_pos <;> linarith
  have hA : 0 ≤ (1 - e) / (1 + e) := by apply div_nonneg <;> linarith
  have hval : (1 : ℝ) / (a * (1 + e)) - 1 / (2 * a) = (1 - e) / (1 + e) / (2 * a) := by
    have : (1 + e) ≠ 0 := by linarith
    have : a ≠ 0 := by linarith
    field_simp; ring
  have h3 : (0 : ℝ) ≤ 1 / (a * (1 + e)) - 1 / (2 * a) := by
    rw [hval]; apply div_nonneg hA; linarith
  rw [velocity_eq h1 ha h3, hval, Real.sqrt_div hA, Real.sqrt_mul (by norm_num)]

theorem velocity_circ_eq {a : ℝ} (ha : 0 < a) :
    velocity a a = .ok (42.1218 * (1 / (Real.sqrt 2 * Real.sqrt a))) := by
  have hval : (1 : ℝ) / a - 1 / (2 * a) = 1 / (2 * a) := by field_simp; ring
  have h3 : (0 : ℝ) ≤ 1 / a - 1 / (2 * a) := by rw [hval]; positivity
  rw [velocity_eq ha ha h3, hval, Real.sqrt_div (by norm_num), Real.sqrt_one,
    Real.sqrt_mul (by norm_num)]

theorem velocity_perihelion_eq {e a : ℝ} (he0 : 0 ≤ e) (he1 : e < 1) (ha : 0 < a) :
    velocity_perihelion e a = .ok (29.7847 * Real.sqrt ((1 + e) / (1 - e)) / Real.sqrt a) := by
  have h1 : (1.0 : ℝ) - e ≠ 0 := by norm_num; linarith
  have hA : 0 ≤ ((1.0 : ℝ) + e) / (1.0 - e) := by apply div_nonneg <;> norm_num <;> linarith
  have hs : Real.sqrt a ≠ 0 := (Real.sqrt_pos.mpr ha).ne'
  unfold velocity_perihelion
  simp only [fdiv_ok h1, fsqrt_ok hA, fsqrt_ok ha.le, fdiv_ok hs]
  norm_num

theorem velocity_aphelion_eq {e a : ℝ} (he0 : 0 ≤ e) (he1 : e < 1) (ha : 0 < a) :
    velocity_aphelion e a = .ok (29.7847 * Real.sqrt ((1 - e) / (1 + e)) / Real.sqrt a) := by
  have h1 : (1.0 : ℝ) + e ≠ 0 := by norm_num; linarith
  have hA : 0 ≤ ((1.0 : ℝ) - e) / (1.0 + e) := by apply div_nonneg <;> norm_num <;> linarith
  have hs : Real.sqrt a ≠ 0 := (Real.sqrt_pos.mpr ha).ne'
  unfold velocity_aphelion
  simp only [fdiv_ok h1, fsqrt_ok hA, fsqrt_ok ha.le, fdiv_ok hs]
  norm_num

/-- `|42.1218 / (√2 · 29.7847) − 1| < 1e-5` (the two constants of the source agree to 3 parts in a million). -/
theorem const_ratio_close : |42.1218 / (Real.sqrt 2 * 29.7847) - 1| < (1e-5 : ℝ) := by
  have h1 := sqrt_two_gt
  have h2 := sqrt_two_lt
  have hpos : (0 : ℝ) < Real.sqrt 2 * 29.7847 := by positivity
  rw [abs_lt]
  constructor
  · rw [lt_sub_iff_add_lt, lt_div_iff₀ hpos]; norm_num; nlinarith
  · rw [sub_lt_iff_lt_add, div_lt_iff₀ hpos]; norm_num; nlinarith

/-! ### length of the orbit -/

theorem length_low_eq {a b : ℝ} (ha : 0 < a) (hb : 0 ≤ b) :
    length_low a b = .ok (π * (21 * ((a + b) / 2) - 2 * Real.sqrt (a * b) - 3 * (2 * a * b / (a + b))) / 8) := by
  have h1 : 0 ≤ a * b := by positivity
  have h2 : a + b ≠ 0 := by linarith
  unfold length_low
  simp only [fsqrt_ok h1, fdiv_ok h2, Pymeeus.PR.pi]
  norm_num

theorem length_high_eq {a b : ℝ} (ha : 0 < a) (hb : 0 ≤ b) :
    length_high a b = .ok (π * (3 * (a + b) - Real.sqrt ((a + 3 * b) * (3 * a + b)))) := by
  have h1 : 0 ≤ (a + 3.0 * b) * (3.0 * a + b) := by norm_num; positivity
  unfold length_high
  simp only [fsqrt_ok h1, Pymeeus.PR.pi]
  norm_num

theorem length_orbit_eq {e a : ℝ} (he : e * e ≤ 1) :
    length_orbit e a = if e < 0.95 then length_low a (a * Real.sqrt (1 - e * e))
      else length_high a (a * Real.sqrt (1 - e * e)) := by
  have h1 : (0 : ℝ) ≤ 1.0 - e * e := by norm_num; linarith
  unfold length_orbit
  simp only [fsqrt_ok h1, plt, decide_eq_true_eq]
  norm_num

/-- arithmetic-geometric mean: `√(ab) ≤ (a+b)/2` -/
theorem gm_le_am {a b : ℝ} (ha : 0 ≤ a) (hb : 0 ≤ b) : Real.sqrt (a * b) ≤ (a + b) / 2 := by
  rw [show (a + b) / 2 = Real.sqrt (((a + b) / 2) ^ 2) from (Real.sqrt_sq (by positivity)).symm]
  apply Real.sqrt_le_sqrt
  nlinarith [sq_nonneg (a - b)]

/-- harmonic-geometric mean: `2ab/(a+b) ≤ √(ab)` -/
theorem hm_le_gm {a b : ℝ} (ha : 0 < a) (hb : 0 ≤ b) : 2 * a * b / (a + b) ≤ Real.sqrt (a * b) := by
  have hG := gm_le_am ha.le hb
  have hG0 := Real.sqrt_nonneg (a * b)
  have hsq : Real.sqrt (a * b) * Real.sqrt (a * b) = a * b := Real.mul_self_sqrt (by positivity)
  rw [div_le_iff₀ (by linarith)]
  nlinarith

theorem low_bounds {a b : ℝ} (hb : 0 < b) (hab : b ≤ a) :
    2 * b ≤ (21 * ((a + b) / 2) - 2 * Real.sqrt (a * b) - 3 * (2 * a * b / (a + b))) / 8 ∧
    (21 * ((a + b) / 2) - 2 * Real.sqrt (a * b) - 3 * (2 * a * b / (a + b))) / 8 ≤ 2 * a := by
  have ha : 0 < a := by linarith
  have hG := gm_le_am ha.le hb.le
  have hH := hm_le_gm ha hb.le
  have hH5 : 21 * ((a + b) / 2) - 5 * (2 * a * b / (a + b)) ≤ 16 * a := by
    have hs : 0 < a + b := by linarith
    have : 5 * (2 * a * b / (a + b)) = 10 * a * b / (a + b) := by ring
    rw [this, sub_le_iff_le_add, ← sub_le_iff_le_add', le_div_iff₀ hs]
    nlinarith [mul_nonneg (sub_nonneg.mpr hab) (by positivity : (0:ℝ) ≤ 21 * b + 11 * a)]
  constructor <;> linarith

theorem high_bounds {a b : ℝ} (hb : 0 < b) (hab : b ≤ a) :
    2 * b ≤ 3 * (a + b) - Real.sqrt ((a + 3 * b) * (3 * a + b)) ∧
    3 * (a + b) - Real.sqrt ((a + 3 * b) * (3 * a + b)) ≤ 2 * a := by
  have ha : 0 < a := by linarith
  have h1 : a + 3 * b ≤ Real.sqrt ((a + 3 * b) * (3 * a + b)) := by
    apply Real.le_sqrt_of_sq_le; nlinarith
  have h2 : Real.sqrt ((a + 3 * b) * (3 * a + b)) ≤ 3 * a + b := by
    rw [Real.sqrt_le_left (by positivity)]; nlinarith
  constructor <;> linarith


/-! ### phase angle -/

/-- Triangle inequality ⇒ the cosine of the phase angle is in `[-1, 1]`. -/
theorem phase_cos_bounds {r d R : ℝ} (hr : 0 < r) (hd : 0 < d) (h1 : |r - d| ≤ R) (h2 : R ≤ r + d) :
    -1 ≤ (r * r + d * d - R * R) / (2 * r * d) ∧ (r * r + d * d - R * R) / (2 * r * d) ≤ 1 := by
  have hpos : 0 < 2 * r * d := by positivity
  have hR0 : 0 ≤ R := le_trans (abs_nonneg _) h1
  obtain ⟨h1a, h1b⟩ := abs_le.mp h1
  constructor
  · rw [le_div_iff₀ hpos]; nlinarith
  · rw [div_le_iff₀ hpos]; nlinarith

theorem phase_angle_eq {r d R : ℝ} (hr : 0 < r) (hd : 0 < d) (h1 : |r - d| ≤ R) (h2 : R ≤ r + d) :
    phase_angle r d R = .ok (Real.arccos ((r * r + d * d - R * R) / (2 * r * d)) * (180 / π)) := by
  obtain ⟨hc1, hc2⟩ := phase_cos_bounds hr hd h1 h2
  have hden : (2 : ℝ) * r * d ≠ 0 := by positivity
  have e2 : (2.0 : ℝ) = 2 := by norm_num
  have e1 : (1.0 : ℝ) = 1 := by norm_num
  have hsmall : |Real.arccos ((r * r + d * d - R * R) / (2 * r * d))| < 2 * π := by
    rw [abs_of_nonneg (Real.arccos_nonneg _)]
    linarith [Real.arccos_le_pi ((r * r + d * d - R * R) / (2 * r * d)), Real.pi_pos]
  -- the clamp does not fire: |cosine| ≤ 1
  have hnc : ¬ (1 < |(r * r + d * d - R * R) / (2 * r * d)|) := not_lt.mpr (abs_le.mpr ⟨hc1, hc2⟩)
  unfold phase_angle
  simp only [e2, e1, fdiv_ok hden, plt, pabs, hnc, decide_false, Bool.false_and, Bool.false_eq_true, if_false,
    facos_ok hc1 hc2, angle_of_rad_small hsmall]

/-- The clamp of a27247f: a cosine that overshoots ±1 by less than 1e-12 is taken as ±1, so the phase angle is
    0° (cosine > 1) or 180° (cosine < -1). -/
theorem phase_angle_clamped {r d R : ℝ} (hden : 2 * r * d ≠ 0)
    (h1 : 1 < |(r * r + d * d - R * R) / (2 * r * d)|) (h2 : |(r * r + d * d - R * R) / (2 * r * d)| < 1 + 1e-12) :
    phase_angle r d R = .ok (if 0 < (r * r + d * d - R * R) / (2 * r * d) then 0 else 180) := by
  have e2 : (2.0 : ℝ) = 2 := by norm_num
  have e1 : (1.0 : ℝ) = 1 := by norm_num
  have e0 : (0.0 : ℝ) = 0 := by norm_num
  have hpi := Real.pi_pos
  unfold phase_angle
  simp only [e2, e1, e0, fdiv_ok hden, plt, pabs, h1, h2, decide_true, Bool.and_self, if_true, decide_eq_true_eq]
  by_cases hc : 0 < (r * r + d * d - R * R) / (2 * r * d)
  · simp only [hc, if_true, facos_ok (show (-1:ℝ) ≤ 1 by norm_num) (le_refl (1:ℝ)), Real.arccos_one]
    rw [angle_of_rad_small (show |(0:ℝ)| < 2 * π by simp; positivity)]; simp
  · simp only [hc, if_false, facos_ok (le_refl (-1:ℝ)) (show (-1:ℝ) ≤ 1 by norm_num), Real.arccos_neg_one]
    rw [angle_of_rad_small (show |π| < 2 * π by rw [abs_of_pos hpi]; linarith)]
    congr 1; field_simp

theorem illuminated_fraction_eq {r d R : ℝ} (hr : 0 < r) (hd : 0 < d) :
    illuminated_fraction r d R = .ok (((r + d) * (r + d) - R * R) / (4 * r * d)) := by
  have hden : (4.0 : ℝ) * r * d ≠ 0 := by norm_num; exact ⟨hr.ne', hd.ne'⟩
  unfold illuminated_fraction
  rw [fdiv_ok hden]; norm_num

/-! ### node passages -/

/-- `360.0 - omega` / `180.0 - omega` in Angle arithmetic differs from the plain difference by whole turns. -/
theorem node_anomaly_congr (ω : ℝ) (asc : Bool) :
    ∃ j : ℤ, node_anomaly ω asc = (if asc then 0 else 180) - ω + 360 * j := by
  unfold node_anomaly angle_rsub angle_neg angle_sub angle_add
  cases asc
  · obtain ⟨j1, h1⟩ := reduce_deg_congr (ω + -180.0)
    obtain ⟨j2, h2⟩ := reduce_deg_congr (-reduce_deg (ω + -180.0))
    refine ⟨j2 - j1, ?_⟩
    simp only [Bool.false_eq_true, if_false]
    rw [h2, h1]; push_cast; norm_num; ring
  · obtain ⟨j1, h1⟩ := reduce_deg_congr (ω + -360.0)
    obtain ⟨j2, h2⟩ := reduce_deg_congr (-reduce_deg (ω + -360.0))
    refine ⟨j2 - j1 + 1, ?_⟩
    simp only [if_true]
    rw [h2, h1]; push_cast; norm_num; ring

theorem passage_nodes_elliptic_eq {e a : ℝ} (he0 : 0 ≤ e) (he1 : e < 1) (ha : 0 < a) (ω t : ℝ) (asc : Bool) :
    passage_nodes_elliptic ω e a t asc =
      .ok (t + (2 * Real.arctan (Real.sqrt ((1 - e) / (1 + e)) * Real.tan (pradians (node_anomaly ω asc) / 2))
                - e * Real.sin (2 * Real.arctan (Real.sqrt ((1 - e) / (1 + e)) *
                    Real.tan (pradians (node_anomaly ω asc) / 2)))) * (180 / π)
                / (0.9856076686 / (a * Real.sqrt a)),
           a * (1 - e * Real.cos (2 * Real.arctan (Real.sqrt ((1 - e) / (1 + e)) *
                    Real.tan (pradians (node_anomaly ω asc) / 2))))) := by
  have h1 : (1.0 : ℝ) + e ≠ 0 := by norm_num; linarith
  have hA : 0 ≤ ((1.0 : ℝ) - e) / (1.0 + e) := by apply div_nonneg <;> norm_num <;> linarith
  have hsa : 0 < Real.sqrt a := Real.sqrt_pos.mpr ha
  have h2 : a * Real.sqrt a ≠ 0 := (mul_pos ha hsa).ne'
  have h3 : (0.9856076686 : ℝ) / (a * Real.sqrt a) ≠ 0 := by
    apply div_ne_zero (by norm_num) h2
  unfold passage_nodes_elliptic
  simp only [fdiv_ok h1, fsqrt_ok hA, fsqrt_ok ha.le, fdiv_ok h2, fdiv_ok h3, patan, ptan, psin, pcos, pdegrees]
  norm_num

theorem passage_nodes_parabolic_eq {q : ℝ} (hq : 0 ≤ q) (ω t : ℝ) (asc : Bool) :
    passage_nodes_parabolic ω q t asc =
      .ok (t + 27.403895 * Real.tan (pradians (node_anomaly ω asc) / 2)
              * (Real.tan (pradians (node_anomaly ω asc) / 2) * Real.tan (pradians (node_anomaly ω asc) / 2) + 3)
              * q * Real.sqrt q,
           q * (1 + Real.tan (pradians (node_anomaly ω asc) / 2) * Real.tan (pradians (node_anomaly ω asc) / 2))) := by
  unfold passage_nodes_parabolic
  simp only [fsqrt_ok hq, ptan]
  norm_num


/-- tangent half-angle formula over ℝ, with its side condition -/
theorem cos_of_tan_half {x : ℝ} (h : Real.cos (x / 2) ≠ 0) :
    Real.cos x = (1 - Real.tan (x / 2) ^ 2) / (1 + Real.tan (x / 2) ^ 2) := by
  have hx : x = 2 * (x / 2) := by ring
  have hs := Real.sin_sq_add_cos_sq (x / 2)
  have hc2 : Real.cos (x / 2) ^ 2 ≠ 0 := pow_ne_zero 2 h
  conv_lhs => rw [hx, Real.cos_two_mul]
  rw [Real.tan_eq_sin_div_cos, div_pow]
  have hden : 1 + Real.sin (x / 2) ^ 2 / Real.cos (x / 2) ^ 2 ≠ 0 := by
    have : 1 + Real.sin (x / 2) ^ 2 / Real.cos (x / 2) ^ 2 = 1 / Real.cos (x / 2) ^ 2 := by
      field_simp; linarith
    rw [this]; positivity
  field_simp
  nlinarith

theorem cos_two_arctan (τ : ℝ) : Real.cos (2 * Real.arctan τ) = (1 - τ ^ 2) / (1 + τ ^ 2) := by
  have h : Real.cos (2 * Real.arctan τ / 2) ≠ 0 := by
    rw [mul_div_cancel_left₀ _ (by norm_num : (2:ℝ) ≠ 0)]; exact (Real.cos_arctan_pos τ).ne'
  rw [cos_of_tan_half h, mul_div_cancel_left₀ _ (by norm_num : (2:ℝ) ≠ 0), Real.tan_arctan]


/-! ### the two length formulas at the switch `e = 0.95` -/

/-- Scalar form: with `t = b/a = sqrt(1 - 0.95²)`, `w = sqrt t`, `S = sqrt((1+3t)(3+t))`, the two bracketed
    expressions differ by between 1.4e-4 and 1.5e-4 of the second. -/
theorem switch_scalar {t w S : ℝ} (ht0 : 0 < t) (ht : t ^ 2 = 0.0975) (hw0 : 0 < w) (hw : w ^ 2 = t)
    (hS0 : 0 < S) (hS : S ^ 2 = (1 + 3 * t) * (3 + t)) :
    1.4e-4 * (3 * (1 + t) - S) < (21 * ((1 + t) / 2) - 2 * w - 3 * (2 * t / (1 + t))) / 8 - (3 * (1 + t) - S) ∧
    (21 * ((1 + t) / 2) - 2 * w - 3 * (2 * t / (1 + t))) / 8 - (3 * (1 + t) - S) < 1.5e-4 * (3 * (1 + t) - S) := by
  have t1 : (0.31224989 : ℝ) < t := by
    by_contra h; have := not_lt.mp h; nlinarith
  have t2 : t < (0.31224991 : ℝ) := by
    by_contra h; have := not_lt.mp h; nlinarith
  have w1 : (0.5587932 : ℝ) < w := by
    by_contra h; have := not_lt.mp h; nlinarith
  have w2 : w < (0.5587933 : ℝ) := by
    by_contra h; have := not_lt.mp h; nlinarith
  have S1 : (2.5327847 : ℝ) < S := by
    by_contra h; have := not_lt.mp h; nlinarith
  have S2 : S < (2.5327849 : ℝ) := by
    by_contra h; have := not_lt.mp h; nlinarith
  -- t/(1+t) between its values at the ends
  have q1 : (0.31224989 / 1.31224989 : ℝ) < t / (1 + t) := by
    rw [div_lt_div_iff₀ (by norm_num) (by linarith)]; nlinarith
  have q2 : t / (1 + t) < (0.31224991 / 1.31224991 : ℝ) := by
    rw [div_lt_div_iff₀ (by linarith) (by norm_num)]; nlinarith
  have hq : 3 * (2 * t / (1 + t)) = 6 * (t / (1 + t)) := by ring
  rw [hq]
  norm_num at q1 q2 ⊢
  constructor <;> linarith

end Pymeeus.Refine.TwoBody
