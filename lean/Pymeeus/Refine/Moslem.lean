import Pymeeus.Refine.EpochRelig
import Pymeeus.Refine.Calendar
import Pymeeus.Spec.Islamic
import Pymeeus.Refine.Pesach
/-
Moslem -> civil: `moslem2gregorian` (integer form `m2gI`) returns, for EVERY date of the tabular
Islamic calendar (all years ≥ 1, no upper bound), the civil date whose day number is the day number
of Spec/Islamic.lean.  Steps: the Julian year / day-of-year pair (`m2gJX_spec`, 4-year and 30-year
cycle arithmetic by staged omega), the exit through Meeus' inverse (`invI_valid`, from the C01
lemmas) and the exit through `doy2date` (`doy2dateI_correct`, month table checked by the kernel).
-/
namespace Pymeeus.Refine
open Pymeeus Pymeeus.PQ Pymeeus.GenQ Pymeeus.Spec

theorem m2g_k (q2 k e : Int) (h0 : 0 ≤ q2) (h1 : q2 ≤ 1460) (hk : k = (10000 * q2) / 3652422)
    (he : e = (3652422 * k) / 10000) :
    (k = 0 ∧ e = 0 ∧ q2 ≤ 365) ∨ (k = 1 ∧ e = 365 ∧ 366 ≤ q2 ∧ q2 ≤ 730) ∨
    (k = 2 ∧ e = 730 ∧ 731 ≤ q2 ∧ q2 ≤ 1095) ∨ (k = 3 ∧ e = 1095 ∧ 1096 ≤ q2) := by
  have k0 : 0 ≤ k := by omega
  have k3 : k ≤ 3 := by omega
  interval_cases k <;> omega

theorem m2g_J0 (t k e x : Int)
    (hk : (k = 0 ∧ e = 0) ∨ (k = 1 ∧ e = 365) ∨ (k = 2 ∧ e = 730) ∨ (k = 3 ∧ e = 1095))
    (hx : x = 621 + 4 * t + k) :
    (1461 * (x - 1)) / 4 = 1461 * t + 226455 + e ∧ (x % 4 = 0 ↔ k = 3) ∧
    (1461 * (x + 1 - 1)) / 4 = 1461 * t + 226455 + e + 365 + (if k = 3 then 1 else 0) := by
  subst hx
  rcases hk with ⟨rfl, rfl⟩ | ⟨rfl, rfl⟩ | ⟨rfl, rfl⟩ | ⟨rfl, rfl⟩ <;> simp <;> omega

theorem m2g_isl (h : Int) :
    354 * (h - 1) + (3 + 11 * h) / 30 = 10631 * (h / 30) + 354 * (h % 30) + (11 * (h % 30) + 3) / 30 - 354 := by
  omega

/-- `ceil(29.5 (m - 1))` as the code computes it -/
theorem m2g_n (m : Int) (h1 : 1 ≤ m) (h12 : m ≤ 12) : (295001 * (m - 1) + 9900) / 10000 = (59 * (m - 1) + 1) / 2 := by
  interval_cases m <;> decide

theorem m2g_core (h n q r a w q1 q2 k e j x : Int) (hq : q = h / 30) (hr : r = h % 30)
    (ha : a = (11 * r + 3) / 30) (hw : w = 404 * q + 354 * r + 208 + a) (hq1 : q1 = w / 1461)
    (hq2 : q2 = w % 1461) (hk : k = (10000 * q2) / 3652422) (he : e = (3652422 * k) / 10000)
    (hj : j = q2 - e + n - 1) (hx : x = 621 + 4 * (7 * q + q1) + k)
    (hh : 1 ≤ h) (hn1 : 1 ≤ n) (hn355 : n ≤ 355) (jx : Int × Int)
    (hjx : jx = if j > 366 ∧ x % 4 = 0 then (j - 366, x + 1) else if j > 365 ∧ x % 4 > 0 then (j - 365, x + 1) else (j, x)) :
    622 ≤ jx.2 ∧ 0 ≤ jx.1 ∧ jx.1 ≤ (if jx.2 % 4 = 0 then 366 else 365) ∧
    (1461 * (jx.2 - 1)) / 4 + 1721423 + jx.1 = n + 354 * (h - 1) + (3 + 11 * h) / 30 + 1948439 := by
  have hisl := m2g_isl h
  rw [← hq, ← hr, ← ha] at hisl
  have hq0 : 0 ≤ q := by omega
  have ha0 : 0 ≤ a := by omega
  have hr0 : 0 ≤ r := by omega
  have hw0 : 0 ≤ w := by omega
  have hw1 : w = 1461 * q1 + q2 := by omega
  have hq2' : 0 ≤ q2 ∧ q2 ≤ 1460 := by omega
  have hq1' : 0 ≤ q1 := by omega
  have hkk := m2g_k q2 k e hq2'.1 hq2'.2 hk he
  obtain ⟨hJ1, hJ2, hJ3⟩ := m2g_J0 (7 * q + q1) k e x (by omega) hx
  have hx0 : 622 ≤ x := by omega
  have hx4 : x % 4 > 0 ↔ ¬ k = 3 := by omega
  clear hq hr ha hq1 hq2 hk he hh
  by_cases c1 : j > 366 ∧ x % 4 = 0
  · rw [if_pos c1] at hjx
    subst hjx
    have : ¬ ((x + 1) % 4 = 0) := by omega
    simp only [this, if_false]
    have hk3 : k = 3 := by omega
    simp only [hk3, if_true] at hJ3
    omega
  · rw [if_neg c1] at hjx
    by_cases c2 : j > 365 ∧ x % 4 > 0
    · rw [if_pos c2] at hjx
      subst hjx
      have hk3 : ¬ k = 3 := by omega
      simp only [hk3, if_false] at hJ3
      dsimp only
      split_ifs <;> omega
    · rw [if_neg c2] at hjx
      subst hjx
      dsimp only
      split_ifs <;> omega

/-- The arithmetic heart of `moslem2gregorian`: the Julian-calendar year `x` and day of the year `j`. -/
theorem m2gJX_spec (h m d : Int) (hv : Islamic.Valid h m d) :
    622 ≤ (m2gJX h m d).2 ∧ 0 ≤ (m2gJX h m d).1 ∧
    (m2gJX h m d).1 ≤ (if (m2gJX h m d).2 % 4 = 0 then 366 else 365) ∧
    (1461 * ((m2gJX h m d).2 - 1)) / 4 + 1721423 + (m2gJX h m d).1 = Islamic.jdn h m d := by
  obtain ⟨hh, hm1, hm12, hd1, hdl⟩ := hv
  have hd355 : d + (59 * (m - 1) + 1) / 2 ≤ 355 := by
    unfold Islamic.monthLen at hdl; split_ifs at hdl <;> omega
  have hn1 : 1 ≤ d + (59 * (m - 1) + 1) / 2 := by omega
  have := m2g_core h (d + (59 * (m - 1) + 1) / 2) _ _ _ _ _ _ _ _ _ _ rfl rfl rfl rfl rfl rfl rfl rfl rfl rfl hh hn1 hd355
    (m2gJX h m d) (by unfold m2gJX; rw [m2g_n m hm1 hm12])
  unfold Islamic.jdn
  exact this


/-! #### the two exits of `moslem2gregorian` -/

theorem surj_int (n : Nat) : ∃ y m d, Valid y m d ∧ jdnI y m d = (n : Int) := by
  induction n with
  | zero => exact ⟨-4712, 1, 1, by decide, by decide⟩
  | succ k ih =>
    obtain ⟨y, m, d, hv, hj⟩ := ih
    refine ⟨(next y m d).1, (next y m d).2.1, (next y m d).2.2, next_valid y m d hv, ?_⟩
    rw [consecutive_int y m d hv, hj]; push_cast; ring

theorem dateOf_ok (t : Int × Int × Int) (y m d : Int) (h : dateOf t = .ok (y, m, (d : ℚ))) :
    (if t.1 < 14 then t.1 - 1 else t.1 - 13) = m ∧
    (if (if t.1 < 14 then t.1 - 1 else t.1 - 13) > 2 then t.2.1 - 4716 else t.2.1 - 4715) = y ∧ t.2.2 = d := by
  obtain ⟨e, c, day⟩ := t
  unfold dateOf at h
  dsimp only at h ⊢
  split_ifs at h <;> simp only [Except.ok.injEq, Prod.mk.injEq] at h <;>
    (obtain ⟨rfl, rfl, h3⟩ := h
     have hd : day = d := by exact_mod_cast h3
     subst hd
     split_ifs <;> omega)

/-- every day number ≥ 0 is inverted by `invI` to the civil date with that day number -/
theorem invI_valid (z : Int) (hz : 0 ≤ z) : ∃ y m d, Valid y m d ∧ jdnI y m d = z ∧
    (if (invI z).1 < 14 then (invI z).1 - 1 else (invI z).1 - 13) = m ∧
    (if (if (invI z).1 < 14 then (invI z).1 - 1 else (invI z).1 - 13) > 2 then (invI z).2.1 - 4716 else (invI z).2.1 - 4715) = y ∧
    (invI z).2.2 = d := by
  obtain ⟨y, m, d, hv, hj⟩ := surj_int z.toNat
  rw [Int.toNat_of_nonneg hz] at hj
  refine ⟨y, m, d, hv, hj, ?_⟩
  have := roundtrip_int y m d hv
  rw [hj] at this
  exact dateOf_ok _ _ _ _ this


/-- month and day from the day of the year `doy`, `k` = 1 (leap year) or 2, as `doy2date` computes them -/
def doyMD (k doy : Int) : Int × Int :=
  let m : Int := if doy < 32 then 1 else (900 * (k + doy) + 26950) / 27500
  (m, doy - (275 * m) / 9 + k * ((m + 9) / 12) + 30)

def doyMDCheck (k doy : Int) : Bool :=
  let m := (doyMD k doy).1
  let d := (doyMD k doy).2
  decide (1 ≤ m) && decide (m ≤ 12) && decide (1 ≤ d) &&
    decide (d ≤ (if m = 2 then 30 - k else if m = 4 ∨ m = 6 ∨ m = 9 ∨ m = 11 then 30 else 31))

theorem doyMD_leap : (List.range 366).all (fun i => doyMDCheck 1 (1 + (i : Int))) = true := by decide +kernel
theorem doyMD_common : (List.range 365).all (fun i => doyMDCheck 2 (1 + (i : Int))) = true := by decide +kernel

theorem doyMD_ok (k doy : Int) (hk : k = 1 ∨ k = 2) (h1 : 1 ≤ doy) (h2 : doy ≤ 367 - k) :
    1 ≤ (doyMD k doy).1 ∧ (doyMD k doy).1 ≤ 12 ∧ 1 ≤ (doyMD k doy).2 ∧
    (doyMD k doy).2 ≤ (if (doyMD k doy).1 = 2 then 30 - k
      else if (doyMD k doy).1 = 4 ∨ (doyMD k doy).1 = 6 ∨ (doyMD k doy).1 = 9 ∨ (doyMD k doy).1 = 11 then 30 else 31) := by
  have : doyMDCheck k doy = true := by
    rcases hk with rfl | rfl
    · exact forall_of_range_all _ 1 366 doyMD_leap doy h1 (by omega)
    · exact forall_of_range_all _ 1 365 doyMD_common doy h1 (by omega)
  unfold doyMDCheck at this
  simp only [Bool.and_eq_true, decide_eq_true_eq] at this
  obtain ⟨⟨⟨a, b⟩, c⟩, d⟩ := this
  exact ⟨a, b, c, d⟩

/-- Julian-calendar day number from year, month, day = day 0 of the year + Meeus' day of the year -/
theorem jdnI_julian_doy (x m d k : Int) (hm1 : 1 ≤ m) (hm12 : m ≤ 12)
    (hk : k = if x % 4 = 0 then 1 else 2)
    (hj : isJulianI (if m ≤ 2 then x - 1 else x) (if m ≤ 2 then m + 12 else m) d = true) :
    jdnI x m d = (1461 * (x - 1)) / 4 + 1721423 + ((275 * m) / 9 - k * ((m + 9) / 12) + d - 30) := by
  have e1 : 1461 * (x + 4716) / 4 = 365 * (x + 4716) + (x / 4 + 1179) := by omega
  have e2 : 1461 * (x - 1 + 4716) / 4 = 365 * (x - 1 + 4716) + ((x - 1) / 4 + 1179) := by omega
  have e3 : 1461 * (x - 1) / 4 = 365 * (x - 1) + (x - 1) / 4 := by omega
  unfold jdnI
  simp only [hj, if_true]
  rw [e3]
  interval_cases m <;> simp <;> (try rw [e1]) <;> (try rw [e2]) <;> split_ifs at hk <;> omega


theorem is_leap_julian (x : Int) (h0 : 0 ≤ x) (h : x ≤ 1582) : is_leap x = decide (x % 4 = 0) := by
  unfold is_leap
  by_cases h1 : x ≥ 1582
  · have : x = 1582 := by omega
    subst this; decide
  · simp only [h1, if_false]
    rw [imod_pos _ 4 (by decide), Int.natAbs_of_nonneg h0]

theorem doy2dateI_correct (x j : Int) (hx0 : 0 ≤ x) (hx : x ≤ 1582) (hj1 : 1 ≤ j)
    (hj2 : j ≤ if x % 4 = 0 then 366 else 365) (h82 : ¬ (x = 1582 ∧ j > 277)) :
    (doy2dateI x j).1 = x ∧ Valid x (doy2dateI x j).2.1 (doy2dateI x j).2.2 ∧
    jdnI x (doy2dateI x j).2.1 (doy2dateI x j).2.2 = (1461 * (x - 1)) / 4 + 1721423 + j := by
  have hform : doy2dateI x j = (x, (doyMD (if x % 4 = 0 then 1 else 2) j).1, (doyMD (if x % 4 = 0 then 1 else 2) j).2) := by
    unfold doy2dateI doyMD
    simp only [h82, if_false, is_leap_julian x hx0 hx, decide_eq_true_eq]
  rw [hform]
  generalize hk : (if x % 4 = 0 then 1 else 2 : Int) = k
  have hk12 : k = 1 ∨ k = 2 := by split_ifs at hk <;> omega
  obtain ⟨hm1, hm12, hd1, hdl⟩ := doyMD_ok k j hk12 hj1 (by split_ifs at hk hj2 <;> omega)
  have hdef : (doyMD k j).2 = j - (275 * (doyMD k j).1) / 9 + k * (((doyMD k j).1 + 9) / 12) + 30 := by
    unfold doyMD; rfl
  generalize (doyMD k j).1 = m at *
  generalize (doyMD k j).2 = d at *
  dsimp only
  have hgap : x = 1582 → (m < 10 ∨ (m = 10 ∧ d < 5)) := by
    intro h1582
    have : j ≤ 277 := by omega
    have hk2 : k = 2 := by subst h1582; simp at hk; omega
    subst hk2
    interval_cases m <;> omega
  have hjul : isJulianI (if m ≤ 2 then x - 1 else x) (if m ≤ 2 then m + 12 else m) d = true := by
    rw [isJulianI_iff]
    by_cases hx82 : x = 1582
    · have := hgap hx82
      split_ifs <;> omega
    · split_ifs <;> omega
  refine ⟨rfl, ⟨by omega, hm1, hm12, hd1, ?_, ?_⟩, ?_⟩
  · unfold monthLen
    have hl : leap x = decide (x % 4 = 0) := by
      unfold leap
      by_cases h1 : x < 1582
      · simp [h1]
      · have : x = 1582 := by omega
        subst this; decide
    rw [hl]
    split_ifs at hdl hk ⊢ <;> simp_all <;> omega
  · intro ⟨h1, h2, h3, h4⟩
    have := hgap h1
    omega
  · rw [jdnI_julian_doy x m d k hm1 hm12 hk.symm hjul]
    omega


theorem islamic_jdn_pos (h m d : Int) (hv : Islamic.Valid h m d) : 1948440 ≤ Islamic.jdn h m d := by
  obtain ⟨hh, hm1, hm12, hd1, hdl⟩ := hv
  unfold Islamic.jdn; omega

/-- `moslem2gregorian` of a date of the Islamic calendar is the civil date with the same day number -/
theorem m2gI_correct (h m d : Int) (hv : Islamic.Valid h m d) :
    ∃ (y' m' d' : Int) (D : Int ⊕ ℚ), m2gI h m d = .ok (y', m', D) ∧ dayQ D = (d' : ℚ) ∧ Valid y' m' d' ∧
      jdnI y' m' d' = Islamic.jdn h m d := by
  obtain ⟨hx622, hj0, hjle, hJ⟩ := m2gJX_spec h m d hv
  have hpos := islamic_jdn_pos h m d hv
  obtain ⟨hh, hm1, hm12, hd1, hdl⟩ := hv
  have hd30 : d ≤ 30 := by unfold Islamic.monthLen at hdl; split_ifs at hdl <;> omega
  have hval : ¬ (d < 1 ∨ d > 30 ∨ m < 1 ∨ m > 12 ∨ h < 1) := by omega
  unfold m2gI
  simp only [hval, if_false]
  generalize (m2gJX h m d).1 = j at *
  generalize (m2gJX h m d).2 = x at *
  by_cases hc : x > 1582 ∨ (x = 1582 ∧ j > 277) ∨ j < 1
  · simp only [hc, if_true]
    obtain ⟨y', m', d', hv', hj', e1, e2, e3⟩ := invI_valid (1461 * (x - 1) / 4 + 1721423 + j) (by omega)
    refine ⟨y', m', d', .inl d', ?_, rfl, hv', by omega⟩
    rw [e1, e3] at *
    rw [e2]
  · simp only [hc, if_false]
    obtain ⟨f1, f2, f3⟩ := doy2dateI_correct x j (by omega) (by omega) (by omega) hjle (by omega)
    exact ⟨x, _, _, _, by rw [f1], rfl, f2, by omega⟩

end Pymeeus.Refine
