import Pymeeus.Refine.Interpolation
/-
`Interpolation.derivative` evaluates the derivative of the interpolating polynomial.
-/
namespace Pymeeus.Refine.Interpolation
open Pymeeus Pymeeus.PQ Pymeeus.GenQ.Interpolation Pymeeus.Newton Polynomial

theorem one_lit' : (1.0 : ℚ) = 1 := by norm_num
theorem zero_lit'' : (0.0 : ℚ) = 0 := by norm_num

theorem foldl_skip_prod (h : ℕ → ℚ) (j : ℕ) (a : ℚ) : ∀ k : ℕ,
    (List.range k).foldl (fun s i => if i ≠ j then s * h i else s) a = a * ∏ i ∈ (Finset.range k).erase j, h i := by
  intro k
  induction k with
  | zero => simp
  | succ k ih =>
    rw [List.range_succ, List.foldl_append, ih, Finset.range_add_one]
    simp only [List.foldl_cons, List.foldl_nil]
    by_cases hkj : k = j
    · subst hkj
      simp only [ne_eq, not_true_eq_false, if_false]
      rw [Finset.erase_insert (by simp), Finset.erase_eq_of_notMem (by simp)]
    · simp only [ne_eq, hkj, not_false_eq_true, if_true]
      rw [Finset.erase_insert_of_ne hkj, Finset.prod_insert (by simp)]
      ring

theorem prod_skip_eq (x : ℚ) (xs : List ℚ) (k j : ℕ) :
    prod_skip x xs k j = ∏ i ∈ (Finset.range k).erase j, (x - nodes xs i) := by
  unfold prod_skip
  rw [foldl_skip_prod (fun i => x - xs.getD i 0) j 1.0 k, one_lit', one_mul]
  rfl

theorem foldl_add_range (g : ℕ → ℚ) (a : ℚ) : ∀ k : ℕ,
    (List.range k).foldl (fun val j => val + g j) a = a + ∑ j ∈ Finset.range k, g j := by
  intro k
  induction k with
  | zero => simp
  | succ k ih =>
    rw [List.range_succ, List.foldl_append, ih, Finset.sum_range_succ]
    simp only [List.foldl_cons, List.foldl_nil]
    ring

theorem deriv_sum_eq (x : ℚ) (xs : List ℚ) (k : ℕ) :
    deriv_sum x xs k = ∑ m ∈ Finset.range k, ∏ i ∈ (Finset.range k).erase m, (x - nodes xs i) := by
  unfold deriv_sum
  rw [foldl_add_range (fun j => prod_skip x xs k j) 0.0 k, zero_lit'', zero_add]
  apply Finset.sum_congr rfl
  intro m _
  exact prod_skip_eq x xs k m

theorem foldl_add_list (g : ℕ → ℚ) (a : ℚ) (L : List ℕ) :
    L.foldl (fun res k => res + g k) a = a + (L.map g).sum := by
  induction L generalizing a with
  | nil => simp
  | cons b t ih => simp only [List.foldl_cons, ih, List.map_cons, List.sum_cons]; ring

theorem sum_range'_two (g : ℕ → ℚ) (m : ℕ) :
    ((List.range' 2 m).map g).sum = ∑ j ∈ Finset.range m, g (j + 2) := by
  induction m with
  | zero => simp
  | succ m ih =>
    rw [List.range'_concat, List.map_append, List.sum_append, ih, Finset.sum_range_succ]
    simp [Nat.add_comm]

/-- The loop of `derivative` computes the derivative of the Newton form. -/
theorem derivative_loop_eq (x : ℚ) (xs ts : List ℚ) (h3 : 3 ≤ ts.length) :
    (List.range' 2 (ts.length - 2)).reverse.foldl (fun res k => res + deriv_sum x xs k * ts.getD k 0) (ts.getD 1 0)
      = nfd x (nodes xs) (nodes ts) (ts.length - 1) := by
  rw [foldl_add_list (fun k => deriv_sum x xs k * ts.getD k 0), List.map_reverse, List.sum_reverse, sum_range'_two]
  unfold nfd
  have hn : ts.length - 1 + 1 = (ts.length - 2) + 1 + 1 := by omega
  rw [hn, Finset.sum_range_succ', Finset.sum_range_succ']
  simp only [Finset.range_zero, Finset.sum_empty, mul_zero, add_zero, Finset.range_one, Finset.sum_singleton,
    Finset.erase_singleton, Finset.prod_empty, mul_one, zero_add]
  have e : ∀ j, deriv_sum x xs (j + 2) * ts.getD (j + 2) 0
      = nodes ts (j + 1 + 1) * ∑ m ∈ Finset.range (j + 1 + 1), ∏ i ∈ (Finset.range (j + 1 + 1)).erase m, (x - nodes xs i) := by
    intro j
    rw [deriv_sum_eq]; unfold nodes; ring
  simp only [e]
  unfold nodes
  ring

theorem nfd_congr (x : ℚ) (v c c' : ℕ → ℚ) (k : ℕ) (h : ∀ j ≤ k, c j = c' j) : nfd x v c k = nfd x v c' k := by
  unfold nfd
  apply Finset.sum_congr rfl
  intro j hj
  rw [h j (by simp at hj; omega)]

/-- **`derivative(x)` is the derivative of the interpolating polynomial** (inside the table). -/
theorem derivative_eq {o : Interp} (h : WF o) {x : ℚ} (hx : xfirst o ≤ x ∧ x ≤ xlast o) :
    GenQ.Interpolation.derivative o x = .ok ((Polynomial.derivative (poly o)).eval x) := by
  have hn : o.x.length = (o.x.length - 1) + 1 := by have := h.two; omega
  have htl : o.table.length = o.x.length := by rw [h.table]; simp [table_of]
  have hpoly : poly o = newtonPoly (nodes o.x) (dd (nodes o.x) (nodes o.y) 0) (o.x.length - 1) := by
    rw [newtonPoly_eq_interpolate (nodes o.x) (nodes o.y) (o.x.length - 1)
      (by rw [← hn]; exact injOn_nodes h.sorted)]
    unfold poly; rw [← hn]
  have hval : (Polynomial.derivative (poly o)).eval x = nfd x (nodes o.x) (nodes o.table) (o.x.length - 1) := by
    rw [hpoly, eval_derivative_newtonPoly]
    apply nfd_congr
    intro j hj
    rw [h.table]; exact (nodes_table_of o.x o.y (by omega)).symm
  unfold GenQ.Interpolation.derivative
  cases hxs : o.x with
  | nil => have := h.two; rw [hxs] at this; simp at this
  | cons x0 xr =>
    simp only
    have e1 : xfirst o = x0 := by unfold xfirst nodes; rw [hxs]; rfl
    have e2 : xlast o = (x0 :: xr).getLastD 0 := by
      rw [getLastD_eq_nodes]; unfold xlast; rw [hxs]; rfl
    have hin : (plt x x0 || plt ((x0 :: xr).getLastD 0) x) = false := by
      rw [e1, e2] at hx
      simp only [plt, Bool.or_eq_false_iff, decide_eq_false_iff_not, not_lt]
      exact hx
    rw [hin]
    simp only [Bool.false_eq_true, if_false]
    rw [← hxs]
    by_cases h2 : o.x.length = 2
    · rw [if_pos h2]
      have hne : nodes o.x 1 - nodes o.x 0 ≠ 0 := by
        have := injOn_nodes h.sorted (by simp [h2] : (1 : ℕ) ∈ (Finset.range o.x.length : Set ℕ))
          (by simp [h2] : (0 : ℕ) ∈ (Finset.range o.x.length : Set ℕ))
        intro e; have := this (sub_eq_zero.mp e); omega
      show pdiv (nodes o.y 1 - nodes o.y 0) (nodes o.x 1 - nodes o.x 0) = _
      unfold pdiv
      simp only [peq, hne, decide_false, Bool.false_eq_true, if_false]
      congr 1
      rw [hval, h2, show (2 : ℕ) - 1 = 1 from rfl]
      unfold nfd
      rw [Finset.sum_range_succ, Finset.sum_range_succ]
      simp only [Finset.range_zero, Finset.sum_empty, mul_zero, Finset.range_one, Finset.sum_singleton,
        Finset.erase_singleton, Finset.prod_empty, mul_one, zero_add]
      rw [h.table, nodes_table_of o.x o.y (by omega)]
      show _ = (nodes o.y 0 - nodes o.y (0 + 1)) / (nodes o.x 0 - nodes o.x (0 + 0 + 1))
      have hne' : nodes o.x 0 - nodes o.x (0 + 0 + 1) ≠ 0 := by
        intro e; apply hne; simp only [zero_add] at e; linarith
      field_simp
      ring
    · rw [if_neg h2]
      have h3 : 3 ≤ o.table.length := by rw [htl]; have := h.two; omega
      have : ¬ o.table.length < 2 := by omega
      rw [if_neg this, derivative_loop_eq x o.x o.table h3, htl, hval]

theorem mapM_ok {α β : Type} (f : α → PyRes β) (g : α → β) : ∀ (l : List α), (∀ a ∈ l, f a = .ok (g a)) →
    l.mapM f = .ok (l.map g) := by
  intro l
  induction l with
  | nil => intro _; rfl
  | cons a t ih =>
    intro h
    rw [List.mapM_cons, h a List.mem_cons_self, ih (fun b hb => h b (List.mem_cons_of_mem _ hb))]
    rfl

/-- The interpolation object `minmax` builds from the nodal derivatives. -/
noncomputable def prime_of (o : Interp) : Interp :=
  ⟨o.x, o.x.map (fun xi => (Polynomial.derivative (poly o)).eval xi),
   table_of o.x (o.x.map (fun xi => (Polynomial.derivative (poly o)).eval xi)), TOL⟩

/-- `minmax` is `root` on the interpolant of the nodal derivatives. -/
theorem minmax_eq {o : Interp} (h : WF o) (hsep : o.x.Pairwise (fun a b => ¬ |a - b| < TOL)) (xl xh : ℚ) (m : Int) :
    minmax o xl xh m = root (prime_of o) xl xh m ∧ WF (prime_of o) := by
  have hwf : WF (prime_of o) :=
    ⟨by simp [prime_of], h.two, h.sorted, rfl⟩
  refine ⟨?_, hwf⟩
  unfold minmax
  have hmap : o.x.mapM (fun xi => GenQ.Interpolation.derivative o xi)
      = .ok (o.x.map (fun xi => (Polynomial.derivative (poly o)).eval xi)) := by
    apply mapM_ok
    intro a ha
    obtain ⟨i, hi, rfl⟩ := List.mem_iff_getElem.mp ha
    have : o.x[i] = nodes o.x i := (List.getD_eq_getElem _ 0 hi).symm
    rw [this]
    exact derivative_eq h (nodes_between h hi)
  rw [hmap]
  simp only [bind, Except.bind]
  have hset : GenQ.Interpolation.set TOL [.list o.x, .list (o.x.map (fun xi => (Polynomial.derivative (poly o)).eval xi))]
      = .ok (prime_of o) := by
    rw [set_two_lists]
    simp only [List.length_map, Nat.min_self]
    have h2 := h.two
    rw [if_neg (by omega), List.take_of_length_le (le_refl _), List.take_of_length_le (by simp)]
    unfold finish
    rw [(has_dup_false_iff TOL o.x).mpr hsep]
    simp only [Bool.false_eq_true, if_false]
    rw [order_points_sorted o.x _ (by simp) h.sorted]
    simp only
    have hpos : o.x.length > 0 := by omega
    rw [if_pos hpos, compute_table_eq TOL TOL_pos TOL_le_one]
    rfl
  rw [hset]

/-- The interpolant of the nodal derivatives is the derivative of the interpolant. -/
theorem poly_prime {o : Interp} (h : WF o) : poly (prime_of o) = Polynomial.derivative (poly o) := by
  symm
  unfold poly
  show _ = Lagrange.interpolate (Finset.range o.x.length) (nodes o.x)
    (nodes (o.x.map (fun xi => (Polynomial.derivative (Lagrange.interpolate (Finset.range o.x.length) (nodes o.x) (nodes o.y))).eval xi)))
  apply Lagrange.eq_interpolate_of_eval_eq _ (injOn_nodes h.sorted)
  · rw [Finset.card_range]
    have hd : (Lagrange.interpolate (Finset.range o.x.length) (nodes o.x) (nodes o.y)).degree < (o.x.length : ℕ) := by
      have := Lagrange.degree_interpolate_lt (nodes o.y) (injOn_nodes h.sorted)
      rwa [Finset.card_range] at this
    exact lt_of_le_of_lt degree_derivative_le hd
  · intro i hi
    have hi' : i < o.x.length := Finset.mem_range.mp hi
    have e1 : nodes o.x i = o.x[i] := List.getD_eq_getElem _ 0 hi'
    have e2 : nodes (o.x.map (fun xi => (Polynomial.derivative (Lagrange.interpolate (Finset.range o.x.length) (nodes o.x) (nodes o.y))).eval xi)) i
        = (Polynomial.derivative (Lagrange.interpolate (Finset.range o.x.length) (nodes o.x) (nodes o.y))).eval o.x[i] := by
      unfold nodes
      rw [List.getD_eq_getElem _ 0 (by simpa using hi')]
      simp
    rw [e1, e2]

end Pymeeus.Refine.Interpolation
