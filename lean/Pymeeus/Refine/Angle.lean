import Mathlib.Data.Rat.Floor
import Mathlib.Algebra.Order.Floor.Ring
import Mathlib.Tactic.NormNum
import Mathlib.Tactic.Linarith
import Mathlib.Tactic.Ring
import Mathlib.Tactic.FieldSimp
import Mathlib.Tactic.Positivity
import Pymeeus.Gen.Q.Angle
/-
Helper lemmas for C03 / C04: the prelude operations of the exact instantiation in Mathlib terms,
and the arithmetic facts about `reduce_deg`, `reduce_dms`, `deg2dms` the property theorems use.
-/
namespace Pymeeus.Refine
open Pymeeus Pymeeus.PQ Pymeeus.GenQ

theorem pabs_eq (x : ℚ) : pabs x = |x| := by
  unfold pabs
  split_ifs with h
  · rw [abs_of_neg h]
  · rw [abs_of_nonneg (not_lt.mp h)]

theorem rfloor (x : ℚ) : x.floor = ⌊x⌋ := rfl

theorem pmod_one (x : ℚ) : pmod x 1 = Int.fract x := by
  unfold pmod
  rw [rfloor, div_one, one_mul]; rfl

theorem ptrunc_nonneg {x : ℚ} (h : 0 ≤ x) : ptrunc x = ⌊x⌋ := by
  unfold ptrunc
  rw [if_pos h]; rfl

theorem pmod_pos {x y : ℚ} (hy : 0 < y) :
    0 ≤ pmod x y ∧ pmod x y < y ∧ x = pmod x y + y * (⌊x / y⌋ : ℤ) := by
  unfold pmod
  rw [rfloor]
  have h1 := Int.floor_le (x / y)
  have h2 := Int.lt_floor_add_one (x / y)
  rw [le_div_iff₀ hy] at h1
  rw [div_lt_iff₀ hy] at h2
  refine ⟨by nlinarith, by nlinarith, by ring⟩

theorem imod_pos (a b : ℤ) (hb : 0 ≤ b) : imod a b = a % b := by
  unfold imod; exact Int.fmod_eq_emod_of_nonneg _ hb


/-! ### reduce_deg -/

theorem ple_iff (a b : ℚ) : (ple a b = true) ↔ a ≤ b := by simp [ple]
theorem plt_iff (a b : ℚ) : (plt a b = true) ↔ a < b := by simp [plt]
theorem peq_iff (a b : ℚ) : (peq a b = true) ↔ a = b := by simp [peq]

theorem reduce_deg_of_lt {x : ℚ} (h : |x| < 360) : reduce_deg x = x := by
  unfold reduce_deg
  have h' : ¬ (ple (360.0 : ℚ) (pabs x) = true) := by rw [ple_iff, pabs_eq]; norm_num; exact h
  rw [if_neg h']

/-- The non-negative remainder `reduce_deg` keeps of a magnitude `a`. -/
def turnRem (a : ℚ) : ℚ := ((⌊a⌋ % 360 : ℤ) : ℚ) + Int.fract a

theorem turnRem_spec (a : ℚ) : 0 ≤ turnRem a ∧ turnRem a < 360 ∧ a = turnRem a + 360 * ((⌊a⌋ / 360 : ℤ) : ℚ) := by
  unfold turnRem
  set n := ⌊a⌋ with hn
  have hf0 := Int.fract_nonneg a
  have hf1 := Int.fract_lt_one a
  have hsum : ((n : ℚ)) + Int.fract a = a := Int.floor_add_fract a
  have hr0 : 0 ≤ n % 360 := Int.emod_nonneg _ (by norm_num)
  have hr1 : n % 360 < 360 := Int.emod_lt_of_pos _ (by norm_num)
  have hdiv : n = 360 * (n / 360) + n % 360 := (Int.mul_ediv_add_emod n 360).symm
  have hr0q : (0 : ℚ) ≤ ((n % 360 : ℤ) : ℚ) := by exact_mod_cast hr0
  have hr1q : ((n % 360 : ℤ) : ℚ) ≤ 359 := by exact_mod_cast (by omega : n % 360 ≤ 359)
  have hdivq : (n : ℚ) = 360 * ((n / 360 : ℤ) : ℚ) + ((n % 360 : ℤ) : ℚ) := by exact_mod_cast hdiv
  refine ⟨by linarith, by linarith, by linarith⟩

/-- Outside (-360, 360): sign times (integer part mod 360 plus fractional part). -/
theorem reduce_deg_of_ge {x : ℚ} (h : 360 ≤ |x|) :
    reduce_deg x = (if 0 ≤ x then (1 : ℚ) else -1) * turnRem |x| := by
  unfold reduce_deg turnRem
  have h' : (ple (360.0 : ℚ) (pabs x) = true) := by rw [ple_iff, pabs_eq]; norm_num; exact h
  rw [if_pos h']
  simp only [pmod_one, pabs_eq, ptrunc_nonneg (abs_nonneg x), imod_pos _ 360 (by norm_num), ofInt]
  by_cases hx : 0 ≤ x
  · have : ple 0 x = true := by rw [ple_iff]; exact hx
    simp only [this, hx, if_true]; norm_num
  · have : ¬ (ple 0 x = true) := by rw [ple_iff]; exact hx
    simp only [this, hx, if_false]; norm_num

/-- The whole content of C03.reduce in one statement. -/
theorem reduce_deg_spec (x : ℚ) :
    |reduce_deg x| < 360 ∧ (∃ k : ℤ, x = reduce_deg x + 360 * k) ∧
    (0 ≤ x → 0 ≤ reduce_deg x) ∧ (x ≤ 0 → reduce_deg x ≤ 0) ∧ (|x| < 360 → reduce_deg x = x) := by
  by_cases h : |x| < 360
  · rw [reduce_deg_of_lt h]
    exact ⟨h, ⟨0, by simp⟩, fun h => h, fun h => h, fun _ => rfl⟩
  · have hge : 360 ≤ |x| := not_lt.mp h
    rw [reduce_deg_of_ge hge]
    obtain ⟨h0, h1, h2⟩ := turnRem_spec |x|
    by_cases hx : 0 ≤ x
    · simp only [hx, if_true, one_mul]
      have hax : |x| = x := abs_of_nonneg hx
      refine ⟨?_, ⟨⌊|x|⌋ / 360, ?_⟩, fun _ => h0, fun hx0 => ?_, fun h' => absurd h' h⟩
      · rw [abs_of_nonneg h0]; exact h1
      · linarith
      · have : |x| = 0 := by rw [hax]; linarith
        rw [this] at hge; norm_num at hge
    · simp only [hx, if_false]
      have hax : |x| = -x := abs_of_neg (not_le.mp hx)
      refine ⟨?_, ⟨-(⌊|x|⌋ / 360), ?_⟩, fun hx0 => hx0.elim, fun _ => by linarith, fun h' => absurd h' h⟩
      · rw [abs_of_nonpos (by linarith)]; linarith
      · push_cast; linarith


/-! ### deg2dms -/

theorem sixty : (60.0 : ℚ) = 60 := by norm_num

/-- `deg2dms` on (-360, 360) in closed form. -/
theorem deg2dms_of_lt {x : ℚ} (h : |x| < 360) :
    deg2dms x = (⌊|x|⌋, ⌊Int.fract |x| * 60⌋, Int.fract (Int.fract |x| * 60) * 60,
      if 0 ≤ x then (1 : ℚ) else -1) := by
  unfold deg2dms
  have hm : (0 : ℚ) ≤ Int.fract |x| * 60 := mul_nonneg (Int.fract_nonneg _) (by norm_num)
  simp only [reduce_deg_of_lt h, pabs_eq, pmod_one, ptrunc_nonneg (abs_nonneg x), sixty, ptrunc_nonneg hm]
  by_cases hx : 0 ≤ x
  · have : ple 0 x = true := by rw [ple_iff]; exact hx
    simp only [this, hx, if_true]; norm_num
  · have : ¬ (ple 0 x = true) := by rw [ple_iff]; exact hx
    simp only [this, hx, if_false]; norm_num

/-- Splitting a magnitude `0 ≤ a < L` (L an integer bound): ranges and exact recombination. -/
theorem split_spec {a : ℚ} {L : ℤ} (h0 : 0 ≤ a) (h1 : a < L) :
    0 ≤ ⌊a⌋ ∧ ⌊a⌋ < L ∧ 0 ≤ ⌊Int.fract a * 60⌋ ∧ ⌊Int.fract a * 60⌋ < 60 ∧
    0 ≤ Int.fract (Int.fract a * 60) * 60 ∧ Int.fract (Int.fract a * 60) * 60 < 60 ∧
    ((⌊a⌋ : ℤ) : ℚ) + ((⌊Int.fract a * 60⌋ : ℤ) : ℚ) / 60 + Int.fract (Int.fract a * 60) * 60 / 3600 = a := by
  have hf0 := Int.fract_nonneg a
  have hf1 := Int.fract_lt_one a
  have hg0 := Int.fract_nonneg (Int.fract a * 60)
  have hg1 := Int.fract_lt_one (Int.fract a * 60)
  have e1 : ((⌊a⌋ : ℤ) : ℚ) + Int.fract a = a := Int.floor_add_fract a
  have e2 : ((⌊Int.fract a * 60⌋ : ℤ) : ℚ) + Int.fract (Int.fract a * 60) = Int.fract a * 60 :=
    Int.floor_add_fract _
  refine ⟨Int.floor_nonneg.mpr h0, Int.floor_lt.mpr h1, Int.floor_nonneg.mpr (by positivity), ?_, by positivity,
    by linarith, by linarith⟩
  rw [Int.floor_lt]; push_cast; linarith


/-! ### reduce_dms / dms2deg -/

/-- `if x % 1 > 0.0: y += (x % 1) * 60.0` always adds the fractional part (it is 0 otherwise). -/
theorem push_fract (y a : ℚ) :
    (if plt 0.0 (Int.fract a) = true then y + Int.fract a * 60 else y) = y + Int.fract a * 60 := by
  by_cases h : (0 : ℚ) < Int.fract a
  · have : plt 0.0 (Int.fract a) = true := by rw [plt_iff]; norm_num; exact h
    rw [if_pos this]
  · have h0 : Int.fract a = 0 := le_antisymm (not_lt.mp h) (Int.fract_nonneg a)
    have : ¬ (plt 0.0 (Int.fract a) = true) := by rw [plt_iff]; norm_num; exact not_lt.mp h
    rw [if_neg this, h0]; ring

theorem floor_int_div (n : ℤ) : ⌊(n : ℚ) / 60⌋ = n / 60 := by
  have := Rat.floor_intCast_div_natCast n 60
  simpa using this

/-- seconds -> minutes carry: `if seconds >= 60.0: minutes += int(seconds / 60.0); seconds = seconds % 60`. -/
theorem carry_sec (M : ℤ) {s : ℚ} (hs : 0 ≤ s) :
    (if ple 60.0 s = true then (M + ptrunc (s / 60.0), pmod s 60) else (M, s)) =
      (M + ⌊s / 60⌋, s - 60 * ((⌊s / 60⌋ : ℤ) : ℚ)) := by
  have hq : (0 : ℚ) ≤ s / 60 := by positivity
  by_cases h : (60 : ℚ) ≤ s
  · have : ple 60.0 s = true := by rw [ple_iff]; norm_num; exact h
    rw [if_pos this, sixty, ptrunc_nonneg hq]
    unfold pmod; rw [rfloor]
  · have : ¬ (ple 60.0 s = true) := by rw [ple_iff]; norm_num; exact not_le.mp h
    rw [if_neg this]
    have hfl : ⌊s / 60⌋ = 0 := by
      rw [Int.floor_eq_iff]; constructor
      · simpa using hq
      · rw [div_lt_iff₀ (by norm_num)]; push_cast; linarith [not_le.mp h]
    rw [hfl]; simp

/-- minutes -> degrees carry: `if minutes >= 60.0: degrees += int(minutes / 60.0); minutes = minutes % 60`. -/
theorem carry_min (D : ℤ) {M : ℤ} (hM : 0 ≤ M) :
    (if ple 60.0 (ofInt M) = true then (D + ptrunc (ofInt M / 60.0), imod M 60) else (D, M)) =
      (D + M / 60, M % 60) := by
  have hM' : (0 : ℚ) ≤ (M : ℚ) := by exact_mod_cast hM
  have hq : (0 : ℚ) ≤ (M : ℚ) / 60 := by positivity
  unfold ofInt
  by_cases h : (60 : ℚ) ≤ (M : ℚ)
  · have : ple 60.0 (M : ℚ) = true := by rw [ple_iff]; norm_num; exact h
    rw [if_pos this, sixty, ptrunc_nonneg hq, floor_int_div, imod_pos _ 60 (by norm_num)]
  · have : ¬ (ple 60.0 (M : ℚ) = true) := by rw [ple_iff]; norm_num; exact_mod_cast (not_le.mp h)
    rw [if_neg this]
    have h' : M < 60 := by exact_mod_cast (not_le.mp h)
    have e1 : M / 60 = 0 := Int.ediv_eq_zero_of_lt hM h'
    have e2 : M % 60 = M := Int.emod_eq_of_lt hM h'
    rw [e1, e2]; simp

/-- `reduce_dms` in closed form on the magnitudes `a = |d|`, `b = |m|`, `c = |s|`. -/
def dmsMin (a b : ℚ) : ℚ := b + Int.fract a * 60
def dmsSec (a b c : ℚ) : ℚ := c + Int.fract (dmsMin a b) * 60
def dmsM1 (a b c : ℚ) : ℤ := ⌊dmsMin a b⌋ + ⌊dmsSec a b c / 60⌋

theorem reduce_dms_closed (d m s : ℚ) :
    reduce_dms d m s =
      ((⌊|d|⌋ + dmsM1 |d| |m| |s| / 60) % 360, dmsM1 |d| |m| |s| % 60,
       dmsSec |d| |m| |s| - 60 * ((⌊dmsSec |d| |m| |s| / 60⌋ : ℤ) : ℚ),
       if d < 0 ∨ m < 0 ∨ s < 0 then (-1 : ℚ) else 1) := by
  unfold reduce_dms
  have hmin : 0 ≤ dmsMin |d| |m| := by
    unfold dmsMin; have := Int.fract_nonneg |d|; have := abs_nonneg m; positivity
  have hsec : 0 ≤ dmsSec |d| |m| |s| := by
    unfold dmsSec; have := Int.fract_nonneg (dmsMin |d| |m|); have := abs_nonneg s; positivity
  have hM1 : 0 ≤ dmsM1 |d| |m| |s| := by
    unfold dmsM1
    have h1 : 0 ≤ ⌊dmsMin |d| |m|⌋ := Int.floor_nonneg.mpr hmin
    have h2 : 0 ≤ ⌊dmsSec |d| |m| |s| / 60⌋ := Int.floor_nonneg.mpr (by positivity)
    omega
  simp only [pabs_eq, pmod_one, sixty, push_fract, ptrunc_nonneg (abs_nonneg d)]
  rw [show |m| + Int.fract |d| * 60 = dmsMin |d| |m| from rfl]
  rw [show |s| + Int.fract (dmsMin |d| |m|) * 60 = dmsSec |d| |m| |s| from rfl]
  rw [ptrunc_nonneg hmin]
  have := carry_sec ⌊dmsMin |d| |m|⌋ hsec
  rw [sixty] at this
  simp only [this]
  rw [show ⌊dmsMin |d| |m|⌋ + ⌊dmsSec |d| |m| |s| / 60⌋ = dmsM1 |d| |m| |s| from rfl]
  have := carry_min ⌊|d|⌋ hM1
  rw [sixty] at this
  simp only [this, imod_pos _ 360 (by norm_num)]
  congr 3
  simp only [plt, Bool.or_eq_true, decide_eq_true_eq]
  by_cases h : d < 0 ∨ m < 0 ∨ s < 0
  · have h' : (d < 0 ∨ m < 0) ∨ s < 0 := by tauto
    simp only [h, h', if_true]; norm_num
  · have h' : ¬ ((d < 0 ∨ m < 0) ∨ s < 0) := by tauto
    simp only [h, h', if_false]; norm_num


/-- The sign rule of the sexagesimal input: negative as soon as one piece is negative. -/
def dmsSign (d m s : ℚ) : ℚ := if d < 0 ∨ m < 0 ∨ s < 0 then -1 else 1

/-- The unsigned part `de + mi/60 + se/3600` of `dms2deg` is in [0, 360) and differs from
    `|d| + |m|/60 + |s|/3600` by a whole number of turns. -/
theorem reduce_dms_value (d m s : ℚ) :
    ∃ P : ℚ, dms2deg d m s = dmsSign d m s * P ∧ 0 ≤ P ∧ P < 360 ∧
      ∃ k : ℤ, |d| + |m| / 60 + |s| / 3600 = P + 360 * k := by
  unfold dms2deg
  rw [reduce_dms_closed]
  simp only [ofInt, sixty, show (3600.0 : ℚ) = 3600 by norm_num]
  set a := |d| with ha
  set b := |m| with hb
  set c := |s| with hc
  have ha0 : 0 ≤ a := abs_nonneg d
  have hb0 : 0 ≤ b := abs_nonneg m
  have hc0 : 0 ≤ c := abs_nonneg s
  have hfa0 := Int.fract_nonneg a
  have hmin : 0 ≤ dmsMin a b := by unfold dmsMin; positivity
  have hfm0 := Int.fract_nonneg (dmsMin a b)
  have hsec : 0 ≤ dmsSec a b c := by unfold dmsSec; positivity
  have e1 : ((⌊a⌋ : ℤ) : ℚ) + Int.fract a = a := Int.floor_add_fract a
  have e2 : ((⌊dmsMin a b⌋ : ℤ) : ℚ) + Int.fract (dmsMin a b) = dmsMin a b := Int.floor_add_fract _
  have e2' : dmsMin a b = b + Int.fract a * 60 := rfl
  have e3 : dmsSec a b c = c + Int.fract (dmsMin a b) * 60 := rfl
  have hq1 := Int.floor_le (dmsSec a b c / 60)
  have hq2 := Int.lt_floor_add_one (dmsSec a b c / 60)
  rw [le_div_iff₀ (by norm_num)] at hq1
  rw [div_lt_iff₀ (by norm_num)] at hq2
  have hM1 : dmsM1 a b c = ⌊dmsMin a b⌋ + ⌊dmsSec a b c / 60⌋ := rfl
  set M1 := dmsM1 a b c with hM1d
  have hM1n : 0 ≤ M1 := by
    have h1 : 0 ≤ ⌊dmsMin a b⌋ := Int.floor_nonneg.mpr hmin
    have h2 : 0 ≤ ⌊dmsSec a b c / 60⌋ := Int.floor_nonneg.mpr (by positivity)
    omega
  have e5 : M1 = 60 * (M1 / 60) + M1 % 60 := (Int.mul_ediv_add_emod M1 60).symm
  have m0 : 0 ≤ M1 % 60 := Int.emod_nonneg _ (by norm_num)
  have m1 : M1 % 60 < 60 := Int.emod_lt_of_pos _ (by norm_num)
  set T := ⌊a⌋ + M1 / 60 with hT
  have e6 : T = 360 * (T / 360) + T % 360 := (Int.mul_ediv_add_emod T 360).symm
  have t0 : 0 ≤ T % 360 := Int.emod_nonneg _ (by norm_num)
  have t1 : T % 360 < 360 := Int.emod_lt_of_pos _ (by norm_num)
  have hM1q : (M1 : ℚ) = ((⌊dmsMin a b⌋ : ℤ) : ℚ) + ((⌊dmsSec a b c / 60⌋ : ℤ) : ℚ) := by
    rw [hM1]; push_cast; ring
  have e5q : (M1 : ℚ) = 60 * ((M1 / 60 : ℤ) : ℚ) + ((M1 % 60 : ℤ) : ℚ) := by exact_mod_cast e5
  have e6q : (T : ℚ) = 360 * ((T / 360 : ℤ) : ℚ) + ((T % 360 : ℤ) : ℚ) := by exact_mod_cast e6
  have hTq : (T : ℚ) = ((⌊a⌋ : ℤ) : ℚ) + ((M1 / 60 : ℤ) : ℚ) := by rw [hT]; push_cast; ring
  have m0q : (0 : ℚ) ≤ ((M1 % 60 : ℤ) : ℚ) := by exact_mod_cast m0
  have m1q : ((M1 % 60 : ℤ) : ℚ) ≤ 59 := by exact_mod_cast (by omega : M1 % 60 ≤ 59)
  have t0q : (0 : ℚ) ≤ ((T % 360 : ℤ) : ℚ) := by exact_mod_cast t0
  have t1q : ((T % 360 : ℤ) : ℚ) ≤ 359 := by exact_mod_cast (by omega : T % 360 ≤ 359)
  set P : ℚ := ((T % 360 : ℤ) : ℚ) + ((M1 % 60 : ℤ) : ℚ) / 60 +
      (dmsSec a b c - 60 * ((⌊dmsSec a b c / 60⌋ : ℤ) : ℚ)) / 3600 with hP
  have hP0 : 0 ≤ P := by rw [hP]; linarith
  have hP1 : P < 360 := by rw [hP]; linarith
  refine ⟨P, ?_, hP0, hP1, T / 360, by rw [hP]; linarith⟩
  -- the final `reduce_deg` is the identity: the exact sum is already inside (-360, 360)
  have hin : |dmsSign d m s * P| < 360 := by
    unfold dmsSign
    split_ifs
    · rw [abs_of_nonpos (by linarith)]; linarith
    · rw [abs_of_nonneg (by linarith)]; linarith
  have : (if d < 0 ∨ m < 0 ∨ s < 0 then (-1 : ℚ) else 1) = dmsSign d m s := rfl
  rw [this, reduce_deg_of_lt hin]

/-- C03.dms: `dms2deg` of any three rationals. -/
theorem dms2deg_spec (d m s : ℚ) :
    |dms2deg d m s| < 360 ∧
    ∃ k : ℤ, dmsSign d m s * (|d| + |m| / 60 + |s| / 3600) = dms2deg d m s + 360 * k := by
  obtain ⟨P, hP, h0, h1, k, hk⟩ := reduce_dms_value d m s
  rw [hP]
  unfold dmsSign
  split_ifs with h
  · refine ⟨by rw [abs_of_nonpos (by linarith)]; linarith, -k, by push_cast; linarith⟩
  · refine ⟨by rw [abs_of_nonneg (by linarith)]; linarith, k, by linarith⟩


/-! ### round(x, n) -/

theorem pround_spec (x : ℚ) : |x - (pround x : ℤ)| ≤ 1 / 2 := by
  have h1 := Int.floor_le x
  have h2 := Int.lt_floor_add_one x
  have key : (pround x = ⌊x⌋ ∧ x - ⌊x⌋ ≤ 1 / 2) ∨ (pround x = ⌊x⌋ + 1 ∧ 1 / 2 ≤ x - ⌊x⌋) := by
    unfold pround
    show (_ : ℤ) = _ ∧ _ ∨ (_ : ℤ) = _ ∧ _
    by_cases a : x - (x.floor : ℚ) < 1 / 2
    · left; simp only [if_pos a]; exact ⟨rfl, a.le⟩
    · simp only [if_neg a]
      by_cases b : 1 / 2 < x - (x.floor : ℚ)
      · right; simp only [if_pos b]; exact ⟨rfl, b.le⟩
      · simp only [if_neg b]
        by_cases c : x.floor % 2 = 0
        · left; simp only [if_pos c]; exact ⟨rfl, not_lt.mp b⟩
        · right; simp only [if_neg c]; exact ⟨rfl, not_lt.mp a⟩
  rcases key with ⟨e, h⟩ | ⟨e, h⟩
  · rw [e, abs_of_nonneg (by linarith)]; linarith
  · rw [e]; push_cast; rw [abs_of_nonpos (by linarith)]; linarith

theorem pround_le_int {x : ℚ} {N : ℤ} (h : x ≤ N) : pround x ≤ N := by
  have hs := pround_spec x
  rw [abs_le] at hs
  have : ((pround x : ℤ) : ℚ) < (N : ℚ) + 1 := by linarith [hs.1]
  have : pround x < N + 1 := by exact_mod_cast this
  omega

theorem pround_nonneg {x : ℚ} (h : 0 ≤ x) : 0 ≤ pround x := by
  have hs := pround_spec x
  rw [abs_le] at hs
  have : (-1 : ℚ) < ((pround x : ℤ) : ℚ) := by linarith [hs.2]
  have : (-1 : ℤ) < pround x := by exact_mod_cast this
  omega

theorem pow10_pos (n : ℤ) : 0 < pow10 n := by
  unfold pow10
  split_ifs <;> positivity

theorem pow10_nat {n : ℤ} (h : 0 ≤ n) : pow10 n = ((10 ^ n.toNat : ℕ) : ℚ) := by
  unfold pow10; rw [if_pos h]

/-- `round(x, n)` is within half a unit of the n-th decimal of `x`. -/
theorem proundn_spec (x : ℚ) (n : ℤ) : |x - proundn x n| ≤ 1 / (2 * pow10 n) := by
  unfold proundn
  have hp := pow10_pos n
  have hs := pround_spec (x * pow10 n)
  have : x - ((pround (x * pow10 n) : ℤ) : ℚ) / pow10 n = (x * pow10 n - ((pround (x * pow10 n) : ℤ) : ℚ)) / pow10 n := by
    field_simp
  rw [this, abs_div, abs_of_pos hp, div_le_div_iff₀ hp (by positivity)]
  nlinarith [abs_nonneg (x * pow10 n - ((pround (x * pow10 n) : ℤ) : ℚ))]

theorem proundn_nonneg {x : ℚ} (h : 0 ≤ x) (n : ℤ) : 0 ≤ proundn x n := by
  unfold proundn
  have hp := pow10_pos n
  have : 0 ≤ pround (x * pow10 n) := pround_nonneg (by positivity)
  have : (0 : ℚ) ≤ ((pround (x * pow10 n) : ℤ) : ℚ) := by exact_mod_cast this
  positivity

/-- Rounding at a non-negative decimal never passes an integer bound. -/
theorem proundn_le_int {x : ℚ} {N : ℤ} (h : x ≤ N) {n : ℤ} (hn : 0 ≤ n) : proundn x n ≤ N := by
  unfold proundn
  have hp := pow10_pos n
  rw [div_le_iff₀ hp, pow10_nat hn]
  have hx : x * ((10 ^ n.toNat : ℕ) : ℚ) ≤ ((N * (10 ^ n.toNat : ℕ) : ℤ) : ℚ) := by
    push_cast
    exact mul_le_mul_of_nonneg_right h (by positivity)
  have := pround_le_int hx
  exact_mod_cast this

/-- A multiple of 10^-n (n ≤ 10) closer than 1e-10 to an integer is that integer. -/
theorem proundn_eq_int_of_close {x : ℚ} {N : ℤ} {n : ℤ} (hn0 : 0 ≤ n) (hn : n ≤ 10)
    (h : |proundn x n - N| < TOL) : proundn x n = N := by
  unfold proundn at h ⊢
  have hp := pow10_pos n
  rw [pow10_nat hn0] at h hp ⊢
  set p : ℕ := 10 ^ n.toNat with hpdef
  set k : ℤ := pround (x * (p : ℚ)) with hk
  have hple : (p : ℚ) ≤ 10 ^ 10 := by
    have : n.toNat ≤ 10 := by omega
    have : p ≤ 10 ^ 10 := Nat.pow_le_pow_right (by norm_num) this
    exact_mod_cast this
  have e : (k : ℚ) / (p : ℚ) - N = ((k - N * p : ℤ) : ℚ) / (p : ℚ) := by
    push_cast; field_simp
  rw [e, abs_div, abs_of_pos hp, div_lt_iff₀ hp] at h
  have hT : TOL = 1 / 10 ^ 10 := by unfold TOL; norm_num
  rw [hT] at h
  have h1 : |((k - N * p : ℤ) : ℚ)| < 1 := by
    calc |((k - N * p : ℤ) : ℚ)| < 1 / 10 ^ 10 * (p : ℚ) := h
      _ ≤ 1 / 10 ^ 10 * 10 ^ 10 := by apply mul_le_mul_of_nonneg_left hple; positivity
      _ = 1 := by norm_num
  have h2 : |(k - N * p : ℤ)| < 1 := by exact_mod_cast h1
  have h3 : k - N * p = 0 := by rw [abs_lt] at h2; omega
  have h5 : k = N * p := by omega
  have h4 : (k : ℚ) = N * p := by exact_mod_cast h5
  rw [h4]; field_simp


/-! ### dms_str: rounding / carry chain -/

theorem abs_int_lt_tol (k : ℤ) : |(k : ℚ) - 60| < TOL ↔ k = 60 := by
  have hT : TOL = 1 / 10 ^ 10 := by unfold TOL; norm_num
  constructor
  · intro h
    rw [hT] at h
    have h1 : |((k - 60 : ℤ) : ℚ)| < 1 := by push_cast; linarith [h, (by norm_num : (1 : ℚ) / 10 ^ 10 < 1)]
    have h2 : |(k - 60 : ℤ)| < 1 := by exact_mod_cast h1
    rw [abs_lt] at h2; omega
  · intro h; rw [h, hT]; norm_num

theorem TOL_pos : (0 : ℚ) < TOL := by unfold TOL; norm_num

/-- The rounding / carry chain of `dms_str` for `n_dec ≥ 0`, from canonical fields `d m s`. -/
theorem dms_fields_spec {x : ℚ} {n : ℤ} {d m : ℤ} {s sg : ℚ} (h : deg2dms x = (d, m, s, sg))
    (hd0 : 0 ≤ d) (hd : d < 360) (hm0 : 0 ≤ m) (hm : m < 60) (hs0 : 0 ≤ s) (hs : s < 60) (hn : 0 ≤ n) :
    ∃ (D M : ℤ) (S e : ℚ), dms_fields x n = (D, M, S, sg) ∧ 0 ≤ D ∧ D < 360 ∧ D ≤ d + 1 ∧ 0 ≤ M ∧ M < 60 ∧ 0 ≤ S ∧ S < 60 ∧
      |e| < TOL ∧ (n ≤ 10 → e = 0) ∧
      ((D : ℚ) + (M : ℚ) / 60 + S / 3600 = (d : ℚ) + (m : ℚ) / 60 + (proundn s n + e) / 3600 ∨
       (D : ℚ) + (M : ℚ) / 60 + S / 3600 = (d : ℚ) + (m : ℚ) / 60 + (proundn s n + e) / 3600 - 360) := by
  have hs' := proundn_nonneg hs0 n
  have hs'' : proundn s n ≤ ((60 : ℤ) : ℚ) := proundn_le_int (by push_cast; linarith) hn
  push_cast at hs''
  have hT := TOL_pos
  unfold dms_fields
  rw [h]
  simp only [ge_iff_le, hn, if_true]
  split_ifs <;>
    simp only [plt_iff, ple_iff, pabs_eq, ofInt, sixty, show (360.0 : ℚ) = 360 by norm_num,
      show (0.0 : ℚ) = 0 by norm_num, abs_int_lt_tol] at *
  · -- seconds carry, minutes carry, degrees wrap: d = 359, m = 59
    rename_i c1 c2 c3
    have c3' : 360 ≤ d + 1 := by exact_mod_cast c3
    have hd' : d = 359 := by omega
    have hm' : m = 59 := by omega
    refine ⟨_, _, _, 60 - proundn s n, rfl, by omega, by omega, by omega, le_refl _, by norm_num, le_refl _, by norm_num, ?_, ?_, Or.inr ?_⟩
    · rw [abs_sub_comm]; exact c1
    · intro h10; rw [proundn_eq_int_of_close hn h10 (N := 60) (by push_cast; exact c1)]; push_cast; ring
    · rw [hd', hm']; push_cast; ring
  · -- seconds carry, minutes carry
    rename_i c1 c2 c3
    have c3' : ¬ (360 ≤ d + 1) := by intro hh; apply c3; exact_mod_cast hh
    have hm' : m = 59 := by omega
    refine ⟨_, _, _, 60 - proundn s n, rfl, by omega, by omega, by omega, le_refl _, by norm_num, le_refl _, by norm_num, ?_, ?_, Or.inl ?_⟩
    · rw [abs_sub_comm]; exact c1
    · intro h10; rw [proundn_eq_int_of_close hn h10 (N := 60) (by push_cast; exact c1)]; push_cast; ring
    · rw [hm']; push_cast; ring
  · rename_i c1 c2 c3
    have c3' : 360 ≤ d := by exact_mod_cast c3
    omega
  · -- seconds carry only
    rename_i c1 c2 c3
    refine ⟨_, _, _, 60 - proundn s n, rfl, hd0, hd, by omega, by omega, by omega, le_refl _, by norm_num, ?_, ?_, Or.inl ?_⟩
    · rw [abs_sub_comm]; exact c1
    · intro h10; rw [proundn_eq_int_of_close hn h10 (N := 60) (by push_cast; exact c1)]; push_cast; ring
    · push_cast; ring
  · rename_i c1 c2 c3; omega
  · rename_i c1 c2 c3; omega
  · rename_i c1 c2 c3
    have c3' : 360 ≤ d := by exact_mod_cast c3
    omega
  · -- no carry
    rename_i c1 c2 c3
    have hne : proundn s n ≠ 60 := by
      intro he; apply c1; rw [he]; simpa using hT
    refine ⟨_, _, _, 0, rfl, hd0, hd, by omega, hm0, hm, hs', lt_of_le_of_ne hs'' hne, by simpa using hT, fun _ => rfl, Or.inl ?_⟩
    ring

/-! ### small facts used by the operator theorems -/

theorem ptrunc_intCast (k : ℤ) : ptrunc (k : ℚ) = k := by
  unfold ptrunc
  split_ifs with h
  · rw [rfloor]; exact Int.floor_intCast k
  · rw [rfloor, show (-(k : ℚ)) = ((-k : ℤ) : ℚ) by push_cast; ring, Int.floor_intCast]; ring

/-- `Angle(x)`: in range, congruent to `x`, default tolerance. -/
theorem mk_spec (x : ℚ) : |(mk x).deg| < 360 ∧ (∃ k : ℤ, x = (mk x).deg + 360 * k) ∧ (mk x).tol = TOL :=
  ⟨(reduce_deg_spec x).1, (reduce_deg_spec x).2.1, rfl⟩

/-- `x ** n` for an int exponent is the integer power of the field. -/
theorem ppowi_ok {x : ℚ} {n : ℤ} (h : 0 ≤ n ∨ x ≠ 0) : ppowi x n = .ok (x ^ n) := by
  unfold ppowi
  by_cases hn : 0 ≤ n
  · rw [if_pos hn]
    congr 1
    conv_rhs => rw [← Int.toNat_of_nonneg hn]
    rw [zpow_natCast]
  · rw [if_neg hn]
    have hx : x ≠ 0 := by rcases h with h | h; exact absurd h hn; exact h
    rw [if_neg hx]
    congr 1
    have : n = -((-n).toNat : ℤ) := by rw [Int.toNat_of_nonneg (by omega)]; ring
    conv_rhs => rw [this]
    rw [zpow_neg, zpow_natCast, one_div]


/-- The body shared by `__mod__` and `__rmod__`: `Angle(sign * (abs(x) % y))`. -/
def modBody (x y : ℚ) : PyRes Angle :=
  match pmodE (pabs x) y with
  | .ok r => .ok (mk ((if ple 0.0 x = true then (1.0 : ℚ) else -1.0) * r))
  | .error e => .error e

theorem modBody_zero (x : ℚ) : modBody x 0 = .error .zeroDivisionError := by
  unfold modBody pmodE; simp

theorem modBody_ok (x : ℚ) {y : ℚ} (h : y ≠ 0) :
    ∃ r : Angle, modBody x y = .ok r ∧ |r.deg| < 360 ∧
      ∃ k : ℤ, (if 0 ≤ x then (1 : ℚ) else -1) * (|x| - y * ⌊|x| / y⌋) = r.deg + 360 * k := by
  have hp : pmodE (pabs x) y = .ok (|x| - y * ⌊|x| / y⌋) := by
    unfold pmodE pmod; rw [if_neg h, pabs_eq]; rfl
  refine ⟨mk ((if ple 0.0 x = true then (1.0 : ℚ) else -1.0) * (|x| - y * ⌊|x| / y⌋)), ?_, (mk_spec _).1, ?_⟩
  · unfold modBody; rw [hp]
  · obtain ⟨k, hk⟩ := (mk_spec ((if ple 0.0 x = true then (1.0 : ℚ) else -1.0) * (|x| - y * ⌊|x| / y⌋))).2.1
    refine ⟨k, ?_⟩
    rw [← hk]
    by_cases h0 : 0 ≤ x
    · have : ple 0.0 x = true := by rw [ple_iff]; norm_num; exact h0
      rw [if_pos this, if_pos h0]; norm_num
    · have : ¬ (ple 0.0 x = true) := by rw [ple_iff]; norm_num; exact not_le.mp h0
      rw [if_neg this, if_neg h0]; norm_num

theorem angle_mod_eq (a : Angle) (b : Operand) : angle_mod a b = modBody a.deg b.val := rfl

theorem angle_rmod_eq (a : Angle) (b : Operand) : angle_rmod a b = modBody b.val a.deg := rfl

/-- `reduce_dms` returns canonical fields that keep the magnitude up to whole turns, and the sign rule. -/
theorem reduce_dms_fields (d m s : ℚ) :
    ∃ (D M : ℤ) (S : ℚ), reduce_dms d m s = (D, M, S, dmsSign d m s) ∧
      0 ≤ D ∧ D < 360 ∧ 0 ≤ M ∧ M < 60 ∧ 0 ≤ S ∧ S < 60 ∧
      ∃ k : ℤ, |d| + |m| / 60 + |s| / 3600 = (D : ℚ) + (M : ℚ) / 60 + S / 3600 + 360 * k := by
  rw [reduce_dms_closed]
  set a := |d| with ha
  set b := |m| with hb
  set c := |s| with hc
  have ha0 : 0 ≤ a := abs_nonneg d
  have hb0 : 0 ≤ b := abs_nonneg m
  have hc0 : 0 ≤ c := abs_nonneg s
  have hfa0 := Int.fract_nonneg a
  have hmin : 0 ≤ dmsMin a b := by unfold dmsMin; positivity
  have hfm0 := Int.fract_nonneg (dmsMin a b)
  have hsec : 0 ≤ dmsSec a b c := by unfold dmsSec; positivity
  have e1 : ((⌊a⌋ : ℤ) : ℚ) + Int.fract a = a := Int.floor_add_fract a
  have e2 : ((⌊dmsMin a b⌋ : ℤ) : ℚ) + Int.fract (dmsMin a b) = dmsMin a b := Int.floor_add_fract _
  have e2' : dmsMin a b = b + Int.fract a * 60 := rfl
  have e3 : dmsSec a b c = c + Int.fract (dmsMin a b) * 60 := rfl
  have hq1 := Int.floor_le (dmsSec a b c / 60)
  have hq2 := Int.lt_floor_add_one (dmsSec a b c / 60)
  rw [le_div_iff₀ (by norm_num)] at hq1
  rw [div_lt_iff₀ (by norm_num)] at hq2
  have hM1 : dmsM1 a b c = ⌊dmsMin a b⌋ + ⌊dmsSec a b c / 60⌋ := rfl
  set M1 := dmsM1 a b c with hM1d
  have e5 : M1 = 60 * (M1 / 60) + M1 % 60 := (Int.mul_ediv_add_emod M1 60).symm
  have m0 : 0 ≤ M1 % 60 := Int.emod_nonneg _ (by norm_num)
  have m1 : M1 % 60 < 60 := Int.emod_lt_of_pos _ (by norm_num)
  set T := ⌊a⌋ + M1 / 60 with hT
  have e6 : T = 360 * (T / 360) + T % 360 := (Int.mul_ediv_add_emod T 360).symm
  have t0 : 0 ≤ T % 360 := Int.emod_nonneg _ (by norm_num)
  have t1 : T % 360 < 360 := Int.emod_lt_of_pos _ (by norm_num)
  have hM1q : (M1 : ℚ) = ((⌊dmsMin a b⌋ : ℤ) : ℚ) + ((⌊dmsSec a b c / 60⌋ : ℤ) : ℚ) := by
    rw [hM1]; push_cast; ring
  have e5q : (M1 : ℚ) = 60 * ((M1 / 60 : ℤ) : ℚ) + ((M1 % 60 : ℤ) : ℚ) := by exact_mod_cast e5
  have e6q : (T : ℚ) = 360 * ((T / 360 : ℤ) : ℚ) + ((T % 360 : ℤ) : ℚ) := by exact_mod_cast e6
  have hTq : (T : ℚ) = ((⌊a⌋ : ℤ) : ℚ) + ((M1 / 60 : ℤ) : ℚ) := by rw [hT]; push_cast; ring
  exact ⟨_, _, _, rfl, t0, t1, m0, m1, by linarith, by linarith, T / 360, by linarith⟩

end Pymeeus.Refine
