import Pymeeus.Refine.DayOfYear
import Pymeeus.Refine.Ordinal
/-
`Epoch.doy2date` inverts `Epoch.get_doy` on valid civil dates, in both calendars.
-/
namespace Pymeeus.Refine
open Pymeeus Pymeeus.PQ Pymeeus.GenQ Pymeeus.Spec

theorem floor_9_275 (x : Int) : pfloor ((9.0 * ofInt x) / 275.0 + 0.98) = (900 * x + 26950) / 27500 := by
  unfold pfloor ofInt
  apply rat_floor_eq_div _ _ (by norm_num)
  norm_num; ring

/-- pure integer statement behind the formula branch of `doy2date` -/
theorem doy2date_arith (m d k n : Int) (hm1 : 1 ≤ m) (hm12 : m ≤ 12) (hd1 : 1 ≤ d) (hd31 : d ≤ 31)
    (hk : k = 1 ∨ k = 2) (hfeb : m = 2 → d ≤ 28 ∨ (d = 29 ∧ k = 1))
    (h30 : (m = 4 ∨ m = 6 ∨ m = 9 ∨ m = 11) → d ≤ 30)
    (hn : n = 275 * m / 9 - k * ((m + 9) / 12) + d - 30) :
    1 ≤ n ∧ (if n < 32 then 1 else (900 * (k + n) + 26950) / 27500) = m ∧
      n - 275 * m / 9 + k * ((m + 9) / 12) + 30 = d := by
  subst hn
  rcases hk with hk | hk <;> subst hk <;> interval_cases m <;> refine ⟨by omega, ?_, by omega⟩ <;> split_ifs <;> omega

/-- integer core of the formula branch of `doy2date` (years ≤ 1582) on the integer day of year -/
theorem doy2date_formula (y m d N N' k : Int) (h : Valid y m d) (hy : ¬ y > 1582)
    (hNd : N = doyI y m d) (hN'd : N' = if y = 1582 ∧ N > 277 then N + 10 else N)
    (hkd : k = if Spec.leap y then 1 else 2) :
    1 ≤ N ∧ (if N' < 32 then 1 else (900 * (k + N') + 26950) / 27500) = m ∧
      N' - 275 * m / 9 + k * ((m + 9) / 12) + 30 = d := by
  obtain ⟨hy0, hm1, hm12, hd1, hdl, hgap⟩ := h
  have hk : k = 1 ∨ k = 2 := by rw [hkd]; split_ifs <;> simp
  have hk2 : y = 1582 → k = 2 := by
    intro h; subst h; rw [hkd]; simp [Spec.leap]
  have hN : N = 275 * m / 9 - k * ((m + 9) / 12) + d - 30
      - (if y = 1582 ∧ (m > 10 ∨ (m = 10 ∧ d ≥ 15)) then 10 else 0) := by
    rw [hNd, hkd]; simp only [doyI, hy, if_false]; split_ifs <;> omega
  unfold monthLen at hdl
  have hd31 : d ≤ 31 := by split_ifs at hdl <;> omega
  have hfeb : m = 2 → d ≤ 28 ∨ (d = 29 ∧ k = 1) := by
    intro h2; subst h2; simp only [if_true] at hdl
    by_cases hl : Spec.leap y = true
    · simp only [hl, if_true] at hdl hkd; omega
    · left; simp only [hl] at hdl; simpa using hdl
  have h30 : (m = 4 ∨ m = 6 ∨ m = 9 ∨ m = 11) → d ≤ 30 := by
    intro h4; have : ¬ m = 2 := by omega
    simp only [this, h4, if_true, if_false] at hdl; exact hdl
  clear hdl hNd hkd
  obtain ⟨a1, a2, a3⟩ := doy2date_arith m d k _ hm1 hm12 hd1 hd31 hk hfeb h30 rfl
  have hN'' : N' = 275 * m / 9 - k * ((m + 9) / 12) + d - 30 := by
    rw [hN'd]
    by_cases c : y = 1582
    · have := hk2 c
      subst this
      interval_cases m <;> split_ifs at hN ⊢ <;> omega
    · have c1 : ¬ (y = 1582 ∧ N > 277) := by omega
      have c2 : ¬ (y = 1582 ∧ (m > 10 ∨ (m = 10 ∧ d ≥ 15))) := by omega
      simp only [c1, c2, if_false] at hN ⊢; omega
  rw [← hN''] at a1 a2 a3
  refine ⟨?_, a2, a3⟩
  by_cases c : y = 1582 ∧ (m > 10 ∨ (m = 10 ∧ d ≥ 15))
  · simp only [c, and_self, if_true] at hN
    have := hk2 c.1
    subst this
    obtain ⟨c0, c1⟩ := c
    interval_cases m <;> omega
  · simp only [c, if_false] at hN; omega


theorem doyI_pos (y m d : Int) (h : Valid y m d) : 1 ≤ doyI y m d := by
  by_cases hy : y > 1582
  · obtain ⟨hy0, hm1, hm12, hd1, hdl, hgap⟩ := h
    have : 0 ≤ dt_days_before_month y m := by
      unfold dt_days_before_month
      interval_cases m <;> simp [days_before_month_tbl] <;> split_ifs <;> omega
    simp only [doyI, hy, if_true]; omega
  · exact (doy2date_formula y m d _ _ _ h hy rfl rfl rfl).1

/-- `doy2date(y, get_doy(y, m, d + f)) = (y, m, d + f)` on the exact model, both calendars. -/
theorem doy2date_doyI (y m d : Int) (f : ℚ) (h : Valid y m d) (hy : y ≤ 9999) (hf0 : 0 ≤ f) (hf1 : f < 1) :
    doy2date y ((doyI y m d : ℚ) + f) = .ok (y, m, (d : ℚ) + f) := by
  have hpos := doyI_pos y m d h
  unfold doy2date
  simp only [ptrunc_add_frac (doyI y m d) f (by omega) hf0 hf1, pmod_add_frac (doyI y m d) f hf0 hf1]
  by_cases c : y > 1582
  · obtain ⟨hy0, hm1, hm12, hd1, hdl, hgap⟩ := h
    have c2 : ¬ y > 2147483647 := by omega
    have v1 : dt_valid y 1 1 = true := by
      unfold dt_valid dt_days_in_month; simp [maxdays]; omega
    have v : dt_valid y m d = true := by
      unfold dt_valid
      rw [dt_days_in_month_eq y m (by omega) hm1 hm12]
      simp; omega
    have e : dt_toordinal y 1 1 + doyI y m d - 1 = dt_toordinal y m d := by
      simp only [doyI, c, if_true]
      unfold dt_toordinal
      have : dt_days_before_month y 1 = 0 := by simp [dt_days_before_month, days_before_month_tbl]
      rw [this]; ring
    simp only [c, c2, v1, if_true, if_false, Bool.not_true, Bool.false_eq_true, e, dt_fromordinal_toordinal y m d v, ofInt]
  · obtain ⟨a1, a2, a3⟩ := doy2date_formula y m d _ _ _ h c rfl rfl rfl
    simp only [c, if_false, is_leap_spec, floor_9_275, floor_275, floor_m9]
    simp only [a2, a3, ofInt]

end Pymeeus.Refine
