import Pymeeus.Refine.Moon
/-
Finder-specific lemmas for property C15.  The numerical amplitude sums are evaluated here on the
term lists generated from the current source (`Pymeeus.MoonData`, tools/gen_moon.py): an edit of
a coefficient in pymeeus/Moon.py regenerates the list and these `norm_num` evaluations are
re-run against it.

Domain: fractional years in [-2000, 4002]  ⇒  |t| = |k / (lunations per century)| ≤ 41,
where `|E(t)| ≤ 28/25`.
-/
noncomputable section
namespace Pymeeus.GenR.MoonM
open Pymeeus Pymeeus.PR Pymeeus.Moon Pymeeus.MoonData

theorem abs_ecc_le_41 {t : ℝ} (ht : |t| ≤ 41) : |ecc t| ≤ 28 / 25 := by
  have := abs_ecc_le ht
  norm_num at this ⊢
  linarith

/-! ### generic: results of a finder in the normal form `J + P k + e(k)` -/

/-- If the lunation counts are `m₁ ≤ m₂` (plus a common offset), the error terms are bounded by
    `B` and `2 B < P`, the results are ordered, and strictly so when `m₁ < m₂`. -/
theorem nf_mono {J P B e1 e2 off : ℝ} {m1 m2 : ℤ} (hP : 2 * B < P) (h1 : |e1| ≤ B) (h2 : |e2| ≤ B)
    (hm : m1 < m2) :
    J + P * ((m1 : ℝ) + off) + e1 < J + P * ((m2 : ℝ) + off) + e2 := by
  have a := abs_le.mp h1
  have b := abs_le.mp h2
  have hB : 0 ≤ B := (abs_nonneg e1).trans h1
  have : ((m1 : ℝ)) + 1 ≤ (m2 : ℝ) := by exact_mod_cast hm
  have hP0 : 0 < P := by linarith
  nlinarith [a.1, a.2, b.1, b.2]

/-- `|t| ≤ 41` from the size of the unrounded count -/
theorem t_range_of {x off div X : ℝ} {m : ℤ} (hm : |(m : ℝ) - x| ≤ 1 / 2) (hx1 : -X ≤ x) (hx2 : x ≤ X)
    (ho0 : 0 ≤ off) (ho1 : off ≤ 3 / 4) (hd : 0 < div) (hX : X + 5 / 4 ≤ 41 * div) :
    |((m : ℝ) + off) / div| ≤ 41 := by
  have hr := abs_le.mp hm
  rw [abs_div, abs_of_pos hd, div_le_iff₀ hd, abs_le]
  constructor <;> linarith [hr.1, hr.2]

/-! ### moon_phase -/

set_option maxRecDepth 4000 in
theorem tsum_phase_new : tsum (28 / 25) 41 phase_corr_new ≤ 648 / 1000 := by
  norm_num [tsum, tbound, dabs, phase_corr_new]
set_option maxRecDepth 4000 in
theorem tsum_phase_full : tsum (28 / 25) 41 phase_corr_full ≤ 648 / 1000 := by
  norm_num [tsum, tbound, dabs, phase_corr_full]
set_option maxRecDepth 4000 in
theorem tsum_phase_quarter : tsum (28 / 25) 41 phase_corr_quarter ≤ 8631 / 10000 := by
  norm_num [tsum, tbound, dabs, phase_corr_quarter]
set_option maxRecDepth 4000 in
theorem tsum_phase_w : tsum (28 / 25) 41 phase_w_quarter ≤ 39 / 10000 := by
  norm_num [tsum, tbound, dabs, phase_w_quarter]
set_option maxRecDepth 4000 in
theorem tsum_phase_corr2 : tsum (28 / 25) 41 phase_corr2 ≤ 13 / 10000 := by
  norm_num [tsum, tbound, dabs, phase_corr2]

/-- bound of `corr + corr2 + w` per target (days) -/
def phaseC (s : String) : ℝ := if s = "new" ∨ s = "full" then 65 / 100 else 87 / 100

theorem abs_phase_corr_le (k : ℝ) (s : String) (hk : |k / 1236.85| ≤ 41) : |phase_corr k s| ≤ phaseC s := by
  have hE := abs_ecc_le_41 hk
  unfold phase_corr phaseC
  simp only
  generalize hM : pradians (red_pos (2.5534 + 29.1053567 * k + (-0.0000014 - 0.00000011 * (k / 1236.85)) * (k / 1236.85) * (k / 1236.85))) = Mr
  generalize hM' : pradians (red_pos (201.5643 + 385.81693528 * k + (0.0107582 + (0.00001238 - 0.000000058 * (k / 1236.85)) * (k / 1236.85)) * (k / 1236.85) * (k / 1236.85))) = Mpr
  generalize hF : pradians (red_pos (160.7108 + 390.67050284 * k + (-0.0016118 + (-0.00000227 + 0.000000011 * (k / 1236.85)) * (k / 1236.85)) * (k / 1236.85) * (k / 1236.85))) = Fr
  generalize hO : pradians (red_pos (124.7746 - 1.56375588 * k + (0.0020672 + 0.00000215 * (k / 1236.85)) * (k / 1236.85) * (k / 1236.85))) = Om
  generalize henv : ([Mr, Mpr, Fr, Om, _, _, _, _, _, _, _, _, _, _, _, _, _, _] : List ℝ) = env
  have b2 := (abs_evalTerms_le hE hk env phase_corr2).trans tsum_phase_corr2
  by_cases h1 : s = "new"
  · subst h1
    have b1 := (abs_evalTerms_le hE hk env phase_corr_new).trans tsum_phase_new
    simp only [if_true, true_or]
    rw [zero_lit, add_zero]
    calc _ ≤ |evalTerms (ecc (k / 1236.85)) (k / 1236.85) env phase_corr_new| + |evalTerms (ecc (k / 1236.85)) (k / 1236.85) env phase_corr2| := abs_add_le _ _
      _ ≤ _ := by linarith
  · by_cases h2 : s = "full"
    · subst h2
      have b1 := (abs_evalTerms_le hE hk env phase_corr_full).trans tsum_phase_full
      simp only [h1, if_false, if_true, or_true]
      rw [zero_lit, add_zero]
      calc _ ≤ |evalTerms (ecc (k / 1236.85)) (k / 1236.85) env phase_corr_full| + |evalTerms (ecc (k / 1236.85)) (k / 1236.85) env phase_corr2| := abs_add_le _ _
        _ ≤ _ := by linarith
    · simp only [h1, h2, if_false, or_false]
      have b1 := (abs_evalTerms_le hE hk env phase_corr_quarter).trans tsum_phase_quarter
      have b3 := (abs_evalTerms_le hE hk env phase_w_quarter).trans tsum_phase_w
      by_cases h3 : s = "first" ∨ s = "last"
      · simp only [h3, if_true]
        have hw : |(if s = "last" then -evalTerms (ecc (k / 1236.85)) (k / 1236.85) env phase_w_quarter
              else evalTerms (ecc (k / 1236.85)) (k / 1236.85) env phase_w_quarter)| ≤ 39 / 10000 := by
          split_ifs
          · rw [abs_neg]; exact b3
          · exact b3
        calc _ ≤ |evalTerms (ecc (k / 1236.85)) (k / 1236.85) env phase_corr_quarter + evalTerms (ecc (k / 1236.85)) (k / 1236.85) env phase_corr2| + _ := abs_add_le _ _
          _ ≤ (|evalTerms (ecc (k / 1236.85)) (k / 1236.85) env phase_corr_quarter| + |evalTerms (ecc (k / 1236.85)) (k / 1236.85) env phase_corr2|) + _ := by
              gcongr; exact abs_add_le _ _
          _ ≤ _ := by linarith
      · simp only [h3, if_false]
        rw [zero_lit, add_zero, zero_add]
        linarith

/-- offset added to the rounded lunation count -/
def phaseOff (s : String) : ℝ :=
  if s = "first" then 0.25 else if s = "full" then 0.5 else if s = "last" then 0.75 else 0

theorem phase_k_eq (jde : ℝ) (s : String) :
    phase_k jde s = ((mround ((jde - 2451550.09766) / 29.530588861) : ℤ) : ℝ) + phaseOff s := by
  unfold phase_k phaseOff
  simp only [kround_eq]
  split_ifs <;> simp

theorem phaseOff_range (s : String) : 0 ≤ phaseOff s ∧ phaseOff s ≤ 3 / 4 := by
  unfold phaseOff; split_ifs <;> norm_num

/-- years in [-2000, 4002] give `|t| ≤ 41` -/
theorem phase_t_range {jde : ℝ} (s : String) (h1 : 990557.5 ≤ jde) (h2 : jde ≤ 3182395.5) :
    |phase_k jde s / 1236.85| ≤ 41 := by
  rw [phase_k_eq]
  have ho := phaseOff_range s
  have hx1 : -50000 ≤ (jde - 2451550.09766) / 29.530588861 := by
    rw [le_div_iff₀ (by norm_num)]; norm_num at h1 ⊢; linarith
  have hx2 : (jde - 2451550.09766) / 29.530588861 ≤ 50000 := by
    rw [div_le_iff₀ (by norm_num)]; norm_num at h2 ⊢; linarith
  exact t_range_of (mround_sub_le _) hx1 hx2 ho.1 (by linarith [ho.2]) (by norm_num) (by norm_num)

/-- the error part of the mean instant: `phase_mean k = J + P k + q(k)` -/
def phase_q (k : ℝ) : ℝ :=
  (0.00015437 + (-0.00000015 + 0.00000000073 * (k / 1236.85)) * (k / 1236.85)) * (k / 1236.85) * (k / 1236.85)

theorem phase_mean_eq (k : ℝ) : phase_mean k = 2451550.09766 + 29.530588861 * k + phase_q k := rfl

theorem abs_phase_q_le {k : ℝ} (hk : |k / 1236.85| ≤ 41) : |phase_q k| ≤ 272 / 1000 := by
  have := abs_poly4_le 0.00015437 (-0.00000015) 0.00000000073 hk
  unfold phase_q
  refine this.trans ?_
  norm_num [abs_of_pos, abs_of_neg]

theorem moon_phase_raw_ok {s : String} (hs : s = "new" ∨ s = "first" ∨ s = "full" ∨ s = "last") (jde : ℝ) :
    moon_phase_raw jde s = .ok (phase_mean (phase_k jde s) + phase_corr (phase_k jde s) s) := by
  unfold moon_phase_raw phase_target_ok
  rcases hs with h | h | h | h <;> subst h <;> simp

theorem moon_phase_raw_err {s : String} (hs : ¬ (s = "new" ∨ s = "first" ∨ s = "full" ∨ s = "last")) (jde : ℝ) :
    moon_phase_raw jde s = .error .valueError := by
  unfold moon_phase_raw phase_target_ok
  simp only [not_or] at hs
  simp [hs.1, hs.2.1, hs.2.2.1, hs.2.2.2]

/-! ### moon_perigee_apogee -/

theorem abs_one_lit_le : |(1.0 : ℝ)| ≤ 28 / 25 := by norm_num

set_option maxRecDepth 8000 in
theorem tsum_perigee : tsum (28 / 25) 41 perigee_corr ≤ 2883 / 1000 := by
  norm_num [tsum, tbound, dabs, perigee_corr]
set_option maxRecDepth 8000 in
theorem tsum_apogee : tsum (28 / 25) 41 apogee_corr ≤ 703 / 1000 := by
  norm_num [tsum, tbound, dabs, apogee_corr]

def apsisC (s : String) : ℝ := if s = "perigee" then 2883 / 1000 else 703 / 1000

theorem abs_apsis_corr_le (k : ℝ) (s : String) (hk : |k / 1325.55| ≤ 41) : |apsis_corr k s| ≤ apsisC s := by
  unfold apsis_corr apsisC
  simp only
  split_ifs
  · exact (abs_evalTerms_le abs_one_lit_le hk _ _).trans tsum_perigee
  · exact (abs_evalTerms_le abs_one_lit_le hk _ _).trans tsum_apogee

def apsisOff (s : String) : ℝ := if s = "apogee" then 0.5 else 0

theorem apsis_k_eq (jde : ℝ) (s : String) :
    apsis_k jde s = ((mround ((jde - 2451534.6698) / 27.55454989) : ℤ) : ℝ) + apsisOff s := by
  unfold apsis_k apsisOff
  simp only [kround_eq]
  split_ifs <;> simp

theorem apsisOff_range (s : String) : 0 ≤ apsisOff s ∧ apsisOff s ≤ 1 / 2 := by
  unfold apsisOff; split_ifs <;> norm_num

theorem apsis_t_range {jde : ℝ} (s : String) (h1 : 990557.5 ≤ jde) (h2 : jde ≤ 3182395.5) :
    |apsis_k jde s / 1325.55| ≤ 41 := by
  rw [apsis_k_eq]
  have ho := apsisOff_range s
  have hx1 : -54000 ≤ (jde - 2451534.6698) / 27.55454989 := by
    rw [le_div_iff₀ (by norm_num)]; norm_num at h1 ⊢; linarith
  have hx2 : (jde - 2451534.6698) / 27.55454989 ≤ 54000 := by
    rw [div_le_iff₀ (by norm_num)]; norm_num at h2 ⊢; linarith
  exact t_range_of (mround_sub_le _) hx1 hx2 ho.1 (by linarith [ho.2]) (by norm_num) (by norm_num)

def apsis_q (k : ℝ) : ℝ :=
  (-0.0006691 + (0.000001098 + 0.0000000052 * (k / 1325.55)) * (k / 1325.55)) * (k / 1325.55) * (k / 1325.55)

theorem apsis_mean_eq (k : ℝ) : apsis_mean k = 2451534.6698 + 27.55454989 * k + apsis_q k := rfl

theorem abs_apsis_q_le {k : ℝ} (hk : |k / 1325.55| ≤ 41) : |apsis_q k| ≤ 1216 / 1000 := by
  have := abs_poly4_le (-0.0006691) 0.000001098 0.0000000052 hk
  unfold apsis_q
  refine this.trans ?_
  norm_num [abs_of_pos, abs_of_neg]

theorem moon_perigee_apogee_raw_ok {s : String} (hs : s = "perigee" ∨ s = "apogee") (jde : ℝ) :
    moon_perigee_apogee_raw jde s =
      .ok (apsis_mean (apsis_k jde s) + apsis_corr (apsis_k jde s) s, angle_dms00 (apsis_parallax (apsis_k jde s) s)) := by
  unfold moon_perigee_apogee_raw apsis_target_ok
  rcases hs with h | h <;> subst h <;> simp

theorem moon_perigee_apogee_raw_err {s : String} (hs : ¬ (s = "perigee" ∨ s = "apogee")) (jde : ℝ) :
    moon_perigee_apogee_raw jde s = .error .valueError := by
  unfold moon_perigee_apogee_raw apsis_target_ok
  simp only [not_or] at hs
  simp [hs.1, hs.2]

/-! ### moon_passage_nodes -/

set_option maxRecDepth 4000 in
theorem tsum_nodes : tsum (28 / 25) 41 MoonData.nodes_corr ≤ 775 / 1000 := by
  norm_num [tsum, tbound, dabs, MoonData.nodes_corr]

theorem abs_nodes_corr_le (k : ℝ) (hk : |k / 1342.23| ≤ 41) : |nodes_corr k| ≤ 775 / 1000 := by
  unfold nodes_corr
  simp only
  exact (abs_evalTerms_le (abs_ecc_le_41 hk) hk _ _).trans tsum_nodes

def nodesOff (s : String) : ℝ := if s = "descending" then 0.5 else 0

theorem nodes_k_eq (jde : ℝ) (s : String) :
    nodes_k jde s = ((mround ((jde - 2451565.1619) / 27.212220817) : ℤ) : ℝ) + nodesOff s := by
  unfold nodes_k nodesOff
  simp only [kround_eq]
  split_ifs <;> simp

theorem nodesOff_range (s : String) : 0 ≤ nodesOff s ∧ nodesOff s ≤ 1 / 2 := by
  unfold nodesOff; split_ifs <;> norm_num

theorem nodes_t_range {jde : ℝ} (s : String) (h1 : 990557.5 ≤ jde) (h2 : jde ≤ 3182395.5) :
    |nodes_k jde s / 1342.23| ≤ 41 := by
  rw [nodes_k_eq]
  have ho := nodesOff_range s
  have hx1 : -54000 ≤ (jde - 2451565.1619) / 27.212220817 := by
    rw [le_div_iff₀ (by norm_num)]; norm_num at h1 ⊢; linarith
  have hx2 : (jde - 2451565.1619) / 27.212220817 ≤ 54000 := by
    rw [div_le_iff₀ (by norm_num)]; norm_num at h2 ⊢; linarith
  exact t_range_of (mround_sub_le _) hx1 hx2 ho.1 (by linarith [ho.2]) (by norm_num) (by norm_num)

def nodes_q (k : ℝ) : ℝ :=
  (0.0002762 + (0.000000021 - 0.000000000088 * (k / 1342.23)) * (k / 1342.23)) * (k / 1342.23) * (k / 1342.23)

theorem nodes_mean_eq (k : ℝ) : nodes_mean k = 2451565.1619 + 27.212220817 * k + nodes_q k := rfl

theorem abs_nodes_q_le {k : ℝ} (hk : |k / 1342.23| ≤ 41) : |nodes_q k| ≤ 467 / 1000 := by
  have := abs_poly4_le 0.0002762 0.000000021 (-0.000000000088) hk
  have e : nodes_q k = (0.0002762 + (0.000000021 + (-0.000000000088) * (k / 1342.23)) * (k / 1342.23)) * (k / 1342.23) * (k / 1342.23) := by
    unfold nodes_q; ring
  rw [e]
  refine this.trans ?_
  norm_num [abs_of_pos, abs_of_neg]

theorem moon_passage_nodes_raw_ok {s : String} (hs : s = "ascending" ∨ s = "descending") (jde : ℝ) :
    moon_passage_nodes_raw jde s = .ok (nodes_mean (nodes_k jde s) + nodes_corr (nodes_k jde s)) := by
  unfold moon_passage_nodes_raw nodes_target_ok
  rcases hs with h | h <;> subst h <;> simp

theorem moon_passage_nodes_raw_err {s : String} (hs : ¬ (s = "ascending" ∨ s = "descending")) (jde : ℝ) :
    moon_passage_nodes_raw jde s = .error .valueError := by
  unfold moon_passage_nodes_raw nodes_target_ok
  simp only [not_or] at hs
  simp [hs.1, hs.2]

/-! ### moon_maximum_declination -/

set_option maxRecDepth 8000 in
theorem tsum_decl_north : tsum (28 / 25) 41 decl_corr_north ≤ 1875 / 1000 := by
  norm_num [tsum, tbound, dabs, decl_corr_north]
set_option maxRecDepth 8000 in
theorem tsum_decl_south : tsum (28 / 25) 41 decl_corr_south ≤ 1867 / 1000 := by
  norm_num [tsum, tbound, dabs, decl_corr_south]
set_option maxRecDepth 8000 in
theorem tsum_decl2_north : tsum (28 / 25) 41 decl_cor2_north ≤ 5709 / 1000 := by
  norm_num [tsum, tbound, dabs, decl_cor2_north]
set_option maxRecDepth 8000 in
theorem tsum_decl2_south : tsum (28 / 25) 41 decl_cor2_south ≤ 5701 / 1000 := by
  norm_num [tsum, tbound, dabs, decl_cor2_south]

def declC (s : String) : ℝ := if s = "northern" then 1875 / 1000 else 1867 / 1000

theorem abs_decl_corr_le (k : ℝ) (s : String) (hk : |k / 1336.86| ≤ 41) : |decl_corr k s| ≤ declC s := by
  unfold decl_corr declC
  simp only
  split_ifs
  · exact (abs_evalTerms_le (abs_ecc_le_41 hk) hk _ _).trans tsum_decl_north
  · exact (abs_evalTerms_le (abs_ecc_le_41 hk) hk _ _).trans tsum_decl_south

/-- instant of the mean extreme for `k = 0` -/
def declJ (s : String) : ℝ := if s = "northern" then 2451562.5897 else 2451548.9289

theorem decl_k_eq (jde : ℝ) (s : String) :
    decl_k jde s = ((mround ((jde - declJ s) / 27.321582247) : ℤ) : ℝ) := by
  unfold decl_k declJ
  split_ifs <;> rfl

theorem decl_k_eq0 (jde : ℝ) (s : String) :
    decl_k jde s = ((mround ((jde - declJ s) / 27.321582247) : ℤ) : ℝ) + 0 := by
  rw [decl_k_eq, add_zero]

theorem declJ_range (s : String) : 2451548 ≤ declJ s ∧ declJ s ≤ 2451563 := by
  unfold declJ; split_ifs <;> norm_num

theorem decl_t_range {jde : ℝ} (s : String) (h1 : 990557.5 ≤ jde) (h2 : jde ≤ 3182395.5) :
    |decl_k jde s / 1336.86| ≤ 41 := by
  rw [decl_k_eq0]
  have hj := declJ_range s
  have hx1 : -54000 ≤ (jde - declJ s) / 27.321582247 := by
    rw [le_div_iff₀ (by norm_num)]; norm_num at h1 ⊢; linarith [hj.2]
  have hx2 : (jde - declJ s) / 27.321582247 ≤ 54000 := by
    rw [div_le_iff₀ (by norm_num)]; norm_num at h2 ⊢; linarith [hj.1]
  exact t_range_of (mround_sub_le _) hx1 hx2 le_rfl (by norm_num) (by norm_num) (by norm_num)

def decl_q (k : ℝ) : ℝ := (0.000119804 - 0.000000141 * (k / 1336.86)) * (k / 1336.86) * (k / 1336.86)

theorem decl_mean_eq (k : ℝ) (s : String) : decl_mean k s = declJ s + 27.321582247 * k + decl_q k := by
  unfold decl_mean declJ decl_q
  simp only
  split_ifs <;> ring

theorem abs_decl_q_le {k : ℝ} (hk : |k / 1336.86| ≤ 41) : |decl_q k| ≤ 212 / 1000 := by
  have := abs_poly3_le 0.000119804 (-0.000000141) hk
  have e : decl_q k = (0.000119804 + (-0.000000141) * (k / 1336.86)) * (k / 1336.86) * (k / 1336.86) := by
    unfold decl_q; ring
  rw [e]
  refine this.trans ?_
  norm_num [abs_of_pos, abs_of_neg]

theorem moon_maximum_declination_raw_ok {s : String} (hs : s = "northern" ∨ s = "southern") (jde : ℝ) :
    moon_maximum_declination_raw jde s =
      .ok (decl_mean (decl_k jde s) s + decl_corr (decl_k jde s) s, decl_value (decl_k jde s) s) := by
  unfold moon_maximum_declination_raw decl_target_ok
  rcases hs with h | h <;> subst h <;> simp

theorem moon_maximum_declination_raw_err {s : String} (hs : ¬ (s = "northern" ∨ s = "southern")) (jde : ℝ) :
    moon_maximum_declination_raw jde s = .error .valueError := by
  unfold moon_maximum_declination_raw decl_target_ok
  simp only [not_or] at hs
  simp [hs.1, hs.2]

/-- `|cor2| ≤ 5.709` and the reported declination before reduction is `±(23.6961 - 0.013004 t + cor2)` -/
theorem abs_decl_cor2_le (k : ℝ) (s : String) (hk : |k / 1336.86| ≤ 41) :
    |(if s = "northern" then evalTerms (ecc (k / 1336.86)) (k / 1336.86) (decl_env k s) decl_cor2_north
      else evalTerms (ecc (k / 1336.86)) (k / 1336.86) (decl_env k s) decl_cor2_south)| ≤ 5709 / 1000 := by
  split_ifs
  · exact (abs_evalTerms_le (abs_ecc_le_41 hk) hk _ _).trans tsum_decl2_north
  · exact ((abs_evalTerms_le (abs_ecc_le_41 hk) hk _ _).trans tsum_decl2_south).trans (by norm_num)

/-! ### results in normal form `J + P k + e(k)` -/

/-- result of `moon_phase` as a function of the count `k` -/
def phase_res (s : String) (k : ℝ) : ℝ := phase_mean k + phase_corr k s
def phase_e (s : String) (k : ℝ) : ℝ := phase_q k + phase_corr k s
theorem phase_res_eq (s : String) (k : ℝ) : phase_res s k = 2451550.09766 + 29.530588861 * k + phase_e s k := by
  unfold phase_res phase_e; rw [phase_mean_eq]; ring
theorem phaseC_le (s : String) : phaseC s ≤ 87 / 100 := by unfold phaseC; split_ifs <;> norm_num
theorem abs_phase_e_le (s : String) {k : ℝ} (hk : |k / 1236.85| ≤ 41) : |phase_e s k| ≤ 272 / 1000 + phaseC s := by
  unfold phase_e
  exact (abs_add_le _ _).trans (add_le_add (abs_phase_q_le hk) (abs_phase_corr_le k s hk))
theorem moon_phase_eq {s : String} (hs : s = "new" ∨ s = "first" ∨ s = "full" ∨ s = "last") (jde : ℝ) :
    moon_phase jde s = .ok (phase_res s (phase_k jde s)) := by
  unfold moon_phase; rw [moon_phase_raw_ok hs]; rfl
theorem moon_phase_err {s : String} (hs : ¬ (s = "new" ∨ s = "first" ∨ s = "full" ∨ s = "last")) (jde : ℝ) :
    moon_phase jde s = .error .valueError := by
  unfold moon_phase; rw [moon_phase_raw_err hs]

def apsis_res (s : String) (k : ℝ) : ℝ := apsis_mean k + apsis_corr k s
def apsis_e (s : String) (k : ℝ) : ℝ := apsis_q k + apsis_corr k s
theorem apsis_res_eq (s : String) (k : ℝ) : apsis_res s k = 2451534.6698 + 27.55454989 * k + apsis_e s k := by
  unfold apsis_res apsis_e; rw [apsis_mean_eq]; ring
theorem apsisC_le (s : String) : apsisC s ≤ 2883 / 1000 := by unfold apsisC; split_ifs <;> norm_num
theorem abs_apsis_e_le (s : String) {k : ℝ} (hk : |k / 1325.55| ≤ 41) : |apsis_e s k| ≤ 1216 / 1000 + apsisC s := by
  unfold apsis_e
  exact (abs_add_le _ _).trans (add_le_add (abs_apsis_q_le hk) (abs_apsis_corr_le k s hk))
theorem moon_perigee_apogee_eq {s : String} (hs : s = "perigee" ∨ s = "apogee") (jde : ℝ) :
    moon_perigee_apogee jde s =
      .ok (apsis_res s (apsis_k jde s), angle_dms00 (apsis_parallax (apsis_k jde s) s)) := by
  unfold moon_perigee_apogee; rw [moon_perigee_apogee_raw_ok hs]; rfl
theorem moon_perigee_apogee_err {s : String} (hs : ¬ (s = "perigee" ∨ s = "apogee")) (jde : ℝ) :
    moon_perigee_apogee jde s = .error .valueError := by
  unfold moon_perigee_apogee; rw [moon_perigee_apogee_raw_err hs]

def nodes_res (k : ℝ) : ℝ := nodes_mean k + nodes_corr k
def nodes_e (k : ℝ) : ℝ := nodes_q k + nodes_corr k
theorem nodes_res_eq (k : ℝ) : nodes_res k = 2451565.1619 + 27.212220817 * k + nodes_e k := by
  unfold nodes_res nodes_e; rw [nodes_mean_eq]; ring
theorem abs_nodes_e_le {k : ℝ} (hk : |k / 1342.23| ≤ 41) : |nodes_e k| ≤ 467 / 1000 + 775 / 1000 := by
  unfold nodes_e
  exact (abs_add_le _ _).trans (add_le_add (abs_nodes_q_le hk) (abs_nodes_corr_le k hk))
theorem moon_passage_nodes_eq {s : String} (hs : s = "ascending" ∨ s = "descending") (jde : ℝ) :
    moon_passage_nodes jde s = .ok (nodes_res (nodes_k jde s)) := by
  unfold moon_passage_nodes; rw [moon_passage_nodes_raw_ok hs]; rfl
theorem moon_passage_nodes_err {s : String} (hs : ¬ (s = "ascending" ∨ s = "descending")) (jde : ℝ) :
    moon_passage_nodes jde s = .error .valueError := by
  unfold moon_passage_nodes; rw [moon_passage_nodes_raw_err hs]

def decl_res (s : String) (k : ℝ) : ℝ := decl_mean k s + decl_corr k s
def decl_e (s : String) (k : ℝ) : ℝ := decl_q k + decl_corr k s
theorem decl_res_eq (s : String) (k : ℝ) : decl_res s k = declJ s + 27.321582247 * k + decl_e s k := by
  unfold decl_res decl_e; rw [decl_mean_eq]; ring
theorem declC_le (s : String) : declC s ≤ 1875 / 1000 := by unfold declC; split_ifs <;> norm_num
theorem abs_decl_e_le (s : String) {k : ℝ} (hk : |k / 1336.86| ≤ 41) : |decl_e s k| ≤ 212 / 1000 + declC s := by
  unfold decl_e
  exact (abs_add_le _ _).trans (add_le_add (abs_decl_q_le hk) (abs_decl_corr_le k s hk))
theorem moon_maximum_declination_eq {s : String} (hs : s = "northern" ∨ s = "southern") (jde : ℝ) :
    moon_maximum_declination jde s = .ok (decl_res s (decl_k jde s), decl_value (decl_k jde s) s) := by
  unfold moon_maximum_declination; rw [moon_maximum_declination_raw_ok hs]; rfl
theorem moon_maximum_declination_err {s : String} (hs : ¬ (s = "northern" ∨ s = "southern")) (jde : ℝ) :
    moon_maximum_declination jde s = .error .valueError := by
  unfold moon_maximum_declination; rw [moon_maximum_declination_raw_err hs]

/-- the reported extreme declination: `±(23.6961 - 0.013004 t + cor2)`, not altered by the `Angle` reduction,
    positive and within 17.4°..30° for "northern", negative and within -30°..-17.4° for "southern" -/
theorem decl_value_range (k : ℝ) {s : String} (hs : s = "northern" ∨ s = "southern") (hk : |k / 1336.86| ≤ 41) :
    (s = "northern" → 17.4 ≤ decl_value k s ∧ decl_value k s ≤ 30) ∧
    (s = "southern" → -30 ≤ decl_value k s ∧ decl_value k s ≤ -17.4) := by
  have hc := abs_le.mp (abs_decl_cor2_le k s hk)
  have ht := abs_le.mp hk
  unfold decl_value
  simp only
  generalize (if s = "northern" then evalTerms (ecc (k / 1336.86)) (k / 1336.86) (decl_env k s) decl_cor2_north
      else evalTerms (ecc (k / 1336.86)) (k / 1336.86) (decl_env k s) decl_cor2_south) = c at hc ⊢
  generalize k / 1336.86 = t at ht ⊢
  have x1 : 17.4 ≤ 23.6961 - 0.013004 * t + c := by norm_num at hc ht ⊢; linarith [hc.1, ht.2]
  have x2 : 23.6961 - 0.013004 * t + c ≤ 30 := by norm_num at hc ht ⊢; linarith [hc.2, ht.1]
  rcases hs with h | h
  · subst h
    have hne : ¬ ("northern" = "southern") := by decide
    simp only [hne, if_false]
    have hlt : |23.6961 - 0.013004 * t + c| < 360 := by rw [abs_lt]; constructor <;> norm_num at x1 x2 ⊢ <;> linarith
    rw [reduce_deg_of_lt hlt, reduce_deg_of_lt hlt]
    exact ⟨fun _ => ⟨x1, x2⟩, fun h => h.elim⟩
  · subst h
    have hne : ¬ ("southern" = "northern") := by decide
    simp only [if_true]
    have hlt : |(23.6961 - 0.013004 * t + c) * (-1.0)| < 360 := by
      rw [abs_lt]; constructor <;> norm_num at x1 x2 ⊢ <;> linarith
    rw [reduce_deg_of_lt hlt, reduce_deg_of_lt hlt]
    refine ⟨fun h => absurd h hne, fun _ => ?_⟩
    constructor <;> norm_num at x1 x2 ⊢ <;> linarith

end Pymeeus.GenR.MoonM
