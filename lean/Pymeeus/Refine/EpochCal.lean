import Pymeeus.Refine.Calendar
import Pymeeus.Gen.Q.EpochCal
import Mathlib.Algebra.Order.Floor.Ring
/-
Integer / closed forms of the exact (Rat) model of templates/EpochCal.lean: weekday, day of year.
-/
namespace Pymeeus.Refine
open Pymeeus Pymeeus.PQ Pymeeus.GenQ Pymeeus.Spec

theorem pfloor_eq_floor (q : ℚ) : pfloor q = ⌊q⌋ := rfl

theorem pmod_one (x : ℚ) : pmod x 1.0 = Int.fract x := by
  unfold pmod
  have : x / 1.0 = x := by norm_num
  rw [this, rat_floor_eq_floor]
  unfold Int.fract
  norm_num

theorem pmod_int_seven (n : Int) : pmod (n : ℚ) 7.0 = ((n % 7 : Int) : ℚ) := by
  unfold pmod
  have h : ((n : ℚ) / 7.0).floor = n / 7 := by
    apply rat_floor_eq_div _ _ (by norm_num)
    norm_num
  rw [h]
  have : n % 7 = n - 7 * (n / 7) := by omega
  rw [this]; push_cast; norm_num

/-- `dow j = ⌊j + 3/2⌋ mod 7` -/
theorem dow_eq (j : ℚ) : dow j = ⌊j + 3 / 2⌋ % 7 := by
  unfold dow
  have h1 : ofInt (pfloor (j - 0.5)) + 2.0 = (((⌊j - 0.5⌋ + 2 : Int)) : ℚ) := by
    unfold ofInt; rw [pfloor_eq_floor]; push_cast; norm_num
  simp only [h1]
  rw [pmod_int_seven, pfloor_eq_floor, Int.floor_intCast]
  have : ⌊j - 0.5⌋ + 2 = ⌊j + 3 / 2⌋ := by
    rw [← Int.floor_add_intCast]; congr 1; norm_num; ring
  rw [this]


theorem fmod_pos (a b : Int) (hb : 0 ≤ b) : imod a b = a % b := Int.fmod_eq_emod_of_nonneg _ hb

theorem is_leap_spec (y : Int) : is_leap y = Spec.leap y := by
  unfold is_leap Spec.leap calendar_isleap
  by_cases h : y ≥ 1582
  · have h' : ¬ y < 1582 := by omega
    simp only [h, h', if_true, if_false, fmod_pos _ _ (by decide : (0:Int) ≤ 4),
      fmod_pos _ _ (by decide : (0:Int) ≤ 100), fmod_pos _ _ (by decide : (0:Int) ≤ 400)]
  · have h' : y < 1582 := by omega
    simp only [h, h', if_true, if_false, fmod_pos _ _ (by decide : (0:Int) ≤ 4)]
    congr 1
    apply propext
    omega

theorem calendar_isleap_spec (y : Int) (h : 1582 ≤ y) : calendar_isleap y = Spec.leap y := by
  rw [← is_leap_spec]; unfold is_leap; simp [h]

/-- integer day of year as `get_doy` computes it -/
def doyI (y m d : Int) : Int :=
  if y > 1582 then dt_days_before_month y m + d
  else
    let k : Int := if Spec.leap y then 1 else 2
    let n := 275 * m / 9 - k * ((m + 9) / 12) + d - 30
    if y = 1582 ∧ (m > 10 ∨ (m = 10 ∧ d ≥ 15)) then n - 10 else n

theorem dbm_eq (y m : Int) (hy : 1582 ≤ y) (hm1 : 1 ≤ m) (hm12 : m ≤ 12) :
    dt_days_before_month y m = 275 * m / 9 - (if Spec.leap y then 1 else 2) * ((m + 9) / 12) - 30 := by
  unfold dt_days_before_month
  rw [calendar_isleap_spec y hy]
  interval_cases m <;> cases Spec.leap y <;> simp [days_before_month_tbl]

theorem doyI_eq (y m d : Int) (h : Valid y m d) : doyI y m d = jdnI y m d - jdnI y 1 1 + 1 := by
  obtain ⟨hy, hm1, hm12, hd1, hdl, hgap⟩ := h
  have e1 : ∀ Y : Int, 1461 * Y / 4 = 365 * Y + Y / 4 := by intro Y; omega
  have hA : ∀ Y : Int, Y / 100 / 4 = Y / 400 := by intro Y; omega
  have k4 : (y + 4716) / 4 = (y - 1 + 4716) / 4 + (if y % 4 = 0 then 1 else 0) := by split_ifs <;> omega
  have k100 : y / 100 = (y - 1) / 100 + (if y % 100 = 0 then 1 else 0) := by split_ifs <;> omega
  have k400 : y / 400 = (y - 1) / 400 + (if y % 400 = 0 then 1 else 0) := by split_ifs <;> omega
  have D : doyI y m d = 275 * m / 9 - (if Spec.leap y then 1 else 2) * ((m + 9) / 12) + d - 30
      - (if y = 1582 ∧ (m > 10 ∨ (m = 10 ∧ d ≥ 15)) then 10 else 0) := by
    unfold doyI
    by_cases hy2 : y > 1582
    · have : ¬ (y = 1582 ∧ (m > 10 ∨ (m = 10 ∧ d ≥ 15))) := by omega
      simp only [hy2, if_true, this, if_false, dbm_eq y m (by omega) hm1 hm12]; omega
    · simp only [hy2, if_false]; split_ifs <;> omega
  have J1 : jdnI y 1 1 = 365 * (y - 1 + 4716) + (y - 1 + 4716) / 4 + 428 + 1
      + (if y ≤ 1582 then 0 else 2 - (y - 1) / 100 + (y - 1) / 400) - 1524 := by
    have : isJulianI (y - 1) 13 1 = decide (y ≤ 1582) := by
      rw [Bool.eq_iff_iff, isJulianI_iff]; simp; omega
    simp [jdnI, hA, this, e1]
  rw [D, J1]
  clear D J1
  simp only [leap_iff]
  unfold monthLen at hdl
  by_cases hm : m ≤ 2
  · have J : jdnI y m d = 365 * (y - 1 + 4716) + (y - 1 + 4716) / 4 + 306001 * (m + 13) / 10000 + d
        + (if y ≤ 1582 then 0 else 2 - (y - 1) / 100 + (y - 1) / 400) - 1524 := by
      have : isJulianI (y - 1) (m + 12) d = decide (y ≤ 1582) := by
        rw [Bool.eq_iff_iff, isJulianI_iff]; simp; omega
      simp [jdnI, hm, hA, this, e1]; ring_nf
    rw [J]
    have : ¬ (y = 1582 ∧ (m > 10 ∨ (m = 10 ∧ d ≥ 15))) := by omega
    simp only [this, if_false]
    clear J
    interval_cases m <;> split_ifs <;> omega
  · have J : jdnI y m d = 365 * (y + 4716) + (y + 4716) / 4 + 306001 * (m + 1) / 10000 + d
        + (if (y < 1582 ∨ (y = 1582 ∧ m < 10) ∨ (y = 1582 ∧ m = 10 ∧ d < 5)) then 0 else 2 - y / 100 + y / 400) - 1524 := by
      have : isJulianI y m d = decide (y < 1582 ∨ (y = 1582 ∧ m < 10) ∨ (y = 1582 ∧ m = 10 ∧ d < 5)) := by
        rw [Bool.eq_iff_iff, isJulianI_iff]; simp
      simp [jdnI, hm, hA, this, e1]
    rw [J, k4, k100, k400]
    clear J
    by_cases c1 : y < 1582
    · have c2 : y ≤ 1582 := by omega
      have c3 : ¬ (y = 1582 ∧ (m > 10 ∨ (m = 10 ∧ d ≥ 15))) := by omega
      have c4 : (y < 1582 ∨ (y = 1582 ∧ m < 10) ∨ (y = 1582 ∧ m = 10 ∧ d < 5)) := by omega
      simp only [c1, c2, c3, true_or, if_true, if_false]
      interval_cases m <;> simp at hdl <;> split_ifs <;> omega
    by_cases c5 : y = 1582
    · subst c5
      interval_cases m <;> simp at hdl ⊢ <;> (try split_ifs) <;> omega
    · have c2 : ¬ y ≤ 1582 := by omega
      have c3 : ¬ (y = 1582 ∧ (m > 10 ∨ (m = 10 ∧ d ≥ 15))) := by omega
      have c4 : ¬ (y < 1582 ∨ (y = 1582 ∧ m < 10) ∨ (y = 1582 ∧ m = 10 ∧ d < 5)) := by omega
      simp only [c1, c2, c5, false_and, or_false, if_false]
      interval_cases m <;> simp at hdl <;> split_ifs <;> omega


end Pymeeus.Refine
