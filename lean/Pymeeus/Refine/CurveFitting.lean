import Pymeeus.Gen.Q.CurveFitting
import Pymeeus.Lemmas.LeastSquares
import Mathlib.Tactic.NormNum
import Mathlib.Algebra.Order.Ring.Abs
import Mathlib.Algebra.Order.Ring.Rat
/-
Bridges from the exact model of CurveFitting (Gen/Q/CurveFitting.lean) to list sums
(`LS.S`): what the accumulators are, what the objects built by `set` are, and what each
fit returns when it returns.
-/
namespace Pymeeus.Refine.CurveFitting
open Pymeeus Pymeeus.PQ Pymeeus.GenQ.CurveFitting Pymeeus.LS

theorem zero_lit : (0.0 : ℚ) = 0 := by norm_num
theorem two_lit : (2.0 : ℚ) = 2 := by norm_num
theorem TOL_pos : (0 : ℚ) < TOL := by unfold TOL; norm_num
theorem TOL_lt_one : TOL < (1 : ℚ) := by unfold TOL; norm_num

theorem pabs_eq (x : ℚ) : pabs x = |x| := by
  unfold pabs
  split
  · rename_i h; rw [abs_of_neg h]
  · rename_i h; rw [abs_of_nonneg (not_lt.mp h)]

theorem plt_iff (x y : ℚ) : plt x y = true ↔ x < y := by simp [plt]
theorem ple_iff (x y : ℚ) : ple x y = true ↔ x ≤ y := by simp [ple]

theorem foldl_add_S {ι : Type} (l : List ι) (f : ι → ℚ) (c : ℚ) :
    l.foldl (fun a p => a + f p) c = c + S l f := by
  induction l generalizing c with
  | nil => simp
  | cons i t ih => simp only [List.foldl_cons, ih, S_cons]; ring

theorem zip_map_fst_snd {α β : Type} (pts : List (α × β)) :
    (pts.map Prod.fst).zip (pts.map Prod.snd) = pts := by
  induction pts with
  | nil => rfl
  | cons p t ih => simp [ih]

theorem acc_eq (f : ℚ → ℚ → ℚ) (pts : List (ℚ × ℚ)) :
    acc f (pts.map Prod.fst) (pts.map Prod.snd) = S pts (fun p => f p.1 p.2) := by
  unfold acc
  rw [zip_map_fst_snd, foldl_add_S, zero_lit, zero_add]

theorem pfsum_eq {ι : Type} (l : List ι) (f : ι → ℚ) : pfsum (l.map f) = S l f := by
  unfold pfsum
  have : ∀ c : ℚ, (l.map f).foldl (· + ·) c = c + S l f := by
    induction l with
    | nil => intro c; simp
    | cons i t ih => intro c; simp only [List.map_cons, List.foldl_cons, ih, S_cons]; ring
  rw [this, zero_add]

theorem dot_eq {ι : Type} (l : List ι) (f g : ι → ℚ) :
    dot (l.map f) (l.map g) = S l (fun i => f i * g i) := by
  unfold dot
  have : ∀ c : ℚ, ((l.map f).zip (l.map g)).foldl (fun s p => s + p.1 * p.2) c = c + S l (fun i => f i * g i) := by
    induction l with
    | nil => intro c; simp
    | cons i t ih => intro c; simp only [List.map_cons, List.zip_cons_cons, List.foldl_cons, ih, S_cons]; ring
  rw [this, zero_add]

/-- The `CurveFitting` object holding the points `pts` (in this order). -/
def fit_of (pts : List (ℚ × ℚ)) : Fit :=
  compute_parameters (pts.map Prod.fst) (pts.map Prod.snd)

/-- abbreviations for the sums over a list of points -/
def sN (pts : List (ℚ × ℚ)) : ℚ := (pts.length : ℚ)
def sX (pts : List (ℚ × ℚ)) : ℚ := S pts (fun p => p.1)
def sY (pts : List (ℚ × ℚ)) : ℚ := S pts (fun p => p.2)
def sXX (pts : List (ℚ × ℚ)) : ℚ := S pts (fun p => p.1 * p.1)
def sXXX (pts : List (ℚ × ℚ)) : ℚ := S pts (fun p => p.1 * p.1 * p.1)
def sXXXX (pts : List (ℚ × ℚ)) : ℚ := S pts (fun p => (p.1 * p.1) * (p.1 * p.1))
def sXY (pts : List (ℚ × ℚ)) : ℚ := S pts (fun p => p.1 * p.2)
def sXXY (pts : List (ℚ × ℚ)) : ℚ := S pts (fun p => p.1 * p.2 * p.1)
def sYY (pts : List (ℚ × ℚ)) : ℚ := S pts (fun p => p.2 * p.2)

theorem fit_of_fields (pts : List (ℚ × ℚ)) :
    (fit_of pts).x = pts.map Prod.fst ∧ (fit_of pts).y = pts.map Prod.snd ∧
    ofInt (fit_of pts).N = sN pts ∧ (fit_of pts).P = sX pts ∧ (fit_of pts).T = sY pts ∧
    (fit_of pts).Q = sXX pts ∧ (fit_of pts).R = sXXX pts ∧ (fit_of pts).S = sXXXX pts ∧
    (fit_of pts).U = sXY pts ∧ (fit_of pts).V = sXXY pts ∧ (fit_of pts).W = sYY pts := by
  unfold fit_of compute_parameters
  refine ⟨rfl, rfl, ?_, ?_, ?_, ?_, ?_, ?_, ?_, ?_, ?_⟩ <;> dsimp only
  · simp [ofInt, sN]
  · exact pfsum_eq pts _
  · exact pfsum_eq pts _
  · exact acc_eq _ pts
  · exact acc_eq _ pts
  · exact acc_eq _ pts
  · exact acc_eq _ pts
  · exact acc_eq _ pts
  · exact acc_eq _ pts

theorem map_fst_zip_take (xs ys : List ℚ) :
    (xs.zip ys).map Prod.fst = xs.take (min xs.length ys.length) := by
  induction xs generalizing ys with
  | nil => simp
  | cons a t ih => cases ys with
    | nil => simp
    | cons b u => simp [ih, Nat.succ_min_succ]

theorem map_snd_zip_take (xs ys : List ℚ) :
    (xs.zip ys).map Prod.snd = ys.take (min xs.length ys.length) := by
  induction xs generalizing ys with
  | nil => simp
  | cons a t ih => cases ys with
    | nil => simp
    | cons b u => simp [ih, Nat.succ_min_succ]

/-- `CurveFitting(xs, ys)` succeeds exactly when both lists have at least two entries and then holds
    the points `zip xs ys`. -/
theorem set_two_lists (xs ys : List ℚ) :
    GenQ.CurveFitting.set [.list xs, .list ys] =
      if 2 ≤ min xs.length ys.length then .ok (fit_of (xs.zip ys)) else .error .valueError := by
  simp only [GenQ.CurveFitting.set, FitArg.isNum, Bool.or_self, Bool.false_eq_true, if_false, set2]
  have h1 : (xs.take (min xs.length ys.length)).length = min xs.length ys.length := by simp
  have h2 : (ys.take (min xs.length ys.length)).length = min xs.length ys.length := by simp
  rw [h1, h2]
  by_cases h : 2 ≤ min xs.length ys.length
  · have h' : ¬ (min xs.length ys.length < 2 ∨ min xs.length ys.length < 2) := by omega
    rw [if_neg h', if_pos h]
    have hl : (xs.take (min xs.length ys.length)).length > 0 := by rw [h1]; omega
    unfold finish
    rw [if_pos hl, fit_of, map_fst_zip_take, map_snd_zip_take]
  · have h' : (min xs.length ys.length < 2 ∨ min xs.length ys.length < 2) := by omega
    rw [if_pos h', if_neg h]

/-- `CurveFitting(xs, ys)` returned an object: it holds the points `zip xs ys`, at least two. -/
theorem set_two_lists_ok {xs ys : List ℚ} {o : Fit}
    (h : GenQ.CurveFitting.set [.list xs, .list ys] = .ok o) :
    o = fit_of (xs.zip ys) ∧ 2 ≤ (xs.zip ys).length := by
  rw [set_two_lists] at h
  by_cases hl : 2 ≤ min xs.length ys.length
  · rw [if_pos hl] at h
    injection h with h
    exact ⟨h.symm, by rw [List.length_zip]; exact hl⟩
  · rw [if_neg hl] at h; cases h

theorem ne_nil_of_two_le {α : Type} {l : List α} (h : 2 ≤ l.length) : l ≠ [] := by
  intro e; rw [e] at h; simp at h

theorem fit_of_x_empty (pts : List (ℚ × ℚ)) : (fit_of pts).x.isEmpty = pts.isEmpty := by
  rw [(fit_of_fields pts).1]; cases pts <;> rfl

/-- What `linear_fitting` returns. -/
theorem linear_fitting_eq (pts : List (ℚ × ℚ)) (hne : pts ≠ []) :
    linear_fitting (fit_of pts) =
      let d := sN pts * sXX pts - sX pts * sX pts
      if |d| < TOL then .error .zeroDivisionError
      else .ok ((sN pts * sXY pts - sX pts * sY pts) / d, (sY pts * sXX pts - sX pts * sXY pts) / d) := by
  obtain ⟨_, _, hN, hP, hT, hQ, _, _, hU, _, _⟩ := fit_of_fields pts
  have he : (fit_of pts).x.isEmpty = false := by
    rw [fit_of_x_empty]; cases pts with
    | nil => exact absurd rfl hne
    | cons _ _ => rfl
  unfold linear_fitting
  simp only [he, Bool.false_eq_true, if_false, hN, hP, hT, hQ, hU, pabs_eq, plt, decide_eq_true_eq]

/-- What `quadratic_fitting` returns. -/
theorem quadratic_fitting_eq (pts : List (ℚ × ℚ)) (hne : pts ≠ []) :
    quadratic_fitting (fit_of pts) =
      let n := sN pts; let p := sX pts; let q := sXX pts; let r := sXXX pts; let s := sXXXX pts
      let t := sY pts; let u := sXY pts; let v := sXXY pts
      let d := n * q * s + 2 * p * q * r - q * q * q - p * p * s - n * r * r
      if |d| < TOL then .error .zeroDivisionError
      else .ok ((n * q * v + p * r * t + p * q * u - q * q * t - p * p * v - n * r * u) / d,
                (n * s * u + p * q * v + q * r * t - q * q * u - p * s * t - n * r * v) / d,
                (q * s * t + q * r * u + p * r * v - q * q * v - p * s * u - r * r * t) / d) := by
  obtain ⟨_, _, hN, hP, hT, hQ, hR, hS, hU, hV, _⟩ := fit_of_fields pts
  have he : (fit_of pts).x.isEmpty = false := by
    rw [fit_of_x_empty]; cases pts with
    | nil => exact absurd rfl hne
    | cons _ _ => rfl
  unfold quadratic_fitting
  simp only [he, Bool.false_eq_true, if_false, hN, hP, hT, hQ, hR, hS, hU, hV, pabs_eq, plt,
    decide_eq_true_eq, two_lit]

/-- What `general_fitting` returns, on columns given as functions of an index list. -/
theorem general_cols_eq {ι : Type} (l : List ι) (f0 f1 f2 y : ι → ℚ) :
    general_fitting_cols (l.map f0) (l.map f1) (l.map f2) (l.map y) =
      let m := S l (fun i => f0 i * f0 i); let p := S l (fun i => f0 i * f1 i); let q := S l (fun i => f0 i * f2 i)
      let r := S l (fun i => f1 i * f1 i); let s := S l (fun i => f1 i * f2 i); let t := S l (fun i => f2 i * f2 i)
      let u := S l (fun i => y i * f0 i); let v := S l (fun i => y i * f1 i); let w := S l (fun i => y i * f2 i)
      if (|r| < TOL ∧ |t| < TOL) ∧ TOL ≤ |m| then .ok (u / m, 0, 0)
      else if (|t| < TOL ∧ TOL ≤ |m|) ∧ TOL ≤ |r| then
        (if |m * r - p * p| < TOL then .error .zeroDivisionError
         else .ok ((u * r - v * p) / (m * r - p * p), (m * v - p * u) / (m * r - p * p), 0))
      else if |m * r * t| < TOL then .error .zeroDivisionError
      else
        let d := m * r * t + 2 * p * q * s - m * s * s - r * q * q - t * p * p
        if |d| < TOL then .error .zeroDivisionError
        else .ok ((u * (r * t - s * s) + v * (q * s - p * t) + w * (p * s - q * r)) / d,
                  (u * (s * q - p * t) + v * (m * t - q * q) + w * (p * q - m * s)) / d,
                  (u * (p * s - r * q) + v * (p * q - m * s) + w * (m * r - p * p)) / d) := by
  unfold general_fitting_cols
  simp only [dot_eq, pabs_eq, plt, ple, Bool.and_eq_true, decide_eq_true_eq, zero_lit, two_lit]

/-- The positional arguments `x0, y0, x1, y1, …` of the n-argument form. -/
def flat (pts : List (ℚ × ℚ)) : List FitArg := pts.flatMap (fun p => [.num p.1, .num p.2])

theorem flat_cons (p : ℚ × ℚ) (t : List (ℚ × ℚ)) : flat (p :: t) = .num p.1 :: .num p.2 :: flat t := rfl

theorem length_flat (pts : List (ℚ × ℚ)) : (flat pts).length = 2 * pts.length := by
  induction pts with
  | nil => rfl
  | cons p t ih => rw [flat_cons]; simp only [List.length_cons, ih]; omega

theorem all_isNum_flat (pts : List (ℚ × ℚ)) : (flat pts).all FitArg.isNum = true := by
  induction pts with
  | nil => rfl
  | cons p t ih => rw [flat_cons]; simp only [List.all_cons, FitArg.isNum, ih, Bool.and_self]

theorem evens_flat (pts : List (ℚ × ℚ)) : evens ((flat pts).map FitArg.val) = pts.map Prod.fst := by
  induction pts with
  | nil => rfl
  | cons p t ih => rw [flat_cons]; simp only [List.map_cons, evens, FitArg.val, ih]

theorem odds_flat (pts : List (ℚ × ℚ)) : odds ((flat pts).map FitArg.val) = pts.map Prod.snd := by
  induction pts with
  | nil => rfl
  | cons p t ih => rw [flat_cons]; simp only [List.map_cons, odds, FitArg.val, ih]

theorem finish_points (pts : List (ℚ × ℚ)) (hne : pts ≠ []) :
    finish (pts.map Prod.fst) (pts.map Prod.snd) = fit_of pts := by
  unfold finish
  have : (pts.map Prod.fst).length > 0 := by
    rw [List.length_map]; exact List.length_pos_iff.mpr hne
  rw [if_pos this]; rfl

/-- the default branch of `set` (four or more positional arguments) -/
theorem set_many (a b c d : FitArg) (t : List FitArg) :
    GenQ.CurveFitting.set (a :: b :: c :: d :: t) =
      (let args := if (a :: b :: c :: d :: t).length % 2 != 0 then (a :: b :: c :: d :: t).dropLast else (a :: b :: c :: d :: t)
       if !(args.all FitArg.isNum) then .error .typeError
       else .ok (finish (evens (args.map FitArg.val)) (odds (args.map FitArg.val)))) := rfl

/-- `CurveFitting(x0, y0, x1, y1, …)` with at least two points holds those points. -/
theorem set_varargs (pts : List (ℚ × ℚ)) (h : 2 ≤ pts.length) :
    GenQ.CurveFitting.set (flat pts) = .ok (fit_of pts) := by
  match pts, h with
  | p1 :: p2 :: t, _ =>
    have hl : (flat (p1 :: p2 :: t)).length % 2 = 0 := by rw [length_flat]; omega
    have e : flat (p1 :: p2 :: t) = .num p1.1 :: .num p1.2 :: .num p2.1 :: .num p2.2 :: flat t := rfl
    rw [e, set_many, ← e]
    simp only [hl, bne_self_eq_false, Bool.false_eq_true, if_false, all_isNum_flat, Bool.not_true,
      evens_flat, odds_flat]
    rw [finish_points _ (by simp)]

/-- A trailing unpaired argument is dropped. -/
theorem set_varargs_odd (pts : List (ℚ × ℚ)) (h : 2 ≤ pts.length) (z : ℚ) :
    GenQ.CurveFitting.set (flat pts ++ [.num z]) = .ok (fit_of pts) := by
  match pts, h with
  | p1 :: p2 :: t, _ =>
    have hl : (flat (p1 :: p2 :: t) ++ [FitArg.num z]).length % 2 = 1 := by
      rw [List.length_append, length_flat]; simp only [List.length_cons, List.length_nil]; omega
    have e : flat (p1 :: p2 :: t) ++ [FitArg.num z]
        = .num p1.1 :: .num p1.2 :: .num p2.1 :: .num p2.2 :: (flat t ++ [FitArg.num z]) := rfl
    rw [e, set_many, ← e]
    simp only [hl, List.dropLast_concat, show ((1 : Nat) != 0) = true from rfl, if_true]
    simp only [all_isNum_flat, Bool.not_true, evens_flat, odds_flat, Bool.false_eq_true, if_false]
    rw [finish_points _ (by simp)]

/-- Copy constructor: `CurveFitting(other)` holds the same points. -/
theorem set_copy (pts : List (ℚ × ℚ)) (hne : pts ≠ []) :
    GenQ.CurveFitting.set [.fit (fit_of pts)] = .ok (fit_of pts) := by
  simp only [GenQ.CurveFitting.set]
  rw [(fit_of_fields pts).1, (fit_of_fields pts).2.1, finish_points pts hne]

theorem ne_zero_of_not_lt_TOL {d : ℚ} (h : ¬ |d| < TOL) : d ≠ 0 := by
  intro h0; apply h; rw [h0, abs_zero]; exact TOL_pos

/-- `linear_fitting` returned `(a, b)`: the guard passed and `(a, b)` is Cramer's solution. -/
theorem linear_ok {pts : List (ℚ × ℚ)} (hne : pts ≠ []) {a b : ℚ}
    (h : linear_fitting (fit_of pts) = .ok (a, b)) :
    let d := sN pts * sXX pts - sX pts * sX pts
    ¬ |d| < TOL ∧ a = (sN pts * sXY pts - sX pts * sY pts) / d ∧ b = (sY pts * sXX pts - sX pts * sXY pts) / d := by
  rw [linear_fitting_eq pts hne] at h
  intro d
  by_cases hd : |d| < TOL
  · simp only [d] at hd; simp [hd] at h
  · have hd' := hd
    simp only [d] at hd'
    simp only [hd', if_false] at h
    injection h with h
    injection h with h1 h2
    exact ⟨hd, h1.symm, h2.symm⟩

/-- Normal equations of the straight-line fit. -/
theorem linear_normal (pts : List (ℚ × ℚ)) (hne : pts ≠ []) (a b : ℚ)
    (h : linear_fitting (fit_of pts) = .ok (a, b)) :
    S pts (fun p => (p.2 - (a * p.1 + b)) * p.1) = 0 ∧ S pts (fun p => p.2 - (a * p.1 + b)) = 0 := by
  obtain ⟨hd, ha, hb⟩ := linear_ok hne h
  have hd0 := ne_zero_of_not_lt_TOL hd
  have e1 : (fun p : ℚ × ℚ => (p.2 - (a * p.1 + b)) * p.1)
      = (fun p => (p.2 - (a * p.1 + b * 1 + 0 * 0)) * p.1) := by funext p; ring
  have e2 : (fun p : ℚ × ℚ => p.2 - (a * p.1 + b))
      = (fun p => (p.2 - (a * p.1 + b * 1 + 0 * 0)) * 1) := by funext p; ring
  rw [e1, e2, S_resid pts (fun p => p.2) (fun p => p.1) (fun _ => 1) (fun _ => 0) (fun p => p.1) a b 0,
    S_resid pts (fun p => p.2) (fun p => p.1) (fun _ => 1) (fun _ => 0) (fun _ => 1) a b 0]
  have c := cramer2 (sXX pts) (sX pts) (sN pts) (sXY pts) (sY pts) _ hd0 (by ring)
  have f1 : S pts (fun p : ℚ × ℚ => p.2 * p.1) = sXY pts := S_congr (fun p _ => mul_comm _ _)
  have f2 : S pts (fun p : ℚ × ℚ => p.1 * p.1) = sXX pts := rfl
  have f3 : S pts (fun p : ℚ × ℚ => (1 : ℚ) * p.1) = sX pts := S_congr (fun p _ => one_mul _)
  have f4 : S pts (fun p : ℚ × ℚ => p.2 * 1) = sY pts := S_congr (fun p _ => mul_one _)
  have f5 : S pts (fun p : ℚ × ℚ => p.1 * 1) = sX pts := S_congr (fun p _ => mul_one _)
  have f6 : S pts (fun _ : ℚ × ℚ => (1 : ℚ) * 1) = sN pts := by rw [S_const]; simp [sN]
  have f7 : S pts (fun p : ℚ × ℚ => (0 : ℚ) * p.1) = 0 := by
    rw [S_congr (g := fun _ => (0 : ℚ)) (fun p _ => zero_mul _), S_zero]
  have f8 : S pts (fun _ : ℚ × ℚ => (0 : ℚ) * 1) = 0 := by
    rw [S_congr (g := fun _ => (0 : ℚ)) (fun p _ => zero_mul _), S_zero]
  rw [f1, f2, f3, f4, f5, f6, f7, f8, ha, hb]
  constructor
  · linear_combination c.1
  · linear_combination c.2

/-- `quadratic_fitting` returned `(a, b, c)`: the guard passed and it is Cramer's solution. -/
theorem quadratic_ok {pts : List (ℚ × ℚ)} (hne : pts ≠ []) {a b c : ℚ}
    (h : quadratic_fitting (fit_of pts) = .ok (a, b, c)) :
    let n := sN pts; let p := sX pts; let q := sXX pts; let r := sXXX pts; let s := sXXXX pts
    let t := sY pts; let u := sXY pts; let v := sXXY pts
    let d := n * q * s + 2 * p * q * r - q * q * q - p * p * s - n * r * r
    ¬ |d| < TOL ∧ a = (n * q * v + p * r * t + p * q * u - q * q * t - p * p * v - n * r * u) / d ∧
      b = (n * s * u + p * q * v + q * r * t - q * q * u - p * s * t - n * r * v) / d ∧
      c = (q * s * t + q * r * u + p * r * v - q * q * v - p * s * u - r * r * t) / d := by
  rw [quadratic_fitting_eq pts hne] at h
  intro n p q r s t u v d
  by_cases hd : |d| < TOL
  · simp only [d, n, p, q, r, s] at hd; simp [hd] at h
  · have hd' := hd
    simp only [d, n, p, q, r, s] at hd'
    simp only [hd', if_false] at h
    injection h with h
    injection h with h1 h2
    injection h2 with h2 h3
    exact ⟨hd, h1.symm, h2.symm, h3.symm⟩

/-- Normal equations of the parabola fit. -/
theorem quadratic_normal (pts : List (ℚ × ℚ)) (hne : pts ≠ []) (a b c : ℚ)
    (h : quadratic_fitting (fit_of pts) = .ok (a, b, c)) :
    S pts (fun p => (p.2 - (a * (p.1 * p.1) + b * p.1 + c * 1)) * (p.1 * p.1)) = 0 ∧
    S pts (fun p => (p.2 - (a * (p.1 * p.1) + b * p.1 + c * 1)) * p.1) = 0 ∧
    S pts (fun p => (p.2 - (a * (p.1 * p.1) + b * p.1 + c * 1)) * 1) = 0 := by
  obtain ⟨hd, ha, hb, hc⟩ := quadratic_ok hne h
  have hd0 := ne_zero_of_not_lt_TOL hd
  rw [S_resid pts (fun p => p.2) (fun p => p.1 * p.1) (fun p => p.1) (fun _ => 1) (fun p => p.1 * p.1) a b c,
    S_resid pts (fun p => p.2) (fun p => p.1 * p.1) (fun p => p.1) (fun _ => 1) (fun p => p.1) a b c,
    S_resid pts (fun p => p.2) (fun p => p.1 * p.1) (fun p => p.1) (fun _ => 1) (fun _ => 1) a b c]
  have cr := cramer_quadratic (sN pts) (sX pts) (sXX pts) (sXXX pts) (sXXXX pts) (sY pts) (sXY pts) (sXXY pts) _ hd0 rfl
  have g1 : S pts (fun p : ℚ × ℚ => p.2 * (p.1 * p.1)) = sXXY pts := S_congr (fun p _ => by ring)
  have g2 : S pts (fun p : ℚ × ℚ => p.1 * p.1 * (p.1 * p.1)) = sXXXX pts := rfl
  have g3 : S pts (fun p : ℚ × ℚ => p.1 * (p.1 * p.1)) = sXXX pts := S_congr (fun p _ => by ring)
  have g4 : S pts (fun p : ℚ × ℚ => (1 : ℚ) * (p.1 * p.1)) = sXX pts := S_congr (fun p _ => one_mul _)
  have g5 : S pts (fun p : ℚ × ℚ => p.2 * p.1) = sXY pts := S_congr (fun p _ => mul_comm _ _)
  have g6 : S pts (fun p : ℚ × ℚ => p.1 * p.1 * p.1) = sXXX pts := rfl
  have g7 : S pts (fun p : ℚ × ℚ => p.1 * p.1) = sXX pts := rfl
  have g8 : S pts (fun p : ℚ × ℚ => (1 : ℚ) * p.1) = sX pts := S_congr (fun p _ => one_mul _)
  have g9 : S pts (fun p : ℚ × ℚ => p.2 * 1) = sY pts := S_congr (fun p _ => mul_one _)
  have g10 : S pts (fun p : ℚ × ℚ => p.1 * p.1 * 1) = sXX pts := S_congr (fun p _ => mul_one _)
  have g11 : S pts (fun p : ℚ × ℚ => p.1 * 1) = sX pts := S_congr (fun p _ => mul_one _)
  have g12 : S pts (fun _ : ℚ × ℚ => (1 : ℚ) * 1) = sN pts := by rw [S_const]; simp [sN]
  rw [g1, g2, g3, g4, g5, g6, g7, g8, g9, g10, g11, g12, ha, hb, hc]
  refine ⟨?_, ?_, ?_⟩
  · linear_combination cr.1
  · linear_combination cr.2.1
  · linear_combination cr.2.2

section general
variable {ι : Type} (l : List ι) (f0 f1 f2 y : ι → ℚ)

/-- The three ways `general_fitting` can return. -/
theorem general_ok {a b c : ℚ}
    (h : general_fitting_cols (l.map f0) (l.map f1) (l.map f2) (l.map y) = .ok (a, b, c)) :
    let m := S l (fun i => f0 i * f0 i); let p := S l (fun i => f0 i * f1 i); let q := S l (fun i => f0 i * f2 i)
    let r := S l (fun i => f1 i * f1 i); let s := S l (fun i => f1 i * f2 i); let t := S l (fun i => f2 i * f2 i)
    let u := S l (fun i => y i * f0 i); let v := S l (fun i => y i * f1 i); let w := S l (fun i => y i * f2 i)
    let d := m * r * t + 2 * p * q * s - m * s * s - r * q * q - t * p * p
    (|r| < TOL ∧ |t| < TOL ∧ TOL ≤ |m| ∧ a = u / m ∧ b = 0 ∧ c = 0) ∨
    (|t| < TOL ∧ TOL ≤ |m| ∧ TOL ≤ |r| ∧ ¬ |m * r - p * p| < TOL ∧
      a = (u * r - v * p) / (m * r - p * p) ∧ b = (m * v - p * u) / (m * r - p * p) ∧ c = 0) ∨
    (¬ |m * r * t| < TOL ∧ ¬ |d| < TOL ∧
      a = (u * (r * t - s * s) + v * (q * s - p * t) + w * (p * s - q * r)) / d ∧
      b = (u * (s * q - p * t) + v * (m * t - q * q) + w * (p * q - m * s)) / d ∧
      c = (u * (p * s - r * q) + v * (p * q - m * s) + w * (m * r - p * p)) / d) := by
  rw [general_cols_eq] at h
  intro m p q r s t u v w d
  by_cases h1 : (|r| < TOL ∧ |t| < TOL) ∧ TOL ≤ |m|
  · have h1' := h1
    simp only [r, t, m] at h1'
    rw [if_pos h1'] at h
    injection h with h; injection h with e1 e2; injection e2 with e2 e3
    exact Or.inl ⟨h1.1.1, h1.1.2, h1.2, e1.symm, e2.symm, e3.symm⟩
  · have h1' := h1
    simp only [r, t, m] at h1'
    rw [if_neg h1'] at h
    by_cases h2 : (|t| < TOL ∧ TOL ≤ |m|) ∧ TOL ≤ |r|
    · have h2' := h2
      simp only [r, t, m] at h2'
      rw [if_pos h2'] at h
      by_cases h3 : |m * r - p * p| < TOL
      · have h3' := h3
        simp only [r, m, p] at h3'
        rw [if_pos h3'] at h; cases h
      · have h3' := h3
        simp only [r, m, p] at h3'
        rw [if_neg h3'] at h
        injection h with h; injection h with e1 e2; injection e2 with e2 e3
        exact Or.inr (Or.inl ⟨h2.1.1, h2.1.2, h2.2, h3, e1.symm, e2.symm, e3.symm⟩)
    · have h2' := h2
      simp only [r, t, m] at h2'
      rw [if_neg h2'] at h
      by_cases h3 : |m * r * t| < TOL
      · have h3' := h3
        simp only [r, m, t] at h3'
        rw [if_pos h3'] at h; cases h
      · have h3' := h3
        simp only [r, m, t] at h3'
        rw [if_neg h3'] at h
        by_cases h4 : |d| < TOL
        · have h4' := h4
          simp only [d, m, p, q, r, s, t] at h4'
          simp only [h4', if_true] at h; cases h
        · have h4' := h4
          simp only [d, m, p, q, r, s, t] at h4'
          simp only [h4', if_false] at h
          injection h with h; injection h with e1 e2; injection e2 with e2 e3
          exact Or.inr (Or.inr ⟨h3, h4, e1.symm, e2.symm, e3.symm⟩)

theorem ne_zero_of_TOL_le {d : ℚ} (h : TOL ≤ |d|) : d ≠ 0 := by
  intro h0; rw [h0, abs_zero] at h; exact absurd TOL_pos (not_lt.mpr h)

/-- Normal equations of the general fit: the residual of the returned coefficients is orthogonal to
    `f0`, and to `f1` (`f2`) unless the code treated that column as absent (`Σ f_k² < TOL`). -/
theorem general_normal (a b c : ℚ)
    (h : general_fitting_cols (l.map f0) (l.map f1) (l.map f2) (l.map y) = .ok (a, b, c)) :
    S l (fun i => (y i - (a * f0 i + b * f1 i + c * f2 i)) * f0 i) = 0 ∧
    (TOL ≤ |S l (fun i => f1 i * f1 i)| → S l (fun i => (y i - (a * f0 i + b * f1 i + c * f2 i)) * f1 i) = 0) ∧
    (TOL ≤ |S l (fun i => f2 i * f2 i)| → S l (fun i => (y i - (a * f0 i + b * f1 i + c * f2 i)) * f2 i) = 0) := by
  have sym01 : S l (fun i => f1 i * f0 i) = S l (fun i => f0 i * f1 i) := S_congr (fun i _ => mul_comm _ _)
  have sym02 : S l (fun i => f2 i * f0 i) = S l (fun i => f0 i * f2 i) := S_congr (fun i _ => mul_comm _ _)
  have sym12 : S l (fun i => f2 i * f1 i) = S l (fun i => f1 i * f2 i) := S_congr (fun i _ => mul_comm _ _)
  rw [S_resid l y f0 f1 f2 f0 a b c, S_resid l y f0 f1 f2 f1 a b c, S_resid l y f0 f1 f2 f2 a b c, sym01, sym02, sym12]
  rcases general_ok l f0 f1 f2 y h with ⟨hr, ht, hm, ha, hb, hc⟩ | ⟨ht, hm, hr, hd, ha, hb, hc⟩ | ⟨hmrt, hd, ha, hb, hc⟩
  · have hm0 := ne_zero_of_TOL_le hm
    refine ⟨?_, fun h' => absurd hr (not_lt.mpr h'), fun h' => absurd ht (not_lt.mpr h')⟩
    rw [ha, hb, hc, div_mul_cancel₀ _ hm0]; ring
  · have hd0 := ne_zero_of_not_lt_TOL hd
    have cr := cramer2 (S l (fun i => f0 i * f0 i)) (S l (fun i => f0 i * f1 i)) (S l (fun i => f1 i * f1 i))
      (S l (fun i => y i * f0 i)) (S l (fun i => y i * f1 i)) _ hd0 rfl
    refine ⟨?_, fun _ => ?_, fun h' => absurd ht (not_lt.mpr h')⟩
    · rw [ha, hb, hc]; linear_combination cr.1
    · rw [ha, hb, hc]; linear_combination cr.2
  · have hd0 := ne_zero_of_not_lt_TOL hd
    have cr := cramer3 (S l (fun i => f0 i * f0 i)) (S l (fun i => f0 i * f1 i)) (S l (fun i => f0 i * f2 i))
      (S l (fun i => f1 i * f1 i)) (S l (fun i => f1 i * f2 i)) (S l (fun i => f2 i * f2 i))
      (S l (fun i => y i * f0 i)) (S l (fun i => y i * f1 i)) (S l (fun i => y i * f2 i)) _ hd0 rfl
    refine ⟨?_, fun _ => ?_, fun _ => ?_⟩
    · rw [ha, hb, hc]; linear_combination cr.1
    · rw [ha, hb, hc]; linear_combination cr.2.1
    · rw [ha, hb, hc]; linear_combination cr.2.2

end general

theorem sums_perm {pts pts' : List (ℚ × ℚ)} (h : pts.Perm pts') :
    sN pts = sN pts' ∧ sX pts = sX pts' ∧ sY pts = sY pts' ∧ sXX pts = sXX pts' ∧ sXXX pts = sXXX pts' ∧
    sXXXX pts = sXXXX pts' ∧ sXY pts = sXY pts' ∧ sXXY pts = sXXY pts' ∧ sYY pts = sYY pts' :=
  ⟨by unfold sN; rw [h.length_eq], S_perm h _, S_perm h _, S_perm h _, S_perm h _, S_perm h _, S_perm h _,
    S_perm h _, S_perm h _⟩

theorem sN_ge_one {pts : List (ℚ × ℚ)} (hne : pts ≠ []) : 1 ≤ sN pts := by
  unfold sN
  have : 1 ≤ pts.length := List.length_pos_iff.mpr hne
  exact_mod_cast this

theorem const_x_sums {pts : List (ℚ × ℚ)} {c : ℚ} (h : ∀ p ∈ pts, p.1 = c) :
    sX pts = sN pts * c ∧ sXX pts = sN pts * (c * c) ∧ sXXX pts = sN pts * (c * c * c) ∧
    sXXXX pts = sN pts * ((c * c) * (c * c)) := by
  refine ⟨?_, ?_, ?_, ?_⟩
  · unfold sX sN; rw [S_congr (g := fun _ => c) (fun p hp => h p hp), S_const]
  · unfold sXX sN; rw [S_congr (g := fun _ => c * c) (fun p hp => by rw [h p hp]), S_const]
  · unfold sXXX sN; rw [S_congr (g := fun _ => c * c * c) (fun p hp => by rw [h p hp]), S_const]
  · unfold sXXXX sN; rw [S_congr (g := fun _ => (c * c) * (c * c)) (fun p hp => by rw [h p hp]), S_const]

/-- Abscissae taking at most two values `a`, `b`: every sum over the abscissae is `k g(a) + l g(b)`. -/
theorem two_values_sums {pts : List (ℚ × ℚ)} {a b : ℚ} (h : ∀ p ∈ pts, p.1 = a ∨ p.1 = b) :
    ∃ k l : ℚ, ∀ g : ℚ → ℚ, S pts (fun p => g p.1) = k * g a + l * g b := by
  induction pts with
  | nil => exact ⟨0, 0, fun g => by simp⟩
  | cons p t ih =>
    obtain ⟨k, l, hkl⟩ := ih (fun q hq => h q (List.mem_cons_of_mem _ hq))
    rcases h p List.mem_cons_self with hp | hp
    · exact ⟨k + 1, l, fun g => by rw [S_cons, hkl g, hp]; ring⟩
    · exact ⟨k, l + 1, fun g => by rw [S_cons, hkl g, hp]; ring⟩

/-- `Σ (λ f + μ g) h = λ Σ f h + μ Σ g h` -/
theorem S_lin2 {ι : Type} (l : List ι) (f g h : ι → ℚ) (a b : ℚ) :
    S l (fun i => (a * f i + b * g i) * h i) = a * S l (fun i => f i * h i) + b * S l (fun i => g i * h i) := by
  induction l with
  | nil => simp
  | cons i t ih => simp only [S_cons]; linear_combination ih

theorem take_zip' (xs ys : List ℚ) :
    (xs.take (min xs.length ys.length)).zip (ys.take (min xs.length ys.length)) = xs.zip ys := by
  unfold List.zip
  rw [← List.take_zipWith, List.take_of_length_le]
  simp

end Pymeeus.Refine.CurveFitting
