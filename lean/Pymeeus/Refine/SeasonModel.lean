import Pymeeus.Refine.SunEvents
import Pymeeus.Refine.EpochCoreR
import Pymeeus.Spec.SunEvents
/-
The season search with the model's OWN Epoch constructor (`mkEpoch`, templates/SunEvents.lean):
`mkEpoch` is the identity on `jde ≥ 0` (Refine/EpochCoreR.lean), the approximate instants of Meeus'
tables are ≥ 1 355 000, and a pass changes the instant by at most 58 days, so for a bounded number of
passes every instant the loop visits is one on which the constructor is exact.
-/
namespace Pymeeus.Refine.SunEvents
open Pymeeus Pymeeus.PR Pymeeus.GenR.SunEvents Pymeeus.Refine.EpochR

/-- The code's nested polynomials are Meeus' tables 27.A / 27.B (Spec/SunEvents.lean). -/
theorem season_jde0_eq_spec (year : Int) (k : Fin 4) (hy : -1000 ≤ year ∧ year ≤ 3000) :
    season_jde0 year (k : Int) = .ok (Spec.SunEvents.jde0 year k) := by
  unfold season_jde0 Spec.SunEvents.jde0 Spec.SunEvents.poly4
  by_cases h1 : year < 1000
  · have h1' : year ≥ -1000 ∧ year < 1000 := ⟨hy.1, h1⟩
    simp only [h1', and_self, if_true]
    fin_cases k <;> simp [Spec.SunEvents.table27A, ofInt] <;> norm_num <;> ring
  · have h2 : year ≥ 1000 ∧ year ≤ 3000 := by omega
    simp only [h2, and_self, if_true, if_false, h1]
    fin_cases k <;> simp [Spec.SunEvents.table27B, ofInt] <;> norm_num <;> ring

theorem poly4_ge (c : ℝ × ℝ × ℝ × ℝ × ℝ) (Y : ℝ) (hY : |Y| ≤ 1) :
    c.1 - |c.2.1| - |c.2.2.1| - |c.2.2.2.1| - |c.2.2.2.2| ≤ Spec.SunEvents.poly4 c Y := by
  unfold Spec.SunEvents.poly4
  have b : ∀ (a : ℝ) (n : ℕ), -|a| ≤ a * Y ^ n := by
    intro a n
    have h1 : |a * Y ^ n| ≤ |a| := by
      rw [abs_mul, abs_pow]
      calc |a| * |Y| ^ n ≤ |a| * 1 := mul_le_mul_of_nonneg_left (pow_le_one₀ (abs_nonneg Y) hY) (abs_nonneg a)
        _ = |a| := mul_one _
    exact neg_le_of_abs_le h1
  have b1 := b c.2.1 1
  have b2 := b c.2.2.1 2
  have b3 := b c.2.2.2.1 3
  have b4 := b c.2.2.2.2 4
  rw [pow_one] at b1
  linarith

theorem poly4_le (c : ℝ × ℝ × ℝ × ℝ × ℝ) (Y : ℝ) (hY : |Y| ≤ 1) :
    Spec.SunEvents.poly4 c Y ≤ c.1 + |c.2.1| + |c.2.2.1| + |c.2.2.2.1| + |c.2.2.2.2| := by
  unfold Spec.SunEvents.poly4
  have b : ∀ (a : ℝ) (n : ℕ), a * Y ^ n ≤ |a| := by
    intro a n
    have h1 : |a * Y ^ n| ≤ |a| := by
      rw [abs_mul, abs_pow]
      calc |a| * |Y| ^ n ≤ |a| * 1 := mul_le_mul_of_nonneg_left (pow_le_one₀ (abs_nonneg Y) hY) (abs_nonneg a)
        _ = |a| := mul_one _
    exact le_of_abs_le h1
  have b1 := b c.2.1 1
  have b2 := b c.2.2.1 2
  have b3 := b c.2.2.2.1 3
  have b4 := b c.2.2.2.2 4
  rw [pow_one] at b1
  linarith

/-- difference of two rows of a table, as a row -/
def rowSub (a b : ℝ × ℝ × ℝ × ℝ × ℝ) : ℝ × ℝ × ℝ × ℝ × ℝ :=
  (a.1 - b.1, a.2.1 - b.2.1, a.2.2.1 - b.2.2.1, a.2.2.2.1 - b.2.2.2.1, a.2.2.2.2 - b.2.2.2.2)

theorem poly4_sub (a b : ℝ × ℝ × ℝ × ℝ × ℝ) (Y : ℝ) :
    Spec.SunEvents.poly4 a Y - Spec.SunEvents.poly4 b Y = Spec.SunEvents.poly4 (rowSub a b) Y := by
  unfold Spec.SunEvents.poly4 rowSub; ring

/-- One year further (`Y + 1/1000`): the polynomial grows by `c1/1000` up to the small higher terms. -/
theorem poly4_step (c : ℝ × ℝ × ℝ × ℝ × ℝ) (Y : ℝ) (hY : |Y| ≤ 1) :
    |Spec.SunEvents.poly4 c (Y + 1 / 1000) - Spec.SunEvents.poly4 c Y - c.2.1 / 1000| ≤
      (2.001 * |c.2.2.1| + 3.004 * |c.2.2.2.1| + 4.007 * |c.2.2.2.2|) / 1000 := by
  have key : Spec.SunEvents.poly4 c (Y + 1 / 1000) - Spec.SunEvents.poly4 c Y - c.2.1 / 1000 =
      (c.2.2.1 * (2 * Y + 1 / 1000) + c.2.2.2.1 * (3 * Y ^ 2 + 3 * Y / 1000 + 1 / 1000000) +
        c.2.2.2.2 * (4 * Y ^ 3 + 6 * Y ^ 2 / 1000 + 4 * Y / 1000000 + 1 / 1000000000)) / 1000 := by
    unfold Spec.SunEvents.poly4; ring
  rw [key, abs_div, abs_of_pos (by norm_num : (0:ℝ) < 1000)]
  apply div_le_div_of_nonneg_right _ (by norm_num)
  have y1 := abs_le.mp hY
  have y2 : |Y ^ 2| ≤ 1 := by rw [abs_pow]; exact pow_le_one₀ (abs_nonneg Y) hY
  have y3 : |Y ^ 3| ≤ 1 := by rw [abs_pow]; exact pow_le_one₀ (abs_nonneg Y) hY
  have y2' := abs_le.mp y2
  have y3' := abs_le.mp y3
  have b2 : |2 * Y + 1 / 1000| ≤ 2.001 := by rw [abs_le]; constructor <;> norm_num <;> linarith [y1.1, y1.2]
  have b3 : |3 * Y ^ 2 + 3 * Y / 1000 + 1 / 1000000| ≤ 3.004 := by
    rw [abs_le]; constructor <;> norm_num <;> linarith [y1.1, y1.2, y2'.1, y2'.2]
  have b4 : |4 * Y ^ 3 + 6 * Y ^ 2 / 1000 + 4 * Y / 1000000 + 1 / 1000000000| ≤ 4.007 := by
    rw [abs_le]; constructor <;> norm_num <;> linarith [y1.1, y1.2, y2'.1, y2'.2, y3'.1, y3'.2]
  have t : ∀ (a b B : ℝ), |b| ≤ B → |a * b| ≤ B * |a| := by
    intro a b B hb; rw [abs_mul, mul_comm]; exact mul_le_mul_of_nonneg_right hb (abs_nonneg a)
  calc |c.2.2.1 * (2 * Y + 1 / 1000) + c.2.2.2.1 * (3 * Y ^ 2 + 3 * Y / 1000 + 1 / 1000000) +
        c.2.2.2.2 * (4 * Y ^ 3 + 6 * Y ^ 2 / 1000 + 4 * Y / 1000000 + 1 / 1000000000)|
      ≤ |c.2.2.1 * (2 * Y + 1 / 1000)| + |c.2.2.2.1 * (3 * Y ^ 2 + 3 * Y / 1000 + 1 / 1000000)| +
        |c.2.2.2.2 * (4 * Y ^ 3 + 6 * Y ^ 2 / 1000 + 4 * Y / 1000000 + 1 / 1000000000)| := abs_add_three _ _ _
    _ ≤ 2.001 * |c.2.2.1| + 3.004 * |c.2.2.2.1| + 4.007 * |c.2.2.2.2| := by
        linarith [t c.2.2.1 _ _ b2, t c.2.2.2.1 _ _ b3, t c.2.2.2.2 _ _ b4]

/-- Every approximate instant is far on the positive side of JD 0. -/
theorem season_jde0_ge {year k : Int} {j : ℝ} (hk : 0 ≤ k ∧ k ≤ 3) (h : season_jde0 year k = .ok j) :
    1350000 ≤ j := by
  have hy : -1000 ≤ year ∧ year ≤ 3000 := by
    by_contra hn
    have : season_jde0 year k = .error .valueError := by
      unfold season_jde0
      have h1 : ¬ (year ≥ -1000 ∧ year < 1000) := by omega
      have h2 : ¬ (year ≥ 1000 ∧ year ≤ 3000) := by omega
      simp only [h1, h2, if_false]
    rw [this] at h; simp at h
  obtain ⟨kf, rfl⟩ : ∃ kf : Fin 4, (kf : Int) = k := ⟨⟨k.toNat, by omega⟩, by simp; omega⟩
  rw [season_jde0_eq_spec year kf hy] at h
  simp only [Except.ok.injEq] at h
  rw [← h]
  unfold Spec.SunEvents.jde0
  have hyr : (-1000 : ℝ) ≤ year ∧ (year : ℝ) ≤ 3000 := ⟨by exact_mod_cast hy.1, by exact_mod_cast hy.2⟩
  split_ifs with h1
  · have h1r : (year : ℝ) < 1000 := by exact_mod_cast h1
    have hY : |(year : ℝ) / 1000| ≤ 1 := by rw [abs_le]; constructor <;> linarith
    have := poly4_ge (Spec.SunEvents.table27A kf) _ hY
    fin_cases kf <;> simp [Spec.SunEvents.table27A] at this ⊢ <;> norm_num [abs_of_pos, abs_of_neg] at this ⊢ <;> linarith
  · have h1r : (1000 : ℝ) ≤ year := by exact_mod_cast (not_lt.mp h1)
    have hY : |((year : ℝ) - 2000) / 1000| ≤ 1 := by rw [abs_le]; constructor <;> linarith
    have := poly4_ge (Spec.SunEvents.table27B kf) _ hY
    fin_cases kf <;> simp [Spec.SunEvents.table27B] at this ⊢ <;> norm_num [abs_of_pos, abs_of_neg] at this ⊢ <;> linarith

theorem season_corr_abs_le (k : Int) (lon : ℝ) : |season_corr k lon| ≤ 58 := by
  unfold season_corr psin
  rw [abs_mul]
  calc |(58.0 : ℝ)| * |Real.sin (pradians (season_arg k lon))| ≤ 58 * 1 := by
        apply mul_le_mul _ (Real.abs_sin_le_one _) (abs_nonneg _) (by norm_num)
        norm_num
    _ = 58 := by norm_num

/-- With the model's constructor, a loop started at `s ≥ 58·(fuel+1)` exits from a state `s' ≥ 58`
    (each pass moves the instant by at most 58 days and the constructor is exact on what it gets). -/
theorem season_loop_model (sunLon : ℝ → ℝ) (k : Int) (r : PyRes ℝ) :
    ∀ (fuel : Nat) (s : ℝ), 58 * ((fuel : ℝ) + 1) ≤ s →
      loopFuel (season_step mkEpoch sunLon k) fuel s = some r →
      ∃ s', 58 ≤ s' ∧ season_step mkEpoch sunLon k s' = .inr r := by
  intro fuel
  induction fuel with
  | zero => intro s _ h; simp [loopFuel] at h
  | succ n ih =>
    intro s hs h
    push_cast at hs
    have hn : (0 : ℝ) ≤ n := Nat.cast_nonneg n
    unfold loopFuel at h
    cases hst : season_step mkEpoch sunLon k s with
    | inr r' =>
      rw [hst] at h
      simp only [Option.some.injEq] at h
      exact ⟨s, by linarith, by rw [hst, h]⟩
    | inl s1 =>
      rw [hst] at h
      apply ih s1 _ h
      -- s1 = s + corr
      have hc := abs_le.mp (season_corr_abs_le k (sunLon s))
      have hpos : 0 ≤ s + season_corr k (sunLon s) := by linarith
      unfold season_step at hst
      simp only [mkEpoch_exact _ hpos] at hst
      split_ifs at hst
      simp only [Sum.inl.injEq] at hst
      rw [← hst]; linarith

/-- What a small correction says about the longitude, in degrees. -/
theorem season_angle_of_corr (k : Int) (lon : ℝ) (h3 : |season_corr k lon| ≤ 0.0000025) :
    |58 * Real.sin (season_arg k lon * (Real.pi / 180))| ≤ 0.0000025 ∧
    ∃ n : ℤ, |((k : ℝ) * 90 - lon) - 180 * n| ≤ Real.arcsin (0.0000025 / 58) * (180 / Real.pi) := by
  have hc : |58 * Real.sin (season_arg k lon * (Real.pi / 180))| ≤ 0.0000025 := by
    have : season_corr k lon = 58 * Real.sin (season_arg k lon * (Real.pi / 180)) := by
      unfold season_corr psin pradians; norm_num
    rw [← this]; exact h3
  refine ⟨hc, ?_⟩
  have hs : |Real.sin (season_arg k lon * (Real.pi / 180))| ≤ 0.0000025 / 58 := by
    rw [abs_mul] at hc
    rw [le_div_iff₀ (by norm_num)]
    have : |(58 : ℝ)| = 58 := abs_of_pos (by norm_num)
    rw [this] at hc; linarith
  obtain ⟨m, hm⟩ := near_int_mul_pi_of_abs_sin_le hs
  obtain ⟨n, hn⟩ := season_arg_congr k lon
  refine ⟨m + 2 * n, ?_⟩
  have hpi : 0 < Real.pi := Real.pi_pos
  have key : ((k : ℝ) * 90 - lon) - 180 * ((m + 2 * n : ℤ) : ℝ)
      = (season_arg k lon * (Real.pi / 180) - m * Real.pi) * (180 / Real.pi) := by
    rw [hn]; push_cast; field_simp; ring
  rw [key, abs_mul, abs_of_pos (by positivity : (0 : ℝ) < 180 / Real.pi)]
  exact mul_le_mul_of_nonneg_right hm (by positivity)

theorem season_index_range {target : String} {k : Int} (h : season_index target = .ok k) : 0 ≤ k ∧ k ≤ 3 := by
  unfold season_index at h
  split_ifs at h <;> simp at h <;> omega

end Pymeeus.Refine.SunEvents
