import Mathlib.Analysis.SpecialFunctions.Trigonometric.Bounds
import Mathlib.Analysis.Real.Pi.Bounds
import Mathlib.Topology.Order.IntermediateValue
import Pymeeus.Gen.R.Kepler
/-!
Helper lemmas for C11 about the real-number instantiation of `templates/Kepler.lean`:
the partial float operations, Kepler's function `x - e sin x`, the bisection loop.
-/
noncomputable section
namespace Pymeeus.Refine.Kepler
open Pymeeus Pymeeus.PR Pymeeus.GenR.Kepler Real

/-! ### partial operations -/

theorem fdiv_ok {x y : ℝ} (h : y ≠ 0) : fdiv x y = .ok (x / y) := by
  simp [fdiv, peq, h]

theorem fsqrt_ok {x : ℝ} (h : 0 ≤ x) : fsqrt x = .ok (Real.sqrt x) := by
  simp [fsqrt, plt, psqrt, not_lt.mpr h]

theorem facos_ok {x : ℝ} (h1 : -1 ≤ x) (h2 : x ≤ 1) : facos x = .ok (Real.arccos x) := by
  simp [facos, plt, pacos, not_lt.mpr h1, not_lt.mpr h2]

/-! ### loopFuel -/

theorem loopFuel_inl {σ ρ : Type} (step : σ → Sum σ ρ) (n : Nat) (s s' : σ) (h : step s = .inl s') :
    loopFuel step (n + 1) s = loopFuel step n s' := by
  simp [loopFuel, h]

theorem loopFuel_inr {σ ρ : Type} (step : σ → Sum σ ρ) (n : Nat) (s : σ) (r : ρ) (h : step s = .inr r) :
    loopFuel step (n + 1) s = some r := by
  simp [loopFuel, h]

/-! ### the step of Sinnott's binary search -/

/-- `|e0 - ef|` after `k` passes: `(π/2)/2^k`; the step width to be used next is half of it. -/
def gap (k : Nat) : ℝ := (π / 2) / 2 ^ k

theorem gap_pos (k : Nat) : 0 < gap k := by unfold gap; positivity

theorem gap_succ (k : Nat) : gap (k + 1) = gap k / 2 := by
  unfold gap; rw [pow_succ]; field_simp

theorem gap_zero : gap 0 = π / 2 := by simp [gap]

theorem gap_anti {j k : Nat} (h : j ≤ k) : gap k ≤ gap j := by
  unfold gap
  apply div_le_div_of_nonneg_left (by positivity) (by positivity)
  exact pow_le_pow_right₀ (by norm_num) h

theorem tol_lt_gap33 : (1e-10 : ℝ) < gap 33 := by
  unfold gap
  have := Real.pi_gt_three
  rw [lt_div_iff₀ (by positivity)]
  norm_num
  linarith

theorem gap34_le_tol : gap 34 ≤ (1e-10 : ℝ) := by
  unfold gap
  have := Real.pi_lt_d2
  rw [div_le_iff₀ (by positivity)]
  norm_num at this ⊢
  linarith

/-- State invariant after `k` passes: next step width and last displacement. -/
def Inv (k : Nat) (st : ℝ × ℝ × ℝ) : Prop := st.2.1 = gap (k + 1) ∧ |st.1 - st.2.2| = gap k

theorem step_continue (ecc m : ℝ) {k : Nat} (hk : k ≤ 33) {st : ℝ × ℝ × ℝ} (h : Inv k st) :
    kepler_step ecc m st =
      .inl (st.1 + gap (k + 1) * copysign1 (m - (st.1 - ecc * Real.sin st.1)), gap (k + 2), st.1) := by
  obtain ⟨h1, h2⟩ := h
  have : (1e-10 : ℝ) < gap k := lt_of_lt_of_le tol_lt_gap33 (gap_anti hk)
  simp only [kepler_step, TOL, plt, pabs, psin, h2, h1, this, decide_true, if_true]
  rw [gap_succ (k + 1)]
  norm_num

theorem step_stop (ecc m : ℝ) {k : Nat} (hk : 34 ≤ k) {st : ℝ × ℝ × ℝ} (h : Inv k st) :
    kepler_step ecc m st = .inr st.1 := by
  obtain ⟨h1, h2⟩ := h
  have : ¬ (1e-10 : ℝ) < gap k := not_lt.mpr (le_trans (gap_anti hk) gap34_le_tol)
  simp only [kepler_step, TOL, plt, pabs, h2, this, decide_false]
  simp

theorem copysign1_abs (x : ℝ) : copysign1 x = 1 ∨ copysign1 x = -1 := by
  unfold copysign1; split <;> simp

theorem inv_init : Inv 0 (π / 2, π / 4, 0) := by
  refine ⟨?_, ?_⟩
  · show π / 4 = gap 1
    unfold gap; ring
  · show |π / 2 - 0| = gap 0
    rw [gap_zero, sub_zero, abs_of_pos (by positivity)]

theorem inv_step (ecc m : ℝ) {k : Nat} {st : ℝ × ℝ × ℝ} (_h : Inv k st) :
    Inv (k + 1) (st.1 + gap (k + 1) * copysign1 (m - (st.1 - ecc * Real.sin st.1)), gap (k + 2), st.1) := by
  refine ⟨rfl, ?_⟩
  show |st.1 + gap (k + 1) * _ - st.1| = gap (k + 1)
  rcases copysign1_abs (m - (st.1 - ecc * Real.sin st.1)) with h | h <;> rw [h]
  · have : st.1 + gap (k + 1) * 1 - st.1 = gap (k + 1) := by ring
    rw [this, abs_of_pos (gap_pos _)]
  · have : st.1 + gap (k + 1) * -1 - st.1 = -gap (k + 1) := by ring
    rw [this, abs_neg, abs_of_pos (gap_pos _)]


/-- General form of the run of the loop: from a state satisfying `Inv k` (`k ≤ 34`) and any property `Q` that the
    step preserves, the loop needs exactly `35 - k` evaluations of its test and ends in a `Q 34`-state. -/
theorem run_loop (ecc m : ℝ) (Q : Nat → ℝ → Prop)
    (hQ : ∀ k x, k ≤ 33 → Q k x → Q (k + 1) (x + gap (k + 1) * copysign1 (m - (x - ecc * Real.sin x)))) :
    ∀ j k, k + j = 34 → ∀ st, Inv k st → Q k st.1 →
      (∃ e0, loopFuel (kepler_step ecc m) (j + 1) st = some e0 ∧ Q 34 e0) ∧
      loopFuel (kepler_step ecc m) j st = none := by
  intro j
  induction j with
  | zero =>
    intro k hk st hI hq
    have hk' : k = 34 := by omega
    subst hk'
    refine ⟨⟨st.1, ?_, hq⟩, rfl⟩
    exact loopFuel_inr _ _ _ _ (step_stop ecc m (le_refl _) hI)
  | succ j ih =>
    intro k hk st hI hq
    have hk' : k ≤ 33 := by omega
    have hs := step_continue ecc m hk' hI
    have := ih (k + 1) (by omega) _ (inv_step ecc m hI) (hQ k st.1 hk' hq)
    rw [loopFuel_inl _ _ _ _ hs, loopFuel_inl _ _ _ _ hs]
    exact this

theorem loopFuel_mono {σ ρ : Type} (step : σ → Sum σ ρ) (n : Nat) (s : σ) (r : ρ)
    (h : loopFuel step n s = some r) : ∀ k, loopFuel step (n + k) s = some r := by
  induction n generalizing s with
  | zero => simp [loopFuel] at h
  | succ n ih =>
    intro k
    have : n + 1 + k = (n + k) + 1 := by omega
    rw [this]
    unfold loopFuel at h ⊢
    cases hs : step s with
    | inl s' => simp only [hs] at h ⊢; exact ih s' h k
    | inr r' => simp only [hs] at h ⊢; exact h

/-! ### Kepler's function `x ↦ x - e sin x` -/

/-- `kep e x = x - e sin x` -/
def kep (e x : ℝ) : ℝ := x - e * Real.sin x

theorem kep_neg (e x : ℝ) : kep e (-x) = -kep e x := by simp [kep]; ring

theorem kep_zero (e : ℝ) : kep e 0 = 0 := by simp [kep]

theorem kep_pi (e : ℝ) : kep e π = π := by simp [kep]

theorem kep_continuous (e : ℝ) : Continuous (kep e) := by
  unfold kep; fun_prop

/-- lower Lipschitz bound: `1 - e cos ≥ 1 - e` in integrated form -/
theorem kep_sub_ge {e : ℝ} (he0 : 0 ≤ e) {x y : ℝ} (h : x ≤ y) : (1 - e) * (y - x) ≤ kep e y - kep e x := by
  have hs := Real.abs_sin_sub_sin_le y x
  rw [abs_of_nonneg (sub_nonneg.mpr h)] at hs
  have := (abs_le.mp hs).2
  unfold kep
  nlinarith

theorem kep_sub_le {e : ℝ} (he0 : 0 ≤ e) (x y : ℝ) : |kep e y - kep e x| ≤ (1 + e) * |y - x| := by
  have hs := Real.abs_sin_sub_sin_le y x
  have : kep e y - kep e x = (y - x) - e * (Real.sin y - Real.sin x) := by unfold kep; ring
  rw [this]
  calc |(y - x) - e * (Real.sin y - Real.sin x)| ≤ |y - x| + |e * (Real.sin y - Real.sin x)| := abs_sub _ _
    _ = |y - x| + e * |Real.sin y - Real.sin x| := by rw [abs_mul, abs_of_nonneg he0]
    _ ≤ |y - x| + e * |y - x| := by nlinarith [abs_nonneg (y - x)]
    _ = (1 + e) * |y - x| := by ring

theorem kep_strictMono {e : ℝ} (he0 : 0 ≤ e) (he1 : e < 1) : StrictMono (kep e) := by
  intro x y h
  have := kep_sub_ge he0 (le_of_lt h)
  have : 0 < (1 - e) * (y - x) := mul_pos (by linarith) (by linarith)
  linarith

/-- The root exists (intermediate value theorem on `[0, π]`). -/
theorem kep_root_exists (e : ℝ) {m : ℝ} (h0 : 0 ≤ m) (h1 : m ≤ π) : ∃ x, 0 ≤ x ∧ x ≤ π ∧ kep e x = m := by
  have := intermediate_value_Icc (f := kep e) (a := 0) (b := π) (le_of_lt Real.pi_pos)
    (kep_continuous e).continuousOn
  rw [kep_zero, kep_pi] at this
  obtain ⟨x, hx, hxm⟩ := this ⟨h0, h1⟩
  exact ⟨x, hx.1, hx.2, hxm⟩

/-! ### the search keeps the root in its bracket -/

/-- Result of the binary search for `m = kep e x`, `x ∈ [0, π]`. -/
theorem search_spec {e : ℝ} (he0 : 0 ≤ e) (he1 : e < 1) {x : ℝ} (hx0 : 0 ≤ x) (hxpi : x ≤ π) :
    ∃ e0, kepler_search e (kep e x) = some e0 ∧ |e0 - x| ≤ gap 34 ∧ gap 34 ≤ e0 ∧ e0 ≤ π - gap 34 := by
  have hmono := kep_strictMono he0 he1
  let Q : Nat → ℝ → Prop := fun k y => |y - x| ≤ gap k ∧ gap k ≤ y ∧ y ≤ π - gap k
  have hQ : ∀ k y, k ≤ 33 → Q k y →
      Q (k + 1) (y + gap (k + 1) * copysign1 (kep e x - (y - e * Real.sin y))) := by
    intro k y _ ⟨h1, h2, h3⟩
    have hg := gap_succ k
    have hp := gap_pos (k + 1)
    rw [abs_le] at h1
    show |_ - x| ≤ gap (k + 1) ∧ _
    unfold copysign1
    split
    · rename_i hc
      have hyx : y ≤ x := by
        by_contra hcon
        have := hmono (not_le.mp hcon)
        unfold kep at this hc
        linarith
      refine ⟨?_, ?_, ?_⟩
      · rw [abs_le]; constructor <;> linarith
      · linarith
      · linarith
    · rename_i hc
      have hyx : x < y := by
        by_contra hcon
        have := hmono.monotone (not_lt.mp hcon)
        unfold kep at this hc
        linarith
      refine ⟨?_, ?_, ?_⟩
      · rw [abs_le]; constructor <;> linarith
      · linarith
      · linarith
  have hq0 : Q 0 (π / 2) := by
    show |π / 2 - x| ≤ gap 0 ∧ gap 0 ≤ π / 2 ∧ π / 2 ≤ π - gap 0
    rw [gap_zero, abs_le]
    refine ⟨⟨by linarith, by linarith⟩, le_refl _, by linarith⟩
  obtain ⟨⟨e0, h35, hq⟩, _⟩ := run_loop e (kep e x) Q hQ 34 0 (by norm_num) (π / 2, π / 4, 0) inv_init hq0
  refine ⟨e0, ?_, hq⟩
  have := loopFuel_mono _ _ _ _ h35 65
  have hinit : ((Pymeeus.PR.pi / 2.0, Pymeeus.PR.pi / 4.0, 0.0) : ℝ × ℝ × ℝ) = (π / 2, π / 4, 0) := by
    simp only [Pymeeus.PR.pi]; norm_num
  unfold kepler_search kepler_fuel
  rw [hinit]
  exact this


/-! ### reduction of the mean anomaly -/

/-- The anomaly reduced to `[0, 2π)` as the code computes it (before the reflection). -/
def red2pi (μ : ℝ) : ℝ :=
  let t := |μ| / (2 * π)
  let m1 := (t - ((⌊t⌋ : ℤ) : ℝ)) * 2 * π * (if 0 ≤ μ then 1 else -1)
  if m1 < 0 then m1 + 2 * π else m1

theorem red2pi_spec (μ : ℝ) : 0 ≤ red2pi μ ∧ red2pi μ < 2 * π ∧ ∃ k : ℤ, μ = red2pi μ + 2 * π * k := by
  have hpi := Real.pi_pos
  unfold red2pi
  dsimp only
  set t := |μ| / (2 * π) with ht
  have hfr0 : 0 ≤ t - ((⌊t⌋ : ℤ) : ℝ) := sub_nonneg.mpr (Int.floor_le t)
  have hfr1 : t - ((⌊t⌋ : ℤ) : ℝ) < 1 := by linarith [Int.lt_floor_add_one t]
  have habs : |μ| = t * (2 * π) := by rw [ht]; field_simp
  obtain ⟨fr, hfr⟩ : ∃ fr, fr = t - ((⌊t⌋ : ℤ) : ℝ) := ⟨_, rfl⟩
  rw [← hfr] at hfr0 hfr1 ⊢
  have htn : t = fr + ((⌊t⌋ : ℤ) : ℝ) := by rw [hfr]; ring
  by_cases hμ : 0 ≤ μ
  · simp only [hμ, if_true]
    have h1 : ¬ (fr * 2 * π * 1 < 0) := by
      have : 0 ≤ fr * 2 * π * 1 := by positivity
      linarith
    rw [if_neg h1]
    refine ⟨by positivity, by nlinarith, ⌊t⌋, ?_⟩
    rw [abs_of_nonneg hμ] at habs
    have hμe : μ = (fr + ((⌊t⌋ : ℤ) : ℝ)) * (2 * π) := by rw [← htn]; exact habs
    calc μ = _ := hμe
      _ = _ := by ring
  · simp only [hμ, if_false]
    rw [abs_of_neg (not_le.mp hμ)] at habs
    by_cases hz : fr = 0
    · have h1 : ¬ (fr * 2 * π * -1 < 0) := by rw [hz]; simp
      rw [if_neg h1]
      refine ⟨by rw [hz]; simp, by rw [hz]; simp; positivity, -⌊t⌋, ?_⟩
      have hμe : μ = -((fr + ((⌊t⌋ : ℤ) : ℝ)) * (2 * π)) := by rw [← htn]; linarith
      calc μ = _ := hμe
        _ = _ := by rw [hz]; push_cast; ring
    · have hfrpos : 0 < fr := lt_of_le_of_ne hfr0 (Ne.symm hz)
      have h1 : fr * 2 * π * -1 < 0 := by nlinarith
      rw [if_pos h1]
      refine ⟨by nlinarith, by nlinarith, -⌊t⌋ - 1, ?_⟩
      have hμe : μ = -((fr + ((⌊t⌋ : ℤ) : ℝ)) * (2 * π)) := by rw [← htn]; linarith
      calc μ = _ := hμe
        _ = _ := by push_cast; ring

theorem kepler_reduce_eq (M : ℝ) :
    kepler_reduce M =
      if π < red2pi (M * (π / 180)) then (-1, 2 * π - red2pi (M * (π / 180))) else (1, red2pi (M * (π / 180))) := by
  have e2 : (2.0 : ℝ) = 2 := by norm_num
  have e1 : (1.0 : ℝ) = 1 := by norm_num
  have e0 : (0.0 : ℝ) = 0 := by norm_num
  unfold kepler_reduce red2pi copysign1
  simp only [pradians, pabs, plt, pfloor, ofInt, Pymeeus.PR.pi, decide_eq_true_eq, e2, e1, e0]
  congr!


/-! ### the Angle helpers -/

theorem reduce_deg_small {x : ℝ} (h : |x| < 360) : reduce_deg x = x := by
  have : ¬ ((360.0 : ℝ) ≤ |x|) := by norm_num; exact h
  simp [reduce_deg, ple, pabs, this]

/-- `reduce_deg` changes its argument by whole turns only. -/
theorem reduce_deg_congr (x : ℝ) : ∃ j : ℤ, reduce_deg x = x + 360 * j := by
  by_cases h : |x| < 360
  · exact ⟨0, by rw [reduce_deg_small h]; simp⟩
  · have h360 : (360.0 : ℝ) ≤ |x| := by norm_num; exact not_lt.mp h
    have habs0 : 0 ≤ |x| := abs_nonneg x
    have hmod : ((Int.fmod ⌊|x|⌋ 360 : ℤ) : ℝ) = (⌊|x|⌋ : ℝ) - 360 * ((⌊|x|⌋ / 360 : ℤ) : ℝ) := by
      have h1 : Int.fmod ⌊|x|⌋ 360 = ⌊|x|⌋ % 360 := Int.fmod_eq_emod_of_nonneg _ (by norm_num)
      have h2 := Int.emod_add_mul_ediv ⌊|x|⌋ 360
      rw [h1]
      have : (⌊|x|⌋ % 360 : ℤ) = ⌊|x|⌋ - 360 * (⌊|x|⌋ / 360) := by omega
      rw [this]; push_cast; ring
    have hval : reduce_deg x = (if 0 ≤ x then (1 : ℝ) else -1) * (|x| - 360 * ((⌊|x|⌋ / 360 : ℤ) : ℝ)) := by
      have e1 : (1.0 : ℝ) = 1 := by norm_num
      unfold reduce_deg
      simp only [ple, pabs, h360, decide_true, if_true, pmod, ptrunc, habs0, imod, ofInt, decide_eq_true_eq, e1]
      rw [hmod]
      have : |x| / 1 = |x| := by simp
      rw [this]
      split_ifs <;> ring
    by_cases hx : 0 ≤ x
    · refine ⟨-(⌊|x|⌋ / 360), ?_⟩
      rw [hval, if_pos hx, abs_of_nonneg hx]; push_cast; ring
    · refine ⟨⌊|x|⌋ / 360, ?_⟩
      rw [hval, if_neg hx, abs_of_neg (not_le.mp hx)]; push_cast; ring

theorem angle_of_rad_small {x : ℝ} (h : |x| < 2 * π) : angle_of_rad x = x * (180 / π) := by
  unfold angle_of_rad pdegrees
  apply reduce_deg_small
  have hpi := Real.pi_pos
  rw [abs_mul, abs_of_pos (by positivity : (0:ℝ) < 180 / π)]
  calc |x| * (180 / π) < 2 * π * (180 / π) := by
        apply mul_lt_mul_of_pos_right h (by positivity)
    _ = 360 := by field_simp; ring

theorem radians_degrees (x : ℝ) : pradians (x * (180 / π)) = x := by
  unfold pradians; field_simp

/-! ### `kepler_equation` in terms of the search result -/

theorem kepler_equation_of_search {e : ℝ} (he0 : 0 ≤ e) (he1 : e < 1) {M f m e0 : ℝ}
    (hred : kepler_reduce M = (f, m)) (hf : f = 1 ∨ f = -1) (hs : kepler_search e m = some e0)
    (h0 : 0 < e0) (hpi : e0 < π) :
    kepler_equation e M = .ok (e0 * f * (180 / π),
      2 * Real.arctan (Real.sqrt ((1 + e) / (1 - e)) * Real.tan (e0 * f / 2)) * (180 / π)) := by
  have hpos := Real.pi_pos
  have habs : |e0 * f| < 2 * π := by
    rcases hf with h | h <;> rw [h] <;> simp [abs_of_pos h0] <;> linarith
  have hq : (1.0 : ℝ) - e ≠ 0 := by norm_num; linarith
  have hq0 : 0 ≤ ((1.0 : ℝ) + e) / (1.0 - e) := by
    apply div_nonneg <;> norm_num <;> linarith
  have hv : |2.0 * patan (Real.sqrt ((1.0 + e) / (1.0 - e)) * ptan (e0 * f / 2.0))| < 2 * π := by
    unfold patan
    have h1 := Real.arctan_lt_pi_div_two (Real.sqrt ((1.0 + e) / (1.0 - e)) * ptan (e0 * f / 2.0))
    have h2 := Real.neg_pi_div_two_lt_arctan (Real.sqrt ((1.0 + e) / (1.0 - e)) * ptan (e0 * f / 2.0))
    rw [abs_lt]; norm_num; constructor <;> linarith
  have hguard : ple (1.0 : ℝ) e = false := by
    unfold ple; rw [decide_eq_false_iff_not]; norm_num; exact he1
  unfold kepler_equation
  simp only [hguard, Bool.false_eq_true, if_false]
  simp only [hred, hs, fdiv_ok hq, fsqrt_ok hq0, angle_of_rad_small habs, radians_degrees, angle_of_rad_small hv]
  simp only [patan, ptan]
  norm_num


/-- Everything `kepler_equation` does, for `0 ≤ e < 1` and any mean anomaly `M` (degrees). -/
theorem kepler_struct {e : ℝ} (he0 : 0 ≤ e) (he1 : e < 1) (M : ℝ) :
    ∃ f m e0 xr : ℝ, kepler_reduce M = (f, m) ∧ (f = 1 ∨ f = -1) ∧ 0 ≤ xr ∧ xr ≤ π ∧ kep e xr = m ∧
      kepler_search e m = some e0 ∧ |e0 - xr| ≤ gap 34 ∧ gap 34 ≤ e0 ∧ e0 ≤ π - gap 34 ∧
      kepler_equation e M = .ok (e0 * f * (180 / π),
        2 * Real.arctan (Real.sqrt ((1 + e) / (1 - e)) * Real.tan (e0 * f / 2)) * (180 / π)) ∧
      (red2pi (M * (π / 180)) ≤ π → f = 1 ∧ m = red2pi (M * (π / 180))) ∧
      (π < red2pi (M * (π / 180)) → f = -1 ∧ m = 2 * π - red2pi (M * (π / 180))) := by
  obtain ⟨hr0, hr1, _⟩ := red2pi_spec (M * (π / 180))
  have hg := gap_pos 34
  by_cases hc : π < red2pi (M * (π / 180))
  · have hred : kepler_reduce M = (-1, 2 * π - red2pi (M * (π / 180))) := by
      rw [kepler_reduce_eq, if_pos hc]
    obtain ⟨xr, hx0, hx1, hxm⟩ := kep_root_exists e (m := 2 * π - red2pi (M * (π / 180))) (by linarith) (by linarith)
    obtain ⟨e0, hs, h1, h2, h3⟩ := search_spec he0 he1 hx0 hx1
    rw [hxm] at hs
    refine ⟨-1, _, e0, xr, hred, Or.inr rfl, hx0, hx1, hxm, hs, h1, h2, h3, ?_, ?_, ?_⟩
    · exact kepler_equation_of_search he0 he1 hred (Or.inr rfl) hs (by linarith) (by linarith)
    · intro h; exact absurd hc (not_lt.mpr h)
    · intro _; exact ⟨rfl, rfl⟩
  · have hred : kepler_reduce M = (1, red2pi (M * (π / 180))) := by
      rw [kepler_reduce_eq, if_neg hc]
    obtain ⟨xr, hx0, hx1, hxm⟩ := kep_root_exists e (m := red2pi (M * (π / 180))) hr0 (not_lt.mp hc)
    obtain ⟨e0, hs, h1, h2, h3⟩ := search_spec he0 he1 hx0 hx1
    rw [hxm] at hs
    refine ⟨1, _, e0, xr, hred, Or.inl rfl, hx0, hx1, hxm, hs, h1, h2, h3, ?_, ?_, ?_⟩
    · exact kepler_equation_of_search he0 he1 hred (Or.inl rfl) hs (by linarith) (by linarith)
    · intro _; exact ⟨rfl, rfl⟩
    · intro h; exact absurd h hc

end Pymeeus.Refine.Kepler
