import Pymeeus.Refine.SunEarth
import Pymeeus.Gen.R.EpochCal
import Mathlib.Analysis.Real.Pi.Bounds
import Mathlib.Analysis.Complex.Trigonometric
/-
`Epoch.apparent_sidereal_time` over ℝ: the equation of the equinoxes.
-/
noncomputable section
namespace Pymeeus.Refine.SiderealApparent
open Pymeeus Pymeeus.PR Pymeeus.GenR Pymeeus.GenR.Helio Pymeeus.Refine.SunEarth Pymeeus.Refine.Vsop

/-- structure: apparent = mean + Δψ cos ε / 15 / 86400 (Δψ in arcseconds = `nutation_longitude * 3600`) -/
theorem apparent_eq (j ε ψ : ℝ) :
    apparent_sidereal_time j ε ψ = mean_sidereal_time j + ψ * 3600 * Real.cos (ε * (Real.pi / 180)) / 15 / 86400 := by
  unfold apparent_sidereal_time pcos pradians
  norm_num


/-- Δψ in arcseconds, |T| ≤ 40: main term amplitude + sum of the absolute values of the other 62 terms -/
theorem nutation_longitude_abs (jde : ℝ) (h : |(jde - 2451545) / 36525| ≤ 40) :
    |nutation_longitude jde * 3600| ≤
      (|171996 + 174.2 * ((jde - 2451545) / 36525)| + 22320 + 8.1 * |(jde - 2451545) / 36525|) / 10000 := by
  have e0 : ((jde - 2451545.0) / 36525.0 : ℝ) = (jde - 2451545) / 36525 := by norm_num
  set t := (jde - 2451545) / 36525 with ht
  have hS : NUTATION_SINE_COEF_TABLE = [-171996.0, -174.2] :: NUTATION_SINE_COEF_TABLE.tail := rfl
  have hA : NUTATION_ARG_TABLE = [0, 0, 0, 0, 1] :: NUTATION_ARG_TABLE.tail := rfl
  have hm := nutation_series_main_term true [-171996.0, -174.2] NUTATION_SINE_COEF_TABLE.tail [0, 0, 0, 0, 1]
    NUTATION_ARG_TABLE.tail hA t
  rw [← hS] at hm
  have s1 : ((NUTATION_SINE_COEF_TABLE.tail).map fun v => |v.getD 0 0|).sum = 22320 := by
    norm_num [NUTATION_SINE_COEF_TABLE, abs_of_pos, abs_of_neg]
  have s2 : ((NUTATION_SINE_COEF_TABLE.tail).map fun v => |v.getD 1 0|).sum = 8.1 := by
    norm_num [NUTATION_SINE_COEF_TABLE, abs_of_pos, abs_of_neg]
  rw [s1, s2] at hm
  have hterm : nutation_term true t (nutation_arguments t) ([-171996.0, -174.2], [0, 0, 0, 0, 1]) =
      (-171996 + -174.2 * t) * Real.sin (Spec.nutationNode t) / 10000 := by
    have hne : ¬ ((-174.2 : ℝ) = 0) := by norm_num
    simp only [nutation_term, nutation_coeff, psin, (first_argument_trig t).1, if_true]
    norm_num [peq]
  rw [hterm] at hm
  set S := nutation_series true NUTATION_SINE_COEF_TABLE t with hSdef
  have hsin := Real.abs_sin_le_one (Spec.nutationNode t)
  have hmain : |(-171996 + -174.2 * t) * Real.sin (Spec.nutationNode t) / 10000| ≤ |171996 + 174.2 * t| / 10000 := by
    rw [abs_div, abs_mul, abs_of_pos (by norm_num : (0 : ℝ) < 10000)]
    apply div_le_div_of_nonneg_right _ (by norm_num)
    have : |(-171996 + -174.2 * t : ℝ)| = |171996 + 174.2 * t| := by
      rw [show (-171996 + -174.2 * t : ℝ) = -(171996 + 174.2 * t) by ring, abs_neg]
    rw [this]
    calc |171996 + 174.2 * t| * |Real.sin (Spec.nutationNode t)| ≤ |171996 + 174.2 * t| * 1 :=
          mul_le_mul_of_nonneg_left hsin (abs_nonneg _)
      _ = _ := mul_one _
  have hSb : |S| ≤ (|171996 + 174.2 * t| + 22320 + 8.1 * |t|) / 10000 := by
    have := abs_sub_abs_le_abs_sub S ((-171996 + -174.2 * t) * Real.sin (Spec.nutationNode t) / 10000)
    have e : (|171996 + 174.2 * t| + 22320 + 8.1 * |t|) / 10000 = |171996 + 174.2 * t| / 10000 + (22320 + 8.1 * |t|) / 10000 := by ring
    rw [e]; linarith
  have hbig : |171996 + 174.2 * t| ≤ 171996 + 174.2 * 40 := by
    rw [abs_le]; obtain ⟨a, b⟩ := abs_le.mp h; constructor <;> linarith
  have hSabs : |S| < 1296000 := by
    refine lt_of_le_of_lt hSb ?_
    rw [div_lt_iff₀ (by norm_num)]; nlinarith [abs_nonneg t]
  unfold nutation_longitude
  simp only [e0]
  rw [angDms_zero_zero _ hSabs]
  rw [show S / 3600 * 3600 = S by ring]
  exact hSb

/-- "apparent sidereal time differs from [mean] by the equation of the equinoxes": for every obliquity argument
    and |T| ≤ 40 centuries (years −2000 … 6000) the difference is at most 1.345 s of time. -/
theorem apparent_minus_mean_le (j ε : ℝ) (h : |(j - 2451545) / 36525| ≤ 40) :
    |apparent_sidereal_time j ε (nutation_longitude j) - mean_sidereal_time j| ≤ 1.345 / 86400 := by
  rw [apparent_eq]
  have hN := nutation_longitude_abs j h
  set t := (j - 2451545) / 36525
  have hbig : |171996 + 174.2 * t| ≤ 171996 + 174.2 * 40 := by
    rw [abs_le]; obtain ⟨a, b⟩ := abs_le.mp h; constructor <;> linarith
  have hA : |nutation_longitude j * 3600| ≤ 20.1608 := by
    refine hN.trans ?_
    rw [div_le_iff₀ (by norm_num)]; nlinarith [abs_nonneg t]
  have hcos := Real.abs_cos_le_one (ε * (Real.pi / 180))
  rw [add_sub_cancel_left, abs_div, abs_div, abs_mul, abs_of_pos (by norm_num : (0:ℝ) < 15),
    abs_of_pos (by norm_num : (0:ℝ) < 86400)]
  rw [div_div]
  have hp : |nutation_longitude j * 3600| * |Real.cos (ε * (Real.pi / 180))| ≤ 20.1608 := by
    calc _ ≤ 20.1608 * 1 := mul_le_mul hA hcos (abs_nonneg _) (by norm_num)
      _ = 20.1608 := mul_one _
  calc _ ≤ 20.1608 / (15 * 86400) := div_le_div_of_nonneg_right hp (by norm_num)
    _ ≤ 1.345 / 86400 := by norm_num


/-- the obliquity polynomial for −20 ≤ T ≤ 5 centuries (u = T / 100) -/
theorem obliquityDelta_range (u : ℝ) (h1 : -0.2 ≤ u) (h2 : u ≤ 0.05) : -252 ≤ obliquityDelta u ∧ obliquityDelta u ≤ 954 := by
  have h : |u| ≤ 0.2 := by rw [abs_le]; constructor <;> linarith
  obtain ⟨a2, b2⟩ := pow_bounds u h 2
  obtain ⟨a3, b3⟩ := pow_bounds u h 3
  obtain ⟨a4, b4⟩ := pow_bounds u h 4
  obtain ⟨a5, b5⟩ := pow_bounds u h 5
  obtain ⟨a6, b6⟩ := pow_bounds u h 6
  obtain ⟨a7, b7⟩ := pow_bounds u h 7
  obtain ⟨a8, b8⟩ := pow_bounds u h 8
  obtain ⟨a9, b9⟩ := pow_bounds u h 9
  obtain ⟨a10, b10⟩ := pow_bounds u h 10
  norm_num at a2 b2 a3 b3 a4 b4 a5 b5 a6 b6 a7 b7 a8 b8 a9 b9 a10 b10
  have e : obliquityDelta u = -4680.93 * u + -1.55 * u ^ 2 + 1999.25 * u ^ 3 + -51.38 * u ^ 4 + -249.67 * u ^ 5
      + -39.05 * u ^ 6 + 7.12 * u ^ 7 + 27.87 * u ^ 8 + 5.79 * u ^ 9 + 2.45 * u ^ 10 := by
    unfold obliquityDelta; ring
  rw [e]
  constructor <;> linarith

/-- the true obliquity handed to `apparent_sidereal_time`, for −20 ≤ T ≤ 5 centuries: between 23.36° and 23.72° -/
theorem true_obliquity_range (j : ℝ) (h1 : -20 ≤ (j - 2451545) / 36525) (h2 : (j - 2451545) / 36525 ≤ 5) :
    23.36 ≤ true_obliquity j ∧ true_obliquity j ≤ 23.72 := by
  have hu : (j - 2451545) / 3652500 = (j - 2451545) / 36525 / 100 := by ring
  have hu1 : -0.2 ≤ (j - 2451545) / 3652500 := by rw [hu]; norm_num; linarith
  have hu2 : (j - 2451545) / 3652500 ≤ 0.05 := by rw [hu]; norm_num; linarith
  have habs : |(j - 2451545) / 3652500| ≤ 0.2 := by rw [abs_le]; constructor <;> linarith
  have ht40 : |(j - 2451545) / 36525| ≤ 40 := by rw [abs_le]; constructor <;> linarith
  obtain ⟨d1, d2⟩ := obliquityDelta_range _ hu1 hu2
  have hm := mean_obliquity_eq j habs
  have hn := nutation_obliquity_bound j ht40
  have hcos := Real.abs_cos_le_one (Spec.nutationNode ((j - 2451545) / 36525))
  obtain ⟨c1, c2⟩ := abs_le.mp hcos
  obtain ⟨n1, n2⟩ := abs_le.mp hn
  have hsum : |mean_obliquity j + nutation_obliquity j| < 360 := by
    rw [hm, abs_lt]; constructor <;> linarith
  have ht : true_obliquity j = mean_obliquity j + nutation_obliquity j := by
    unfold true_obliquity angAdd
    exact angReduce_small _ hsum
  rw [ht, hm]
  constructor <;> linarith

/-- cos of an obliquity between 23.36° and 23.72° -/
theorem cos_obliquity_le (ε : ℝ) (h1 : 23.36 ≤ ε) (h2 : ε ≤ 23.72) :
    0 ≤ Real.cos (ε * (Real.pi / 180)) ∧ Real.cos (ε * (Real.pi / 180)) ≤ 0.91834 := by
  have p1 := Real.pi_gt_d4
  have p2 := Real.pi_lt_d4
  have hx0 : (23.36 * 3.1415 / 180 : ℝ) ≤ ε * (Real.pi / 180) := by nlinarith
  have hx1 : ε * (Real.pi / 180) ≤ 0.42 := by nlinarith
  constructor
  · apply Real.cos_nonneg_of_mem_Icc
    constructor <;> nlinarith
  · have hmono := Real.cos_le_cos_of_nonneg_of_le_pi (by norm_num : (0:ℝ) ≤ 23.36 * 3.1415 / 180)
      (by linarith : ε * (Real.pi / 180) ≤ Real.pi) hx0
    have hb := Real.cos_bound (x := (23.36 * 3.1415 / 180 : ℝ)) (by rw [abs_of_pos (by norm_num)]; norm_num)
    have hb2 := (abs_le.mp hb).2
    rw [abs_of_pos (by norm_num : (0:ℝ) < 23.36 * 3.1415 / 180)] at hb2
    have : Real.cos (23.36 * 3.1415 / 180) ≤ 0.91834 := by
      have e : (1 - (23.36 * 3.1415 / 180 : ℝ) ^ 2 / 2) + (23.36 * 3.1415 / 180 : ℝ) ^ 4 * (5 / 96) ≤ 0.91834 := by norm_num
      linarith
    linarith

/-- The property's bound: "apparent sidereal time differs from [mean] by the equation of the equinoxes (under 1.2 s)",
    with the library's own true obliquity and nutation in longitude, for every instant from 20 centuries before to
    5 centuries after J2000.0 (years 0 … 2500). -/
theorem apparent_minus_mean_lt_1_2s (j : ℝ) (h1 : -20 ≤ (j - 2451545) / 36525) (h2 : (j - 2451545) / 36525 ≤ 5) :
    |apparent_sidereal_time j (true_obliquity j) (nutation_longitude j) - mean_sidereal_time j| < 1.2 / 86400 := by
  rw [apparent_eq]
  have ht40 : |(j - 2451545) / 36525| ≤ 40 := by rw [abs_le]; constructor <;> linarith
  have hN := nutation_longitude_abs j ht40
  obtain ⟨e1, e2⟩ := true_obliquity_range j h1 h2
  obtain ⟨c0, c1⟩ := cos_obliquity_le _ e1 e2
  set t := (j - 2451545) / 36525
  have hbig : |171996 + 174.2 * t| ≤ 172867 := by rw [abs_le]; constructor <;> linarith
  have habs_t : |t| ≤ 20 := by rw [abs_le]; constructor <;> linarith
  have hA : |nutation_longitude j * 3600| ≤ 19.5349 := by
    refine hN.trans ?_
    rw [div_le_iff₀ (by norm_num)]; linarith
  rw [add_sub_cancel_left, abs_div, abs_div, abs_mul, abs_of_pos (by norm_num : (0:ℝ) < 15),
    abs_of_pos (by norm_num : (0:ℝ) < 86400), abs_of_nonneg c0, div_div]
  have hp : |nutation_longitude j * 3600| * Real.cos (true_obliquity j * (Real.pi / 180)) ≤ 19.5349 * 0.91834 :=
    mul_le_mul hA c1 c0 (by norm_num)
  calc _ ≤ 19.5349 * 0.91834 / (15 * 86400) := div_le_div_of_nonneg_right hp (by norm_num)
    _ < 1.2 / 86400 := by norm_num

end Pymeeus.Refine.SiderealApparent
