import Pymeeus.Gen.R.Precession
import Pymeeus.Refine.Separation
/-
Refinement lemmas for C06: the precession functions of templates/Precession.lean over ℝ.
-/
noncomputable section
namespace Pymeeus.Refine.Coords
open Real Pymeeus Pymeeus.PR Pymeeus.GenR.Coords Pymeeus.Spec.Sphere

/-! ### the precession rotation -/

theorem precessionRot_dot (zeta z theta : ℝ) (u v : V3) :
    dot (precessionRot zeta z theta u) (precessionRot zeta z theta v) = dot u v := by
  unfold precessionRot; rw [rotZ_dot, rotY_dot, rotZ_dot]

theorem rotZ_neg_rotZ (a : ℝ) (v : V3) : rotZ (-a) (rotZ a v) = v := by
  unfold rotZ
  simp only [cos_neg, sin_neg]
  ext
  · simp only; linear_combination v.1 * sin_sq_add_cos_sq a
  · simp only; linear_combination v.2.1 * sin_sq_add_cos_sq a
  · rfl

theorem rotY_neg_rotY (a : ℝ) (v : V3) : rotY (-a) (rotY a v) = v := by
  unfold rotY
  simp only [cos_neg, sin_neg]
  ext
  · simp only; linear_combination v.1 * sin_sq_add_cos_sq a
  · rfl
  · simp only; linear_combination v.2.2 * sin_sq_add_cos_sq a

/-- `R(-z, -θ, -ζ) = R(ζ, θ, z)⁻¹` (arguments in the order zeta, z, theta). -/
theorem precessionRot_inverse (zeta z theta : ℝ) (v : V3) :
    precessionRot (-z) (-zeta) (-theta) (precessionRot zeta z theta v) = v := by
  unfold precessionRot
  rw [rotZ_neg_rotZ, rotY_neg_rotY, rotZ_neg_rotZ]

theorem rotZ_zero (v : V3) : rotZ 0 v = v := by unfold rotZ; simp
theorem rotY_zero (v : V3) : rotY 0 v = v := by unfold rotY; simp
theorem precessionRot_zero (v : V3) : precessionRot 0 0 0 v = v := by
  unfold precessionRot; rw [rotZ_zero, rotY_zero, rotZ_zero]

/-! ### `Angle(0, 0, seconds)` -/

/-- the part of `a_of_sec` after the sign: it depends on `|s|` only -/
def secCore (seconds : ℝ) : ℝ :=
  let ms : Int × ℝ := if ple 60.0 seconds then (ptrunc (seconds / 60.0), pmod seconds 60.0) else (0, seconds)
  let minutes : Int := ms.1
  let seconds : ℝ := ms.2
  let dm : Int × Int := if 60 ≤ minutes then (ptrunc (ofInt minutes / 60.0), imod minutes 60) else (0, minutes)
  let degrees : Int := imod dm.1 360
  let minutes : Int := dm.2
  (ofInt degrees + ofInt minutes / 60.0 + seconds / 3600.0)

theorem a_of_sec_eq (s : ℝ) : a_of_sec s = a_reduce ((if plt s 0.0 then -1.0 else 1.0) * secCore |s|) := rfl

theorem a_reduce_zero : a_reduce 0 = 0 := a_reduce_of_lt (by norm_num)

/-- `reduce_deg` is odd. -/
theorem a_reduce_neg (d : ℝ) : a_reduce (-d) = -a_reduce d := by
  by_cases h : |d| < 360
  · rw [a_reduce_of_lt h, a_reduce_of_lt (by rwa [abs_neg])]
  · have h360 : (360 : ℝ) ≤ |d| := not_lt.mp h
    have hge : (360.0 : ℝ) ≤ |d| := by norm_num; exact h360
    have hd0 : d ≠ 0 := by intro h0; rw [h0, abs_zero] at h360; norm_num at h360
    unfold a_reduce ple pabs
    simp only [abs_neg, hge, decide_true, if_true]
    rcases lt_or_gt_of_ne hd0 with hn | hp
    · have a1 : ¬ ((0.0 : ℝ) ≤ d) := by norm_num; exact hn
      have a2 : (0.0 : ℝ) ≤ -d := by norm_num; exact hn.le
      simp only [a1, a2, decide_true, decide_false, if_true, Bool.false_eq_true, if_false]
      norm_num
    · have a1 : (0.0 : ℝ) ≤ d := by norm_num; exact hp.le
      have a2 : ¬ ((0.0 : ℝ) ≤ -d) := by norm_num; exact hp
      simp only [a1, a2, decide_true, decide_false, if_true, Bool.false_eq_true, if_false]
      norm_num

theorem secCore_zero : secCore 0 = 0 := by
  unfold secCore ple ptrunc pmod imod ofInt
  norm_num

theorem a_of_sec_zero : a_of_sec 0 = 0 := by
  rw [a_of_sec_eq, abs_zero, secCore_zero, mul_zero, a_reduce_zero]

/-- `Angle(0, 0, -s) = -Angle(0, 0, s)`. -/
theorem a_of_sec_neg (s : ℝ) : a_of_sec (-s) = -a_of_sec s := by
  by_cases h0 : s = 0
  · subst h0; simp [a_of_sec_zero]
  · rw [a_of_sec_eq, a_of_sec_eq, abs_neg, ← a_reduce_neg]
    congr 1
    rcases lt_or_gt_of_ne h0 with h | h
    · have h1 : plt (-s) 0.0 = false := by unfold plt; simp; linarith
      have h2 : plt s 0.0 = true := by unfold plt; simp; linarith
      rw [h1, h2]; norm_num
    · have h1 : plt (-s) 0.0 = true := by unfold plt; simp; linarith
      have h2 : plt s 0.0 = false := by unfold plt; simp; linarith
      rw [h1, h2]; norm_num

/-! ### the FK5 polynomials invert exactly -/

theorem fk5_zeta_back (T t : ℝ) : fk5_zeta (T + t) (-t) = -fk5_z T t := by
  unfold fk5_zeta fk5_z; ring
theorem fk5_z_back (T t : ℝ) : fk5_z (T + t) (-t) = -fk5_zeta T t := by
  unfold fk5_zeta fk5_z; ring
theorem fk5_theta_back (T t : ℝ) : fk5_theta (T + t) (-t) = -fk5_theta T t := by
  unfold fk5_theta; ring

theorem fk5_zero (T : ℝ) : fk5_zeta T 0 = 0 ∧ fk5_z T 0 = 0 ∧ fk5_theta T 0 = 0 := by
  unfold fk5_zeta fk5_z fk5_theta; simp
theorem newcomb_zero (T : ℝ) : newcomb_zeta T 0 = 0 ∧ newcomb_z T 0 = 0 ∧ newcomb_theta T 0 = 0 := by
  unfold newcomb_z newcomb_zeta newcomb_theta; simp

/-! ### the common tail `precession_apply` -/

/-- `Angle(A + B, radians=True)` points where `rotZ B` takes the longitude `A`. -/
theorem dir_of_rad_add (A B L : ℝ) :
    dir (a_of_rad (A + B)) (a_of_rad L) = rotZ B (cos L * cos A, cos L * sin A, sin L) := by
  rw [dir_of_rad]; unfold rotZ
  rw [cos_add, sin_add]
  ext <;> simp only <;> ring

/-- `Angle(C - A, radians=True)` points where `flipZ C` takes the longitude `A`. -/
theorem dir_of_rad_sub (C A L : ℝ) :
    dir (a_of_rad (C - A)) (a_of_rad L) = flipZ C (cos L * cos A, cos L * sin A, sin L) := by
  rw [dir_of_rad]; unfold flipZ
  rw [cos_sub, sin_sub]
  ext <;> simp only <;> ring

/-- The vector `(b, a, c)` of the source is `Ry(θ) Rz(ζ)` applied to the starting direction. -/
theorem abc_eq (α δ ζ θ : ℝ) :
    rotY (rad θ) (rotZ (rad ζ) (dir α δ)) =
      (cos (rad θ) * cos (rad δ) * cos (rad α + rad ζ) - sin (rad θ) * sin (rad δ),
       cos (rad δ) * sin (rad α + rad ζ),
       sin (rad θ) * cos (rad δ) * cos (rad α + rad ζ) + cos (rad θ) * sin (rad δ)) := by
  unfold rotY rotZ dir
  rw [cos_add, sin_add]
  ext <;> simp only <;> ring

theorem rot_unit (α δ ζ θ : ℝ) :
    let w := rotY (rad θ) (rotZ (rad ζ) (dir α δ))
    w.1 ^ 2 + w.2.1 ^ 2 + w.2.2 ^ 2 = 1 :=
  unit_of_dot_preserving (M := fun v => rotY (rad θ) (rotZ (rad ζ) v))
    (fun u v => by rw [rotY_dot, rotZ_dot]) α δ

/-- `final_dec = atan2(c, sqrt(a*a + b*b))` (after the fix): for EVERY start the result points where the
    rotation `Rz(z) Ry(θ) Rz(ζ)` takes the starting direction; there is no branch and no exception. -/
theorem precession_apply_rot (α δ ζ z θ : ℝ) :
    ∃ ra dec, precession_apply α δ ζ z θ = .ok (ra, dec) ∧
      dir ra dec = precessionRot (rad ζ) (rad z) (rad θ) (dir α δ) ∧ |ra| < 360 ∧ -90 ≤ dec ∧ dec ≤ 90 := by
  have hu := rot_unit α δ ζ θ
  have hw := abc_eq α δ ζ θ
  set w := rotY (rad θ) (rotZ (rad ζ) (dir α δ)) with hwdef
  simp only at hu
  have eb : pcos (a_rad θ) * pcos (a_rad δ) * pcos (a_rad α + a_rad ζ) - psin (a_rad θ) * psin (a_rad δ) = w.1 := by
    rw [hw]; rfl
  have ea : pcos (a_rad δ) * psin (a_rad α + a_rad ζ) = w.2.1 := by
    rw [hw]; rfl
  have ec : psin (a_rad θ) * pcos (a_rad δ) * pcos (a_rad α + a_rad ζ) + pcos (a_rad θ) * psin (a_rad δ) = w.2.2 := by
    rw [hw]; rfl
  unfold precession_apply
  simp only [ea, eb, ec, pure, Except.pure]
  refine ⟨_, _, rfl, ?_, abs_a_reduce_lt _, a_of_rad_atan2_lat_range _ _ (psqrt_nonneg _)⟩
  rw [dir_of_rad_add, add_comm (w.2.1 * w.2.1)]
  unfold precessionRot
  rw [← hwdef]
  congr 1
  have := dir_atan2_atan2 hu
  rw [dir_of_rad] at this
  exact this

/-! ### proper motion: the start is displaced by `100 t μ` (mod 360) -/

theorem a_mul_zero (t : ℝ) : a_mul 0 t = 0 := by
  unfold a_mul; rw [zero_mul]; exact a_reduce_of_lt (by norm_num)

/-- With zero proper motion the start is unchanged. -/
theorem pm_zero {x : ℝ} (hx : |x| < 360) (t : ℝ) : a_add x (a_mul (a_mul 0 t) 100.0) = x := by
  rw [a_mul_zero, a_mul_zero]; unfold a_add; rw [add_zero]; exact a_reduce_of_lt hx

/-- `x += μ * t * 100.0` in Angle arithmetic is `x + 100 t μ` up to whole turns. -/
theorem pm_shift (x μ t : ℝ) : ∃ K : ℤ, a_add x (a_mul (a_mul μ t) 100.0) = x + μ * t * 100 + 360 * K := by
  unfold a_add a_mul
  obtain ⟨k1, h1⟩ := a_reduce_spec (μ * t)
  obtain ⟨k2, h2⟩ := a_reduce_spec (a_reduce (μ * t) * 100.0)
  obtain ⟨k3, h3⟩ := a_reduce_spec (x + a_reduce (a_reduce (μ * t) * 100.0))
  have e100 : (100.0 : ℝ) = 100 := by norm_num
  rw [e100] at h2 h3 ⊢
  refine ⟨100 * k1 + k2 + k3, ?_⟩
  rw [h3, h2, h1]
  push_cast
  ring

theorem dir_add_turns (l b : ℝ) (k m : ℤ) : dir (l + 360 * k) (b + 360 * m) = dir l b := by
  unfold dir
  rw [rad_add_turns, rad_add_turns, cos_add_int_mul_two_pi, sin_add_int_mul_two_pi, cos_add_int_mul_two_pi,
    sin_add_int_mul_two_pi]

/-! ### `precession_equatorial`, `precession_newcomb` -/

theorem precession_equatorial_eq (e0 e1 α δ μα μδ : ℝ) :
    precession_equatorial e0 e1 α δ μα μδ =
      precession_apply (a_add α (a_mul (a_mul μα ((e1 - e0) / 36525.0)) 100.0))
        (a_add δ (a_mul (a_mul μδ ((e1 - e0) / 36525.0)) 100.0))
        (a_of_sec (fk5_zeta ((e0 - 2451545.0) / 36525.0) ((e1 - e0) / 36525.0)))
        (a_of_sec (fk5_z ((e0 - 2451545.0) / 36525.0) ((e1 - e0) / 36525.0)))
        (a_of_sec (fk5_theta ((e0 - 2451545.0) / 36525.0) ((e1 - e0) / 36525.0))) := rfl

theorem precession_newcomb_eq (e0 e1 α δ μα μδ : ℝ) :
    precession_newcomb e0 e1 α δ μα μδ =
      precession_apply (a_add α (a_mul (a_mul μα ((e1 - e0) / 36524.2199)) 100.0))
        (a_add δ (a_mul (a_mul μδ ((e1 - e0) / 36524.2199)) 100.0))
        (a_of_sec (newcomb_zeta ((e0 - 2415020.3135) / 36524.2199) ((e1 - e0) / 36524.2199)))
        (a_of_sec (newcomb_z ((e0 - 2415020.3135) / 36524.2199) ((e1 - e0) / 36524.2199)))
        (a_of_sec (newcomb_theta ((e0 - 2415020.3135) / 36524.2199) ((e1 - e0) / 36524.2199))) := rfl

/-- The three FK5 angles of the source, in radians, for the epochs `e0 → e1` (JDE). -/
def fk5Zeta (e0 e1 : ℝ) : ℝ := rad (a_of_sec (fk5_zeta ((e0 - 2451545.0) / 36525.0) ((e1 - e0) / 36525.0)))
def fk5Z (e0 e1 : ℝ) : ℝ := rad (a_of_sec (fk5_z ((e0 - 2451545.0) / 36525.0) ((e1 - e0) / 36525.0)))
def fk5Theta (e0 e1 : ℝ) : ℝ := rad (a_of_sec (fk5_theta ((e0 - 2451545.0) / 36525.0) ((e1 - e0) / 36525.0)))

/-- The way back uses exactly the opposite angles, exchanged: `ζ' = -z`, `z' = -ζ`, `θ' = -θ`. -/
theorem fk5_back (e0 e1 : ℝ) :
    fk5Zeta e1 e0 = -fk5Z e0 e1 ∧ fk5Z e1 e0 = -fk5Zeta e0 e1 ∧ fk5Theta e1 e0 = -fk5Theta e0 e1 := by
  have hT : (e1 - 2451545.0) / 36525.0 = (e0 - 2451545.0) / 36525.0 + (e1 - e0) / (36525.0 : ℝ) := by
    generalize (2451545.0 : ℝ) = c; generalize (36525.0 : ℝ) = d; ring
  have ht : (e0 - e1) / 36525.0 = -((e1 - e0) / (36525.0 : ℝ)) := by
    generalize (36525.0 : ℝ) = d; ring
  unfold fk5Zeta fk5Z fk5Theta
  rw [hT, ht, fk5_zeta_back, fk5_z_back, fk5_theta_back, a_of_sec_neg, a_of_sec_neg, a_of_sec_neg, rad_neg, rad_neg,
    rad_neg]
  exact ⟨rfl, rfl, rfl⟩

theorem fk5_same (e : ℝ) : fk5Zeta e e = 0 ∧ fk5Z e e = 0 ∧ fk5Theta e e = 0 := by
  have ht : (e - e) / 36525.0 = (0 : ℝ) := by simp
  have r0 : rad 0 = 0 := by unfold rad; ring
  unfold fk5Zeta fk5Z fk5Theta
  obtain ⟨h1, h2, h3⟩ := fk5_zero ((e - 2451545.0) / 36525.0)
  rw [ht, h1, h2, h3, a_of_sec_zero, r0]
  exact ⟨rfl, rfl, rfl⟩

/-- `precession_equatorial` without proper motion, for a start given as Angles (|value| < 360). -/
theorem precession_equatorial_rot (e0 e1 α δ : ℝ) (hα : |α| < 360) (hδ : |δ| < 360) :
    ∃ ra dec, precession_equatorial e0 e1 α δ 0 0 = .ok (ra, dec) ∧
      dir ra dec = precessionRot (fk5Zeta e0 e1) (fk5Z e0 e1) (fk5Theta e0 e1) (dir α δ) ∧
      |ra| < 360 ∧ -90 ≤ dec ∧ dec ≤ 90 := by
  rw [precession_equatorial_eq, pm_zero hα, pm_zero hδ]
  exact precession_apply_rot α δ _ _ _

/-! ### `precession_ecliptical` -/

/-- The statements of `precession_ecliptical` after the Angles `eta`, `pie`, `p` (degrees) are formed. -/
def ecl_core (l' b' eta pie p : ℝ) : PyRes (ℝ × ℝ) := do
  let a := pcos (a_rad eta) * pcos (a_rad b') * psin (a_rad pie - a_rad l') - psin (a_rad eta) * psin (a_rad b')
  let b := pcos (a_rad b') * pcos (a_rad pie - a_rad l')
  let c := pcos (a_rad eta) * psin (a_rad b') + psin (a_rad eta) * pcos (a_rad b') * psin (a_rad pie - a_rad l')
  let final_lon := a_rad p + a_rad pie - patan2 a b
  let final_lat := patan2 c (psqrt (a * a + b * b))
  pure (a_of_rad final_lon, a_of_rad final_lat)

theorem precession_ecliptical_eq (e0 e1 l b μl μb : ℝ) :
    precession_ecliptical e0 e1 l b μl μb =
      ecl_core (a_add l (a_mul (a_mul μl ((e1 - e0) / 36525.0)) 100.0))
        (a_add b (a_mul (a_mul μb ((e1 - e0) / 36525.0)) 100.0))
        (a_of_sec (ecl_eta ((e0 - 2451545.0) / 36525.0) ((e1 - e0) / 36525.0)))
        (a_add (a_of_sec (ecl_pie ((e0 - 2451545.0) / 36525.0) ((e1 - e0) / 36525.0))) 174.876384)
        (a_of_sec (ecl_p ((e0 - 2451545.0) / 36525.0) ((e1 - e0) / 36525.0))) := rfl

/-- longitude `λ ↦ Π - λ`, tilt by `-η` about the x axis (the node), longitude `ψ ↦ p + Π - ψ`. -/
theorem ecl_core_spec (l' b' eta pie p : ℝ) :
    ∃ lon lat, ecl_core l' b' eta pie p = .ok (lon, lat) ∧
      dir lon lat = flipZ (rad p + rad pie) (rotX (-(rad eta)) (flipZ (rad pie) (dir l' b'))) ∧
      -90 ≤ lat ∧ lat ≤ 90 := by
  set w := rotX (-(rad eta)) (flipZ (rad pie) (dir l' b')) with hwdef
  have hu : w.1 ^ 2 + w.2.1 ^ 2 + w.2.2 ^ 2 = 1 :=
    unit_of_dot_preserving (M := fun v => rotX (-(rad eta)) (flipZ (rad pie) v))
      (fun u v => by rw [rotX_dot, flipZ_dot]) l' b'
  have hw : w = (cos (rad b') * cos (rad pie - rad l'),
                 cos (rad eta) * cos (rad b') * sin (rad pie - rad l') - sin (rad eta) * sin (rad b'),
                 cos (rad eta) * sin (rad b') + sin (rad eta) * cos (rad b') * sin (rad pie - rad l')) := by
    rw [hwdef]; unfold rotX flipZ dir
    rw [cos_sub, sin_sub, cos_neg, sin_neg]
    ext <;> simp only <;> ring
  have hc : pcos (a_rad eta) * psin (a_rad b') + psin (a_rad eta) * pcos (a_rad b') * psin (a_rad pie - a_rad l') = w.2.2 := by
    rw [hw]; rfl
  have hb : pcos (a_rad b') * pcos (a_rad pie - a_rad l') = w.1 := by
    rw [hw]; rfl
  have ha : pcos (a_rad eta) * pcos (a_rad b') * psin (a_rad pie - a_rad l') - psin (a_rad eta) * psin (a_rad b')
      = w.2.1 := by
    rw [hw]; rfl
  unfold ecl_core
  simp only [ha, hb, hc, pure, Except.pure]
  refine ⟨_, _, rfl, ?_, a_of_rad_atan2_lat_range _ _ (psqrt_nonneg _)⟩
  have hsum : a_rad p + a_rad pie = rad p + rad pie := rfl
  rw [hsum, dir_of_rad_sub, add_comm (w.2.1 * w.2.1)]
  congr 1
  have := dir_atan2_atan2 hu
  rw [dir_of_rad] at this
  exact this

/-! ### `Angle(0, 0, s)` is `s / 3600` degrees modulo 360 -/

theorem ptrunc_of_nonneg {x : ℝ} (h : 0 ≤ x) : ptrunc x = ⌊x⌋ := by
  unfold ptrunc; simp [h]

/-- For non-negative seconds the sexagesimal reduction of `Angle(0, 0, s)` is `s / 3600` minus whole turns. -/
theorem secCore_spec (x : ℝ) : ∃ q : ℤ, secCore x = x / 3600 - 360 * q := by
  have e60 : (60.0 : ℝ) = 60 := by norm_num
  have e3600 : (3600.0 : ℝ) = 3600 := by norm_num
  unfold secCore
  simp only [e60, e3600, ple, pmod, imod, ofInt]
  by_cases h60 : (60 : ℝ) ≤ x
  · have hdiv : (0 : ℝ) ≤ x / 60 := by positivity
    simp only [h60, decide_true, if_true, ptrunc_of_nonneg hdiv]
    set m : ℤ := ⌊x / 60⌋ with hm
    have hm1 : (1 : ℤ) ≤ m := by
      rw [hm]; apply Int.le_floor.mpr; rw [le_div_iff₀ (by norm_num)]; push_cast; linarith
    by_cases hm60 : 60 ≤ m
    · have hmd : (0 : ℝ) ≤ (m : ℝ) / 60 := by
        have : (0 : ℝ) ≤ (m : ℝ) := by exact_mod_cast (by omega : (0 : ℤ) ≤ m)
        positivity
      have hfl : ⌊(m : ℝ) / 60⌋ = m / 60 := by
        have := Int.floor_div_natCast (m : ℝ) 60
        simpa using this
      simp only [hm60, if_true, ptrunc_of_nonneg hmd, hfl]
      refine ⟨(m / 60) / 360, ?_⟩
      rw [Int.fmod_eq_emod_of_nonneg _ (by norm_num : (0 : ℤ) ≤ 360),
          Int.fmod_eq_emod_of_nonneg _ (by norm_num : (0 : ℤ) ≤ 60), Int.emod_def, Int.emod_def]
      push_cast
      ring
    · simp only [hm60, if_false]
      refine ⟨0, ?_⟩
      rw [Int.fmod_eq_emod_of_nonneg _ (by norm_num : (0 : ℤ) ≤ 360)]
      simp
      ring
  · simp only [h60, decide_false, Bool.false_eq_true, if_false]
    refine ⟨0, ?_⟩
    simp [Int.fmod]

/-- `Angle(0, 0, s)` is `s / 3600` degrees up to whole turns. -/
theorem a_of_sec_spec (s : ℝ) : ∃ k : ℤ, a_of_sec s = s / 3600 + 360 * k := by
  obtain ⟨q, hq⟩ := secCore_spec |s|
  rw [a_of_sec_eq, hq]
  obtain ⟨m, hm⟩ := a_reduce_spec ((if plt s 0.0 = true then -1.0 else 1.0) * (|s| / 3600 - 360 * ↑q))
  rw [hm]
  by_cases h : s < 0
  · have h1 : plt s 0.0 = true := by unfold plt; simp; linarith
    refine ⟨q + m, ?_⟩
    rw [h1, abs_of_neg h]; push_cast; norm_num; ring
  · have h1 : plt s 0.0 = false := by unfold plt; simp; linarith
    refine ⟨-q + m, ?_⟩
    rw [h1, abs_of_nonneg (not_lt.mp h)]; push_cast; norm_num; ring

theorem rotZ_periodic (a : ℝ) (k : ℤ) (v : V3) : rotZ (a + k * (2 * π)) v = rotZ a v := by
  unfold rotZ; rw [cos_add_int_mul_two_pi, sin_add_int_mul_two_pi]
theorem rotY_periodic (a : ℝ) (k : ℤ) (v : V3) : rotY (a + k * (2 * π)) v = rotY a v := by
  unfold rotY; rw [cos_add_int_mul_two_pi, sin_add_int_mul_two_pi]

/-- The angle the source uses for `seconds` arcseconds acts as `seconds / 3600` degrees. -/
theorem rad_a_of_sec (s : ℝ) : ∃ k : ℤ, rad (a_of_sec s) = rad (s / 3600) + k * (2 * π) := by
  obtain ⟨k, hk⟩ := a_of_sec_spec s
  exact ⟨k, by rw [hk, rad_add_turns]⟩

/-- The precession rotation of the source is the rotation with Euler angles `polynomial / 3600` degrees. -/
theorem precessionRot_fk5_poly (e0 e1 : ℝ) (v : V3) :
    precessionRot (fk5Zeta e0 e1) (fk5Z e0 e1) (fk5Theta e0 e1) v =
      precessionRot (rad (fk5_zeta ((e0 - 2451545.0) / 36525.0) ((e1 - e0) / 36525.0) / 3600))
        (rad (fk5_z ((e0 - 2451545.0) / 36525.0) ((e1 - e0) / 36525.0) / 3600))
        (rad (fk5_theta ((e0 - 2451545.0) / 36525.0) ((e1 - e0) / 36525.0) / 3600)) v := by
  obtain ⟨k1, h1⟩ := rad_a_of_sec (fk5_zeta ((e0 - 2451545.0) / 36525.0) ((e1 - e0) / 36525.0))
  obtain ⟨k2, h2⟩ := rad_a_of_sec (fk5_z ((e0 - 2451545.0) / 36525.0) ((e1 - e0) / 36525.0))
  obtain ⟨k3, h3⟩ := rad_a_of_sec (fk5_theta ((e0 - 2451545.0) / 36525.0) ((e1 - e0) / 36525.0))
  unfold fk5Zeta fk5Z fk5Theta precessionRot
  rw [h1, h2, h3, rotZ_periodic, rotY_periodic, rotZ_periodic]

/-! ### further small facts used by Props/C06 -/

theorem flipZ_flipZ (a : ℝ) (v : V3) : flipZ a (flipZ a v) = v := by
  unfold flipZ
  ext
  · simp only; linear_combination v.1 * sin_sq_add_cos_sq a
  · simp only; linear_combination v.2.1 * sin_sq_add_cos_sq a
  · rfl

theorem rotX_zero (v : V3) : rotX 0 v = v := by unfold rotX; simp

theorem ecl_zero (T : ℝ) : ecl_eta T 0 = 0 ∧ ecl_p T 0 = 0 := by
  unfold ecl_eta ecl_p; simp

/-! ### `motion_in_space` -/

/-- Position after `t` years of uniform straight-line motion: `r u + t V`, with the velocity
    `V = (v / 977792) u + r μδ north + r μα cos δ east` (parsecs per year; μ in radians per year). -/
def spacePosition (α δ r v μα μδ t : ℝ) : V3 :=
  let u := dir α δ
  let n := northV α δ
  let e := eastV α
  let c := cos (rad δ)
  (r * u.1 + t * (v / 977792 * u.1 + r * μδ * n.1 + r * μα * c * e.1),
   r * u.2.1 + t * (v / 977792 * u.2.1 + r * μδ * n.2.1 + r * μα * c * e.2.1),
   r * u.2.2 + t * (v / 977792 * u.2.2 + r * μδ * n.2.2 + r * μα * c * e.2.2))

theorem motion_in_space_spec (α δ r v μα μδ t : ℝ) (hr : r ≠ 0)
    (hρ : 0 < (spacePosition α δ r v (rad μα) (rad μδ) t).1 ^ 2 + (spacePosition α δ r v (rad μα) (rad μδ) t).2.1 ^ 2) :
    ∃ ra dec, motion_in_space α δ r v μα μδ t = .ok (ra, dec) ∧
      dir ra dec =
        ((spacePosition α δ r v (rad μα) (rad μδ) t).1 / √(dot (spacePosition α δ r v (rad μα) (rad μδ) t) (spacePosition α δ r v (rad μα) (rad μδ) t)),
         (spacePosition α δ r v (rad μα) (rad μδ) t).2.1 / √(dot (spacePosition α δ r v (rad μα) (rad μδ) t) (spacePosition α δ r v (rad μα) (rad μδ) t)),
         (spacePosition α δ r v (rad μα) (rad μδ) t).2.2 / √(dot (spacePosition α δ r v (rad μα) (rad μδ) t) (spacePosition α δ r v (rad μα) (rad μδ) t))) ∧
      -90 ≤ dec ∧ dec ≤ 90 := by
  set P := spacePosition α δ r v (rad μα) (rad μδ) t with hP
  have e977 : (977792.0 : ℝ) = 977792 := by norm_num
  have kx := m_div_ok (x := r * pcos (a_rad δ) * pcos (a_rad α)) hr
  have ky := m_div_ok (x := r * pcos (a_rad δ) * psin (a_rad α)) hr
  have kz := m_div_ok (x := r * psin (a_rad δ)) hr
  have hx : r * pcos (a_rad δ) * pcos (a_rad α) + t * (r * pcos (a_rad δ) * pcos (a_rad α) / r * (v / 977792.0)
      - r * psin (a_rad δ) * a_rad μδ * pcos (a_rad α) - r * pcos (a_rad δ) * psin (a_rad α) * a_rad μα) = P.1 := by
    rw [hP, e977]; simp only [spacePosition, dir, northV, eastV, psin, pcos, a_rad_eq]; field_simp; ring
  have hy : r * pcos (a_rad δ) * psin (a_rad α) + t * (r * pcos (a_rad δ) * psin (a_rad α) / r * (v / 977792.0)
      - r * psin (a_rad δ) * a_rad μδ * psin (a_rad α) + r * pcos (a_rad δ) * pcos (a_rad α) * a_rad μα) = P.2.1 := by
    rw [hP, e977]; simp only [spacePosition, dir, northV, eastV, psin, pcos, a_rad_eq]; field_simp; ring
  have hz : r * psin (a_rad δ) + t * (r * psin (a_rad δ) / r * (v / 977792.0)
      + r * a_rad μδ * pcos (a_rad δ)) = P.2.2 := by
    rw [hP, e977]; simp only [spacePosition, dir, northV, eastV, psin, pcos, a_rad_eq]; field_simp; ring
  have hsq : 0 < √(P.1 ^ 2 + P.2.1 ^ 2) := sqrt_pos.mpr hρ
  have kq := m_div_ok (x := P.2.2) hsq.ne'
  unfold motion_in_space
  simp only [kx, ky, kz, bind, Except.bind, pure, Except.pure, hx, hy, hz]
  have hpp : psqrt (P.1 * P.1 + P.2.1 * P.2.1) = √(P.1 ^ 2 + P.2.1 ^ 2) := by
    unfold psqrt; congr 1; ring
  simp only [hpp, kq]
  refine ⟨_, _, rfl, ?_, ?_⟩
  · rw [dir_of_rad]
    obtain ⟨h1, h2⟩ := Lemmas.Sphere.norm_mul_cos_sin_arg P.1 P.2.1
    set ρ := √(P.1 ^ 2 + P.2.1 ^ 2) with hρdef
    have hN : dot P P = ρ ^ 2 + P.2.2 ^ 2 := by
      rw [hρdef, sq_sqrt hρ.le]; unfold dot; ring
    have hNpos : 0 < dot P P := by rw [hN]; positivity
    have hroot : √(1 + (P.2.2 / ρ) ^ 2) = √(dot P P) / ρ := by
      rw [hN, show 1 + (P.2.2 / ρ) ^ 2 = (ρ ^ 2 + P.2.2 ^ 2) / ρ ^ 2 by field_simp,
        sqrt_div (by positivity), sqrt_sq hsq.le]
    have hsN : 0 < √(dot P P) := sqrt_pos.mpr hNpos
    unfold patan patan2
    rw [cos_arctan, sin_arctan, hroot]
    generalize Complex.arg ⟨P.1, P.2.1⟩ = A at h1 h2 ⊢
    ext
    · simp only; rw [← h1]; field_simp
    · simp only; rw [← h2]; field_simp
    · simp only; field_simp
  · unfold patan
    have h1 := neg_pi_div_two_lt_arctan (P.2.2 / √(P.1 ^ 2 + P.2.1 ^ 2))
    have h2 := arctan_lt_pi_div_two (P.2.2 / √(P.1 ^ 2 + P.2.1 ^ 2))
    have hab : |arctan (P.2.2 / √(P.1 ^ 2 + P.2.1 ^ 2))| < 2 * π := by
      rw [abs_lt]; constructor <;> linarith [pi_pos]
    apply a_of_rad_bounds hab <;> linarith
/-! ### below one turn `Angle(0, 0, s)` is exactly `s / 3600`; size of θ within ±5 centuries -/

/-- Below one turn of arcseconds nothing is removed: `secCore x = x / 3600`. -/
theorem secCore_exact {x : ℝ} (_h0 : 0 ≤ x) (h1 : x < 1296000) : secCore x = x / 3600 := by
  have e60 : (60.0 : ℝ) = 60 := by norm_num
  have e3600 : (3600.0 : ℝ) = 3600 := by norm_num
  unfold secCore
  simp only [e60, e3600, ple, pmod, imod, ofInt]
  by_cases h60 : (60 : ℝ) ≤ x
  · have hdiv : (0 : ℝ) ≤ x / 60 := by positivity
    simp only [h60, decide_true, if_true, ptrunc_of_nonneg hdiv]
    set m : ℤ := ⌊x / 60⌋ with hm
    have hmlt : m < 21600 := by
      rw [hm, Int.floor_lt]; push_cast; rw [div_lt_iff₀ (by norm_num)]; linarith
    have hm0 : 0 ≤ m := by rw [hm]; exact Int.floor_nonneg.mpr hdiv
    by_cases hm60 : 60 ≤ m
    · have hmd : (0 : ℝ) ≤ (m : ℝ) / 60 := by
        have : (0 : ℝ) ≤ (m : ℝ) := by exact_mod_cast hm0
        positivity
      have hfl : ⌊(m : ℝ) / 60⌋ = m / 60 := by
        have := Int.floor_div_natCast (m : ℝ) 60
        simpa using this
      simp only [hm60, if_true, ptrunc_of_nonneg hmd, hfl]
      have hq : (m / 60) / 360 = 0 := by omega
      rw [Int.fmod_eq_emod_of_nonneg _ (by norm_num : (0 : ℤ) ≤ 360),
          Int.fmod_eq_emod_of_nonneg _ (by norm_num : (0 : ℤ) ≤ 60), Int.emod_def, Int.emod_def, hq]
      push_cast
      ring
    · simp only [hm60, if_false]
      rw [Int.fmod_eq_emod_of_nonneg _ (by norm_num : (0 : ℤ) ≤ 360)]
      simp
      ring
  · simp only [h60, decide_false, Bool.false_eq_true, if_false]
    simp [Int.fmod]

/-- Below one turn, `Angle(0, 0, s)` is exactly `s / 3600` degrees. -/
theorem a_of_sec_exact {s : ℝ} (h : |s| < 1296000) : a_of_sec s = s / 3600 := by
  rw [a_of_sec_eq, secCore_exact (abs_nonneg s) h]
  have hlt : |s| / 3600 < 360 := by rw [div_lt_iff₀ (by norm_num)]; linarith
  by_cases hs : s < 0
  · have h1 : plt s 0.0 = true := by unfold plt; simp; linarith
    rw [h1, abs_of_neg hs] at *
    simp only [if_true]
    rw [a_reduce_of_lt]
    · norm_num; ring
    · norm_num; rw [abs_lt]; constructor <;> linarith
  · have h1 : plt s 0.0 = false := by unfold plt; simp; linarith
    rw [h1, abs_of_nonneg (not_lt.mp hs)] at *
    simp only [Bool.false_eq_true, if_false]
    rw [a_reduce_of_lt]
    · norm_num
    · norm_num; rw [abs_lt]; constructor <;> linarith [not_lt.mp hs]

theorem abs_mul_le {x y a b : ℝ} (hx : |x| ≤ a) (hy : |y| ≤ b) : |x * y| ≤ a * b := by
  rw [abs_mul]; exact mul_le_mul hx hy (abs_nonneg _) (le_trans (abs_nonneg _) hx)

/-- Within ±5 centuries of J2000 (|T| ≤ 5, |t| ≤ 10) the angle θ stays below 6°. -/
theorem fk5_theta_small {T t : ℝ} (hT : |T| ≤ 5) (ht : |t| ≤ 10) : |fk5_theta T t| ≤ 21600 := by
  unfold fk5_theta
  have a1 : |(-0.85330 : ℝ) - 0.000217 * T| ≤ 0.9 := by
    have := abs_le.mp hT; rw [abs_le]; constructor <;> norm_num <;> linarith
  have a2 : |T * (-0.85330 - 0.000217 * T)| ≤ 5 * 0.9 := abs_mul_le hT a1
  have a3 : |-(0.42665 + 0.000217 * T) - 0.041833 * t| ≤ 0.9 := by
    have := abs_le.mp hT; have := abs_le.mp ht; rw [abs_le]; constructor <;> norm_num <;> linarith
  have a4 : |t * (-(0.42665 + 0.000217 * T) - 0.041833 * t)| ≤ 10 * 0.9 := abs_mul_le ht a3
  have a5 : |(2004.3109 : ℝ) + T * (-0.85330 - 0.000217 * T) + t * (-(0.42665 + 0.000217 * T) - 0.041833 * t)| ≤ 2100 := by
    have b2 := abs_le.mp a2; have b4 := abs_le.mp a4
    rw [abs_le]; constructor <;> norm_num at b2 b4 ⊢ <;> linarith
  have := abs_mul_le ht a5
  linarith
/-! ### the orbit pole precesses like an ecliptical direction -/

/-- Unit vector normal to an orbit with ascending node `node` and inclination `inc` (degrees). -/
def orbitPole (node inc : ℝ) : V3 :=
  (sin (rad inc) * sin (rad node), -(sin (rad inc) * cos (rad node)), cos (rad inc))

theorem cos_rad_a_add (x y : ℝ) : cos (rad (a_add x y)) = cos (rad x + rad y) := by
  unfold a_add; rw [cos_rad_reduce, rad_add]
theorem sin_rad_a_add (x y : ℝ) : sin (rad (a_add x y)) = sin (rad x + rad y) := by
  unfold a_add; rw [sin_rad_reduce, rad_add]

/-- The node and inclination `orbital_equinox2equinox` forms from `a`, `b`, `c` give the old orbit pole turned by
    the ecliptical precession rotation (the one of `ecl_core_spec`). -/
theorem orb_pole_core (i0 lon0 eta pie p a b c : ℝ)
    (ha : a = sin (rad i0) * sin (rad lon0 - rad pie))
    (hb : b = -sin (rad eta) * cos (rad i0) + cos (rad eta) * sin (rad i0) * cos (rad lon0 - rad pie))
    (hc : c = cos (rad i0) * cos (rad eta) + sin (rad i0) * sin (rad eta) * cos (rad lon0 - rad pie)) :
    orbitPole (a_add (a_add (a_of_rad (patan2 a b)) pie) p) (a_of_rad (patan2 (psqrt (a * a + b * b)) c))
      = flipZ (rad p + rad pie) (rotX (-(rad eta)) (flipZ (rad pie) (orbitPole lon0 i0))) := by
  have hu : a ^ 2 + b ^ 2 + c ^ 2 = 1 := by
    rw [ha, hb, hc]
    linear_combination (cos (rad i0) ^ 2 + sin (rad i0) ^ 2 * cos (rad lon0 - rad pie) ^ 2) * sin_sq_add_cos_sq (rad eta)
      + sin (rad i0) ^ 2 * sin_sq_add_cos_sq (rad lon0 - rad pie) + sin_sq_add_cos_sq (rad i0)
  unfold psqrt
  set r := √(a * a + b * b) with hr
  have hr2 : r * r = a * a + b * b := mul_self_sqrt (add_nonneg (mul_self_nonneg a) (mul_self_nonneg b))
  have hn : ‖(⟨c, r⟩ : ℂ)‖ = 1 := by
    rw [Complex.norm_def, Complex.normSq_mk, show c * c + r * r = 1 by nlinarith]; exact sqrt_one
  have hne : (⟨c, r⟩ : ℂ) ≠ 0 := by
    intro h0; rw [h0, norm_zero] at hn; exact zero_ne_one hn
  have hsi : sin (patan2 r c) = r := by unfold patan2; rw [Complex.sin_arg, hn]; simp
  have hci : cos (patan2 r c) = c := by unfold patan2; rw [Complex.cos_arg hne, hn]; simp
  obtain ⟨k1, k2⟩ := Lemmas.Sphere.norm_mul_cos_sin_arg b a
  have hrr : √(b ^ 2 + a ^ 2) = r := by rw [hr]; congr 1; ring
  rw [hrr] at k1 k2
  have k1' : r * cos (patan2 a b) = b := k1
  have k2' : r * sin (patan2 a b) = a := k2
  unfold orbitPole
  simp only [cos_rad_of_rad, sin_rad_of_rad, cos_rad_a_add, sin_rad_a_add, sin_add, cos_add, hsi, hci]
  generalize patan2 a b = ψ at k1' k2' ⊢
  -- the right-hand side is flipZ (p + Π) (a, b, c)
  have hmid : rotX (-(rad eta)) (flipZ (rad pie)
      (sin (rad i0) * sin (rad lon0), -(sin (rad i0) * cos (rad lon0)), cos (rad i0))) = (a, b, c) := by
    unfold rotX flipZ
    simp only [cos_neg, sin_neg]
    rw [ha, hb, hc, sin_sub, cos_sub]
    ext <;> simp only <;> ring
  rw [hmid]
  unfold flipZ
  simp only [sin_add, cos_add]
  ext
  · simp only
    linear_combination (cos (rad pie) * cos (rad p) - sin (rad pie) * sin (rad p)) * k2'
      + (sin (rad pie) * cos (rad p) + cos (rad pie) * sin (rad p)) * k1'
  · simp only
    linear_combination (sin (rad pie) * cos (rad p) + cos (rad pie) * sin (rad p)) * k2'
      - (cos (rad pie) * cos (rad p) - sin (rad pie) * sin (rad p)) * k1'
  · rfl
theorem orbital_pole_spec (e0 e1 i0 arg0 lon0 : ℝ) :
    ∃ i1 arg1 lon1, orbital_equinox2equinox e0 e1 i0 arg0 lon0 = .ok (i1, arg1, lon1) ∧
      orbitPole lon1 i1 =
        flipZ (rad (a_of_sec (ecl_p ((e0 - 2451545.0) / 36525.0) ((e1 - e0) / 36525.0)))
               + rad (a_add (a_of_sec (ecl_pie ((e0 - 2451545.0) / 36525.0) ((e1 - e0) / 36525.0))) 174.876384))
          (rotX (-(rad (a_of_sec (ecl_eta ((e0 - 2451545.0) / 36525.0) ((e1 - e0) / 36525.0)))))
            (flipZ (rad (a_add (a_of_sec (ecl_pie ((e0 - 2451545.0) / 36525.0) ((e1 - e0) / 36525.0))) 174.876384))
              (orbitPole lon0 i0))) := by
  unfold orbital_equinox2equinox
  simp only [pure, Except.pure]
  exact ⟨_, _, _, rfl, orb_pole_core i0 lon0 _ _ _ _ _ _ rfl rfl rfl⟩

/-! ### `mean_obliquity`: Laskar's polynomial -/

/-- Laskar's correction in arcseconds, written term by term (Meeus 22.3), `U` in units of 10000 Julian years. -/
def laskar (U : ℝ) : ℝ :=
  -4680.93 * U - 1.55 * U ^ 2 + 1999.25 * U ^ 3 - 51.38 * U ^ 4 - 249.67 * U ^ 5 - 39.05 * U ^ 6
    + 7.12 * U ^ 7 + 27.87 * U ^ 8 + 5.79 * U ^ 9 + 2.45 * U ^ 10

theorem laskar_horner (u : ℝ) :
    u * (-4680.93 + u * (-1.55 + u * (1999.25 + u * (-51.38 + u * (-249.67
      + u * (-39.05 + u * (7.12 + u * (27.87 + u * (5.79 + u * 2.45))))))))) = laskar u := by
  unfold laskar; ring

theorem laskar_small {u : ℝ} (hu : |u| ≤ 1) : |laskar u| ≤ 7070 := by
  rw [← laskar_horner]
  have h := abs_le.mp hu
  have b10 : |(5.79 : ℝ) + u * 2.45| ≤ 9 := by rw [abs_le]; constructor <;> norm_num <;> linarith [h.1, h.2]
  have b9 := abs_mul_le hu b10
  have c9 : |(27.87 : ℝ) + u * (5.79 + u * 2.45)| ≤ 37 := by
    have := abs_le.mp b9; rw [abs_le]; constructor <;> norm_num at this ⊢ <;> linarith [this.1, this.2]
  have b8 := abs_mul_le hu c9
  have c8 : |(7.12 : ℝ) + u * (27.87 + u * (5.79 + u * 2.45))| ≤ 45 := by
    have := abs_le.mp b8; rw [abs_le]; constructor <;> norm_num at this ⊢ <;> linarith [this.1, this.2]
  have b7 := abs_mul_le hu c8
  have c7 : |(-39.05 : ℝ) + u * (7.12 + u * (27.87 + u * (5.79 + u * 2.45)))| ≤ 85 := by
    have := abs_le.mp b7; rw [abs_le]; constructor <;> norm_num at this ⊢ <;> linarith [this.1, this.2]
  have b6 := abs_mul_le hu c7
  have c6 : |(-249.67 : ℝ) + u * (-39.05 + u * (7.12 + u * (27.87 + u * (5.79 + u * 2.45))))| ≤ 335 := by
    have := abs_le.mp b6; rw [abs_le]; constructor <;> norm_num at this ⊢ <;> linarith [this.1, this.2]
  have b5 := abs_mul_le hu c6
  have c5 : |(-51.38 : ℝ) + u * (-249.67 + u * (-39.05 + u * (7.12 + u * (27.87 + u * (5.79 + u * 2.45)))))| ≤ 387 := by
    have := abs_le.mp b5; rw [abs_le]; constructor <;> norm_num at this ⊢ <;> linarith [this.1, this.2]
  have b4 := abs_mul_le hu c5
  have c4 : |(1999.25 : ℝ) + u * (-51.38 + u * (-249.67 + u * (-39.05 + u * (7.12 + u * (27.87 + u * (5.79 + u * 2.45))))))| ≤ 2387 := by
    have := abs_le.mp b4; rw [abs_le]; constructor <;> norm_num at this ⊢ <;> linarith [this.1, this.2]
  have b3 := abs_mul_le hu c4
  have c3 : |(-1.55 : ℝ) + u * (1999.25 + u * (-51.38 + u * (-249.67 + u * (-39.05 + u * (7.12 + u * (27.87 + u * (5.79 + u * 2.45)))))))| ≤ 2389 := by
    have := abs_le.mp b3; rw [abs_le]; constructor <;> norm_num at this ⊢ <;> linarith [this.1, this.2]
  have b2 := abs_mul_le hu c3
  have c2 : |(-4680.93 : ℝ) + u * (-1.55 + u * (1999.25 + u * (-51.38 + u * (-249.67 + u * (-39.05 + u * (7.12 + u * (27.87 + u * (5.79 + u * 2.45))))))))| ≤ 7070 := by
    have := abs_le.mp b2; rw [abs_le]; constructor <;> norm_num at this ⊢ <;> linarith [this.1, this.2]
  have b1 := abs_mul_le hu c2
  linarith

/-- Within 10000 years of J2000 `mean_obliquity` is exactly 23°26'21.448" plus Laskar's polynomial (arcseconds / 3600):
    no reduction of the Angle arithmetic interferes. -/
theorem mean_obliquity_spec (jde : ℝ) (h : |jde - 2451545| ≤ 3652500) :
    mean_obliquity jde = 23 + 26 / 60 + 21.448 / 3600 + laskar ((jde - 2451545) / 3652500) / 3600 := by
  have e1 : (2451545.0 : ℝ) = 2451545 := by norm_num
  have e2 : (3652500.0 : ℝ) = 3652500 := by norm_num
  have hu : |(jde - 2451545) / 3652500| ≤ 1 := by
    rw [abs_div, abs_of_pos (by norm_num : (0 : ℝ) < 3652500), div_le_one (by norm_num)]; exact h
  have hl := laskar_small hu
  unfold mean_obliquity
  simp only [e1, e2, laskar_horner]
  rw [a_of_sec_exact (lt_of_le_of_lt hl (by norm_num))]
  have hl' := abs_le.mp hl
  have heps : a_reduce (1.0 * (23.0 + 26.0 / 60.0 + 21.448 / 3600.0)) = 23 + 26 / 60 + 21.448 / 3600 := by
    rw [a_reduce_of_lt]
    · norm_num
    · rw [abs_lt]; constructor <;> norm_num
  rw [heps]
  unfold a_add
  apply a_reduce_of_lt
  rw [abs_lt]; constructor <;> norm_num <;> linarith [hl'.1, hl'.2]

/-! ### the perihelion direction precesses like an ecliptical direction -/

/-- Unit vector towards the perihelion of an orbit with node `node`, inclination `inc`, argument of perihelion `arg`. -/
def orbitPeri (node inc arg : ℝ) : V3 :=
  (cos (rad arg) * cos (rad node) - sin (rad arg) * cos (rad inc) * sin (rad node),
   cos (rad arg) * sin (rad node) + sin (rad arg) * cos (rad inc) * cos (rad node),
   sin (rad arg) * sin (rad inc))

theorem orb_peri_core (i0 lon0 arg0 eta pie p a b c X Y : ℝ)
    (ha : a = sin (rad i0) * sin (rad lon0 - rad pie))
    (hb : b = -sin (rad eta) * cos (rad i0) + cos (rad eta) * sin (rad i0) * cos (rad lon0 - rad pie))
    (hc : c = cos (rad i0) * cos (rad eta) + sin (rad i0) * sin (rad eta) * cos (rad lon0 - rad pie))
    (hX : X = sin (rad i0) * cos (rad eta) - cos (rad i0) * sin (rad eta) * cos (rad lon0 - rad pie))
    (hY : Y = -sin (rad eta) * sin (rad lon0 - rad pie))
    (hne : a * a + b * b ≠ 0) :
    orbitPeri (a_add (a_add (a_of_rad (patan2 a b)) pie) p) (a_of_rad (patan2 (psqrt (a * a + b * b)) c))
        (a_add arg0 (a_of_rad (patan2 Y X)))
      = flipZ (rad p + rad pie) (rotX (-(rad eta)) (flipZ (rad pie) (orbitPeri lon0 i0 arg0))) := by
  -- polynomial identities between a, b, c, X, Y (coefficients found by reducing modulo sin² + cos² = 1)
  have I1 : (a * a + b * b) * cos (rad lon0 - rad pie) = X * b - Y * c * a := by
    rw [ha, hb, hc, hX, hY]
    linear_combination (0) * sin_sq_add_cos_sq (rad i0) + (sin (rad i0) ^ 2 * cos (rad lon0 - rad pie) ^ 3 + (-1) * sin (rad i0) ^ 2 * cos (rad lon0 - rad pie)) * sin_sq_add_cos_sq (rad eta) + ((-1) * sin (rad i0) * cos (rad i0) * sin (rad eta) * cos (rad eta) + (-1) * sin (rad i0) ^ 2 * cos (rad lon0 - rad pie) * sin (rad eta) ^ 2 + sin (rad i0) ^ 2 * cos (rad lon0 - rad pie)) * sin_sq_add_cos_sq (rad lon0 - rad pie)
  have I2 : (a * a + b * b) * (-sin (rad lon0 - rad pie) * cos (rad eta)) = X * (-a) - Y * c * b := by
    rw [ha, hb, hc, hX, hY]
    linear_combination (0) * sin_sq_add_cos_sq (rad i0) + (sin (rad i0) * cos (rad i0) * cos (rad lon0 - rad pie) * sin (rad eta) * sin (rad lon0 - rad pie) + (-1) * sin (rad i0) ^ 2 * cos (rad lon0 - rad pie) ^ 2 * cos (rad eta) * sin (rad lon0 - rad pie)) * sin_sq_add_cos_sq (rad eta) + ((-1) * sin (rad i0) ^ 2 * cos (rad eta) * sin (rad lon0 - rad pie)) * sin_sq_add_cos_sq (rad lon0 - rad pie)
  have J1 : (a * a + b * b) * (-cos (rad i0) * sin (rad lon0 - rad pie)) = X * (-c * a) - Y * b := by
    rw [ha, hb, hc, hX, hY]
    linear_combination ((-1) * cos (rad i0) * sin (rad eta) ^ 2 * sin (rad lon0 - rad pie) + sin (rad i0) * cos (rad lon0 - rad pie) * sin (rad eta) * cos (rad eta) * sin (rad lon0 - rad pie)) * sin_sq_add_cos_sq (rad i0) + ((-1) * sin (rad i0) ^ 2 * cos (rad i0) * cos (rad lon0 - rad pie) ^ 2 * sin (rad lon0 - rad pie) + sin (rad i0) ^ 2 * cos (rad i0) * sin (rad lon0 - rad pie)) * sin_sq_add_cos_sq (rad eta) + ((-1) * sin (rad i0) ^ 2 * cos (rad i0) * sin (rad lon0 - rad pie)) * sin_sq_add_cos_sq (rad lon0 - rad pie)
  have J2 : (a * a + b * b) * (-cos (rad i0) * cos (rad lon0 - rad pie) * cos (rad eta) - sin (rad i0) * sin (rad eta))
      = X * (-c * b) + Y * a := by
    rw [ha, hb, hc, hX, hY]
    linear_combination ((-1) * sin (rad i0) * sin (rad eta) ^ 3 + sin (rad i0) * cos (rad lon0 - rad pie) ^ 2 * sin (rad eta) * cos (rad eta) ^ 2 + (-1) * sin (rad i0) * sin (rad eta) * cos (rad eta) ^ 2 + sin (rad i0) * cos (rad lon0 - rad pie) ^ 2 * sin (rad eta) ^ 3) * sin_sq_add_cos_sq (rad i0) + ((-1) * sin (rad i0) ^ 2 * cos (rad i0) * cos (rad lon0 - rad pie) ^ 3 * cos (rad eta) + sin (rad i0) ^ 2 * cos (rad i0) * cos (rad lon0 - rad pie) * cos (rad eta) + (-1) * sin (rad i0) ^ 3 * cos (rad lon0 - rad pie) ^ 2 * sin (rad eta) + sin (rad i0) * cos (rad lon0 - rad pie) ^ 2 * sin (rad eta) + sin (rad i0) ^ 3 * sin (rad eta) + (-1) * sin (rad i0) * sin (rad eta)) * sin_sq_add_cos_sq (rad eta) + ((-1) * sin (rad i0) ^ 2 * cos (rad i0) * cos (rad lon0 - rad pie) * cos (rad eta) + (-1) * sin (rad i0) ^ 3 * sin (rad eta) + sin (rad i0) * sin (rad eta)) * sin_sq_add_cos_sq (rad lon0 - rad pie)
  have hN : X * X + Y * Y = a * a + b * b := by
    rw [ha, hb, hX, hY]
    linear_combination (cos (rad lon0 - rad pie) ^ 2 * sin (rad eta) ^ 2 + (-1) * sin (rad eta) ^ 2) * sin_sq_add_cos_sq (rad i0) + (sin (rad i0) ^ 2 + (-1) * sin (rad i0) ^ 2 * cos (rad lon0 - rad pie) ^ 2) * sin_sq_add_cos_sq (rad eta) + (sin (rad eta) ^ 2 + (-1) * sin (rad i0) ^ 2) * sin_sq_add_cos_sq (rad lon0 - rad pie)
  have hu : a ^ 2 + b ^ 2 + c ^ 2 = 1 := by
    rw [ha, hb, hc]
    linear_combination (cos (rad i0) ^ 2 + sin (rad i0) ^ 2 * cos (rad lon0 - rad pie) ^ 2) * sin_sq_add_cos_sq (rad eta)
      + sin (rad i0) ^ 2 * sin_sq_add_cos_sq (rad lon0 - rad pie) + sin_sq_add_cos_sq (rad i0)
  have hJ3 : -cos (rad i0) * cos (rad lon0 - rad pie) * sin (rad eta) + sin (rad i0) * cos (rad eta) = X := by rw [hX]; ring
  have hI3 : -sin (rad lon0 - rad pie) * sin (rad eta) = Y := by rw [hY]; ring
  unfold psqrt
  set r := √(a * a + b * b) with hr
  have hr2 : r * r = a * a + b * b := mul_self_sqrt (add_nonneg (mul_self_nonneg a) (mul_self_nonneg b))
  have hrr0 : r * r ≠ 0 := by rw [hr2]; exact hne
  have hn : ‖(⟨c, r⟩ : ℂ)‖ = 1 := by
    rw [Complex.norm_def, Complex.normSq_mk, show c * c + r * r = 1 by nlinarith]; exact sqrt_one
  have hne' : (⟨c, r⟩ : ℂ) ≠ 0 := by
    intro h0; rw [h0, norm_zero] at hn; exact zero_ne_one hn
  have hsi : sin (patan2 r c) = r := by unfold patan2; rw [Complex.sin_arg, hn]; simp
  have hci : cos (patan2 r c) = c := by unfold patan2; rw [Complex.cos_arg hne', hn]; simp
  obtain ⟨k1, k2⟩ := Lemmas.Sphere.norm_mul_cos_sin_arg b a
  have hrr : √(b ^ 2 + a ^ 2) = r := by rw [hr]; congr 1; ring
  rw [hrr] at k1 k2
  obtain ⟨m1, m2⟩ := Lemmas.Sphere.norm_mul_cos_sin_arg X Y
  have hrX : √(X ^ 2 + Y ^ 2) = r := by rw [hr]; congr 1; rw [← hN]; ring
  rw [hrX] at m1 m2
  have k1' : r * cos (patan2 a b) = b := k1
  have k2' : r * sin (patan2 a b) = a := k2
  have m1' : r * cos (patan2 Y X) = X := m1
  have m2' : r * sin (patan2 Y X) = Y := m2
  -- the middle vector: cos ω0 · w + sin ω0 · wM
  have hmid : rotX (-(rad eta)) (flipZ (rad pie) (orbitPeri lon0 i0 arg0)) =
      (cos (rad arg0) * cos (rad lon0 - rad pie) + sin (rad arg0) * (-cos (rad i0) * sin (rad lon0 - rad pie)),
       cos (rad arg0) * (-sin (rad lon0 - rad pie) * cos (rad eta))
         + sin (rad arg0) * (-cos (rad i0) * cos (rad lon0 - rad pie) * cos (rad eta) - sin (rad i0) * sin (rad eta)),
       cos (rad arg0) * (-sin (rad lon0 - rad pie) * sin (rad eta))
         + sin (rad arg0) * (-cos (rad i0) * cos (rad lon0 - rad pie) * sin (rad eta) + sin (rad i0) * cos (rad eta))) := by
    unfold rotX flipZ orbitPeri
    simp only [cos_neg, sin_neg, sin_sub, cos_sub]
    ext <;> simp only <;> ring
  rw [hmid, hJ3, hI3]
  unfold orbitPeri
  simp only [cos_rad_of_rad, sin_rad_of_rad, cos_rad_a_add, sin_rad_a_add, hsi, hci]
  generalize patan2 a b = ψ at k1' k2' ⊢
  generalize patan2 Y X = w at m1' m2' ⊢
  have hψ := sin_sq_add_cos_sq ψ
  rw [← k1', ← k2', ← m1', ← m2'] at I1 I2 J1 J2
  -- the six components of  w = cw N' + sw M',  wM = cw M' - sw N'
  have W1 : cos (rad lon0 - rad pie) = cos w * cos ψ - sin w * c * sin ψ := by
    apply mul_left_cancel₀ hrr0; linear_combination I1 - (r * r * cos (rad lon0 - rad pie)) * hψ
  have W2 : -sin (rad lon0 - rad pie) * cos (rad eta) = -(cos w * sin ψ) - sin w * c * cos ψ := by
    apply mul_left_cancel₀ hrr0; linear_combination I2 - (r * r * (-sin (rad lon0 - rad pie) * cos (rad eta))) * hψ
  have V1 : -cos (rad i0) * sin (rad lon0 - rad pie) = -(cos w * c * sin ψ) - sin w * cos ψ := by
    apply mul_left_cancel₀ hrr0; linear_combination J1 - (r * r * (-cos (rad i0) * sin (rad lon0 - rad pie))) * hψ
  have V2 : -cos (rad i0) * cos (rad lon0 - rad pie) * cos (rad eta) - sin (rad i0) * sin (rad eta)
      = -(cos w * c * cos ψ) + sin w * sin ψ := by
    apply mul_left_cancel₀ hrr0
    linear_combination J2 - (r * r * (-cos (rad i0) * cos (rad lon0 - rad pie) * cos (rad eta) - sin (rad i0) * sin (rad eta))) * hψ
  rw [V2, V1, W2, W1, ← m1', ← m2']
  unfold flipZ
  simp only [sin_add, cos_add, cos_rad_of_rad, sin_rad_of_rad, cos_rad_a_add, sin_rad_a_add]
  ext <;> simp only <;> ring


theorem orbital_peri_spec (e0 e1 i0 arg0 lon0 i1 arg1 lon1 : ℝ)
    (h : orbital_equinox2equinox e0 e1 i0 arg0 lon0 = .ok (i1, arg1, lon1)) (hi : sin (rad i1) ≠ 0) :
    orbitPeri lon1 i1 arg1 =
      flipZ (rad (a_of_sec (ecl_p ((e0 - 2451545.0) / 36525.0) ((e1 - e0) / 36525.0)))
             + rad (a_add (a_of_sec (ecl_pie ((e0 - 2451545.0) / 36525.0) ((e1 - e0) / 36525.0))) 174.876384))
        (rotX (-(rad (a_of_sec (ecl_eta ((e0 - 2451545.0) / 36525.0) ((e1 - e0) / 36525.0)))))
          (flipZ (rad (a_add (a_of_sec (ecl_pie ((e0 - 2451545.0) / 36525.0) ((e1 - e0) / 36525.0))) 174.876384))
            (orbitPeri lon0 i0 arg0))) := by
  unfold orbital_equinox2equinox at h
  simp only [pure, Except.pure] at h
  injection h with h; injection h with h1 h; injection h with h2 h3
  subst h1 h2 h3
  apply orb_peri_core i0 lon0 arg0 _ _ _ _ _ _ _ _ rfl rfl rfl rfl rfl
  intro h0
  apply hi
  rw [sin_rad_of_rad]
  have key : ∀ x c : ℝ, x = 0 → sin (patan2 (psqrt x) c) = 0 := by
    intro x c hx; subst hx; unfold psqrt patan2; rw [sqrt_zero, Complex.sin_arg]; simp
  exact key _ _ h0

end Pymeeus.Refine.Coords
