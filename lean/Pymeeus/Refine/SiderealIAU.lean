import Pymeeus.Refine.Sidereal
import Pymeeus.Spec.GMST
import Mathlib.Tactic.Ring
/-
`mean_sidereal_time` against the IAU 1982 expression (Spec/GMST.lean): the two differ, modulo whole turns, by a
polynomial in (T₀, δ) — T₀ the centuries from J2000 to 0h UT of the day, δ the fraction of the UT day — whose ten
coefficients are tiny; monomial bounds on |T₀| ≤ 81, 0 ≤ δ ≤ 1 give 4.2e-8 day.
-/
namespace Pymeeus.Refine
open Pymeeus Pymeeus.PQ Pymeeus.GenQ Pymeeus.Spec

/-- the difference polynomial (code − IAU 1982, whole turns removed) -/
def gmstDiff (T δ : ℚ) : ℚ :=
  ((1 : ℚ) / 72000000000) * (1) +
    ((-29 : ℚ) / 36000000000000) * (δ) +
    ((-129311 : ℚ) / 160089075000000000000) * (δ^2) +
    ((1 : ℚ) / 679041544817868750000000) * (δ^3) +
    ((-1607 : ℚ) / 4320000000000) * (T) +
    ((-129311 : ℚ) / 2191500000000000) * (T*δ) +
    ((1 : ℚ) / 6197048093250000000) * (T*δ^2) +
    ((1 : ℚ) / 1080000000000) * (T^2) +
    ((1 : ℚ) / 169665930000000) * (T^2*δ) +
    ((-1 : ℚ) / 1672272000000000) * (T^3)

theorem abs_mul_unit (x d B : ℚ) (hx : |x| ≤ B) (hd0 : 0 ≤ d) (hd1 : d ≤ 1) : |x * d| ≤ B := by
  rw [abs_mul, abs_of_nonneg hd0]
  have := abs_nonneg x
  nlinarith

theorem gmstDiff_bound (T δ : ℚ) (hT : |T| ≤ 81) (hd0 : 0 ≤ δ) (hd1 : δ ≤ 1) : |gmstDiff T δ| ≤ 42 / 1000000000 := by
  have h1 : |T| ≤ 81 := hT
  have h2 : |T ^ 2| ≤ 81 ^ 2 := by rw [abs_pow]; exact pow_le_pow_left₀ (abs_nonneg T) hT 2
  have h3 : |T ^ 3| ≤ 81 ^ 3 := by rw [abs_pow]; exact pow_le_pow_left₀ (abs_nonneg T) hT 3
  have d1 : |δ| ≤ 1 := by rw [abs_of_nonneg hd0]; exact hd1
  have d2 : |δ ^ 2| ≤ 1 := by rw [pow_two]; exact abs_mul_unit δ δ 1 d1 hd0 hd1
  have d3 : |δ ^ 3| ≤ 1 := by rw [pow_succ]; exact abs_mul_unit (δ ^ 2) δ 1 d2 hd0 hd1
  have m11 : |T * δ| ≤ 81 := abs_mul_unit T δ 81 h1 hd0 hd1
  have m12 : |T * δ ^ 2| ≤ 81 := by
    rw [pow_two, ← mul_assoc]; exact abs_mul_unit (T * δ) δ 81 m11 hd0 hd1
  have m21 : |T ^ 2 * δ| ≤ 81 ^ 2 := abs_mul_unit (T ^ 2) δ (81 ^ 2) h2 hd0 hd1
  obtain ⟨a1, b1⟩ := abs_le.mp h1
  obtain ⟨a2, b2⟩ := abs_le.mp h2
  obtain ⟨a3, b3⟩ := abs_le.mp h3
  obtain ⟨a4, b4⟩ := abs_le.mp d2
  obtain ⟨a5, b5⟩ := abs_le.mp d3
  obtain ⟨a6, b6⟩ := abs_le.mp m11
  obtain ⟨a7, b7⟩ := abs_le.mp m12
  obtain ⟨a8, b8⟩ := abs_le.mp m21
  unfold gmstDiff
  rw [abs_le]
  constructor <;> linarith


/-- the 0h polynomial of the code, in seconds -/
def gmstS (T : ℚ) : ℚ := T * (8640184.812866 + T * (0.093104 - 0.0000062 * T))

theorem theta0_eq (u : ℚ) :
    theta0 u = 6 / 24 + 41 / 1440 + 50.54841 / 86400 + gmstS ((u - 2451545) / 36525) / 86400
      - (⌊gmstS ((u - 2451545) / 36525) / 86400⌋ : ℚ) := by
  unfold theta0 pmod
  have e1 : ((u - 2451545.0) / 36525.0 : ℚ) = (u - 2451545) / 36525 := by norm_num
  have e2 : (86400.0 : ℚ) = 86400 := by norm_num
  simp only [e1, e2, rat_floor_eq_floor]
  have e3 : (u - 2451545) / 36525 * (8640184.812866 + (u - 2451545) / 36525 * (0.093104 - 0.0000062 * ((u - 2451545) / 36525)))
      = gmstS ((u - 2451545) / 36525) := rfl
  rw [e3]
  norm_num
  ring

/-- the algebra: code value minus IAU value minus the whole turns = difference polynomial (minus the rate term
    when the code drops it) -/
theorem gmst_algebra (δ ε : ℚ) (n a b c : Int) :
    ((6 / 24 + 41 / 1440 + 50.54841 / 86400 + gmstS (((n : ℚ) + 1 / 2 - 2451545) / 36525) / 86400 - (a : ℚ) + ε) - (b : ℚ))
      - (((280.46061837 + 360.98564736629 * ((n : ℚ) + 1 / 2 + δ - 2451545)
            + 0.000387933 * ((((n : ℚ) + 1 / 2 + δ - 2451545) / 36525) * (((n : ℚ) + 1 / 2 + δ - 2451545) / 36525))
            - (((n : ℚ) + 1 / 2 + δ - 2451545) / 36525) * (((n : ℚ) + 1 / 2 + δ - 2451545) / 36525)
                * (((n : ℚ) + 1 / 2 + δ - 2451545) / 36525) / 38710000) / 360) - (c : ℚ))
      - ((-a - b + c - n - 1 + 2451545 : Int) : ℚ)
      = gmstDiff (((n : ℚ) + 1 / 2 - 2451545) / 36525) δ - (δ * 1.00273790935 - ε) := by
  unfold gmstDiff gmstS
  push_cast
  norm_num
  ring


/-- `mean_sidereal_time` agrees with the IAU 1982 expression to 1e-7 day, modulo whole turns, for every rational
    JDE in [0, 5.4e6] (the difference is at most 4.3e-8 day). -/
theorem gmst_vs_iau1982_core (j : ℚ) (h0 : 0 ≤ j) (h1 : j ≤ 5400000) :
    ∃ k : Int, |mean_sidereal_time j - gmstIAU1982 j - (k : ℚ)| ≤ 4.3e-8 := by
  obtain ⟨hu1, hu2⟩ := ut0_le j
  have hun : ut0 j = ((⌊j - 1 / 2⌋ : Int) : ℚ) + 1 / 2 := rfl
  have hd0 : 0 ≤ j - ut0 j := by linarith
  have hd1 : j - ut0 j ≤ 1 := by linarith
  have hT : |(((⌊j - 1 / 2⌋ : Int) : ℚ) + 1 / 2 - 2451545) / 36525| ≤ 81 := by
    rw [← hun, abs_le]
    constructor
    · rw [le_div_iff₀ (by norm_num)]; linarith
    · rw [div_le_iff₀ (by norm_num)]; linarith
  have hb := gmstDiff_bound _ (j - ut0 j) hT hd0 hd1
  -- the code's value as X - ⌊X⌋
  obtain ⟨ε, hε0, hε1, hm⟩ : ∃ ε : ℚ, 0 ≤ (j - ut0 j) * 1.00273790935 - ε ∧ (j - ut0 j) * 1.00273790935 - ε ≤ 1.1e-10 ∧
      mean_sidereal_time j = Int.fract (theta0 (ut0 j) + ε) := by
    rw [mean_sidereal_time_eq]
    by_cases hc : |j - ut0 j| < 1e-10
    · refine ⟨0, ?_, ?_, by simp only [hc, if_true, add_zero]⟩
      · have : 0 ≤ (j - ut0 j) * 1.00273790935 := mul_nonneg hd0 (by norm_num)
        linarith
      · rw [abs_of_nonneg hd0] at hc
        norm_num at hc ⊢
        nlinarith
    · exact ⟨(j - ut0 j) * 1.00273790935, by linarith, by norm_num, by simp only [hc, if_false]⟩
  rw [hm, theta0_eq, hun]
  unfold Int.fract gmstIAU1982
  simp only [rat_floor_eq_floor]
  have hj : j = ((⌊j - 1 / 2⌋ : Int) : ℚ) + 1 / 2 + (j - ut0 j) := by rw [← hun]; ring
  generalize hδ : j - ut0 j = δ at *
  generalize hn : ⌊j - 1 / 2⌋ = n at *
  rw [hj]
  generalize ha : ⌊gmstS (((n : ℚ) + 1 / 2 - 2451545) / 36525) / 86400⌋ = a
  generalize hbb : ⌊6 / 24 + 41 / 1440 + 50.54841 / 86400 + gmstS (((n : ℚ) + 1 / 2 - 2451545) / 36525) / 86400 - (a : ℚ) + ε⌋ = b
  generalize hcc : ⌊(280.46061837 + 360.98564736629 * ((n : ℚ) + 1 / 2 + δ - 2451545)
            + 0.000387933 * ((((n : ℚ) + 1 / 2 + δ - 2451545) / 36525) * (((n : ℚ) + 1 / 2 + δ - 2451545) / 36525))
            - (((n : ℚ) + 1 / 2 + δ - 2451545) / 36525) * (((n : ℚ) + 1 / 2 + δ - 2451545) / 36525)
                * (((n : ℚ) + 1 / 2 + δ - 2451545) / 36525) / 38710000) / 360⌋ = c
  refine ⟨-a - b + c - n - 1 + 2451545, ?_⟩
  rw [gmst_algebra δ ε n a b c]
  obtain ⟨b1, b2⟩ := abs_le.mp hb
  rw [abs_le]
  norm_num at hε0 hε1 b1 b2 ⊢
  constructor <;> linarith

end Pymeeus.Refine
