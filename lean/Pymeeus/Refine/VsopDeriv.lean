import Pymeeus.Refine.Vsop
import Mathlib.Analysis.Real.Pi.Bounds
/-
Derivative of a VSOP87 table `t ↦ Σ_i t^i Σ_j A cos(B + C t)` and the triangle-inequality bound
`|d/dt| ≤ Σ_i (i |t|^(i-1) Σ|A| + |t|^i Σ|A C|)`; transfer to the generated integer tables; strict
monotonicity of a longitude series whose series 1 starts with the secular term `(a, 0, 0)`.
-/
noncomputable section
namespace Pymeeus.Refine.Vsop
open Pymeeus Pymeeus.PR Pymeeus.GenR Pymeeus.GenR.Helio Pymeeus.Tables

abbrev Ser := List (ℝ × ℝ × ℝ)

/-- derivative of one series: `-Σ A C sin(B + C t)` -/
def serDeriv (s : Ser) (t : ℝ) : ℝ := (s.map fun x => -(x.1 * x.2.2) * Real.sin (x.2.1 + x.2.2 * t)).sum
/-- `Σ |A|` -/
def alpha (s : Ser) : ℝ := (s.map fun x => |x.1|).sum
/-- `Σ |A C|` -/
def gamma (s : Ser) : ℝ := (s.map fun x => |x.1 * x.2.2|).sum

lemma hasDerivAt_term (A B C t : ℝ) :
    HasDerivAt (fun t => A * Real.cos (B + C * t)) (-(A * C) * Real.sin (B + C * t)) t := by
  have h := (((hasDerivAt_id t).const_mul C).const_add B).cos.const_mul A
  have h2 : HasDerivAt (fun t => A * Real.cos (B + C * t)) (A * (-Real.sin (B + C * t) * (C * 1))) t := h
  exact h2.congr_deriv (by ring)

lemma hasDerivAt_series (s : Ser) (t : ℝ) :
    HasDerivAt (fun t => Spec.seriesDirect s t) (serDeriv s t) t := by
  induction s with
  | nil => simpa [Spec.seriesDirect, serDeriv] using hasDerivAt_const t (0 : ℝ)
  | cons x xs ih =>
    have h := (hasDerivAt_term x.1 x.2.1 x.2.2 t).add ih
    have hf : (fun t => Spec.seriesDirect (x :: xs) t) =
        (fun t => x.1 * Real.cos (x.2.1 + x.2.2 * t)) + fun t => Spec.seriesDirect xs t := by
      funext t; simp [Spec.seriesDirect]
    have hd : serDeriv (x :: xs) t = -(x.1 * x.2.2) * Real.sin (x.2.1 + x.2.2 * t) + serDeriv xs t := by
      simp [serDeriv]
    rw [hf, hd]; exact h

lemma abs_series_le (s : Ser) (t : ℝ) : |Spec.seriesDirect s t| ≤ alpha s := by
  induction s with
  | nil => simp [Spec.seriesDirect, alpha]
  | cons x xs ih =>
    simp only [Spec.seriesDirect, alpha, List.map_cons, List.sum_cons] at ih ⊢
    refine (abs_add_le _ _).trans (add_le_add ?_ ih)
    rw [abs_mul]
    exact mul_le_of_le_one_right (abs_nonneg _) (Real.abs_cos_le_one _)

lemma abs_serDeriv_le (s : Ser) (t : ℝ) : |serDeriv s t| ≤ gamma s := by
  induction s with
  | nil => simp [serDeriv, gamma]
  | cons x xs ih =>
    simp only [serDeriv, gamma, List.map_cons, List.sum_cons] at ih ⊢
    refine (abs_add_le _ _).trans (add_le_add ?_ ih)
    rw [abs_mul, abs_neg]
    exact mul_le_of_le_one_right (abs_nonneg _) (Real.abs_sin_le_one _)

lemma alpha_nonneg (s : Ser) : 0 ≤ alpha s := (abs_nonneg _).trans (abs_series_le s 0)
lemma gamma_nonneg (s : Ser) : 0 ≤ gamma s := (abs_nonneg _).trans (abs_serDeriv_le s 0)

/-- `Σ_i t^(k+i) S_i(t)` -/
def eFrom (t : ℝ) : ℕ → List Ser → ℝ
  | _, [] => 0
  | k, s :: r => t ^ k * Spec.seriesDirect s t + eFrom t (k + 1) r

/-- its derivative -/
def dFrom (t : ℝ) : ℕ → List Ser → ℝ
  | _, [] => 0
  | k, s :: r => ((k : ℝ) * t ^ (k - 1) * Spec.seriesDirect s t + t ^ k * serDeriv s t) + dFrom t (k + 1) r

/-- the bound on the derivative for `|t| ≤ T` -/
def bFrom (T : ℝ) : ℕ → List Ser → ℝ
  | _, [] => 0
  | k, s :: r => ((k : ℝ) * T ^ (k - 1) * alpha s + T ^ k * gamma s) + bFrom T (k + 1) r

lemma eFrom_eq_evalFrom (t : ℝ) (k : ℕ) (tbl : List Ser) :
    eFrom t k tbl = evalFrom t k (tbl.map fun s => Spec.seriesDirect s t) := by
  induction tbl generalizing k with
  | nil => simp [eFrom, evalFrom]
  | cons s r ih => simp [eFrom, evalFrom, ih]

lemma directSum_eq_eFrom (tbl : List Ser) (t : ℝ) : Spec.directSum tbl t = eFrom t 0 tbl := by
  rw [eFrom_eq_evalFrom, evalFrom_eq_sum]
  unfold Spec.directSum
  rw [List.length_map]
  apply Finset.sum_congr rfl
  intro i hi
  have hi' := Finset.mem_range.mp hi
  rw [zero_add]
  congr 1
  simp [List.getD_eq_getElem?_getD, List.getElem?_map, List.getElem?_eq_getElem hi']

lemma hasDerivAt_eFrom (tbl : List Ser) (k : ℕ) (t : ℝ) :
    HasDerivAt (fun t => eFrom t k tbl) (dFrom t k tbl) t := by
  induction tbl generalizing k with
  | nil => simpa [eFrom, dFrom] using hasDerivAt_const t (0 : ℝ)
  | cons s r ih =>
    have h1 : HasDerivAt (fun t : ℝ => t ^ k) ((k : ℝ) * t ^ (k - 1)) t := hasDerivAt_pow k t
    have h := (h1.mul (hasDerivAt_series s t)).add (ih (k + 1))
    have hf : (fun t => eFrom t k (s :: r)) =
        ((fun t : ℝ => t ^ k) * fun t => Spec.seriesDirect s t) + fun t => eFrom t (k + 1) r := by
      funext t; simp [eFrom]
    rw [hf]; exact h

lemma abs_dFrom_le (tbl : List Ser) (k : ℕ) (t T : ℝ) (ht : |t| ≤ T) : |dFrom t k tbl| ≤ bFrom T k tbl := by
  induction tbl generalizing k with
  | nil => simp [dFrom, bFrom]
  | cons s r ih =>
    simp only [dFrom, bFrom]
    have hT : 0 ≤ T := (abs_nonneg t).trans ht
    have hp1 : |t| ^ (k - 1) ≤ T ^ (k - 1) := pow_le_pow_left₀ (abs_nonneg t) ht _
    have hp2 : |t| ^ k ≤ T ^ k := pow_le_pow_left₀ (abs_nonneg t) ht _
    have e1 : |(k : ℝ) * t ^ (k - 1) * Spec.seriesDirect s t| ≤ (k : ℝ) * T ^ (k - 1) * alpha s := by
      rw [abs_mul, abs_mul, abs_pow, Nat.abs_cast]
      exact mul_le_mul (mul_le_mul_of_nonneg_left hp1 (Nat.cast_nonneg k)) (abs_series_le s t) (abs_nonneg _)
        (mul_nonneg (Nat.cast_nonneg k) (pow_nonneg hT _))
    have e2 : |t ^ k * serDeriv s t| ≤ T ^ k * gamma s := by
      rw [abs_mul, abs_pow]
      exact mul_le_mul hp2 (abs_serDeriv_le s t) (abs_nonneg _) (pow_nonneg hT _)
    exact (abs_add_le _ _).trans (add_le_add ((abs_add_le _ _).trans (add_le_add e1 e2)) (ih (k + 1)))

/-- A table whose series 1 starts with `(a, 0, 0)`: the direct sum is `a t` plus the rest. -/
lemma directSum_lead (s0 s1 : Ser) (rest : List Ser) (a t : ℝ) :
    Spec.directSum (s0 :: ((a, 0, 0) :: s1) :: rest) t = a * t + Spec.directSum (s0 :: s1 :: rest) t := by
  simp only [directSum_eq_eFrom, eFrom, Spec.seriesDirect, List.map_cons, List.sum_cons]
  simp
  ring

/-- If the secular rate `a` exceeds the triangle-inequality bound of everything else on `[-T, T]`, the
    series is strictly increasing there. -/
lemma strictMonoOn_of_lead (s0 s1 : Ser) (rest : List Ser) (a T : ℝ)
    (hb : bFrom T 0 (s0 :: s1 :: rest) < a) :
    StrictMonoOn (Spec.directSum (s0 :: ((a, 0, 0) :: s1) :: rest)) (Set.Icc (-T) T) := by
  have hfun : Spec.directSum (s0 :: ((a, 0, 0) :: s1) :: rest) =
      fun t => a * t + eFrom t 0 (s0 :: s1 :: rest) := by
    funext t; rw [directSum_lead, directSum_eq_eFrom]
  rw [hfun]
  have hd : ∀ t, HasDerivAt (fun t => a * t + eFrom t 0 (s0 :: s1 :: rest)) (a + dFrom t 0 (s0 :: s1 :: rest)) t := by
    intro t
    have h := ((hasDerivAt_id t).const_mul a).add (hasDerivAt_eFrom (s0 :: s1 :: rest) 0 t)
    have hf : (fun t => a * t + eFrom t 0 (s0 :: s1 :: rest)) =
        (fun y => a * id y) + fun t => eFrom t 0 (s0 :: s1 :: rest) := by
      funext t; simp
    rw [hf]
    simpa using h
  apply strictMonoOn_of_deriv_pos (convex_Icc _ _)
  · exact fun t _ => (hd t).continuousAt.continuousWithinAt
  · intro t ht
    rw [interior_Icc] at ht
    have habs : |t| ≤ T := abs_le.mpr ⟨le_of_lt ht.1, le_of_lt ht.2⟩
    rw [(hd t).deriv]
    have := abs_dFrom_le (s0 :: s1 :: rest) 0 t T habs
    have := (abs_le.mp this).1
    linarith

/-! ### transfer to the generated integer tables -/

lemma numOfScaled_abs (n : Int) (k : ℕ) : |numOfScaled n k| = |(n : ℝ)| / 10 ^ k := by
  unfold numOfScaled
  rw [abs_div, abs_of_pos (by positivity : (0 : ℝ) < 10 ^ k)]

lemma alpha_scaled (s : List Term3) : alpha (s.map termOfScaled) = (sumAbsA s : ℝ) / 10 ^ expA := by
  induction s with
  | nil => simp [alpha, sumAbsA]
  | cons x xs ih =>
    simp only [alpha, List.map_cons, List.sum_cons, sumAbsA] at ih ⊢
    rw [ih]
    simp only [termOfScaled, numOfScaled_abs]
    push_cast; ring

lemma gamma_scaled (s : List Term3) : gamma (s.map termOfScaled) = (sumAbsAC s : ℝ) / 10 ^ (expA + expC) := by
  induction s with
  | nil => simp [gamma, sumAbsAC]
  | cons x xs ih =>
    simp only [gamma, List.map_cons, List.sum_cons, sumAbsAC] at ih ⊢
    rw [ih]
    have : |(termOfScaled x).1 * (termOfScaled x).2.2| = |((x.1 * x.2.2 : ℤ) : ℝ)| / 10 ^ (expA + expC) := by
      simp only [termOfScaled]
      rw [abs_mul, numOfScaled_abs, numOfScaled_abs]
      push_cast; rw [pow_add, abs_mul]; field_simp
    rw [this]; push_cast; ring

/-- the bound written with the lists of integer sums -/
def bSums (T : ℝ) : ℕ → List Int → List Int → ℝ
  | k, a :: as, g :: gs =>
    ((k : ℝ) * T ^ (k - 1) * ((a : ℝ) / 10 ^ expA) + T ^ k * ((g : ℝ) / 10 ^ (expA + expC))) + bSums T (k + 1) as gs
  | _, _, _ => 0

lemma bFrom_scaled (T : ℝ) (k : ℕ) (tbl : List (List Term3)) :
    bFrom T k (vsopOfScaled tbl) = bSums T k (tbl.map sumAbsA) (tbl.map sumAbsAC) := by
  induction tbl generalizing k with
  | nil => simp [bFrom, bSums, vsopOfScaled]
  | cons s r ih =>
    have := ih (k + 1)
    simp only [vsopOfScaled, List.map_cons, bFrom, bSums] at this ⊢
    rw [this, alpha_scaled, gamma_scaled]

/-- remove `|a|` from the entry of index 1 (the secular term is taken out of series 1) -/
def subAt1 (l : List Int) (a : Int) : List Int :=
  match l with
  | c0 :: c1 :: r => c0 :: (c1 - (a.natAbs : Int)) :: r
  | l => l

/-- Strict monotonicity of the longitude series of a generated table from the generated constants:
    `hlead` the leading term of series 1, `hA`/`hG` the per-series sums, `hb` the numerical inequality. -/
theorem strictMonoOn_of_sums (tbl : List (List Term3)) (a : Int) (cA cG : List Int) (T : ℝ)
    (hlead : (tbl.getD 1 []).head? = some (a, 0, 0))
    (hA : tbl.map sumAbsA = cA) (hG : tbl.map sumAbsAC = cG)
    (hb : bSums T 0 (subAt1 cA a) cG < (a : ℝ) / 10 ^ expA) :
    StrictMonoOn (Spec.directSum (vsopOfScaled tbl)) (Set.Icc (-T) T) := by
  match tbl, hlead with
  | s0 :: (x :: s1) :: rest, hlead =>
    have hx : x = (a, 0, 0) := by simpa using hlead
    subst hx
    have htab : vsopOfScaled (s0 :: ((a, 0, 0) :: s1) :: rest) =
        s0.map termOfScaled :: (((a : ℝ) / 10 ^ expA, 0, 0) :: s1.map termOfScaled) :: vsopOfScaled rest := by
      simp [vsopOfScaled, termOfScaled, numOfScaled]
    rw [htab]
    apply strictMonoOn_of_lead
    have h2 : (s0.map termOfScaled :: s1.map termOfScaled :: vsopOfScaled rest) = vsopOfScaled (s0 :: s1 :: rest) := by
      simp [vsopOfScaled]
    rw [h2, bFrom_scaled]
    have e1 : (s0 :: s1 :: rest).map sumAbsA = subAt1 cA a := by
      rw [← hA]; simp [subAt1, sumAbsA]
    have e2 : (s0 :: s1 :: rest).map sumAbsAC = cG := by
      rw [← hG]; simp [sumAbsAC]
    rw [e1, e2]
    exact hb

/-- The derivative of the longitude series of a generated table differs from the secular rate `a` by at most
    the triangle-inequality bound, for `|t| ≤ T`. -/
theorem deriv_bounds_of_sums (tbl : List (List Term3)) (a : Int) (cA cG : List Int) (T β : ℝ)
    (hlead : (tbl.getD 1 []).head? = some (a, 0, 0))
    (hA : tbl.map sumAbsA = cA) (hG : tbl.map sumAbsAC = cG)
    (hb : bSums T 0 (subAt1 cA a) cG ≤ β) (t : ℝ) (ht : |t| ≤ T) :
    ∃ d, HasDerivAt (Spec.directSum (vsopOfScaled tbl)) d t ∧ |d - (a : ℝ) / 10 ^ expA| ≤ β := by
  match tbl, hlead with
  | s0 :: (x :: s1) :: rest, hlead =>
    have hx : x = (a, 0, 0) := by simpa using hlead
    subst hx
    have htab : vsopOfScaled (s0 :: ((a, 0, 0) :: s1) :: rest) =
        s0.map termOfScaled :: (((a : ℝ) / 10 ^ expA, 0, 0) :: s1.map termOfScaled) :: vsopOfScaled rest := by
      simp [vsopOfScaled, termOfScaled, numOfScaled]
    have h2 : (s0.map termOfScaled :: s1.map termOfScaled :: vsopOfScaled rest) = vsopOfScaled (s0 :: s1 :: rest) := by
      simp [vsopOfScaled]
    have e1 : (s0 :: s1 :: rest).map sumAbsA = subAt1 cA a := by
      rw [← hA]; simp [subAt1, sumAbsA]
    have e2 : (s0 :: s1 :: rest).map sumAbsAC = cG := by
      rw [← hG]; simp [sumAbsAC]
    set A : ℝ := (a : ℝ) / 10 ^ expA with hAdef
    set L' := s0.map termOfScaled :: s1.map termOfScaled :: vsopOfScaled rest with hL'
    have hfun : Spec.directSum (vsopOfScaled (s0 :: ((a, 0, 0) :: s1) :: rest)) = fun t => A * t + eFrom t 0 L' := by
      funext t; rw [htab, directSum_lead, directSum_eq_eFrom]
    have hd : HasDerivAt (fun t => A * t + eFrom t 0 L') (A + dFrom t 0 L') t := by
      have h := ((hasDerivAt_id t).const_mul A).add (hasDerivAt_eFrom L' 0 t)
      have hf : (fun t => A * t + eFrom t 0 L') = (fun y => A * id y) + fun t => eFrom t 0 L' := by
        funext t; simp
      rw [hf]
      simpa using h
    refine ⟨A + dFrom t 0 L', by rw [hfun]; exact hd, ?_⟩
    have hbd := abs_dFrom_le L' 0 t T ht
    have hbf : bFrom T 0 L' = bSums T 0 (subAt1 cA a) cG := by rw [h2, bFrom_scaled, e1, e2]
    have : A + dFrom t 0 L' - A = dFrom t 0 L' := by ring
    rw [this]
    exact (hbd.trans (le_of_eq hbf)).trans hb

/-! ### numerical lemmas for the per-planet constants -/

lemma leadAmp_scaled (tbl : List (List Term3)) (a b c : Int) (h : (tbl.getD 1 []).head? = some (a, b, c)) :
    Spec.leadAmp (vsopOfScaled tbl) = (a : ℝ) / 10 ^ expA := by
  match tbl, h with
  | s0 :: (x :: s1) :: rest, h =>
    have hx : x = (a, b, c) := by simpa using h
    subst hx
    simp [Spec.leadAmp, vsopOfScaled, termOfScaled, numOfScaled]

/-- Kepler's third law within `tol`, reduced to two rational inequalities by 6-digit bounds on π -/
lemma kepler3_of_bounds (rate a tol k : ℝ) (hrate : 0 < rate) (ha : 0 < a)
    (hlo : (1 - tol) * k ^ 2 ≤ (rate * (3.141592 / 180) / 36525) ^ 2 * a ^ 3)
    (hhi : (rate * (3.141593 / 180) / 36525) ^ 2 * a ^ 3 ≤ (1 + tol) * k ^ 2) :
    |(rate * (Real.pi / 180) / 36525) ^ 2 * a ^ 3 - k ^ 2| ≤ tol * k ^ 2 := by
  have h1 := Real.pi_gt_d6
  have h2 := Real.pi_lt_d6
  have ha3 : 0 < a ^ 3 := by positivity
  have e1 : (rate * (3.141592 / 180) / 36525) ^ 2 ≤ (rate * (Real.pi / 180) / 36525) ^ 2 := by
    apply pow_le_pow_left₀ (by positivity)
    have : rate * (3.141592 / 180) ≤ rate * (Real.pi / 180) := by
      apply mul_le_mul_of_nonneg_left _ hrate.le; linarith
    exact div_le_div_of_nonneg_right this (by norm_num)
  have e2 : (rate * (Real.pi / 180) / 36525) ^ 2 ≤ (rate * (3.141593 / 180) / 36525) ^ 2 := by
    apply pow_le_pow_left₀ (by positivity)
    have : rate * (Real.pi / 180) ≤ rate * (3.141593 / 180) := by
      apply mul_le_mul_of_nonneg_left _ hrate.le; linarith
    exact div_le_div_of_nonneg_right this (by norm_num)
  have f1 := mul_le_mul_of_nonneg_right e1 ha3.le
  have f2 := mul_le_mul_of_nonneg_right e2 ha3.le
  rw [abs_le]; constructor <;> linarith

/-- a series rate `x` (1e-8 rad per millennium) against a rate in degrees per century, relative `1e-6`,
    reduced to two rational inequalities by 10-digit bounds on π -/
lemma rate_of_bounds (x rate : ℝ) (hr : 0 < rate)
    (h1 : x * 18 ≤ (1 + 0.000001) * rate * 3.1415926535 * 100000000)
    (h2 : (1 - 0.000001) * rate * 3.1415926536 * 100000000 ≤ x * 18) :
    |x / 100000000 * (180 / Real.pi) / 10 - rate| ≤ 0.000001 * rate := by
  have p1 : (3.1415926535 : ℝ) < Real.pi := lt_trans (by norm_num) Real.pi_gt_d20
  have p2 : Real.pi < (3.1415926536 : ℝ) := lt_trans Real.pi_lt_d20 (by norm_num)
  have hpi : 0 < Real.pi := Real.pi_pos
  have e : x / 100000000 * (180 / Real.pi) / 10 - rate = (x * 18 - rate * Real.pi * 100000000) / (Real.pi * 100000000) := by
    field_simp; ring
  rw [e, abs_div, abs_of_pos (by positivity : (0 : ℝ) < Real.pi * 100000000), div_le_iff₀ (by positivity)]
  have q1 : rate * 3.1415926535 ≤ rate * Real.pi := mul_le_mul_of_nonneg_left p1.le hr.le
  have q2 : rate * Real.pi ≤ rate * 3.1415926536 := mul_le_mul_of_nonneg_left p2.le hr.le
  rw [abs_le]; constructor <;> nlinarith

/-- amplitude of the first term of series 0 of a generated table -/
lemma lead0_scaled (tbl : List (List Term3)) (a b c : Int) (h : (tbl.getD 0 []).head? = some (a, b, c)) :
    (((vsopOfScaled tbl).getD 0 []).headD (0, 0, 0)).1 = (a : ℝ) / 10 ^ expA := by
  match tbl, h with
  | (x :: s0) :: rest, h =>
    have hx : x = (a, b, c) := by simpa using h
    subst hx
    simp [vsopOfScaled, termOfScaled, numOfScaled]

/-- amplitude of the first term of series 2 of a generated table -/
lemma lead2_scaled (tbl : List (List Term3)) (a b c : Int) (h : (tbl.getD 2 []).head? = some (a, b, c)) :
    (((vsopOfScaled tbl).getD 2 []).headD (0, 0, 0)).1 = (a : ℝ) / 10 ^ expA := by
  match tbl, h with
  | s0 :: s1 :: (x :: s2) :: rest, h =>
    have hx : x = (a, b, c) := by simpa using h
    subst hx
    simp [vsopOfScaled, termOfScaled, numOfScaled]

/-- a secular acceleration `x` (1e-8 rad per millennium²) against a `T²` coefficient `c` in degrees per
    century², absolute tolerance `tol`, reduced to two rational inequalities by 10-digit bounds on π -/
lemma accel_of_bounds (x c tol : ℝ) (hx : 0 ≤ x) (hc : 0 ≤ c - tol)
    (h1 : x * 180 ≤ (c + tol) * 3.1415926535 * 10000000000)
    (h2 : (c - tol) * 3.1415926536 * 10000000000 ≤ x * 180) :
    |x / 100000000 * (180 / Real.pi) / 100 - c| ≤ tol := by
  have p1 : (3.1415926535 : ℝ) < Real.pi := lt_trans (by norm_num) Real.pi_gt_d20
  have p2 : Real.pi < (3.1415926536 : ℝ) := lt_trans Real.pi_lt_d20 (by norm_num)
  have hpi : 0 < Real.pi := Real.pi_pos
  have e : x / 100000000 * (180 / Real.pi) / 100 - c = (x * 180 - c * Real.pi * 10000000000) / (Real.pi * 10000000000) := by
    field_simp; ring
  rw [e, abs_div, abs_of_pos (by positivity : (0 : ℝ) < Real.pi * 10000000000), div_le_iff₀ (by positivity)]
  have hct : 0 ≤ c + tol := by linarith
  have q1 : (c + tol) * 3.1415926535 ≤ (c + tol) * Real.pi := mul_le_mul_of_nonneg_left p1.le hct
  have q2 : (c - tol) * Real.pi ≤ (c - tol) * 3.1415926536 := mul_le_mul_of_nonneg_left p2.le hc
  rw [abs_le]; constructor <;> nlinarith

/-- a one-term table whose only series is identically zero (witness of `C07.geometric_lon_range_counterexample`) -/
def zeroTable : VsopTable := [[(0, 0, 0)]]

end Pymeeus.Refine.Vsop
