import Pymeeus.Refine.Coords
/-
Refinement lemmas for C05, second part: inverse frame rotations (galactic), angular separation,
relative position angle, enclosing circle.
-/
noncomputable section
namespace Pymeeus.Refine.Coords
open Real Pymeeus Pymeeus.PR Pymeeus.GenR.Coords Pymeeus.Spec.Sphere

/-! ### the galactic pair is inverse -/

def negX (v : V3) : V3 := (-v.1, v.2.1, v.2.2)

theorem rotZ_neg_flipZ_add_pi (a : ℝ) (t : V3) : rotZ (-a) (flipZ (a + π) t) = negX t := by
  unfold rotZ flipZ negX
  simp only [cos_neg, sin_neg, cos_add_pi, sin_add_pi]
  ext
  · simp only; linear_combination (-t.1) * sin_sq_add_cos_sq a
  · simp only; linear_combination t.2.1 * sin_sq_add_cos_sq a
  · rfl

theorem tilt_negX_tilt (p : ℝ) (w : V3) : tilt p (negX (tilt p w)) = negX w := by
  unfold tilt negX
  ext
  · simp only; linear_combination (-w.1) * sin_sq_add_cos_sq p
  · rfl
  · simp only; linear_combination w.2.2 * sin_sq_add_cos_sq p

theorem rotZ_negX_flipZ_add_pi (b : ℝ) (v : V3) : rotZ b (negX (flipZ (b + π) v)) = v := by
  unfold rotZ flipZ negX
  simp only [cos_add_pi, sin_add_pi]
  ext
  · simp only; linear_combination v.1 * sin_sq_add_cos_sq b
  · simp only; linear_combination v.2.1 * sin_sq_add_cos_sq b
  · rfl

theorem flipZ_add_pi_rotZ (b : ℝ) (t : V3) : flipZ (b + π) (rotZ b t) = negX t := by
  unfold rotZ flipZ negX
  simp only [cos_add_pi, sin_add_pi]
  ext
  · simp only; linear_combination (-t.1) * sin_sq_add_cos_sq b
  · simp only; linear_combination t.2.1 * sin_sq_add_cos_sq b
  · rfl

theorem flipZ_add_pi_negX_rotZ_neg (a : ℝ) (v : V3) : flipZ (a + π) (negX (rotZ (-a) v)) = v := by
  unfold rotZ flipZ negX
  simp only [cos_neg, sin_neg, cos_add_pi, sin_add_pi]
  ext
  · simp only; linear_combination v.1 * sin_sq_add_cos_sq a
  · simp only; linear_combination v.2.1 * sin_sq_add_cos_sq a
  · rfl

theorem rad_303 : rad 303 = rad 123 + π := by unfold rad; ring
theorem rad_192 : rad 192.25 = rad 12.25 + π := by unfold rad; ring_nf

/-- 303° = 123° + 180° and 192.25° = 12.25° + 180° make the two galactic conversions exact inverses. -/
theorem equatorialOfGalactic_galacticOfEquatorial (v : V3) :
    equatorialOfGalactic (galacticOfEquatorial v) = v := by
  unfold equatorialOfGalactic galacticOfEquatorial
  rw [rad_303, rotZ_neg_flipZ_add_pi, tilt_negX_tilt, rad_192, rotZ_negX_flipZ_add_pi]

theorem galacticOfEquatorial_equatorialOfGalactic (v : V3) :
    galacticOfEquatorial (equatorialOfGalactic v) = v := by
  unfold equatorialOfGalactic galacticOfEquatorial
  rw [rad_192, flipZ_add_pi_rotZ, tilt_negX_tilt, rad_303, flipZ_add_pi_negX_rotZ_neg]


/-! ### angular separation -/

theorem rad_neg (y : ℝ) : rad (-y) = -rad y := by unfold rad; ring

theorem cos_rad_a_sub (x y : ℝ) : cos (rad (a_sub x y)) = cos (rad x - rad y) := by
  unfold a_sub a_add a_neg
  rw [cos_rad_reduce, rad_add, cos_add, cos_rad_reduce, sin_rad_reduce, rad_neg, cos_neg, sin_neg, cos_sub]
  ring

theorem sin_rad_a_sub (x y : ℝ) : sin (rad (a_sub x y)) = sin (rad x - rad y) := by
  unfold a_sub a_add a_neg
  rw [sin_rad_reduce, rad_add, sin_add, cos_rad_reduce, sin_rad_reduce, rad_neg, cos_neg, sin_neg, sin_sub]
  ring

theorem dot_dir (a1 d1 a2 d2 : ℝ) :
    dot (dir a1 d1) (dir a2 d2) = cos (rad d1) * cos (rad d2) * cos (rad a1 - rad a2) + sin (rad d1) * sin (rad d2) := by
  unfold dot dir; simp only; rw [cos_sub]; ring

theorem dot_le_one_of_unit {u v : V3} (hu : dot u u = 1) (hv : dot v v = 1) : dot u v ≤ 1 := by
  unfold dot at *
  nlinarith [sq_nonneg (u.1 - v.1), sq_nonneg (u.2.1 - v.2.1), sq_nonneg (u.2.2 - v.2.2)]

theorem neg_one_le_dot_of_unit {u v : V3} (hu : dot u u = 1) (hv : dot v v = 1) : -1 ≤ dot u v := by
  unfold dot at *
  nlinarith [sq_nonneg (u.1 + v.1), sq_nonneg (u.2.1 + v.2.1), sq_nonneg (u.2.2 + v.2.2)]

theorem dir_dot_self (l b : ℝ) : dot (dir l b) (dir l b) = 1 := by
  rw [← sq_of_dot, dir_unit]

/-- Meeus' x, y, z of `angular_separation` form a unit vector whose z component is the dot product. -/
theorem sep_xyz_unit (d1 d2 da : ℝ) :
    (cos d1 * sin d2 - sin d1 * cos d2 * cos da) ^ 2 + (cos d2 * sin da) ^ 2
      + (sin d1 * sin d2 + cos d1 * cos d2 * cos da) ^ 2 = 1 := by
  linear_combination (sin d2 ^ 2 + cos d2 ^ 2 * cos da ^ 2) * sin_sq_add_cos_sq d1
    + cos d2 ^ 2 * sin_sq_add_cos_sq da + sin_sq_add_cos_sq d2

theorem angular_separation_spec (α1 δ1 α2 δ2 : ℝ) :
    ∃ θ, angular_separation α1 δ1 α2 δ2 = .ok θ ∧
      cos (rad θ) = dot (dir α1 δ1) (dir α2 δ2) ∧ 0 ≤ θ ∧ θ ≤ 180 := by
  unfold angular_separation
  simp only [pure, Except.pure, psin, pcos, psqrt, a_rad_eq, cos_rad_a_sub, sin_rad_a_sub]
  set x := cos (rad δ1) * sin (rad δ2) - sin (rad δ1) * cos (rad δ2) * cos (rad α1 - rad α2) with hx
  set y := cos (rad δ2) * sin (rad α1 - rad α2) with hy
  set z := sin (rad δ1) * sin (rad δ2) + cos (rad δ1) * cos (rad δ2) * cos (rad α1 - rad α2) with hz
  have hu : x ^ 2 + y ^ 2 + z ^ 2 = 1 := sep_xyz_unit _ _ _
  have hD : dot (dir α1 δ1) (dir α2 δ2) = z := by rw [dot_dir, hz]; ring
  set r := √(x * x + y * y) with hr
  have hr0 : 0 ≤ r := sqrt_nonneg _
  have hr2 : r * r = x * x + y * y := mul_self_sqrt (add_nonneg (mul_self_nonneg x) (mul_self_nonneg y))
  have hn : ‖(⟨z, r⟩ : ℂ)‖ = 1 := by
    rw [Complex.norm_def, Complex.normSq_mk, show z * z + r * r = 1 by nlinarith]; exact sqrt_one
  have hne : (⟨z, r⟩ : ℂ) ≠ 0 := by
    intro h0; rw [h0, norm_zero] at hn; exact zero_ne_one hn
  have h0 : 0 ≤ Complex.arg ⟨z, r⟩ := Complex.arg_nonneg_iff.mpr hr0
  have h1 : Complex.arg ⟨z, r⟩ ≤ π := Complex.arg_le_pi _
  have hab : |patan2 r z| < 2 * π := by
    unfold patan2; rw [abs_lt]; constructor <;> linarith [pi_pos]
  refine ⟨_, rfl, ?_, ?_⟩
  · rw [cos_rad_of_rad, hD]; unfold patan2
    rw [Complex.cos_arg hne, hn]; simp
  · apply a_of_rad_bounds hab <;> unfold patan2 <;> linarith [pi_pos]

/-- `cos` is injective on [0°, 180°]. -/
theorem deg_eq_of_cos_eq {x y : ℝ} (hx : 0 ≤ x ∧ x ≤ 180) (hy : 0 ≤ y ∧ y ≤ 180)
    (h : cos (rad x) = cos (rad y)) : x = y := by
  have hp : 0 < π / 180 := by positivity
  have hx' : rad x ∈ Set.Icc 0 π := by
    unfold rad; constructor
    · exact mul_nonneg hx.1 hp.le
    · nlinarith [hx.2]
  have hy' : rad y ∈ Set.Icc 0 π := by
    unfold rad; constructor
    · exact mul_nonneg hy.1 hp.le
    · nlinarith [hy.2]
  have := injOn_cos hx' hy' h
  unfold rad at this
  exact mul_right_cancel₀ hp.ne' this


/-! ### relative position angle -/

theorem a_of_rad_atan2 (y x : ℝ) : a_of_rad (patan2 y x) = Complex.arg ⟨x, y⟩ * (180 / π) := by
  apply a_of_rad_eq
  have h1 := Complex.neg_pi_lt_arg ⟨x, y⟩
  have h2 := Complex.arg_le_pi ⟨x, y⟩
  unfold patan2; rw [abs_lt]; constructor <;> linarith [pi_pos]

theorem rad_a_of_rad_atan2 (y x : ℝ) : rad (a_of_rad (patan2 y x)) = Complex.arg ⟨x, y⟩ := by
  rw [a_of_rad_atan2]; unfold rad; field_simp

/-- The reduction of the right-ascension difference to ±180° (a function of the difference only, over ℝ). -/
def redDiff (d : ℝ) : ℝ := if 180 < |d| then d - (if 0 < d then 360 else -360) else d

theorem rad_redDiff (d : ℝ) : ∃ k : ℤ, rad (redDiff d) = rad d + k * (2 * π) := by
  unfold redDiff
  split_ifs
  · exact ⟨-1, by unfold rad; push_cast; ring⟩
  · exact ⟨1, by unfold rad; push_cast; ring⟩
  · exact ⟨0, by simp⟩

theorem sin_rad_redDiff (d : ℝ) : sin (rad (redDiff d)) = sin (rad d) := by
  obtain ⟨k, hk⟩ := rad_redDiff d; rw [hk, sin_add_int_mul_two_pi]
theorem cos_rad_redDiff (d : ℝ) : cos (rad (redDiff d)) = cos (rad d) := by
  obtain ⟨k, hk⟩ := rad_redDiff d; rw [hk, cos_add_int_mul_two_pi]

theorem redDiff_neg (d : ℝ) : redDiff (-d) = -redDiff d := by
  unfold redDiff
  rw [abs_neg]
  by_cases h : 180 < |d|
  · have hd : d ≠ 0 := by intro h0; rw [h0, abs_zero] at h; norm_num at h
    rcases lt_or_gt_of_ne hd with hn | hp
    · have : 0 < -d := by linarith
      rw [if_pos h, if_pos h, if_pos this, if_neg (not_lt.mpr hn.le)]; ring
    · have : ¬ (0 < -d) := by linarith
      rw [if_pos h, if_pos h, if_neg this, if_pos hp]; ring
  · simp [h]

/-- The right-ascension difference the source forms (either of its two exact orders of subtraction). -/
def modelDa (α1 α2 : ℝ) : ℝ :=
  if plt 180.0 (pabs (α1 - α2)) then
    (if ple (pabs α2) (pabs α1) then (α1 - (if plt 0.0 (α1 - α2) then 360.0 else -360.0)) - α2
     else α1 - (α2 + (if plt 0.0 (α1 - α2) then 360.0 else -360.0)))
  else α1 - α2

theorem modelDa_eq (α1 α2 : ℝ) : modelDa α1 α2 = redDiff (α1 - α2) := by
  unfold modelDa redDiff plt ple pabs
  by_cases h : (180 : ℝ) < |α1 - α2|
  · have h' : (180.0 : ℝ) < |α1 - α2| := by norm_num; exact h
    by_cases hp : (0 : ℝ) < α1 - α2
    · have hp' : (0.0 : ℝ) < α1 - α2 := by norm_num; linarith
      by_cases hm : |α2| ≤ |α1| <;> simp only [h, h', hp, hp', hm, decide_true, decide_false, if_true,
        Bool.false_eq_true, if_false] <;> norm_num <;> ring
    · have hp' : ¬ ((0.0 : ℝ) < α1 - α2) := by norm_num; linarith [not_lt.mp hp]
      by_cases hm : |α2| ≤ |α1| <;> simp only [h, h', hp, hp', hm, decide_true, decide_false, if_true,
        Bool.false_eq_true, if_false] <;> norm_num <;> ring
  · have h' : ¬ ((180.0 : ℝ) < |α1 - α2|) := by norm_num; exact not_lt.mp h
    simp only [h, h', decide_false, Bool.false_eq_true, if_false]

theorem rpa_eq (α1 δ1 α2 δ2 : ℝ) :
    relative_position_angle α1 δ1 α2 δ2 =
      a_of_rad (patan2 (cos (rad δ1) * sin (rad (modelDa α1 α2)))
        (sin (rad (δ1 - δ2)) + 2.0 * sin (rad δ2) * cos (rad δ1) * sin (rad (modelDa α1 α2) / 2.0)
          * sin (rad (modelDa α1 α2) / 2.0))) := rfl

/-- The `north` of the source, written without cancellation, is `cos δ2 sin δ1 - sin δ2 cos δ1 cos Δα`. -/
theorem north_eq (d1 d2 da : ℝ) :
    sin (d1 - d2) + 2.0 * sin d2 * cos d1 * sin (da / 2.0) * sin (da / 2.0)
      = cos d2 * sin d1 - sin d2 * cos d1 * cos da := by
  have e2 : (2.0 : ℝ) = 2 := by norm_num
  have hc : cos da = 1 - 2 * sin (da / 2) ^ 2 := by
    have := cos_two_mul (da / 2)
    rw [show 2 * (da / 2) = da by ring] at this
    rw [this]; linear_combination 2 * sin_sq_add_cos_sq (da / 2)
  rw [e2, sin_sub, hc]; ring

/-- `relative_position_angle` is the argument of (north component, east component) of body 1 in the
    tangent frame at body 2 — for every pair of directions (the fixed formula uses no `tan`). -/
theorem rpa_spec (α1 δ1 α2 δ2 : ℝ) :
    rad (relative_position_angle α1 δ1 α2 δ2)
      = Complex.arg ⟨dot (dir α1 δ1) (northV α2 δ2), dot (dir α1 δ1) (eastV α2)⟩ := by
  rw [rpa_eq, rad_a_of_rad_atan2, modelDa_eq]
  have hrd : rad (δ1 - δ2) = rad δ1 - rad δ2 := by unfold rad; ring
  have hra : rad (α1 - α2) = rad α1 - rad α2 := by unfold rad; ring
  rw [hrd, north_eq, sin_rad_redDiff, cos_rad_redDiff, hra]
  congr 1
  apply Complex.ext
  · simp only [dot, dir, northV, cos_sub]; ring
  · simp only [dot, dir, eastV, sin_sub]; ring

theorem rpa_range (α1 δ1 α2 δ2 : ℝ) :
    -180 < relative_position_angle α1 δ1 α2 δ2 ∧ relative_position_angle α1 δ1 α2 δ2 ≤ 180 := by
  rw [rpa_eq]; exact a_of_rad_atan2_range _ _

/-- The sign of the position angle is the sign of `sin(α1 - α2)` (body 1 not beyond a pole: `cos δ1 > 0`). -/
theorem rpa_neg_iff (α1 δ1 α2 δ2 : ℝ) (h1 : -90 < δ1 ∧ δ1 < 90) :
    relative_position_angle α1 δ1 α2 δ2 < 0 ↔ sin (rad α1 - rad α2) < 0 := by
  have hc := cos_rad_pos h1
  have hra : rad (α1 - α2) = rad α1 - rad α2 := by unfold rad; ring
  rw [rpa_eq, a_of_rad_atan2]
  have hp : 0 < 180 / π := div_pos (by norm_num) pi_pos
  rw [mul_neg_iff]
  constructor
  · rintro (⟨_, h⟩ | ⟨h, _⟩)
    · linarith
    · have := Complex.arg_neg_iff.mp h
      simp only [modelDa_eq, sin_rad_redDiff, hra] at this
      by_contra hge
      nlinarith [mul_nonneg hc.le (not_lt.mp hge)]
  · intro h
    right
    refine ⟨Complex.arg_neg_iff.mpr ?_, hp⟩
    simp only [modelDa_eq, sin_rad_redDiff, hra]
    exact mul_neg_of_pos_of_neg hc h

theorem rpa_pos_of_sin_pos (α1 δ1 α2 δ2 : ℝ) (h1 : -90 < δ1 ∧ δ1 < 90) (h : 0 < sin (rad α1 - rad α2)) :
    0 < relative_position_angle α1 δ1 α2 δ2 := by
  have hc := cos_rad_pos h1
  have hra : rad (α1 - α2) = rad α1 - rad α2 := by unfold rad; ring
  rw [rpa_eq, a_of_rad_atan2]
  have hp : 0 < 180 / π := div_pos (by norm_num) pi_pos
  apply mul_pos _ hp
  set w : ℂ := ⟨sin (rad (δ1 - δ2)) + 2.0 * sin (rad δ2) * cos (rad δ1) * sin (rad (modelDa α1 α2) / 2.0)
          * sin (rad (modelDa α1 α2) / 2.0), cos (rad δ1) * sin (rad (modelDa α1 α2))⟩ with hw
  have him : 0 < w.im := by
    simp only [hw, modelDa_eq, sin_rad_redDiff, hra]; exact mul_pos hc h
  have h0 := Complex.arg_nonneg_iff.mpr him.le
  rcases h0.lt_or_eq with h' | h'
  · exact h'
  · have := (Complex.arg_eq_zero_iff.mp h'.symm).2
    linarith

/-- Exchanging the two right ascensions (a reflection) negates the position angle. -/
theorem rpa_mirror (α1 δ1 α2 δ2 : ℝ) (h1 : -90 < δ1 ∧ δ1 < 90) (h : sin (rad α1 - rad α2) ≠ 0) :
    relative_position_angle α2 δ1 α1 δ2 = -relative_position_angle α1 δ1 α2 δ2 := by
  have hc := cos_rad_pos h1
  have hra : rad (α1 - α2) = rad α1 - rad α2 := by unfold rad; ring
  rw [rpa_eq, rpa_eq, a_of_rad_atan2, a_of_rad_atan2, ← neg_mul]
  congr 1
  have hd : modelDa α2 α1 = -modelDa α1 α2 := by
    rw [modelDa_eq, modelDa_eq, ← redDiff_neg]; congr 1; ring
  have hs : sin (rad (modelDa α2 α1)) = -sin (rad (modelDa α1 α2)) := by rw [hd, rad_neg, sin_neg]
  have hh : sin (rad (modelDa α2 α1) / 2.0) = -sin (rad (modelDa α1 α2) / 2.0) := by
    rw [hd, rad_neg, neg_div, sin_neg]
  rw [hs, hh]
  set z : ℂ := ⟨sin (rad (δ1 - δ2)) + 2.0 * sin (rad δ2) * cos (rad δ1) * sin (rad (modelDa α1 α2) / 2.0)
          * sin (rad (modelDa α1 α2) / 2.0), cos (rad δ1) * sin (rad (modelDa α1 α2))⟩ with hz
  have hconj : (⟨sin (rad (δ1 - δ2)) + 2.0 * sin (rad δ2) * cos (rad δ1) * -sin (rad (modelDa α1 α2) / 2.0)
          * -sin (rad (modelDa α1 α2) / 2.0), cos (rad δ1) * -sin (rad (modelDa α1 α2))⟩ : ℂ) = (starRingEnd ℂ) z := by
    apply Complex.ext <;> simp [hz]
  rw [hconj, Complex.arg_conj]
  have hne : Complex.arg z ≠ π := by
    intro hpi
    have := (Complex.arg_eq_pi_iff.mp hpi).2
    simp only [hz, modelDa_eq, sin_rad_redDiff, hra] at this
    rcases mul_eq_zero.mp this with h0 | h0
    · exact hc.ne' h0
    · exact h h0
  simp [hne]

/-! ### the smallest enclosing circle -/

/-- Planar circumcircle algebra: for the longest side `a` of an acute triangle with sides `a ≥ b, c`,
    `a ≤ 2abc / sqrt(16 Area²) ≤ 2a/√3`. -/
theorem circum_bounds {a b c : ℝ} (hb : b ≤ a) (hc : c ≤ a) (hb0 : 0 ≤ b) (hc0 : 0 ≤ c)
    (hacute : a < √(b * b + c * c)) (htri : a < b + c) :
    0 < (a + b + c) * (a + b - c) * (b + c - a) * (a + c - b) ∧
    a ≤ 2 * a * b * c / √((a + b + c) * (a + b - c) * (b + c - a) * (a + c - b)) ∧
    2 * a * b * c / √((a + b + c) * (a + b - c) * (b + c - a) * (a + c - b)) ≤ 2 / √3 * a := by
  have ha0 : 0 ≤ a := le_trans hb0 hb
  have hsq : a ^ 2 < b * b + c * c := by
    have h0 : 0 ≤ b * b + c * c := by positivity
    have := Real.lt_sqrt ha0 |>.mp hacute
    linarith
  have hbpos : 0 < b := by
    rcases hb0.lt_or_eq with h | h
    · exact h
    · exfalso; rw [← h] at hsq; nlinarith
  have hcpos : 0 < c := by
    rcases hc0.lt_or_eq with h | h
    · exact h
    · exfalso; rw [← h] at hsq; nlinarith
  have hapos : 0 < a := lt_of_lt_of_le hbpos hb
  set P := (a + b + c) * (a + b - c) * (b + c - a) * (a + c - b) with hP
  have hPid : P = 4 * b ^ 2 * c ^ 2 - (b ^ 2 + c ^ 2 - a ^ 2) ^ 2 := by rw [hP]; ring
  set q := b ^ 2 + c ^ 2 - a ^ 2 with hq
  have hq0 : 0 < q := by rw [hq]; nlinarith
  have hqb : q ≤ c ^ 2 := by rw [hq]; nlinarith
  have hqc : q ≤ b ^ 2 := by rw [hq]; nlinarith
  have hqq : q ^ 2 ≤ b ^ 2 * c ^ 2 := by nlinarith [sq_nonneg b, sq_nonneg c]
  have hPpos : 0 < P := by rw [hPid]; nlinarith [sq_nonneg b, sq_nonneg c]
  have hsP : 0 < √P := sqrt_pos.mpr hPpos
  have h3 : 0 < √3 := sqrt_pos.mpr (by norm_num)
  refine ⟨hPpos, ?_, ?_⟩
  · rw [le_div_iff₀ hsP]
    have h1 : √P ≤ 2 * b * c := by
      rw [show 2 * b * c = √((2 * b * c) ^ 2) by rw [sqrt_sq (by positivity)]]
      apply sqrt_le_sqrt
      rw [hPid]; nlinarith [sq_nonneg q]
    nlinarith
  · rw [div_le_iff₀ hsP]
    have h1 : √3 * (b * c) ≤ √P := by
      rw [show √3 * (b * c) = √(3 * (b * c) ^ 2) by
        rw [sqrt_mul (by norm_num), sqrt_sq (by positivity)]]
      apply sqrt_le_sqrt
      rw [hPid]; nlinarith
    have : 2 / √3 * a * √P = 2 * a * (√P / √3) := by field_simp
    rw [this]
    have h2 : b * c ≤ √P / √3 := by
      rw [le_div_iff₀ h3]; linarith
    nlinarith


theorem two_div_sqrt_three_lt : 2 / √3 < (1.2 : ℝ) := by
  have h3 : 0 < √3 := sqrt_pos.mpr (by norm_num)
  rw [div_lt_iff₀ h3]
  have : (1.7 : ℝ) < √3 := by
    rw [show (1.7 : ℝ) = √(1.7 ^ 2) by rw [sqrt_sq (by norm_num)]]
    exact sqrt_lt_sqrt (by norm_num) (by norm_num)
  nlinarith

theorem one_le_two_div_sqrt_three : 1 ≤ 2 / √3 := by
  have h3 : 0 < √3 := sqrt_pos.mpr (by norm_num)
  rw [le_div_iff₀ h3]
  have : √3 ≤ 2 := by
    rw [show (2 : ℝ) = √(2 ^ 2) by rw [sqrt_sq (by norm_num)]]
    exact sqrt_le_sqrt (by norm_num)
  linarith

/-- The tail of `circle_diameter` once the three separations are ordered (`a` the largest). -/
theorem circle_core {a b c : ℝ} (hb : b ≤ a) (hc : c ≤ a) (hb0 : 0 ≤ b) (hc0 : 0 ≤ c) (ha : a ≤ 180)
    (htri : a < b + c) :
    ∃ D, (if ple (psqrt (b * b + c * c)) a then (pure (a_reduce a) : PyRes ℝ)
          else do
            let r ← m_sqrt ((a + b + c) * (a + b - c) * (b + c - a) * (a + c - b))
            let d ← m_div (2.0 * a * b * c) r
            pure (a_reduce d)) = .ok D ∧ a ≤ D ∧ D ≤ 2 / √3 * a := by
  have ha0 : 0 ≤ a := le_trans hb0 hb
  by_cases hbr : √(b * b + c * c) ≤ a
  · have : ple (psqrt (b * b + c * c)) a = true := by unfold ple psqrt; simpa using hbr
    rw [this]
    refine ⟨a_reduce a, rfl, ?_, ?_⟩
    · rw [a_reduce_of_lt (by rw [abs_of_nonneg ha0]; linarith)]
    · rw [a_reduce_of_lt (by rw [abs_of_nonneg ha0]; linarith)]
      have := one_le_two_div_sqrt_three
      nlinarith
  · have hf : ple (psqrt (b * b + c * c)) a = false := by unfold ple psqrt; simpa using hbr
    obtain ⟨hP, hlo, hhi⟩ := circum_bounds hb hc hb0 hc0 (not_le.mp hbr) htri
    have k1 := m_sqrt_ok hP.le
    have k2 : m_div (2.0 * a * b * c) (√((a + b + c) * (a + b - c) * (b + c - a) * (a + c - b)))
        = .ok (2.0 * a * b * c / √((a + b + c) * (a + b - c) * (b + c - a) * (a + c - b))) :=
      m_div_ok (sqrt_pos.mpr hP).ne'
    have e2 : (2.0 : ℝ) * a * b * c = 2 * a * b * c := by norm_num
    rw [hf]
    simp only [k1, k2, bind, Except.bind, pure, Except.pure, Bool.false_eq_true, if_false]
    refine ⟨_, rfl, ?_, ?_⟩
    · rw [e2, a_reduce_of_lt]
      · exact hlo
      · rw [abs_of_nonneg (le_trans ha0 hlo)]
        have := two_div_sqrt_three_lt
        nlinarith
    · rw [e2, a_reduce_of_lt]
      · exact hhi
      · rw [abs_of_nonneg (le_trans ha0 hlo)]
        have := two_div_sqrt_three_lt
        nlinarith

/-- `circle_diameter`: with `a` the largest of the three mutual separations and the strict triangle
    inequality between them, the result lies in `[a, 2a/√3]`. -/
theorem circle_diameter_spec (α1 δ1 α2 δ2 α3 δ3 s12 s13 s23 : ℝ)
    (h12 : angular_separation α1 δ1 α2 δ2 = .ok s12) (h13 : angular_separation α1 δ1 α3 δ3 = .ok s13)
    (h23 : angular_separation α2 δ2 α3 δ3 = .ok s23)
    (htri : 2 * max s12 (max s13 s23) < s12 + s13 + s23) :
    ∃ D, circle_diameter α1 δ1 α2 δ2 α3 δ3 = .ok D ∧
      max s12 (max s13 s23) ≤ D ∧ D ≤ 2 / √3 * max s12 (max s13 s23) := by
  obtain ⟨t12, e12, _, l12, u12⟩ := angular_separation_spec α1 δ1 α2 δ2
  obtain ⟨t13, e13, _, l13, u13⟩ := angular_separation_spec α1 δ1 α3 δ3
  obtain ⟨t23, e23, _, l23, u23⟩ := angular_separation_spec α2 δ2 α3 δ3
  rw [h12] at e12; rw [h13] at e13; rw [h23] at e23
  obtain rfl : s12 = t12 := by injection e12
  obtain rfl : s13 = t13 := by injection e13
  obtain rfl : s23 = t23 := by injection e23
  unfold circle_diameter
  simp only [h12, h13, h23, bind, Except.bind]
  by_cases c1 : s13 ≤ s12 ∧ s23 ≤ s12
  · have hsel : (!(plt s12 s13) && !(plt s12 s23)) = true := by
      unfold plt; simp [not_lt.mpr c1.1, not_lt.mpr c1.2]
    have hmax : max s12 (max s13 s23) = s12 := by
      rw [max_eq_left]; exact max_le c1.1 c1.2
    rw [hmax] at htri ⊢
    simp only [hsel, if_true]
    exact circle_core c1.1 c1.2 l13 l23 u12 (by linarith)
  · have hsel : (!(plt s12 s13) && !(plt s12 s23)) = false := by
      unfold plt
      rcases not_and_or.mp c1 with h | h
      · simp [not_le.mp h]
      · simp [not_le.mp h]
    by_cases c2 : s12 ≤ s13 ∧ s23 ≤ s13
    · have hsel2 : (!(plt s13 s12) && !(plt s13 s23)) = true := by
        unfold plt; simp [not_lt.mpr c2.1, not_lt.mpr c2.2]
      have hmax : max s12 (max s13 s23) = s13 := by
        rw [max_eq_right (le_trans c2.1 (le_max_left _ _)), max_eq_left c2.2]
      rw [hmax] at htri ⊢
      simp only [hsel, hsel2, if_true, Bool.false_eq_true, if_false]
      exact circle_core c2.1 c2.2 l12 l23 u13 (by linarith)
    · have hsel2 : (!(plt s13 s12) && !(plt s13 s23)) = false := by
        unfold plt
        rcases not_and_or.mp c2 with h | h
        · simp [not_le.mp h]
        · simp [not_le.mp h]
      have h23a : s12 ≤ s23 := by
        rcases not_and_or.mp c1 with h | h
        · rcases not_and_or.mp c2 with h' | h'
          · linarith [not_le.mp h, not_le.mp h']
          · linarith [not_le.mp h, not_le.mp h']
        · exact (not_le.mp h).le
      have h23b : s13 ≤ s23 := by
        rcases not_and_or.mp c2 with h | h
        · rcases not_and_or.mp c1 with h' | h'
          · linarith [not_le.mp h, not_le.mp h']
          · linarith [not_le.mp h, not_le.mp h']
        · exact (not_le.mp h).le
      have hmax : max s12 (max s13 s23) = s23 := by
        rw [max_eq_right h23b, max_eq_right h23a]
      rw [hmax] at htri ⊢
      simp only [hsel, hsel2, Bool.false_eq_true, if_false]
      exact circle_core h23a h23b l12 l13 u23 (by linarith)

/-! ### a direction determines its coordinates -/

/-- Two directions with the same unit vector have the same coordinates, when the latitudes are proper
    (one of them strictly inside (-90°, 90°)) and the longitudes are less than a turn apart. -/
theorem dir_inj {l1 b1 l2 b2 : ℝ} (hb1 : -90 < b1 ∧ b1 < 90) (hb2 : -90 ≤ b2 ∧ b2 ≤ 90)
    (hl : |l1 - l2| < 360) (h : dir l1 b1 = dir l2 b2) : l1 = l2 ∧ b1 = b2 := by
  have hp : 0 < π / 180 := by positivity
  unfold dir at h
  have h3 : sin (rad b1) = sin (rad b2) := congrArg (fun v : V3 => v.2.2) h
  have h1 : cos (rad b1) * cos (rad l1) = cos (rad b2) * cos (rad l2) := congrArg (fun v : V3 => v.1) h
  have h2 : cos (rad b1) * sin (rad l1) = cos (rad b2) * sin (rad l2) := congrArg (fun v : V3 => v.2.1) h
  have m1 : rad b1 ∈ Set.Icc (-(π / 2)) (π / 2) := by
    unfold rad; constructor <;> nlinarith [hb1.1, hb1.2, pi_pos]
  have m2 : rad b2 ∈ Set.Icc (-(π / 2)) (π / 2) := by
    unfold rad; constructor <;> nlinarith [hb2.1, hb2.2, pi_pos]
  have hb : rad b1 = rad b2 := injOn_sin m1 m2 h3
  have hbb : b1 = b2 := by unfold rad at hb; exact mul_right_cancel₀ hp.ne' hb
  have hc := cos_rad_pos hb1
  rw [← hb] at h1 h2
  have c1 : cos (rad l1) = cos (rad l2) := mul_left_cancel₀ hc.ne' h1
  have s1 : sin (rad l1) = sin (rad l2) := mul_left_cancel₀ hc.ne' h2
  have hcos : cos (rad l1 - rad l2) = 1 := by
    rw [cos_sub, c1, s1]; linear_combination sin_sq_add_cos_sq (rad l2)
  obtain ⟨n, hn⟩ := (cos_eq_one_iff _).mp hcos
  have hlt : |rad l1 - rad l2| < 2 * π := by
    have : rad l1 - rad l2 = (l1 - l2) * (π / 180) := by unfold rad; ring
    rw [this, abs_mul, abs_of_pos hp]
    calc |l1 - l2| * (π / 180) < 360 * (π / 180) := mul_lt_mul_of_pos_right hl hp
      _ = 2 * π := by ring
  have hn0 : n = 0 := by
    rw [← hn, abs_lt] at hlt
    have h2pi : 0 < 2 * π := by positivity
    have a1 : (-1 : ℝ) < n := by nlinarith [hlt.1]
    have a2 : (n : ℝ) < 1 := by nlinarith [hlt.2]
    have a1' : (-1 : ℤ) < n := by exact_mod_cast a1
    have a2' : n < (1 : ℤ) := by exact_mod_cast a2
    omega
  rw [hn0] at hn
  have : rad l1 = rad l2 := by simp at hn; linarith
  unfold rad at this
  exact ⟨mul_right_cancel₀ hp.ne' this, hbb⟩

/-! ### `straight_line`: which exception, and the ranges -/

theorem clamp_abs_le_one (q : ℝ) : |pmax2 (-1.0) (pmin2 1.0 q)| ≤ 1 := by
  unfold pmax2 pmin2 plt
  by_cases h1 : q < 1.0
  · by_cases h2 : (-1.0 : ℝ) < q
    · simp only [h1, h2, decide_true, if_true]
      rw [abs_le]; constructor <;> norm_num at h1 h2 ⊢ <;> linarith
    · simp only [h1, h2, decide_true, decide_false, if_true, Bool.false_eq_true, if_false]; norm_num
  · have h3 : (-1.0 : ℝ) < 1.0 := by norm_num
    simp only [h1, h3, decide_true, decide_false, if_true, Bool.false_eq_true, if_false]; norm_num

/-- The last statements of `straight_line` as a function of the two numerators and denominators. -/
def sl_tail (n1 d1 n2 d2 : ℝ) : PyRes (ℝ × ℝ) := do
  let q1 ← m_div n1 d1
  let psi ← m_acos (pmax2 (-1.0) (pmin2 1.0 q1))
  let q2 ← m_div n2 d2
  let omega ← m_asin (pmax2 (-1.0) (pmin2 1.0 q2))
  pure (a_of_rad psi, a_of_rad omega)

theorem straight_line_eq_tail (α1 δ1 α2 δ2 α3 δ3 : ℝ) :
    ∃ n1 d1 n2 d2, straight_line α1 δ1 α2 δ2 α3 δ3 = sl_tail n1 d1 n2 d2 := ⟨_, _, _, _, rfl⟩

theorem m_div_zero (x : ℝ) : m_div x 0 = .error .zeroDivisionError := by
  unfold m_div peq; norm_num

theorem sl_tail_total (n1 d1 n2 d2 : ℝ) :
    (∃ psi omega, sl_tail n1 d1 n2 d2 = .ok (psi, omega) ∧ (0 ≤ psi ∧ psi ≤ 180) ∧ (-90 ≤ omega ∧ omega ≤ 90)
        ∧ d1 ≠ 0 ∧ d2 ≠ 0) ∨
    (sl_tail n1 d1 n2 d2 = .error .zeroDivisionError ∧ (d1 = 0 ∨ d2 = 0)) := by
  unfold sl_tail
  by_cases h1 : d1 = 0
  · right; subst h1; refine ⟨?_, Or.inl rfl⟩; simp only [m_div_zero, bind, Except.bind]
  · by_cases h2 : d2 = 0
    · right; subst h2; refine ⟨?_, Or.inr rfl⟩
      simp only [m_div_ok h1, m_acos_ok (clamp_abs_le_one _), m_div_zero, bind, Except.bind]
    · left
      simp only [m_div_ok h1, m_div_ok h2, m_acos_ok (clamp_abs_le_one _), m_asin_ok (clamp_abs_le_one _), bind,
        Except.bind, pure, Except.pure]
      refine ⟨_, _, rfl, ?_, a_of_rad_arcsin_range _, h1, h2⟩
      have h0 := arccos_nonneg (pmax2 (-1.0) (pmin2 1.0 (n1 / d1)))
      have hpi := arccos_le_pi (pmax2 (-1.0) (pmin2 1.0 (n1 / d1)))
      have hab : |arccos (pmax2 (-1.0) (pmin2 1.0 (n1 / d1)))| < 2 * π := by
        rw [abs_lt]; constructor <;> linarith [pi_pos]
      apply a_of_rad_bounds hab <;> linarith [pi_pos]


/-! ### `circle_diameter` does not depend on the order of the three bodies -/

/-- the choice of the largest separation, as in the source -/
def circ_sel (d12 d13 d23 : ℝ) : ℝ × ℝ × ℝ :=
  if !(plt d12 d13) && !(plt d12 d23) then (d12, d13, d23)
  else if !(plt d13 d12) && !(plt d13 d23) then (d13, d12, d23)
  else (d23, d12, d13)

/-- the statements after the choice -/
def circ_tail (abc : ℝ × ℝ × ℝ) : PyRes ℝ :=
  if ple (psqrt (abc.2.1 * abc.2.1 + abc.2.2 * abc.2.2)) abc.1 then pure (a_reduce abc.1)
  else do
    let r ← m_sqrt ((abc.1 + abc.2.1 + abc.2.2) * (abc.1 + abc.2.1 - abc.2.2) * (abc.2.1 + abc.2.2 - abc.1)
              * (abc.1 + abc.2.2 - abc.2.1))
    let d ← m_div (2.0 * abc.1 * abc.2.1 * abc.2.2) r
    pure (a_reduce d)

theorem circle_diameter_eq (α1 δ1 α2 δ2 α3 δ3 : ℝ) :
    circle_diameter α1 δ1 α2 δ2 α3 δ3 = (do
      let d12 ← angular_separation α1 δ1 α2 δ2
      let d13 ← angular_separation α1 δ1 α3 δ3
      let d23 ← angular_separation α2 δ2 α3 δ3
      circ_tail (circ_sel d12 d13 d23)) := rfl

theorem circ_tail_swap (a b c : ℝ) : circ_tail (a, b, c) = circ_tail (a, c, b) := by
  unfold circ_tail
  simp only
  have e1 : c * c + b * b = b * b + c * c := by ring
  have e2 : (a + c + b) * (a + c - b) * (c + b - a) * (a + b - c)
      = (a + b + c) * (a + b - c) * (b + c - a) * (a + c - b) := by ring
  have e3 : (2.0 : ℝ) * a * c * b = 2.0 * a * b * c := by generalize (2.0 : ℝ) = t; ring
  rw [e1, e2, e3]

theorem circ_sel_swap23 (x y z : ℝ) : circ_tail (circ_sel x y z) = circ_tail (circ_sel x z y) := by
  unfold circ_sel plt
  by_cases c1 : ¬ (x < y) ∧ ¬ (x < z)
  · simp only [c1.1, c1.2, decide_false, Bool.not_false, Bool.and_self, if_true]
    exact circ_tail_swap x y z
  · by_cases c2 : ¬ (y < x) ∧ ¬ (y < z)
    · by_cases c3 : ¬ (z < x) ∧ ¬ (z < y)
      · have hzy : z = y := le_antisymm (not_lt.mp c2.2) (not_lt.mp c3.2)
        subst hzy
        rcases not_and_or.mp c1 with h | h <;> simp [not_not.mp h, c2.1]
      · rcases not_and_or.mp c1 with h | h <;> rcases not_and_or.mp c3 with h' | h' <;>
          simp [not_not.mp h, not_not.mp h', c2.1, c2.2]
    · -- z is the strict maximum
      have hzx : x < z := by
        rcases not_and_or.mp c1 with h | h
        · rcases not_and_or.mp c2 with h' | h'
          · exact absurd (not_not.mp h') (not_lt.mpr (not_not.mp h).le)
          · exact lt_trans (not_not.mp h) (not_not.mp h')
        · exact not_not.mp h
      have hzy : y < z := by
        rcases not_and_or.mp c2 with h' | h'
        · exact lt_trans (not_not.mp h') hzx
        · exact not_not.mp h'
      rcases not_and_or.mp c1 with h | h <;> rcases not_and_or.mp c2 with h' | h' <;>
        simp [hzx, hzy, not_lt.mpr hzx.le, not_lt.mpr hzy.le, not_not.mp h, not_not.mp h']


theorem circ_sel_swap12 (x y z : ℝ) : circ_tail (circ_sel x y z) = circ_tail (circ_sel y x z) := by
  unfold circ_sel plt
  by_cases c1 : ¬ (x < y) ∧ ¬ (x < z)
  · by_cases c0 : ¬ (y < x) ∧ ¬ (y < z)
    · have hxy : y = x := le_antisymm (not_lt.mp c1.1) (not_lt.mp c0.1)
      subst hxy
      simp [c1.2]
    · rcases not_and_or.mp c0 with h | h <;> simp [c1.1, c1.2, not_not.mp h]
  · by_cases c2 : ¬ (y < x) ∧ ¬ (y < z)
    · rcases not_and_or.mp c1 with h | h <;> simp [c2.1, c2.2, not_not.mp h]
    · have e : circ_tail (z, x, y) = circ_tail (z, y, x) := circ_tail_swap z x y
      rcases not_and_or.mp c1 with h | h <;> rcases not_and_or.mp c2 with h' | h' <;>
        simp [not_not.mp h, not_not.mp h', e]

theorem angular_separation_comm (α1 δ1 α2 δ2 : ℝ) :
    angular_separation α1 δ1 α2 δ2 = angular_separation α2 δ2 α1 δ1 := by
  obtain ⟨θ, h, hc, h0, h1⟩ := angular_separation_spec α1 δ1 α2 δ2
  obtain ⟨θ', h', hc', h0', h1'⟩ := angular_separation_spec α2 δ2 α1 δ1
  rw [h, h']
  congr 1
  apply deg_eq_of_cos_eq ⟨h0, h1⟩ ⟨h0', h1'⟩
  rw [hc, hc', dot_comm]

/-- exchanging bodies 2 and 3 -/
theorem circle_diameter_swap23 (α1 δ1 α2 δ2 α3 δ3 : ℝ) :
    circle_diameter α1 δ1 α2 δ2 α3 δ3 = circle_diameter α1 δ1 α3 δ3 α2 δ2 := by
  rw [circle_diameter_eq, circle_diameter_eq, angular_separation_comm α3 δ3 α2 δ2]
  obtain ⟨s12, h12, _⟩ := angular_separation_spec α1 δ1 α2 δ2
  obtain ⟨s13, h13, _⟩ := angular_separation_spec α1 δ1 α3 δ3
  obtain ⟨s23, h23, _⟩ := angular_separation_spec α2 δ2 α3 δ3
  simp only [h12, h13, h23, bind, Except.bind]
  exact circ_sel_swap12 s12 s13 s23

/-- exchanging bodies 1 and 2 -/
theorem circle_diameter_swap12 (α1 δ1 α2 δ2 α3 δ3 : ℝ) :
    circle_diameter α1 δ1 α2 δ2 α3 δ3 = circle_diameter α2 δ2 α1 δ1 α3 δ3 := by
  rw [circle_diameter_eq, circle_diameter_eq, angular_separation_comm α2 δ2 α1 δ1]
  obtain ⟨s12, h12, _⟩ := angular_separation_spec α1 δ1 α2 δ2
  obtain ⟨s13, h13, _⟩ := angular_separation_spec α1 δ1 α3 δ3
  obtain ⟨s23, h23, _⟩ := angular_separation_spec α2 δ2 α3 δ3
  simp only [h12, h13, h23, bind, Except.bind]
  exact circ_sel_swap23 s12 s13 s23

end Pymeeus.Refine.Coords
