import Pymeeus.Refine.SiderealIAU
/-
`mean_sidereal_time` from one UT day to the next: the 0h polynomial advances by 0.00273790935 turn per day up to
4.9e-9, so two instants in consecutive UT days still differ by 1.00273790935 x elapsed days modulo whole turns.
-/
namespace Pymeeus.Refine
open Pymeeus Pymeeus.PQ Pymeeus.GenQ Pymeeus.Spec

/-- the code's value as the fractional part of `theta0 + rate x fraction of the day`, up to the 1e-10-day 0h shortcut -/
theorem mst_as_fract (j : ℚ) :
    ∃ η : ℚ, 0 ≤ η ∧ η ≤ 1.1e-10 ∧ mean_sidereal_time j = Int.fract (theta0 (ut0 j) + ((j - ut0 j) * 1.00273790935 - η)) := by
  obtain ⟨hu1, hu2⟩ := ut0_le j
  have hd0 : 0 ≤ j - ut0 j := by linarith
  rw [mean_sidereal_time_eq]
  by_cases hc : |j - ut0 j| < 1e-10
  · refine ⟨(j - ut0 j) * 1.00273790935, mul_nonneg hd0 (by norm_num), ?_, by simp only [hc, if_true, sub_self, add_zero]⟩
    rw [abs_of_nonneg hd0] at hc
    norm_num at hc ⊢
    nlinarith
  · exact ⟨0, le_refl 0, by norm_num, by simp only [hc, if_false, sub_zero]⟩

theorem gmstS_day_step (T : ℚ) (hT : |T| ≤ 81) :
    |gmstS (T + 1 / 36525) / 86400 - gmstS T / 86400 - 1.00273790935 + 1| ≤ 4.9e-9 := by
  have e : gmstS (T + 1 / 36525) / 86400 - gmstS T / 86400 - 1.00273790935 + 1 =
      (16759652211719 : ℚ) / 21050112471750000000000000 + ((11335411969 : ℚ) / 192106890000000000000) * T
        + ((-31 : ℚ) / 5259600000000000) * T ^ 2 := by
    unfold gmstS; norm_num; ring
  rw [e]
  have h2 : |T ^ 2| ≤ 81 ^ 2 := by rw [abs_pow]; exact pow_le_pow_left₀ (abs_nonneg T) hT 2
  obtain ⟨a1, b1⟩ := abs_le.mp hT
  obtain ⟨a2, b2⟩ := abs_le.mp h2
  rw [abs_le]
  constructor <;> norm_num <;> linarith

/-- two instants in consecutive UT days -/
theorem gmst_rate_next_day (j1 j2 : ℚ) (h0 : 0 ≤ j1) (h1 : j2 ≤ 5400000) (hday : ⌊j2 - 1 / 2⌋ = ⌊j1 - 1 / 2⌋ + 1) :
    ∃ k : Int, |mean_sidereal_time j2 - mean_sidereal_time j1 - 1.00273790935 * (j2 - j1) - (k : ℚ)| ≤ 1e-8 := by
  obtain ⟨η1, p1, q1, m1⟩ := mst_as_fract j1
  obtain ⟨η2, p2, q2, m2⟩ := mst_as_fract j2
  have hu2 : ut0 j2 = ut0 j1 + 1 := by unfold ut0; rw [hday]; push_cast; ring
  obtain ⟨l1, l2⟩ := ut0_le j1
  obtain ⟨l3, l4⟩ := ut0_le j2
  have hT : |(ut0 j1 - 2451545) / 36525| ≤ 81 := by
    rw [abs_le]; constructor
    · rw [le_div_iff₀ (by norm_num)]; linarith
    · rw [div_le_iff₀ (by norm_num)]; linarith
  have hstep := gmstS_day_step _ hT
  have hT2 : (ut0 j2 - 2451545) / 36525 = (ut0 j1 - 2451545) / 36525 + 1 / 36525 := by rw [hu2]; ring
  rw [m1, m2, theta0_eq, theta0_eq, hT2]
  unfold Int.fract
  generalize (ut0 j1 - 2451545) / 36525 = T at *
  generalize ha1 : ⌊gmstS T / 86400⌋ = a1
  generalize ha2 : ⌊gmstS (T + 1 / 36525) / 86400⌋ = a2
  generalize hb1 : ⌊6 / 24 + 41 / 1440 + 50.54841 / 86400 + gmstS T / 86400 - (a1 : ℚ) + ((j1 - ut0 j1) * 1.00273790935 - η1)⌋ = b1
  generalize hb2 : ⌊6 / 24 + 41 / 1440 + 50.54841 / 86400 + gmstS (T + 1 / 36525) / 86400 - (a2 : ℚ) + ((j2 - ut0 j2) * 1.00273790935 - η2)⌋ = b2
  refine ⟨-a2 + a1 - b2 + b1 - 1, ?_⟩
  have key : (6 / 24 + 41 / 1440 + 50.54841 / 86400 + gmstS (T + 1 / 36525) / 86400 - (a2 : ℚ) + ((j2 - ut0 j2) * 1.00273790935 - η2) - (b2 : ℚ))
      - (6 / 24 + 41 / 1440 + 50.54841 / 86400 + gmstS T / 86400 - (a1 : ℚ) + ((j1 - ut0 j1) * 1.00273790935 - η1) - (b1 : ℚ))
      - 1.00273790935 * (j2 - j1) - ((-a2 + a1 - b2 + b1 - 1 : Int) : ℚ)
      = (gmstS (T + 1 / 36525) / 86400 - gmstS T / 86400 - 1.00273790935 + 1) + (η1 - η2) := by
    rw [hu2]; push_cast; ring
  rw [key]
  obtain ⟨s1, s2⟩ := abs_le.mp hstep
  rw [abs_le]
  norm_num at q1 q2 s1 s2 ⊢
  constructor <;> linarith

/-- two instants of the same UT day, whether or not one of them falls under the 1e-10-day "at 0h" shortcut -/
theorem gmst_rate_same_day (j1 j2 : ℚ) (hday : ⌊j2 - 1 / 2⌋ = ⌊j1 - 1 / 2⌋) :
    ∃ k : Int, |mean_sidereal_time j2 - mean_sidereal_time j1 - 1.00273790935 * (j2 - j1) - (k : ℚ)| ≤ 1.1e-10 := by
  obtain ⟨η1, p1, q1, m1⟩ := mst_as_fract j1
  obtain ⟨η2, p2, q2, m2⟩ := mst_as_fract j2
  have hu2 : ut0 j2 = ut0 j1 := by unfold ut0; rw [hday]
  rw [m1, m2, hu2]
  unfold Int.fract
  generalize hb1 : ⌊theta0 (ut0 j1) + ((j1 - ut0 j1) * 1.00273790935 - η1)⌋ = b1
  generalize hb2 : ⌊theta0 (ut0 j1) + ((j2 - ut0 j1) * 1.00273790935 - η2)⌋ = b2
  refine ⟨b1 - b2, ?_⟩
  have key : (theta0 (ut0 j1) + ((j2 - ut0 j1) * 1.00273790935 - η2) - (b2 : ℚ))
      - (theta0 (ut0 j1) + ((j1 - ut0 j1) * 1.00273790935 - η1) - (b1 : ℚ))
      - 1.00273790935 * (j2 - j1) - ((b1 - b2 : Int) : ℚ) = η1 - η2 := by
    push_cast; ring
  rw [key, abs_le]
  norm_num at q1 q2 ⊢
  constructor <;> linarith

end Pymeeus.Refine
