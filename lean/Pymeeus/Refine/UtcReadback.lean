import Pymeeus.Refine.LeapSeconds
import Pymeeus.Refine.YearOrder
/-
`get_date(utc=True)` of the exact model: the TT -> UTC offset it subtracts, and the read-back of an epoch
built with `utc=True`.
-/
namespace Pymeeus.Refine
open Pymeeus Pymeeus.PQ Pymeeus.GenQ Pymeeus.Spec

/-- TT - UTC in seconds for a civil (UTC) month -/
def ttMinusUtc (y m : Int) : ℚ := 32.184 + 10 + (iers y m : ℚ)

/-- the previous civil month -/
def prevYM (y m : Int) : Int × Int := (if m > 1 then y else y - 1, if m > 1 then m - 1 else 12)

theorem prevYM_month (y m : Int) (hm1 : 1 ≤ m) (hm12 : m ≤ 12) : 1 ≤ (prevYM y m).2 ∧ (prevYM y m).2 ≤ 12 := by
  unfold prevYM; split_ifs <;> constructor <;> simp <;> omega

/-- `deltasec` of `get_date(utc=True)` from the TT date: the offset of the TT month, unless the instant is in the
    first seconds of the month, which belong to the previous UTC month. -/
theorem get_date_deltasec_utc (y m : Int) (day : ℚ) (hy : 1972 ≤ y) (hm1 : 1 ≤ m) (hm12 : m ≤ 12) :
    get_date_deltasec y m day (some true) none =
      .ok (if day - ttMinusUtc (prevYM y m).1 (prevYM y m).2 / 86400 < 1 then ttMinusUtc (prevYM y m).1 (prevYM y m).2
           else ttMinusUtc y m) := by
  obtain ⟨hp1, hp12⟩ := prevYM_month y m hm1 hm12
  unfold get_date_deltasec
  have hy' : y ≥ 1972 := hy
  simp only [hy', if_true]
  rw [leap_seconds_eq_iers y m hm1 hm12]
  have hp : leap_seconds (if m > 1 then y else y - 1) (if m > 1 then m - 1 else 12)
      = .ok (iers (prevYM y m).1 (prevYM y m).2) := leap_seconds_eq_iers _ _ hp1 hp12
  simp only [hp]
  unfold plt ttMinusUtc ofInt
  have e : (day - ((0.0 : ℚ) + 32.184 + 10.0 + ((iers (prevYM y m).1 (prevYM y m).2 : Int) : ℚ)) / 86400.0 < 1.0) ↔
      (day - (32.184 + 10 + ((iers (prevYM y m).1 (prevYM y m).2 : Int) : ℚ)) / 86400 < 1) := by
    norm_num
  simp only [decide_eq_true_eq, e]
  by_cases hlt : day - (32.184 + 10 + ((iers (prevYM y m).1 (prevYM y m).2 : Int) : ℚ)) / 86400 < 1
  · simp only [hlt, and_true, if_true]
    by_cases hne : iers (prevYM y m).1 (prevYM y m).2 ≠ iers y m
    · simp only [hne, ne_eq, not_false_eq_true, if_true]; norm_num
    · have : iers (prevYM y m).1 (prevYM y m).2 = iers y m := not_not.mp hne
      simp only [this, ne_eq, not_true_eq_false, if_false]; norm_num
  · simp only [hlt, and_false, if_false]; norm_num


theorem ttMinusUtc_bounds (y m : Int) : 42 < ttMinusUtc y m ∧ ttMinusUtc y m < 70 := by
  unfold ttMinusUtc
  obtain ⟨a, b⟩ := iers_bounds y m
  have a' : (0 : ℚ) ≤ (iers y m : ℚ) := by exact_mod_cast a
  have b' : (iers y m : ℚ) ≤ 27 := by exact_mod_cast b
  constructor <;> norm_num <;> linarith

theorem ttMinusUtc_mono (y m y' m' : Int) (h : y < y' ∨ (y = y' ∧ m ≤ m')) : ttMinusUtc y m ≤ ttMinusUtc y' m' := by
  unfold ttMinusUtc
  have : (iers y m : ℚ) ≤ (iers y' m' : ℚ) := by exact_mod_cast iers_mono y m y' m' h
  linarith

theorem prevYM_le (y m : Int) : (prevYM y m).1 < y ∨ ((prevYM y m).1 = y ∧ (prevYM y m).2 ≤ m) := by
  unfold prevYM; split_ifs <;> simp

/-- the part of `get_date(utc=True)` after the offset is known -/
theorem get_date_kw_tail (Y M D : Int) (F Δ : ℚ) (h : Valid Y M D) (hY : Y ≤ 9999) (hF0 : 0 ≤ F) (hF1 : F < 1)
    (u : Option Bool) (l : Option ℚ)
    (hΔ : Δ ≠ 0) (hds : get_date_deltasec Y M ((D : ℚ) + F) u l = .ok Δ) :
    get_date_kw ((jdnI Y M D : ℚ) - 1 / 2 + F) u l =
      if (doyI Y M D : ℚ) + F - Δ / 86400 < 1 then
        doy2date (Y - 1) ((if Spec.leap (Y - 1) then 366 else 365) + ((doyI Y M D : ℚ) + F - Δ / 86400))
      else doy2date Y ((doyI Y M D : ℚ) + F - Δ / 86400) := by
  unfold get_date_kw
  rw [get_date_valid Y M D F h hF0 hF1]
  simp only [hds]
  have hne : peq Δ 0.0 = false := by unfold peq; rw [decide_eq_false_iff_not]; norm_num; exact hΔ
  simp only [hne, Bool.not_false, if_true, get_doy_int Y M D F h hY hF0 hF1]
  unfold plt
  have e : ((doyI Y M D : ℚ) + F - Δ / 86400.0 < 1.0) ↔ ((doyI Y M D : ℚ) + F - Δ / 86400 < 1) := by norm_num
  simp only [decide_eq_true_eq, e, is_leap_spec]
  by_cases c : (doyI Y M D : ℚ) + F - Δ / 86400 < 1
  · simp only [c, if_true]
    split_ifs <;> norm_num
  · simp only [c, if_false]
    norm_num


theorem dbm_succ (y m : Int) (hy : 1582 ≤ y) (hm1 : 1 ≤ m) (hm11 : m ≤ 11) :
    dt_days_before_month y (m + 1) = dt_days_before_month y m + monthLen y m := by
  unfold dt_days_before_month monthLen
  rw [calendar_isleap_spec y hy]
  interval_cases m <;> cases Spec.leap y <;> simp [days_before_month_tbl]

/-- Reading back, with `utc=True`, the epoch built from a civil (UTC) date-time with `utc=True` returns that
    date-time exactly (exact arithmetic), for every date from 1972-01-01 on, every time of day, including the last
    seconds before a leap second and the first seconds after it. -/
theorem readback_utc_core (y m d : Int) (f : ℚ) (h : Valid y m d) (hy1 : 1972 ≤ y) (hy2 : y ≤ 9998)
    (hf0 : 0 ≤ f) (hf1 : f < 1) :
    get_date_kw (compute_jde y m ((d : ℚ) + f) + ttMinusUtc y m / 86400) (some true) none = .ok (y, m, (d : ℚ) + f) := by
  obtain ⟨hΔ1, hΔ2⟩ := ttMinusUtc_bounds y m
  have hΔne : ttMinusUtc y m ≠ 0 := by linarith
  have hδ0 : 0 < ttMinusUtc y m / 86400 := by positivity
  have hδ1 : ttMinusUtc y m / 86400 < 1 := by rw [div_lt_one (by norm_num)]; linarith
  have c1582 : y > 1582 := by omega
  have hdoy : ∀ M D : Int, doyI y M D = dt_days_before_month y M + D := by
    intro M D; simp only [doyI, c1582, if_true]
  obtain ⟨hy0, hm1, hm12, hd1, hdl, hgap⟩ := id h
  have hdq1 : (1 : ℚ) ≤ (d : ℚ) := by exact_mod_cast hd1
  rw [compute_jde_frac y m d f hf0 hf1 h]
  by_cases hA : f + ttMinusUtc y m / 86400 < 1
  · -- the TT instant is on the same civil day
    have hF0 : 0 ≤ f + ttMinusUtc y m / 86400 := by linarith
    rw [show (jdnI y m d : ℚ) - 1 / 2 + f + ttMinusUtc y m / 86400 = (jdnI y m d : ℚ) - 1 / 2 + (f + ttMinusUtc y m / 86400) by ring]
    have hprev := ttMinusUtc_mono _ _ y m (prevYM_le y m)
    have hds : get_date_deltasec y m ((d : ℚ) + (f + ttMinusUtc y m / 86400)) (some true) none = .ok (ttMinusUtc y m) := by
      rw [get_date_deltasec_utc y m _ hy1 hm1 hm12]
      have : ¬ ((d : ℚ) + (f + ttMinusUtc y m / 86400) - ttMinusUtc (prevYM y m).1 (prevYM y m).2 / 86400 < 1) := by
        have : ttMinusUtc (prevYM y m).1 (prevYM y m).2 / 86400 ≤ ttMinusUtc y m / 86400 :=
          div_le_div_of_nonneg_right hprev (by norm_num)
        linarith
      simp only [this, if_false]
    rw [get_date_kw_tail y m d _ _ h (by omega) hF0 hA _ _ hΔne hds]
    have e : (doyI y m d : ℚ) + (f + ttMinusUtc y m / 86400) - ttMinusUtc y m / 86400 = (doyI y m d : ℚ) + f := by ring
    have hpos : (1 : ℚ) ≤ (doyI y m d : ℚ) := by exact_mod_cast doyI_pos y m d h
    rw [e, if_neg (by linarith)]
    exact doy2date_doyI y m d f h (by omega) hf0 hf1
  · -- the TT instant is on the next civil day
    have hF0 : 0 ≤ f + ttMinusUtc y m / 86400 - 1 := by linarith
    have hF1 : f + ttMinusUtc y m / 86400 - 1 < 1 := by linarith
    have hposd : (1 : ℚ) ≤ (doyI y m d : ℚ) := by exact_mod_cast doyI_pos y m d h
    by_cases hB1 : d < monthLen y m
    · -- same month
      have hv : Valid y m (d + 1) := ⟨hy0, hm1, hm12, by omega, by omega, by omega⟩
      have hj : jdnI y m (d + 1) = jdnI y m d + 1 := by
        have a := doyI_eq y m d h
        have b := doyI_eq y m (d + 1) hv
        rw [hdoy] at a b; omega
      rw [show (jdnI y m d : ℚ) - 1 / 2 + f + ttMinusUtc y m / 86400
          = ((jdnI y m (d + 1) : Int) : ℚ) - 1 / 2 + (f + ttMinusUtc y m / 86400 - 1) by rw [hj]; push_cast; ring]
      have hprev := ttMinusUtc_mono _ _ y m (prevYM_le y m)
      have hds : get_date_deltasec y m (((d + 1 : Int) : ℚ) + (f + ttMinusUtc y m / 86400 - 1)) (some true) none
          = .ok (ttMinusUtc y m) := by
        rw [get_date_deltasec_utc y m _ hy1 hm1 hm12]
        have : ¬ (((d + 1 : Int) : ℚ) + (f + ttMinusUtc y m / 86400 - 1) - ttMinusUtc (prevYM y m).1 (prevYM y m).2 / 86400 < 1) := by
          have : ttMinusUtc (prevYM y m).1 (prevYM y m).2 / 86400 ≤ ttMinusUtc y m / 86400 :=
            div_le_div_of_nonneg_right hprev (by norm_num)
          push_cast; linarith
        simp only [this, if_false]
      rw [get_date_kw_tail y m (d + 1) _ _ hv (by omega) hF0 hF1 _ _ hΔne hds]
      have e : (doyI y m (d + 1) : ℚ) + (f + ttMinusUtc y m / 86400 - 1) - ttMinusUtc y m / 86400 = (doyI y m d : ℚ) + f := by
        rw [hdoy, hdoy]; push_cast; ring
      rw [e, if_neg (by linarith)]
      exact doy2date_doyI y m d f h (by omega) hf0 hf1
    · have hdm : d = monthLen y m := by omega
      by_cases hB2 : m < 12
      · -- first day of the next month
        have hml := monthLen_ge y (m + 1)
        have hv : Valid y (m + 1) 1 := ⟨hy0, by omega, by omega, by omega, by omega, by omega⟩
        have hdd : doyI y (m + 1) 1 = doyI y m d + 1 := by
          rw [hdoy, hdoy, dbm_succ y m (by omega) hm1 (by omega), hdm]
        have hj : jdnI y (m + 1) 1 = jdnI y m d + 1 := by
          have a := doyI_eq y m d h
          have b := doyI_eq y (m + 1) 1 hv
          omega
        rw [show (jdnI y m d : ℚ) - 1 / 2 + f + ttMinusUtc y m / 86400
            = ((jdnI y (m + 1) 1 : Int) : ℚ) - 1 / 2 + (f + ttMinusUtc y m / 86400 - 1) by rw [hj]; push_cast; ring]
        have hp : prevYM y (m + 1) = (y, m) := by
          unfold prevYM; have : m + 1 > 1 := by omega
          simp [this]
        have hds : get_date_deltasec y (m + 1) (((1 : Int) : ℚ) + (f + ttMinusUtc y m / 86400 - 1)) (some true) none
            = .ok (ttMinusUtc y m) := by
          rw [get_date_deltasec_utc y (m + 1) _ hy1 (by omega) (by omega), hp]
          have : ((1 : Int) : ℚ) + (f + ttMinusUtc y m / 86400 - 1) - ttMinusUtc y m / 86400 < 1 := by push_cast; linarith
          simp only [this, if_true]
        rw [get_date_kw_tail y (m + 1) 1 _ _ hv (by omega) hF0 hF1 _ _ hΔne hds]
        have e : (doyI y (m + 1) 1 : ℚ) + (f + ttMinusUtc y m / 86400 - 1) - ttMinusUtc y m / 86400 = (doyI y m d : ℚ) + f := by
          rw [hdd]; push_cast; ring
        rw [e, if_neg (by linarith)]
        exact doy2date_doyI y m d f h (by omega) hf0 hf1
      · -- 1 January of the next year
        have hm : m = 12 := by omega
        subst hm
        have hd31 : d = 31 := by rw [hdm]; simp [monthLen]
        subst hd31
        have hv : Valid (y + 1) 1 1 := valid_jan1 (y + 1) (by omega)
        have hj : jdnI (y + 1) 1 1 = jdnI y 12 31 + 1 := by
          have a := jdnI_next_year y hy0
          have b := doyI_eq y 12 31 h
          rw [doyI_dec31] at b; omega
        rw [show (jdnI y 12 31 : ℚ) - 1 / 2 + f + ttMinusUtc y 12 / 86400
            = ((jdnI (y + 1) 1 1 : Int) : ℚ) - 1 / 2 + (f + ttMinusUtc y 12 / 86400 - 1) by rw [hj]; push_cast; ring]
        have hp : prevYM (y + 1) 1 = (y, 12) := by
          unfold prevYM; simp
        have hds : get_date_deltasec (y + 1) 1 (((1 : Int) : ℚ) + (f + ttMinusUtc y 12 / 86400 - 1)) (some true) none
            = .ok (ttMinusUtc y 12) := by
          rw [get_date_deltasec_utc (y + 1) 1 _ (by omega) (by omega) (by omega), hp]
          have : ((1 : Int) : ℚ) + (f + ttMinusUtc y 12 / 86400 - 1) - ttMinusUtc y 12 / 86400 < 1 := by push_cast; linarith
          simp only [this, if_true]
        rw [get_date_kw_tail (y + 1) 1 1 _ _ hv (by omega) hF0 hF1 _ _ hΔne hds]
        have hd1 : doyI (y + 1) 1 1 = 1 := by
          have : y + 1 > 1582 := by omega
          simp [doyI, this, dt_days_before_month, days_before_month_tbl]
        have e : (doyI (y + 1) 1 1 : ℚ) + (f + ttMinusUtc y 12 / 86400 - 1) - ttMinusUtc y 12 / 86400 = f := by
          rw [hd1]; push_cast; ring
        rw [e, if_pos hf1, show y + 1 - 1 = y by ring]
        have hyl : ((if Spec.leap y then 366 else 365 : ℚ)) = ((doyI y 12 31 : Int) : ℚ) := by
          rw [doyI_dec31]; unfold yearLen
          have : ¬ y = 1582 := by omega
          simp only [this, if_false]
          split_ifs <;> norm_num
        rw [hyl]
        exact doy2date_doyI y 12 31 f h (by omega) hf0 hf1

/-- `deltasec` of `get_date(leap_seconds=L)` for a non-zero `L`: 32.184 + 10 + L from 1972 on, whatever `utc` is -/
theorem get_date_deltasec_override (Y M : Int) (day L : ℚ) (u : Option Bool) (hY : 1972 ≤ Y) (hL : L ≠ 0) :
    get_date_deltasec Y M day u (some L) = .ok (32.184 + 10 + L) := by
  unfold get_date_deltasec
  have hY' : Y ≥ 1972 := hY
  have hL' : peq L 0.0 = false := by unfold peq; rw [decide_eq_false_iff_not]; norm_num; exact hL
  simp only [hL', hY', Bool.false_eq_true, if_false, Bool.not_false, if_true]
  norm_num

/-- Reading back with `leap_seconds=L` the epoch built with `leap_seconds=L` (offset `32.184 + 10 + L` seconds, positive
    and below one day) returns the civil date-time exactly, from 1972 on. -/
theorem readback_override_core (y m d : Int) (f L : ℚ) (u : Option Bool) (h : Valid y m d) (hy1 : 1972 ≤ y) (hy2 : y ≤ 9998)
    (hf0 : 0 ≤ f) (hf1 : f < 1) (hL : L ≠ 0) (hΔ1 : 0 < 32.184 + 10 + L) (hΔ2 : 32.184 + 10 + L < 86400) :
    get_date_kw (compute_jde y m ((d : ℚ) + f) + (32.184 + 10 + L) / 86400) u (some L) = .ok (y, m, (d : ℚ) + f) := by
  have hΔne : (32.184 + 10 + L : ℚ) ≠ 0 := by linarith
  have hδ0 : 0 < (32.184 + 10 + L) / 86400 := by positivity
  have hδ1 : (32.184 + 10 + L) / 86400 < 1 := by rw [div_lt_one (by norm_num)]; linarith
  have c1582 : y > 1582 := by omega
  have hdoy : ∀ M D : Int, doyI y M D = dt_days_before_month y M + D := by
    intro M D; simp only [doyI, c1582, if_true]
  obtain ⟨hy0, hm1, hm12, hd1, hdl, hgap⟩ := id h
  have hdq1 : (1 : ℚ) ≤ (d : ℚ) := by exact_mod_cast hd1
  rw [compute_jde_frac y m d f hf0 hf1 h]
  by_cases hA : f + (32.184 + 10 + L) / 86400 < 1
  · -- the TT instant is on the same civil day
    have hF0 : 0 ≤ f + (32.184 + 10 + L) / 86400 := by linarith
    rw [show (jdnI y m d : ℚ) - 1 / 2 + f + (32.184 + 10 + L) / 86400 = (jdnI y m d : ℚ) - 1 / 2 + (f + (32.184 + 10 + L) / 86400) by ring]
    have hds : get_date_deltasec y m ((d : ℚ) + (f + (32.184 + 10 + L) / 86400)) u (some L) = .ok ((32.184 + 10 + L)) := by
      exact get_date_deltasec_override _ _ _ _ u (by omega) hL
    rw [get_date_kw_tail y m d _ _ h (by omega) hF0 hA _ _ hΔne hds]
    have e : (doyI y m d : ℚ) + (f + (32.184 + 10 + L) / 86400) - (32.184 + 10 + L) / 86400 = (doyI y m d : ℚ) + f := by ring
    have hpos : (1 : ℚ) ≤ (doyI y m d : ℚ) := by exact_mod_cast doyI_pos y m d h
    rw [e, if_neg (by linarith)]
    exact doy2date_doyI y m d f h (by omega) hf0 hf1
  · -- the TT instant is on the next civil day
    have hF0 : 0 ≤ f + (32.184 + 10 + L) / 86400 - 1 := by linarith
    have hF1 : f + (32.184 + 10 + L) / 86400 - 1 < 1 := by linarith
    have hposd : (1 : ℚ) ≤ (doyI y m d : ℚ) := by exact_mod_cast doyI_pos y m d h
    by_cases hB1 : d < monthLen y m
    · -- same month
      have hv : Valid y m (d + 1) := ⟨hy0, hm1, hm12, by omega, by omega, by omega⟩
      have hj : jdnI y m (d + 1) = jdnI y m d + 1 := by
        have a := doyI_eq y m d h
        have b := doyI_eq y m (d + 1) hv
        rw [hdoy] at a b; omega
      rw [show (jdnI y m d : ℚ) - 1 / 2 + f + (32.184 + 10 + L) / 86400
          = ((jdnI y m (d + 1) : Int) : ℚ) - 1 / 2 + (f + (32.184 + 10 + L) / 86400 - 1) by rw [hj]; push_cast; ring]
      have hds : get_date_deltasec y m (((d + 1 : Int) : ℚ) + (f + (32.184 + 10 + L) / 86400 - 1)) u (some L)
          = .ok ((32.184 + 10 + L)) := by
        exact get_date_deltasec_override _ _ _ _ u (by omega) hL
      rw [get_date_kw_tail y m (d + 1) _ _ hv (by omega) hF0 hF1 _ _ hΔne hds]
      have e : (doyI y m (d + 1) : ℚ) + (f + (32.184 + 10 + L) / 86400 - 1) - (32.184 + 10 + L) / 86400 = (doyI y m d : ℚ) + f := by
        rw [hdoy, hdoy]; push_cast; ring
      rw [e, if_neg (by linarith)]
      exact doy2date_doyI y m d f h (by omega) hf0 hf1
    · have hdm : d = monthLen y m := by omega
      by_cases hB2 : m < 12
      · -- first day of the next month
        have hml := monthLen_ge y (m + 1)
        have hv : Valid y (m + 1) 1 := ⟨hy0, by omega, by omega, by omega, by omega, by omega⟩
        have hdd : doyI y (m + 1) 1 = doyI y m d + 1 := by
          rw [hdoy, hdoy, dbm_succ y m (by omega) hm1 (by omega), hdm]
        have hj : jdnI y (m + 1) 1 = jdnI y m d + 1 := by
          have a := doyI_eq y m d h
          have b := doyI_eq y (m + 1) 1 hv
          omega
        rw [show (jdnI y m d : ℚ) - 1 / 2 + f + (32.184 + 10 + L) / 86400
            = ((jdnI y (m + 1) 1 : Int) : ℚ) - 1 / 2 + (f + (32.184 + 10 + L) / 86400 - 1) by rw [hj]; push_cast; ring]
        have hds : get_date_deltasec y (m + 1) (((1 : Int) : ℚ) + (f + (32.184 + 10 + L) / 86400 - 1)) u (some L)
            = .ok ((32.184 + 10 + L)) := by
          exact get_date_deltasec_override _ _ _ _ u (by omega) hL
        rw [get_date_kw_tail y (m + 1) 1 _ _ hv (by omega) hF0 hF1 _ _ hΔne hds]
        have e : (doyI y (m + 1) 1 : ℚ) + (f + (32.184 + 10 + L) / 86400 - 1) - (32.184 + 10 + L) / 86400 = (doyI y m d : ℚ) + f := by
          rw [hdd]; push_cast; ring
        rw [e, if_neg (by linarith)]
        exact doy2date_doyI y m d f h (by omega) hf0 hf1
      · -- 1 January of the next year
        have hm : m = 12 := by omega
        subst hm
        have hd31 : d = 31 := by rw [hdm]; simp [monthLen]
        subst hd31
        have hv : Valid (y + 1) 1 1 := valid_jan1 (y + 1) (by omega)
        have hj : jdnI (y + 1) 1 1 = jdnI y 12 31 + 1 := by
          have a := jdnI_next_year y hy0
          have b := doyI_eq y 12 31 h
          rw [doyI_dec31] at b; omega
        rw [show (jdnI y 12 31 : ℚ) - 1 / 2 + f + (32.184 + 10 + L) / 86400
            = ((jdnI (y + 1) 1 1 : Int) : ℚ) - 1 / 2 + (f + (32.184 + 10 + L) / 86400 - 1) by rw [hj]; push_cast; ring]
        have hds : get_date_deltasec (y + 1) 1 (((1 : Int) : ℚ) + (f + (32.184 + 10 + L) / 86400 - 1)) u (some L)
            = .ok ((32.184 + 10 + L)) := by
          exact get_date_deltasec_override _ _ _ _ u (by omega) hL
        rw [get_date_kw_tail (y + 1) 1 1 _ _ hv (by omega) hF0 hF1 _ _ hΔne hds]
        have hd1 : doyI (y + 1) 1 1 = 1 := by
          have : y + 1 > 1582 := by omega
          simp [doyI, this, dt_days_before_month, days_before_month_tbl]
        have e : (doyI (y + 1) 1 1 : ℚ) + (f + (32.184 + 10 + L) / 86400 - 1) - (32.184 + 10 + L) / 86400 = f := by
          rw [hd1]; push_cast; ring
        rw [e, if_pos hf1, show y + 1 - 1 = y by ring]
        have hyl : ((if Spec.leap y then 366 else 365 : ℚ)) = ((doyI y 12 31 : Int) : ℚ) := by
          rw [doyI_dec31]; unfold yearLen
          have : ¬ y = 1582 := by omega
          simp only [this, if_false]
          split_ifs <;> norm_num
        rw [hyl]
        exact doy2date_doyI y 12 31 f h (by omega) hf0 hf1


/-- with `leap_seconds=0` nothing is subtracted: `get_date` is the plain read-back -/
theorem get_date_kw_override_zero (j : ℚ) (u : Option Bool) : get_date_kw j u (some 0) = get_date j := by
  unfold get_date_kw
  cases hg : get_date j with
  | error e => rfl
  | ok t =>
    obtain ⟨y, m, d⟩ := t
    have hz : peq (0 : ℚ) 0.0 = true := by decide +kernel
    simp [get_date_deltasec, hz, peq_zero]


end Pymeeus.Refine
