import Pymeeus.Refine.DoyInverse
/-
`get_date`, `compute_jde` and `year` of the exact model at an instant inside a civil day
(integer day number + fraction).
-/
namespace Pymeeus.Refine
open Pymeeus Pymeeus.PQ Pymeeus.GenQ Pymeeus.Spec

theorem pfloor_add_frac (d : Int) (f : ℚ) (hf0 : 0 ≤ f) (hf1 : f < 1) : pfloor ((d : ℚ) + f) = d := by
  rw [pfloor_eq_floor, floor_int_add_frac d f hf0 hf1]

/-- `compute_jde y m (d + f) = jdnI y m d - 1/2 + f` for a civil date `(y, m, d)` and a day fraction `f`
    (general form for any triple: `compute_jde_frac_gen`, with `jdnP`). -/
theorem compute_jde_frac (y m d : Int) (f : ℚ) (hf0 : 0 ≤ f) (hf1 : f < 1) (hv : Valid y m d) :
    compute_jde y m ((d : ℚ) + f) = (jdnI y m d : ℚ) - 1 / 2 + f :=
  compute_jde_frac_valid y m d f hv hf0 hf1

/-- `dateOf` with a day fraction -/
def dateOfF (t : Int × Int × Int) (f : ℚ) : PyRes (Int × Int × ℚ) :=
  let (e, c, day) := t
  if e < 14 ∨ e = 14 ∨ e = 15 then
    let month := if e < 14 then e - 1 else e - 13
    if month > 2 then .ok (c - 4716, month, (day : ℚ) + f)
    else if month = 1 ∨ month = 2 then .ok (c - 4715, month, (day : ℚ) + f)
    else .error .valueError
  else .error .valueError

theorem dateOfF_of_dateOf (t : Int × Int × Int) (f : ℚ) (y m d : Int) (h : dateOf t = .ok (y, m, (d : ℚ))) :
    dateOfF t f = .ok (y, m, (d : ℚ) + f) := by
  obtain ⟨e, c, day⟩ := t
  unfold dateOf at h
  unfold dateOfF
  simp only at h ⊢
  split_ifs at h ⊢ <;> simp_all

theorem get_date_frac (z : Int) (f : ℚ) (hf0 : 0 ≤ f) (hf1 : f < 1) :
    get_date ((z : ℚ) - 1 / 2 + f) = dateOfF (invI z) f := by
  have h1 : ((z : ℚ) - 1 / 2 + f + 0.5) = (z : ℚ) + f := by norm_num; ring
  unfold get_date
  simp only [h1, pfloor_add_frac z f hf0 hf1, pmod_add_frac z f hf0 hf1]
  simp only [floor_alpha, floor_a4, floor_c, floor_d, floor_e, floor_e2]
  simp only [invI, invA, dateOfF, ofInt]

/-- reading back an instant of a valid civil date returns that date and the same fraction -/
theorem get_date_valid (y m d : Int) (f : ℚ) (h : Valid y m d) (hf0 : 0 ≤ f) (hf1 : f < 1) :
    get_date ((jdnI y m d : ℚ) - 1 / 2 + f) = .ok (y, m, (d : ℚ) + f) := by
  rw [get_date_frac _ f hf0 hf1]
  exact dateOfF_of_dateOf _ f y m d (roundtrip_int y m d h)

/-- closed form of `Epoch.year()` at an instant of a valid civil date -/
theorem year_valid (y m d : Int) (f : ℚ) (h : Valid y m d) (hy : y ≤ 9999) (hf0 : 0 ≤ f) (hf1 : f < 1) :
    year ((jdnI y m d : ℚ) - 1 / 2 + f) =
      .ok ((y : ℚ) + (((jdnI y m d - jdnI y 1 1 : Int) : ℚ) + f) / (if Spec.leap y then 366 else 365)) := by
  unfold year
  rw [get_date_valid y m d f h hf0 hf1]
  simp only [get_doy_int y m d f h hy hf0 hf1, doyI_eq y m d h, is_leap_spec]
  split_ifs <;> norm_num [ofInt] <;> ring

end Pymeeus.Refine
