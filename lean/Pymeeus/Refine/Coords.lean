import Pymeeus.Gen.R.Coords
import Pymeeus.Lemmas.Sphere
/-
Refinement lemmas for the model of templates/Coords.lean over ℝ: the `Angle` helpers
(`a_reduce`, `a_of_rad`, `a_to_positive`, ...) and the partial `math` functions.
-/
noncomputable section
namespace Pymeeus.Refine.Coords
open Real Pymeeus Pymeeus.PR Pymeeus.GenR.Coords Pymeeus.Spec.Sphere

/-! ### partial functions -/

theorem m_asin_ok {x : ℝ} (h : |x| ≤ 1) : m_asin x = .ok (arcsin x) := by
  unfold m_asin plt pabs pasin
  have : ¬ ((1.0 : ℝ) < |x|) := by norm_num; exact h
  simp [this]

theorem m_acos_ok {x : ℝ} (h : |x| ≤ 1) : m_acos x = .ok (arccos x) := by
  unfold m_acos plt pabs pacos
  have : ¬ ((1.0 : ℝ) < |x|) := by norm_num; exact h
  simp [this]

theorem m_sqrt_ok {x : ℝ} (h : 0 ≤ x) : m_sqrt x = .ok (√x) := by
  unfold m_sqrt plt psqrt
  have : ¬ (x < (0.0 : ℝ)) := by norm_num; exact h
  simp [this]

theorem m_div_ok {x y : ℝ} (h : y ≠ 0) : m_div x y = .ok (x / y) := by
  unfold m_div peq
  have : ¬ (y = (0.0 : ℝ)) := by norm_num; exact h
  simp [this]

/-! ### `Angle.rad`, `Angle.reduce_deg` -/

theorem a_rad_eq (d : ℝ) : a_rad d = rad d := rfl

theorem a_reduce_of_lt {d : ℝ} (h : |d| < 360) : a_reduce d = d := by
  unfold a_reduce ple pabs
  have : ¬ ((360.0 : ℝ) ≤ |d|) := by norm_num; exact h
  simp [this]

/-- `reduce_deg` changes its argument by a whole number of turns. -/
theorem a_reduce_spec (d : ℝ) : ∃ k : ℤ, a_reduce d = d + 360 * k := by
  by_cases h : |d| < 360
  · exact ⟨0, by simp [a_reduce_of_lt h]⟩
  · have h360 : (360 : ℝ) ≤ |d| := not_lt.mp h
    have hge : (360.0 : ℝ) ≤ |d| := by norm_num; exact h360
    have hfl : (⌊|d|⌋ : ℤ).fmod 360 = ⌊|d|⌋ - 360 * (⌊|d|⌋ / 360) := by
      rw [Int.fmod_eq_emod_of_nonneg _ (by norm_num), Int.emod_def]
    by_cases hs : 0 ≤ d
    · refine ⟨-(⌊|d|⌋ / 360), ?_⟩
      have hs' : (0.0 : ℝ) ≤ d := by norm_num; exact hs
      unfold a_reduce ple pabs pmod imod ptrunc ofInt
      simp only [hge, hs', decide_true, if_true, abs_nonneg, hfl]
      rw [abs_of_nonneg hs]
      norm_num
      have := Int.self_sub_floor d
      linarith
    · refine ⟨(⌊|d|⌋ / 360), ?_⟩
      have hs' : ¬ ((0.0 : ℝ) ≤ d) := by norm_num; exact not_le.mp hs
      unfold a_reduce ple pabs pmod imod ptrunc ofInt
      simp only [hge, hs', decide_true, decide_false, if_true, abs_nonneg, hfl]
      rw [abs_of_neg (not_le.mp hs)]
      norm_num
      have := Int.self_sub_floor (-d)
      linarith


/-- The reduced angle is strictly inside one turn. -/
theorem abs_a_reduce_lt (d : ℝ) : |a_reduce d| < 360 := by
  by_cases h : |d| < 360
  · rwa [a_reduce_of_lt h]
  · have h360 : (360 : ℝ) ≤ |d| := not_lt.mp h
    have hge : (360.0 : ℝ) ≤ |d| := by norm_num; exact h360
    have hm0 : (0 : ℤ) ≤ (⌊|d|⌋ : ℤ).fmod 360 := by
      rw [Int.fmod_eq_emod_of_nonneg _ (by norm_num)]; exact Int.emod_nonneg _ (by norm_num)
    have hm1 : (⌊|d|⌋ : ℤ).fmod 360 ≤ 359 := by
      rw [Int.fmod_eq_emod_of_nonneg _ (by norm_num)]
      have := Int.emod_lt_of_pos ⌊|d|⌋ (show (0 : ℤ) < 360 by norm_num); omega
    have hm0' : (0 : ℝ) ≤ ((⌊|d|⌋ : ℤ).fmod 360 : ℤ) := by exact_mod_cast hm0
    have hm1' : (((⌊|d|⌋ : ℤ).fmod 360 : ℤ) : ℝ) ≤ 359 := by exact_mod_cast hm1
    have hf0 := Int.fract_nonneg |d|
    have hf1 := Int.fract_lt_one |d|
    have hfr : |d| - ((⌊|d|⌋ : ℤ) : ℝ) = Int.fract |d| := Int.self_sub_floor _
    by_cases hs : 0 ≤ d
    · have hs' : (0.0 : ℝ) ≤ d := by norm_num; exact hs
      unfold a_reduce ple pabs pmod imod ptrunc ofInt
      simp only [hge, hs', decide_true, if_true, abs_nonneg]
      norm_num
      rw [abs_lt]; constructor <;> linarith
    · have hs' : ¬ ((0.0 : ℝ) ≤ d) := by norm_num; exact not_le.mp hs
      unfold a_reduce ple pabs pmod imod ptrunc ofInt
      simp only [hge, hs', decide_true, decide_false, if_true, abs_nonneg]
      norm_num
      rw [abs_lt]; constructor <;> linarith

theorem rad_add_turns (d : ℝ) (k : ℤ) : rad (d + 360 * k) = rad d + k * (2 * π) := by
  unfold rad; ring

theorem cos_rad_reduce (d : ℝ) : cos (rad (a_reduce d)) = cos (rad d) := by
  obtain ⟨k, hk⟩ := a_reduce_spec d
  rw [hk, rad_add_turns, cos_add_int_mul_two_pi]

theorem sin_rad_reduce (d : ℝ) : sin (rad (a_reduce d)) = sin (rad d) := by
  obtain ⟨k, hk⟩ := a_reduce_spec d
  rw [hk, rad_add_turns, sin_add_int_mul_two_pi]

/-! ### `Angle(x, radians=True)` -/

theorem rad_pdegrees (x : ℝ) : rad (pdegrees x) = x := by
  unfold rad pdegrees; field_simp

theorem cos_rad_of_rad (x : ℝ) : cos (rad (a_of_rad x)) = cos x := by
  unfold a_of_rad; rw [cos_rad_reduce, rad_pdegrees]

theorem sin_rad_of_rad (x : ℝ) : sin (rad (a_of_rad x)) = sin x := by
  unfold a_of_rad; rw [sin_rad_reduce, rad_pdegrees]

/-- For a radian value inside one turn, `Angle(x, radians=True)` is `x` in degrees. -/
theorem a_of_rad_eq {x : ℝ} (h : |x| < 2 * π) : a_of_rad x = x * (180 / π) := by
  unfold a_of_rad pdegrees
  apply a_reduce_of_lt
  rw [abs_mul, abs_of_pos (div_pos (by norm_num) pi_pos)]
  have : |x| * (180 / π) < 2 * π * (180 / π) := by
    apply mul_lt_mul_of_pos_right h (div_pos (by norm_num) pi_pos)
  calc |x| * (180 / π) < 2 * π * (180 / π) := this
    _ = 360 := by field_simp; ring

theorem a_of_rad_bounds {x lo hi : ℝ} (h : |x| < 2 * π) (h1 : lo * (π / 180) ≤ x) (h2 : x ≤ hi * (π / 180)) :
    lo ≤ a_of_rad x ∧ a_of_rad x ≤ hi := by
  rw [a_of_rad_eq h]
  have hp : 0 < 180 / π := div_pos (by norm_num) pi_pos
  constructor
  · calc lo = lo * (π / 180) * (180 / π) := by field_simp
      _ ≤ x * (180 / π) := mul_le_mul_of_nonneg_right h1 hp.le
  · calc x * (180 / π) ≤ hi * (π / 180) * (180 / π) := mul_le_mul_of_nonneg_right h2 hp.le
      _ = hi := by field_simp

theorem a_of_rad_lt {x lo : ℝ} (h : |x| < 2 * π) (h1 : lo * (π / 180) < x) : lo < a_of_rad x := by
  rw [a_of_rad_eq h]
  have hp : 0 < 180 / π := div_pos (by norm_num) pi_pos
  calc lo = lo * (π / 180) * (180 / π) := by field_simp
    _ < x * (180 / π) := mul_lt_mul_of_pos_right h1 hp

/-- `atan2` lies in (-π, π]: the degree value in (-180, 180]. -/
theorem a_of_rad_atan2_range (y x : ℝ) : -180 < a_of_rad (patan2 y x) ∧ a_of_rad (patan2 y x) ≤ 180 := by
  have h1 := Complex.neg_pi_lt_arg ⟨x, y⟩
  have h2 := Complex.arg_le_pi ⟨x, y⟩
  have hab : |patan2 y x| < 2 * π := by
    unfold patan2; rw [abs_lt]; constructor <;> linarith [pi_pos]
  refine ⟨a_of_rad_lt hab ?_, (a_of_rad_bounds (lo := -360) hab ?_ ?_).2⟩
  · unfold patan2; linarith
  · unfold patan2; linarith [pi_pos]
  · unfold patan2; linarith

/-- `asin` lies in [-π/2, π/2]: the degree value in [-90, 90]. -/
theorem a_of_rad_arcsin_range (x : ℝ) : -90 ≤ a_of_rad (arcsin x) ∧ a_of_rad (arcsin x) ≤ 90 := by
  have h1 := neg_pi_div_two_le_arcsin x
  have h2 := arcsin_le_pi_div_two x
  have hab : |arcsin x| < 2 * π := by rw [abs_lt]; constructor <;> linarith [pi_pos]
  apply a_of_rad_bounds hab <;> linarith

/-! ### `Angle.to_positive` -/

theorem a_to_positive_eq (d : ℝ) : a_to_positive d = if d < 0 then 360 + d else d := by
  unfold a_to_positive plt ple pabs
  by_cases h : d < 0
  · have h' : d < (0.0 : ℝ) := by norm_num; exact h
    have h2 : ¬ ((360.0 : ℝ) ≤ 360.0 - |d|) := by
      norm_num; exact h.ne
    simp only [h', h2, decide_true, decide_false, if_true, h]
    rw [abs_of_neg h]; norm_num
  · have h' : ¬ (d < (0.0 : ℝ)) := by norm_num; exact not_lt.mp h
    simp [h', h]

theorem a_to_positive_range {d : ℝ} (h : |d| < 360) : 0 ≤ a_to_positive d ∧ a_to_positive d < 360 := by
  rw [a_to_positive_eq]
  have := abs_lt.mp h
  split_ifs with h0
  · constructor <;> linarith
  · constructor <;> linarith

theorem cos_rad_to_positive (d : ℝ) : cos (rad (a_to_positive d)) = cos (rad d) := by
  rw [a_to_positive_eq]
  split_ifs
  · have : rad (360 + d) = rad d + 2 * π := by unfold rad; ring
    rw [this, cos_add_two_pi]
  · rfl

theorem sin_rad_to_positive (d : ℝ) : sin (rad (a_to_positive d)) = sin (rad d) := by
  rw [a_to_positive_eq]
  split_ifs
  · have : rad (360 + d) = rad d + 2 * π := by unfold rad; ring
    rw [this, sin_add_two_pi]
  · rfl

/-! ### directions -/

theorem dir_to_positive (l b : ℝ) : dir (a_to_positive l) b = dir l b := by
  unfold dir; rw [cos_rad_to_positive, sin_rad_to_positive]

theorem dir_reduce (l b : ℝ) : dir (a_reduce l) b = dir l b := by
  unfold dir; rw [cos_rad_reduce, sin_rad_reduce]

theorem dir_of_rad (l b : ℝ) : dir (a_of_rad l) (a_of_rad b) = (cos b * cos l, cos b * sin l, sin b) := by
  unfold dir; rw [cos_rad_of_rad, sin_rad_of_rad, cos_rad_of_rad, sin_rad_of_rad]

/-- The common end of the six conversions: for a unit vector `(X, Y, Z)`, longitude
    `atan2(k Y, k X)` (`k > 0`) and latitude `asin Z`, as Angles, point at `(X, Y, Z)`. -/
theorem dir_atan2_asin {X Y Z k x y : ℝ} (hu : X ^ 2 + Y ^ 2 + Z ^ 2 = 1) (hk : 0 < k)
    (hx : x = k * X) (hy : y = k * Y) :
    dir (a_of_rad (patan2 y x)) (a_of_rad (arcsin Z)) = (X, Y, Z) := by
  rw [dir_of_rad]
  obtain ⟨h1, h2, h3⟩ := Lemmas.Sphere.unit_of_arg_arcsin hu hk
  unfold patan2
  rw [hx, hy, h1, h2, h3]


/-! ### unit vectors and the elementary rotations -/

theorem dir_unit (l b : ℝ) : (dir l b).1 ^ 2 + (dir l b).2.1 ^ 2 + (dir l b).2.2 ^ 2 = 1 := by
  unfold dir
  simp only
  linear_combination (cos (rad b)) ^ 2 * sin_sq_add_cos_sq (rad l) + sin_sq_add_cos_sq (rad b)

theorem sq_of_dot (v : V3) : v.1 ^ 2 + v.2.1 ^ 2 + v.2.2 ^ 2 = dot v v := by unfold dot; ring

theorem dot_comm (u v : V3) : dot u v = dot v u := by unfold dot; ring

theorem rotX_dot (a : ℝ) (u v : V3) : dot (rotX a u) (rotX a v) = dot u v := by
  unfold dot rotX
  simp only
  linear_combination (u.2.1 * v.2.1 + u.2.2 * v.2.2) * sin_sq_add_cos_sq a

theorem rotZ_dot (a : ℝ) (u v : V3) : dot (rotZ a u) (rotZ a v) = dot u v := by
  unfold dot rotZ
  simp only
  linear_combination (u.1 * v.1 + u.2.1 * v.2.1) * sin_sq_add_cos_sq a

theorem rotY_dot (a : ℝ) (u v : V3) : dot (rotY a u) (rotY a v) = dot u v := by
  unfold dot rotY
  simp only
  linear_combination (u.1 * v.1 + u.2.2 * v.2.2) * sin_sq_add_cos_sq a

theorem flipZ_dot (a : ℝ) (u v : V3) : dot (flipZ a u) (flipZ a v) = dot u v := by
  unfold dot flipZ
  simp only
  linear_combination (u.1 * v.1 + u.2.1 * v.2.1) * sin_sq_add_cos_sq a

theorem tilt_dot (a : ℝ) (u v : V3) : dot (tilt a u) (tilt a v) = dot u v := by
  unfold dot tilt
  simp only
  linear_combination (u.1 * v.1 + u.2.2 * v.2.2) * sin_sq_add_cos_sq a

theorem tiltT_dot (a : ℝ) (u v : V3) : dot (tiltT a u) (tiltT a v) = dot u v := by
  unfold dot tiltT
  simp only
  linear_combination (u.1 * v.1 + u.2.2 * v.2.2) * sin_sq_add_cos_sq a

theorem rotX_neg_rotX (a : ℝ) (v : V3) : rotX (-a) (rotX a v) = v := by
  unfold rotX
  simp only [cos_neg, sin_neg]
  ext
  · rfl
  · simp only; linear_combination v.2.1 * sin_sq_add_cos_sq a
  · simp only; linear_combination v.2.2 * sin_sq_add_cos_sq a

theorem rotX_rotX_neg (a : ℝ) (v : V3) : rotX a (rotX (-a) v) = v := by
  have := rotX_neg_rotX (-a) v
  rwa [neg_neg] at this

theorem tiltT_tilt (a : ℝ) (v : V3) : tiltT a (tilt a v) = v := by
  unfold tilt tiltT
  ext
  · simp only; linear_combination v.1 * sin_sq_add_cos_sq a
  · rfl
  · simp only; linear_combination v.2.2 * sin_sq_add_cos_sq a

theorem tilt_tiltT (a : ℝ) (v : V3) : tilt a (tiltT a v) = v := by
  unfold tilt tiltT
  ext
  · simp only; linear_combination v.1 * sin_sq_add_cos_sq a
  · rfl
  · simp only; linear_combination v.2.2 * sin_sq_add_cos_sq a

theorem galactic_dot (u v : V3) : dot (galacticOfEquatorial u) (galacticOfEquatorial v) = dot u v := by
  unfold galacticOfEquatorial; rw [flipZ_dot, tilt_dot, flipZ_dot]

theorem equatorialOfGalactic_dot (u v : V3) : dot (equatorialOfGalactic u) (equatorialOfGalactic v) = dot u v := by
  unfold equatorialOfGalactic; rw [rotZ_dot, tilt_dot, rotZ_dot]

theorem unit_of_dot_preserving {M : V3 → V3} (hM : ∀ u v, dot (M u) (M v) = dot u v) (l b : ℝ) :
    (M (dir l b)).1 ^ 2 + (M (dir l b)).2.1 ^ 2 + (M (dir l b)).2.2 ^ 2 = 1 := by
  rw [sq_of_dot, hM, ← sq_of_dot, dir_unit]

theorem cos_rad_pos {d : ℝ} (h : -90 < d ∧ d < 90) : 0 < cos (rad d) := by
  apply cos_pos_of_mem_Ioo
  unfold rad
  constructor <;> nlinarith [pi_pos]

theorem rad_add (a b : ℝ) : rad (a + b) = rad a + rad b := by unfold rad; ring

/-- `Angle(-x, radians=True) + c` points where the longitude `c - x` does. -/
theorem dir_flip (x b c : ℝ) :
    dir (a_add (a_of_rad (-x)) c) (a_of_rad b) = flipZ (rad c) (cos b * cos x, cos b * sin x, sin b) := by
  unfold a_add
  rw [dir_reduce]
  unfold dir flipZ
  rw [rad_add, cos_add, sin_add, cos_rad_of_rad, sin_rad_of_rad, cos_rad_of_rad, sin_rad_of_rad, cos_neg, sin_neg]
  ext <;> simp only <;> ring

/-- `Angle(y, radians=True) + c` points where the longitude `y + c` does. -/
theorem dir_shift (y b c : ℝ) :
    dir (a_add (a_of_rad y) c) (a_of_rad b) = rotZ (rad c) (cos b * cos y, cos b * sin y, sin b) := by
  unfold a_add
  rw [dir_reduce]
  unfold dir rotZ
  rw [rad_add, cos_add, sin_add, cos_rad_of_rad, sin_rad_of_rad, cos_rad_of_rad, sin_rad_of_rad]
  ext <;> simp only <;> ring

theorem abs_a_add_lt (x y : ℝ) : |a_add x y| < 360 := abs_a_reduce_lt _

/-! ### the six conversions: safety, rotation, ranges -/

/-- `atan2(z, ρ)` with `ρ ≥ 0` lies in [-π/2, π/2]: the degree value in [-90, 90]. -/
theorem a_of_rad_atan2_lat_range (z ρ : ℝ) (hρ : 0 ≤ ρ) :
    -90 ≤ a_of_rad (patan2 z ρ) ∧ a_of_rad (patan2 z ρ) ≤ 90 := by
  have h1 : -(π / 2) ≤ Complex.arg ⟨ρ, z⟩ := Complex.neg_pi_div_two_le_arg_iff.mpr (Or.inl hρ)
  have h2 : Complex.arg ⟨ρ, z⟩ ≤ π / 2 := Complex.arg_le_pi_div_two_iff.mpr (Or.inl hρ)
  have hab : |patan2 z ρ| < 2 * π := by
    unfold patan2; rw [abs_lt]; constructor <;> linarith [pi_pos]
  apply a_of_rad_bounds hab <;> unfold patan2 <;> linarith

/-- The common end of the six conversions (after the fix that takes the latitude from `atan2`): for a unit
    vector `(X, Y, Z)`, longitude `atan2(Y, X)` and latitude `atan2(Z, sqrt(X*X + Y*Y))`, as Angles, point
    at `(X, Y, Z)` — for EVERY unit vector, the poles included. -/
theorem dir_atan2_atan2 {X Y Z : ℝ} (hu : X ^ 2 + Y ^ 2 + Z ^ 2 = 1) :
    dir (a_of_rad (patan2 Y X)) (a_of_rad (patan2 Z (psqrt (X * X + Y * Y)))) = (X, Y, Z) := by
  rw [dir_of_rad]
  have hsq : X * X + Y * Y = X ^ 2 + Y ^ 2 := by ring
  unfold psqrt patan2
  rw [hsq]
  set ρ := √(X ^ 2 + Y ^ 2) with hρ
  have hρ2 : ρ ^ 2 = X ^ 2 + Y ^ 2 := sq_sqrt (by positivity)
  have hn : ‖(⟨ρ, Z⟩ : ℂ)‖ = 1 := by
    rw [Complex.norm_def, Complex.normSq_mk]
    rw [show ρ * ρ + Z * Z = 1 by nlinarith]; exact sqrt_one
  have hne : (⟨ρ, Z⟩ : ℂ) ≠ 0 := by
    intro h0; rw [h0, norm_zero] at hn; exact zero_ne_one hn
  have hc : cos (Complex.arg ⟨ρ, Z⟩) = ρ := by rw [Complex.cos_arg hne, hn]; simp
  have hs : sin (Complex.arg ⟨ρ, Z⟩) = Z := by rw [Complex.sin_arg, hn]; simp
  obtain ⟨h1, h2⟩ := Lemmas.Sphere.norm_mul_cos_sin_arg X Y
  rw [← hρ] at h1 h2
  rw [hc, hs, h1, h2]

theorem psqrt_nonneg (x : ℝ) : 0 ≤ psqrt x := by unfold psqrt; exact sqrt_nonneg _

theorem equatorial2ecliptical_spec (α δ ε : ℝ) :
    ∃ lon lat, equatorial2ecliptical α δ ε = .ok (lon, lat) ∧
      dir lon lat = rotX (rad ε) (dir α δ) ∧ (0 ≤ lon ∧ lon < 360) ∧ (-90 ≤ lat ∧ lat ≤ 90) := by
  set w := rotX (rad ε) (dir α δ) with hw
  have hu : w.1 ^ 2 + w.2.1 ^ 2 + w.2.2 ^ 2 = 1 := unit_of_dot_preserving (rotX_dot _) α δ
  have hx : pcos (a_rad δ) * pcos (a_rad α) = w.1 := by
    simp only [hw, rotX, dir, pcos, a_rad_eq]
  have hy : pcos (a_rad δ) * psin (a_rad α) * pcos (a_rad ε) + psin (a_rad δ) * psin (a_rad ε) = w.2.1 := by
    simp only [hw, rotX, dir, psin, pcos, a_rad_eq]
  have hz : psin (a_rad δ) * pcos (a_rad ε) - pcos (a_rad δ) * psin (a_rad ε) * psin (a_rad α) = w.2.2 := by
    simp only [hw, rotX, dir, psin, pcos, a_rad_eq]; ring
  unfold equatorial2ecliptical
  simp only [hx, hy, hz, pure, Except.pure]
  refine ⟨_, _, rfl, ?_, ?_, a_of_rad_atan2_lat_range _ _ (psqrt_nonneg _)⟩
  · rw [dir_to_positive]; exact dir_atan2_atan2 hu
  · apply a_to_positive_range
    have := a_of_rad_atan2_range w.2.1 w.1
    rw [abs_lt]; constructor <;> linarith [this.1, this.2]

theorem ecliptical2equatorial_spec (l b ε : ℝ) :
    ∃ ra dec, ecliptical2equatorial l b ε = .ok (ra, dec) ∧
      dir ra dec = rotX (-(rad ε)) (dir l b) ∧ (0 ≤ ra ∧ ra < 360) ∧ (-90 ≤ dec ∧ dec ≤ 90) := by
  set w := rotX (-(rad ε)) (dir l b) with hw
  have hu : w.1 ^ 2 + w.2.1 ^ 2 + w.2.2 ^ 2 = 1 := unit_of_dot_preserving (rotX_dot _) l b
  have hx : pcos (a_rad b) * pcos (a_rad l) = w.1 := by
    simp only [hw, rotX, dir, pcos, a_rad_eq]
  have hy : pcos (a_rad b) * psin (a_rad l) * pcos (a_rad ε) - psin (a_rad b) * psin (a_rad ε) = w.2.1 := by
    simp only [hw, rotX, dir, psin, pcos, a_rad_eq, cos_neg, sin_neg]; ring
  have hz : psin (a_rad b) * pcos (a_rad ε) + pcos (a_rad b) * psin (a_rad ε) * psin (a_rad l) = w.2.2 := by
    simp only [hw, rotX, dir, psin, pcos, a_rad_eq, cos_neg, sin_neg]; ring
  unfold ecliptical2equatorial
  simp only [hx, hy, hz, pure, Except.pure]
  refine ⟨_, _, rfl, ?_, ?_, a_of_rad_atan2_lat_range _ _ (psqrt_nonneg _)⟩
  · rw [dir_to_positive]; exact dir_atan2_atan2 hu
  · apply a_to_positive_range
    have := a_of_rad_atan2_range w.2.1 w.1
    rw [abs_lt]; constructor <;> linarith [this.1, this.2]

theorem equatorial2horizontal_spec (H δ φ : ℝ) :
    ∃ azi ele, equatorial2horizontal H δ φ = .ok (azi, ele) ∧
      dir azi ele = horizontalOfEquatorial (rad φ) (dir H δ) ∧ (-180 < azi ∧ azi ≤ 180) ∧ (-90 ≤ ele ∧ ele ≤ 90) := by
  set w := horizontalOfEquatorial (rad φ) (dir H δ) with hw
  have hu : w.1 ^ 2 + w.2.1 ^ 2 + w.2.2 ^ 2 = 1 := unit_of_dot_preserving (tilt_dot _) H δ
  have hx : pcos (a_rad δ) * pcos (a_rad H) * psin (a_rad φ) - psin (a_rad δ) * pcos (a_rad φ) = w.1 := by
    simp only [hw, horizontalOfEquatorial, tilt, dir, psin, pcos, a_rad_eq]
  have hy : pcos (a_rad δ) * psin (a_rad H) = w.2.1 := by
    simp only [hw, horizontalOfEquatorial, tilt, dir, psin, pcos, a_rad_eq]
  have hz : psin (a_rad φ) * psin (a_rad δ) + pcos (a_rad φ) * pcos (a_rad δ) * pcos (a_rad H) = w.2.2 := by
    simp only [hw, horizontalOfEquatorial, tilt, dir, psin, pcos, a_rad_eq]; ring
  unfold equatorial2horizontal
  simp only [hx, hy, hz, pure, Except.pure]
  exact ⟨_, _, rfl, dir_atan2_atan2 hu, a_of_rad_atan2_range _ _, a_of_rad_atan2_lat_range _ _ (psqrt_nonneg _)⟩

theorem horizontal2equatorial_spec (A h φ : ℝ) :
    ∃ H dec, horizontal2equatorial A h φ = .ok (H, dec) ∧
      dir H dec = equatorialOfHorizontal (rad φ) (dir A h) ∧ (-180 < H ∧ H ≤ 180) ∧ (-90 ≤ dec ∧ dec ≤ 90) := by
  set w := equatorialOfHorizontal (rad φ) (dir A h) with hw
  have hu : w.1 ^ 2 + w.2.1 ^ 2 + w.2.2 ^ 2 = 1 := unit_of_dot_preserving (tiltT_dot _) A h
  have hx : pcos (a_rad h) * pcos (a_rad A) * psin (a_rad φ) + psin (a_rad h) * pcos (a_rad φ) = w.1 := by
    simp only [hw, equatorialOfHorizontal, tiltT, dir, psin, pcos, a_rad_eq]
  have hy : pcos (a_rad h) * psin (a_rad A) = w.2.1 := by
    simp only [hw, equatorialOfHorizontal, tiltT, dir, psin, pcos, a_rad_eq]
  have hz : psin (a_rad φ) * psin (a_rad h) - pcos (a_rad φ) * pcos (a_rad h) * pcos (a_rad A) = w.2.2 := by
    simp only [hw, equatorialOfHorizontal, tiltT, dir, psin, pcos, a_rad_eq]; ring
  unfold horizontal2equatorial
  simp only [hx, hy, hz, pure, Except.pure]
  exact ⟨_, _, rfl, dir_atan2_atan2 hu, a_of_rad_atan2_range _ _, a_of_rad_atan2_lat_range _ _ (psqrt_nonneg _)⟩

theorem c_192 : a_rad (a_reduce 192.25) = rad 192.25 := by
  rw [a_rad_eq, a_reduce_of_lt]; rw [abs_lt]; constructor <;> norm_num
theorem c_27 : a_rad (a_reduce 27.4) = rad 27.4 := by
  rw [a_rad_eq, a_reduce_of_lt]; rw [abs_lt]; constructor <;> norm_num
theorem c_123 : a_rad (a_reduce 123.0) = rad 123 := by
  rw [a_rad_eq, a_reduce_of_lt]
  · congr 1; norm_num
  · rw [abs_lt]; constructor <;> norm_num

theorem equatorial2galactic_spec (α δ : ℝ) :
    ∃ lon lat, equatorial2galactic α δ = .ok (lon, lat) ∧
      dir lon lat = galacticOfEquatorial (dir α δ) ∧ (0 ≤ lon ∧ lon < 360) ∧ (-90 ≤ lat ∧ lat ≤ 90) := by
  set t := tilt (rad 27.4) (flipZ (rad 192.25) (dir α δ)) with ht
  have hu : t.1 ^ 2 + t.2.1 ^ 2 + t.2.2 ^ 2 = 1 :=
    unit_of_dot_preserving (M := fun v => tilt (rad 27.4) (flipZ (rad 192.25) v))
      (fun u v => by rw [tilt_dot, flipZ_dot]) α δ
  have hx : pcos (a_rad δ) * pcos (rad 192.25 - a_rad α) * psin (rad 27.4) - psin (a_rad δ) * pcos (rad 27.4) = t.1 := by
    simp only [ht, tilt, flipZ, dir, psin, pcos, a_rad_eq, cos_sub]; ring
  have hy : pcos (a_rad δ) * psin (rad 192.25 - a_rad α) = t.2.1 := by
    simp only [ht, tilt, flipZ, dir, psin, pcos, a_rad_eq, sin_sub]; ring
  have hz : psin (a_rad δ) * psin (rad 27.4) + pcos (a_rad δ) * pcos (rad 27.4) * pcos (rad 192.25 - a_rad α) = t.2.2 := by
    simp only [ht, tilt, flipZ, dir, psin, pcos, a_rad_eq, cos_sub]; ring
  unfold equatorial2galactic
  simp only [c_192, c_27, hx, hy, hz, pure, Except.pure]
  refine ⟨_, _, rfl, ?_, ?_, a_of_rad_atan2_lat_range _ _ (psqrt_nonneg _)⟩
  · rw [dir_to_positive, dir_flip]
    unfold galacticOfEquatorial
    rw [← ht]
    have h303 : rad (303.0 : ℝ) = rad 303 := by congr 1; norm_num
    rw [h303]
    congr 1
    have := dir_atan2_atan2 hu
    rw [dir_of_rad] at this
    exact this
  · apply a_to_positive_range; exact abs_a_add_lt _ _

theorem galactic2equatorial_spec (l b : ℝ) :
    ∃ ra dec, galactic2equatorial l b = .ok (ra, dec) ∧
      dir ra dec = equatorialOfGalactic (dir l b) ∧ (0 ≤ ra ∧ ra < 360) ∧ (-90 ≤ dec ∧ dec ≤ 90) := by
  set t := tilt (rad 27.4) (rotZ (-(rad 123)) (dir l b)) with ht
  have hu : t.1 ^ 2 + t.2.1 ^ 2 + t.2.2 ^ 2 = 1 :=
    unit_of_dot_preserving (M := fun v => tilt (rad 27.4) (rotZ (-(rad 123)) v))
      (fun u v => by rw [tilt_dot, rotZ_dot]) l b
  have hx : pcos (a_rad b) * pcos (a_rad l - rad 123) * psin (rad 27.4) - psin (a_rad b) * pcos (rad 27.4) = t.1 := by
    simp only [ht, tilt, rotZ, dir, psin, pcos, a_rad_eq, cos_sub, cos_neg, sin_neg]; ring
  have hy : pcos (a_rad b) * psin (a_rad l - rad 123) = t.2.1 := by
    simp only [ht, tilt, rotZ, dir, psin, pcos, a_rad_eq, sin_sub, cos_neg, sin_neg]; ring
  have hz : psin (a_rad b) * psin (rad 27.4) + pcos (a_rad b) * pcos (rad 27.4) * pcos (a_rad l - rad 123) = t.2.2 := by
    simp only [ht, tilt, rotZ, dir, psin, pcos, a_rad_eq, cos_sub, cos_neg, sin_neg]; ring
  unfold galactic2equatorial
  simp only [c_123, c_27, hx, hy, hz, pure, Except.pure]
  refine ⟨_, _, rfl, ?_, ?_, a_of_rad_atan2_lat_range _ _ (psqrt_nonneg _)⟩
  · rw [dir_to_positive, dir_shift]
    unfold equatorialOfGalactic
    rw [← ht]
    congr 1
    have := dir_atan2_atan2 hu
    rw [dir_of_rad] at this
    exact this
  · apply a_to_positive_range; exact abs_a_add_lt _ _

end Pymeeus.Refine.Coords
