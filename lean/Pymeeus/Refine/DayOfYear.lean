import Pymeeus.Refine.EpochCal
/-
Integer form of `Epoch.get_doy` on valid civil dates (fractional days allowed).
-/
namespace Pymeeus.Refine
open Pymeeus Pymeeus.PQ Pymeeus.GenQ Pymeeus.Spec

theorem floor_int_add_frac (d : Int) (f : ℚ) (hf0 : 0 ≤ f) (hf1 : f < 1) : ⌊(d : ℚ) + f⌋ = d := by
  rw [Int.floor_eq_iff]; constructor <;> linarith

theorem ptrunc_add_frac (d : Int) (f : ℚ) (hd : 0 ≤ d) (hf0 : 0 ≤ f) (hf1 : f < 1) : ptrunc ((d : ℚ) + f) = d := by
  unfold ptrunc
  have hdq : (0:ℚ) ≤ (d:ℚ) := by exact_mod_cast hd
  have : (0 : ℚ) ≤ (d : ℚ) + f := by linarith
  simp only [this, if_true, rat_floor_eq_floor, floor_int_add_frac d f hf0 hf1]

theorem pmod_add_frac (d : Int) (f : ℚ) (hf0 : 0 ≤ f) (hf1 : f < 1) : pmod ((d : ℚ) + f) 1.0 = f := by
  rw [pmod_one]; unfold Int.fract; rw [floor_int_add_frac d f hf0 hf1]; ring

theorem floor_275 (m : Int) : pfloor ((275.0 * ofInt m) / 9.0) = 275 * m / 9 := by
  unfold pfloor ofInt
  apply rat_floor_eq_div _ _ (by norm_num)
  norm_num

theorem floor_m9 (m : Int) : pfloor ((ofInt m + 9.0) / 12.0) = (m + 9) / 12 := by
  unfold pfloor ofInt
  apply rat_floor_eq_div _ _ (by norm_num)
  norm_num

theorem dt_days_in_month_eq (y m : Int) (hy : 1582 ≤ y) (hm1 : 1 ≤ m) (hm12 : m ≤ 12) :
    dt_days_in_month y m = monthLen y m := by
  unfold dt_days_in_month monthLen
  rw [calendar_isleap_spec y hy]
  interval_cases m <;> simp [maxdays]

/-- `get_doy` on a valid civil date with a fractional day: the integer day of year plus the fraction. -/
theorem get_doy_int (y m d : Int) (f : ℚ) (h : Valid y m d) (hy : y ≤ 9999) (hf0 : 0 ≤ f) (hf1 : f < 1) :
    get_doy y m ((d : ℚ) + f) = .ok ((doyI y m d : ℚ) + f) := by
  obtain ⟨hy0, hm1, hm12, hd1, hdl, hgap⟩ := h
  have hd31 : d ≤ 31 := by unfold monthLen at hdl; split_ifs at hdl <;> omega
  have hdq1 : (1 : ℚ) ≤ (d : ℚ) := by exact_mod_cast hd1
  have hdq31 : (d : ℚ) ≤ 31 := by exact_mod_cast hd31
  have g1 : plt ((d : ℚ) + f) 1.0 = false := by
    unfold plt; rw [decide_eq_false_iff_not]; norm_num; linarith
  have g2 : ple 32.0 ((d : ℚ) + f) = false := by
    unfold ple; rw [decide_eq_false_iff_not]; norm_num; linarith
  have g3 : decide (m < 1) = false := by simp; omega
  have g4 : decide (m > 12) = false := by simp; omega
  unfold get_doy
  simp only [g1, g2, g3, g4, Bool.or_false, Bool.false_eq_true, if_false,
    ptrunc_add_frac d f (by omega) hf0 hf1, pmod_add_frac d f hf0 hf1]
  by_cases c : y > 1582
  · have c2 : ¬ y > 2147483647 := by omega
    have v : dt_valid y m d = true := by
      unfold dt_valid
      rw [dt_days_in_month_eq y m (by omega) hm1 hm12]
      simp; omega
    simp only [c, c2, v, if_true, if_false, Bool.not_true, Bool.false_eq_true]
    norm_num [doyI, c, ofInt]
  · have hle : ¬ d > (if m = 2 then (if is_leap y then 29 else 28) else maxdays.getD (m - 1).toNat 0) := by
      rw [is_leap_spec]
      unfold monthLen at hdl
      interval_cases m <;> simp [maxdays] at hdl ⊢ <;> omega
    simp only [c, if_false, floor_275, floor_m9]
    rw [if_neg hle]
    simp only [is_leap_spec]
    unfold doyI
    simp only [c, if_false]
    split_ifs <;> norm_num [ofInt] <;> ring

end Pymeeus.Refine
