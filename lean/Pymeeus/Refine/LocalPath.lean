import Pymeeus.Refine.LeapSeconds
import Mathlib.Tactic.Ring
/-
The `local=` paths of the constructor and of `get_date`, with `Epoch.utc2local()` as a parameter `off`.
-/
namespace Pymeeus.Refine
open Pymeeus Pymeeus.PQ Pymeeus.GenQ Pymeeus.Spec

theorem compute_jde_local_false (y m : Int) (d l off : ℚ) (u : Bool) :
    compute_jde_local y m d u l false off = compute_jde_kw y m d u l := by
  unfold compute_jde_local compute_jde_kw
  simp

/-- without `local`, or with `local=False`, the constructor is the one modelled by `epoch_set_kw` -/
theorem epoch_set_local_absent (y m : Int) (d h mi s off : ℚ) (utc : Option Bool) (lsec : Option ℚ) :
    epoch_set_local y m d h mi s utc lsec none off = epoch_set_kw y m d h mi s utc lsec ∧
    epoch_set_local y m d h mi s utc lsec (some false) off = epoch_set_kw y m d h mi s utc lsec := by
  unfold epoch_set_local epoch_set_kw
  constructor <;>
  · cases check_values y (get_month_int m) d h mi s with
    | error e => rfl
    | ok t =>
      obtain ⟨year, month, day, hours, minutes, sec⟩ := t
      cases lsec <;> cases utc <;> simp only [compute_jde_local_false]

/-- `local=True` alone: the `utc=True` epoch shifted by `off` seconds -/
theorem compute_jde_local_true (y m : Int) (d off : ℚ) :
    compute_jde_local y m d false 0.0 true off =
      (match compute_jde_kw y m d true 0.0 with
       | .error e => .error e
       | .ok j => .ok (j + off / 86400)) := by
  unfold compute_jde_local compute_jde_kw
  simp only [peq_zero, Bool.not_false, Bool.and_self, if_true]
  by_cases hy : y ≥ 1972
  · simp only [hy, if_true]
    cases leap_seconds y m with
    | error e => rfl
    | ok ls => simp only [Except.ok.injEq]; norm_num; ring
  · simp only [hy, if_false, Except.ok.injEq]; norm_num

theorem epoch_set_local_true (y m : Int) (d h mi s off : ℚ) :
    epoch_set_local y m d h mi s none none (some true) off =
      (match epoch_set_kw y m d h mi s (some true) none with
       | .error e => .error e
       | .ok j => .ok (j + off / 86400)) := by
  unfold epoch_set_local epoch_set_kw
  cases check_values y (get_month_int m) d h mi s with
  | error e => rfl
  | ok t =>
    obtain ⟨year, month, day, hours, minutes, sec⟩ := t
    simp only [compute_jde_local_true]

theorem get_date_deltasec_local_none (y m : Int) (day off : ℚ) (utc : Option Bool) (lsec : Option ℚ) :
    get_date_deltasec_local y m day utc lsec none off = get_date_deltasec y m day utc lsec := by
  unfold get_date_deltasec_local get_date_deltasec
  simp

/-- in `get_date`, `local=<anything>` with offset 0 and no other kwarg is `utc=True` -/
theorem get_date_deltasec_local_zero (y m : Int) (day : ℚ) (b : Bool) :
    get_date_deltasec_local y m day none none (some b) 0 = get_date_deltasec y m day (some true) none := by
  unfold get_date_deltasec_local get_date_deltasec
  simp only [Option.isSome_some, if_true, peq_zero, Bool.not_false, Bool.and_self]
  norm_num

theorem get_date_local_none (j off : ℚ) (utc : Option Bool) (lsec : Option ℚ) :
    get_date_local j utc lsec none off = get_date_kw j utc lsec := by
  unfold get_date_local get_date_kw
  simp only [get_date_deltasec_local_none]

theorem get_date_local_zero (j : ℚ) (b : Bool) :
    get_date_local j none none (some b) 0 = get_date_kw j (some true) none := by
  unfold get_date_local get_date_kw
  simp only [get_date_deltasec_local_zero]

end Pymeeus.Refine
