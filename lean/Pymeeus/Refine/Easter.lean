import Pymeeus.Refine.EpochRelig
import Pymeeus.Refine.Calendar
import Pymeeus.Spec.Computus
/-
Easter: the integer form of the model (`easterI`, Refine/EpochRelig.lean) equals the tabular
Computus of Spec/Computus.lean for EVERY integer year; the weekday helper `relig_dow`; the day
number of "March n" of the spec is the model's day number `jdnI`.
-/
namespace Pymeeus.Refine
open Pymeeus Pymeeus.PQ Pymeeus.GenQ Pymeeus.Spec

theorem relig_dow_int (z : Int) : relig_dow ((z : ℚ) - 1 / 2) = (z + 1) % 7 := by
  unfold relig_dow
  have h1 : pfloor ((z : ℚ) - 1 / 2 - 0.5) = z - 1 := by
    rw [pfloor_div _ (z - 1) 1 (by norm_num) (by norm_num; ring)]; simp
  have h2 : ofInt (z - 1) + 2.0 = ((z + 1 : Int) : ℚ) := by norm_num [ofInt]; ring
  have h3 : (((z + 1 : Int) : ℚ) / ofInt 7).floor = (z + 1) / 7 :=
    rat_floor_eq_div (z + 1) 7 (by norm_num) (by norm_num [ofInt])
  rw [h1, h2]
  dsimp only
  unfold pmod
  rw [h3]
  have h4 : ((z + 1 : Int) : ℚ) - ofInt 7 * (((z + 1) / 7 : Int) : ℚ) = (((z + 1) % 7 : Int) : ℚ) := by
    rw [Int.emod_def]; norm_num [ofInt]
  rw [h4]
  exact pfloor_ofInt _

theorem march_jdn (y n : Int) : jdnI y 3 n = Computus.marchDayNumber y n := by
  have e1 : 1461 * (y + 4716) / 4 = 365 * (y + 4716) + (y + 4716) / 4 := by omega
  have e2 : (y + 4716) / 4 = y / 4 + 1179 := by omega
  have e3 : y / 100 / 4 = y / 400 := by omega
  unfold jdnI Computus.marchDayNumber
  simp only [show ¬ ((3 : Int) ≤ 2) by decide, if_false, isJulianI, e1, e2, e3]
  by_cases hy : y ≤ 1582
  · have : y < 1582 ∨ y = 1582 := by omega
    rcases this with h | h <;> simp [h, hy] <;> omega
  · have h' : ¬ y < 1582 := by omega
    have h'' : ¬ y = 1582 := by omega
    simp [h', h'', hy]; omega

theorem april_jdn (y n : Int) : jdnI y 4 (n - 31) = Computus.marchDayNumber y n := by
  have e1 : 1461 * (y + 4716) / 4 = 365 * (y + 4716) + (y + 4716) / 4 := by omega
  have e2 : (y + 4716) / 4 = y / 4 + 1179 := by omega
  have e3 : y / 100 / 4 = y / 400 := by omega
  unfold jdnI Computus.marchDayNumber
  simp only [show ¬ ((4 : Int) ≤ 2) by decide, if_false, isJulianI, e1, e2, e3]
  by_cases hy : y ≤ 1582
  · have : y < 1582 ∨ y = 1582 := by omega
    rcases this with h | h <;> simp [h, hy] <;> omega
  · have h' : ¬ y < 1582 := by omega
    have h'' : ¬ y = 1582 := by omega
    simp [h', h'', hy]; omega


theorem butcher_g (b : Int) : (b - (b + 8) / 25 + 1) / 3 = (8 * b + 13) / 25 := by omega
theorem y_div4 (y : Int) : y / 4 = 25 * (y / 100) + (y % 100) / 4 := by omega
theorem y_div400 (y : Int) : y / 400 = y / 100 / 4 := by omega
theorem lun_eq (b : Int) : (8 * (b + 1) + 5) / 25 = (8 * b + 13) / 25 := by omega

theorem greg_E0 (a b d g h E0 : Int) (hh : h = (19 * a + b - d - g + 15) % 30)
    (hE0 : E0 = (11 * (a + 1) + 20 + (g - 5) - (b - d - 12)) % 30) :
    E0 = if h ≤ 23 then 23 - h else 53 - h := by
  split_ifs <;> omega

theorem greg_n (a h E0 E n : Int) (h0 : 0 ≤ h) (h29 : h ≤ 29)
    (hE0 : E0 = if h ≤ 23 then 23 - h else 53 - h)
    (hE : E = if E0 = 24 ∨ (E0 = 25 ∧ a + 1 > 11) then E0 + 1 else E0)
    (hn : n = if 44 - E < 21 then 44 - E + 30 else 44 - E) :
    n = if h ≤ 27 then 21 + h else if h = 28 ∧ a ≤ 10 then 49 else if h = 28 then 48 else 49 := by
  split_ifs at hE hE0 hn ⊢ <;> omega

theorem greg_m (a h l m : Int) (ha0 : 0 ≤ a) (ha : a ≤ 18) (h0 : 0 ≤ h) (h29 : h ≤ 29) (l0 : 0 ≤ l) (l6 : l ≤ 6)
    (hm : m = (a + 11 * h + 22 * l) / 451) :
    m = if (h = 29 ∧ l = 6) ∨ (h = 28 ∧ l = 6 ∧ 11 ≤ a) then 1 else 0 := by
  split_ifs <;> omega

theorem greg_w (b c d e i k h l : Int) (hb : b = 4 * d + e) (hc : c = 4 * i + k)
    (hl : l = (32 + 2 * (e + i) - h - k) % 7) :
    (365 * (100 * b + c) + (25 * b + i) - b + d + (21 + h) + 1721119 + 1) % 7 = 6 - l := by
  subst hb hc
  omega

theorem greg_fin (T a h l m n wd : Int) (h0 : 0 ≤ h) (h29 : h ≤ 29) (l0 : 0 ≤ l) (l6 : l ≤ 6)
    (hn : n = if h ≤ 27 then 21 + h else if h = 28 ∧ a ≤ 10 then 49 else if h = 28 then 48 else 49)
    (hm : m = if (h = 29 ∧ l = 6) ∨ (h = 28 ∧ l = 6 ∧ 11 ≤ a) then 1 else 0)
    (hw : (T + (21 + h) + 1721119 + 1) % 7 = 6 - l)
    (hwd : wd = (T + n + 1721119 + 1) % 7) :
    h + l - 7 * m + 22 = n + (7 - wd) ∧ 22 ≤ n + (7 - wd) ∧ n + (7 - wd) ≤ 56 := by
  split_ifs at hn hm <;> omega


/-! the quantities of the Gregorian branch of `easterI` -/
def gH (y : Int) : Int := (19 * (y % 19) + y / 100 - y / 100 / 4 - (y / 100 - (y / 100 + 8) / 25 + 1) / 3 + 15) % 30
def gL (y : Int) : Int := (32 + 2 * (y / 100 % 4 + y % 100 / 4) - gH y - y % 100 % 4) % 7
def gM (y : Int) : Int := (y % 19 + 11 * gH y + 22 * gL y) / 451

def gE0 (y : Int) : Int :=
  (11 * (y % 19 + 1) + 20 + ((8 * (y / 100) + 13) / 25 - 5) - (y / 100 - y / 100 / 4 - 12)) % 30

theorem easterI_greg_eq (y : Int) (hy : 1583 ≤ y) :
    easterI y = ((gH y + gL y - 7 * gM y + 114) / 31, (gH y + gL y - 7 * gM y + 114) % 31 + 1) := by
  have h2 : y ≥ 1583 := hy
  unfold easterI gM gL gH
  simp only [h2, if_true]

theorem T_eq (y : Int) : 365 * y + y / 4 - y / 100 + y / 400
    = 365 * (100 * (y / 100) + y % 100) + (25 * (y / 100) + y % 100 / 4) - y / 100 + y / 100 / 4 := by omega

theorem easterI_greg (y : Int) (hy : 1583 ≤ y) :
    easterI y = Computus.easter y ∧ 22 ≤ Computus.easterMarchDay y ∧ Computus.easterMarchDay y ≤ 56 := by
  have h1 : ¬ y ≤ 1582 := by omega
  have hh0 : 0 ≤ gH y ∧ gH y ≤ 29 := by unfold gH; omega
  have hl0 : 0 ≤ gL y ∧ gL y ≤ 6 := by unfold gL; omega
  have ha0 : 0 ≤ y % 19 ∧ y % 19 ≤ 18 := by omega
  have hE0 := greg_E0 (y % 19) (y / 100) (y / 100 / 4) ((8 * (y / 100) + 13) / 25) (gH y) (gE0 y)
    (by unfold gH; rw [butcher_g]) rfl
  have hepact : Computus.epact y = if gE0 y = 24 ∨ (gE0 y = 25 ∧ y % 19 + 1 > 11) then gE0 y + 1 else gE0 y := by
    unfold Computus.epact Computus.goldenNumber Computus.lunarEquation Computus.solarEquation gE0
    rw [lun_eq, y_div400]
  have hn := greg_n (y % 19) (gH y) (gE0 y) (Computus.epact y) (Computus.paschalFullMoon y) hh0.1 hh0.2 hE0
    (by rw [hepact]) (by unfold Computus.paschalFullMoon; simp only [h1, if_false])
  have hm := greg_m (y % 19) (gH y) (gL y) (gM y) ha0.1 ha0.2 hh0.1 hh0.2 hl0.1 hl0.2 rfl
  have hw := greg_w (y / 100) (y % 100) (y / 100 / 4) (y / 100 % 4) (y % 100 / 4) (y % 100 % 4) (gH y) (gL y)
    (by omega) (by omega) rfl
  rw [← T_eq] at hw
  have hfin := greg_fin (365 * y + y / 4 - y / 100 + y / 400) (y % 19) (gH y) (gL y) (gM y)
    (Computus.paschalFullMoon y) (Computus.weekday (Computus.marchDayNumber y (Computus.paschalFullMoon y)))
    hh0.1 hh0.2 hl0.1 hl0.2 hn hm hw (by unfold Computus.weekday Computus.marchDayNumber; simp only [h1, if_false])
  have hN : Computus.easterMarchDay y = gH y + gL y - 7 * gM y + 22 := by
    unfold Computus.easterMarchDay; exact hfin.1.symm
  refine ⟨?_, by rw [hN]; omega, by rw [hN]; omega⟩
  rw [easterI_greg_eq y hy]
  unfold Computus.easter
  simp only [hN]
  generalize gH y + gL y - 7 * gM y = X at *
  split_ifs <;> (simp only [Prod.mk.injEq]; omega)


/-! ### Julian calendar -/
theorem jul_table (c : Int) (h0 : 0 ≤ c) (h18 : c ≤ 18) :
    Computus.julianTable.getD (c + 1 - 1).toNat 0 = 21 + (19 * c + 15) % 30 := by
  interval_cases c <;> decide

theorem jul_d28 (c : Int) (h0 : 0 ≤ c) (h18 : c ≤ 18) : (19 * c + 15) % 30 ≤ 28 := by
  interval_cases c <;> decide

theorem jul_w (y d e : Int) (he : e = (2 * (y % 4) + 4 * (y % 7) - d + 34) % 7) :
    (365 * y + y / 4 + (21 + d) + 1721117 + 1) % 7 = 6 - e := by
  omega

theorem easterI_jul (y : Int) (hy : y ≤ 1582) :
    easterI y = Computus.easter y ∧ 22 ≤ Computus.easterMarchDay y ∧ Computus.easterMarchDay y ≤ 56 := by
  have h2 : ¬ y ≥ 1583 := by omega
  have hc : 0 ≤ y % 19 ∧ y % 19 ≤ 18 := by omega
  have hn : Computus.paschalFullMoon y = 21 + (19 * (y % 19) + 15) % 30 := by
    unfold Computus.paschalFullMoon Computus.goldenNumber
    simp only [hy, if_true]
    exact jul_table _ hc.1 hc.2
  have hw := jul_w y ((19 * (y % 19) + 15) % 30) _ rfl
  have hN : Computus.easterMarchDay y
      = (19 * (y % 19) + 15) % 30 + (2 * (y % 4) + 4 * (y % 7) - (19 * (y % 19) + 15) % 30 + 34) % 7 + 22 := by
    unfold Computus.easterMarchDay Computus.weekday Computus.marchDayNumber
    simp only [hy, if_true, hn, hw]
    omega
  have hd28 : (19 * (y % 19) + 15) % 30 ≤ 28 := jul_d28 _ hc.1 hc.2
  have hd0 : 0 ≤ (19 * (y % 19) + 15) % 30 := by omega
  clear hn hw
  unfold Computus.easter easterI
  simp only [h2, if_false, hN]
  generalize (19 * (y % 19) + 15) % 30 = d at *
  have he : 0 ≤ (2 * (y % 4) + 4 * (y % 7) - d + 34) % 7 ∧ (2 * (y % 4) + 4 * (y % 7) - d + 34) % 7 ≤ 6 := by omega
  generalize (2 * (y % 4) + 4 * (y % 7) - d + 34) % 7 = e at *
  refine ⟨?_, by omega, by omega⟩
  split_ifs <;> (simp only [Prod.mk.injEq]; omega)


theorem easterI_computus (y : Int) :
    easterI y = Computus.easter y ∧ 22 ≤ Computus.easterMarchDay y ∧ Computus.easterMarchDay y ≤ 56 := by
  by_cases hy : y ≤ 1582
  · exact easterI_jul y hy
  · exact easterI_greg y (by omega)

/-- the spec's Easter day is a Sunday -/
theorem computus_sunday (y : Int) :
    Computus.weekday (Computus.marchDayNumber y (Computus.easterMarchDay y)) = 0 := by
  unfold Computus.easterMarchDay Computus.weekday Computus.marchDayNumber
  dsimp only
  generalize Computus.paschalFullMoon y = n
  split_ifs <;> omega

end Pymeeus.Refine
