import Pymeeus.Gen.R.EpochOps
import Pymeeus.Refine.Calendar
import Mathlib.Algebra.Order.Floor.Ring
/-
The constructor `Epoch(x)` of templates/EpochOps.lean over the REAL numbers: for every real `x ≥ 0`
it stores `x` (C02.set_jde_exact is the same statement for rational `x`).  Needed by C13, whose
finders return `Epoch(jde0 + corr)` with an irrational `corr`.

The real instantiation looks at `x` only through `⌊x + 1/2⌋` and the fractional part; every other
quantity is an integer.  So each floor of the real text is rewritten into the same integer division
as in Refine/EpochCore.lean, and the integer facts (`roundtrip_int`, `jdnP_valid`, `next_valid`, `consecutive_int`) of
the rational development (Refine/Calendar.lean) are reused unchanged.  (Refine/EpochOps.lean, where the rational
`set_jde_exact` lives, cannot be imported together with Refine/Instant.lean - both define `dateOfF` - so the two
facts about the day count needed here are re-derived from Refine/Calendar.lean.)
-/
namespace Pymeeus.Refine.EpochReal
open Pymeeus Pymeeus.PR Pymeeus.GenR Pymeeus.Spec Pymeeus.Refine

theorem real_floor_eq_div {q : ℝ} (n d : ℤ) (hd : 0 < d) (h : q * d = n) : ⌊q⌋ = n / d := by
  have hd' : (d : ℝ) ≠ 0 := by exact_mod_cast hd.ne'
  have hq : q = (((n : ℚ) / (d : ℚ) : ℚ) : ℝ) := by
    push_cast; rw [eq_div_iff hd']; exact h
  rw [hq, Rat.floor_cast]
  have hdq : (d : ℚ) ≠ 0 := by exact_mod_cast hd.ne'
  exact rat_floor_eq_div n d hd (by field_simp)

theorem floor_y100 (y : Int) : pfloor (ofInt y / 100.0) = y / 100 := by
  unfold pfloor ofInt
  apply real_floor_eq_div _ _ (by norm_num)
  norm_num

theorem floor_a4 (a : Int) : pfloor (ofInt a / 4.0) = a / 4 := by
  unfold pfloor ofInt
  apply real_floor_eq_div _ _ (by norm_num)
  norm_num

theorem floor_36525 (y : Int) : pfloor (365.25 * (ofInt y + 4716.0)) = (1461 * (y + 4716)) / 4 := by
  unfold pfloor ofInt
  apply real_floor_eq_div _ _ (by norm_num)
  norm_num; ring

theorem floor_306001 (m : Int) : pfloor (30.6001 * (ofInt m + 1.0)) = (306001 * (m + 1)) / 10000 := by
  unfold pfloor ofInt
  apply real_floor_eq_div _ _ (by norm_num)
  norm_num; ring

theorem floor_alpha (z : Int) : pfloor ((ofInt z - 1867216.25) / 36524.25) = (4 * z - 7468865) / 146097 := by
  unfold pfloor ofInt
  apply real_floor_eq_div _ _ (by norm_num)
  norm_num; ring

theorem floor_c (b : Int) : pfloor ((ofInt b - 122.1) / 365.25) = (20 * b - 2442) / 7305 := by
  unfold pfloor ofInt
  apply real_floor_eq_div _ _ (by norm_num)
  norm_num; ring

theorem floor_d (c : Int) : pfloor (365.25 * ofInt c) = (1461 * c) / 4 := by
  unfold pfloor ofInt
  apply real_floor_eq_div _ _ (by norm_num)
  norm_num; ring

theorem floor_e (x : Int) : pfloor (ofInt x / 30.6001) = (10000 * x) / 306001 := by
  unfold pfloor ofInt
  apply real_floor_eq_div _ _ (by norm_num)
  norm_num; ring

theorem floor_e2 (e : Int) : pfloor (30.6001 * ofInt e) = (306001 * e) / 10000 := by
  unfold pfloor ofInt
  apply real_floor_eq_div _ _ (by norm_num)
  norm_num; ring

theorem floor_add_frac (d : Int) (f : ℝ) (h0 : 0 ≤ f) (h1 : f < 1) : ⌊(d : ℝ) + f⌋ = d := by
  rw [Int.floor_eq_iff]; constructor <;> linarith

theorem pfloor_add_frac (d : Int) (f : ℝ) (h0 : 0 ≤ f) (h1 : f < 1) : pfloor ((d : ℝ) + f) = d :=
  floor_add_frac d f h0 h1

theorem pmod_add_frac (d : Int) (f : ℝ) (h0 : 0 ≤ f) (h1 : f < 1) : pmod ((d : ℝ) + f) 1.0 = f := by
  unfold pmod
  have : ((d : ℝ) + f) / 1.0 = (d : ℝ) + f := by norm_num
  rw [this, floor_add_frac d f h0 h1]; norm_num

theorem ptrunc_nonneg (x : ℝ) (h : 0 ≤ x) : ptrunc x = ⌊x⌋ := by
  unfold ptrunc; simp only [h, if_true]

theorem is_julian_int (y m d : Int) : is_julian y m (ofInt d) = isJulianI y m d := by
  unfold is_julian isJulianI plt ofInt
  have : ((d : ℝ) < 5.0) ↔ d < 5 := by
    rw [show (5.0 : ℝ) = ((5 : ℤ) : ℝ) by norm_num]; exact_mod_cast Iff.rfl
  simp only [this]

/-! ### `_compute_jde` -/

/-- the two values `_compute_jde` computes before its last test: `jde` and `b` -/
noncomputable def preGuard (y m : Int) (d : ℝ) : ℝ × ℝ :=
  let (y, m) := if m ≤ 2 then (y - 1, m + 12) else (y, m)
  let a : Int := pfloor (ofInt y / 100.0)
  let b : ℝ := if !(is_julian y m (ofInt (pfloor d))) then 2.0 - ofInt a + ofInt (pfloor (ofInt a / 4.0)) else 0.0
  (ofInt (pfloor (365.25 * (ofInt y + 4716.0)) + pfloor (30.6001 * (ofInt m + 1.0))) + d + b - 1524.5, b)

theorem compute_jde_guard (y m : Int) (d : ℝ) :
    compute_jde y m d = if (preGuard y m d).1 < 2299160.5 then (preGuard y m d).1 - (preGuard y m d).2
      else (preGuard y m d).1 := by
  unfold compute_jde preGuard plt
  by_cases hm : m ≤ 2 <;> simp only [hm, if_true, if_false, decide_eq_true_eq]

theorem preGuard_frac (y m d : Int) (f : ℝ) (hfl : pfloor ((d : ℝ) + f) = d) :
    preGuard y m ((d : ℝ) + f) = ((jdnI y m d : ℝ) - 1 / 2 + f, (corrI y m d : ℝ)) := by
  unfold preGuard jdnI corrI
  by_cases hm : m ≤ 2
  · simp only [hm, if_true, hfl, is_julian_int, floor_y100, floor_a4, floor_36525, floor_306001]
    cases isJulianI (y - 1) (m + 12) d <;> norm_num [ofInt] <;> ring
  · simp only [hm, if_false, hfl, is_julian_int, floor_y100, floor_a4, floor_36525, floor_306001]
    cases isJulianI y m d <;> norm_num [ofInt] <;> ring

theorem guard_iff (N : Int) (f : ℝ) (h0 : 0 ≤ f) (h1 : f < 1) :
    ((N : ℝ) - 1 / 2 + f < 2299160.5) ↔ N < 2299161 := by
  constructor
  · intro h
    have : (N : ℝ) < 2299161 := by norm_num at h ⊢; linarith
    exact_mod_cast this
  · intro h
    have : (N : ℝ) ≤ 2299160 := by exact_mod_cast (by omega : N ≤ 2299160)
    norm_num; linarith

/-- `_compute_jde` over ℝ at a civil date plus a day fraction. -/
theorem compute_jde_frac (y m d : Int) (f : ℝ) (h0 : 0 ≤ f) (h1 : f < 1) (hv : Valid y m d) :
    compute_jde y m ((d : ℝ) + f) = (jdnI y m d : ℝ) - 1 / 2 + f := by
  rw [compute_jde_guard, preGuard_frac y m d f (pfloor_add_frac d f h0 h1)]
  simp only [guard_iff _ f h0 h1]
  have hP := jdnP_valid y m d hv
  unfold jdnP at hP
  split_ifs with hlt
  · rw [if_pos hlt] at hP
    have : (corrI y m d : ℝ) = 0 := by
      have : corrI y m d = 0 := by omega
      exact_mod_cast this
    rw [this]; ring
  · rfl

/-! ### `get_date` -/

/-- what `get_date` returns from `(e, c, day)` and the day fraction `f` -/
noncomputable def dateOfF (t : Int × Int × Int) (f : ℝ) : PyRes (Int × Int × ℝ) :=
  let (e, c, day) := t
  if e < 14 ∨ e = 14 ∨ e = 15 then
    let month := if e < 14 then e - 1 else e - 13
    if month > 2 then .ok (c - 4716, month, (day : ℝ) + f)
    else if month = 1 ∨ month = 2 then .ok (c - 4715, month, (day : ℝ) + f)
    else .error .valueError
  else .error .valueError

theorem dateOfF_of_dateOf (t : Int × Int × Int) (f : ℝ) (y m d : Int) (h : dateOf t = .ok (y, m, (d : ℚ))) :
    dateOfF t f = .ok (y, m, (d : ℝ) + f) := by
  obtain ⟨e, c, day⟩ := t
  unfold dateOf at h
  unfold dateOfF
  simp only at h ⊢
  split_ifs at h ⊢ <;> simp_all

theorem get_date_frac (z : Int) (f : ℝ) (h0 : 0 ≤ f) (h1 : f < 1) :
    get_date ((z : ℝ) - 1 / 2 + f) = dateOfF (invI z) f := by
  have e1 : ((z : ℝ) - 1 / 2 + f + 0.5) = (z : ℝ) + f := by norm_num; ring
  unfold get_date
  simp only [e1, pfloor_add_frac z f h0 h1, pmod_add_frac z f h0 h1]
  simp only [floor_alpha, floor_a4, floor_c, floor_d, floor_e, floor_e2]
  simp only [invI, invA, dateOfF, ofInt]

theorem get_date_valid (y m d : Int) (f : ℝ) (h : Valid y m d) (h0 : 0 ≤ f) (h1 : f < 1) :
    get_date ((jdnI y m d : ℝ) - 1 / 2 + f) = .ok (y, m, (d : ℝ) + f) := by
  rw [get_date_frac _ f h0 h1]
  exact dateOfF_of_dateOf _ f y m d (roundtrip_int y m d h)

/-! ### `get_full_date`, `set` -/

theorem get_full_date_valid (y m d : Int) (f : ℝ) (h : Valid y m d) (h0 : 0 ≤ f) (h1 : f < 1) :
    get_full_date ((jdnI y m d : ℝ) - 1 / 2 + f) = .ok (y, m, d, ⌊f * 24⌋, ⌊(f * 24 - (⌊f * 24⌋ : ℤ)) * 60⌋,
      60 * ((f * 24 - (⌊f * 24⌋ : ℤ)) * 60 - (⌊(f * 24 - (⌊f * 24⌋ : ℤ)) * 60⌋ : ℤ))) := by
  have hd1 : 1 ≤ d := h.2.2.2.1
  have hd0 : (0 : ℝ) ≤ (d : ℝ) + f := by
    have : (1 : ℝ) ≤ (d : ℝ) := by exact_mod_cast hd1
    linarith
  have r0 : 0 ≤ f * 24 - (⌊f * 24⌋ : ℤ) := by linarith [Int.floor_le (f * 24)]
  unfold get_full_date
  rw [get_date_valid y m d f h h0 h1]
  simp only [pmod_add_frac d f h0 h1]
  rw [ptrunc_nonneg _ hd0, ptrunc_nonneg (f * 24.0) (by norm_num; linarith)]
  have e24 : f * 24.0 = f * 24 := by norm_num
  have e60 : ∀ x : ℝ, x * 60.0 = x * 60 := by intro x; norm_num
  rw [e24]
  rw [ptrunc_nonneg ((f * 24 - ofInt ⌊f * 24⌋) * 60.0) (by rw [e60]; unfold ofInt; linarith)]
  simp only [floor_add_frac d f h0 h1, e60, ofInt]
  norm_num

theorem set_fold_eq (y m d : Int) (h mi s : ℝ) (hv : Valid y m d)
    (f0 : 0 ≤ h / 24 + mi / 1440 + s / 86400) (f1 : h / 24 + mi / 1440 + s / 86400 < 1) :
    set_fold (y, m, (d : ℝ), h, mi, s) = { jde := (jdnI y m d : ℝ) - 1 / 2 + (h / 24 + mi / 1440 + s / 86400) } := by
  unfold set_fold compute_jde_tt
  have e : h / 24.0 + mi / 1440.0 + s / 86400.0 = h / 24 + mi / 1440 + s / 86400 := by norm_num
  simp only [e, compute_jde_frac y m d _ f0 f1 hv]
  congr 1
  norm_num

/-- every day number `n ≥ 0` (day 0 = 1 January -4712) is the day number of a date of the civil calendar -/
theorem exists_civil (n : ℕ) : ∃ y m d : Int, Valid y m d ∧ jdnI y m d = n := by
  induction n with
  | zero => exact ⟨-4712, 1, 1, by decide, by decide⟩
  | succ k ih =>
    obtain ⟨y, m, d, hv, hj⟩ := ih
    exact ⟨_, _, _, next_valid y m d hv, by rw [consecutive_int y m d hv, hj]; push_cast; ring⟩

/-- `Epoch(x)` stores `x`, for every real `x ≥ 0` (the detour through `get_full_date` and `_compute_jde` is the
    identity in exact arithmetic). -/
theorem set_jde_exact_real (x : ℝ) (hx : 0 ≤ x) : Epoch.init (.number x) = .ok { jde := x } := by
  have hz : 0 ≤ ⌊x + 1 / 2⌋ := Int.floor_nonneg.mpr (by linarith)
  set n : ℕ := ⌊x + 1 / 2⌋.toNat with hn
  set f : ℝ := Int.fract (x + 1 / 2) with hf
  have f0 : 0 ≤ f := Int.fract_nonneg _
  have f1 : f < 1 := Int.fract_lt_one _
  obtain ⟨y, m, d, hv, hj⟩ := exists_civil n
  have hx' : x = ((jdnI y m d : ℤ) : ℝ) - 1 / 2 + f := by
    rw [hj]
    have : ((n : ℤ) : ℝ) = ((⌊x + 1 / 2⌋ : ℤ) : ℝ) := by rw [hn, Int.toNat_of_nonneg hz]
    rw [this]
    have := Int.floor_add_fract (x + 1 / 2)
    rw [hf]; linarith
  have hsum : ∀ g : ℝ, ((⌊g * 24⌋ : ℤ) : ℝ) / 24 + ((⌊(g * 24 - (⌊g * 24⌋ : ℤ)) * 60⌋ : ℤ) : ℝ) / 1440
      + 60 * ((g * 24 - (⌊g * 24⌋ : ℤ)) * 60 - (⌊(g * 24 - (⌊g * 24⌋ : ℤ)) * 60⌋ : ℤ)) / 86400 = g := by
    intro g; ring
  unfold Epoch.init Epoch.set
  conv_lhs => rw [hx']
  simp only [get_full_date_valid _ _ _ f hv f0 f1, ofInt]
  rw [set_fold_eq _ _ _ _ _ _ hv (by rw [hsum]; exact f0) (by rw [hsum]; exact f1), hsum, ← hx']

end Pymeeus.Refine.EpochReal
