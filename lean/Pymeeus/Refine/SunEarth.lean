import Pymeeus.Refine.VsopDeriv
import Pymeeus.Gen.R.SunEarth
/-
Helper lemmas for C08: the reflection Earth → Sun over ℝ, norms of the rectangular coordinates,
the `Angle(23, 26, 21.448)` constant, amplitude bounds for the nutation series.
-/
noncomputable section
namespace Pymeeus.Refine.SunEarth
open Pymeeus Pymeeus.PR Pymeeus.GenR Pymeeus.GenR.Helio Pymeeus.Refine.Vsop

/-! ### ranges of the corrected positions (used by C07 and C08) -/

lemma angReduce_range (x : ℝ) : -360 < angReduce x ∧ angReduce x < 360 := abs_lt.mp (angReduce_abs x).1

lemma vsop_pos_range (jde : ℝ) (L B R : VsopTable) (lon lat r : ℝ)
    (h : vsop_pos jde L B R = .ok (lon, lat, r)) : 0 ≤ lon ∧ lon < 360 ∧ -360 < lat ∧ lat < 360 := by
  unfold vsop_pos at h
  split_ifs at h
  simp only [Except.ok.injEq, Prod.mk.injEq] at h
  obtain ⟨h1, h2, _⟩ := h
  have hl := angToPositive_range (angOfRad (vsop_coord L (vsop_t jde))) (angReduce_abs _).1
  have hb := angReduce_range (pdegrees (vsop_coord B (vsop_t jde)))
  rw [← h1, ← h2]
  exact ⟨hl.1, hl.2, hb.1, hb.2⟩

lemma geometric_range (jde : ℝ) (L B R : VsopTable) (f : Bool) (lon lat r : ℝ)
    (hg : geometric_vsop_pos jde L B R f = .ok (lon, lat, r)) :
    0 ≤ lon ∧ lon < 360 ∧ -360 < lat ∧ lat < 360 := by
  unfold geometric_vsop_pos at hg
  cases hv : vsop_pos jde L B R with
  | error e => simp [hv] at hg
  | ok p =>
    obtain ⟨l0, b0, r0⟩ := p
    have hr := vsop_pos_range jde L B R l0 b0 r0 hv
    cases f
    · simp only [hv, Bool.false_eq_true, if_false, Except.ok.injEq, Prod.mk.injEq] at hg
      obtain ⟨rfl, rfl, _⟩ := hg
      exact hr
    · simp only [hv, if_true, fk5_correction, Except.ok.injEq, Prod.mk.injEq] at hg
      obtain ⟨rfl, rfl, _⟩ := hg
      have hp := angToPositive_range _ (angReduce_abs (l0 + (fk5_deltas jde l0 b0).1)).1
      exact ⟨hp.1, hp.2, (angReduce_range _).1, (angReduce_range _).2⟩

lemma apparent_range (jde : ℝ) (L B R : VsopTable) (f : Bool) (lon lat r : ℝ)
    (h : apparent_vsop_pos jde L B R f = .ok (lon, lat, r)) :
    0 ≤ lon ∧ lon < 360 ∧ -360 < lat ∧ lat < 360 := by
  unfold apparent_vsop_pos at h
  cases hg : geometric_vsop_pos jde L B R true with
  | error e => simp [hg] at h
  | ok p =>
    obtain ⟨l0, b0, r0⟩ := p
    have hr := geometric_range jde L B R true l0 b0 r0 hg
    simp only [hg] at h
    split_ifs at h
    all_goals
      simp only [Except.ok.injEq, Prod.mk.injEq] at h
      obtain ⟨rfl, rfl, _⟩ := h
      exact ⟨(angToPositive_range (angAdd _ _) (angReduce_abs _).1).1,
        (angToPositive_range (angAdd _ _) (angReduce_abs _).1).2, hr.2.2.1, hr.2.2.2⟩

/-! ### reflection -/

lemma lit180 : (180.0 : ℝ) = 180 := by norm_num

/-- `Angle(x) + 180.0` for `x` in [0, 360): `x + 180` brought back into [0, 360) -/
lemma angAdd_180 (x : ℝ) (h0 : 0 ≤ x) (h1 : x < 360) :
    angAdd x 180.0 = if x < 180 then x + 180 else x - 180 := by
  unfold angAdd
  rw [lit180]
  by_cases hx : x < 180
  · rw [if_pos hx, angReduce_small _ (by rw [abs_lt]; constructor <;> linarith)]
  · rw [if_neg hx]
    have hx' : 180 ≤ x := not_lt.mp hx
    have habs : |x + 180| = x + 180 := abs_of_nonneg (by linarith)
    have hfl : ⌊(x + 180) / 360⌋ = 1 := by
      rw [Int.floor_eq_iff]; constructor <;> [skip; skip]
      · push_cast; rw [le_div_iff₀ (by norm_num)]; linarith
      · push_cast; rw [div_lt_iff₀ (by norm_num)]; linarith
    rw [angReduce_large _ (by rw [habs]; linarith), habs, hfl, if_pos (by linarith)]
    push_cast; ring

/-- the reflected position of a point with longitude and latitude in (−360, 360) -/
lemma reflect_eq (lon lat r : ℝ) (hl : |lon| < 360) (hb : |lat| < 360) :
    ∃ ls : ℝ, reflect (lon, lat, r) = (ls, -lat, r) ∧ 0 ≤ ls ∧ ls < 360 ∧ ∃ k : ℤ, ls = lon + 180 + 360 * k := by
  have hp := angToPositive_range lon hl
  have hneg : angNeg lat = -lat := by
    unfold angNeg; exact angReduce_small _ (by rwa [abs_neg])
  refine ⟨angAdd (angToPositive lon) 180.0, by simp [reflect, hneg], ?_⟩
  rw [angAdd_180 _ hp.1 hp.2]
  rcases angToPositive_congr lon hl with hc | hc
  · split_ifs with hlt
    · exact ⟨by linarith [hp.1], by linarith, 0, by rw [hc]; simp⟩
    · exact ⟨by linarith [not_lt.mp hlt], by linarith [hp.2], -1, by rw [hc]; push_cast; ring⟩
  · split_ifs with hlt
    · exact ⟨by linarith [hp.1], by linarith, 1, by rw [hc]; push_cast; ring⟩
    · exact ⟨by linarith [not_lt.mp hlt], by linarith [hp.2], 0, by rw [hc]; push_cast; ring⟩

/-! ### norms -/

/-- `r cos β cos λ, r cos β sin λ, r sin β` has norm `r` -/
lemma spherical_normSq (r b l : ℝ) :
    (r * Real.cos b * Real.cos l) ^ 2 + (r * Real.cos b * Real.sin l) ^ 2 + (r * Real.sin b) ^ 2 = r ^ 2 := by
  have h1 := Real.sin_sq_add_cos_sq b
  have h2 := Real.sin_sq_add_cos_sq l
  have : (r * Real.cos b * Real.cos l) ^ 2 + (r * Real.cos b * Real.sin l) ^ 2 + (r * Real.sin b) ^ 2
      = r ^ 2 * (Real.cos b ^ 2 * (Real.sin l ^ 2 + Real.cos l ^ 2) + Real.sin b ^ 2) := by ring
  rw [this, h2, mul_one, add_comm, h1, mul_one]

/-- rotation about the third axis preserves the norm -/
lemma rotZ_normSq (c s x y z : ℝ) (h : s ^ 2 + c ^ 2 = 1) :
    (c * x - s * y) ^ 2 + (s * x + c * y) ^ 2 + z ^ 2 = x ^ 2 + y ^ 2 + z ^ 2 := by
  have : (c * x - s * y) ^ 2 + (s * x + c * y) ^ 2 + z ^ 2 = (s ^ 2 + c ^ 2) * (x ^ 2 + y ^ 2) + z ^ 2 := by ring
  rw [this, h]; ring

/-- rotation about the second axis preserves the norm -/
lemma rotY_normSq (c s x y z : ℝ) (h : s ^ 2 + c ^ 2 = 1) :
    (c * x - s * z) ^ 2 + y ^ 2 + (s * x + c * z) ^ 2 = x ^ 2 + y ^ 2 + z ^ 2 := by
  have : (c * x - s * z) ^ 2 + y ^ 2 + (s * x + c * z) ^ 2 = (s ^ 2 + c ^ 2) * (x ^ 2 + z ^ 2) + y ^ 2 := by ring
  rw [this, h]; ring

/-- The matrix of `rectangular_coordinates_equinox` is `R3(−z) · R2(θ) · R3(−ζ)`: it preserves the norm,
    for all angles (orthogonality from `sin² + cos² = 1`). -/
lemma rotate_equinox_normSq (a v : ℝ × ℝ × ℝ) : Spec.normSq (rotate_equinox a v) = Spec.normSq v := by
  obtain ⟨zeta, z, theta⟩ := a
  obtain ⟨x0, y0, z0⟩ := v
  simp only [rotate_equinox, Spec.normSq, pcos, psin]
  -- step 1: rotation by ζ about the third axis
  set x1 := Real.cos zeta * x0 - Real.sin zeta * y0 with hx1
  set y1 := Real.sin zeta * x0 + Real.cos zeta * y0 with hy1
  -- step 2: rotation by θ about the second axis
  set x2 := Real.cos theta * x1 - Real.sin theta * z0 with hx2
  set z2 := Real.sin theta * x1 + Real.cos theta * z0 with hz2
  -- step 3: rotation by z about the third axis
  have e1 : (Real.cos zeta * Real.cos z * Real.cos theta - Real.sin zeta * Real.sin z) * x0
      + (-Real.cos zeta * Real.sin z - Real.sin zeta * Real.cos z * Real.cos theta) * y0
      + -Real.cos z * Real.sin theta * z0 = Real.cos z * x2 - Real.sin z * y1 := by
    simp only [hx2, hx1, hy1]; ring
  have e2 : (Real.sin zeta * Real.cos z + Real.cos zeta * Real.sin z * Real.cos theta) * x0
      + (Real.cos zeta * Real.cos z - Real.sin zeta * Real.sin z * Real.cos theta) * y0
      + -Real.sin z * Real.sin theta * z0 = Real.sin z * x2 + Real.cos z * y1 := by
    simp only [hx2, hx1, hy1]; ring
  have e3 : Real.cos zeta * Real.sin theta * x0 + -Real.sin zeta * Real.sin theta * y0 + Real.cos theta * z0 = z2 := by
    simp only [hz2, hx1]; ring
  rw [e1, e2, e3, rotZ_normSq _ _ _ _ _ (Real.sin_sq_add_cos_sq z)]
  have h2 := rotY_normSq (Real.cos theta) (Real.sin theta) x1 y1 z0 (Real.sin_sq_add_cos_sq theta)
  have h3 := rotZ_normSq (Real.cos zeta) (Real.sin zeta) x0 y0 z0 (Real.sin_sq_add_cos_sq zeta)
  linarith

/-- The decimal J2000 matrix changes the squared norm by less than `1e-9` of itself. -/
lemma rotate_j2000_normSq (v : ℝ × ℝ × ℝ) :
    |Spec.normSq (rotate_j2000 v) - Spec.normSq v| ≤ 0.000000001 * Spec.normSq v := by
  obtain ⟨x, y, z⟩ := v
  simp only [rotate_j2000, Spec.normSq]
  have hxy : |x * y| ≤ (x ^ 2 + y ^ 2) / 2 := by
    rw [abs_le]; constructor <;> nlinarith [sq_nonneg (x + y), sq_nonneg (x - y)]
  have hxz : |x * z| ≤ (x ^ 2 + z ^ 2) / 2 := by
    rw [abs_le]; constructor <;> nlinarith [sq_nonneg (x + z), sq_nonneg (x - z)]
  have hyz : |y * z| ≤ (y ^ 2 + z ^ 2) / 2 := by
    rw [abs_le]; constructor <;> nlinarith [sq_nonneg (y + z), sq_nonneg (y - z)]
  have hx2 := sq_nonneg x
  have hy2 := sq_nonneg y
  have hz2 := sq_nonneg z
  obtain ⟨a1, a2⟩ := abs_le.mp hxy
  obtain ⟨b1, b2⟩ := abs_le.mp hxz
  obtain ⟨c1, c2⟩ := abs_le.mp hyz
  rw [abs_le]
  constructor <;> nlinarith

/-! ### obliquity -/

lemma angDms_23_26 : angDms 23 26 21.448 = 23 + 26 / 60 + 21.448 / 3600 := by
  have h : Int.fmod 23 360 = 23 := by decide
  have e : angDms 23 26 21.448 = angReduce (23 + 26 / 60 + 21.448 / 3600) := by
    norm_num [angDms, plt, ple, pabs, imod, ofInt, ptrunc, pmod, abs_of_pos, h]
  rw [e]
  exact angReduce_small _ (by norm_num [abs_of_pos])

/-- the polynomial `delta` (arcseconds) of `mean_obliquity`, `u` in units of 10000 Julian years -/
def obliquityDelta (u : ℝ) : ℝ :=
  u * (-4680.93 + u * (-1.55 + u * (1999.25 + u * (-51.38 + u * (-249.67
    + u * (-39.05 + u * (7.12 + u * (27.87 + u * (5.79 + u * 2.45)))))))))

lemma pow_bounds (u : ℝ) (h : |u| ≤ 0.2) (k : ℕ) : -(0.2 : ℝ) ^ k ≤ u ^ k ∧ u ^ k ≤ (0.2 : ℝ) ^ k := by
  have : |u ^ k| ≤ (0.2 : ℝ) ^ k := by rw [abs_pow]; exact pow_le_pow_left₀ (abs_nonneg u) h k
  exact abs_le.mp this

/-- `mean_obliquity` in closed form for |u| ≤ 0.2 (20 centuries around J2000.0) -/
lemma mean_obliquity_eq (jde : ℝ) (h : |(jde - 2451545) / 3652500| ≤ 0.2) :
    mean_obliquity jde = 23 + 26 / 60 + 21.448 / 3600 + obliquityDelta ((jde - 2451545) / 3652500) / 3600 := by
  have e0 : ((jde - 2451545.0) / 3652500.0 : ℝ) = (jde - 2451545) / 3652500 := by norm_num
  set u := (jde - 2451545) / 3652500 with hu
  have hb : |obliquityDelta u| ≤ 1200 := by
    obtain ⟨a1, b1⟩ := pow_bounds u h 1
    obtain ⟨a2, b2⟩ := pow_bounds u h 2
    obtain ⟨a3, b3⟩ := pow_bounds u h 3
    obtain ⟨a4, b4⟩ := pow_bounds u h 4
    obtain ⟨a5, b5⟩ := pow_bounds u h 5
    obtain ⟨a6, b6⟩ := pow_bounds u h 6
    obtain ⟨a7, b7⟩ := pow_bounds u h 7
    obtain ⟨a8, b8⟩ := pow_bounds u h 8
    obtain ⟨a9, b9⟩ := pow_bounds u h 9
    obtain ⟨a10, b10⟩ := pow_bounds u h 10
    norm_num at a1 b1 a2 b2 a3 b3 a4 b4 a5 b5 a6 b6 a7 b7 a8 b8 a9 b9 a10 b10
    unfold obliquityDelta
    rw [abs_le]; constructor <;> nlinarith
  unfold mean_obliquity
  rw [e0, angDms_23_26]
  dsimp only
  have hd : (u * (-4680.93 + u * (-1.55 + u * (1999.25 + u * (-51.38 + u * (-249.67
      + u * (-39.05 + u * (7.12 + u * (27.87 + u * (5.79 + u * 2.45))))))))) : ℝ) = obliquityDelta u := rfl
  rw [hd, angDms_zero_zero _ (lt_of_le_of_lt hb (by norm_num)), angAdd]
  apply angReduce_small
  have := abs_le.mp hb
  rw [abs_lt]; constructor <;> linarith

/-- "Mean obliquity agrees with the IAU cubic to 3 arcsec within 20 centuries of J2000" over ℝ -/
lemma mean_obliquity_vs_iau (jde : ℝ) (h : |(jde - 2451545) / 3652500| ≤ 0.2) :
    |mean_obliquity jde - Spec.iauObliquity ((jde - 2451545) / 36525)| ≤ 3 / 3600 := by
  rw [mean_obliquity_eq jde h]
  have eT : (jde - 2451545) / 36525 = 100 * ((jde - 2451545) / 3652500) := by ring
  rw [eT]
  set u := (jde - 2451545) / 3652500 with hu
  obtain ⟨a1, b1⟩ := pow_bounds u h 1
  obtain ⟨a2, b2⟩ := pow_bounds u h 2
  obtain ⟨a3, b3⟩ := pow_bounds u h 3
  obtain ⟨a4, b4⟩ := pow_bounds u h 4
  obtain ⟨a5, b5⟩ := pow_bounds u h 5
  obtain ⟨a6, b6⟩ := pow_bounds u h 6
  obtain ⟨a7, b7⟩ := pow_bounds u h 7
  obtain ⟨a8, b8⟩ := pow_bounds u h 8
  obtain ⟨a9, b9⟩ := pow_bounds u h 9
  obtain ⟨a10, b10⟩ := pow_bounds u h 10
  norm_num at a1 b1 a2 b2 a3 b3 a4 b4 a5 b5 a6 b6 a7 b7 a8 b8 a9 b9 a10 b10
  unfold Spec.iauObliquity obliquityDelta
  rw [abs_le]; constructor <;> nlinarith

/-! ### nutation -/

/-- sine / cosine of a reduced angle: `reduce_deg` does not change them -/
lemma sin_angRad_reduce (x : ℝ) : Real.sin (angRad (angReduce x)) = Real.sin (x * (Real.pi / 180)) := by
  obtain ⟨k, hk⟩ := angReduce_congr x
  rw [hk, angRad, pradians]
  have : (x + 360 * (k : ℝ)) * (Real.pi / 180) = x * (Real.pi / 180) + (k : ℝ) * (2 * Real.pi) := by ring
  rw [this, Real.sin_add_int_mul_two_pi]

lemma cos_angRad_reduce (x : ℝ) : Real.cos (angRad (angReduce x)) = Real.cos (x * (Real.pi / 180)) := by
  obtain ⟨k, hk⟩ := angReduce_congr x
  rw [hk, angRad, pradians]
  have : (x + 360 * (k : ℝ)) * (Real.pi / 180) = x * (Real.pi / 180) + (k : ℝ) * (2 * Real.pi) := by ring
  rw [this, Real.cos_add_int_mul_two_pi]

lemma abs_nutation_coeff_le (v : List ℝ) (t : ℝ) :
    |nutation_coeff v t| ≤ |v.getD 0 0| + |v.getD 1 0| * |t| := by
  unfold nutation_coeff
  simp only [lit0]
  split_ifs
  · have := mul_nonneg (abs_nonneg (v.getD 1 0)) (abs_nonneg t); linarith
  · exact (abs_add_le _ _).trans (by rw [abs_mul])

lemma abs_nutation_term_le (b : Bool) (t : ℝ) (args : List ℝ) (vr : List ℝ × List Int) :
    |nutation_term b t args vr| ≤ (|vr.1.getD 0 0| + |vr.1.getD 1 0| * |t|) / 10000 := by
  unfold nutation_term
  have h1 : (10000.0 : ℝ) = 10000 := by norm_num
  rw [h1, abs_div, abs_of_pos (by norm_num : (0 : ℝ) < 10000)]
  apply div_le_div_of_nonneg_right _ (by norm_num)
  rw [abs_mul]
  have htrig : |(if b = true then psin (angRad (nutation_argument vr.2 args)) else pcos (angRad (nutation_argument vr.2 args)))| ≤ 1 := by
    split_ifs
    · exact Real.abs_sin_le_one _
    · exact Real.abs_cos_le_one _
  calc |nutation_coeff vr.1 t| * _ ≤ |nutation_coeff vr.1 t| * 1 := mul_le_mul_of_nonneg_left htrig (abs_nonneg _)
    _ = |nutation_coeff vr.1 t| := mul_one _
    _ ≤ _ := abs_nutation_coeff_le _ _

/-- sum over a zip is bounded by the sum over the first list, for a non-negative summand -/
lemma sum_zip_le {α β : Type} (g : α → ℝ) (hg : ∀ a, 0 ≤ g a) (l : List α) (m : List β) :
    ((l.zip m).map fun p => g p.1).sum ≤ (l.map g).sum := by
  induction l generalizing m with
  | nil => simp
  | cons a as ih =>
    cases m with
    | nil =>
      have h0 : 0 ≤ (as.map g).sum :=
        List.sum_nonneg (by intro x hx; obtain ⟨y, _, rfl⟩ := List.mem_map.mp hx; exact hg y)
      simp only [List.zip_nil_right, List.map_nil, List.sum_nil, List.map_cons, List.sum_cons]
      linarith [hg a]
    | cons b bs => simp only [List.zip_cons_cons, List.map_cons, List.sum_cons]; linarith [ih bs]

lemma abs_sum_map_le {α : Type} (f g : α → ℝ) (h : ∀ a, |f a| ≤ g a) (l : List α) :
    |(l.map f).sum| ≤ (l.map g).sum := by
  induction l with
  | nil => simp
  | cons a as ih => simp only [List.map_cons, List.sum_cons]; exact (abs_add_le _ _).trans (add_le_add (h a) ih)

/-- The nutation series minus its first term is bounded by the sum of the absolute values of the
    remaining coefficients. -/
lemma nutation_series_main_term (b : Bool) (c0 : List ℝ) (cs : List (List ℝ)) (a0 : List Int) (as : List (List Int))
    (hARG : NUTATION_ARG_TABLE = a0 :: as) (t : ℝ) :
    |nutation_series b (c0 :: cs) t - nutation_term b t (nutation_arguments t) (c0, a0)| ≤
      ((cs.map fun v => |v.getD 0 0|).sum + (cs.map fun v => |v.getD 1 0|).sum * |t|) / 10000 := by
  unfold nutation_series
  rw [hARG, List.zip_cons_cons, List.foldl_cons, lit0, zero_add,
    foldl_add_eq_sum (fun vr => nutation_term b t (nutation_arguments t) vr), add_sub_cancel_left]
  refine (abs_sum_map_le _ (fun vr : List ℝ × List Int => (|vr.1.getD 0 0| + |vr.1.getD 1 0| * |t|) / 10000)
    (abs_nutation_term_le b t _) _).trans ?_
  refine (sum_zip_le (fun v : List ℝ => (|v.getD 0 0| + |v.getD 1 0| * |t|) / 10000)
    (fun v => by positivity) cs as).trans (le_of_eq ?_)
  induction cs with
  | nil => simp
  | cons v vs ih => simp only [List.map_cons, List.sum_cons, ih]; ring

/-- the argument of the first row `[0, 0, 0, 0, 1]`: the node Ω alone (up to whole turns) -/
lemma first_argument_trig (t : ℝ) :
    Real.sin (angRad (nutation_argument [0, 0, 0, 0, 1] (nutation_arguments t))) = Real.sin (Spec.nutationNode t) ∧
    Real.cos (angRad (nutation_argument [0, 0, 0, 0, 1] (nutation_arguments t))) = Real.cos (Spec.nutationNode t) := by
  have e : nutation_argument [0, 0, 0, 0, 1] (nutation_arguments t) =
      angReduce (0 + angReduce (angReduce (125.04452 + t * (-1934.136261 + t * (0.0020708 + t / 450000.0))) * 1)) := by
    simp [nutation_argument, nutation_arguments, angAdd, angMulI, angOfDeg, ofInt, lit0]
  have h450 : (450000.0 : ℝ) = 450000 := by norm_num
  rw [e, sin_angRad_reduce, cos_angRad_reduce, zero_add, mul_one]
  have e2 : ∀ x : ℝ, angReduce x * (Real.pi / 180) = angRad (angReduce x) := fun x => rfl
  rw [e2, sin_angRad_reduce, cos_angRad_reduce, e2, sin_angRad_reduce, cos_angRad_reduce, h450]
  exact ⟨rfl, rfl⟩

/-- Δψ (arcseconds) against the main term on the series' own node, |T| ≤ 40 centuries -/
lemma nutation_longitude_bound (jde : ℝ) (h : |(jde - 2451545) / 36525| ≤ 40) :
    |nutation_longitude jde * 3600 + 17.1996 * Real.sin (Spec.nutationNode ((jde - 2451545) / 36525))| ≤ 2.97 := by
  have e0 : ((jde - 2451545.0) / 36525.0 : ℝ) = (jde - 2451545) / 36525 := by norm_num
  set t := (jde - 2451545) / 36525 with ht
  have hS : NUTATION_SINE_COEF_TABLE = [-171996.0, -174.2] :: NUTATION_SINE_COEF_TABLE.tail := rfl
  have hA : NUTATION_ARG_TABLE = [0, 0, 0, 0, 1] :: NUTATION_ARG_TABLE.tail := rfl
  have hm := nutation_series_main_term true [-171996.0, -174.2] NUTATION_SINE_COEF_TABLE.tail [0, 0, 0, 0, 1]
    NUTATION_ARG_TABLE.tail hA t
  rw [← hS] at hm
  have s1 : ((NUTATION_SINE_COEF_TABLE.tail).map fun v => |v.getD 0 0|).sum = 22320 := by
    norm_num [NUTATION_SINE_COEF_TABLE, abs_of_pos, abs_of_neg]
  have s2 : ((NUTATION_SINE_COEF_TABLE.tail).map fun v => |v.getD 1 0|).sum = 8.1 := by
    norm_num [NUTATION_SINE_COEF_TABLE, abs_of_pos, abs_of_neg]
  rw [s1, s2] at hm
  have hterm : nutation_term true t (nutation_arguments t) ([-171996.0, -174.2], [0, 0, 0, 0, 1]) =
      (-171996 + -174.2 * t) * Real.sin (Spec.nutationNode t) / 10000 := by
    have hne : ¬ ((-174.2 : ℝ) = 0) := by norm_num
    simp only [nutation_term, nutation_coeff, psin, (first_argument_trig t).1, if_true]
    norm_num [peq]
  rw [hterm] at hm
  set S := nutation_series true NUTATION_SINE_COEF_TABLE t with hSdef
  have hsin := Real.abs_sin_le_one (Spec.nutationNode t)
  obtain ⟨sl, su⟩ := abs_le.mp hsin
  obtain ⟨tl, tu⟩ := abs_le.mp h
  have hts : |t * Real.sin (Spec.nutationNode t)| ≤ 40 := by
    rw [abs_mul]; calc |t| * _ ≤ 40 * 1 := mul_le_mul h hsin (abs_nonneg _) (by norm_num)
      _ = 40 := by norm_num
  obtain ⟨pl, pu⟩ := abs_le.mp hts
  have habs_t : |t| ≤ 40 := h
  have hmb : |S - (-171996 + -174.2 * t) * Real.sin (Spec.nutationNode t) / 10000| ≤ (22320 + 8.1 * 40) / 10000 :=
    hm.trans (by apply div_le_div_of_nonneg_right _ (by norm_num); nlinarith [abs_nonneg t])
  obtain ⟨ml, mu⟩ := abs_le.mp hmb
  have hSabs : |S| < 1296000 := by rw [abs_lt]; constructor <;> nlinarith
  unfold nutation_longitude
  rw [e0, angDms_zero_zero _ hSabs]
  rw [abs_le]; constructor <;> nlinarith

/-- Δε (arcseconds) against the main term on the series' own node, |T| ≤ 40 centuries -/
lemma nutation_obliquity_bound (jde : ℝ) (h : |(jde - 2451545) / 36525| ≤ 40) :
    |nutation_obliquity jde * 3600 - 9.2025 * Real.cos (Spec.nutationNode ((jde - 2451545) / 36525))| ≤ 0.93 := by
  have e0 : ((jde - 2451545.0) / 36525.0 : ℝ) = (jde - 2451545) / 36525 := by norm_num
  set t := (jde - 2451545) / 36525 with ht
  have hS : NUTATION_COSINE_COEF_TABLE = [92025.0, 8.9] :: NUTATION_COSINE_COEF_TABLE.tail := rfl
  have hA : NUTATION_ARG_TABLE = [0, 0, 0, 0, 1] :: NUTATION_ARG_TABLE.tail := rfl
  have hm := nutation_series_main_term false [92025.0, 8.9] NUTATION_COSINE_COEF_TABLE.tail [0, 0, 0, 0, 1]
    NUTATION_ARG_TABLE.tail hA t
  rw [← hS] at hm
  have s1 : ((NUTATION_COSINE_COEF_TABLE.tail).map fun v => |v.getD 0 0|).sum = 8708 := by
    norm_num [NUTATION_COSINE_COEF_TABLE, abs_of_pos, abs_of_neg]
  have s2 : ((NUTATION_COSINE_COEF_TABLE.tail).map fun v => |v.getD 1 0|).sum = 5.2 := by
    norm_num [NUTATION_COSINE_COEF_TABLE, abs_of_pos, abs_of_neg]
  rw [s1, s2] at hm
  have hterm : nutation_term false t (nutation_arguments t) ([92025.0, 8.9], [0, 0, 0, 0, 1]) =
      (92025 + 8.9 * t) * Real.cos (Spec.nutationNode t) / 10000 := by
    simp only [nutation_term, nutation_coeff, pcos, (first_argument_trig t).2]
    norm_num [peq]
  rw [hterm] at hm
  set S := nutation_series false NUTATION_COSINE_COEF_TABLE t with hSdef
  have hcos := Real.abs_cos_le_one (Spec.nutationNode t)
  obtain ⟨sl, su⟩ := abs_le.mp hcos
  obtain ⟨tl, tu⟩ := abs_le.mp h
  have hts : |t * Real.cos (Spec.nutationNode t)| ≤ 40 := by
    rw [abs_mul]; calc |t| * _ ≤ 40 * 1 := mul_le_mul h hcos (abs_nonneg _) (by norm_num)
      _ = 40 := by norm_num
  obtain ⟨pl, pu⟩ := abs_le.mp hts
  have hmb : |S - (92025 + 8.9 * t) * Real.cos (Spec.nutationNode t) / 10000| ≤ (8708 + 5.2 * 40) / 10000 :=
    hm.trans (by apply div_le_div_of_nonneg_right _ (by norm_num); nlinarith [abs_nonneg t])
  obtain ⟨ml, mu⟩ := abs_le.mp hmb
  have hSabs : |S| < 1296000 := by rw [abs_lt]; constructor <;> nlinarith
  unfold nutation_obliquity
  rw [e0, angDms_zero_zero _ hSabs]
  rw [abs_le]; constructor <;> nlinarith

end Pymeeus.Refine.SunEarth
