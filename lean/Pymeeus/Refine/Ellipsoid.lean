import Pymeeus.Refine.Kepler
import Pymeeus.Gen.R.Ellipsoid
/-!
Helper lemmas for C18: closed forms of the ellipsoid functions of `templates/Ellipsoid.lean` over ℝ for an
ellipsoid with `a > 0`, `0 ≤ f < 1`.
-/
noncomputable section
namespace Pymeeus.Refine.Ellipsoid
open Pymeeus Pymeeus.PR Pymeeus.GenR.Kepler Pymeeus.GenR.Ellipsoid Pymeeus.Refine.Kepler Real

/-- The ellipsoids the theorems quantify over: `a > 0`, `0 ≤ f < 1` (any `omega`). -/
structure Valid (el : Ell) : Prop where
  a_pos : 0 < el.a
  f_nonneg : 0 ≤ el.f
  f_lt_one : el.f < 1

theorem b_eq (el : Ell) : el.b = el.a * (1 - el.f) := by unfold Ell.b; norm_num

theorem b_pos {el : Ell} (h : Valid el) : 0 < el.b := by
  rw [b_eq]; exact mul_pos h.a_pos (by linarith [h.f_lt_one])

theorem e_eq {el : Ell} (h : Valid el) : el.e = .ok (Real.sqrt (2 * el.f - el.f * el.f)) := by
  have h0 : (0 : ℝ) ≤ 2.0 * el.f - el.f * el.f := by
    norm_num; nlinarith [h.f_nonneg, h.f_lt_one]
  unfold Ell.e; rw [fsqrt_ok h0]; norm_num

/-- `e² = 2f − f² = 1 − (1−f)²` -/
theorem e_sq {el : Ell} (h : Valid el) :
    Real.sqrt (2 * el.f - el.f * el.f) * Real.sqrt (2 * el.f - el.f * el.f) = 1 - (1 - el.f) ^ 2 := by
  rw [Real.mul_self_sqrt (by nlinarith [h.f_nonneg, h.f_lt_one])]; ring

theorem b_over_a {el : Ell} (h : Valid el) : fdiv el.b el.a = .ok (1 - el.f) := by
  rw [fdiv_ok h.a_pos.ne', b_eq]
  congr 1; field_simp [h.a_pos.ne']

theorem rho_cosphi_eq {el : Ell} (h : Valid el) (lat height : ℝ) :
    rho_cosphi el lat height =
      .ok (Real.cos (Real.arctan ((1 - el.f) * Real.tan (pradians lat))) + height / el.a * Real.cos (pradians lat)) := by
  unfold rho_cosphi
  simp only [b_over_a h, fdiv_ok h.a_pos.ne', patan, ptan, pcos]

theorem rho_sinphi_eq {el : Ell} (h : Valid el) (lat height : ℝ) :
    rho_sinphi el lat height =
      .ok ((1 - el.f) * Real.sin (Real.arctan ((1 - el.f) * Real.tan (pradians lat)))
            + height / el.a * Real.sin (pradians lat)) := by
  unfold rho_sinphi
  simp only [b_over_a h, fdiv_ok h.a_pos.ne', patan, ptan, psin]

/-- `1 − e² sin² φ = cos² φ + (1−f)² sin² φ > 0` -/
theorem base_eq {el : Ell} (h : Valid el) (x : ℝ) :
    1 - Real.sqrt (2 * el.f - el.f * el.f) * Real.sqrt (2 * el.f - el.f * el.f) * Real.sin x * Real.sin x
      = Real.cos x ^ 2 + (1 - el.f) ^ 2 * Real.sin x ^ 2 := by
  rw [e_sq h]; nlinarith [Real.sin_sq_add_cos_sq x]

theorem base_pos {el : Ell} (h : Valid el) (x : ℝ) :
    0 < Real.cos x ^ 2 + (1 - el.f) ^ 2 * Real.sin x ^ 2 := by
  have h1 : 0 < (1 - el.f) ^ 2 := by have := h.f_lt_one; positivity
  have := Real.sin_sq_add_cos_sq x
  by_cases hc : Real.cos x = 0
  · have hs : Real.sin x ^ 2 = 1 := by rw [hc] at this; linarith
    rw [hc, hs]; linarith
  · have : 0 < Real.cos x ^ 2 := by positivity
    have : 0 ≤ (1 - el.f) ^ 2 * Real.sin x ^ 2 := by positivity
    linarith

theorem rp_eq {el : Ell} (h : Valid el) (lat : ℝ) :
    rp el lat = .ok (el.a * Real.cos (pradians lat)
      / Real.sqrt (Real.cos (pradians lat) ^ 2 + (1 - el.f) ^ 2 * Real.sin (pradians lat) ^ 2)) := by
  have hb := base_pos h (pradians lat)
  have e1 : (1.0 : ℝ) = 1 := by norm_num
  unfold rp
  simp only [e_eq h, psin, pcos, e1, base_eq h]
  rw [fsqrt_ok hb.le]
  exact fdiv_ok (Real.sqrt_pos.mpr hb).ne'

theorem linear_velocity_eq {el : Ell} (h : Valid el) (lat : ℝ) :
    linear_velocity el lat = .ok (el.omega * (el.a * Real.cos (pradians lat)
      / Real.sqrt (Real.cos (pradians lat) ^ 2 + (1 - el.f) ^ 2 * Real.sin (pradians lat) ^ 2))) := by
  unfold linear_velocity; rw [rp_eq h]

theorem rm_eq {el : Ell} (h : Valid el) (lat : ℝ) :
    rm el lat = .ok (el.a * (1 - el.f) ^ 2
      / (Real.cos (pradians lat) ^ 2 + (1 - el.f) ^ 2 * Real.sin (pradians lat) ^ 2) ^ (1.5 : ℝ)) := by
  have hb := base_pos h (pradians lat)
  have e1 : (1.0 : ℝ) = 1 := by norm_num
  have hlt : ¬ (Real.cos (pradians lat) ^ 2 + (1 - el.f) ^ 2 * Real.sin (pradians lat) ^ 2 < 0) := not_lt.mpr hb.le
  have hne : (Real.cos (pradians lat) ^ 2 + (1 - el.f) ^ 2 * Real.sin (pradians lat) ^ 2) ^ (1.5 : ℝ) ≠ 0 :=
    (Real.rpow_pos_of_pos hb _).ne'
  have h1e : 1 - Real.sqrt (2 * el.f - el.f * el.f) * Real.sqrt (2 * el.f - el.f * el.f) = (1 - el.f) ^ 2 := by
    rw [e_sq h]; ring
  unfold rm
  simp only [e_eq h, psin, e1, base_eq h, plt, hlt, decide_false, elpow, h1e]
  simp only [Bool.false_eq_true, if_false]
  exact fdiv_ok hne


/-! ### surface distance -/

theorem ppow_two (x : ℝ) : elpow x 2 = x ^ 2 := Real.rpow_two x

/-- The part of `Earth.distance` after the six squares have been formed (same statements as the model). -/
def andoyer (a fe sin2g cos2g cos2f sin2f sin2lam cos2lam : ℝ) : PyRes (ℝ × ℝ) :=
  let s := sin2g * cos2lam + cos2f * sin2lam
  let c := cos2g * cos2lam + sin2f * sin2lam
  if peq s 0.0 then .ok (0.0, 0.0) else
  match fdiv s c with
  | .error x => .error x
  | .ok sc =>
    match fsqrt sc with
    | .error x => .error x
    | .ok rt =>
      let omega := patan rt
      match fsqrt (s * c) with
      | .error x => .error x
      | .ok rsc =>
        match fdiv rsc omega with
        | .error x => .error x
        | .ok r =>
          let d := 2.0 * omega * a
          match fdiv (3.0 * r - 1.0) (2.0 * c) with
          | .error x => .error x
          | .ok h1 =>
            match fdiv (3.0 * r + 1.0) (2.0 * s) with
            | .error x => .error x
            | .ok h2 =>
              let dist := d * (1.0 + fe * (h1 * sin2f * cos2g - h2 * cos2f * sin2g))
              let error := pround0 (dist * fe * fe)
              .ok (dist, error)

theorem distance_eq_andoyer (el : Ell) (lon1 lat1 lon2 lat2 : ℝ) :
    distance el lon1 lat1 lon2 lat2 =
      andoyer el.a el.f
        (Real.sin ((pradians lat1 - pradians lat2) / 2) ^ 2) (Real.cos ((pradians lat1 - pradians lat2) / 2) ^ 2)
        (Real.cos ((pradians lat1 + pradians lat2) / 2) ^ 2) (Real.sin ((pradians lat1 + pradians lat2) / 2) ^ 2)
        (Real.sin ((pradians lon1 - pradians lon2) / 2) ^ 2) (Real.cos ((pradians lon1 - pradians lon2) / 2) ^ 2) := by
  have e2 : (2.0 : ℝ) = 2 := by norm_num
  unfold distance andoyer
  simp only [ppow_two, psin, pcos, e2]
  first | rfl | congr!


/-- Value of the Andoyer core when `s > 0` and `c > 0` (no division by zero, no domain error). -/
theorem andoyer_ok (a fe : ℝ) {sin2g cos2g cos2f sin2f sin2lam cos2lam : ℝ}
    (hs : 0 < sin2g * cos2lam + cos2f * sin2lam) (hc : 0 < cos2g * cos2lam + sin2f * sin2lam) :
    andoyer a fe sin2g cos2g cos2f sin2f sin2lam cos2lam =
      let s := sin2g * cos2lam + cos2f * sin2lam
      let c := cos2g * cos2lam + sin2f * sin2lam
      let omega := Real.arctan (Real.sqrt (s / c))
      let r := Real.sqrt (s * c) / omega
      let h1 := (3 * r - 1) / (2 * c)
      let h2 := (3 * r + 1) / (2 * s)
      let dist := 2 * omega * a * (1 + fe * (h1 * sin2f * cos2g - h2 * cos2f * sin2g))
      .ok (dist, pround0 (dist * fe * fe)) := by
  have hsc : 0 < (sin2g * cos2lam + cos2f * sin2lam) / (cos2g * cos2lam + sin2f * sin2lam) := div_pos hs hc
  have hom : 0 < Real.arctan (Real.sqrt ((sin2g * cos2lam + cos2f * sin2lam) / (cos2g * cos2lam + sin2f * sin2lam))) := by
    rw [← Real.arctan_zero]; exact Real.arctan_strictMono (Real.sqrt_pos.mpr hsc)
  have hs0 : ¬ (sin2g * cos2lam + cos2f * sin2lam = 0) := hs.ne'
  have h2c : (2 : ℝ) * (cos2g * cos2lam + sin2f * sin2lam) ≠ 0 := by positivity
  have h2s : (2 : ℝ) * (sin2g * cos2lam + cos2f * sin2lam) ≠ 0 := by positivity
  have e0 : (0.0 : ℝ) = 0 := by norm_num
  have e1 : (1.0 : ℝ) = 1 := by norm_num
  have e2 : (2.0 : ℝ) = 2 := by norm_num
  have e3 : (3.0 : ℝ) = 3 := by norm_num
  unfold andoyer
  simp only [peq, e0, e1, e2, e3, hs0, decide_false, Bool.false_eq_true, if_false, fdiv_ok hc.ne', fsqrt_ok hsc.le,
    fsqrt_ok (mul_pos hs hc).le, patan, fdiv_ok hom.ne', fdiv_ok h2c, fdiv_ok h2s]

theorem andoyer_zero (a fe : ℝ) {sin2g cos2g cos2f sin2f sin2lam cos2lam : ℝ}
    (hs : sin2g * cos2lam + cos2f * sin2lam = 0) :
    andoyer a fe sin2g cos2g cos2f sin2f sin2lam cos2lam = .ok (0, 0) := by
  have e0 : (0.0 : ℝ) = 0 := by norm_num
  unfold andoyer
  simp only [peq, e0, hs, decide_true, if_true]

theorem andoyer_antipodal (a fe : ℝ) {sin2g cos2g cos2f sin2f sin2lam cos2lam : ℝ}
    (hs : sin2g * cos2lam + cos2f * sin2lam ≠ 0) (hc : cos2g * cos2lam + sin2f * sin2lam = 0) :
    andoyer a fe sin2g cos2g cos2f sin2f sin2lam cos2lam = .error .zeroDivisionError := by
  have e0 : (0.0 : ℝ) = 0 := by norm_num
  unfold andoyer
  simp only [peq, e0, hs, decide_false, Bool.false_eq_true, if_false, fdiv, hc, decide_true, if_true]


/-! ### structure of the Andoyer arguments: `s + c = 1` (haversine) -/

/-- With the six squares of `Earth.distance`, `s + c = 1`: `s` is the haversine of the spherical distance. -/
theorem s_add_c (f g l : ℝ) :
    (Real.sin g ^ 2 * Real.cos l ^ 2 + Real.cos f ^ 2 * Real.sin l ^ 2)
      + (Real.cos g ^ 2 * Real.cos l ^ 2 + Real.sin f ^ 2 * Real.sin l ^ 2) = 1 := by
  nlinarith [Real.sin_sq_add_cos_sq f, Real.sin_sq_add_cos_sq g, Real.sin_sq_add_cos_sq l]

/-- `arctan (sqrt (s / (1 - s))) = arcsin (sqrt s)` for `0 ≤ s < 1`. -/
theorem arctan_sqrt_ratio {s : ℝ} (h0 : 0 ≤ s) (h1 : s < 1) :
    Real.arctan (Real.sqrt (s / (1 - s))) = Real.arcsin (Real.sqrt s) := by
  have hs1 : Real.sqrt s < 1 := by
    rw [show (1:ℝ) = Real.sqrt 1 from Real.sqrt_one.symm]; exact Real.sqrt_lt_sqrt h0 h1
  have hs0 := Real.sqrt_nonneg s
  have hx : Real.sqrt s ∈ Set.Ioo (-1 : ℝ) 1 := ⟨by linarith, hs1⟩
  rw [Real.arcsin_eq_arctan hx, Real.sq_sqrt h0, Real.sqrt_div h0]


/-- `R = sqrt(s c)/ω` lies in `(0, 1]` (it is `sin(2ω)/(2ω)`), for `s + c = 1`, `s, c > 0`, `ω = atan sqrt(s/c)`. -/
theorem R_range {s c : ℝ} (hs : 0 < s) (hc : 0 < c) (hsc : s + c = 1) :
    0 < Real.sqrt (s * c) / Real.arctan (Real.sqrt (s / c)) ∧
    Real.sqrt (s * c) / Real.arctan (Real.sqrt (s / c)) ≤ 1 := by
  have hc' : c = 1 - s := by linarith
  have hom : Real.arctan (Real.sqrt (s / c)) = Real.arcsin (Real.sqrt s) := by
    rw [hc']; exact arctan_sqrt_ratio hs.le (by linarith)
  rw [hom]
  have hs1 : Real.sqrt s ≤ 1 := by rw [Real.sqrt_le_left (by norm_num)]; linarith
  have hsp : 0 < Real.sqrt s := Real.sqrt_pos.mpr hs
  have hpos : 0 < Real.arcsin (Real.sqrt s) := Real.arcsin_pos.mpr hsp
  have hsin : Real.sin (Real.arcsin (Real.sqrt s)) = Real.sqrt s := Real.sin_arcsin (by linarith) hs1
  have hle : Real.sqrt s ≤ Real.arcsin (Real.sqrt s) := by
    have := Real.sin_le hpos.le; rwa [hsin] at this
  have hcs : Real.sqrt c ≤ 1 := by rw [Real.sqrt_le_left (by norm_num)]; linarith
  have hnum : Real.sqrt (s * c) ≤ Real.arcsin (Real.sqrt s) := by
    rw [Real.sqrt_mul hs.le]
    calc Real.sqrt s * Real.sqrt c ≤ Real.sqrt s * 1 := by
          apply mul_le_mul_of_nonneg_left hcs hsp.le
      _ = Real.sqrt s := mul_one _
      _ ≤ _ := hle
  exact ⟨div_pos (Real.sqrt_pos.mpr (mul_pos hs hc)) hpos, (div_le_one hpos).mpr hnum⟩

/-- The flattening correction of Andoyer's formula lies in `[-5/2, 1]`. -/
theorem correction_range {s c P Q R : ℝ} (hs : 0 < s) (hc : 0 < c) (hP0 : 0 ≤ P) (hPc : P ≤ c) (hQ0 : 0 ≤ Q) (hQs : Q ≤ s)
    (hR0 : 0 < R) (hR1 : R ≤ 1) :
    -(5 / 2) ≤ (3 * R - 1) / (2 * c) * P - (3 * R + 1) / (2 * s) * Q ∧
    (3 * R - 1) / (2 * c) * P - (3 * R + 1) / (2 * s) * Q ≤ 1 := by
  obtain ⟨p, hp⟩ : ∃ p, p = P / c := ⟨_, rfl⟩
  obtain ⟨q, hq⟩ : ∃ q, q = Q / s := ⟨_, rfl⟩
  have hp0 : 0 ≤ p := by rw [hp]; positivity
  have hp1 : p ≤ 1 := by rw [hp]; exact (div_le_one hc).mpr hPc
  have hq0 : 0 ≤ q := by rw [hq]; positivity
  have hq1 : q ≤ 1 := by rw [hq]; exact (div_le_one hs).mpr hQs
  have e : (3 * R - 1) / (2 * c) * P - (3 * R + 1) / (2 * s) * Q = (3 * R - 1) / 2 * p - (3 * R + 1) / 2 * q := by
    rw [hp, hq]; field_simp
  rw [e]
  constructor <;> nlinarith [mul_nonneg hp0 hR0.le, mul_nonneg hq0 hR0.le, mul_nonneg (sub_nonneg.mpr hp1) hR0.le,
    mul_nonneg (sub_nonneg.mpr hq1) hR0.le]

/-- `sin²F cos²G ≤ c` and `cos²F sin²G ≤ s` -/
theorem PQ_le (F G L : ℝ) :
    Real.sin F ^ 2 * Real.cos G ^ 2 ≤ Real.cos G ^ 2 * Real.cos L ^ 2 + Real.sin F ^ 2 * Real.sin L ^ 2 ∧
    Real.cos F ^ 2 * Real.sin G ^ 2 ≤ Real.sin G ^ 2 * Real.cos L ^ 2 + Real.cos F ^ 2 * Real.sin L ^ 2 := by
  have hF := Real.sin_sq_add_cos_sq F
  have hG := Real.sin_sq_add_cos_sq G
  have hL := Real.sin_sq_add_cos_sq L
  have a1 := sq_nonneg (Real.sin F); have a2 := sq_nonneg (Real.cos F)
  have a3 := sq_nonneg (Real.sin G); have a4 := sq_nonneg (Real.cos G)
  have a5 := sq_nonneg (Real.sin L); have a6 := sq_nonneg (Real.cos L)
  constructor
  · have : Real.cos G ^ 2 * Real.cos L ^ 2 + Real.sin F ^ 2 * Real.sin L ^ 2 - Real.sin F ^ 2 * Real.cos G ^ 2
        = Real.cos G ^ 2 * Real.cos L ^ 2 * Real.cos F ^ 2 + Real.sin F ^ 2 * Real.sin L ^ 2 * Real.sin G ^ 2 := by
      have h1 : Real.cos F ^ 2 = 1 - Real.sin F ^ 2 := by linarith
      have h2 : Real.sin G ^ 2 = 1 - Real.cos G ^ 2 := by linarith
      have h3 : Real.cos L ^ 2 = 1 - Real.sin L ^ 2 := by linarith
      rw [h1, h2, h3]; ring
    have : 0 ≤ Real.cos G ^ 2 * Real.cos L ^ 2 * Real.cos F ^ 2 + Real.sin F ^ 2 * Real.sin L ^ 2 * Real.sin G ^ 2 := by positivity
    linarith
  · have : Real.sin G ^ 2 * Real.cos L ^ 2 + Real.cos F ^ 2 * Real.sin L ^ 2 - Real.cos F ^ 2 * Real.sin G ^ 2
        = Real.sin G ^ 2 * Real.cos L ^ 2 * Real.sin F ^ 2 + Real.cos F ^ 2 * Real.sin L ^ 2 * Real.cos G ^ 2 := by
      have h1 : Real.sin F ^ 2 = 1 - Real.cos F ^ 2 := by linarith
      have h2 : Real.cos G ^ 2 = 1 - Real.sin G ^ 2 := by linarith
      have h3 : Real.cos L ^ 2 = 1 - Real.sin L ^ 2 := by linarith
      rw [h1, h2, h3]; ring
    have : 0 ≤ Real.sin G ^ 2 * Real.cos L ^ 2 * Real.sin F ^ 2 + Real.cos F ^ 2 * Real.sin L ^ 2 * Real.cos G ^ 2 := by positivity
    linarith


/-- Joint constraint of the two correction terms: `P s + Q c ≤ s c`, i.e. `P/c + Q/s ≤ 1`; the difference is
    `cos²L sin²L (sin²F + sin²G − 1)²`. -/
theorem PQ_joint (F G L : ℝ) :
    (Real.sin F ^ 2 * Real.cos G ^ 2) * (Real.sin G ^ 2 * Real.cos L ^ 2 + Real.cos F ^ 2 * Real.sin L ^ 2)
      + (Real.cos F ^ 2 * Real.sin G ^ 2) * (Real.cos G ^ 2 * Real.cos L ^ 2 + Real.sin F ^ 2 * Real.sin L ^ 2)
      ≤ (Real.sin G ^ 2 * Real.cos L ^ 2 + Real.cos F ^ 2 * Real.sin L ^ 2)
        * (Real.cos G ^ 2 * Real.cos L ^ 2 + Real.sin F ^ 2 * Real.sin L ^ 2) := by
  have hF : Real.cos F ^ 2 = 1 - Real.sin F ^ 2 := by linarith [Real.sin_sq_add_cos_sq F]
  have hG : Real.cos G ^ 2 = 1 - Real.sin G ^ 2 := by linarith [Real.sin_sq_add_cos_sq G]
  have hL : Real.cos L ^ 2 = 1 - Real.sin L ^ 2 := by linarith [Real.sin_sq_add_cos_sq L]
  have hz0 := sq_nonneg (Real.sin L)
  have hz1 : Real.sin L ^ 2 ≤ 1 := Real.sin_sq_le_one L
  rw [hF, hG, hL]
  generalize Real.sin F ^ 2 = x
  generalize Real.sin G ^ 2 = y
  generalize Real.sin L ^ 2 = z at hz0 hz1 ⊢
  have key : (y * (1 - z) + (1 - x) * z) * ((1 - y) * (1 - z) + x * z)
      - (x * (1 - y) * (y * (1 - z) + (1 - x) * z) + (1 - x) * y * ((1 - y) * (1 - z) + x * z))
      = (1 - z) * z * (x + y - 1) ^ 2 := by ring
  have : 0 ≤ (1 - z) * z * (x + y - 1) ^ 2 := by
    apply mul_nonneg (mul_nonneg (by linarith) hz0) (sq_nonneg _)
  linarith

/-- With the joint constraint the flattening correction lies in `[-2, 1]`. -/
theorem correction_range_joint {s c P Q R : ℝ} (hs : 0 < s) (hc : 0 < c) (hP0 : 0 ≤ P) (hQ0 : 0 ≤ Q)
    (hPQ : P * s + Q * c ≤ s * c) (hR0 : 0 < R) (hR1 : R ≤ 1) :
    -2 ≤ (3 * R - 1) / (2 * c) * P - (3 * R + 1) / (2 * s) * Q ∧
    (3 * R - 1) / (2 * c) * P - (3 * R + 1) / (2 * s) * Q ≤ 1 := by
  obtain ⟨p, hp⟩ : ∃ p, p = P / c := ⟨_, rfl⟩
  obtain ⟨q, hq⟩ : ∃ q, q = Q / s := ⟨_, rfl⟩
  have hp0 : 0 ≤ p := by rw [hp]; positivity
  have hq0 : 0 ≤ q := by rw [hq]; positivity
  have hpq : p + q ≤ 1 := by
    rw [hp, hq, div_add_div _ _ hc.ne' hs.ne', div_le_one (by positivity)]; linarith
  have e : (3 * R - 1) / (2 * c) * P - (3 * R + 1) / (2 * s) * Q = (3 * R - 1) / 2 * p - (3 * R + 1) / 2 * q := by
    rw [hp, hq]; field_simp
  rw [e]
  constructor <;> nlinarith [mul_nonneg hp0 hR0.le, mul_nonneg hq0 hR0.le]

end Pymeeus.Refine.Ellipsoid
