import Pymeeus.Refine.Finders
import Pymeeus.Refine.EpochReal
import Pymeeus.Props.C16
/-
C13, lifting from "for every fractional year y" to "for every query JDE": `Epoch.year` of an arbitrary
rational instant (closed form, strict monotonicity, the values at the ends of the accepted range, the
distance between `365.2425·year() + 1721060` and the instant itself), composed from the theorems about
the exact calendar model (Refine/Instant.lean, Refine/YearOrder.lean, Props/C16.lean), and the returned
`Epoch(jde0 + corr)` (Refine/EpochReal.lean).
-/
namespace Pymeeus.Refine.Finders
open Pymeeus Pymeeus.PR Pymeeus.GenR Pymeeus.Finders Pymeeus.Spec Pymeeus.Refine

/-! ### Every instant is a civil date plus a day fraction -/

/-- `j` is the instant `f` of a day after 0h of the civil date `(y, m, d)`. -/
structure AtDate (j : ℚ) (y m d : ℤ) (f : ℚ) : Prop where
  hv : Valid y m d
  f0 : 0 ≤ f
  f1 : f < 1
  hj : j = (jdnI y m d : ℚ) - 1 / 2 + f

theorem exists_date (j : ℚ) (hj : 0 ≤ j) : ∃ y m d f, AtDate j y m d f := by
  have hz : 0 ≤ ⌊j + 1 / 2⌋ := Int.floor_nonneg.mpr (by linarith)
  obtain ⟨y, m, d, hv, hn⟩ := EpochReal.exists_civil ⌊j + 1 / 2⌋.toNat
  refine ⟨y, m, d, Int.fract (j + 1 / 2), hv, Int.fract_nonneg _, Int.fract_lt_one _, ?_⟩
  rw [hn, Int.toNat_of_nonneg hz]
  have := Int.floor_add_fract (j + 1 / 2)
  linarith

/-- First instant at which `Epoch.year()` no longer answers (1 January 10000, 0h): `datetime.date` stops at 9999. -/
def jMax : ℚ := 5373484.5

theorem jdn_10000 : jdnI 10000 1 1 = 5373485 := by decide
theorem jdn_m2000 : jdnI (-2000) 1 1 = 990558 := by decide
theorem jdn_4000 : jdnI 4000 1 1 = 3182030 := by decide

theorem AtDate.year_le {j : ℚ} {y m d : ℤ} {f : ℚ} (h : AtDate j y m d f) (hlt : j < jMax) : y ≤ 9999 := by
  by_contra hc
  have hy : 10000 ≤ y := by omega
  have h0 : jdnI 10000 1 1 ≤ jdnI y m d := by
    rcases eq_or_lt_of_le hy with e | l
    · subst e; exact (jdnI_in_year 10000 m d h.hv).1
    · exact le_of_lt (jdnI_lt_of_year_lt 10000 1 1 y m d (by decide) h.hv l)
  rw [jdn_10000] at h0
  have : (5373485 : ℚ) ≤ (jdnI y m d : ℚ) := by exact_mod_cast h0
  have hj := h.hj
  have f0 := h.f0
  unfold jMax at hlt
  norm_num at hlt
  linarith

/-- `Epoch.year()` at the instant `f` of the civil date `(y, m, d)`. -/
def yearAt (y m d : ℤ) (f : ℚ) : ℚ :=
  (y : ℚ) + (((jdnI y m d - jdnI y 1 1 : Int) : ℚ) + f) / (if Spec.leap y then 366 else 365)

theorem AtDate.year_eq {j : ℚ} {y m d : ℤ} {f : ℚ} (h : AtDate j y m d f) (hlt : j < jMax) :
    GenQ.year j = .ok (yearAt y m d f) := by
  rw [h.hj]
  exact year_valid y m d f h.hv (h.year_le hlt) h.f0 h.f1

/-- `Epoch.year()` answers at every instant from JDE 0 to the end of year 9999. -/
theorem year_total (j : ℚ) (h0 : 0 ≤ j) (hlt : j < jMax) : ∃ v, GenQ.year j = .ok v := by
  obtain ⟨y, m, d, f, h⟩ := exists_date j h0
  exact ⟨_, h.year_eq hlt⟩

/-- `Epoch.year()` is strictly increasing in the instant (C16.year_strictly_increasing, restated on the JDE). -/
theorem year_lt {j1 j2 v1 v2 : ℚ} (h0 : 0 ≤ j1) (hlt : j1 < j2) (hmax : j2 < jMax)
    (e1 : GenQ.year j1 = .ok v1) (e2 : GenQ.year j2 = .ok v2) : v1 < v2 := by
  obtain ⟨y1, m1, d1, f1, a1⟩ := exists_date j1 h0
  obtain ⟨y2, m2, d2, f2, a2⟩ := exists_date j2 (by linarith)
  have c1 := compute_jde_frac y1 m1 d1 f1 a1.f0 a1.f1 a1.hv
  have c2 := compute_jde_frac y2 m2 d2 f2 a2.f0 a2.f1 a2.hv
  rw [← a1.hj] at c1
  rw [← a2.hj] at c2
  obtain ⟨w1, w2, g1, g2, hw⟩ := C16.year_strictly_increasing y1 m1 d1 y2 m2 d2 f1 f2 a1.hv a2.hv
    (a1.year_le (by linarith)) (a2.year_le hmax) a1.f0 a1.f1 a2.f0 a2.f1 (by rw [c1, c2]; exact hlt)
  rw [c1] at g1
  rw [c2] at g2
  rw [e1] at g1
  rw [e2] at g2
  cases g1; cases g2
  exact hw

theorem year_le {j1 j2 v1 v2 : ℚ} (h0 : 0 ≤ j1) (hle : j1 ≤ j2) (hmax : j2 < jMax)
    (e1 : GenQ.year j1 = .ok v1) (e2 : GenQ.year j2 = .ok v2) : v1 ≤ v2 := by
  rcases eq_or_lt_of_le hle with e | l
  · subst e; rw [e1] at e2; cases e2; exact le_refl _
  · exact le_of_lt (year_lt h0 l hmax e1 e2)

/-- -2000 January 1, 0h and 4000 January 1, 0h: the ends of the accepted range. -/
def jLo : ℚ := 990557.5
def jHi : ℚ := 3182029.5

theorem year_jLo : GenQ.year jLo = .ok (-2000) := by
  have := year_valid (-2000) 1 1 0 (by decide) (by decide) le_rfl (by norm_num)
  rw [jdn_m2000] at this
  have e : ((990558 : ℤ) : ℚ) - 1 / 2 + 0 = jLo := by unfold jLo; norm_num
  rw [e] at this
  rw [this]; congr 1; norm_num

theorem year_jHi : GenQ.year jHi = .ok 4000 := by
  have := year_valid 4000 1 1 0 (by decide) (by decide) le_rfl (by norm_num)
  rw [jdn_4000] at this
  have e : ((3182030 : ℤ) : ℚ) - 1 / 2 + 0 = jHi := by unfold jHi; norm_num
  rw [e] at this
  rw [this]; congr 1; norm_num

theorem jLo_nonneg : (0 : ℚ) ≤ jLo := by unfold jLo; norm_num
theorem jHi_lt_jMax : jHi < jMax := by unfold jHi jMax; norm_num
theorem jLo_le_jHi : jLo ≤ jHi := by unfold jLo jHi; norm_num

/-- the year is below -2000 exactly before -2000 January 1.0, above 4000 exactly after 4000 January 1.0 -/
theorem year_range {j v : ℚ} (h0 : 0 ≤ j) (hmax : j < jMax) (e : GenQ.year j = .ok v) :
    (v < -2000 ↔ j < jLo) ∧ (4000 < v ↔ jHi < j) := by
  constructor
  · constructor
    · intro hv
      by_contra hc
      have := year_le jLo_nonneg (not_lt.1 hc) hmax year_jLo e
      linarith
    · intro hj
      exact year_lt h0 hj (lt_of_le_of_lt jLo_le_jHi jHi_lt_jMax) e year_jLo
  · constructor
    · intro hv
      by_contra hc
      have := year_le h0 (not_lt.1 hc) jHi_lt_jMax e year_jHi
      linarith
    · intro hj
      exact year_lt (le_trans jLo_nonneg jLo_le_jHi) hj hmax year_jHi e

/-! ### The calendar term: `365.2425·year() + 1721060` against the instant itself -/

theorem jdn_jan1 (y : Int) : jdnI y 1 1 =
    (1461 * (y - 1 + 4716)) / 4 + 428 + 1 + (if y ≤ 1582 then 0 else 2 - (y - 1) / 100 + (y - 1) / 100 / 4) - 1524 := by
  unfold jdnI isJulianI
  by_cases h : y ≤ 1582
  · have h1 : y - 1 < 1582 := by omega
    simp [h, h1]
  · have h1 : ¬ y - 1 < 1582 := by omega
    by_cases h3 : y - 1 = 1582 <;> simp [h, h1, h3]

/-- `365.2425 y + 1721060.5 - JD(1 January y)` lies in [-10.2, 17.5] for -2000 ≤ y ≤ 4000 (times 10000). The maximum
    17.5 days is reached on 1 January -2000: the Julian calendar runs 0.0075 day per year against 365.2425. -/
theorem jan1_offset (y : Int) (h1 : -2000 ≤ y) (h2 : y ≤ 4000) :
    -102000 ≤ 3652425 * y + 17210605000 - 10000 * jdnI y 1 1 ∧
    3652425 * y + 17210605000 - 10000 * jdnI y 1 1 ≤ 175000 := by
  rw [jdn_jan1]
  split_ifs with h <;> constructor <;> omega

/-- On the accepted range the query instant is within 18 days of `365.2425·year() + 1721060`
    (between -10.96 and +17.75 days). -/
theorem calendar_term {j v : ℚ} (h0 : 0 ≤ j) (hmax : j < jMax) (e : GenQ.year j = .ok v)
    (hv1 : -2000 ≤ v) (hv2 : v ≤ 4000) : |365.2425 * v + 1721060 - j| ≤ 18 := by
  obtain ⟨y, m, d, f, a⟩ := exists_date j h0
  have ev := a.year_eq hmax
  rw [e] at ev
  cases ev
  obtain ⟨i1, i2⟩ := jdnI_in_year y m d a.hv
  have i3 := leap_le_yearLen y
  have f0 := a.f0
  have f1 := a.f1
  have hj := a.hj
  set N : ℚ := (if Spec.leap y then 366 else 365) with hN
  have hNpos : (0 : ℚ) < N := by rw [hN]; split_ifs <;> norm_num
  set u : ℚ := ((jdnI y m d - jdnI y 1 1 : Int) : ℚ) + f with hu
  have u0 : 0 ≤ u := by
    have : (0 : ℚ) ≤ ((jdnI y m d - jdnI y 1 1 : Int) : ℚ) := by exact_mod_cast (by omega : 0 ≤ jdnI y m d - jdnI y 1 1)
    linarith
  have u1 : u < N := by
    have hi : jdnI y m d - jdnI y 1 1 + 1 ≤ (if Spec.leap y then 366 else 365 : Int) := by omega
    have q : (((jdnI y m d - jdnI y 1 1 + 1 : Int)) : ℚ) ≤ (((if Spec.leap y then 366 else 365 : Int)) : ℚ) := by exact_mod_cast hi
    have hu' : u = (jdnI y m d : ℚ) - (jdnI y 1 1 : ℚ) + f := by rw [hu]; push_cast; ring
    rw [hN]
    push_cast at q
    split_ifs at q ⊢ <;> linarith
  set w : ℚ := u / N with hw
  have w0 : 0 ≤ w := div_nonneg u0 hNpos.le
  have w1 : w < 1 := (div_lt_one hNpos).mpr u1
  have hwN : w * N = u := div_mul_cancel₀ u hNpos.ne'
  have hv : yearAt y m d f = (y : ℚ) + w := rfl
  rw [hv] at hv1 hv2 ⊢
  have hy1 : -2000 ≤ y := by
    have : ((-2001 : ℤ) : ℚ) < (y : ℚ) := by push_cast; linarith
    have : (-2001 : ℤ) < y := by exact_mod_cast this
    omega
  have hy2 : y ≤ 4000 := by
    have : (y : ℚ) ≤ ((4000 : ℤ) : ℚ) := by push_cast; linarith
    exact_mod_cast this
  obtain ⟨b1, b2⟩ := jan1_offset y hy1 hy2
  have c1 : (-102000 : ℚ) ≤ 3652425 * (y : ℚ) + 17210605000 - 10000 * (jdnI y 1 1 : ℚ) := by exact_mod_cast b1
  have c2 : 3652425 * (y : ℚ) + 17210605000 - 10000 * (jdnI y 1 1 : ℚ) ≤ 175000 := by exact_mod_cast b2
  have hj' : j = (jdnI y 1 1 : ℚ) - 1 / 2 + w * N := by
    rw [hwN, hu, hj]; push_cast; ring
  rw [hj', abs_le]
  have hNv : N = 366 ∨ N = 365 := by rw [hN]; split_ifs <;> simp
  rcases hNv with hn | hn <;> rw [hn] <;> constructor <;> norm_num <;> linarith

/-! ### The whole finder from the query JDE -/

/-- On the accepted range the result `jde0 + corr` is a non-negative JDE. -/
theorem result_nonneg {r : Finder} (h : OkR r) {y : ℝ} (hy1 : -2000 ≤ y) (hy2 : y ≤ 4000) :
    0 ≤ finder_result r (finder_k r y) := by
  have ht := abs_le.1 (t_bound h hy1 hy2)
  have hc := abs_le.1 (corr_bound r _ (t_bound h hy1 hy2))
  have htc := h.htc
  have hp := h.hpos
  have hm := neg_abs_le ((r.corrMid : ℚ) : ℝ)
  unfold finder_t at ht
  have := (le_div_iff₀ htc).1 ht.1
  unfold finder_result
  linarith [hc.1]

/-- From `y = epoch.year()` to the returned objects: ValueError outside [-2000, 4000]; inside, the returned
    Epoch stores exactly `jde0 + corr` of the count `k(y)` (`Epoch(x)` is the identity on x ≥ 0 in the exact model). -/
theorem finder_epoch_spec {r : Finder} (h : OkR r) (y : ℝ) :
    finder_epoch r y = (if y < -2000 ∨ 4000 < y then .error .valueError
      else .ok ({ jde := finder_result r (finder_k r y) }, finder_elon r (finder_k r y))) := by
  unfold finder_epoch
  rw [finder_raw_spec h y]
  by_cases c : y < -2000 ∨ 4000 < y
  · simp [c]
  · have c' := not_or.1 c
    simp only [c, if_false]
    rw [EpochReal.set_jde_exact_real _ (result_nonneg h (not_lt.1 c'.1) (not_lt.1 c'.2))]

/-- The whole finder from the query's `_jde`, given the value of `Epoch.year()` there. -/
theorem finder_from_jde_spec {r : Finder} (h : OkR r) {j v : ℚ} (e : GenQ.year j = .ok v) :
    finder_from_jde r j = (if v < -2000 ∨ 4000 < v then .error .valueError
      else .ok ({ jde := finder_result r (finder_k r ((v : ℚ) : ℝ)) }, finder_elon r (finder_k r ((v : ℚ) : ℝ)))) := by
  unfold finder_from_jde
  rw [e]
  simp only [finder_epoch_spec h]
  have a1 : (((v : ℚ) : ℝ) < -2000) ↔ v < -2000 := by
    rw [show (-2000 : ℝ) = ((-2000 : ℚ) : ℝ) by norm_num]; exact Rat.cast_lt
  have a2 : ((4000 : ℝ) < ((v : ℚ) : ℝ)) ↔ 4000 < v := by
    rw [show (4000 : ℝ) = ((4000 : ℚ) : ℝ) by norm_num]; exact Rat.cast_lt
  simp only [a1, a2]

/-- What an answered query tells: the year is in [-2000, 4000], the returned Epoch stores `jde0 + corr`. -/
theorem from_jde_ok_inv {r : Finder} (h : OkR r) {j : ℚ} (h0 : 0 ≤ j) (hmax : j < jMax) {ep : Epoch} {el : Option ℝ}
    (hres : finder_from_jde r j = .ok (ep, el)) :
    ∃ v : ℚ, GenQ.year j = .ok v ∧ -2000 ≤ v ∧ v ≤ 4000 ∧ ep.jde = finder_result r (finder_k r ((v : ℚ) : ℝ)) ∧
      finder_raw r ((v : ℚ) : ℝ) = .ok ep.jde := by
  obtain ⟨v, ev⟩ := year_total j h0 hmax
  rw [finder_from_jde_spec h ev] at hres
  by_cases c : v < -2000 ∨ 4000 < v
  · simp [c] at hres
  · simp only [c, if_false, Except.ok.injEq, Prod.mk.injEq] at hres
    have c' := not_or.1 c
    have hv1 : -2000 ≤ v := not_lt.1 c'.1
    have hv2 : v ≤ 4000 := not_lt.1 c'.2
    have e1 : ep.jde = finder_result r (finder_k r ((v : ℚ) : ℝ)) := by rw [← hres.1]
    refine ⟨v, ev, hv1, hv2, e1, ?_⟩
    rw [finder_raw_spec h, e1]
    have a1 : ¬ ((((v : ℚ) : ℝ) < -2000) ∨ (4000 : ℝ) < ((v : ℚ) : ℝ)) := by
      have b1 : ((-2000 : ℚ) : ℝ) ≤ ((v : ℚ) : ℝ) := Rat.cast_le.2 hv1
      have b2 : ((v : ℚ) : ℝ) ≤ ((4000 : ℚ) : ℝ) := Rat.cast_le.2 hv2
      push_cast at b1 b2
      intro hh; rcases hh with hh | hh <;> linarith
    simp [a1]

end Pymeeus.Refine.Finders
