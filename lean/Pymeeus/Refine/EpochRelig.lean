import Pymeeus.Refine.EpochCore
import Pymeeus.Gen.Q.EpochRelig
/-
Integer forms of the exact (Rat) model of the religious-calendar functions
(templates/EpochRelig.lean): every floor of a decimal expression becomes an integer floor
division, Python's `%` becomes `Int.emod`.  The property theorems use the integer forms.
-/
namespace Pymeeus.Refine
open Pymeeus Pymeeus.PQ Pymeeus.GenQ

theorem imod_pos (x n : Int) (hn : 0 ≤ n) : imod x n = x % n := by
  unfold imod; exact Int.fmod_eq_emod_of_nonneg x hn

/-- `pfloor (p / q)` for an integer numerator and a positive integer denominator. -/
theorem pfloor_div (x : ℚ) (n d : Int) (hd : 0 < d) (h : x * d = n) : pfloor x = n / d := by
  unfold pfloor; exact rat_floor_eq_div n d hd h

/-! ### Easter -/

def easterI (y : Int) : Int × Int :=
  if y ≥ 1583 then
    let a := y % 19
    let b := y / 100
    let c := y % 100
    let d := b / 4
    let e := b % 4
    let f := (b + 8) / 25
    let g := (b - f + 1) / 3
    let h := (19 * a + b - d - g + 15) % 30
    let i := c / 4
    let k := c % 4
    let l := (32 + 2 * (e + i) - h - k) % 7
    let m := (a + 11 * h + 22 * l) / 451
    ((h + l - 7 * m + 114) / 31, (h + l - 7 * m + 114) % 31 + 1)
  else
    let a := y % 4
    let b := y % 7
    let c := y % 19
    let d := (19 * c + 15) % 30
    let e := (2 * a + 4 * b - d + 34) % 7
    ((d + e + 114) / 31, (d + e + 114) % 31 + 1)

theorem fl_div100 (x : Int) : pfloor (ofInt x / 100.0) = x / 100 :=
  pfloor_div _ _ _ (by norm_num) (by norm_num [ofInt])
theorem fl_div4 (x : Int) : pfloor (ofInt x / 4.0) = x / 4 :=
  pfloor_div _ _ _ (by norm_num) (by norm_num [ofInt])
theorem fl_div451 (x : Int) : pfloor (ofInt x / 451.0) = x / 451 :=
  pfloor_div _ _ _ (by norm_num) (by norm_num [ofInt])
theorem fl_div31 (x : Int) : pfloor (ofInt x / 31.0) = x / 31 :=
  pfloor_div _ _ _ (by norm_num) (by norm_num [ofInt])
theorem fl_b8_25 (x : Int) : pfloor ((ofInt x + 8.0) / 25.0) = (x + 8) / 25 :=
  pfloor_div _ _ _ (by norm_num) (by norm_num [ofInt])
theorem fl_p1_3 (x : Int) : pfloor ((ofInt x + 1.0) / 3.0) = (x + 1) / 3 :=
  pfloor_div _ _ _ (by norm_num) (by norm_num [ofInt])

theorem easter_int (y : Int) : easter y = easterI y := by
  unfold easter easterI
  simp only [fl_div100, fl_div4, fl_div451, fl_div31, fl_b8_25, fl_p1_3,
    imod_pos _ 19 (by decide), imod_pos _ 100 (by decide), imod_pos _ 4 (by decide),
    imod_pos _ 30 (by decide), imod_pos _ 7 (by decide), imod_pos _ 31 (by decide)]

/-! ### Pesach -/

/-- `q · 10¹²` of `jewish_pesach` (all decimal constants have at most 12 decimals) -/
def pesachS (y : Int) : Int := if y < 1583 then 0 else (3 * (y / 100) - 5) / 4
def pesachNum (y : Int) : Int :=
  -1904412361576 + 1554241796621 * ((12 * (y + 1)) % 19) + 250000000000 * (y % 4)
    - 3177794022 * y + 1000000000000 * pesachS y

def pesachI (y : Int) : Int × Int :=
  let s := pesachS y
  let a := (12 * (y + 1)) % 19
  let b := y % 4
  let fq := pesachNum y / 1000000000000
  let rr := pesachNum y % 1000000000000
  let j := (fq + 3 * y + 5 * b + 2 - s) % 7
  let d : Int :=
    if j = 2 ∨ j = 4 ∨ j = 6 then fq + 23
    else if j = 1 ∧ a > 6 ∧ 632870370000 < rr then fq + 24
    else if j = 0 ∧ a > 11 ∧ 897723765000 < rr then fq + 23
    else fq + 22
  if d > 31 then (4, d - 31) else (3, d)

theorem fl_3c5 (c : Int) : pfloor ((3.0 * ofInt c - 5.0) / 4.0) = (3 * c - 5) / 4 :=
  pfloor_div _ _ _ (by norm_num) (by norm_num [ofInt])

theorem jewish_pesach_int (y : Int) : jewish_pesach y = pesachI y := by
  have hq : (-1.904412361576 + 1.554241796621 * ofInt ((12 * (y + 1)) % 19) + 0.25 * ofInt (y % 4)
      - 0.003177794022 * ofInt y + ofInt (pesachS y) : ℚ) = (pesachNum y : ℚ) / 1000000000000 := by
    unfold pesachNum ofInt; push_cast; norm_num; ring
  have hfl : pfloor ((pesachNum y : ℚ) / 1000000000000) = pesachNum y / 1000000000000 :=
    pfloor_div _ _ _ (by norm_num) (by norm_num)
  have hr : (pesachNum y : ℚ) / 1000000000000 - ofInt (pesachNum y / 1000000000000)
      = ((pesachNum y % 1000000000000 : Int) : ℚ) / 1000000000000 := by
    rw [Int.emod_def]; unfold ofInt; push_cast; ring
  have ht1 : ∀ r : Int, plt 0.632870370 ((r : ℚ) / 1000000000000) = true ↔ 632870370000 < r := by
    intro r; unfold plt; rw [decide_eq_true_iff, lt_div_iff₀ (by norm_num)]
    rw [show (0.632870370 : ℚ) * 1000000000000 = ((632870370000 : Int) : ℚ) by norm_num]
    exact_mod_cast Iff.rfl
  have ht2 : ∀ r : Int, plt 0.897723765 ((r : ℚ) / 1000000000000) = true ↔ 897723765000 < r := by
    intro r; unfold plt; rw [decide_eq_true_iff, lt_div_iff₀ (by norm_num)]
    rw [show (0.897723765 : ℚ) * 1000000000000 = ((897723765000 : Int) : ℚ) by norm_num]
    exact_mod_cast Iff.rfl
  unfold jewish_pesach pesachI
  simp only [fl_div100, fl_3c5, imod_pos _ 19 (by decide), imod_pos _ 4 (by decide), imod_pos _ 7 (by decide)]
  rw [show (if y < 1583 then 0 else (3 * (y / 100) - 5) / 4) = pesachS y from rfl]
  simp only [hq, hfl, hr, ht1, ht2]

end Pymeeus.Refine
