import Pymeeus.Refine.EpochCore
import Pymeeus.Gen.Q.EpochRelig
/-
Integer forms of the exact (Rat) model of the religious-calendar functions
(templates/EpochRelig.lean): every floor of a decimal expression becomes an integer floor
division, Python's `%` becomes `Int.emod`.  The property theorems use the integer forms.
-/
namespace Pymeeus.Refine
open Pymeeus Pymeeus.PQ Pymeeus.GenQ

theorem imod_pos (x n : Int) (hn : 0 ≤ n) : imod x n = x % n := by
  unfold imod; exact Int.fmod_eq_emod_of_nonneg x hn

/-- `pfloor (p / q)` for an integer numerator and a positive integer denominator. -/
theorem pfloor_div (x : ℚ) (n d : Int) (hd : 0 < d) (h : x * d = n) : pfloor x = n / d := by
  unfold pfloor; exact rat_floor_eq_div n d hd h

/-! ### Easter -/

def easterI (y : Int) : Int × Int :=
  if y ≥ 1583 then
    let a := y % 19
    let b := y / 100
    let c := y % 100
    let d := b / 4
    let e := b % 4
    let f := (b + 8) / 25
    let g := (b - f + 1) / 3
    let h := (19 * a + b - d - g + 15) % 30
    let i := c / 4
    let k := c % 4
    let l := (32 + 2 * (e + i) - h - k) % 7
    let m := (a + 11 * h + 22 * l) / 451
    ((h + l - 7 * m + 114) / 31, (h + l - 7 * m + 114) % 31 + 1)
  else
    let a := y % 4
    let b := y % 7
    let c := y % 19
    let d := (19 * c + 15) % 30
    let e := (2 * a + 4 * b - d + 34) % 7
    ((d + e + 114) / 31, (d + e + 114) % 31 + 1)

theorem fl_div100 (x : Int) : pfloor (ofInt x / 100.0) = x / 100 :=
  pfloor_div _ _ _ (by norm_num) (by norm_num [ofInt])
theorem fl_div4 (x : Int) : pfloor (ofInt x / 4.0) = x / 4 :=
  pfloor_div _ _ _ (by norm_num) (by norm_num [ofInt])
theorem fl_div451 (x : Int) : pfloor (ofInt x / 451.0) = x / 451 :=
  pfloor_div _ _ _ (by norm_num) (by norm_num [ofInt])
theorem fl_div31 (x : Int) : pfloor (ofInt x / 31.0) = x / 31 :=
  pfloor_div _ _ _ (by norm_num) (by norm_num [ofInt])
theorem fl_b8_25 (x : Int) : pfloor ((ofInt x + 8.0) / 25.0) = (x + 8) / 25 :=
  pfloor_div _ _ _ (by norm_num) (by norm_num [ofInt])
theorem fl_p1_3 (x : Int) : pfloor ((ofInt x + 1.0) / 3.0) = (x + 1) / 3 :=
  pfloor_div _ _ _ (by norm_num) (by norm_num [ofInt])

theorem easter_int (y : Int) : easter y = easterI y := by
  unfold easter easterI
  simp only [fl_div100, fl_div4, fl_div451, fl_div31, fl_b8_25, fl_p1_3,
    imod_pos _ 19 (by decide), imod_pos _ 100 (by decide), imod_pos _ 4 (by decide),
    imod_pos _ 30 (by decide), imod_pos _ 7 (by decide), imod_pos _ 31 (by decide)]

/-! ### Pesach -/

/-- `q · 10¹²` of `jewish_pesach` (all decimal constants have at most 12 decimals) -/
def pesachS (y : Int) : Int := if y < 1583 then 0 else (3 * (y / 100) - 5) / 4
def pesachNum (y : Int) : Int :=
  -1904412361576 + 1554241796621 * ((12 * (y + 1)) % 19) + 250000000000 * (y % 4)
    - 3177794022 * y + 1000000000000 * pesachS y

def pesachI (y : Int) : Int × Int :=
  let s := pesachS y
  let a := (12 * (y + 1)) % 19
  let b := y % 4
  let fq := pesachNum y / 1000000000000
  let rr := pesachNum y % 1000000000000
  let j := (fq + 3 * y + 5 * b + 2 - s) % 7
  let d : Int :=
    if j = 2 ∨ j = 4 ∨ j = 6 then fq + 23
    else if j = 1 ∧ a > 6 ∧ 632870370000 < rr then fq + 24
    else if j = 0 ∧ a > 11 ∧ 897723765000 < rr then fq + 23
    else fq + 22
  if d > 31 then (4, d - 31) else (3, d)

theorem fl_3c5 (c : Int) : pfloor ((3.0 * ofInt c - 5.0) / 4.0) = (3 * c - 5) / 4 :=
  pfloor_div _ _ _ (by norm_num) (by norm_num [ofInt])

theorem jewish_pesach_int (y : Int) : jewish_pesach y = pesachI y := by
  have hq : (-1.904412361576 + 1.554241796621 * ofInt ((12 * (y + 1)) % 19) + 0.25 * ofInt (y % 4)
      - 0.003177794022 * ofInt y + ofInt (pesachS y) : ℚ) = (pesachNum y : ℚ) / 1000000000000 := by
    unfold pesachNum ofInt; push_cast; norm_num; ring
  have hfl : pfloor ((pesachNum y : ℚ) / 1000000000000) = pesachNum y / 1000000000000 :=
    pfloor_div _ _ _ (by norm_num) (by norm_num)
  have hr : (pesachNum y : ℚ) / 1000000000000 - ofInt (pesachNum y / 1000000000000)
      = ((pesachNum y % 1000000000000 : Int) : ℚ) / 1000000000000 := by
    rw [Int.emod_def]; unfold ofInt; push_cast; ring
  have ht1 : ∀ r : Int, plt 0.632870370 ((r : ℚ) / 1000000000000) = true ↔ 632870370000 < r := by
    intro r; unfold plt; rw [decide_eq_true_iff, lt_div_iff₀ (by norm_num)]
    rw [show (0.632870370 : ℚ) * 1000000000000 = ((632870370000 : Int) : ℚ) by norm_num]
    exact_mod_cast Iff.rfl
  have ht2 : ∀ r : Int, plt 0.897723765 ((r : ℚ) / 1000000000000) = true ↔ 897723765000 < r := by
    intro r; unfold plt; rw [decide_eq_true_iff, lt_div_iff₀ (by norm_num)]
    rw [show (0.897723765 : ℚ) * 1000000000000 = ((897723765000 : Int) : ℚ) by norm_num]
    exact_mod_cast Iff.rfl
  unfold jewish_pesach pesachI
  simp only [fl_div100, fl_3c5, imod_pos _ 19 (by decide), imod_pos _ 4 (by decide), imod_pos _ 7 (by decide)]
  rw [show (if y < 1583 then 0 else (3 * (y / 100) - 5) / 4) = pesachS y from rfl]
  simp only [hq, hfl, hr, ht1, ht2]

/-! ### Moslem calendar -> civil calendar -/

/-- the day value of the result of `moslem2gregorian` (an `int` or a float) -/
def dayQ : Int ⊕ ℚ → ℚ
  | .inl d => (d : ℚ)
  | .inr x => x

/-- integer form of the Julian branch of `doy2date` -/
def doy2dateI (year doy : Int) : Int × Int × Int :=
  let doy := if year = 1582 ∧ doy > 277 then doy + 10 else doy
  let k : Int := if is_leap year then 1 else 2
  let m : Int := if doy < 32 then 1 else (900 * (k + doy) + 26950) / 27500
  (year, m, doy - (275 * m) / 9 + k * ((m + 9) / 12) + 30)

theorem fl_doy_m (x : Int) : pfloor ((9.0 * ofInt x) / 275.0 + 0.98) = (900 * x + 26950) / 27500 :=
  pfloor_div _ _ _ (by norm_num) (by norm_num [ofInt]; ring)
theorem fl_275_9 (m : Int) : pfloor ((275.0 * ofInt m) / 9.0) = (275 * m) / 9 :=
  pfloor_div _ _ _ (by norm_num) (by norm_num [ofInt])
theorem fl_m9_12 (m : Int) : pfloor ((ofInt m + 9.0) / 12.0) = (m + 9) / 12 :=
  pfloor_div _ _ _ (by norm_num) (by norm_num [ofInt])

theorem relig_doy2date_julian_int (year doy : Int) :
    relig_doy2date_julian year doy = ((doy2dateI year doy).1, (doy2dateI year doy).2.1, ((doy2dateI year doy).2.2 : ℚ)) := by
  unfold relig_doy2date_julian doy2dateI
  simp only [fl_doy_m, fl_275_9, fl_m9_12, imod_pos _ 1 (by decide), Int.emod_one]
  simp [ofInt]

/-- `(j, x)`: day of the year and Julian-calendar year, before the final conversion -/
def m2gJX (h m d : Int) : Int × Int :=
  let n := d + (295001 * (m - 1) + 9900) / 10000
  let q := h / 30
  let r := h % 30
  let a := (11 * r + 3) / 30
  let w := 404 * q + 354 * r + 208 + a
  let q1 := w / 1461
  let q2 := w % 1461
  let g := 621 + 4 * (7 * q + q1)
  let k := (10000 * q2) / 3652422
  let e := (3652422 * k) / 10000
  let j := q2 - e + n - 1
  let x := g + k
  if j > 366 ∧ x % 4 = 0 then (j - 366, x + 1)
  else if j > 365 ∧ x % 4 > 0 then (j - 365, x + 1)
  else (j, x)

def m2gI (h m d : Int) : PyRes (Int × Int × (Int ⊕ ℚ)) :=
  if d < 1 ∨ d > 30 ∨ m < 1 ∨ m > 12 ∨ h < 1 then .error .valueError else
  let j := (m2gJX h m d).1
  let x := (m2gJX h m d).2
  if x > 1582 ∨ (x = 1582 ∧ j > 277) ∨ j < 1 then
    let t := invI ((1461 * (x - 1)) / 4 + 1721423 + j)
    let month := if t.1 < 14 then t.1 - 1 else t.1 - 13
    let year := if month > 2 then t.2.1 - 4716 else t.2.1 - 4715
    .ok (year, month, .inl t.2.2)
  else
    .ok ((doy2dateI x j).1, (doy2dateI x j).2.1, .inr ((doy2dateI x j).2.2 : ℚ))

theorem fl_n (m : Int) : pfloor (29.5001 * ofInt m + 0.99) = (295001 * m + 9900) / 10000 :=
  pfloor_div _ _ _ (by norm_num) (by norm_num [ofInt]; ring)
theorem fl_div30 (x : Int) : pfloor (ofInt x / 30.0) = x / 30 :=
  pfloor_div _ _ _ (by norm_num) (by norm_num [ofInt])
theorem fl_11r3 (r : Int) : pfloor ((11.0 * ofInt r + 3.0) / 30.0) = (11 * r + 3) / 30 :=
  pfloor_div _ _ _ (by norm_num) (by norm_num [ofInt])
theorem fl_div1461 (x : Int) : pfloor (ofInt x / 1461.0) = x / 1461 :=
  pfloor_div _ _ _ (by norm_num) (by norm_num [ofInt])
theorem fl_7q (q q1 : Int) : pfloor (7.0 * ofInt q + ofInt q1) = 7 * q + q1 := by
  rw [pfloor_div _ (7 * q + q1) 1 (by norm_num) (by norm_num [ofInt])]; simp
theorem fl_k (x : Int) : pfloor (ofInt x / 365.2422) = (10000 * x) / 3652422 :=
  pfloor_div _ _ _ (by norm_num) (by norm_num [ofInt]; ring)
theorem fl_e (k : Int) : pfloor (365.2422 * ofInt k) = (3652422 * k) / 10000 :=
  pfloor_div _ _ _ (by norm_num) (by norm_num [ofInt]; ring)
theorem fl_jd (x : Int) : pfloor (365.25 * (ofInt x - 1.0)) = (1461 * (x - 1)) / 4 :=
  pfloor_div _ _ _ (by norm_num) (by norm_num [ofInt]; ring)

theorem moslem2gregorian_int (h m d : Int) : moslem2gregorian h m d = m2gI h m d := by
  unfold moslem2gregorian m2gI m2gJX
  simp only [fl_n, fl_div30, fl_11r3, fl_div1461, fl_7q, fl_k, fl_e, fl_jd, floor_alpha, floor_a4, floor_c,
    floor_d, floor_e, floor_e2, relig_doy2date_julian_int,
    imod_pos _ 30 (by decide), imod_pos _ 1461 (by decide), imod_pos _ 4 (by decide)]
  rfl

/-! ### civil calendar -> Moslem calendar -/

/-- integer form of `g2m_head`: `(h, jj)` from the Julian-calendar date `(e, c, day) = invA (day number)` -/
def g2mFromInv (t : Int × Int × Int) : Int × Int :=
  let d := t.2.2
  let m := if t.1 < 14 then t.1 - 1 else t.1 - 13
  let x := if m > 2 then t.2.1 - 4716 else t.2.1 - 4715
  let w : Int := if x % 4 = 0 then 1 else 2
  let n := (275 * m) / 9 - w * ((m + 9) / 12) + d - 30
  let a := x - 623
  let b := a / 4
  let c := a % 4
  let c2 := if 5000 < (3652501 * c) % 10000 then (3652501 * c) / 10000 + 1 else (3652501 * c) / 10000
  let dp := 1461 * b + 170 + c2
  let q := dp / 10631
  let r := dp % 10631
  let j := r / 354
  let k := r % 354
  let o := (11 * j + 14) / 30
  (30 * q + j + 1, k - o + n - 1)

/-- the quantity `b - 1524` of `gregorian2moslem`: the day number of the civil date -/
def g2mDayNumber (year month day : Int) : Int :=
  let xm : Int × Int := if month < 3 then (year - 1, month + 12) else (year, month)
  let x := xm.1
  let m := xm.2
  let alpha := x / 100
  let beta := if isJulianI year month day then 0 else 2 - alpha + alpha / 4
  (1461 * x) / 4 + (306001 * (m + 1)) / 10000 + day + 1722519 + beta - 1524

def g2mHeadI (year month day : Int) : Int × Int := g2mFromInv (invA (g2mDayNumber year month day))

def g2mTailI (h jj : Int) : Int × Int × Int :=
  if jj = 355 then (h, 12, 30)
  else (h, 1 + (2 * (jj - 1)) / 59, (2 * jj - 59 * ((2 * (jj - 1)) / 59)) / 2)

theorem fl_c1 (c : Int) : pfloor (365.2501 * ofInt c) = (3652501 * c) / 10000 :=
  pfloor_div _ _ _ (by norm_num) (by norm_num [ofInt]; ring)
theorem fl_div10631 (x : Int) : pfloor (ofInt x / 10631.0) = x / 10631 :=
  pfloor_div _ _ _ (by norm_num) (by norm_num [ofInt])
theorem fl_div354 (x : Int) : pfloor (ofInt x / 354.0) = x / 354 :=
  pfloor_div _ _ _ (by norm_num) (by norm_num [ofInt])
theorem fl_11j14 (j : Int) : pfloor ((11.0 * ofInt j + 14.0) / 30.0) = (11 * j + 14) / 30 :=
  pfloor_div _ _ _ (by norm_num) (by norm_num [ofInt])
theorem fl_s (jj : Int) : pfloor ((ofInt jj - 1.0) / 29.5) = (2 * (jj - 1)) / 59 :=
  pfloor_div _ _ _ (by norm_num) (by norm_num [ofInt]; ring)
theorem fl_dd (jj s : Int) : pfloor (ofInt jj - 29.5 * ofInt s) = (2 * jj - 59 * s) / 2 :=
  pfloor_div _ _ _ (by norm_num) (by norm_num [ofInt]; ring)
theorem c1_frac (c : Int) : plt 0.5 (365.2501 * ofInt c - ofInt ((3652501 * c) / 10000)) = true
    ↔ 5000 < (3652501 * c) % 10000 := by
  have h : (365.2501 * ofInt c - ofInt ((3652501 * c) / 10000) : ℚ) = (((3652501 * c) % 10000 : Int) : ℚ) / 10000 := by
    rw [Int.emod_def]; unfold ofInt; push_cast; norm_num; ring
  rw [h]; unfold plt; rw [decide_eq_true_iff, lt_div_iff₀ (by norm_num)]
  rw [show (0.5 : ℚ) * 10000 = ((5000 : Int) : ℚ) by norm_num]
  exact_mod_cast Iff.rfl

theorem g2m_tail_int (h jj : Int) : g2m_tail h jj = g2mTailI h jj := by
  unfold g2m_tail g2mTailI
  simp only [fl_s, fl_dd]

theorem g2m_head_int (y m d : Int) : g2m_head y m d = g2mHeadI y m d := by
  unfold g2m_head g2mHeadI g2mFromInv g2mDayNumber invA
  simp only [is_julian_int, fl_div100, fl_div4, floor_d, floor_306001, floor_c, floor_e, floor_e2, fl_275_9, fl_m9_12,
    fl_c1, c1_frac, fl_div10631, fl_div354, fl_11j14,
    imod_pos _ 4 (by decide), imod_pos _ 10631 (by decide), imod_pos _ 354 (by decide), Int.sub_add_cancel]


theorem g2m_ylen_int (h : Int) : g2m_ylen h = if (11 * (h % 30) + 3) % 30 > 18 then 355 else 354 := by
  unfold g2m_ylen; simp only [imod_pos _ 30 (by decide)]

theorem gregorian2moslem_int (y m d : Int) : gregorian2moslem y m d =
    if d < 1 ∨ d > 31 ∨ m < 1 ∨ m > 12 ∨ y < -4712 then .error .valueError else
    match loopFuel g2m_step1 g2m_fuel ((g2mHeadI y m d).2, (g2mHeadI y m d).1, g2m_ylen (g2mHeadI y m d).1) with
    | none => .error .other
    | some s1 =>
      match loopFuel g2m_step2 g2m_fuel s1 with
      | none => .error .other
      | some s2 => .ok (g2mTailI s2.2.1 s2.1) := by
  unfold gregorian2moslem
  simp only [g2m_head_int, g2m_tail_int]
  rfl

end Pymeeus.Refine
