import Mathlib.Analysis.SpecialFunctions.Complex.Arg
import Mathlib.Analysis.Complex.Basic
import Mathlib.Analysis.SpecificLimits.Basic
import Pymeeus.Refine.Ellipsoid
/-!
Helper lemmas for C18 about `Earth.parallax_correction` / `parallax_ecliptical` over ℝ: closed forms, the sign
analysis behind the two listed findings, and the limit of the corrections as the distance grows.
-/
noncomputable section
namespace Pymeeus.Refine.Parallax
open Pymeeus Pymeeus.PR Pymeeus.GenR.Kepler Pymeeus.GenR.Ellipsoid Pymeeus.Refine.Kepler Pymeeus.Refine.Ellipsoid Real

theorem wgs84_valid : Valid WGS84 := ⟨by norm_num [WGS84], by norm_num [WGS84], by norm_num [WGS84]⟩

/-- `sin 8.794''` is positive. -/
theorem sin_pi0_pos : 0 < sin_pi0 := by
  unfold sin_pi0 psin pradians
  have hpi := Real.pi_pos
  have h3 := Real.pi_lt_d2
  apply Real.sin_pos_of_pos_of_lt_pi
  · norm_num; positivity
  · norm_num; nlinarith

theorem angle_of_rad_arg (z : ℂ) : angle_of_rad (Complex.arg z) = Complex.arg z * (180 / π) := by
  apply angle_of_rad_small
  have := Complex.abs_arg_le_pi z
  linarith [Real.pi_pos]

/-- `(rho sin phi', rho cos phi')` of the default ellipsoid, as the model computes them. -/
def rsin (lat height : ℝ) : ℝ :=
  (1 - WGS84.f) * Real.sin (Real.arctan ((1 - WGS84.f) * Real.tan (pradians lat))) + height / WGS84.a * Real.sin (pradians lat)
def rcos (lat height : ℝ) : ℝ :=
  Real.cos (Real.arctan ((1 - WGS84.f) * Real.tan (pradians lat))) + height / WGS84.a * Real.cos (pradians lat)

/-- the correction to the right ascension, degrees -/
def delta_a (dec lat dist ha height : ℝ) : ℝ :=
  Complex.arg ⟨Real.cos (pradians dec) - rcos lat height * (sin_pi0 / dist) * Real.cos (pradians ha),
               (-rcos lat height) * (sin_pi0 / dist) * Real.sin (pradians ha)⟩ * (180 / π)

/-- the corrected declination, degrees -/
def dec' (dec lat dist ha height : ℝ) : ℝ :=
  Complex.arg ⟨Real.cos (pradians dec) - rcos lat height * (sin_pi0 / dist) * Real.cos (pradians ha),
               (Real.sin (pradians dec) - rsin lat height * (sin_pi0 / dist))
                 * Real.cos (pradians (delta_a dec lat dist ha height))⟩ * (180 / π)

theorem parallax_correction_eq (ra dec lat : ℝ) {dist : ℝ} (hd : dist ≠ 0) (ha height : ℝ) :
    parallax_correction ra dec lat dist ha height =
      .ok (angle_add ra (delta_a dec lat dist ha height), dec' dec lat dist ha height) := by
  unfold parallax_correction
  simp only [fdiv_ok hd, rho_sinphi_eq wgs84_valid, rho_cosphi_eq wgs84_valid, patan2, psin, pcos, angle_of_rad_arg]
  rfl


theorem pradians_zero : pradians 0 = 0 := by simp [pradians]

theorem rcos_equator_sea_level : rcos 0 0 = 1 := by
  unfold rcos; rw [pradians_zero]; simp

theorem rsin_equator_sea_level : rsin 0 0 = 0 := by
  unfold rsin; rw [pradians_zero]; simp

/-- Body at the celestial pole, observer on the equator at sea level, hour angle 0: the corrected declination comes
    out in `(-180°, -90°)`. -/
theorem polar_dec {dist : ℝ} (hd : 0 < dist) :
    -180 < dec' 90 0 dist 0 0 ∧ dec' 90 0 dist 0 0 < -90 := by
  have hpi := Real.pi_pos
  have hsp : 0 < sin_pi0 / dist := div_pos sin_pi0_pos hd
  have h90 : pradians 90 = π / 2 := by unfold pradians; ring
  have hda : delta_a 90 0 dist 0 0 = 180 := by
    unfold delta_a
    rw [rcos_equator_sea_level, pradians_zero, h90, Real.cos_pi_div_two, Real.sin_zero, Real.cos_zero]
    have : (⟨0 - 1 * (sin_pi0 / dist) * 1, -1 * (sin_pi0 / dist) * 0⟩ : ℂ) = ((-(sin_pi0 / dist) : ℝ) : ℂ) := by
      apply Complex.ext <;> simp
    rw [this, Complex.arg_ofReal_of_neg (by linarith)]
    field_simp
  unfold dec'
  rw [hda, rcos_equator_sea_level, rsin_equator_sea_level, pradians_zero, h90, Real.cos_pi_div_two, Real.sin_pi_div_two,
    Real.cos_zero]
  have h180 : pradians 180 = π := by unfold pradians; ring
  rw [h180, Real.cos_pi]
  set z : ℂ := ⟨0 - 1 * (sin_pi0 / dist) * 1, (1 - 0 * (sin_pi0 / dist)) * -1⟩ with hz
  have hre : z.re < 0 := by simp [hz]; exact hsp
  have him : z.im < 0 := by simp [hz]
  have h1 : Complex.arg z < -(π / 2) := by
    by_contra hcon
    have := Complex.neg_pi_div_two_le_arg_iff.mp (not_lt.mp hcon)
    rcases this with h | h <;> linarith
  have h2 := Complex.neg_pi_lt_arg z
  have hpos : (0 : ℝ) < 180 / π := by positivity
  constructor
  · calc (-180 : ℝ) = -π * (180 / π) := by field_simp
      _ < Complex.arg z * (180 / π) := mul_lt_mul_of_pos_right h2 hpos
  · calc Complex.arg z * (180 / π) < -(π / 2) * (180 / π) := mul_lt_mul_of_pos_right h1 hpos
      _ = -90 := by field_simp; ring


/-! ### the corrections vanish as the distance grows -/
open Filter Topology

theorem tendsto_mk {α : Type} {l : Filter α} {f g : α → ℝ} {a b : ℝ} (hf : Tendsto f l (𝓝 a)) (hg : Tendsto g l (𝓝 b)) :
    Tendsto (fun x => (⟨f x, g x⟩ : ℂ)) l (𝓝 ⟨a, b⟩) :=
  (Complex.equivRealProdCLM.symm.continuous.tendsto (a, b)).comp (hf.prodMk_nhds hg)

theorem sp_tendsto : Tendsto (fun dist : ℝ => sin_pi0 / dist) atTop (𝓝 0) :=
  tendsto_const_nhds.div_atTop tendsto_id

theorem delta_a_tendsto (dec lat ha height : ℝ) (hdec : 0 < Real.cos (pradians dec)) :
    Tendsto (fun dist => delta_a dec lat dist ha height) atTop (𝓝 0) := by
  have hre : Tendsto (fun dist : ℝ => Real.cos (pradians dec) - rcos lat height * (sin_pi0 / dist) * Real.cos (pradians ha))
      atTop (𝓝 (Real.cos (pradians dec))) := by
    have := ((tendsto_const_nhds (x := rcos lat height)).mul sp_tendsto).mul_const (Real.cos (pradians ha))
    simpa using (tendsto_const_nhds (x := Real.cos (pradians dec))).sub this
  have him : Tendsto (fun dist : ℝ => (-rcos lat height) * (sin_pi0 / dist) * Real.sin (pradians ha)) atTop (𝓝 0) := by
    have := ((tendsto_const_nhds (x := -rcos lat height)).mul sp_tendsto).mul_const (Real.sin (pradians ha))
    simpa using this
  have hz := tendsto_mk hre him
  have hslit : (⟨Real.cos (pradians dec), 0⟩ : ℂ) ∈ Complex.slitPlane := Or.inl hdec
  have harg := (Complex.continuousAt_arg hslit).tendsto.comp hz
  have h0 : Complex.arg ⟨Real.cos (pradians dec), 0⟩ = 0 := by
    rw [Complex.arg_eq_zero_iff]; exact ⟨hdec.le, rfl⟩
  rw [h0] at harg
  have := harg.mul_const (180 / π)
  simpa [delta_a] using this

theorem dec'_tendsto (dec lat ha height : ℝ) (h1 : -90 < dec) (h2 : dec < 90) :
    Tendsto (fun dist => dec' dec lat dist ha height) atTop (𝓝 dec) := by
  have hpi := Real.pi_pos
  have hd1 : -(π / 2) < pradians dec := by unfold pradians; nlinarith
  have hd2 : pradians dec < π / 2 := by unfold pradians; nlinarith
  have hdec : 0 < Real.cos (pradians dec) := Real.cos_pos_of_mem_Ioo ⟨hd1, hd2⟩
  have hre : Tendsto (fun dist : ℝ => Real.cos (pradians dec) - rcos lat height * (sin_pi0 / dist) * Real.cos (pradians ha))
      atTop (𝓝 (Real.cos (pradians dec))) := by
    have := ((tendsto_const_nhds (x := rcos lat height)).mul sp_tendsto).mul_const (Real.cos (pradians ha))
    simpa using (tendsto_const_nhds (x := Real.cos (pradians dec))).sub this
  have hda := delta_a_tendsto dec lat ha height hdec
  have hcos : Tendsto (fun dist => Real.cos (pradians (delta_a dec lat dist ha height))) atTop (𝓝 1) := by
    have hc : Continuous (fun x : ℝ => Real.cos (pradians x)) := by unfold pradians; fun_prop
    have := (hc.tendsto 0).comp hda
    simpa [pradians, Function.comp_def] using this
  have him : Tendsto (fun dist : ℝ => (Real.sin (pradians dec) - rsin lat height * (sin_pi0 / dist))
      * Real.cos (pradians (delta_a dec lat dist ha height))) atTop (𝓝 (Real.sin (pradians dec))) := by
    have h := (tendsto_const_nhds (x := rsin lat height)).mul sp_tendsto
    have := ((tendsto_const_nhds (x := Real.sin (pradians dec))).sub h).mul hcos
    simpa using this
  have hz := tendsto_mk hre him
  have hslit : (⟨Real.cos (pradians dec), Real.sin (pradians dec)⟩ : ℂ) ∈ Complex.slitPlane := Or.inl hdec
  have harg := (Complex.continuousAt_arg hslit).tendsto.comp hz
  have h0 : Complex.arg ⟨Real.cos (pradians dec), Real.sin (pradians dec)⟩ = pradians dec := by
    have : (⟨Real.cos (pradians dec), Real.sin (pradians dec)⟩ : ℂ)
        = Complex.cos (pradians dec) + Complex.sin (pradians dec) * Complex.I := by
      apply Complex.ext <;> simp [← Complex.ofReal_cos, ← Complex.ofReal_sin]
    rw [this]
    exact Complex.arg_cos_add_sin_mul_I ⟨by linarith, by linarith⟩
  rw [h0] at harg
  have h3 := harg.mul_const (180 / π)
  have h4 : pradians dec * (180 / π) = dec := by unfold pradians; field_simp
  rw [h4] at h3
  simpa [dec'] using h3


/-! ### `parallax_ecliptical`: the folding of the latitude -/

theorem to_positive_nonneg {x : ℝ} (h : 0 ≤ x) : to_positive x = x := by
  simp [to_positive, plt, not_lt.mpr h]

theorem to_positive_neg {x : ℝ} (h : x < 0) (h2 : -360 < x) : to_positive x = 360 + x := by
  have e : (360.0 : ℝ) = 360 := by norm_num
  have : ¬ ((360 : ℝ) ≤ 360 - |x|) := by rw [abs_of_neg h]; linarith
  simp only [to_positive, plt, h, decide_true, if_true, ple, pabs, e, this, decide_false]
  rw [abs_of_neg h]; simp

/-- Body on the meridian of the vernal equinox (λ = 0) at a southern ecliptic latitude, observer on the equator at
    sea level, sidereal time 0: the model returns `(0, 180 + x, 0)` with `x ∈ (-90, 0)` the true topocentric
    latitude, i.e. a "latitude" in `(90°, 180°)`. -/
theorem ecliptical_south {lat dist : ℝ} (obl : ℝ) (h1 : -90 < lat) (h2 : lat < 0) (hd : 0 < dist)
    (hn : sin_pi0 / dist < Real.cos (pradians lat)) :
    ∃ tl, parallax_ecliptical 0 lat 0 0 obl 0 dist 0 = .ok (0, tl, 0) ∧ 90 < tl ∧ tl < 180 := by
  have hpi := Real.pi_pos
  have hb1 : -(π / 2) < pradians lat := by unfold pradians; nlinarith
  have hb2 : pradians lat < 0 := by unfold pradians; nlinarith
  have hsin : Real.sin (pradians lat) < 0 := Real.sin_neg_of_neg_of_neg_pi_lt hb2 (by linarith)
  set n := Real.cos (pradians lat) - sin_pi0 / dist with hndef
  have hnpos : 0 < n := by rw [hndef]; linarith
  set z : ℂ := ⟨n, Real.sin (pradians lat)⟩ with hz
  have harg1 : -(π / 2) < Complex.arg z := by
    rw [Complex.neg_pi_div_two_lt_arg_iff]; exact Or.inl hnpos
  have harg2 : Complex.arg z < 0 := Complex.arg_neg_iff.mpr hsin
  have hpos : (0 : ℝ) < 180 / π := by positivity
  set x := Complex.arg z * (180 / π) with hx
  have hx1 : -90 < x := by
    calc (-90 : ℝ) = -(π / 2) * (180 / π) := by field_simp; ring
      _ < x := mul_lt_mul_of_pos_right harg1 hpos
  have hx2 : x < 0 := mul_neg_of_neg_of_pos harg2 hpos
  refine ⟨180 + x, ?_, by linarith, by linarith⟩
  have e90 : (90.0 : ℝ) = 90 := by norm_num
  have e180 : (180.0 : ℝ) = 180 := by norm_num
  have hz0 : Complex.arg (⟨n, 0⟩ : ℂ) = 0 := by rw [Complex.arg_eq_zero_iff]; exact ⟨hnpos.le, rfl⟩
  have hred1 : reduce_deg |360 + x| = 360 + x := by
    rw [abs_of_pos (by linarith)]; apply reduce_deg_small; rw [abs_of_pos (by linarith)]; linarith
  have hred2 : reduce_deg (360 + x + -180) = 180 + x := by
    rw [reduce_deg_small (by rw [abs_of_pos (by linarith)]; linarith)]; ring
  have hgt : (90 : ℝ) < 360 + x := by linarith
  unfold parallax_ecliptical
  simp only [fdiv_ok hd.ne', rho_sinphi_eq wgs84_valid, rho_cosphi_eq wgs84_valid, patan2, psin, pcos, pradians_zero,
    Real.sin_zero, Real.cos_zero, Real.tan_zero, mul_zero, Real.arctan_zero, zero_div, zero_mul, add_zero, sub_zero,
    mul_one, one_mul, zero_add, sub_self]
  rw [← hndef, hz0]
  have ha0 : angle_of_rad 0 = 0 := by rw [angle_of_rad_small (by simp; positivity)]; simp
  simp only [ha0, to_positive_nonneg (le_refl (0:ℝ)), pradians_zero, Real.cos_zero, one_mul, ← hz, angle_of_rad_arg, ← hx,
    to_positive_neg hx2 (by linarith), pabs, hred1, plt, e90, hgt, decide_true, if_true, angle_sub, angle_add, e180, hred2,
    Real.sin_zero, mul_zero, zero_div]
  have hn0 : n ≠ 0 := hnpos.ne'
  simp only [fdiv_ok hn0, zero_div]
  have : fasin 0 = .ok 0 := by simp [fasin, plt, pasin]
  simp only [this, ha0]

end Pymeeus.Refine.Parallax
