import Mathlib.Analysis.SpecialFunctions.Complex.Arg
import Mathlib.Analysis.Complex.Basic
import Mathlib.Analysis.SpecificLimits.Basic
import Pymeeus.Refine.Ellipsoid
/-!
Helper lemmas for C18 about `Earth.parallax_correction` / `parallax_ecliptical` over ℝ: closed forms, the sign
analysis behind the two listed findings, and the limit of the corrections as the distance grows.
-/
noncomputable section
namespace Pymeeus.Refine.Parallax
open Pymeeus Pymeeus.PR Pymeeus.GenR.Kepler Pymeeus.GenR.Ellipsoid Pymeeus.Refine.Kepler Pymeeus.Refine.Ellipsoid Real

theorem wgs84_valid : Valid WGS84 := ⟨by norm_num [WGS84], by norm_num [WGS84], by norm_num [WGS84]⟩

theorem sin_pi0_eq : sin_pi0 = Real.sin (8.794 / 3600 * (π / 180)) := by
  have h : reduce_deg ((1.0 : ℝ) * (0 + 0 / 60.0 + 8.794 / 3600.0)) = 8.794 / 3600 := by
    rw [reduce_deg_small (by norm_num [abs_lt])]; norm_num
  unfold sin_pi0 psin pradians; rw [h]

/-- `sin 8.794''` is positive. -/
theorem sin_pi0_pos : 0 < sin_pi0 := by
  rw [sin_pi0_eq]
  have hpi := Real.pi_pos
  have h3 := Real.pi_lt_d2
  apply Real.sin_pos_of_pos_of_lt_pi
  · positivity
  · nlinarith

theorem angle_of_rad_arg (z : ℂ) : angle_of_rad (Complex.arg z) = Complex.arg z * (180 / π) := by
  apply angle_of_rad_small
  have := Complex.abs_arg_le_pi z
  linarith [Real.pi_pos]

/-- `(rho sin phi', rho cos phi')` of the default ellipsoid, as the model computes them. -/
def rsin (lat height : ℝ) : ℝ :=
  (1 - WGS84.f) * Real.sin (Real.arctan ((1 - WGS84.f) * Real.tan (pradians lat))) + height / WGS84.a * Real.sin (pradians lat)
def rcos (lat height : ℝ) : ℝ :=
  Real.cos (Real.arctan ((1 - WGS84.f) * Real.tan (pradians lat))) + height / WGS84.a * Real.cos (pradians lat)

/-! ### `parallax_correction`: the topocentric vector `w = u − sin π · (ρ cos φ' cos H, ρ cos φ' sin H, ρ sin φ')`
    in the frame whose x axis points to the right ascension of the body, in units of the distance -/

def wx (dec lat dist ha height : ℝ) : ℝ :=
  Real.cos (pradians dec) - rcos lat height * (sin_pi0 / dist) * Real.cos (pradians ha)
def wy (lat dist ha height : ℝ) : ℝ := (-rcos lat height) * (sin_pi0 / dist) * Real.sin (pradians ha)
def wz (dec lat dist height : ℝ) : ℝ := Real.sin (pradians dec) - rsin lat height * (sin_pi0 / dist)
def hyp (dec lat dist ha height : ℝ) : ℝ :=
  Real.sqrt (wy lat dist ha height * wy lat dist ha height + wx dec lat dist ha height * wx dec lat dist ha height)

/-- the correction to the right ascension, degrees -/
def delta_a (dec lat dist ha height : ℝ) : ℝ :=
  Complex.arg ⟨wx dec lat dist ha height, wy lat dist ha height⟩ * (180 / π)

/-- the corrected declination, degrees -/
def dec' (dec lat dist ha height : ℝ) : ℝ :=
  Complex.arg ⟨hyp dec lat dist ha height, wz dec lat dist height⟩ * (180 / π)

theorem parallax_correction_eq (ra dec lat : ℝ) {dist : ℝ} (hd : dist ≠ 0) (ha height : ℝ) :
    parallax_correction ra dec lat dist ha height =
      .ok (angle_add ra (delta_a dec lat dist ha height), dec' dec lat dist ha height) := by
  have hnn : 0 ≤ wy lat dist ha height * wy lat dist ha height + wx dec lat dist ha height * wx dec lat dist ha height := by
    nlinarith [mul_self_nonneg (wy lat dist ha height), mul_self_nonneg (wx dec lat dist ha height)]
  unfold wx wy rcos at hnn
  unfold parallax_correction
  simp only [fdiv_ok hd, rho_sinphi_eq wgs84_valid, rho_cosphi_eq wgs84_valid, patan2, psin, pcos, angle_of_rad_arg]
  rw [fsqrt_ok hnn]
  rfl

/-- "declination in [-90, 90]": the second atan2 argument is a square root, hence non-negative. -/
theorem dec'_range (dec lat dist ha height : ℝ) :
    -90 ≤ dec' dec lat dist ha height ∧ dec' dec lat dist ha height ≤ 90 := by
  have hpi := Real.pi_pos
  have h : |Complex.arg ⟨hyp dec lat dist ha height, wz dec lat dist height⟩| ≤ π / 2 := by
    rw [Complex.abs_arg_le_pi_div_two_iff]; exact Real.sqrt_nonneg _
  obtain ⟨h1, h2⟩ := abs_le.mp h
  have hpos : (0 : ℝ) < 180 / π := by positivity
  unfold dec'
  constructor
  · calc (-90 : ℝ) = -(π / 2) * (180 / π) := by field_simp; ring
      _ ≤ _ := mul_le_mul_of_nonneg_right h1 hpos.le
  · calc _ ≤ π / 2 * (180 / π) := mul_le_mul_of_nonneg_right h2 hpos.le
      _ = 90 := by field_simp; ring


/-! ### the displacement is at most the horizontal parallax -/

/-- Geometry: for a unit vector `u` and a displacement `o` with `|o|² = s2 < 1`, the angle `p` between `u` and
    `w = u − o` satisfies `cos p ≥ sqrt(1 − s2)`, i.e. `p ≤ asin |o|`.  Written without division:
    `sqrt(1 − s2) · |w| ≤ u·w`. -/
theorem sep_bound {u1 u2 u3 o1 o2 o3 : ℝ} (hu : u1 ^ 2 + u2 ^ 2 + u3 ^ 2 = 1) (ho : o1 ^ 2 + o2 ^ 2 + o3 ^ 2 < 1) :
    Real.sqrt (1 - (o1 ^ 2 + o2 ^ 2 + o3 ^ 2)) * Real.sqrt ((u1 - o1) ^ 2 + (u2 - o2) ^ 2 + (u3 - o3) ^ 2)
      ≤ u1 * (u1 - o1) + u2 * (u2 - o2) + u3 * (u3 - o3) := by
  set s2 := o1 ^ 2 + o2 ^ 2 + o3 ^ 2 with hs2
  set c := u1 * o1 + u2 * o2 + u3 * o3 with hc
  have hs20 : 0 ≤ s2 := by positivity
  -- Cauchy-Schwarz through Lagrange's identity
  have hcs : c ^ 2 ≤ s2 := by
    have : s2 - c ^ 2 = (u1 * o2 - u2 * o1) ^ 2 + (u1 * o3 - u3 * o1) ^ 2 + (u2 * o3 - u3 * o2) ^ 2 := by
      rw [hs2, hc]
      have : (o1 ^ 2 + o2 ^ 2 + o3 ^ 2) = (u1 ^ 2 + u2 ^ 2 + u3 ^ 2) * (o1 ^ 2 + o2 ^ 2 + o3 ^ 2) := by rw [hu, one_mul]
      rw [this]; ring
    nlinarith [sq_nonneg (u1 * o2 - u2 * o1), sq_nonneg (u1 * o3 - u3 * o1), sq_nonneg (u2 * o3 - u3 * o2)]
  have hc1 : c < 1 := by nlinarith [sq_nonneg (c - 1), sq_nonneg (c + 1)]
  have hdot : u1 * (u1 - o1) + u2 * (u2 - o2) + u3 * (u3 - o3) = 1 - c := by rw [hc]; nlinarith
  have hW : (u1 - o1) ^ 2 + (u2 - o2) ^ 2 + (u3 - o3) ^ 2 = 1 - 2 * c + s2 := by rw [hc, hs2]; nlinarith
  rw [hdot, hW, ← Real.sqrt_mul (by linarith)]
  rw [show (1 - c) = Real.sqrt ((1 - c) ^ 2) from (Real.sqrt_sq (by linarith)).symm]
  apply Real.sqrt_le_sqrt
  nlinarith [sq_nonneg (c - s2)]

/-- Cosine of the angular separation between `(α, δ)` and `(α + Δα, δ')` (degrees). -/
def cos_sep (dec dalpha decp : ℝ) : ℝ :=
  Real.sin (pradians dec) * Real.sin (pradians decp)
    + Real.cos (pradians dec) * Real.cos (pradians decp) * Real.cos (pradians dalpha)

/-- Core of the bound, on opaque components: `w = (X, Y, Z)`, `H = sqrt(Y² + X²)`. -/
theorem cos_sep_core {cd sd X Y Z H s2 : ℝ} (hu : cd ^ 2 + sd ^ 2 = 1) (hH : H = Real.sqrt (Y * Y + X * X))
    (hb : Real.sqrt (1 - s2) * Real.sqrt (X ^ 2 + Y ^ 2 + Z ^ 2) ≤ cd * X + sd * Z)
    (hdot : 0 < cd * X + sd * Z) :
    Real.sqrt (1 - s2) ≤ sd * Real.sin (Complex.arg ⟨H, Z⟩)
        + cd * Real.cos (Complex.arg ⟨H, Z⟩) * Real.cos (Complex.arg ⟨X, Y⟩) := by
  have hHsq : H ^ 2 = X ^ 2 + Y ^ 2 := by
    rw [hH, Real.sq_sqrt (by nlinarith [mul_self_nonneg X, mul_self_nonneg Y])]; ring
  have hn1 : ‖(⟨X, Y⟩ : ℂ)‖ = H := by
    rw [Complex.norm_eq_sqrt_sq_add_sq, hH]; congr 1; ring
  have hn2 : ‖(⟨H, Z⟩ : ℂ)‖ = Real.sqrt (X ^ 2 + Y ^ 2 + Z ^ 2) := by
    rw [Complex.norm_eq_sqrt_sq_add_sq]; congr 1; show H ^ 2 + Z ^ 2 = _; rw [hHsq]
  have hc1 : H * Real.cos (Complex.arg ⟨X, Y⟩) = X := by
    have := Complex.norm_mul_cos_arg (⟨X, Y⟩ : ℂ); rwa [hn1] at this
  have hc2 : Real.sqrt (X ^ 2 + Y ^ 2 + Z ^ 2) * Real.cos (Complex.arg ⟨H, Z⟩) = H := by
    have := Complex.norm_mul_cos_arg (⟨H, Z⟩ : ℂ); rwa [hn2] at this
  have hs2 : Real.sqrt (X ^ 2 + Y ^ 2 + Z ^ 2) * Real.sin (Complex.arg ⟨H, Z⟩) = Z := by
    have := Complex.norm_mul_sin_arg (⟨H, Z⟩ : ℂ); rwa [hn2] at this
  obtain ⟨W, hW⟩ : ∃ W, W = Real.sqrt (X ^ 2 + Y ^ 2 + Z ^ 2) := ⟨_, rfl⟩
  rw [← hW] at hb hc2 hs2
  have hW0 : 0 ≤ W := by rw [hW]; exact Real.sqrt_nonneg _
  have hkey : W * (sd * Real.sin (Complex.arg ⟨H, Z⟩)
        + cd * Real.cos (Complex.arg ⟨H, Z⟩) * Real.cos (Complex.arg ⟨X, Y⟩)) = cd * X + sd * Z := by
    have : W * (sd * Real.sin (Complex.arg ⟨H, Z⟩)
        + cd * Real.cos (Complex.arg ⟨H, Z⟩) * Real.cos (Complex.arg ⟨X, Y⟩))
        = sd * (W * Real.sin (Complex.arg ⟨H, Z⟩))
          + cd * ((W * Real.cos (Complex.arg ⟨H, Z⟩)) * Real.cos (Complex.arg ⟨X, Y⟩)) := by ring
    rw [this, hs2, hc2, hc1]; ring
  have hWpos : 0 < W := by
    rcases hW0.lt_or_eq with h | h
    · exact h
    · rw [← h, zero_mul] at hkey; linarith
  rw [← hkey, mul_comm] at hb
  exact le_of_mul_le_mul_left hb hWpos

theorem parallax_correction_bound (dec lat dist ha height : ℝ)
    (hs : (sin_pi0 / dist) ^ 2 * (rcos lat height ^ 2 + rsin lat height ^ 2) < 1) :
    Real.sqrt (1 - (sin_pi0 / dist) ^ 2 * (rcos lat height ^ 2 + rsin lat height ^ 2))
      ≤ cos_sep dec (delta_a dec lat dist ha height) (dec' dec lat dist ha height) := by
  obtain ⟨sp, hsp⟩ : ∃ sp, sp = sin_pi0 / dist := ⟨_, rfl⟩
  obtain ⟨A, hA⟩ : ∃ A, A = rcos lat height := ⟨_, rfl⟩
  obtain ⟨B, hB⟩ : ∃ B, B = rsin lat height := ⟨_, rfl⟩
  obtain ⟨cd, hcd⟩ : ∃ cd, cd = Real.cos (pradians dec) := ⟨_, rfl⟩
  obtain ⟨sd, hsd⟩ : ∃ sd, sd = Real.sin (pradians dec) := ⟨_, rfl⟩
  obtain ⟨ch, hch⟩ : ∃ ch, ch = Real.cos (pradians ha) := ⟨_, rfl⟩
  obtain ⟨sh, hsh⟩ : ∃ sh, sh = Real.sin (pradians ha) := ⟨_, rfl⟩
  have hu : cd ^ 2 + sd ^ 2 = 1 := by rw [hcd, hsd]; nlinarith [Real.sin_sq_add_cos_sq (pradians dec)]
  have hh : ch ^ 2 + sh ^ 2 = 1 := by rw [hch, hsh]; nlinarith [Real.sin_sq_add_cos_sq (pradians ha)]
  have hX : wx dec lat dist ha height = cd - A * sp * ch := by unfold wx; rw [hcd, hA, hsp, hch]
  have hY : wy lat dist ha height = 0 - A * sp * sh := by unfold wy; rw [hA, hsp, hsh]; ring
  have hZ : wz dec lat dist height = sd - B * sp := by unfold wz; rw [hsd, hB, hsp]
  rw [← hsp, ← hA, ← hB] at hs ⊢
  have ho : (A * sp * ch) ^ 2 + (A * sp * sh) ^ 2 + (B * sp) ^ 2 = sp ^ 2 * (A ^ 2 + B ^ 2) := by nlinarith
  have hu3 : cd ^ 2 + (0:ℝ) ^ 2 + sd ^ 2 = 1 := by nlinarith
  have hb := sep_bound (u1 := cd) (u2 := 0) (u3 := sd) (o1 := A * sp * ch) (o2 := A * sp * sh) (o3 := B * sp) hu3
    (by rw [ho]; exact hs)
  rw [ho, ← hX, ← hY, ← hZ] at hb
  -- u·w = 1 - u·o > 0
  have hdot : 0 < cd * wx dec lat dist ha height + sd * wz dec lat dist height := by
    have hcs : (cd * (A * sp * ch) + sd * (B * sp)) ^ 2 ≤ sp ^ 2 * (A ^ 2 + B ^ 2) := by
      rw [← ho]
      nlinarith [sq_nonneg (cd * (A * sp * sh)), sq_nonneg (cd * (B * sp) - sd * (A * sp * ch)), sq_nonneg (sd * (A * sp * sh))]
    rw [hX, hZ]
    nlinarith [sq_nonneg (cd * (A * sp * ch) + sd * (B * sp) - 1), sq_nonneg (cd * (A * sp * ch) + sd * (B * sp) + 1)]
  have hb2 : Real.sqrt (1 - sp ^ 2 * (A ^ 2 + B ^ 2))
      * Real.sqrt (wx dec lat dist ha height ^ 2 + wy lat dist ha height ^ 2 + wz dec lat dist height ^ 2)
      ≤ cd * wx dec lat dist ha height + sd * wz dec lat dist height := by
    have e : cd * wx dec lat dist ha height + 0 * wy lat dist ha height + sd * wz dec lat dist height
        = cd * wx dec lat dist ha height + sd * wz dec lat dist height := by ring
    rw [← e]; exact hb
  have := cos_sep_core (H := hyp dec lat dist ha height) hu rfl hb2 hdot
  unfold cos_sep delta_a dec'
  rw [radians_degrees, radians_degrees, ← hcd, ← hsd]
  exact this


/-! ### the corrections vanish as the distance grows -/
open Filter Topology

theorem tendsto_mk {α : Type} {l : Filter α} {f g : α → ℝ} {a b : ℝ} (hf : Tendsto f l (𝓝 a)) (hg : Tendsto g l (𝓝 b)) :
    Tendsto (fun x => (⟨f x, g x⟩ : ℂ)) l (𝓝 ⟨a, b⟩) :=
  (Complex.equivRealProdCLM.symm.continuous.tendsto (a, b)).comp (hf.prodMk_nhds hg)

theorem sp_tendsto : Tendsto (fun dist : ℝ => sin_pi0 / dist) atTop (𝓝 0) :=
  tendsto_const_nhds.div_atTop tendsto_id

theorem wx_tendsto (dec lat ha height : ℝ) :
    Tendsto (fun dist => wx dec lat dist ha height) atTop (𝓝 (Real.cos (pradians dec))) := by
  have := ((tendsto_const_nhds (x := rcos lat height)).mul sp_tendsto).mul_const (Real.cos (pradians ha))
  simpa [wx] using (tendsto_const_nhds (x := Real.cos (pradians dec))).sub this

theorem wy_tendsto (lat ha height : ℝ) : Tendsto (fun dist => wy lat dist ha height) atTop (𝓝 0) := by
  have := ((tendsto_const_nhds (x := -rcos lat height)).mul sp_tendsto).mul_const (Real.sin (pradians ha))
  simpa [wy] using this

theorem wz_tendsto (dec lat height : ℝ) :
    Tendsto (fun dist => wz dec lat dist height) atTop (𝓝 (Real.sin (pradians dec))) := by
  have h := (tendsto_const_nhds (x := rsin lat height)).mul sp_tendsto
  simpa [wz] using (tendsto_const_nhds (x := Real.sin (pradians dec))).sub h

theorem delta_a_tendsto (dec lat ha height : ℝ) (hdec : 0 < Real.cos (pradians dec)) :
    Tendsto (fun dist => delta_a dec lat dist ha height) atTop (𝓝 0) := by
  have hz := tendsto_mk (wx_tendsto dec lat ha height) (wy_tendsto lat ha height)
  have hslit : (⟨Real.cos (pradians dec), 0⟩ : ℂ) ∈ Complex.slitPlane := Or.inl hdec
  have harg := (Complex.continuousAt_arg hslit).tendsto.comp hz
  have h0 : Complex.arg ⟨Real.cos (pradians dec), 0⟩ = 0 := by
    rw [Complex.arg_eq_zero_iff]; exact ⟨hdec.le, rfl⟩
  rw [h0] at harg
  have := harg.mul_const (180 / π)
  simpa [delta_a, Function.comp_def] using this

theorem dec'_tendsto (dec lat ha height : ℝ) (h1 : -90 < dec) (h2 : dec < 90) :
    Tendsto (fun dist => dec' dec lat dist ha height) atTop (𝓝 dec) := by
  have hpi := Real.pi_pos
  have hd1 : -(π / 2) < pradians dec := by unfold pradians; nlinarith
  have hd2 : pradians dec < π / 2 := by unfold pradians; nlinarith
  have hdec : 0 < Real.cos (pradians dec) := Real.cos_pos_of_mem_Ioo ⟨hd1, hd2⟩
  have hx := wx_tendsto dec lat ha height
  have hy := wy_tendsto lat ha height
  have hh : Tendsto (fun dist => hyp dec lat dist ha height) atTop (𝓝 (Real.cos (pradians dec))) := by
    have := ((hy.mul hy).add (hx.mul hx)).sqrt
    have e : Real.sqrt (0 * 0 + Real.cos (pradians dec) * Real.cos (pradians dec)) = Real.cos (pradians dec) := by
      rw [zero_mul, zero_add, Real.sqrt_mul_self hdec.le]
    rw [e] at this
    exact this
  have hz := tendsto_mk hh (wz_tendsto dec lat height)
  have hslit : (⟨Real.cos (pradians dec), Real.sin (pradians dec)⟩ : ℂ) ∈ Complex.slitPlane := Or.inl hdec
  have harg := (Complex.continuousAt_arg hslit).tendsto.comp hz
  have h0 : Complex.arg ⟨Real.cos (pradians dec), Real.sin (pradians dec)⟩ = pradians dec := by
    have : (⟨Real.cos (pradians dec), Real.sin (pradians dec)⟩ : ℂ)
        = Complex.cos (pradians dec) + Complex.sin (pradians dec) * Complex.I := by
      apply Complex.ext <;> simp [← Complex.ofReal_cos, ← Complex.ofReal_sin]
    rw [this]
    exact Complex.arg_cos_add_sin_mul_I ⟨by linarith, by linarith⟩
  rw [h0] at harg
  have h3 := harg.mul_const (180 / π)
  have h4 : pradians dec * (180 / π) = dec := by unfold pradians; field_simp
  rw [h4] at h3
  simpa [dec', Function.comp_def] using h3

end Pymeeus.Refine.Parallax
