import Pymeeus.Gen.R.Finders
import Mathlib.Tactic.Linarith
import Mathlib.Tactic.Positivity
import Mathlib.Tactic.NormNum
import Mathlib.Tactic.Ring
import Mathlib.Tactic.FieldSimp
import Mathlib.Data.Rat.Cast.Order
/-
Helper lemmas for C13 (planetary event finders): half-even rounding, the centre/radius enclosure
of an expression tree, and the real-number reading of the decidable side conditions `Finder.ok`.
The property theorems are in Props/C13.lean.
-/
namespace Pymeeus.Refine.Finders
open Pymeeus Pymeeus.PR Pymeeus.GenR Pymeeus.Finders

/-! ### Python's `round` (half to even) on the reals -/

theorem kround_sub_le (x : ℝ) : |x - (kround x : ℝ)| ≤ 1 / 2 := by
  have h1 : ((⌊x⌋ : ℤ) : ℝ) ≤ x := Int.floor_le x
  have h2 : x < ((⌊x⌋ : ℤ) : ℝ) + 1 := Int.lt_floor_add_one x
  dsimp only [kround]
  split_ifs with a b c <;> rw [abs_le] <;> constructor <;> push_cast <;> linarith

theorem kround_mono {x y : ℝ} (h : x ≤ y) : kround x ≤ kround y := by
  by_contra hc
  have hc := not_le.1 hc
  have hx := abs_le.1 (kround_sub_le x)
  have hy := abs_le.1 (kround_sub_le y)
  have h1 : ((kround y : ℤ) : ℝ) + 1 ≤ (kround x : ℝ) := by exact_mod_cast hc
  have : x = y := by linarith [hx.1, hx.2, hy.1, hy.2]
  subst this
  exact lt_irrefl _ hc

theorem kround_intCast (n : ℤ) : kround (n : ℝ) = n := by
  dsimp only [kround]
  simp only [Int.floor_intCast, sub_self]
  norm_num

/-- Queries whose rounding arguments are less than 1 apart have period counts at most 1 apart. -/
theorem kround_lt_add_one {x y : ℝ} (h : y < x + 1) : kround y ≤ kround x + 1 := by
  have hx := abs_le.1 (kround_sub_le x)
  have hy := abs_le.1 (kround_sub_le y)
  have : ((kround y : ℤ) : ℝ) < ((kround x + 2 : ℤ) : ℝ) := by push_cast; linarith [hx.1, hx.2, hy.1, hy.2]
  have : kround y < kround x + 2 := by exact_mod_cast this
  omega

/-! ### Enclosure of an expression tree -/

theorem cast_qabs (q : ℚ) : ((qabs q : ℚ) : ℝ) = |(q : ℝ)| := by
  unfold qabs
  split_ifs with h
  · have : (q : ℝ) < 0 := by exact_mod_cast h
    rw [abs_of_neg this]; push_cast; ring
  · have : (0 : ℝ) ≤ (q : ℝ) := by exact_mod_cast (not_lt.1 h)
    rw [abs_of_nonneg this]

theorem evalE_encl (x m : ℝ) (aux : List ℝ) (xc xr : ℚ) (hx : |x - (xc : ℝ)| ≤ (xr : ℝ)) (e : FExpr) :
    |evalE x m aux e - ((e.mid xc : ℚ) : ℝ)| ≤ ((e.rad xc xr : ℚ) : ℝ) ∧ (0 : ℝ) ≤ ((e.rad xc xr : ℚ) : ℝ) := by
  have hxr : (0 : ℝ) ≤ (xr : ℝ) := le_trans (abs_nonneg _) hx
  induction e with
  | lit c => simp [evalE, FExpr.mid, FExpr.rad, ofDec]
  | x => simp only [evalE, FExpr.mid, FExpr.rad]; exact ⟨hx, hxr⟩
  | sin a => simpa [evalE, FExpr.mid, FExpr.rad, psin] using Real.abs_sin_le_one _
  | cos a => simpa [evalE, FExpr.mid, FExpr.rad, pcos] using Real.abs_cos_le_one _
  | neg a ih =>
    refine ⟨?_, by simpa [FExpr.rad] using ih.2⟩
    have : -evalE x m aux a - ((-(a.mid xc) : ℚ) : ℝ) = -(evalE x m aux a - ((a.mid xc : ℚ) : ℝ)) := by
      push_cast; ring
    simp only [evalE, FExpr.mid, FExpr.rad]
    rw [this, abs_neg]; exact ih.1
  | add a b iha ihb =>
    simp only [evalE, FExpr.mid, FExpr.rad]
    push_cast
    refine ⟨?_, by linarith [iha.2, ihb.2]⟩
    have : evalE x m aux a + evalE x m aux b - (((a.mid xc : ℚ) : ℝ) + ((b.mid xc : ℚ) : ℝ))
        = (evalE x m aux a - ((a.mid xc : ℚ) : ℝ)) + (evalE x m aux b - ((b.mid xc : ℚ) : ℝ)) := by ring
    rw [this]
    exact le_trans (abs_add_le _ _) (add_le_add iha.1 ihb.1)
  | sub a b iha ihb =>
    simp only [evalE, FExpr.mid, FExpr.rad]
    push_cast
    refine ⟨?_, by linarith [iha.2, ihb.2]⟩
    have : evalE x m aux a - evalE x m aux b - (((a.mid xc : ℚ) : ℝ) - ((b.mid xc : ℚ) : ℝ))
        = (evalE x m aux a - ((a.mid xc : ℚ) : ℝ)) + -(evalE x m aux b - ((b.mid xc : ℚ) : ℝ)) := by ring
    rw [this]
    refine le_trans (abs_add_le _ _) (add_le_add iha.1 ?_)
    rw [abs_neg]; exact ihb.1
  | mul a b iha ihb =>
    simp only [evalE, FExpr.mid, FExpr.rad]
    push_cast
    rw [cast_qabs, cast_qabs]
    set A := evalE x m aux a
    set B := evalE x m aux b
    set ma := ((a.mid xc : ℚ) : ℝ)
    set mb := ((b.mid xc : ℚ) : ℝ)
    set ra := ((a.rad xc xr : ℚ) : ℝ)
    set rb := ((b.rad xc xr : ℚ) : ℝ)
    refine ⟨?_, by have := abs_nonneg ma; have := abs_nonneg mb; have := iha.2; have := ihb.2; positivity⟩
    have e1 : A * B - ma * mb = ma * (B - mb) + mb * (A - ma) + (A - ma) * (B - mb) := by ring
    rw [e1]
    have t1 : |ma * (B - mb)| ≤ |ma| * rb := by
      rw [abs_mul]; exact mul_le_mul_of_nonneg_left ihb.1 (abs_nonneg _)
    have t2 : |mb * (A - ma)| ≤ |mb| * ra := by
      rw [abs_mul]; exact mul_le_mul_of_nonneg_left iha.1 (abs_nonneg _)
    have t3 : |(A - ma) * (B - mb)| ≤ ra * rb := by
      rw [abs_mul]; exact mul_le_mul iha.1 ihb.1 (abs_nonneg _) iha.2
    calc |ma * (B - mb) + mb * (A - ma) + (A - ma) * (B - mb)|
        ≤ |ma * (B - mb) + mb * (A - ma)| + |(A - ma) * (B - mb)| := abs_add_le _ _
      _ ≤ |ma * (B - mb)| + |mb * (A - ma)| + |(A - ma) * (B - mb)| := by
          have := abs_add_le (ma * (B - mb)) (mb * (A - ma)); linarith
      _ ≤ |ma| * rb + |mb| * ra + ra * rb := by linarith

/-! ### The side conditions of a record, read over ℝ -/

theorem tMax_cast : ((tMax : ℚ) : ℝ) = 41 := by norm_num [tMax]

/-- `Finder.ok` as facts about the real constants of the model. -/
structure OkR (r : Finder) : Prop where
  hB : 0 < ofDec r.B
  hyc : 0 < ofDec r.yc
  htc : 0 < ofDec r.tc
  hgap : 0 < ofDec r.B - 2 * ((r.corrRad : ℚ) : ℝ)
  hlo : ofDec r.ylo = -2000
  hhi : ofDec r.yhi = 4000
  hycv : ofDec r.yc = 365.2425
  hy0v : ofDec r.y0 = 1721060
  htlo : -(41 * ofDec r.tc) ≤ ofDec r.yc * ofDec r.ylo + ofDec r.y0 - ofDec r.tj - ofDec r.B / 2
  hthi : ofDec r.yc * ofDec r.yhi + ofDec r.y0 - ofDec r.tj + ofDec r.B / 2 ≤ 41 * ofDec r.tc
  hpos : |((r.corrMid : ℚ) : ℝ)| + ((r.corrRad : ℚ) : ℝ) + 41 * ofDec r.tc ≤ ofDec r.tj

theorem okR_of_ok {r : Finder} (h : r.ok = true) : OkR r := by
  simp only [Finder.ok, Bool.and_eq_true, decide_eq_true_eq] at h
  obtain ⟨⟨⟨⟨⟨⟨⟨⟨⟨⟨h1, h2⟩, h3⟩, h4⟩, h5⟩, h6⟩, h9⟩, h10⟩, h7⟩, h8⟩, h11⟩ := h
  refine ⟨?_, ?_, ?_, ?_, ?_, ?_, ?_, ?_, ?_, ?_, ?_⟩ <;> unfold ofDec
  · exact_mod_cast h1
  · exact_mod_cast h2
  · exact_mod_cast h3
  · exact_mod_cast h4
  · exact_mod_cast h5
  · exact_mod_cast h6
  · rw [h9]; norm_num
  · rw [h10]; norm_num
  · rw [← tMax_cast]; exact_mod_cast h7
  · rw [← tMax_cast]; exact_mod_cast h8
  · rw [← tMax_cast, ← cast_qabs]; exact_mod_cast h11

/-! ### The period count -/

/-- The argument of `round` in `k = round((365.2425 * y + 1721060.0 - a) / b)`. -/
noncomputable def qarg (r : Finder) (y : ℝ) : ℝ := (ofDec r.yc * y + ofDec r.y0 - ofDec r.A) / ofDec r.B

theorem finder_k_eq (r : Finder) (y : ℝ) : finder_k r y = kround (qarg r y) := rfl

theorem qarg_mono {r : Finder} (h : OkR r) {y1 y2 : ℝ} (hy : y1 ≤ y2) : qarg r y1 ≤ qarg r y2 := by
  unfold qarg
  apply div_le_div_of_nonneg_right _ h.hB.le
  have := mul_le_mul_of_nonneg_left hy h.hyc.le
  linarith

theorem finder_k_mono {r : Finder} (h : OkR r) {y1 y2 : ℝ} (hy : y1 ≤ y2) : finder_k r y1 ≤ finder_k r y2 :=
  kround_mono (qarg_mono h hy)

theorem finder_k_step {r : Finder} (h : OkR r) {y1 y2 : ℝ}
    (hs : y2 - y1 < ofDec r.B / ofDec r.yc) : finder_k r y2 ≤ finder_k r y1 + 1 := by
  rw [finder_k_eq, finder_k_eq]
  apply kround_lt_add_one
  have hB := h.hB
  have hyc := h.hyc
  have e : qarg r y2 = qarg r y1 + ofDec r.yc * (y2 - y1) / ofDec r.B := by
    unfold qarg; field_simp; ring
  rw [e]
  have : ofDec r.yc * (y2 - y1) / ofDec r.B < 1 := by
    rw [div_lt_one hB]
    have := (lt_div_iff₀ hyc).1 hs
    linarith
  linarith

theorem qarg_attains {r : Finder} (h : OkR r) (n : ℤ) :
    qarg r (((n : ℝ) * ofDec r.B + ofDec r.A - ofDec r.y0) / ofDec r.yc) = n := by
  have hB := h.hB.ne'
  have hyc := h.hyc.ne'
  unfold qarg; field_simp; ring

theorem finder_k_onto {r : Finder} (h : OkR r) {y1 y2 : ℝ} (hy : y1 ≤ y2) (n : ℤ)
    (h1 : finder_k r y1 ≤ n) (h2 : n ≤ finder_k r y2) : ∃ y, y1 ≤ y ∧ y ≤ y2 ∧ finder_k r y = n := by
  rcases eq_or_lt_of_le h1 with e1 | l1
  · exact ⟨y1, le_refl _, hy, e1⟩
  rcases eq_or_lt_of_le h2 with e2 | l2
  · exact ⟨y2, hy, le_refl _, e2.symm⟩
  set ys := ((n : ℝ) * ofDec r.B + ofDec r.A - ofDec r.y0) / ofDec r.yc with hys
  have hk : finder_k r ys = n := by rw [finder_k_eq, qarg_attains h n, kround_intCast]
  refine ⟨ys, ?_, ?_, hk⟩
  · by_contra hc
    have := finder_k_mono h (le_of_lt (not_le.1 hc))
    omega
  · by_contra hc
    have := finder_k_mono h (le_of_lt (not_le.1 hc))
    omega

/-! ### jde0, t, corr, result -/

theorem jde0_near {r : Finder} (h : OkR r) (y : ℝ) :
    |finder_jde0 r (finder_k r y) - (ofDec r.yc * y + ofDec r.y0)| ≤ ofDec r.B / 2 := by
  have hB := h.hB
  have e : finder_jde0 r (finder_k r y) - (ofDec r.yc * y + ofDec r.y0)
      = -(ofDec r.B * (qarg r y - (kround (qarg r y) : ℝ))) := by
    unfold finder_jde0 ofInt qarg; rw [finder_k_eq]; unfold qarg; field_simp; ring
  rw [e, abs_neg, abs_mul, abs_of_pos hB]
  have := kround_sub_le (qarg r y)
  nlinarith

theorem t_bound {r : Finder} (h : OkR r) {y : ℝ} (hy1 : -2000 ≤ y) (hy2 : y ≤ 4000) :
    |finder_t r (finder_jde0 r (finder_k r y))| ≤ 41 := by
  have hj := abs_le.1 (jde0_near h y)
  have htc := h.htc
  have hlo := h.htlo
  have hhi := h.hthi
  rw [h.hlo] at hlo
  rw [h.hhi] at hhi
  have m1 := mul_le_mul_of_nonneg_left hy1 h.hyc.le
  have m2 := mul_le_mul_of_nonneg_left hy2 h.hyc.le
  unfold finder_t
  rw [abs_le]
  constructor
  · rw [le_div_iff₀ htc]; linarith [hj.1]
  · rw [div_le_iff₀ htc]; linarith [hj.2]

theorem corr_bound (r : Finder) (k : ℤ) (ht : |finder_t r (finder_jde0 r k)| ≤ 41) :
    |finder_corr r k - ((r.corrMid : ℚ) : ℝ)| ≤ ((r.corrRad : ℚ) : ℝ) := by
  unfold finder_corr Finder.corrMid Finder.corrRad
  apply (evalE_encl _ _ _ 0 tMax _ r.corr).1
  rw [tMax_cast]; simpa using ht

theorem result_diff (r : Finder) (k k' : ℤ) (ht : |finder_t r (finder_jde0 r k)| ≤ 41)
    (ht' : |finder_t r (finder_jde0 r k')| ≤ 41) :
    |finder_result r k' - finder_result r k - ((k' - k : ℤ) : ℝ) * ofDec r.B| ≤ 2 * ((r.corrRad : ℚ) : ℝ) := by
  have c := abs_le.1 (corr_bound r k ht)
  have c' := abs_le.1 (corr_bound r k' ht')
  unfold finder_result finder_jde0 ofInt
  rw [abs_le]
  push_cast
  constructor <;> linarith [c.1, c.2, c'.1, c'.2]

/-- The range check of the finders, for a record that passed `Finder.ok`. -/
theorem finder_raw_spec {r : Finder} (h : OkR r) (y : ℝ) :
    finder_raw r y = (if y < -2000 ∨ 4000 < y then .error .valueError else .ok (finder_result r (finder_k r y))) := by
  unfold finder_raw plt
  rw [h.hlo, h.hhi]
  by_cases a : y < -2000 <;> by_cases b : (4000 : ℝ) < y <;> simp [a, b]

/-- Accepted queries are in the domain, and the result is `jde0 + corr` of the count `k(y)`. -/
theorem ok_inv {r : Finder} (h : OkR r) {y a : ℝ} (ha : finder_raw r y = .ok a) :
    -2000 ≤ y ∧ y ≤ 4000 ∧ a = finder_result r (finder_k r y) := by
  rw [finder_raw_spec h y] at ha
  by_cases c : y < -2000 ∨ 4000 < y
  · simp [c] at ha
  · simp only [c, if_false, Except.ok.injEq] at ha
    have c' := not_or.1 c
    exact ⟨not_lt.1 c'.1, not_lt.1 c'.2, ha.symm⟩

/-- Results for period counts `k < k'` (both with `|t| ≤ 41`) are strictly ordered, at least `B - 2 C_f` apart. -/
theorem result_lt {r : Finder} (h : OkR r) {k k' : ℤ} (hk : k < k') (ht : |finder_t r (finder_jde0 r k)| ≤ 41)
    (ht' : |finder_t r (finder_jde0 r k')| ≤ 41) : finder_result r k < finder_result r k' := by
  have d := abs_le.1 (result_diff r k k' ht ht')
  have hB := h.hB
  have hg := h.hgap
  have h1 : (1 : ℝ) ≤ ((k' - k : ℤ) : ℝ) := by exact_mod_cast (by omega : (1 : ℤ) ≤ k' - k)
  nlinarith [d.1]

/-! ### `Angle(x).to_positive()` on a value that is already in [0, 360) -/

theorem reduce_deg_small {x : ℝ} (h : |x| < 360) : fnd_reduce_deg x = x := by
  unfold fnd_reduce_deg ple pabs
  have : ¬ ((360.0 : ℝ) ≤ |x|) := by norm_num; exact h
  simp [this]

theorem to_positive_nonneg {x : ℝ} (h : 0 ≤ x) : fnd_to_positive x = x := by
  unfold fnd_to_positive plt
  have : ¬ x < 0 := not_lt.2 h
  simp [this]

/-- The reported elongation of an elongation finder, when the series stays inside [0, 360): no reduction happens
    and the angle is within `elonRad` of `elonMid`. -/
theorem elon_bound (r : Finder) (e : FExpr) (he : r.elon = some e) (k : ℤ)
    (ht : |finder_t r (finder_jde0 r k)| ≤ 41)
    (hlo : (0 : ℝ) ≤ ((r.elonMid : ℚ) : ℝ) - ((r.elonRad : ℚ) : ℝ))
    (hhi : ((r.elonMid : ℚ) : ℝ) + ((r.elonRad : ℚ) : ℝ) < 360) :
    ∃ a, finder_elon r k = some a ∧ |a - ((r.elonMid : ℚ) : ℝ)| ≤ ((r.elonRad : ℚ) : ℝ) ∧ 0 ≤ a ∧ a < 360 := by
  have hm : r.elonMid = e.mid 0 := by unfold Finder.elonMid; rw [he]
  have hr : r.elonRad = e.rad 0 tMax := by unfold Finder.elonRad; rw [he]
  have enc := (evalE_encl (finder_t r (finder_jde0 r k)) (finder_m r k)
    (finder_aux r (finder_t r (finder_jde0 r k))) 0 tMax (by rw [tMax_cast]; simpa using ht) e).1
  rw [← hm, ← hr] at enc
  have b := abs_le.1 enc
  set v := evalE (finder_t r (finder_jde0 r k)) (finder_m r k) (finder_aux r (finder_t r (finder_jde0 r k))) e with hv
  have v0 : 0 ≤ v := by linarith [b.1]
  have v1 : v < 360 := by linarith [b.2]
  have habs : |v| < 360 := by rw [abs_of_nonneg v0]; exact v1
  refine ⟨v, ?_, enc, v0, v1⟩
  unfold finder_elon
  rw [he]
  simp only [← hv, reduce_deg_small habs, to_positive_nonneg v0]

/-! ### perihelion_aphelion: the first approximation -/

theorem cast_qmax (a b : ℚ) : ((qmax a b : ℚ) : ℝ) = max (a : ℝ) (b : ℝ) := by
  unfold qmax
  split_ifs with h
  · have : (a : ℝ) < (b : ℝ) := by exact_mod_cast h
    rw [max_eq_right this.le]
  · have : (b : ℝ) ≤ (a : ℝ) := by exact_mod_cast (not_lt.1 h)
    rw [max_eq_left this]

/-- `PAFinder.ok` over ℝ. -/
structure OkPA (r : PAFinder) : Prop where
  hC : 0 < ofDec r.C
  hhalf : ofDec r.half = 1 / 2
  hP : 0 < ofDec r.P
  hgap : 0 < ofDec r.P - ((r.var : ℚ) : ℝ)
  hk1 : ofDec r.C * (4000 - ofDec r.Y0) + 2 ≤ ((r.kMax : ℚ) : ℝ)
  hk2 : ofDec r.C * (ofDec r.Y0 + 2000) + 2 ≤ ((r.kMax : ℚ) : ℝ)

theorem okPA_of_ok {r : PAFinder} (h : r.ok = true) : OkPA r := by
  simp only [PAFinder.ok, Bool.and_eq_true, decide_eq_true_eq] at h
  obtain ⟨⟨⟨⟨⟨h1, h2⟩, h6⟩, h3⟩, h4⟩, h5⟩ := h
  refine ⟨?_, ?_, ?_, ?_, ?_, ?_⟩ <;> unfold ofDec
  · exact_mod_cast h1
  · rw [h2]; norm_num
  · exact_mod_cast h6
  · exact_mod_cast h3
  · exact_mod_cast h4
  · exact_mod_cast h5

/-- The half step of the variant: perihelia are at integer `k`, aphelia at `k - 1/2`. -/
noncomputable def paOff (r : PAFinder) (perihelion : Bool) : ℝ := if perihelion then 0 else ofDec r.half

theorem pa_k_eq (r : PAFinder) (y : ℝ) (p : Bool) :
    pa_k r y p = (kround (ofDec r.C * (y - ofDec r.Y0) + paOff r p) : ℝ) - paOff r p := by
  unfold pa_k paOff ofInt
  cases p <;> simp

theorem pa_k_mono {r : PAFinder} (h : OkPA r) (p : Bool) {y1 y2 : ℝ} (hy : y1 ≤ y2) :
    pa_k r y1 p ≤ pa_k r y2 p := by
  rw [pa_k_eq, pa_k_eq]
  have : kround (ofDec r.C * (y1 - ofDec r.Y0) + paOff r p) ≤ kround (ofDec r.C * (y2 - ofDec r.Y0) + paOff r p) := by
    apply kround_mono
    have := mul_le_mul_of_nonneg_left (sub_le_sub_right hy (ofDec r.Y0)) h.hC.le
    linarith
  have : ((kround (ofDec r.C * (y1 - ofDec r.Y0) + paOff r p) : ℤ) : ℝ)
      ≤ ((kround (ofDec r.C * (y2 - ofDec r.Y0) + paOff r p) : ℤ) : ℝ) := by exact_mod_cast this
  linarith

theorem pa_k_onto {r : PAFinder} (h : OkPA r) (p : Bool) {y1 y2 : ℝ} (hy : y1 ≤ y2) (n : ℤ)
    (h1 : pa_k r y1 p ≤ (n : ℝ) - paOff r p) (h2 : (n : ℝ) - paOff r p ≤ pa_k r y2 p) :
    ∃ y, y1 ≤ y ∧ y ≤ y2 ∧ pa_k r y p = (n : ℝ) - paOff r p := by
  rcases eq_or_lt_of_le h1 with e1 | l1
  · exact ⟨y1, le_refl _, hy, e1⟩
  rcases eq_or_lt_of_le h2 with e2 | l2
  · exact ⟨y2, hy, le_refl _, e2.symm⟩
  have hC := h.hC.ne'
  set ys := ((n : ℝ) - paOff r p) / ofDec r.C + ofDec r.Y0 with hys
  have hk : pa_k r ys p = (n : ℝ) - paOff r p := by
    rw [pa_k_eq]
    have : ofDec r.C * (ys - ofDec r.Y0) + paOff r p = (n : ℝ) := by rw [hys]; field_simp; ring
    rw [this, kround_intCast]
  refine ⟨ys, ?_, ?_, hk⟩
  · by_contra hc
    have := pa_k_mono h p (le_of_lt (not_le.1 hc))
    linarith
  · by_contra hc
    have := pa_k_mono h p (le_of_lt (not_le.1 hc))
    linarith

theorem pa_k_bound {r : PAFinder} (h : OkPA r) (p : Bool) {y : ℝ} (hy1 : -2000 ≤ y) (hy2 : y ≤ 4000) :
    |pa_k r y p| + 1 ≤ ((r.kMax : ℚ) : ℝ) := by
  rw [pa_k_eq]
  have hr := abs_le.1 (kround_sub_le (ofDec r.C * (y - ofDec r.Y0) + paOff r p))
  have m1 := mul_le_mul_of_nonneg_left (sub_le_sub_right hy1 (ofDec r.Y0)) h.hC.le
  have m2 := mul_le_mul_of_nonneg_left (sub_le_sub_right hy2 (ofDec r.Y0)) h.hC.le
  have hk1 := h.hk1
  have hk2 := h.hk2
  have : |(kround (ofDec r.C * (y - ofDec r.Y0) + paOff r p) : ℝ) - paOff r p| ≤ ((r.kMax : ℚ) : ℝ) - 1 := by
    rw [abs_le]; constructor <;> linarith [hr.1, hr.2]
  linarith

theorem optBound_spec (k : ℝ) (aux : List ℝ) (kmax : ℚ) (hk : |k| ≤ (kmax : ℝ)) :
    ∀ o : Option FExpr, ∀ e, o = some e → |evalE k 0 aux e| ≤ ((optBound kmax o : ℚ) : ℝ) := by
  intro o e ho
  subst ho
  have hk' : |k - ((0 : ℚ) : ℝ)| ≤ (kmax : ℝ) := by simpa using hk
  have := (evalE_encl k 0 aux 0 kmax hk' e).1
  unfold optBound
  push_cast
  rw [cast_qabs]
  have t := abs_sub_abs_le_abs_sub (evalE k 0 aux e) ((e.mid 0 : ℚ) : ℝ)
  linarith

/-- `jde = J0 + k * (P + k * Q) + c` with `|c| ≤ corrRad` (Earth's periodic terms; `c = 0` otherwise). -/
theorem pa_jde_form (r : PAFinder) (k : ℝ) (p : Bool) (hk : |k| ≤ ((r.kMax : ℚ) : ℝ)) :
    ∃ c : ℝ, |c| ≤ ((r.corrRad : ℚ) : ℝ) ∧
      pa_jde r k p = ofDec r.J0 + k * (ofDec r.P + k * ofDec r.Q) + c := by
  unfold pa_jde PAFinder.corrRad
  rw [cast_qmax]
  have nn1 : (0 : ℝ) ≤ ((optBound r.kMax r.corrPeri : ℚ) : ℝ) := by
    cases hcp : r.corrPeri with
    | none => simp [optBound]
    | some e => exact le_trans (abs_nonneg _) (optBound_spec k [] r.kMax hk (some e) e rfl)
  have nn2 : (0 : ℝ) ≤ ((optBound r.kMax r.corrAph : ℚ) : ℝ) := by
    cases hcp : r.corrAph with
    | none => simp [optBound]
    | some e => exact le_trans (abs_nonneg _) (optBound_spec k [] r.kMax hk (some e) e rfl)
  cases p with
  | true =>
    simp only [if_true]
    cases hcp : r.corrPeri with
    | none => rw [hcp] at nn1; exact ⟨0, by rw [abs_zero]; exact le_max_of_le_left nn1, by simp⟩
    | some e =>
      refine ⟨_, ?_, rfl⟩
      exact le_trans (optBound_spec k _ r.kMax hk (some e) e rfl) (le_max_left _ _)
  | false =>
    simp only [Bool.false_eq_true, if_false]
    cases hcp : r.corrAph with
    | none => rw [hcp] at nn2; exact ⟨0, by rw [abs_zero]; exact le_max_of_le_right nn2, by simp⟩
    | some e =>
      refine ⟨_, ?_, rfl⟩
      exact le_trans (optBound_spec k _ r.kMax hk (some e) e rfl) (le_max_right _ _)

theorem pa_jde_diff (r : PAFinder) (k : ℝ) (p : Bool) (hk : |k| ≤ ((r.kMax : ℚ) : ℝ))
    (hk' : |k + 1| ≤ ((r.kMax : ℚ) : ℝ)) :
    |pa_jde r (k + 1) p - pa_jde r k p - ofDec r.P| ≤ ((r.var : ℚ) : ℝ) := by
  obtain ⟨c, hc, e⟩ := pa_jde_form r k p hk
  obtain ⟨c', hc', e'⟩ := pa_jde_form r (k + 1) p hk'
  rw [e, e']
  unfold PAFinder.var
  push_cast
  rw [cast_qabs]
  have hq : |ofDec r.Q * (2 * k + 1)| ≤ |ofDec r.Q| * (2 * ((r.kMax : ℚ) : ℝ) + 1) := by
    rw [abs_mul]
    apply mul_le_mul_of_nonneg_left _ (abs_nonneg _)
    have a := abs_le.1 hk
    rw [abs_le]; constructor <;> linarith [a.1, a.2]
  have e2 : ofDec r.J0 + (k + 1) * (ofDec r.P + (k + 1) * ofDec r.Q) + c' -
      (ofDec r.J0 + k * (ofDec r.P + k * ofDec r.Q) + c) - ofDec r.P = ofDec r.Q * (2 * k + 1) + (c' - c) := by ring
  rw [e2]
  have a1 := abs_le.1 hc
  have a2 := abs_le.1 hc'
  have a3 := abs_le.1 hq
  have : ofDec r.Q = ((r.Q.toRat : ℚ) : ℝ) := rfl
  rw [← this]
  rw [abs_le]; constructor <;> linarith [a1.1, a1.2, a2.1, a2.2, a3.1, a3.2]

/-- The first approximation of the count chosen for the year `y` is within `P/2 + |Q| kMax² + C` of the
    instant `J0 + C_rate (y − Y0) P` the linear count formula assigns to the query. -/
theorem pa_near_query {r : PAFinder} (h : OkPA r) (p : Bool) {y : ℝ} (hy1 : -2000 ≤ y) (hy2 : y ≤ 4000) :
    |pa_jde r (pa_k r y p) p - (ofDec r.J0 + ofDec r.C * (y - ofDec r.Y0) * ofDec r.P)|
      ≤ ofDec r.P / 2 + |ofDec r.Q| * (((r.kMax : ℚ) : ℝ) * ((r.kMax : ℚ) : ℝ)) + ((r.corrRad : ℚ) : ℝ) := by
  have b := pa_k_bound h p hy1 hy2
  have hk : |pa_k r y p| ≤ ((r.kMax : ℚ) : ℝ) := by linarith
  obtain ⟨c, hc, e⟩ := pa_jde_form r (pa_k r y p) p hk
  rw [e]
  set k := pa_k r y p with hkdef
  have hP := h.hP
  have hr : |k - ofDec r.C * (y - ofDec r.Y0)| ≤ 1 / 2 := by
    have := kround_sub_le (ofDec r.C * (y - ofDec r.Y0) + paOff r p)
    rw [hkdef, pa_k_eq]
    rw [abs_sub_comm] at this
    have e2 : (kround (ofDec r.C * (y - ofDec r.Y0) + paOff r p) : ℝ) - paOff r p - ofDec r.C * (y - ofDec r.Y0)
        = (kround (ofDec r.C * (y - ofDec r.Y0) + paOff r p) : ℝ) - (ofDec r.C * (y - ofDec r.Y0) + paOff r p) := by ring
    rw [e2]; exact this
  have e3 : ofDec r.J0 + k * (ofDec r.P + k * ofDec r.Q) + c - (ofDec r.J0 + ofDec r.C * (y - ofDec r.Y0) * ofDec r.P)
      = (k - ofDec r.C * (y - ofDec r.Y0)) * ofDec r.P + (ofDec r.Q * (k * k) + c) := by ring
  rw [e3]
  have t1 : |(k - ofDec r.C * (y - ofDec r.Y0)) * ofDec r.P| ≤ ofDec r.P / 2 := by
    rw [abs_mul, abs_of_pos hP]; nlinarith [abs_nonneg (k - ofDec r.C * (y - ofDec r.Y0))]
  have t2 : |ofDec r.Q * (k * k)| ≤ |ofDec r.Q| * (((r.kMax : ℚ) : ℝ) * ((r.kMax : ℚ) : ℝ)) := by
    rw [abs_mul]
    apply mul_le_mul_of_nonneg_left _ (abs_nonneg _)
    rw [abs_mul]
    exact mul_le_mul hk hk (abs_nonneg _) (le_trans (abs_nonneg _) hk)
  calc |(k - ofDec r.C * (y - ofDec r.Y0)) * ofDec r.P + (ofDec r.Q * (k * k) + c)|
      ≤ |(k - ofDec r.C * (y - ofDec r.Y0)) * ofDec r.P| + |ofDec r.Q * (k * k) + c| := abs_add_le _ _
    _ ≤ |(k - ofDec r.C * (y - ofDec r.Y0)) * ofDec r.P| + (|ofDec r.Q * (k * k)| + |c|) := by
        have := abs_add_le (ofDec r.Q * (k * k)) c; linarith
    _ ≤ _ := by linarith

/-- First approximations for counts `k < k'` at least one apart (both within `kMax`) are strictly ordered. -/
theorem pa_jde_lt {r : PAFinder} (h : OkPA r) (p : Bool) {k k' : ℝ} (hk : |k| ≤ ((r.kMax : ℚ) : ℝ))
    (hk' : |k'| ≤ ((r.kMax : ℚ) : ℝ)) (h1 : k + 1 ≤ k') : pa_jde r k p < pa_jde r k' p := by
  obtain ⟨c, hc, e⟩ := pa_jde_form r k p hk
  obtain ⟨c', hc', e'⟩ := pa_jde_form r k' p hk'
  rw [e, e']
  have hg := h.hgap
  unfold PAFinder.var at hg
  push_cast at hg
  rw [cast_qabs] at hg
  have : ofDec r.Q = ((r.Q.toRat : ℚ) : ℝ) := rfl
  rw [← this] at hg
  have a1 := abs_le.1 hc
  have a2 := abs_le.1 hc'
  have b1 := abs_le.1 hk
  have b2 := abs_le.1 hk'
  -- (k' - k) * (P + Q (k + k')) ≥ (k' - k) * (P - |Q| * 2 kMax) ≥ P - |Q| * 2 kMax
  have hq : -(|ofDec r.Q| * (2 * ((r.kMax : ℚ) : ℝ))) ≤ ofDec r.Q * (k + k') := by
    have := abs_le.1 (show |ofDec r.Q * (k + k')| ≤ |ofDec r.Q| * (2 * ((r.kMax : ℚ) : ℝ)) by
      rw [abs_mul]; apply mul_le_mul_of_nonneg_left _ (abs_nonneg _)
      rw [abs_le]; constructor <;> linarith [b1.1, b1.2, b2.1, b2.2])
    exact this.1
  have hQ := abs_nonneg (ofDec r.Q)
  have e3 : ofDec r.J0 + k' * (ofDec r.P + k' * ofDec r.Q) + c' - (ofDec r.J0 + k * (ofDec r.P + k * ofDec r.Q) + c)
      = (k' - k) * (ofDec r.P + ofDec r.Q * (k + k')) + (c' - c) := by ring
  have pos : 0 < ofDec r.P + ofDec r.Q * (k + k') - 2 * ((r.corrRad : ℚ) : ℝ) := by nlinarith
  have hcr : (0 : ℝ) ≤ ((r.corrRad : ℚ) : ℝ) := le_trans (abs_nonneg _) hc
  have : (0 : ℝ) < (k' - k) * (ofDec r.P + ofDec r.Q * (k + k')) + (c' - c) := by nlinarith
  linarith

/-- First approximations of counts at least one apart are at least `P - var` apart. -/
theorem pa_jde_gap {r : PAFinder} (h : OkPA r) (p : Bool) {k k' : ℝ} (hk : |k| ≤ ((r.kMax : ℚ) : ℝ))
    (hk' : |k'| ≤ ((r.kMax : ℚ) : ℝ)) (h1 : k + 1 ≤ k') :
    ofDec r.P - ((r.var : ℚ) : ℝ) ≤ pa_jde r k' p - pa_jde r k p := by
  obtain ⟨c, hc, e⟩ := pa_jde_form r k p hk
  obtain ⟨c', hc', e'⟩ := pa_jde_form r k' p hk'
  rw [e, e']
  have hg := h.hgap
  unfold PAFinder.var at hg ⊢
  push_cast at hg ⊢
  rw [cast_qabs] at hg ⊢
  have : ofDec r.Q = ((r.Q.toRat : ℚ) : ℝ) := rfl
  rw [← this] at hg ⊢
  have a1 := abs_le.1 hc
  have a2 := abs_le.1 hc'
  have b1 := abs_le.1 hk
  have b2 := abs_le.1 hk'
  have hq : -(|ofDec r.Q| * (2 * ((r.kMax : ℚ) : ℝ))) ≤ ofDec r.Q * (k + k') := by
    have := abs_le.1 (show |ofDec r.Q * (k + k')| ≤ |ofDec r.Q| * (2 * ((r.kMax : ℚ) : ℝ)) by
      rw [abs_mul]; apply mul_le_mul_of_nonneg_left _ (abs_nonneg _)
      rw [abs_le]; constructor <;> linarith [b1.1, b1.2, b2.1, b2.2])
    exact this.1
  have hQ := abs_nonneg (ofDec r.Q)
  have hcr : (0 : ℝ) ≤ ((r.corrRad : ℚ) : ℝ) := le_trans (abs_nonneg _) hc
  have pos : 0 < ofDec r.P + ofDec r.Q * (k + k') := by nlinarith
  have e3 : ofDec r.J0 + k' * (ofDec r.P + k' * ofDec r.Q) + c' - (ofDec r.J0 + k * (ofDec r.P + k * ofDec r.Q) + c)
      = (k' - k) * (ofDec r.P + ofDec r.Q * (k + k')) + (c' - c) := by ring
  rw [e3]
  have : ofDec r.P + ofDec r.Q * (k + k') ≤ (k' - k) * (ofDec r.P + ofDec r.Q * (k + k')) := by nlinarith
  linarith

/-- First approximations of counts at least half a step apart (a perihelion and the following aphelion, or the
    reverse; the two variants may differ) are strictly ordered when half the period exceeds the variation. -/
theorem pa_jde_lt_half {r : PAFinder} (hg : 0 < ofDec r.P / 2 - ((r.var : ℚ) : ℝ)) (p p' : Bool) {k k' : ℝ}
    (hk : |k| ≤ ((r.kMax : ℚ) : ℝ)) (hk' : |k'| ≤ ((r.kMax : ℚ) : ℝ)) (h1 : k + 1 / 2 ≤ k') :
    pa_jde r k p < pa_jde r k' p' := by
  obtain ⟨c, hc, e⟩ := pa_jde_form r k p hk
  obtain ⟨c', hc', e'⟩ := pa_jde_form r k' p' hk'
  rw [e, e']
  unfold PAFinder.var at hg
  push_cast at hg
  rw [cast_qabs] at hg
  have : ofDec r.Q = ((r.Q.toRat : ℚ) : ℝ) := rfl
  rw [← this] at hg
  have a1 := abs_le.1 hc
  have a2 := abs_le.1 hc'
  have b1 := abs_le.1 hk
  have b2 := abs_le.1 hk'
  have hq : -(|ofDec r.Q| * (2 * ((r.kMax : ℚ) : ℝ))) ≤ ofDec r.Q * (k + k') := by
    have := abs_le.1 (show |ofDec r.Q * (k + k')| ≤ |ofDec r.Q| * (2 * ((r.kMax : ℚ) : ℝ)) by
      rw [abs_mul]; apply mul_le_mul_of_nonneg_left _ (abs_nonneg _)
      rw [abs_le]; constructor <;> linarith [b1.1, b1.2, b2.1, b2.2])
    exact this.1
  have hQ := abs_nonneg (ofDec r.Q)
  have hcr : (0 : ℝ) ≤ ((r.corrRad : ℚ) : ℝ) := le_trans (abs_nonneg _) hc
  have pos : 0 < ofDec r.P + ofDec r.Q * (k + k') := by nlinarith
  have : (0 : ℝ) < (k' - k) * (ofDec r.P + ofDec r.Q * (k + k')) + (c' - c) := by nlinarith
  have e3 : ofDec r.J0 + k' * (ofDec r.P + k' * ofDec r.Q) + c' - (ofDec r.J0 + k * (ofDec r.P + k * ofDec r.Q) + c)
      = (k' - k) * (ofDec r.P + ofDec r.Q * (k + k')) + (c' - c) := by ring
  linarith

end Pymeeus.Refine.Finders
